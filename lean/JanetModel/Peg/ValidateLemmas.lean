/- soundness of the translation validator (Peg/Validate.lean) -/
import JanetModel.Peg.Validate

namespace JanetModel.Peg
variable {α β : Type}

theorem toLoop_congr {k1 : DK α} {k2 : DK β} {r : α} {c : β} (h : k1 r = k2 c) : Den.toLoop k1 r = Den.toLoop k2 c := by
  funext isTo n
  induction n with
  | zero => rfl
  | succ n ih => funext s pos; simp only [Den.toLoop, h, ih]

theorem betweenLoop_congr {k1 : DK α} {k2 : DK β} {r : α} {c : β} (h : k1 r = k2 c) :
    Den.betweenLoop k1 r = Den.betweenLoop k2 c := by
  funext hi n
  induction n with
  | zero => rfl
  | succ n ih => funext cap s pos d; simp only [Den.betweenLoop, h, ih]

theorem lenLoop_congr {k1 : DK α} {k2 : DK β} {r : α} {c : β} (h : k1 r = k2 c) : Den.lenLoop k1 r = Den.lenLoop k2 c := by
  funext n
  induction n with
  | zero => rfl
  | succ n ih => funext s pos d; simp only [Den.lenLoop, h, ih]

theorem tilLoop_congr {k1 : DK α} {k2 : DK β} {r : α} {c : β} (h : k1 r = k2 c) : Den.tilLoop k1 r = Den.tilLoop k2 c := by
  funext n
  induction n with
  | zero => rfl
  | succ n ih => funext s pos; simp only [Den.tilLoop, h, ih]

theorem splitFind_congr {k1 : DK α} {k2 : DK β} {r : α} {c : β} (h : k1 r = k2 c) : Den.splitFind k1 r = Den.splitFind k2 c := by
  funext n
  induction n with
  | zero => rfl
  | succ n ih => funext s ce pos; simp only [Den.splitFind, h, ih]

theorem splitLoop_congr {k1 : DK α} {k2 : DK β} {a b : α} {a' b' : β} (h1 : k1 a = k2 a') (h2 : k1 b = k2 b') :
    Den.splitLoop k1 a b = Den.splitLoop k2 a' b' := by
  funext se n
  induction n with
  | zero => rfl
  | succ n ih => funext s cs pos d; simp only [Den.splitLoop, splitFind_congr h1, h2, ih]

theorem choiceLoop_congr {k1 : DK α} {k2 : DK β} :
    ∀ (rs : List α) (cs : List β), rs.length = cs.length → (∀ p ∈ rs.zip cs, k1 p.1 = k2 p.2) →
      Den.choiceLoop k1 rs = Den.choiceLoop k2 cs := by
  intro rs
  induction rs with
  | nil => intro cs hl _; cases cs with | nil => rfl | cons _ _ => simp at hl
  | cons r rest ih =>
    intro cs hl hk
    cases cs with
    | nil => simp at hl
    | cons c crest =>
      have e := hk (r, c) (by simp)
      have hrest := ih crest (by simpa using hl) (fun p hp => hk p (by simp [List.zip_cons_cons]; right; exact hp))
      cases rest with
      | nil =>
        cases crest with
        | nil => funext s pos; simp only [Den.choiceLoop, e]
        | cons _ _ => simp at hl
      | cons r' rest' =>
        cases crest with
        | nil => simp at hl
        | cons c' crest' => funext s pos; simp only [Den.choiceLoop, e, hrest]

theorem seqLoop_congr {k1 : DK α} {k2 : DK β} :
    ∀ (rs : List α) (cs : List β), rs.length = cs.length → (∀ p ∈ rs.zip cs, k1 p.1 = k2 p.2) →
      Den.seqLoop k1 rs = Den.seqLoop k2 cs := by
  intro rs
  induction rs with
  | nil => intro cs hl _; cases cs with | nil => rfl | cons _ _ => simp at hl
  | cons r rest ih =>
    intro cs hl hk
    cases cs with
    | nil => simp at hl
    | cons c crest =>
      have e := hk (r, c) (by simp)
      have hrest := ih crest (by simpa using hl) (fun p hp => hk p (by simp [List.zip_cons_cons]; right; exact hp))
      cases rest with
      | nil =>
        cases crest with
        | nil => funext s pos d; simp only [Den.seqLoop, e]
        | cons _ _ => simp at hl
      | cons r' rest' =>
        cases crest with
        | nil => simp at hl
        | cons c' crest' => funext s pos d; simp only [Den.seqLoop, e, hrest]

/-- matched instructions whose paired sub-rules mean the same mean the same -/
theorem step_congr (E : Env) {k1 : DK α} {k2 : DK β} (n : Nat) (i : Instr α) (j : Instr β) (pairs : List (α × β))
    (h : match2 i j = some pairs) (hk : ∀ p ∈ pairs, k1 p.1 = k2 p.2) :
    Den.step E k1 n i = Den.step E k2 n j := by
  cases i with
  | literal b => cases j <;> simp [match2] at h; obtain ⟨rfl, _⟩ := h; rfl
  | nchar b => cases j <;> simp [match2] at h; obtain ⟨rfl, _⟩ := h; rfl
  | notnchar b => cases j <;> simp [match2] at h; obtain ⟨rfl, _⟩ := h; rfl
  | range lo hi => cases j <;> simp [match2] at h; obtain ⟨⟨rfl, rfl⟩, _⟩ := h; rfl
  | set b => cases j <;> simp [match2] at h; obtain ⟨rfl, _⟩ := h; rfl
  | gettag a b => cases j <;> simp [match2] at h; obtain ⟨⟨rfl, rfl⟩, _⟩ := h; rfl
  | position b => cases j <;> simp [match2] at h; obtain ⟨rfl, _⟩ := h; rfl
  | line b => cases j <;> simp [match2] at h; obtain ⟨rfl, _⟩ := h; rfl
  | column b => cases j <;> simp [match2] at h; obtain ⟨rfl, _⟩ := h; rfl
  | backmatch b => cases j <;> simp [match2] at h; obtain ⟨rfl, _⟩ := h; rfl
  | argument a b => cases j <;> simp [match2] at h; obtain ⟨⟨rfl, rfl⟩, _⟩ := h; rfl
  | readint a b => cases j <;> simp [match2] at h; obtain ⟨⟨rfl, rfl⟩, _⟩ := h; rfl
  | constant v t =>
    cases j <;> simp [match2] at h
    obtain ⟨⟨hv, rfl⟩, _⟩ := h
    rw [Val.same_eq hv]; rfl
  | look off r =>
    cases j <;> simp [match2] at h
    obtain ⟨rfl, rfl⟩ := h
    have e := hk _ (List.mem_singleton.mpr rfl)
    funext s pos; simp only [Den.step, e]
  | not r =>
    cases j <;> simp [match2] at h
    subst h
    have e := hk _ (List.mem_singleton.mpr rfl)
    funext s pos; simp only [Den.step, e]
  | error r =>
    cases j <;> simp [match2] at h
    subst h
    have e := hk _ (List.mem_singleton.mpr rfl)
    funext s pos; simp only [Den.step, e]
  | drop r =>
    cases j <;> simp [match2] at h
    subst h
    have e := hk _ (List.mem_singleton.mpr rfl)
    funext s pos; simp only [Den.step, e]
  | onlytags r =>
    cases j <;> simp [match2] at h
    subst h
    have e := hk _ (List.mem_singleton.mpr rfl)
    funext s pos; simp only [Den.step, e]
  | to r =>
    cases j <;> simp [match2] at h
    subst h
    have e := hk _ (List.mem_singleton.mpr rfl)
    funext s pos; simp only [Den.step, toLoop_congr e]
  | thru r =>
    cases j <;> simp [match2] at h
    subst h
    have e := hk _ (List.mem_singleton.mpr rfl)
    funext s pos; simp only [Den.step, toLoop_congr e]
  | between lo hi r =>
    cases j <;> simp [match2] at h
    obtain ⟨⟨rfl, rfl⟩, rfl⟩ := h
    have e := hk _ (List.mem_singleton.mpr rfl)
    funext s pos; simp only [Den.step, betweenLoop_congr e]
  | capture r t =>
    cases j <;> simp [match2] at h
    obtain ⟨rfl, rfl⟩ := h
    have e := hk _ (List.mem_singleton.mpr rfl)
    funext s pos; simp only [Den.step, e]
  | accumulate r t =>
    cases j <;> simp [match2] at h
    obtain ⟨rfl, rfl⟩ := h
    have e := hk _ (List.mem_singleton.mpr rfl)
    funext s pos; simp only [Den.step, e]
  | group r t =>
    cases j <;> simp [match2] at h
    obtain ⟨rfl, rfl⟩ := h
    have e := hk _ (List.mem_singleton.mpr rfl)
    funext s pos; simp only [Den.step, e]
  | unref r t =>
    cases j <;> simp [match2] at h
    obtain ⟨rfl, rfl⟩ := h
    have e := hk _ (List.mem_singleton.mpr rfl)
    funext s pos; simp only [Den.step, e]
  | capturenum r b t =>
    cases j <;> simp [match2] at h
    obtain ⟨⟨rfl, rfl⟩, rfl⟩ := h
    have e := hk _ (List.mem_singleton.mpr rfl)
    funext s pos; simp only [Den.step, e]
  | nth m r t =>
    cases j <;> simp [match2] at h
    obtain ⟨⟨rfl, rfl⟩, rfl⟩ := h
    have e := hk _ (List.mem_singleton.mpr rfl)
    funext s pos; simp only [Den.step, e]
  | replace r v t =>
    cases j <;> simp [match2] at h
    obtain ⟨⟨hv, rfl⟩, rfl⟩ := h
    have e := hk _ (List.mem_singleton.mpr rfl)
    funext s pos; simp only [Den.step, e, Val.same_eq hv]
  | matchtime r v t =>
    cases j <;> simp [match2] at h
    obtain ⟨⟨hv, rfl⟩, rfl⟩ := h
    have e := hk _ (List.mem_singleton.mpr rfl)
    funext s pos; simp only [Den.step, e, Val.same_eq hv]
  | if_ a b =>
    cases j <;> simp [match2] at h
    rename_i a' b'
    subst h
    have e1 := hk (a, a') (by simp)
    have e2 := hk (b, b') (by simp)
    funext s pos; simp only [Den.step, e1, e2]
  | ifnot a b =>
    cases j <;> simp [match2] at h
    rename_i a' b'
    subst h
    have e1 := hk (a, a') (by simp)
    have e2 := hk (b, b') (by simp)
    funext s pos; simp only [Den.step, e1, e2]
  | lenprefix a b =>
    cases j <;> simp [match2] at h
    rename_i a' b'
    subst h
    have e1 := hk (a, a') (by simp)
    have e2 := hk (b, b') (by simp)
    funext s pos; simp only [Den.step, e1, lenLoop_congr e2]
  | sub a b =>
    cases j <;> simp [match2] at h
    rename_i a' b'
    subst h
    have e1 := hk (a, a') (by simp)
    have e2 := hk (b, b') (by simp)
    funext s pos; simp only [Den.step, e1, e2]
  | til a b =>
    cases j <;> simp [match2] at h
    rename_i a' b'
    subst h
    have e1 := hk (a, a') (by simp)
    have e2 := hk (b, b') (by simp)
    funext s pos; simp only [Den.step, tilLoop_congr e1, e2]
  | split a b =>
    cases j <;> simp [match2] at h
    rename_i a' b'
    subst h
    have e1 := hk (a, a') (by simp)
    have e2 := hk (b, b') (by simp)
    funext s pos; simp only [Den.step, splitLoop_congr e1 e2]
  | choice rs =>
    cases j <;> simp [match2] at h
    rename_i cs
    obtain ⟨hl, rfl⟩ := h
    have he : rs.isEmpty = cs.isEmpty := by cases rs <;> cases cs <;> simp at hl ⊢
    funext s pos
    simp only [Den.step, he, choiceLoop_congr rs cs hl hk]
  | sequence rs =>
    cases j <;> simp [match2] at h
    rename_i cs
    obtain ⟨hl, rfl⟩ := h
    have he : rs.isEmpty = cs.isEmpty := by cases rs <;> cases cs <;> simp at hl ⊢
    funext s pos
    simp only [Den.step, he, seqLoop_congr rs cs hl hk]

/-- **validate_sound**: validated ⇒ same denotation, for every fuel, state and position -/
theorem validate_sound (E : Env) (f1 : α → Option (Instr α)) (f2 : β → Option (Instr β)) :
    ∀ (k : Nat) (a : α) (c : β), validate f1 f2 k a c = true → ∀ fuel, Den.run E f1 fuel a = Den.run E f2 fuel c := by
  intro k
  induction k with
  | zero => intro a c h; simp [validate] at h
  | succ k ih =>
    intro a c h fuel
    simp only [validate] at h
    cases h1 : f1 a with
    | none => simp [h1] at h
    | some i =>
      cases h2 : f2 c with
      | none => simp [h1, h2] at h
      | some j =>
        simp only [h1, h2] at h
        cases hm : match2 i j with
        | none => simp [hm] at h
        | some pairs =>
          simp only [hm, List.all_eq_true] at h
          cases fuel with
          | zero => funext s pos; simp [Den.run]
          | succ f =>
            funext s pos
            simp only [Den.run, h1, h2]
            have := step_congr E (f + 1) i j pairs hm (fun p hp => ih p.1 p.2 (h p hp) f)
            rw [this]

end JanetModel.Peg
