/-
Fuel monotonicity of the DENOTATIONAL PEG model `Den.run`, by the same argument as `Peg/FuelMono.lean` for `Op.run`: every
loop and every case of `Den.step` is monotone for the flat order `Op.FLe` (`Err.fuel` = bottom) in the child runner and in the
loop fuel.  Core Lean only.
-/
import JanetModel.Peg.FuelMono
import JanetModel.Peg.Den

namespace JanetModel.Peg
namespace Den
open Op (FLe)
variable {ρ : Type}

/-- child runner `k'` answers whatever `k` answers, unless `k` ran out of fuel -/
def KLe (k k' : DK ρ) : Prop := ∀ r s p, FLe (k r s p) (k' r s p)

/-- close a goal `FLe lhs rhs` whose two sides have the same shape, given the recursive fact `ih` -/
macro "dmono" h:ident ih:term : tactic => `(tactic| repeat (first
  | exact FLe.refl _
  | exact FLe.bot _
  | exact $h _ _ _
  | exact $ih _ _
  | exact $ih _ _ _
  | exact $ih _ _ _ _
  | exact $ih _ _ _ _ _
  | refine FLe.bind ($h _ _ _) ?_
  | refine FLe.bind (FLe.refl _) ?_
  | refine FLe.ite (fun _ => ?_) (fun _ => ?_)
  | intro _
  | split))

theorem choiceLoop_mono {k k' : DK ρ} (h : KLe k k') :
    ∀ rs s pos, FLe (choiceLoop k rs s pos) (choiceLoop k' rs s pos)
  | [], s, pos => FLe.refl _
  | [r], s, pos => by simp only [choiceLoop]; exact h _ _ _
  | r :: r2 :: rs, s, pos => by
    have ih := choiceLoop_mono h (r2 :: rs)
    simp only [choiceLoop]
    dmono h ih

theorem seqLoop_mono {k k' : DK ρ} (h : KLe k k') :
    ∀ rs s pos d, FLe (seqLoop k rs s pos d) (seqLoop k' rs s pos d)
  | [], s, pos, d => FLe.refl _
  | [r], s, pos, d => by
    simp only [seqLoop]
    dmono h (fun (_ _ _ : Unit) => FLe.refl (Except.ok ()))
  | r :: r2 :: rs, s, pos, d => by
    have ih := seqLoop_mono h (r2 :: rs)
    simp only [seqLoop]
    dmono h ih

theorem toLoop_mono {k k' : DK ρ} (h : KLe k k') (r : ρ) (isTo : Bool) :
    ∀ n s pos, FLe (toLoop k r isTo n s pos) (toLoop k' r isTo n s pos)
  | 0, s, pos => FLe.refl _
  | n + 1, s, pos => by
    have ih := toLoop_mono h r isTo n
    simp only [toLoop]
    dmono h ih

theorem betweenLoop_kmono {k k' : DK ρ} (h : KLe k k') (r : ρ) (hi : Nat) :
    ∀ n c s pos d, FLe (betweenLoop k r hi n c s pos d) (betweenLoop k' r hi (n + 1) c s pos d)
  | 0, c, s, pos, d => FLe.bot _
  | n + 1, c, s, pos, d => by
    have ih := betweenLoop_kmono h r hi n
    rw [betweenLoop, betweenLoop]
    dmono h ih

theorem lenLoop_mono {k k' : DK ρ} (h : KLe k k') (r : ρ) :
    ∀ n s pos d, FLe (lenLoop k r n s pos d) (lenLoop k' r n s pos d)
  | 0, s, pos, d => FLe.refl _
  | n + 1, s, pos, d => by
    have ih := lenLoop_mono h r n
    simp only [lenLoop]
    dmono h ih

theorem tilLoop_mono {k k' : DK ρ} (h : KLe k k') (r : ρ) :
    ∀ n s pos, FLe (tilLoop k r n s pos) (tilLoop k' r n s pos)
  | 0, s, pos => FLe.refl _
  | n + 1, s, pos => by
    have ih := tilLoop_mono h r n
    simp only [tilLoop]
    dmono h ih

theorem splitFind_mono {k k' : DK ρ} (h : KLe k k') (sep : ρ) :
    ∀ n s ce pos, FLe (splitFind k sep n s ce pos) (splitFind k' sep n s ce pos)
  | 0, s, ce, pos => FLe.refl _
  | n + 1, s, ce, pos => by
    have ih := splitFind_mono h sep n
    simp only [splitFind]
    dmono h ih

theorem splitLoop_kmono {k k' : DK ρ} (h : KLe k k') (sep sub : ρ) (savedEnd : Nat) :
    ∀ n s cstart pos d, FLe (splitLoop k sep sub savedEnd n s cstart pos d) (splitLoop k' sep sub savedEnd (n + 1) s cstart pos d)
  | 0, s, cstart, pos, d => FLe.bot _
  | n + 1, s, cstart, pos, d => by
    have ih := splitLoop_kmono h sep sub savedEnd n
    rw [splitLoop, splitLoop]
    refine FLe.ite (fun _ => ?_) (fun _ => FLe.refl _)
    refine FLe.bind (FLe.refl _) (fun s0 => ?_)
    refine FLe.bind (splitFind_mono h sep _ _ _ _) ?_
    dmono h ih

macro "dmono_step" h:ident : tactic => `(tactic| first
  | exact FLe.refl _
  | exact $h _ _ _
  | exact choiceLoop_mono $h _ _ _
  | exact seqLoop_mono $h _ _ _ _
  | exact toLoop_mono $h _ _ _ _ _
  | exact lenLoop_mono $h _ _ _ _ _
  | exact splitLoop_kmono $h _ _ _ _ _ _ _ _
  | refine FLe.bind (betweenLoop_kmono $h _ _ _ _ _ _ _) ?_
  | refine FLe.bind (tilLoop_mono $h _ _ _ _) ?_
  | refine FLe.bind ($h _ _ _) ?_
  | refine FLe.bind (FLe.refl _) ?_
  | refine FLe.ite (fun _ => ?_) (fun _ => ?_)
  | intro _
  | split)

theorem step_mono (E : Env) {k k' : DK ρ} (h : KLe k k') (n : Nat) (i : Instr ρ) (s : St) (pos : Nat) :
    FLe (step E k n i s pos) (step E k' (n + 1) i s pos) := by
  cases i <;> simp only [step] <;> repeat (dmono_step h)

theorem run_mono_succ (E : Env) (fetch : ρ → Option (Instr ρ)) :
    ∀ fuel, KLe (run E fetch fuel) (run E fetch (fuel + 1))
  | 0 => fun _ _ _ => FLe.bot _
  | fuel + 1 => fun r s p => by
    rw [run, run]
    cases fetch r with
    | none => exact FLe.refl _
    | some i => exact step_mono E (run_mono_succ E fetch fuel) (fuel + 1) i s p

theorem run_mono_le (E : Env) (fetch : ρ → Option (Instr ρ)) (f g : Nat) (hfg : f ≤ g) :
    KLe (run E fetch f) (run E fetch g) := by
  induction hfg with
  | refl => exact fun _ _ _ => FLe.refl _
  | step _ ih =>
    intro r s p
    rcases ih r s p with h | h
    · exact Or.inl h
    · rw [h]; exact run_mono_succ E fetch _ r s p

/-- **Fuel monotonicity of `Den.run`** -/
theorem run_fuel_mono (E : Env) (fetch : ρ → Option (Instr ρ)) (f g : Nat) (hfg : f ≤ g) (r : ρ) (s : St) (pos : Nat)
    (hne : run E fetch f r s pos ≠ .error .fuel) : run E fetch g r s pos = run E fetch f r s pos := by
  rcases run_mono_le E fetch f g hfg r s pos with h | h
  · exact absurd h hne
  · exact h.symm

end Den
end JanetModel.Peg
