/-
Fuel monotonicity carried to the entry points peg/match, peg/find, peg/find-all, peg/replace, peg/replace-all (`Peg/Entry.lean`):
each is a loop over one match attempt `m : Matcher`, monotone in `m` for the flat order `Op.FLe`; a match attempt of the
operational model (`opMatcher`) resp. of the denotation (`denMatcher`) is monotone in its fuel.  Hence whatever an entry point
answers at some fuel - other than `Err.fuel` - it answers at every larger fuel.  Core Lean only.
-/
import JanetModel.Peg.FuelMono
import JanetModel.Peg.FuelMonoDen
import JanetModel.Peg.Entry

namespace JanetModel.Peg
namespace Entry
open Op (FLe)
variable {ρ : Type}

theorem FLe.eq_of_ne {α : Type} {a b : Except Err α} (h : FLe a b) (hne : a ≠ .error .fuel) : b = a := by
  rcases h with h | h
  · exact absurd h hne
  · exact h.symm

/-- matcher `m'` answers whatever `m` answers, unless `m` ran out of fuel -/
def MLe (m m' : Matcher) : Prop := ∀ start, FLe (m start) (m' start)

macro "emono" h:ident ih:term : tactic => `(tactic| repeat (first
  | exact FLe.refl _
  | exact $h _
  | exact $ih _
  | exact $ih _ _ _
  | refine FLe.bind ($h _) ?_
  | refine FLe.bind ($ih _) ?_
  | refine FLe.bind ($ih _ _ _) ?_
  | refine FLe.bind (FLe.refl _) ?_
  | refine FLe.ite (fun _ => ?_) (fun _ => ?_)
  | intro _
  | split))

theorem opMatcher_mono (E : Env) (fetch : ρ → Option (Instr ρ)) (main : ρ) (f g : Nat) (hfg : f ≤ g) (guard : Nat) :
    MLe (opMatcher E fetch main f guard) (opMatcher E fetch main g guard) := by
  intro start
  simp only [opMatcher]
  rcases Op.run_mono_le E fetch f g hfg main (initSt E guard) start with h | h
  · rw [h]; exact FLe.bot _
  · rw [h]; exact FLe.refl _

theorem denMatcher_mono (E : Env) (fetch : ρ → Option (Instr ρ)) (main : ρ) (f g : Nat) (hfg : f ≤ g) (guard : Nat) :
    MLe (denMatcher E fetch main f guard) (denMatcher E fetch main g guard) := by
  intro start
  simp only [denMatcher]
  rcases Den.run_mono_le E fetch f g hfg main (initSt E guard) start with h | h
  · rw [h]; exact FLe.bot _
  · rw [h]; exact FLe.refl _

theorem pegMatch_mono {m m' : Matcher} (h : MLe m m') (start : Nat) : FLe (pegMatch m start) (pegMatch m' start) := by
  simp only [pegMatch]
  emono h (fun (_ : Unit) => FLe.refl (Except.ok ()))

theorem findLoop_mono {m m' : Matcher} (h : MLe m m') : ∀ n i, FLe (findLoop m n i) (findLoop m' n i)
  | 0, i => FLe.refl _
  | n + 1, i => by
    have ih := findLoop_mono h n
    simp only [findLoop]
    emono h ih

theorem findAllLoop_mono {m m' : Matcher} (h : MLe m m') : ∀ n i, FLe (findAllLoop m n i) (findAllLoop m' n i)
  | 0, i => FLe.refl _
  | n + 1, i => by
    have ih := findAllLoop_mono h n
    simp only [findAllLoop]
    emono h ih

theorem replaceLoop_mono {m m' : Matcher} (h : MLe m m') (text : List Nat) (subst : Val) (onlyOne : Bool) :
    ∀ n i trail out, FLe (replaceLoop m text subst onlyOne n i trail out) (replaceLoop m' text subst onlyOne n i trail out)
  | 0, i, trail, out => FLe.refl _
  | n + 1, i, trail, out => by
    have ih := replaceLoop_mono h text subst onlyOne n
    simp only [replaceLoop]
    emono h ih

theorem pegFind_mono {m m' : Matcher} (h : MLe m m') (len start : Nat) : FLe (pegFind m len start) (pegFind m' len start) :=
  findLoop_mono h _ _

theorem pegFindAll_mono {m m' : Matcher} (h : MLe m m') (len start : Nat) :
    FLe (pegFindAll m len start) (pegFindAll m' len start) :=
  findAllLoop_mono h _ _

theorem pegReplace_mono {m m' : Matcher} (h : MLe m m') (text : List Nat) (subst : Val) (onlyOne : Bool) (start : Nat) :
    FLe (pegReplace m text subst onlyOne start) (pegReplace m' text subst onlyOne start) := by
  simp only [pegReplace]
  exact FLe.bind (replaceLoop_mono h text subst onlyOne _ _ _ _) (fun _ => FLe.refl _)

end Entry
end JanetModel.Peg
