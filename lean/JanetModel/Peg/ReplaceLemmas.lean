/- peg/replace(-all) loop = closed form over positions -/
import JanetModel.Peg.Entry

namespace JanetModel.Peg

theorem sl_self (t : List Nat) (a : Nat) : sl t a a = [] := by simp [sl]

theorem sl_append (t : List Nat) {a b c : Nat} (h1 : a ≤ b) (h2 : b ≤ c) : sl t a b ++ sl t b c = sl t a c := by
  unfold sl
  have hb : t.drop b = (t.drop a).drop (b - a) := by rw [List.drop_drop]; congr 1; omega
  have hc : c - a = (b - a) + (c - b) := by omega
  rw [hb, hc, List.take_add]

theorem sl_to_end (t : List Nat) {a b : Nat} (h : t.length ≤ b) : sl t a b = t.drop a := by
  unfold sl
  apply List.take_of_length_le
  simp; omega

theorem replaceLoop_spec (m : Matcher) (f : Nat → Option (Nat × List Val)) (g : List Nat → List Val → List Nat)
    (text : List Nat) (subst : Val) (one : Bool)
    (hmono : ∀ i e caps, f i = some (e, caps) → i ≤ e)
    (hsub : ∀ mt caps, substitute subst mt caps = .ok (g mt caps)) :
    ∀ (n i trail : Nat) (out : List Nat), trail ≤ i → text.length + 1 - i ≤ n →
      (∀ j, i ≤ j → j < text.length → m j = .ok (f j)) →
      ∃ out' trail', replaceLoop m text subst one n i trail out = .ok (out', trail') ∧
        out' ++ text.drop trail' = out ++ sl text trail i ++ replSpecGo f g text one n i := by
  intro n
  induction n with
  | zero =>
    intro i trail out ht hn _
    refine ⟨out, trail, rfl, ?_⟩
    simp only [replSpecGo, List.append_nil]
    rw [sl_to_end text (by omega)]
  | succ n ih =>
    intro i trail out ht hn hm
    simp only [replaceLoop, replSpecGo]
    by_cases hi : i < text.length
    · rw [if_pos hi, if_pos hi]
      rw [hm i (Nat.le_refl _) hi]
      simp only [bind, Except.bind]
      cases hf : f i with
      | none =>
        simp only
        obtain ⟨o, t', h1, h2⟩ := ih (i + 1) trail out (by omega) (by omega) (fun j h1 h2 => hm j (by omega) h2)
        refine ⟨o, t', h1, ?_⟩
        rw [h2, ← sl_append text ht (Nat.le_succ i)]
        simp [List.append_assoc]
      | some ec =>
        obtain ⟨e, caps⟩ := ec
        have hie := hmono i e caps hf
        simp only [hsub]
        have hout1 : (if trail < i then out ++ sl text trail i else out) = out ++ sl text trail i := by
          by_cases h : trail < i
          · rw [if_pos h]
          · have : trail = i := by omega
            subst this; rw [if_neg h, sl_self]; simp
        rw [hout1]
        cases one with
        | true =>
          simp only [if_true]
          exact ⟨_, _, rfl, by simp [List.append_assoc]⟩
        | false =>
          simp only [Bool.false_eq_true, if_false]
          by_cases hz : (e == i) = true
          · have hei : e = i := by simpa using hz
            subst hei
            rw [if_pos hz, if_pos hz]
            obtain ⟨o, t', h1, h2⟩ := ih (e + 1) e (out ++ sl text trail e ++ g (sl text e e) caps) (by omega) (by omega)
              (fun j h1 h2 => hm j (by omega) h2)
            refine ⟨o, t', h1, ?_⟩
            rw [h2]; simp [List.append_assoc]
          · have hne : e ≠ i := by simpa using hz
            rw [if_neg hz, if_neg hz]
            obtain ⟨o, t', h1, h2⟩ := ih e e (out ++ sl text trail i ++ g (sl text i e) caps) (Nat.le_refl _) (by omega)
              (fun j h1 h2 => hm j (by omega) h2)
            refine ⟨o, t', h1, ?_⟩
            rw [h2, sl_self]; simp [List.append_assoc]
    · rw [if_neg hi, if_neg hi]
      refine ⟨out, trail, rfl, ?_⟩
      rw [sl_to_end text (by omega)]; simp

end JanetModel.Peg
