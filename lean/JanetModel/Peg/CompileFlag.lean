/-
`has_backref` of the compile model is sound: when `compile` leaves the flag clear, no instruction at a rule address it logged
reads the tag stack, and the logged addresses are closed under sub-rule operands.  (The flag clause lives in `Fin` / `Frame` of
Peg/CompileCorrect.lean: a finished cache / log entry whose form compiles to RULE_GETTAG / RULE_BACKMATCH implies the flag.)
With Peg/BackrefLemmas.lean: what peg.c runs - the emitted bytecode from address 0 with tag recording switched by the flag - is
the documented meaning of the source, which always records tags.
-/
import JanetModel.Peg.CompileCorrect
import JanetModel.Peg.BackrefLemmas

namespace JanetModel.Peg
open JanetModel.Peg.Spec JanetModel.Peg.Compile

theorem readsTags_rebuild {ρ σ : Type} [Inhabited σ] (i : Instr ρ) (ks : List σ) : (i.rebuild ks).readsTags = i.readsTags := by
  cases i <;> rfl

theorem kids_rebuild {ρ σ : Type} [Inhabited σ] (i : Instr ρ) (ks : List σ) (h : ks.length = i.kids.length) :
    (i.rebuild ks).kids = ks := by
  cases i <;> simp [Instr.kids, Instr.rebuild] at h ⊢ <;>
    (rcases ks with _ | ⟨x, _ | ⟨y, _ | ⟨z, t⟩⟩⟩ <;> simp_all)

theorem compile_closed (dflt : Scope) (p : Patt) (o : Output) (h : compile dflt p = some o) (hf : o.hasBackref = false) :
    Backref.Closed (decode o.program) (fun a => ∃ c, (a, c) ∈ o.log) := by
  obtain ⟨_, hs⟩ := compile_sim_flag dflt p o h
  rintro a ⟨c, hac⟩ i hfetch
  obtain ⟨i0, as, bs, h1, h2, h3, h4, h5, h6⟩ := hs a c hac
  rw [h1] at hfetch; cases hfetch
  refine ⟨by rw [readsTags_rebuild]; exact h6 hf, fun c' hc' => ?_⟩
  rw [kids_rebuild i0 as h3] at hc'
  obtain ⟨n, hn, rfl⟩ := List.getElem_of_mem hc'
  have hnb : n < bs.length := by omega
  exact ⟨bs[n], h5 (as[n], bs[n]) (List.mem_iff_getElem.mpr ⟨n, by simp; omega, by simp⟩)⟩

end JanetModel.Peg
