/-
Fuel monotonicity of the operational PEG model: an answer of `Op.run` other than `Err.fuel` (the model artefact
"Lean recursion fuel exhausted") does not change when more fuel is given.  The C `peg_rule` has no fuel; this turns
"the model's fuel sufficed" into a property of the answer alone.

`FLe a b` := `a` is the fuel error, or `a = b` (the flat "definedness" order with `Err.fuel` as bottom).  `Except.bind`
is monotone for it, every loop of `Op` is monotone in the child runner (and in its own Lean fuel where it has one), hence
`Op.step` is, hence `Op.run` by induction on the fuel.
Core Lean only.
-/
import JanetModel.Peg.Op

namespace JanetModel.Peg
namespace Op
variable {ρ : Type}

/-- flat order with `Err.fuel` as bottom -/
def FLe {α : Type} (a b : Except Err α) : Prop := a = .error .fuel ∨ a = b

theorem FLe.refl {α : Type} (a : Except Err α) : FLe a a := Or.inr rfl

theorem FLe.bot {α : Type} (b : Except Err α) : FLe (.error .fuel) b := Or.inl rfl

theorem FLe.bind {α β : Type} {a b : Except Err α} {f g : α → Except Err β}
    (h : FLe a b) (hf : ∀ x, FLe (f x) (g x)) : FLe (a >>= f) (b >>= g) := by
  rcases h with h | h
  · subst h; exact Or.inl rfl
  · subst h
    cases a with
    | error e => exact Or.inr rfl
    | ok x => exact hf x

theorem FLe.ite {α : Type} {c : Prop} [Decidable c] {a a' b b' : Except Err α}
    (h1 : c → FLe a a') (h2 : ¬c → FLe b b') : FLe (if c then a else b) (if c then a' else b') := by
  by_cases hc : c
  · simp only [hc, if_true]; exact h1 hc
  · simp only [hc, if_false]; exact h2 hc

/-- child runner `k'` answers whatever `k` answers, unless `k` ran out of fuel -/
def KLe (k k' : OK ρ) : Prop := ∀ r s p, FLe (k r s p) (k' r s p)

theorem choiceLoop_mono {k k' : OK ρ} (h : KLe k k') (cs : CapState) :
    ∀ rs s pos, FLe (choiceLoop k cs rs s pos) (choiceLoop k' cs rs s pos)
  | [], s, pos => FLe.refl _
  | [r], s, pos => by simp only [choiceLoop]; exact h _ _ _
  | r :: r2 :: rs, s, pos => by
    simp only [choiceLoop]
    refine FLe.bind (h _ _ _) ?_
    rintro ⟨res, s1⟩
    cases res with
    | some p => exact FLe.refl _
    | none => exact choiceLoop_mono h cs (r2 :: rs) _ _

theorem seqLoop_mono {k k' : OK ρ} (h : KLe k k') :
    ∀ rs s pos, FLe (seqLoop k rs s pos) (seqLoop k' rs s pos)
  | [], s, pos => FLe.refl _
  | [r], s, pos => by simp only [seqLoop]; exact h _ _ _
  | r :: r2 :: rs, s, pos => by
    simp only [seqLoop]
    refine FLe.bind (h _ _ _) ?_
    rintro ⟨res, s1⟩
    cases res with
    | some p => exact seqLoop_mono h (r2 :: rs) _ _
    | none => exact FLe.refl _

theorem toLoop_mono {k k' : OK ρ} (h : KLe k k') (r : ρ) (isTo : Bool) (cs : CapState) :
    ∀ n s pos, FLe (toLoop k r isTo cs n s pos) (toLoop k' r isTo cs n s pos)
  | 0, s, pos => FLe.refl _
  | n + 1, s, pos => by
    simp only [toLoop]
    refine FLe.bind (h _ _ _) ?_
    rintro ⟨res, s1⟩
    cases res with
    | some p => exact FLe.refl _
    | none => exact toLoop_mono h r isTo cs n _ _

theorem betweenLoop_kmono {k k' : OK ρ} (h : KLe k k') (r : ρ) (hi : Nat) :
    ∀ n c s pos, FLe (betweenLoop k r hi n c s pos) (betweenLoop k' r hi (n + 1) c s pos)
  | 0, c, s, pos => FLe.bot _
  | n + 1, c, s, pos => by
    rw [betweenLoop, betweenLoop]
    refine FLe.ite (fun _ => ?_) (fun _ => FLe.refl _)
    refine FLe.bind (h _ _ _) ?_
    rintro ⟨res, s1⟩
    cases res with
    | none => exact FLe.refl _
    | some p =>
      dsimp only
      refine FLe.ite (fun _ => FLe.refl _) (fun _ => ?_)
      exact betweenLoop_kmono h r hi n _ _ _

theorem lenLoop_mono {k k' : OK ρ} (h : KLe k k') (r : ρ) (cs : CapState) :
    ∀ n s pos, FLe (lenLoop k r cs n s pos) (lenLoop k' r cs n s pos)
  | 0, s, pos => FLe.refl _
  | n + 1, s, pos => by
    simp only [lenLoop]
    refine FLe.bind (FLe.refl _) (fun s0 => ?_)
    refine FLe.bind (h _ _ _) ?_
    rintro ⟨res, s1⟩
    cases res with
    | none => exact FLe.refl _
    | some p => exact lenLoop_mono h r cs n _ _

theorem tilLoop_mono {k k' : OK ρ} (h : KLe k k') (r : ρ) :
    ∀ n s pos, FLe (tilLoop k r n s pos) (tilLoop k' r n s pos)
  | 0, s, pos => FLe.refl _
  | n + 1, s, pos => by
    simp only [tilLoop]
    refine FLe.bind (h _ _ _) ?_
    rintro ⟨res, s1⟩
    cases res with
    | some e => exact FLe.refl _
    | none => exact tilLoop_mono h r n _ _

theorem splitFind_mono {k k' : OK ρ} (h : KLe k k') (sep : ρ) (cs : CapState) :
    ∀ n s ce pos, FLe (splitFind k sep cs n s ce pos) (splitFind k' sep cs n s ce pos)
  | 0, s, ce, pos => FLe.refl _
  | n + 1, s, ce, pos => by
    simp only [splitFind]
    refine FLe.bind (h _ _ _) ?_
    rintro ⟨res, s1⟩
    cases res with
    | some c => exact FLe.refl _
    | none => exact splitFind_mono h sep cs n _ _ _

theorem splitLoop_kmono {k k' : OK ρ} (h : KLe k k') (sep sub : ρ) (savedEnd : Nat) :
    ∀ n s cstart pos, FLe (splitLoop k sep sub savedEnd n s cstart pos) (splitLoop k' sep sub savedEnd (n + 1) s cstart pos)
  | 0, s, cstart, pos => FLe.bot _
  | n + 1, s, cstart, pos => by
    rw [splitLoop, splitLoop]
    refine FLe.ite (fun _ => ?_) (fun _ => FLe.refl _)
    refine FLe.bind (FLe.refl _) (fun s0 => ?_)
    refine FLe.bind (splitFind_mono h sep _ _ _ _ _) ?_
    rintro ⟨chunkEnd, pos', s1⟩
    refine FLe.bind (FLe.refl _) (fun s4 => ?_)
    refine FLe.bind (h _ _ _) ?_
    rintro ⟨res, s5⟩
    cases res with
    | none => exact FLe.refl _
    | some p =>
      dsimp only
      refine FLe.ite (fun _ => FLe.refl _) (fun _ => ?_)
      exact splitLoop_kmono h sep sub savedEnd n _ _ _

/-- one structural step of the monotonicity argument -/
macro "fmono_step" h:ident : tactic => `(tactic| first
  | exact FLe.refl _
  | exact $h _ _ _
  | exact choiceLoop_mono $h _ _ _ _
  | exact seqLoop_mono $h _ _ _
  | exact toLoop_mono $h _ _ _ _ _ _
  | exact lenLoop_mono $h _ _ _ _ _
  | exact splitLoop_kmono $h _ _ _ _ _ _ _
  | refine FLe.bind (betweenLoop_kmono $h _ _ _ _ _ _) ?_
  | refine FLe.bind (tilLoop_mono $h _ _ _ _) ?_
  | refine FLe.bind ($h _ _ _) ?_
  | refine FLe.bind (FLe.refl _) ?_
  | refine FLe.ite (fun _ => ?_) (fun _ => ?_)
  | intro _
  | split)

theorem step_mono (E : Env) {k k' : OK ρ} (h : KLe k k') (n : Nat) (i : Instr ρ) (s : St) (pos : Nat) :
    FLe (step E k n i s pos) (step E k' (n + 1) i s pos) := by
  cases i <;> simp only [step] <;> repeat (fmono_step h)

/-- `run` with one more unit of fuel answers whatever `run` answered, unless that was `Err.fuel` -/
theorem run_mono_succ (E : Env) (fetch : ρ → Option (Instr ρ)) :
    ∀ fuel, KLe (run E fetch fuel) (run E fetch (fuel + 1))
  | 0 => fun _ _ _ => FLe.bot _
  | fuel + 1 => fun r s p => by
    rw [run, run]
    cases fetch r with
    | none => exact FLe.refl _
    | some i => exact step_mono E (run_mono_succ E fetch fuel) (fuel + 1) i s p

theorem run_mono_le (E : Env) (fetch : ρ → Option (Instr ρ)) (f g : Nat) (hfg : f ≤ g) :
    KLe (run E fetch f) (run E fetch g) := by
  induction hfg with
  | refl => exact fun _ _ _ => FLe.refl _
  | step _ ih =>
    intro r s p
    rcases ih r s p with h | h
    · exact Or.inl h
    · rw [h]; exact run_mono_succ E fetch _ r s p

/-- **Fuel monotonicity of `Op.run`**: for every program (`fetch`), environment, rule, state and position, an answer other
    than `Err.fuel` is the answer at every larger fuel. -/
theorem run_fuel_mono (E : Env) (fetch : ρ → Option (Instr ρ)) (f g : Nat) (hfg : f ≤ g) (r : ρ) (s : St) (pos : Nat)
    (hne : run E fetch f r s pos ≠ .error .fuel) : run E fetch g r s pos = run E fetch f r s pos := by
  rcases run_mono_le E fetch f g hfg r s pos with h | h
  · exact absurd h hne
  · exact h.symm

/-- two fuels that both suffice give the same answer: the fuel-free meaning of a PEG program is unique -/
theorem run_fuel_unique (E : Env) (fetch : ρ → Option (Instr ρ)) (f g : Nat) (r : ρ) (s : St) (pos : Nat)
    (hf : run E fetch f r s pos ≠ .error .fuel) (hg : run E fetch g r s pos ≠ .error .fuel) :
    run E fetch f r s pos = run E fetch g r s pos := by
  rcases Nat.le_total f g with h | h
  · exact (run_fuel_mono E fetch f g h r s pos hf).symm
  · exact run_fuel_mono E fetch g f h r s pos hg

end Op
end JanetModel.Peg
