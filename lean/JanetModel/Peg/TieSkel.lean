/-
Structural tie of ALL 37 opcode cases of `peg_rule`: the statements of the CURRENT peg.c, translated by
tools/gen/pegskel.py into programs of the IR `Peg/Skel.lean` (`Gen/PegSkel.lean`, regenerated on every run), executed by
`Skel.run`, ARE the corresponding cases of the hand-written operational model `Op.step` - for every environment, sub-rule
runner, state and position.  Built separately by checks/C12.py (like Peg/Tie.lean): on a tree where a case no longer does
what the model does, the theorem of that opcode fails and names it.
-/
import JanetModel.Gen.PegSkel
import JanetModel.Gen.Peg
import JanetModel.Peg.Skel
import JanetModel.Peg.SkelCongr

namespace JanetModel.Peg.TieSkel
open JanetModel.Peg JanetModel.Peg.Skel

variable {ρ : Type}

macro "skel_unfold" p:ident : tactic =>
  `(tactic| simp only [run, $p:ident, exec, execStmt, evalCond, evalVE, Loc.init, Op.step])
macro "skel_simp" : tactic =>
  `(tactic| simp [upd, opsRule, opsWord, bind, Except.bind, *])

/-- operands of an instruction with no constant operand -/
def ops (rules : List (Nat × ρ)) (words : List (Nat × Nat)) : Operands ρ := ⟨opsRule rules, opsWord words, fun _ => .nil, fun _ => []⟩

theorem rule_if (E : Env) (k : OK ρ) (n : Nat) (a b : ρ) (s : St) (pos : Nat) :
    run E k (ops [(1, a), (2, b)] []) Gen.PegSkel.RULE_IF s pos = Op.step E k n (.if_ a b) s pos := by
  skel_unfold Gen.PegSkel.RULE_IF
  simp only [ops]
  cases hd : down1 s <;> skel_simp
  rename_i s0
  cases hk : k a s0 pos <;> skel_simp
  rename_i x; obtain ⟨res, s1⟩ := x; cases res <;> skel_simp

theorem rule_ifnot (E : Env) (k : OK ρ) (n : Nat) (a b : ρ) (s : St) (pos : Nat) :
    run E k (ops [(1, a), (2, b)] []) Gen.PegSkel.RULE_IFNOT s pos = Op.step E k n (.ifnot a b) s pos := by
  skel_unfold Gen.PegSkel.RULE_IFNOT
  simp only [ops]
  cases hd : down1 s <;> skel_simp
  rename_i s0
  cases hk : k a s0 pos <;> skel_simp
  rename_i x; obtain ⟨res, s1⟩ := x; cases res <;> skel_simp

theorem rule_not (E : Env) (k : OK ρ) (n : Nat) (a : ρ) (s : St) (pos : Nat) :
    run E k (ops [(1, a)] []) Gen.PegSkel.RULE_NOT s pos = Op.step E k n (.not a) s pos := by
  skel_unfold Gen.PegSkel.RULE_NOT
  simp only [ops]
  cases hd : down1 s <;> skel_simp
  rename_i s0
  cases hk : k a s0 pos <;> skel_simp
  rename_i x; obtain ⟨res, s1⟩ := x; cases res <;> skel_simp

theorem rule_drop (E : Env) (k : OK ρ) (n : Nat) (r : ρ) (s : St) (pos : Nat) :
    run E k (ops [(1, r)] []) Gen.PegSkel.RULE_DROP s pos = Op.step E k n (.drop r) s pos := by
  skel_unfold Gen.PegSkel.RULE_DROP
  simp only [ops]
  cases hd : down1 s <;> skel_simp
  rename_i s0
  cases hk : k r s0 pos <;> skel_simp
  rename_i x; obtain ⟨res, s1⟩ := x; cases res <;> skel_simp

theorem rule_only_tags (E : Env) (k : OK ρ) (n : Nat) (r : ρ) (s : St) (pos : Nat) :
    run E k (ops [(1, r)] []) Gen.PegSkel.RULE_ONLY_TAGS s pos = Op.step E k n (.onlytags r) s pos := by
  skel_unfold Gen.PegSkel.RULE_ONLY_TAGS
  simp only [ops]
  cases hd : down1 s <;> skel_simp
  rename_i s0
  cases hk : k r s0 pos <;> skel_simp
  rename_i x; obtain ⟨res, s1⟩ := x; cases res <;> skel_simp

/-- RULE_SUB: the window is narrowed to where the window pattern ended, the sub-pattern runs from the START, and
    `s->text_end` gets back the value it had when the case was entered (an enclosing window stays in force) -/
theorem rule_sub (E : Env) (k : OK ρ) (n : Nat) (w r : ρ) (s : St) (pos : Nat) :
    run E k (ops [(1, w), (2, r)] []) Gen.PegSkel.RULE_SUB s pos = Op.step E k n (.sub w r) s pos := by
  skel_unfold Gen.PegSkel.RULE_SUB
  simp only [ops]
  cases hd : down1 s <;> skel_simp
  rename_i s0
  cases hk : k w s0 pos <;> skel_simp
  rename_i x; obtain ⟨res, s1⟩ := x; cases res <;> skel_simp
  rename_i we
  cases hd2 : down1 { up1 s1 with textEnd := we } <;> skel_simp
  rename_i s3
  cases hk2 : k r s3 pos <;> skel_simp
  rename_i x; obtain ⟨res, s4⟩ := x; cases res <;> skel_simp

/-- RULE_ACCUMULATE: only an UNTAGGED accumulate inside an accumulation runs its body in place; otherwise the mode is
    switched and restored, the accumulated text is cut off the scratch buffer and pushed (and tagged) as one capture -/
theorem rule_accumulate (E : Env) (k : OK ρ) (n : Nat) (r : ρ) (tag : Nat) (s : St) (pos : Nat) :
    run E k (ops [(1, r)] [(2, tag)]) Gen.PegSkel.RULE_ACCUMULATE s pos = Op.step E k n (.accumulate r tag) s pos := by
  skel_unfold Gen.PegSkel.RULE_ACCUMULATE
  simp only [ops]
  by_cases ht : tag = 0 <;> by_cases ha : s.acc = true <;> skel_simp
  all_goals
    cases hd : down1 { s with acc := true } with
    | error e => skel_simp
    | ok s0 =>
      skel_simp
      cases hk : k r s0 pos with
      | error e => skel_simp
      | ok x => obtain ⟨res, s1⟩ := x; cases res <;> skel_simp

theorem rule_capture (E : Env) (k : OK ρ) (n : Nat) (r : ρ) (tag : Nat) (s : St) (pos : Nat) :
    run E k (ops [(1, r)] [(2, tag)]) Gen.PegSkel.RULE_CAPTURE s pos = Op.step E k n (.capture r tag) s pos := by
  skel_unfold Gen.PegSkel.RULE_CAPTURE
  simp only [ops]
  cases hd : down1 s <;> skel_simp
  rename_i s0
  cases hk : k r s0 pos <;> skel_simp
  rename_i x; obtain ⟨res, s1⟩ := x; cases res <;> skel_simp
  rename_i p
  cases hs : E.slice (up1 s1) pos p <;> by_cases hb : E.hasBackref = true <;> by_cases ha : (up1 s1).acc = true <;> skel_simp

theorem rule_position (E : Env) (k : OK ρ) (n : Nat) (tag : Nat) (s : St) (pos : Nat) :
    run E k (ops [] [(1, tag)]) Gen.PegSkel.RULE_POSITION s pos = Op.step E k n (.position tag) s pos := by
  skel_unfold Gen.PegSkel.RULE_POSITION
  simp only [ops]
  skel_simp

theorem rule_constant (E : Env) (k : OK ρ) (n : Nat) (v : Val) (tag : Nat) (s : St) (pos : Nat) :
    run E k ⟨opsRule [], opsWord [(2, tag)], fun _ => v, fun _ => []⟩ Gen.PegSkel.RULE_CONSTANT s pos = Op.step E k n (.constant v tag) s pos := by
  skel_unfold Gen.PegSkel.RULE_CONSTANT
  skel_simp

/-- RULE_GROUP: mode switched to NORMAL and restored before every return; the captures above the saved height become one
    array capture -/
theorem rule_group (E : Env) (k : OK ρ) (n : Nat) (r : ρ) (tag : Nat) (s : St) (pos : Nat) :
    run E k (ops [(1, r)] [(2, tag)]) Gen.PegSkel.RULE_GROUP s pos = Op.step E k n (.group r tag) s pos := by
  skel_unfold Gen.PegSkel.RULE_GROUP
  simp only [ops, evalNE]
  cases hd : down1 { s with acc := false } with
  | error e => skel_simp
  | ok s0 =>
    skel_simp
    cases hk : k r s0 pos with
    | error e => skel_simp
    | ok x =>
      obtain ⟨res, s1⟩ := x
      have htake : ∀ (l : List Val) (c : Nat), List.take (l.length - c) (List.drop c l) = List.drop c l :=
        fun l c => List.take_of_length_le (by simp)
      cases res <;> skel_simp

theorem rule_nth (E : Env) (k : OK ρ) (n : Nat) (nth : Nat) (r : ρ) (tag : Nat) (s : St) (pos : Nat) :
    run E k (ops [(2, r)] [(1, nth), (3, tag)]) Gen.PegSkel.RULE_NTH s pos = Op.step E k n (.nth nth r tag) s pos := by
  skel_unfold Gen.PegSkel.RULE_NTH
  simp only [ops, evalNE, evalWE]
  cases hd : down1 { s with acc := false } with
  | error e => skel_simp
  | ok s0 =>
    skel_simp
    cases hk : k r s0 pos with
    | error e => skel_simp
    | ok x =>
      obtain ⟨res, s1⟩ := x
      cases res with
      | none => skel_simp
      | some p =>
        skel_simp
        generalize (if int32Max < nth then int32Max else nth) = m
        by_cases h : m < (up1 s1).caps.length - (capSave s).cap
        · have hlt : (capSave s).cap + m < (up1 s1).caps.length := by omega
          simp [h, List.getElem?_eq_getElem hlt, upd]
        · have hge : (up1 s1).caps.length ≤ (capSave s).cap + m := by omega
          simp [h, List.getElem?_eq_none hge]

theorem rule_error (E : Env) (k : OK ρ) (n : Nat) (r : ρ) (s : St) (pos : Nat) :
    run E k (ops [(1, r)] []) Gen.PegSkel.RULE_ERROR s pos = Op.step E k n (.error r) s pos := by
  skel_unfold Gen.PegSkel.RULE_ERROR
  simp only [ops, evalNE]
  cases hd : down1 { s with acc := false } with
  | error e => skel_simp
  | ok s0 =>
    skel_simp
    cases hk : k r s0 pos with
    | error e => skel_simp
    | ok x =>
      obtain ⟨res, s1⟩ := x
      cases res <;> skel_simp
      split <;> rfl

/-! ### loops -/

/-- what one iteration of the RULE_BETWEEN loop body does to the state and to the locals that matter -/
def BetweenBody (k : OK ρ) (r : ρ) (hi : Nat) (body : Loc → St → Except Err Out) : Prop :=
  ∀ (L : Loc) (s : St) (c pos : Nat), L.num 0 = c → L.ptr 0 = some pos →
    match k r s pos with
    | .error e => body L s = .error e
    | .ok (none, s1) => ∃ L1, body L s = .ok (.brk L1 (capLoad s1 (capSave s))) ∧ L1.num 0 = c ∧ L1.ptr 0 = some pos ∧ L1.cs 0 = L.cs 0
    | .ok (some p, s1) =>
      if p = pos ∧ hi = uintMax then
        ∃ L1, body L s = .ok (.brk L1 (capLoad s1 (capSave s))) ∧ L1.num 0 = c ∧ L1.ptr 0 = some pos ∧ L1.cs 0 = L.cs 0
      else ∃ L2, body L s = .ok (.cont L2 s1) ∧ L2.num 0 = c + 1 ∧ L2.ptr 0 = some p ∧ L2.cs 0 = L.cs 0

theorem between_loop (k : OK ρ) (r : ρ) (hi : Nat) (cond : Loc → St → Bool) (body : Loc → St → Except Err Out)
    (hcond : ∀ L s, cond L s = decide (L.num 0 < hi)) (hbody : BetweenBody k r hi body) :
    ∀ (n c : Nat) (s : St) (pos : Nat) (L : Loc), L.num 0 = c → L.ptr 0 = some pos →
      (∃ e, Op.betweenLoop k r hi n c s pos = .error e ∧ loopN cond body n L s = .error e) ∨
      (∃ c' p' s' L', Op.betweenLoop k r hi n c s pos = .ok (c', p', s') ∧ loopN cond body n L s = .ok (.cont L' s') ∧
        L'.num 0 = c' ∧ L'.ptr 0 = some p' ∧ L'.cs 0 = L.cs 0) := by
  intro n
  induction n with
  | zero => intro c s pos L _ _; left; exact ⟨.fuel, rfl, rfl⟩
  | succ n ih =>
    intro c s pos L hc hp
    simp only [Op.betweenLoop, loopN, hcond, hc]
    by_cases hlt : c < hi
    · simp only [hlt, if_true, decide_true]
      have hb := hbody L s c pos hc hp
      cases hk : k r s pos with
      | error e =>
        simp only [hk] at hb
        left; exact ⟨e, by simp [bind, Except.bind], by simp [hb, bind, Except.bind]⟩
      | ok x =>
        obtain ⟨res, s1⟩ := x
        cases res with
        | none =>
          simp only [hk] at hb
          obtain ⟨L1, h1, h2, h3, h4⟩ := hb
          right; exact ⟨c, pos, capLoad s1 (capSave s), L1, by simp [bind, Except.bind], by simp [h1, bind, Except.bind], h2, h3, h4⟩
        | some p =>
          simp only [hk] at hb
          by_cases hq : (p = pos ∧ hi = uintMax)
          · simp only [hq, and_self, if_true] at hb
            obtain ⟨L1, h1, h2, h3, h4⟩ := hb
            right; exact ⟨c, pos, capLoad s1 (capSave s), L1, by simp [bind, Except.bind, hq], by simp [h1, bind, Except.bind], h2, h3, h4⟩
          · simp only [hq, if_false] at hb
            obtain ⟨L2, h1, h2, h3, h4⟩ := hb
            have hq' : ¬ ((p == pos) = true ∧ (hi == uintMax) = true) := by simpa using hq
            rcases ih (c + 1) s1 p L2 h2 h3 with ⟨e, g1, g2⟩ | ⟨c', p', s', L', g1, g2, g3, g4, g5⟩
            · left
              refine ⟨e, ?_, by simp [h1, bind, Except.bind, g2]⟩
              simp only [bind, Except.bind, if_neg hq', g1]
            · right
              refine ⟨c', p', s', L', ?_, by simp [h1, bind, Except.bind, g2], g3, g4, g5.trans h4⟩
              simp only [bind, Except.bind, if_neg hq', g1]
    · right
      exact ⟨c, pos, s, L, by simp [hlt], by simp [hlt], hc, hp, rfl⟩

theorem between_body (E : Env) (k : OK ρ) (r : ρ) (lo hi fuel : Nat) :
    BetweenBody k r hi (fun L s => execL E k (ops [(3, r)] [(1, lo), (2, hi)]) fuel Gen.PegSkel.RULE_BETWEEN_body0 L s) := by
  intro L s c pos hc hp
  simp only [Gen.PegSkel.RULE_BETWEEN_body0, execL, execStmt, evalCond, evalWE, evalNE, ops]
  cases hk : k r s pos with
  | error e => simp [hk, hp, opsRule, bind, Except.bind]
  | ok x =>
    obtain ⟨res, s1⟩ := x
    cases res with
    | none => simp [hk, hp, hc, opsRule, opsWord, bind, Except.bind, upd]
    | some p =>
      simp only
      by_cases h1 : p = pos <;> by_cases h2 : hi = uintMax <;>
        simp [hk, hp, hc, h1, h2, opsRule, opsWord, bind, Except.bind, upd]

/-- RULE_BETWEEN: at most `hi` iterations, each with its own cap_save; a failing iteration (or an empty one of an unbounded
    repetition) is rolled back and ends the loop; fewer than `lo` iterations roll everything back -/
theorem rule_between (E : Env) (k : OK ρ) (n : Nat) (lo hi : Nat) (r : ρ) (s : St) (pos : Nat) :
    runL E k (ops [(3, r)] [(1, lo), (2, hi)]) n Gen.PegSkel.RULE_BETWEEN s pos = Op.step E k n (.between lo hi r) s pos := by
  simp only [runL, Gen.PegSkel.RULE_BETWEEN, execL, execStmt, evalNE, Loc.init, Op.step]
  cases hd : down1 s with
  | error e => simp [hd, bind, Except.bind]
  | ok s0 =>
    simp only [hd, bind, Except.bind]
    rcases between_loop k r hi (fun L s => evalCond E (ops [(3, r)] [(1, lo), (2, hi)]) L s (.numLtWord 0 (.op 2))) _ (fun L s => by simp [evalCond, evalWE, ops, opsWord]) (between_body E k r lo hi n) n 0 s0 pos
        { ptr := fun x => if x = 0 then some pos else none, cs := upd (fun _ => ⟨0, 0, 0⟩) 0 (capSave s), val := fun _ => .nil,
          num := upd (fun _ => 0) 0 0, oldmode := false } (by simp [upd]) (by simp) with
      ⟨e, g1, g2⟩ | ⟨c', p', s', L', g1, g2, g3, g4, g5⟩
    · rw [g2]; simp [g1]
    · rw [g2]
      simp only [g1, Gen.PegSkel.RULE_BETWEEN_rest0, execL, execStmt, evalCond, evalWE, ops, bind, Except.bind]
      by_cases hlo : c' < lo
      · simp [hlo, g3, g4, g5, opsWord, upd]
      · simp [hlo, g3, g4, g5, opsWord, upd]

/-! #### RULE_TO / RULE_THRU (one case in peg.c, `rule[0]` tells them apart) -/

/-- one iteration of the scanning loop -/
def ToBody (k : OK ρ) (r : ρ) (isTo : Bool) (body : Loc → St → Except Err Out) : Prop :=
  ∀ (L : Loc) (s : St) (pos : Nat), L.ptr 0 = some pos →
    match k r s pos with
    | .error e => body L s = .error e
    | .ok (none, s1) => ∃ L1, body L s = .ok (.cont L1 (capLoad s1 (capSave s))) ∧ L1.ptr 0 = some (pos + 1) ∧ L1.cs 0 = L.cs 0
    | .ok (some p, s1) => ∃ L1, body L s = .ok (.brk L1 (if isTo then capLoad s1 (capSave s) else s1)) ∧ L1.ptr 0 = some pos ∧
        L1.ptr 1 = some p ∧ L1.cs 0 = L.cs 0

theorem to_loop (k : OK ρ) (hk : KeepsWindow k) (r : ρ) (isTo : Bool) (cs : CapState) (cond : Loc → St → Bool)
    (body : Loc → St → Except Err Out)
    (hcond : ∀ L s pos, L.ptr 0 = some pos → cond L s = decide (pos ≤ s.textEnd)) (hbody : ToBody k r isTo body) :
    ∀ (n f : Nat) (s : St) (pos : Nat) (L : Loc), L.ptr 0 = some pos → n = s.textEnd + 1 - pos → n + 1 ≤ f →
      (∃ e, Op.toLoop k r isTo cs n s pos = .error e ∧ loopN cond body f L s = .error e) ∨
      (∃ s' L' pos', Op.toLoop k r isTo cs n s pos = .ok (none, capLoad (up1 s') cs) ∧ loopN cond body f L s = .ok (.cont L' s') ∧
        L'.ptr 0 = some pos' ∧ s'.textEnd < pos' ∧ L'.cs 0 = L.cs 0) ∨
      (∃ q s' L' pos', Op.toLoop k r isTo cs n s pos = .ok (some q, up1 s') ∧ loopN cond body f L s = .ok (.cont L' s') ∧
        L'.ptr 0 = some pos' ∧ pos' ≤ s'.textEnd ∧ L'.cs 0 = L.cs 0 ∧ (if isTo then q = pos' else L'.ptr 1 = some q)) := by
  intro n
  induction n with
  | zero =>
    intro f s pos L hp hn hf
    obtain ⟨f', rfl⟩ : ∃ f', f = f' + 1 := ⟨f - 1, by omega⟩
    have hgt : ¬ pos ≤ s.textEnd := by omega
    right; left
    exact ⟨s, L, pos, by simp [Op.toLoop], by simp [loopN, hcond L s pos hp, hgt], hp, by omega, rfl⟩
  | succ n ih =>
    intro f s pos L hp hn hf
    obtain ⟨f', rfl⟩ : ∃ f', f = f' + 1 := ⟨f - 1, by omega⟩
    have hle : pos ≤ s.textEnd := by omega
    simp only [Op.toLoop, loopN, hcond L s pos hp, hle, decide_true, if_true]
    have hb := hbody L s pos hp
    cases hkr : k r s pos with
    | error e =>
      simp only [hkr] at hb
      left; exact ⟨e, by simp [bind, Except.bind], by simp [hb, bind, Except.bind]⟩
    | ok x =>
      obtain ⟨res, s1⟩ := x
      have hw : s1.textEnd = s.textEnd := hk r s pos res s1 hkr
      cases res with
      | none =>
        simp only [hkr] at hb
        obtain ⟨L1, h1, h2, h3⟩ := hb
        have hw2 : (capLoad s1 (capSave s)).textEnd = s.textEnd := by simp [capLoad, hw]
        rcases ih f' (capLoad s1 (capSave s)) (pos + 1) L1 h2 (by rw [hw2]; omega) (by omega) with
          ⟨e, g1, g2⟩ | ⟨s', L', pos', g1, g2, g3, g4, g5⟩ | ⟨q, s', L', pos', g1, g2, g3, g4, g5, g6⟩
        · left; exact ⟨e, by simp [bind, Except.bind, g1], by simp [h1, bind, Except.bind, g2]⟩
        · right; left
          exact ⟨s', L', pos', by simp [bind, Except.bind, g1], by simp [h1, bind, Except.bind, g2], g3, g4, g5.trans h3⟩
        · right; right
          exact ⟨q, s', L', pos', by simp [bind, Except.bind, g1], by simp [h1, bind, Except.bind, g2], g3, g4, g5.trans h3, g6⟩
      | some p =>
        simp only [hkr] at hb
        obtain ⟨L1, h1, h2, h3, h4⟩ := hb
        right; right
        cases isTo with
        | true =>
          refine ⟨pos, capLoad s1 (capSave s), L1, pos, by simp [bind, Except.bind], by simp [h1, bind, Except.bind], h2,
            by simp [capLoad, hw, hle], h4, by simp⟩
        | false =>
          refine ⟨p, s1, L1, pos, by simp [bind, Except.bind], by simp [h1, bind, Except.bind], h2, by rw [hw]; exact hle, h4,
            by simpa using h3⟩

theorem to_body (E : Env) (k : OK ρ) (r : ρ) (isTo : Bool) (fuel : Nat) :
    ToBody k r isTo (fun L s => execL E k ⟨opsRule [(1, r)], opsWord [(0, if isTo then Gen.Peg.RULE_TO else Gen.Peg.RULE_THRU)],
      fun _ => .nil, fun _ => []⟩ fuel Gen.PegSkel.RULE_TO_body0 L s) := by
  intro L s pos hp
  simp only [Gen.PegSkel.RULE_TO_body0, execL, execStmt, evalCond]
  cases hk : k r s pos with
  | error e => simp [hk, hp, opsRule, bind, Except.bind]
  | ok x =>
    obtain ⟨res, s1⟩ := x
    cases res with
    | none => simp [hk, hp, opsRule, opsWord, bind, Except.bind, upd]
    | some p => cases isTo <;> simp [hk, hp, opsRule, opsWord, bind, Except.bind, upd]

/-- RULE_TO / RULE_THRU: every position of the window is tried with its own cap_save; `to` drops the captures of the match and
    ends where it started, `thru` keeps them and ends after it; nothing found rolls back to the state on entry.
    `fuel` is the Lean fuel of the IR loop (one unit per iteration and one for the exit test). -/
theorem rule_to_thru (E : Env) (k : OK ρ) (hk : KeepsWindow k) (n fuel : Nat) (isTo : Bool) (r : ρ) (s : St) (pos : Nat)
    (hf : s.textEnd + 1 - pos + 1 ≤ fuel) :
    runL E k ⟨opsRule [(1, r)], opsWord [(0, if isTo then Gen.Peg.RULE_TO else Gen.Peg.RULE_THRU)], fun _ => .nil, fun _ => []⟩ fuel
        Gen.PegSkel.RULE_TO s pos =
      Op.step E k n (if isTo then .to r else .thru r) s pos := by
  have hstep : Op.step E k n (if isTo then Instr.to r else Instr.thru r) s pos =
      (do let s0 ← down1 s; Op.toLoop k r isTo (capSave s) (s.textEnd + 1 - pos) s0 pos) := by
    cases isTo <;> simp [Op.step]
  rw [hstep]
  simp only [runL, Gen.PegSkel.RULE_TO, execL, execStmt, Loc.init]
  cases hd : down1 s with
  | error e => simp [hd, bind, Except.bind]
  | ok s0 =>
    have hs0 : s0.textEnd = s.textEnd := by
      unfold down1 at hd; split at hd <;> simp at hd; subst hd; rfl
    simp only [hd, bind, Except.bind]
    rcases to_loop k hk r isTo (capSave s)
        (fun L s => evalCond E ⟨opsRule [(1, r)], opsWord [(0, if isTo then Gen.Peg.RULE_TO else Gen.Peg.RULE_THRU)], fun _ => .nil, fun _ => []⟩ L s (.ptrLeEnd 0)) _
        (fun L s pos hp => by simp [evalCond, hp]) (to_body E k r isTo fuel) (s.textEnd + 1 - pos) fuel s0 pos
        { ptr := upd (fun x => if x = 0 then some pos else none) 1 none, cs := upd (fun _ => ⟨0, 0, 0⟩) 0 (capSave s),
          val := fun _ => .nil, num := fun _ => 0, oldmode := false }
        (by simp [upd]) (by rw [hs0]) (by omega) with
      ⟨e, g1, g2⟩ | ⟨s', L', pos', g1, g2, g3, g4, g5⟩ | ⟨q, s', L', pos', g1, g2, g3, g4, g5, g6⟩
    · rw [g2]; simp [g1]
    · rw [g2]
      have hgt : pos' > (up1 s').textEnd := by simpa [up1] using g4
      simp [g1, Gen.PegSkel.RULE_TO_rest0, execL, execStmt, evalCond, g3, g5, hgt, upd, bind, Except.bind]
    · rw [g2]
      have hle : ¬ pos' > (up1 s').textEnd := by simpa [up1] using g4
      cases isTo with
      | true =>
        simp only [if_true] at g6; subst g6
        simp [g1, Gen.PegSkel.RULE_TO_rest0, execL, execStmt, evalCond, g3, hle, opsWord, bind, Except.bind]
      | false =>
        simp only [Bool.false_eq_true, if_false] at g6
        simp [g1, Gen.PegSkel.RULE_TO_rest0, execL, execStmt, evalCond, g3, g6, hle, opsWord, bind, Except.bind]

/-! #### RULE_TIL -/

/-- one iteration of the terminus search: locals 1 = terminus_start, 2 = terminus_end, 0 = text (untouched) -/
def TilBody (k : OK ρ) (t : ρ) (body : Loc → St → Except Err Out) : Prop :=
  ∀ (L : Loc) (s : St) (pos : Nat), L.ptr 1 = some pos →
    match k t s pos with
    | .error e => body L s = .error e
    | .ok (none, s1) => ∃ L1, body L s = .ok (.cont L1 (capLoad s1 (capSave s))) ∧ L1.ptr 1 = some (pos + 1) ∧ L1.ptr 2 = none ∧
        L1.ptr 0 = L.ptr 0
    | .ok (some e, s1) => ∃ L1, body L s = .ok (.brk L1 (capLoad s1 (capSave s))) ∧ L1.ptr 1 = some pos ∧ L1.ptr 2 = some e ∧
        L1.ptr 0 = L.ptr 0

theorem til_loop (k : OK ρ) (hk : KeepsWindow k) (t : ρ) (cond : Loc → St → Bool) (body : Loc → St → Except Err Out)
    (hcond : ∀ L s pos, L.ptr 1 = some pos → cond L s = decide (pos ≤ s.textEnd)) (hbody : TilBody k t body) :
    ∀ (n f : Nat) (s : St) (pos : Nat) (L : Loc), L.ptr 1 = some pos → L.ptr 2 = none → n = s.textEnd + 1 - pos → n + 1 ≤ f →
      (∃ e, Op.tilLoop k t n s pos = .error e ∧ loopN cond body f L s = .error e) ∨
      (∃ s' L', Op.tilLoop k t n s pos = .ok (none, s') ∧ loopN cond body f L s = .ok (.cont L' s') ∧ L'.ptr 2 = none ∧
        L'.ptr 0 = L.ptr 0) ∨
      (∃ ps pe s' L', Op.tilLoop k t n s pos = .ok (some (ps, pe), s') ∧ loopN cond body f L s = .ok (.cont L' s') ∧
        L'.ptr 1 = some ps ∧ L'.ptr 2 = some pe ∧ L'.ptr 0 = L.ptr 0) := by
  intro n
  induction n with
  | zero =>
    intro f s pos L hp h2 hn hf
    obtain ⟨f', rfl⟩ : ∃ f', f = f' + 1 := ⟨f - 1, by omega⟩
    have hgt : ¬ pos ≤ s.textEnd := by omega
    right; left
    exact ⟨s, L, by simp [Op.tilLoop], by simp [loopN, hcond L s pos hp, hgt], h2, rfl⟩
  | succ n ih =>
    intro f s pos L hp h2 hn hf
    obtain ⟨f', rfl⟩ : ∃ f', f = f' + 1 := ⟨f - 1, by omega⟩
    have hle : pos ≤ s.textEnd := by omega
    simp only [Op.tilLoop, loopN, hcond L s pos hp, hle, decide_true, if_true]
    have hb := hbody L s pos hp
    cases hkr : k t s pos with
    | error e =>
      simp only [hkr] at hb
      left; exact ⟨e, by simp [bind, Except.bind], by simp [hb, bind, Except.bind]⟩
    | ok x =>
      obtain ⟨res, s1⟩ := x
      have hw : s1.textEnd = s.textEnd := hk t s pos res s1 hkr
      cases res with
      | none =>
        simp only [hkr] at hb
        obtain ⟨L1, h1, g1', g2', g0'⟩ := hb
        have hw2 : (capLoad s1 (capSave s)).textEnd = s.textEnd := by simp [capLoad, hw]
        rcases ih f' (capLoad s1 (capSave s)) (pos + 1) L1 g1' g2' (by rw [hw2]; omega) (by omega) with
          ⟨e, g1, g2⟩ | ⟨s', L', g1, g2, g3, g4⟩ | ⟨ps, pe, s', L', g1, g2, g3, g4, g5⟩
        · left; exact ⟨e, by simp [bind, Except.bind, g1], by simp [h1, bind, Except.bind, g2]⟩
        · right; left
          exact ⟨s', L', by simp [bind, Except.bind, g1], by simp [h1, bind, Except.bind, g2], g3, g4.trans g0'⟩
        · right; right
          exact ⟨ps, pe, s', L', by simp [bind, Except.bind, g1], by simp [h1, bind, Except.bind, g2], g3, g4, g5.trans g0'⟩
      | some e =>
        simp only [hkr] at hb
        obtain ⟨L1, h1, g1', g2', g0'⟩ := hb
        right; right
        exact ⟨pos, e, capLoad s1 (capSave s), L1, by simp [bind, Except.bind], by simp [h1, bind, Except.bind], g1', g2', g0'⟩

theorem til_body (E : Env) (k : OK ρ) (t r : ρ) (fuel : Nat) :
    TilBody k t (fun L s => execL E k (ops [(1, t), (2, r)] []) fuel Gen.PegSkel.RULE_TIL_body0 L s) := by
  intro L s pos hp
  simp only [Gen.PegSkel.RULE_TIL_body0, execL, execStmt, evalCond, ops]
  cases hk : k t s pos with
  | error e => simp [hk, hp, opsRule, bind, Except.bind]
  | ok x =>
    obtain ⟨res, s1⟩ := x
    cases res <;> simp [hk, hp, opsRule, bind, Except.bind, upd]

/-- RULE_TIL: the terminus is searched from the current position on (captures of every attempt dropped); the sub-pattern then
    runs from the START inside the window that ends where the terminus begins, the window is put back, and the match ends after
    the terminus -/
theorem rule_til (E : Env) (k : OK ρ) (hk : KeepsWindow k) (n fuel : Nat) (t r : ρ) (s : St) (pos : Nat)
    (hf : s.textEnd + 1 - pos + 1 ≤ fuel) :
    runL E k (ops [(1, t), (2, r)] []) fuel Gen.PegSkel.RULE_TIL s pos = Op.step E k n (.til t r) s pos := by
  simp only [runL, Gen.PegSkel.RULE_TIL, execL, execStmt, Loc.init, Op.step]
  cases hd : down1 s with
  | error e => simp [hd, bind, Except.bind]
  | ok s0 =>
    have hs0 : s0.textEnd = s.textEnd := by
      unfold down1 at hd; split at hd <;> simp at hd; subst hd; rfl
    simp only [hd, bind, Except.bind, if_true]
    rcases til_loop k hk t (fun L s => evalCond E (ops [(1, t), (2, r)] []) L s (.ptrLeEnd 1)) _
        (fun L s pos hp => by simp [evalCond, hp]) (til_body E k t r fuel) (s.textEnd + 1 - pos) fuel s0 pos
        { ptr := upd (upd (fun x => if x = 0 then some pos else none) 1 (some pos)) 2 none, cs := fun _ => ⟨0, 0, 0⟩,
          val := fun _ => .nil, num := fun _ => 0, oldmode := false }
        (by simp [upd]) (by simp [upd]) (by rw [hs0]) (by omega) with
      ⟨e, g1, g2⟩ | ⟨s', L', g1, g2, g3, g4⟩ | ⟨ps, pe, s', L', g1, g2, g3, g4, g5⟩
    · rw [g2]; simp [g1]
    · rw [g2]
      simp [g1, Gen.PegSkel.RULE_TIL_rest0, execL, execStmt, evalCond, g3, bind, Except.bind]
    · have g5' : L'.ptr 0 = some pos := by simpa [upd] using g5
      rw [g2]
      simp only [g1, Gen.PegSkel.RULE_TIL_rest0, execL, execStmt, evalCond, ops, bind, Except.bind]
      cases hd2 : down1 { up1 s' with textEnd := ps } with
      | error e => simp [hd2, g3, g4, g5', upd, opsRule]
      | ok s3 =>
        simp [hd2, g3, g4, g5', upd, opsRule]
        cases hk2 : k r s3 pos with
        | error e => simp [hk2]
        | ok x => obtain ⟨res, s4⟩ := x; cases res <;> simp [hk2, upd, g4]

/-! #### RULE_CHOICE -/

/-- operands of a variadic instruction: `rule[1]` = number of alternatives, `rule[2 + j]` = alternative j -/
def opsList (rs : List ρ) : Operands ρ :=
  ⟨fun j => if 2 ≤ j then rs[j - 2]? else none, opsWord [(1, rs.length)], fun _ => .nil, fun _ => []⟩

/-- one iteration of the loop over all alternatives but the last: local number 0 = i, capture state 0 = cs -/
def ChoiceBody (k : OK ρ) (rs : List ρ) (pos : Nat) (body : Loc → St → Except Err Out) : Prop :=
  ∀ (L : Loc) (s : St) (j : Nat) (r : ρ), L.num 0 = j → rs[j]? = some r → L.ptr 0 = some pos →
    match k r s pos with
    | .error e => body L s = .error e
    | .ok (some p, s1) => body L s = .ok (.ret (some p, up1 s1))
    | .ok (none, s1) => ∃ L1, body L s = .ok (.cont L1 (capLoad s1 (L.cs 0))) ∧ L1.num 0 = j + 1 ∧ L1.ptr 0 = some pos ∧
        L1.cs 0 = L.cs 0

/-- the loop followed by what comes after it (`up1; goto tail` on the last alternative) is `Op.choiceLoop` on the remaining
    alternatives -/
theorem choice_loop (k : OK ρ) (rs : List ρ) (cs : CapState) (pos : Nat) (cond : Loc → St → Bool)
    (body rest : Loc → St → Except Err Out)
    (hcond : ∀ L s, cond L s = decide (L.num 0 < rs.length - 1)) (hbody : ChoiceBody k rs pos body)
    (hrest : ∀ L s (r : ρ), L.ptr 0 = some pos → rs[rs.length - 1]? = some r →
      rest L s = (match k r (up1 s) pos with | .error e => .error e | .ok x => .ok (.ret x))) :
    ∀ (m j f : Nat) (L : Loc) (s : St), j + m + 1 = rs.length → m + 1 ≤ f → L.num 0 = j → L.ptr 0 = some pos → L.cs 0 = cs →
      (match loopN cond body f L s with
        | .error e => (Except.error e : Except Err Out)
        | .ok (.cont L' s') => rest L' s'
        | .ok (.brk _ _) => .error .badop
        | .ok (.ret x) => .ok (.ret x)) =
      (match Op.choiceLoop k cs (rs.drop j) s pos with | .error e => .error e | .ok x => .ok (.ret x)) := by
  intro m
  induction m with
  | zero =>
    intro j f L s hj hf hn hp hc
    obtain ⟨f', rfl⟩ : ∃ f', f = f' + 1 := ⟨f - 1, by omega⟩
    have hjl : j = rs.length - 1 := by omega
    have hlt : ¬ L.num 0 < rs.length - 1 := by omega
    have hr : ∃ r, rs[j]? = some r := ⟨rs[j]'(by omega), by simp⟩
    obtain ⟨r, hr⟩ := hr
    have hdrop : rs.drop j = [r] := by
      rw [List.drop_eq_getElem_cons (by omega : j < rs.length)]
      have : rs.drop (j + 1) = [] := List.drop_eq_nil_of_le (by omega)
      rw [this]
      have := List.getElem?_eq_some_iff.mp hr
      obtain ⟨_, h2⟩ := this; rw [h2]
    simp only [loopN, hcond, hlt, decide_false, Bool.false_eq_true, if_false, hdrop, Op.choiceLoop]
    exact hrest L s r hp (by rw [← hjl]; exact hr)
  | succ m ih =>
    intro j f L s hj hf hn hp hc
    obtain ⟨f', rfl⟩ : ∃ f', f = f' + 1 := ⟨f - 1, by omega⟩
    have hlt : L.num 0 < rs.length - 1 := by omega
    have hjl : j < rs.length := by omega
    have hj1 : j + 1 < rs.length := by omega
    have hdrop : rs.drop j = rs[j] :: rs[j + 1] :: rs.drop (j + 2) := by
      rw [List.drop_eq_getElem_cons hjl, List.drop_eq_getElem_cons hj1]
    have hb := hbody L s j rs[j] hn (by simp) hp
    simp only [loopN, hcond, hlt, decide_true, if_true, hdrop, Op.choiceLoop]
    cases hk : k rs[j] s pos with
    | error e => simp only [hk] at hb; simp [hb, bind, Except.bind]
    | ok x =>
      obtain ⟨res, s1⟩ := x
      cases res with
      | some p => simp only [hk] at hb; simp [hb, bind, Except.bind]
      | none =>
        simp only [hk] at hb
        obtain ⟨L1, h1, h2, h3, h4⟩ := hb
        have := ih (j + 1) f' L1 (capLoad s1 (L.cs 0)) (by omega) (by omega) h2 h3 (h4.trans hc)
        rw [List.drop_eq_getElem_cons hj1] at this
        simp only [h1, bind, Except.bind, hc] at this ⊢
        exact this

theorem choice_body (E : Env) (k : OK ρ) (rs : List ρ) (pos fuel : Nat) :
    ChoiceBody k rs pos (fun L s => execL E k (opsList rs) fuel Gen.PegSkel.RULE_CHOICE_body0 L s) := by
  intro L s j r hn hr hp
  simp only [Gen.PegSkel.RULE_CHOICE_body0, execL, execStmt, evalCond, evalRE, evalNE, opsList]
  have h2 : rs[L.num 0]? = some r := by rw [hn]; exact hr
  cases hk : k r s pos with
  | error e => simp [h2, hk, hp, bind, Except.bind]
  | ok x =>
    obtain ⟨res, s1⟩ := x
    cases res <;> simp [h2, hr, hk, hp, hn, bind, Except.bind, upd]

/-- RULE_CHOICE: one `cap_save` for the whole choice; every alternative but the last is tried under `down1`, a failing one is
    rolled back with `cap_load`; the last alternative is a tail call after `up1` -/
theorem rule_choice (E : Env) (k : OK ρ) (n fuel : Nat) (rs : List ρ) (s : St) (pos : Nat) (hf : rs.length + 1 ≤ fuel) :
    runL E k (opsList rs) fuel Gen.PegSkel.RULE_CHOICE s pos = Op.step E k n (.choice rs) s pos := by
  have hc0 : ∀ L s, evalCond E (opsList rs) L s (.tagZero 1) = (rs.length == 0) :=
    fun _ _ => by simp [evalCond, opsList, opsWord]
  simp only [runL, Gen.PegSkel.RULE_CHOICE, execL, execStmt, evalNE, Loc.init, Op.step, hc0]
  by_cases he : rs.isEmpty = true
  · have : rs.length = 0 := by simpa using he
    simp [he, this]
  · have hlen : rs.length ≠ 0 := by simpa using he
    have hlen' : (rs.length == 0) = false := by simpa using hlen
    simp only [he, hlen', Bool.false_eq_true, if_false]
    cases hd : down1 s with
    | error e => simp [hd, bind, Except.bind]
    | ok s0 =>
      simp only [hd, bind, Except.bind]
      have key := choice_loop k rs (capSave s0) pos
        (fun L s => evalCond E (opsList rs) L s (.numLtWordPred 0 (.op 1)))
        (fun L s => execL E k (opsList rs) fuel Gen.PegSkel.RULE_CHOICE_body0 L s)
        (fun L s => execL E k (opsList rs) fuel Gen.PegSkel.RULE_CHOICE_rest0 L s)
        (fun L s => by simp [evalCond, evalWE, opsList, opsWord])
        (choice_body E k rs pos fuel)
        (fun L s r hp hr => by
          have h2le : 2 ≤ 1 + rs.length := by omega
          have hx : rs[1 + rs.length - 2]? = some r := by
            rw [show 1 + rs.length - 2 = rs.length - 1 by omega]; exact hr
          simp [Gen.PegSkel.RULE_CHOICE_rest0, execL, execStmt, evalRE, opsList, opsWord, h2le, hx, hr, hp, bind, Except.bind]
          cases k r (up1 s) pos <;> rfl)
        (rs.length - 1) 0 fuel
        { ptr := fun x => if x = 0 then some pos else none, cs := upd (fun _ => ⟨0, 0, 0⟩) 0 (capSave s0), val := fun _ => .nil,
          num := upd (fun _ => 0) 0 0, oldmode := false } s0 (by omega) (by omega) (by simp [upd]) (by simp) (by simp [upd])
      simp only [List.drop_zero] at key
      generalize loopN _ _ fuel _ s0 = X at key ⊢
      cases hc : Op.choiceLoop k (capSave s0) rs s0 pos <;> rcases X with e | (⟨L', s'⟩ | ⟨L', s'⟩ | x) <;> simp_all

/-! #### RULE_SEQUENCE -/

/-- one iteration: `text = peg_rule(s, args[i], text); i++` -/
def SeqBody (k : OK ρ) (rs : List ρ) (body : Loc → St → Except Err Out) : Prop :=
  ∀ (L : Loc) (s : St) (j pos : Nat) (r : ρ), L.num 0 = j → rs[j]? = some r → L.ptr 0 = some pos →
    match k r s pos with
    | .error e => body L s = .error e
    | .ok (res, s1) => ∃ L1, body L s = .ok (.cont L1 s1) ∧ L1.num 0 = j + 1 ∧ L1.ptr 0 = res

theorem seq_loop (k : OK ρ) (rs : List ρ) (cond : Loc → St → Bool) (body rest : Loc → St → Except Err Out)
    (hcond : ∀ L s, cond L s = ((L.ptr 0).isSome && decide (L.num 0 < rs.length - 1))) (hbody : SeqBody k rs body)
    (hrest0 : ∀ L s, L.ptr 0 = none → rest L s = .ok (.ret (none, up1 s)))
    (hrest : ∀ L s (pos : Nat) (r : ρ), L.ptr 0 = some pos → rs[rs.length - 1]? = some r →
      rest L s = (match k r (up1 s) pos with | .error e => .error e | .ok x => .ok (.ret x))) :
    ∀ (m j f : Nat) (L : Loc) (s : St) (pos : Nat), j + m + 1 = rs.length → m + 1 ≤ f → L.num 0 = j → L.ptr 0 = some pos →
      (match loopN cond body f L s with
        | .error e => (Except.error e : Except Err Out)
        | .ok (.cont L' s') => rest L' s'
        | .ok (.brk _ _) => .error .badop
        | .ok (.ret x) => .ok (.ret x)) =
      (match Op.seqLoop k (rs.drop j) s pos with | .error e => .error e | .ok x => .ok (.ret x)) := by
  intro m
  induction m with
  | zero =>
    intro j f L s pos hj hf hn hp
    obtain ⟨f', rfl⟩ : ∃ f', f = f' + 1 := ⟨f - 1, by omega⟩
    have hjl : j = rs.length - 1 := by omega
    have hlt : ¬ L.num 0 < rs.length - 1 := by omega
    obtain ⟨r, hr⟩ : ∃ r, rs[j]? = some r := ⟨rs[j]'(by omega), by simp⟩
    have hdrop : rs.drop j = [r] := by
      rw [List.drop_eq_getElem_cons (by omega : j < rs.length)]
      have : rs.drop (j + 1) = [] := List.drop_eq_nil_of_le (by omega)
      rw [this]
      obtain ⟨_, h2⟩ := List.getElem?_eq_some_iff.mp hr; rw [h2]
    simp only [loopN, hcond, hlt, decide_false, Bool.and_false, Bool.false_eq_true, if_false, hdrop, Op.seqLoop]
    exact hrest L s pos r hp (by rw [← hjl]; exact hr)
  | succ m ih =>
    intro j f L s pos hj hf hn hp
    obtain ⟨f', rfl⟩ : ∃ f', f = f' + 1 := ⟨f - 1, by omega⟩
    have hlt : L.num 0 < rs.length - 1 := by omega
    have hjl : j < rs.length := by omega
    have hj1 : j + 1 < rs.length := by omega
    have hdrop : rs.drop j = rs[j] :: rs[j + 1] :: rs.drop (j + 2) := by
      rw [List.drop_eq_getElem_cons hjl, List.drop_eq_getElem_cons hj1]
    have hb := hbody L s j pos rs[j] hn (by simp) hp
    simp only [loopN, hcond, hp, hlt, Option.isSome_some, decide_true, Bool.and_self, if_true, hdrop, Op.seqLoop]
    cases hk : k rs[j] s pos with
    | error e => simp only [hk] at hb; simp [hb, bind, Except.bind]
    | ok x =>
      obtain ⟨res, s1⟩ := x
      simp only [hk] at hb
      obtain ⟨L1, h1, h2, h3⟩ := hb
      cases res with
      | none =>
        -- the next loop test sees text == NULL and leaves the loop
        obtain ⟨f'', rfl⟩ : ∃ f'', f' = f'' + 1 := ⟨f' - 1, by omega⟩
        simp [h1, bind, Except.bind, loopN, hcond, h3, hrest0 L1 s1 h3]
      | some p =>
        have := ih (j + 1) f' L1 s1 p (by omega) (by omega) h2 h3
        rw [List.drop_eq_getElem_cons hj1] at this
        simp only [h1, bind, Except.bind] at this ⊢
        exact this

theorem seq_body (E : Env) (k : OK ρ) (rs : List ρ) (fuel : Nat) :
    SeqBody k rs (fun L s => execL E k (opsList rs) fuel Gen.PegSkel.RULE_SEQUENCE_body0 L s) := by
  intro L s j pos r hn hr hp
  simp only [Gen.PegSkel.RULE_SEQUENCE_body0, execL, execStmt, evalCond, evalRE, evalNE, opsList]
  have h2 : rs[L.num 0]? = some r := by rw [hn]; exact hr
  cases hk : k r s pos with
  | error e => simp [h2, hr, hk, hp, bind, Except.bind]
  | ok x => obtain ⟨res, s1⟩ := x; simp [h2, hr, hk, hp, hn, bind, Except.bind, upd]

/-- RULE_SEQUENCE: all elements but the last under one `down1`, stopping at the first failure; the last element is a tail
    call after `up1` -/
theorem rule_sequence (E : Env) (k : OK ρ) (n fuel : Nat) (rs : List ρ) (s : St) (pos : Nat) (hf : rs.length + 1 ≤ fuel) :
    runL E k (opsList rs) fuel Gen.PegSkel.RULE_SEQUENCE s pos = Op.step E k n (.sequence rs) s pos := by
  have hc0 : ∀ L s, evalCond E (opsList rs) L s (.tagZero 1) = (rs.length == 0) :=
    fun _ _ => by simp [evalCond, opsList, opsWord]
  simp only [runL, Gen.PegSkel.RULE_SEQUENCE, execL, execStmt, evalNE, Loc.init, Op.step, hc0]
  by_cases he : rs.isEmpty = true
  · have : rs.length = 0 := by simpa using he
    simp [he, this]
  · have hlen : rs.length ≠ 0 := by simpa using he
    have hlen' : (rs.length == 0) = false := by simpa using hlen
    simp only [he, hlen', Bool.false_eq_true, if_false]
    cases hd : down1 s with
    | error e => simp [hd, bind, Except.bind]
    | ok s0 =>
      simp only [hd, bind, Except.bind]
      have key := seq_loop k rs
        (fun L s => evalCond E (opsList rs) L s (.and (.not (.isNull 0)) (.numLtWordPred 0 (.op 1))))
        (fun L s => execL E k (opsList rs) fuel Gen.PegSkel.RULE_SEQUENCE_body0 L s)
        (fun L s => execL E k (opsList rs) fuel Gen.PegSkel.RULE_SEQUENCE_rest0 L s)
        (fun L s => by cases h : L.ptr 0 <;> simp [evalCond, evalWE, opsList, opsWord, h])
        (seq_body E k rs fuel)
        (fun L s h0 => by simp [Gen.PegSkel.RULE_SEQUENCE_rest0, execL, execStmt, evalCond, h0, bind, Except.bind])
        (fun L s pos r hp hr => by
          have h2le : 2 ≤ 1 + rs.length := by omega
          have hx : rs[1 + rs.length - 2]? = some r := by
            rw [show 1 + rs.length - 2 = rs.length - 1 by omega]; exact hr
          simp [Gen.PegSkel.RULE_SEQUENCE_rest0, execL, execStmt, evalCond, evalRE, opsList, opsWord, h2le, hx, hr, hp, bind, Except.bind]
          cases k r (up1 s) pos <;> rfl)
        (rs.length - 1) 0 fuel
        { ptr := fun x => if x = 0 then some pos else none, cs := fun _ => ⟨0, 0, 0⟩, val := fun _ => .nil,
          num := upd (fun _ => 0) 0 0, oldmode := false } s0 pos (by omega) (by omega) (by simp [upd]) (by simp)
      simp only [List.drop_zero] at key
      generalize loopN _ _ fuel _ s0 = X at key ⊢
      cases hc : Op.seqLoop k rs s0 pos <;> rcases X with e | (⟨L', s'⟩ | ⟨L', s'⟩ | x) <;> simp_all

/-! #### RULE_LENPREFIX -/

/-- one repetition: locals number 2 = i, number 1 = nrep, pointer 1 = next_text, capture state 0 = cs -/
def LenBody (k : OK ρ) (b : ρ) (cs : CapState) (body : Loc → St → Except Err Out) : Prop :=
  ∀ (L : Loc) (s : St) (i pos : Nat), L.num 2 = i → L.ptr 1 = some pos → L.cs 0 = cs →
    match down1 s with
    | .error e => body L s = .error e
    | .ok s0 =>
      match k b s0 pos with
      | .error e => body L s = .error e
      | .ok (none, s1) => body L s = .ok (.ret (none, capLoad (up1 s1) cs))
      | .ok (some p, s1) => ∃ L1, body L s = .ok (.cont L1 (up1 s1)) ∧ L1.num 2 = i + 1 ∧ L1.ptr 1 = some p ∧ L1.cs 0 = cs ∧
          L1.num 1 = L.num 1

theorem len_loop (k : OK ρ) (b : ρ) (cs : CapState) (nrep : Nat) (cond : Loc → St → Bool) (body rest : Loc → St → Except Err Out)
    (hcond : ∀ L s, cond L s = decide (L.num 2 < L.num 1)) (hbody : LenBody k b cs body)
    (hrest : ∀ L s, rest L s = .ok (.ret (L.ptr 1, s))) :
    ∀ (m i f : Nat) (L : Loc) (s : St) (pos : Nat), i + m = nrep → m + 1 ≤ f → L.num 2 = i → L.num 1 = nrep → L.ptr 1 = some pos →
      L.cs 0 = cs →
      (match loopN cond body f L s with
        | .error e => (Except.error e : Except Err Out)
        | .ok (.cont L' s') => rest L' s'
        | .ok (.brk _ _) => .error .badop
        | .ok (.ret x) => .ok (.ret x)) =
      (match Op.lenLoop k b cs m s pos with | .error e => .error e | .ok x => .ok (.ret x)) := by
  intro m
  induction m with
  | zero =>
    intro i f L s pos hi hf h2 h1 hp hc
    obtain ⟨f', rfl⟩ : ∃ f', f = f' + 1 := ⟨f - 1, by omega⟩
    have hlt : ¬ L.num 2 < L.num 1 := by omega
    simp [loopN, hcond, hlt, hrest, hp, Op.lenLoop]
  | succ m ih =>
    intro i f L s pos hi hf h2 h1 hp hc
    obtain ⟨f', rfl⟩ : ∃ f', f = f' + 1 := ⟨f - 1, by omega⟩
    have hlt : L.num 2 < L.num 1 := by omega
    have hb := hbody L s i pos h2 hp hc
    simp only [loopN, hcond, hlt, decide_true, if_true, Op.lenLoop]
    cases hd : down1 s with
    | error e => simp only [hd] at hb; simp [hb, bind, Except.bind]
    | ok s0 =>
      simp only [hd] at hb
      cases hk : k b s0 pos with
      | error e => simp only [hk] at hb; simp [hb, hk, bind, Except.bind]
      | ok x =>
        obtain ⟨res, s1⟩ := x
        cases res with
        | none => simp only [hk] at hb; simp [hb, hk, bind, Except.bind]
        | some p =>
          simp only [hk] at hb
          obtain ⟨L1, g0, g2, gp, gc, g1⟩ := hb
          have := ih (i + 1) f' L1 (up1 s1) p (by omega) (by omega) g2 (g1.trans h1) gp gc
          simp only [g0, hk, bind, Except.bind] at this ⊢
          exact this

theorem len_body (E : Env) (k : OK ρ) (a b : ρ) (cs : CapState) (fuel : Nat) :
    LenBody k b cs (fun L s => execL E k (ops [(1, a), (2, b)] []) fuel Gen.PegSkel.RULE_LENPREFIX_body0 L s) := by
  intro L s i pos h2 hp hc
  simp only [Gen.PegSkel.RULE_LENPREFIX_body0, execL, execStmt, evalCond, evalNE, ops]
  cases hd : down1 s with
  | error e => simp [hd, bind, Except.bind]
  | ok s0 =>
    simp only [hd, bind, Except.bind]
    cases hk : k b s0 pos with
    | error e => simp [hk, hp, opsRule]
    | ok x => obtain ⟨res, s1⟩ := x; cases res <;> simp [hk, hp, hc, h2, opsRule, upd]

/-- RULE_LENPREFIX: the length pattern runs in NORMAL mode, the mode is restored before every return (hence `lenprefixLeak =
    false`), its first capture must be an int32-valued number, its captures are dropped, then that many repetitions, a failing one
    rolling back to the state on entry.  IR fuel: one unit per repetition (a count passes `janet_checkint`) plus one. -/
theorem rule_lenprefix (E : Env) (hE : E.lenprefixLeak = false) (k : OK ρ) (n fuel : Nat) (a b : ρ) (s : St) (pos : Nat)
    (hf : 2147483648 ≤ fuel) :
    runL E k (ops [(1, a), (2, b)] []) fuel Gen.PegSkel.RULE_LENPREFIX s pos = Op.step E k n (.lenprefix a b) s pos := by
  simp only [runL, Gen.PegSkel.RULE_LENPREFIX, execL, execStmt, evalNE, Loc.init, Op.step, hE]
  cases hd : down1 { s with acc := false } with
  | error e => simp [hd, bind, Except.bind]
  | ok s0 =>
    simp only [hd, bind, Except.bind]
    cases hk : k a s0 pos with
    | error e => simp [ops, opsRule, hk]
    | ok x =>
      obtain ⟨res, s1⟩ := x
      cases res with
      | none => simp [ops, opsRule, hk, evalCond, upd]
      | some p =>
        simp only [ops, opsRule, hk]
        simp only [List.find?, beq_self_eq_true, Option.map_some, upd, if_true, evalCond]
        have hcs : capSave { s with acc := false } = capSave s := rfl
        simp only [hk, hcs, Option.isNone_some, Bool.false_eq_true, if_false, if_true, Nat.zero_ne_one,
          (by decide : (1 : Nat) = 0 ↔ False), (by decide : (2 : Nat) = 0 ↔ False), (by decide : (2 : Nat) = 1 ↔ False),
          (by decide : (0 : Nat) = 1 ↔ False), (by decide : (0 : Nat) = 2 ↔ False), (by decide : (1 : Nat) = 2 ↔ False)]
        have hupd1 : upd (fun x => if x = 0 then some pos else none) 1 (some p) 1 = some p := by simp [upd]
        have hupd0 : (upd (fun _ => ({ cap := 0, tcap := 0, scratch := 0 } : CapState)) 0 (capSave s) 0) = capSave s := by
          simp [upd]
        simp only [hupd1, hupd0, reduceCtorEq, if_false]
        have hhead : ((up1 s1).caps.drop (capSave s).cap).head? = (up1 s1).caps[(capSave s).cap]? := by simp
        cases hh : ((up1 s1).caps.drop (capSave s).cap).head? with
        | none =>
          have hidx : (up1 s1).caps[(capSave s).cap]? = none := by rw [← hhead, hh]
          simp [hidx]
        | some v =>
          have hidx : (up1 s1).caps[(capSave s).cap]? = some v := by rw [← hhead, hh]
          cases v with
          | int nrep =>
            by_cases hci : checkint nrep = true
            · have hfuel : nrep.toNat + 1 ≤ fuel := by
                simp only [checkint, decide_eq_true_eq] at hci; omega
              simp only [hidx, hci, Bool.not_true, Bool.false_eq_true, if_false, if_true]
              have key := len_loop k b (capSave s) nrep.toNat (fun L s => decide (L.num 2 < L.num 1))
                (fun L s => execL E k ⟨opsRule [(1, a), (2, b)], opsWord [], fun _ => .nil, fun _ => []⟩ fuel Gen.PegSkel.RULE_LENPREFIX_body0 L s)
                (fun L s => execL E k ⟨opsRule [(1, a), (2, b)], opsWord [], fun _ => .nil, fun _ => []⟩ fuel Gen.PegSkel.RULE_LENPREFIX_rest0 L s)
                (fun _ _ => rfl) (len_body E k a b (capSave s) fuel)
                (fun L s => by simp [Gen.PegSkel.RULE_LENPREFIX_rest0, execL])
                nrep.toNat 0 fuel
              generalize hL0 : Loc.mk _ _ _ _ _ = L0
              generalize hS0 : capLoad _ _ = S0
              have hk2 := key L0 S0 p (by omega) hfuel (by rw [← hL0]; simp [upd]) (by rw [← hL0]; simp [upd])
                (by rw [← hL0]; simp [upd]) (by rw [← hL0]; simp [upd])
              generalize loopN _ _ fuel L0 S0 = X at hk2 ⊢
              cases hc : Op.lenLoop k b (capSave s) nrep.toNat S0 p <;> rcases X with e | (⟨L', s'⟩ | ⟨L', s'⟩ | x) <;>
                simp_all
            · simp [hidx, hci]
          | _ => simp [hidx]

/-! #### RULE_SPLIT (nested loops)

locals: pointer 0 = text, 1 = saved_end, 2 = chunk_start, 3 = chunk_end; capture state 0 = cs of the current chunk -/

/-- one step of the separator search -/
def FindBody (k : OK ρ) (sep : ρ) (body : Loc → St → Except Err Out) : Prop :=
  ∀ (L : Loc) (s : St) (pos : Nat), L.ptr 0 = some pos →
    match k sep s pos with
    | .error e => body L s = .error e
    | .ok (none, s1) => ∃ L1, body L s = .ok (.cont L1 (capLoad s1 (L.cs 0))) ∧ L1.ptr 0 = some (pos + 1) ∧ L1.ptr 3 = some pos ∧
        L1.ptr 1 = L.ptr 1 ∧ L1.ptr 2 = L.ptr 2 ∧ L1.cs 0 = L.cs 0
    | .ok (some c, s1) => ∃ L1, body L s = .ok (.brk L1 (capLoad s1 (L.cs 0))) ∧ L1.ptr 0 = some c ∧ L1.ptr 3 = some pos ∧
        L1.ptr 1 = L.ptr 1 ∧ L1.ptr 2 = L.ptr 2 ∧ L1.cs 0 = L.cs 0

theorem find_loop (k : OK ρ) (sep : ρ) (cs : CapState) (se : Nat) (cond : Loc → St → Bool) (body : Loc → St → Except Err Out)
    (hcond : ∀ L s pos, L.ptr 0 = some pos → L.ptr 1 = some se → cond L s = decide (pos ≤ se)) (hbody : FindBody k sep body) :
    ∀ (m f : Nat) (L : Loc) (s : St) (pos ce : Nat), L.ptr 0 = some pos → L.ptr 1 = some se → (m = 0 → L.ptr 3 = some ce) →
      m = se + 1 - pos → m + 1 ≤ f → L.cs 0 = cs →
      (∃ e, Op.splitFind k sep cs m s ce pos = .error e ∧ loopN cond body f L s = .error e) ∨
      (∃ ce' p' s' L', Op.splitFind k sep cs m s ce pos = .ok (ce', p', s') ∧ loopN cond body f L s = .ok (.cont L' s') ∧
        L'.ptr 0 = some p' ∧ L'.ptr 3 = some ce' ∧ L'.ptr 1 = some se ∧ L'.ptr 2 = L.ptr 2 ∧ L'.cs 0 = cs) := by
  intro m
  induction m with
  | zero =>
    intro f L s pos ce hp h1 h3 hm hf hc
    obtain ⟨f', rfl⟩ : ∃ f', f = f' + 1 := ⟨f - 1, by omega⟩
    have hgt : ¬ pos ≤ se := by omega
    right
    exact ⟨ce, pos, s, L, by simp [Op.splitFind], by simp [loopN, hcond L s pos hp h1, hgt], hp, h3 rfl, h1, rfl, hc⟩
  | succ m ih =>
    intro f L s pos ce hp h1 h3 hm hf hc
    obtain ⟨f', rfl⟩ : ∃ f', f = f' + 1 := ⟨f - 1, by omega⟩
    have hle : pos ≤ se := by omega
    simp only [Op.splitFind, loopN, hcond L s pos hp h1, hle, decide_true, if_true]
    have hb := hbody L s pos hp
    cases hk : k sep s pos with
    | error e =>
      simp only [hk] at hb
      left; exact ⟨e, by simp [bind, Except.bind], by simp [hb, bind, Except.bind]⟩
    | ok x =>
      obtain ⟨res, s1⟩ := x
      cases res with
      | none =>
        simp only [hk] at hb
        obtain ⟨L1, g0, gp, g3, g1, g2, gc⟩ := hb
        rw [hc] at g0
        rcases ih f' L1 (capLoad s1 cs) (pos + 1) pos gp (g1.trans h1) (fun _ => g3) (by omega) (by omega) (gc.trans hc) with
          ⟨e, e1, e2⟩ | ⟨ce', p', s', L', e1, e2, e3, e4, e5, e6, e7⟩
        · left; exact ⟨e, by simp [bind, Except.bind, e1], by simp [g0, bind, Except.bind, e2]⟩
        · right
          exact ⟨ce', p', s', L', by simp [bind, Except.bind, e1], by simp [g0, bind, Except.bind, e2], e3, e4, e5, e6.trans g2, e7⟩
      | some c =>
        simp only [hk] at hb
        obtain ⟨L1, g0, gp, g3, g1, g2, gc⟩ := hb
        rw [hc] at g0
        right
        exact ⟨pos, c, capLoad s1 cs, L1, by simp [bind, Except.bind], by simp [g0, bind, Except.bind], gp, g3, g1.trans h1, g2,
          gc.trans hc⟩

theorem find_body (E : Env) (k : OK ρ) (sep r : ρ) (fuel : Nat) :
    FindBody k sep (fun L s => execL E k (ops [(1, sep), (2, r)] []) fuel Gen.PegSkel.RULE_SPLIT_body0 L s) := by
  intro L s pos hp
  simp only [Gen.PegSkel.RULE_SPLIT_body0, execL, execStmt, evalCond, ops]
  cases hk : k sep s pos with
  | error e => simp [hk, hp, opsRule, upd, bind, Except.bind]
  | ok x =>
    obtain ⟨res, s1⟩ := x
    cases res <;> simp [hk, hp, opsRule, bind, Except.bind, upd]

/-- one chunk of the model's `splitLoop`: the final result of the instruction, or the state and position of the next chunk -/
def splitIter (k : OK ρ) (sep sub : ρ) (se : Nat) (s : St) (cstart pos : Nat) : Except Err ((Option Nat × St) ⊕ (St × Nat)) := do
  let cs := capSave s
  let s0 ← down1 s
  let (ce, p', s1) ← Op.splitFind k sep cs (se + 1 - pos) s0 pos pos
  let s4 ← down1 { up1 s1 with textEnd := ce }
  let (res, s5) ← k sub s4 cstart
  let s6 : St := { up1 s5 with textEnd := se }
  match res with
  | none => .ok (.inl (none, s6))
  | some _ => if p' == cstart then .ok (.inl (none, s6)) else .ok (.inr (s6, p'))

theorem splitLoop_succ (k : OK ρ) (sep sub : ρ) (se n : Nat) (s : St) (cstart pos : Nat) :
    Op.splitLoop k sep sub se (n + 1) s cstart pos =
      if pos ≤ se then
        (match splitIter k sep sub se s cstart pos with
          | .error e => .error e
          | .ok (.inl r) => .ok r
          | .ok (.inr (s6, p')) => Op.splitLoop k sep sub se n s6 p' p')
      else .ok (some se, { s with textEnd := se }) := by
  simp only [Op.splitLoop, splitIter]
  by_cases h : pos ≤ se
  · simp only [h, if_true]
    cases down1 s with
    | error e => simp [bind, Except.bind]
    | ok s0 =>
      simp only [bind, Except.bind]
      cases Op.splitFind k sep (capSave s) (se + 1 - pos) s0 pos pos with
      | error e => simp
      | ok x =>
        obtain ⟨ce, p', s1⟩ := x
        simp only
        cases down1 { up1 s1 with textEnd := ce } with
        | error e => simp
        | ok s4 =>
          simp only
          cases k sub s4 cstart with
          | error e => simp
          | ok y =>
            obtain ⟨res, s5⟩ := y
            cases res with
            | none => simp
            | some q => by_cases hq : (p' == cstart) = true <;> simp [hq]
  · simp [h]

/-- the outer loop body (one chunk) -/
def SplitBody (k : OK ρ) (sep sub : ρ) (se : Nat) (body : Loc → St → Except Err Out) : Prop :=
  ∀ (L : Loc) (s : St) (pos cstart : Nat), L.ptr 0 = some pos → L.ptr 1 = some se → L.ptr 2 = some cstart → pos ≤ se →
    match splitIter k sep sub se s cstart pos with
    | .error e => body L s = .error e
    | .ok (.inl r) => body L s = .ok (.ret r)
    | .ok (.inr (s6, p')) => ∃ L1, body L s = .ok (.cont L1 s6) ∧ L1.ptr 0 = some p' ∧ L1.ptr 1 = some se ∧ L1.ptr 2 = some p'

theorem split_loop (k : OK ρ) (sep sub : ρ) (se : Nat) (cond : Loc → St → Bool) (body rest : Loc → St → Except Err Out)
    (hcond : ∀ L s pos, L.ptr 0 = some pos → L.ptr 1 = some se → cond L s = decide (pos ≤ se)) (hbody : SplitBody k sep sub se body)
    (hrest : ∀ L s, L.ptr 1 = some se → rest L s = .ok (.ret (some se, { s with textEnd := se }))) :
    ∀ (n : Nat) (L : Loc) (s : St) (pos cstart : Nat), L.ptr 0 = some pos → L.ptr 1 = some se → L.ptr 2 = some cstart →
      (match loopN cond body n L s with
        | .error e => (Except.error e : Except Err Out)
        | .ok (.cont L' s') => rest L' s'
        | .ok (.brk _ _) => .error .badop
        | .ok (.ret x) => .ok (.ret x)) =
      (match Op.splitLoop k sep sub se n s cstart pos with | .error e => .error e | .ok x => .ok (.ret x)) := by
  intro n
  induction n with
  | zero => intro L s pos cstart _ _ _; simp [loopN, Op.splitLoop]
  | succ n ih =>
    intro L s pos cstart hp h1 h2
    rw [splitLoop_succ]
    simp only [loopN, hcond L s pos hp h1]
    by_cases hle : pos ≤ se
    · simp only [hle, decide_true, if_true]
      have hb := hbody L s pos cstart hp h1 h2 hle
      cases hit : splitIter k sep sub se s cstart pos with
      | error e => simp only [hit] at hb; simp [hb, bind, Except.bind]
      | ok x =>
        cases x with
        | inl r => simp only [hit] at hb; simp [hb, bind, Except.bind]
        | inr y =>
          obtain ⟨s6, p'⟩ := y
          simp only [hit] at hb
          obtain ⟨L1, g0, gp, g1, g2⟩ := hb
          have := ih L1 s6 p' p' gp g1 g2
          simp only [g0, bind, Except.bind] at this ⊢
          exact this
    · simp [hle, hrest L s h1]

theorem split_body (E : Env) (k : OK ρ) (sep r : ρ) (se fuel : Nat) (hf : se + 2 ≤ fuel) :
    SplitBody k sep r se (fun L s => execL E k (ops [(1, sep), (2, r)] []) fuel Gen.PegSkel.RULE_SPLIT_body1 L s) := by
  intro L s pos cstart hp h1 h2 hle
  simp only [splitIter, Gen.PegSkel.RULE_SPLIT_body1, execL, execStmt]
  cases hd : down1 s with
  | error e => simp [hd, bind, Except.bind]
  | ok s0 =>
    simp only [hd, bind, Except.bind]
    rcases find_loop k sep (capSave s) se
        (fun L s => evalCond E (ops [(1, sep), (2, r)] []) L s (.ptrLe 0 1))
        (fun L s => execL E k (ops [(1, sep), (2, r)] []) fuel Gen.PegSkel.RULE_SPLIT_body0 L s)
        (fun L s pos hp h1 => by simp [evalCond, hp, h1]) (find_body E k sep r fuel)
        (se + 1 - pos) fuel { L with cs := upd L.cs 0 (capSave s) } s0 pos pos hp h1 (fun h => by omega) rfl (by omega)
        (by simp [upd]) with
      ⟨e, e1, e2⟩ | ⟨ce', p', s', L', e1, e2, e3, e4, e5, e6, e7⟩
    · rw [e2]; simp [e1]
    · rw [e2]
      have e6' : L'.ptr 2 = some cstart := e6.trans h2
      simp only [e1, Gen.PegSkel.RULE_SPLIT_rest0, execL, execStmt, evalCond, ops, e3, e4, e5, e6']
      cases hd4 : down1 { up1 s' with textEnd := ce' } with
      | error e => simp [hd4, e3, e4, e5, e6', bind, Except.bind]
      | ok s4 =>
        simp [hd4, e3, e4, e5, e6', bind, Except.bind, opsRule, upd]
        cases hk : k r s4 cstart with
        | error e => simp [hk]
        | ok y =>
          obtain ⟨res, s5⟩ := y
          cases res with
          | none => simp [hk, upd, e3, e4, e5, e6']
          | some q =>
            by_cases hq : p' = cstart
            · simp [hk, upd, e3, e4, e5, e6', hq]
            · simp [hk, upd, e3, e4, e5, e6', hq]

/-- RULE_SPLIT: chunks between separators; the separator is searched position by position (its captures dropped), the
    sub-pattern runs from the chunk start inside the window that ends where the separator begins, the window is put back after
    every chunk and before the final return; an empty step (no forward progress) or a failing chunk fails the whole rule.
    `n` (the model's loop fuel) also bounds the IR's separator search, hence `s.textEnd + 2 ≤ n`. -/
theorem rule_split (E : Env) (k : OK ρ) (n : Nat) (sep r : ρ) (s : St) (pos : Nat) (hn : s.textEnd + 2 ≤ n) :
    runL E k (ops [(1, sep), (2, r)] []) n Gen.PegSkel.RULE_SPLIT s pos = Op.step E k n (.split sep r) s pos := by
  simp only [runL, Gen.PegSkel.RULE_SPLIT, execL, execStmt, Loc.init, Op.step, bind, Except.bind]
  have key := split_loop k sep r s.textEnd
    (fun L s => evalCond E (ops [(1, sep), (2, r)] []) L s (.ptrLe 0 1))
    (fun L s => execL E k (ops [(1, sep), (2, r)] []) n Gen.PegSkel.RULE_SPLIT_body1 L s)
    (fun L s => execL E k (ops [(1, sep), (2, r)] []) n Gen.PegSkel.RULE_SPLIT_rest1 L s)
    (fun L s pos hp h1 => by simp [evalCond, hp, h1]) (split_body E k sep r s.textEnd n hn)
    (fun L s h1 => by simp [Gen.PegSkel.RULE_SPLIT_rest1, execL, execStmt, h1, upd, bind, Except.bind])
    n
  generalize hL0 : Loc.mk _ _ _ _ _ = L0
  have hk2 := key L0 s pos pos (by rw [← hL0]; simp [upd]) (by rw [← hL0]; simp [upd]) (by rw [← hL0]; simp [upd])
  generalize loopN _ _ n L0 s = X at hk2 ⊢
  cases hc : Op.splitLoop k sep r s.textEnd n s pos pos <;> rcases X with e | (⟨L', s'⟩ | ⟨L', s'⟩ | x) <;> simp_all

/-! #### RULE_REPLACE / RULE_MATCHTIME (one case in peg.c) -/

/-- operands: rule[1] = sub-rule, rule[2] = constant, rule[3] = tag, rule[0] = opcode -/
def opsRepl (r : ρ) (v : Val) (tag op : Nat) : Operands ρ := ⟨opsRule [(1, r)], opsWord [(0, op), (3, tag)], fun _ => v, fun _ => []⟩

theorem down1_depth {s s0 : St} (h : down1 s = .ok s0) : s0.depth + 1 = s.depth := by
  unfold down1 at h
  split at h
  · cases h
  · cases h; simp only; omega

/-- RULE_REPLACE: mode NORMAL around the sub-pattern and restored before every return; the value is computed from the constant
    (`VE.replaceOf`: the switch on `janet_type(constant)`, recognised as one idiom by the translator) in the state after the
    sub-pattern; the captures above the saved height are dropped, the value is pushed.  `KeepsDepth`: peg.c reads `s->depth`
    for the C-stack charge after the sub-rule returned, the model uses the depth on entry. -/
theorem rule_replace (E : Env) (k : OK ρ) (hk : KeepsDepth k) (n : Nat) (r : ρ) (v : Val) (tag : Nat) (s : St) (pos : Nat) :
    run E k (opsRepl r v tag Gen.Peg.RULE_REPLACE) Gen.PegSkel.RULE_REPLACE s pos = Op.step E k n (.replace r v tag) s pos := by
  skel_unfold Gen.PegSkel.RULE_REPLACE
  simp only [opsRepl]
  cases hd : down1 { s with acc := false } with
  | error e => skel_simp
  | ok s0 =>
    skel_simp
    cases hkr : k r s0 pos with
    | error e => skel_simp
    | ok x =>
      obtain ⟨res, s1⟩ := x
      have hdep : (up1 s1).depth = s.depth := by
        have h1 := hk r s0 pos res s1 hkr
        have h2 := down1_depth hd
        simp only [up1] at *; omega
      cases res with
      | none => skel_simp
      | some p =>
        skel_simp
        cases hcg : callGuard E s.depth v with
        | error e => simp
        | ok u =>
          simp only
          generalize Op.replaceValue v _ (capSave s) = RV
          cases RV with
          | error e => simp
          | ok cap => simp [upd, Gen.Peg.RULE_REPLACE]

theorem rule_matchtime (E : Env) (k : OK ρ) (hk : KeepsDepth k) (n : Nat) (r : ρ) (v : Val) (tag : Nat) (s : St) (pos : Nat) :
    run E k (opsRepl r v tag Gen.Peg.RULE_MATCHTIME) Gen.PegSkel.RULE_MATCHTIME s pos = Op.step E k n (.matchtime r v tag) s pos := by
  skel_unfold Gen.PegSkel.RULE_MATCHTIME
  simp only [opsRepl]
  cases hd : down1 { s with acc := false } with
  | error e => skel_simp
  | ok s0 =>
    skel_simp
    cases hkr : k r s0 pos with
    | error e => skel_simp
    | ok x =>
      obtain ⟨res, s1⟩ := x
      have hdep : (up1 s1).depth = s.depth := by
        have h1 := hk r s0 pos res s1 hkr
        have h2 := down1_depth hd
        simp only [up1] at *; omega
      cases res with
      | none => skel_simp
      | some p =>
        skel_simp
        cases hcg : callGuard E s.depth v with
        | error e => simp
        | ok u =>
          simp only
          generalize Op.replaceValue v _ (capSave s) = RV
          cases RV with
          | error e => simp
          | ok cap => by_cases ht : truthy cap = true <;> simp [upd, ht, Gen.Peg.RULE_MATCHTIME]

/-! #### leaf opcodes without byte reads -/

/-- RULE_NCHAR: `n` characters must be left inside the CURRENT window -/
theorem rule_nchar (E : Env) (k : OK ρ) (n : Nat) (c : Nat) (s : St) (pos : Nat) :
    run E k (ops [] [(1, c)]) Gen.PegSkel.RULE_NCHAR s pos = Op.step E k n (.nchar c) s pos := by
  skel_unfold Gen.PegSkel.RULE_NCHAR
  simp only [ops, evalWE]
  by_cases h : pos + c > s.textEnd <;> skel_simp

theorem rule_notnchar (E : Env) (k : OK ρ) (n : Nat) (c : Nat) (s : St) (pos : Nat) :
    run E k (ops [] [(1, c)]) Gen.PegSkel.RULE_NOTNCHAR s pos = Op.step E k n (.notnchar c) s pos := by
  skel_unfold Gen.PegSkel.RULE_NOTNCHAR
  simp only [ops, evalWE]
  by_cases h : pos + c > s.textEnd <;> skel_simp

theorem rule_line (E : Env) (k : OK ρ) (n : Nat) (tag : Nat) (s : St) (pos : Nat) :
    run E k (ops [] [(1, tag)]) Gen.PegSkel.RULE_LINE s pos = Op.step E k n (.line tag) s pos := by
  skel_unfold Gen.PegSkel.RULE_LINE
  simp only [ops]
  skel_simp

theorem rule_column (E : Env) (k : OK ρ) (n : Nat) (tag : Nat) (s : St) (pos : Nat) :
    run E k (ops [] [(1, tag)]) Gen.PegSkel.RULE_COLUMN s pos = Op.step E k n (.column tag) s pos := by
  skel_unfold Gen.PegSkel.RULE_COLUMN
  simp only [ops]
  skel_simp

theorem rule_argument (E : Env) (k : OK ρ) (n : Nat) (idx tag : Nat) (s : St) (pos : Nat) :
    run E k (ops [] [(1, idx), (2, tag)]) Gen.PegSkel.RULE_ARGUMENT s pos = Op.step E k n (.argument idx tag) s pos := by
  skel_unfold Gen.PegSkel.RULE_ARGUMENT
  simp only [ops]
  skel_simp

/-! #### leaf opcodes that read the text: the byte reads / memcmp are statements of the IR, placed by the translator where C
    evaluates them, and go through the same guarded accessors (`Env.byte`, `Env.slice`) as the model -/

/-- RULE_LITERAL: `rule[1]` bytes stored from `rule + 2` on; the window test comes before the memcmp -/
theorem rule_literal (E : Env) (k : OK ρ) (n : Nat) (bytes : List Nat) (s : St) (pos : Nat) :
    run E k ⟨opsRule [], opsWord [(1, bytes.length)], fun _ => .nil, fun b => if b = 2 then bytes else []⟩ Gen.PegSkel.RULE_LITERAL s pos =
      Op.step E k n (.literal bytes) s pos := by
  skel_unfold Gen.PegSkel.RULE_LITERAL
  simp only [evalWE]
  by_cases h : pos + bytes.length > s.textEnd
  · skel_simp
  · cases hs : E.slice s pos (pos + bytes.length) with
    | error e => skel_simp
    | ok t => by_cases ht : t = bytes <;> skel_simp

/-- RULE_RANGE: `lo` / `hi` are bytes 0 and 2 of `rule[1]`; the byte is read only inside the window -/
theorem rule_range (E : Env) (k : OK ρ) (n : Nat) (w : Nat) (s : St) (pos : Nat) :
    run E k (ops [] [(1, w)]) Gen.PegSkel.RULE_RANGE s pos = Op.step E k n (.range (w % 256) ((w / 65536) % 256)) s pos := by
  skel_unfold Gen.PegSkel.RULE_RANGE
  simp only [ops, evalWE]
  by_cases h : pos < s.textEnd
  · cases hb : E.byte s pos with
    | error e => skel_simp
    | ok b =>
      by_cases h1 : b < w % 256
      · have : ¬ (w % 256 ≤ b) := by omega
        skel_simp
      · by_cases h2 : b > w / 65536 % 256
        · have : ¬ (b ≤ w / 65536 % 256) := by omega
          have h1' : w % 256 ≤ b := by omega
          skel_simp
        · have h1' : w % 256 ≤ b := by omega
          have h2' : b ≤ w / 65536 % 256 := by omega
          skel_simp
  · skel_simp

/-- RULE_SET: 8 words of 32 bits from `rule[1]` on, indexed by the byte read inside the window -/
theorem rule_set (E : Env) (k : OK ρ) (n : Nat) (bm : List Nat) (s : St) (pos : Nat) :
    run E k ⟨opsRule [], fun j => bm.getD (j - 1) 0, fun _ => .nil, fun _ => []⟩ Gen.PegSkel.RULE_SET s pos =
      Op.step E k n (.set bm) s pos := by
  skel_unfold Gen.PegSkel.RULE_SET
  simp only [evalWE]
  by_cases h : pos < s.textEnd
  · have h' : ¬ pos ≥ s.textEnd := by omega
    cases hb : E.byte s pos with
    | error e => skel_simp
    | ok b =>
      skel_simp
      split <;> rfl
  · have h' : pos ≥ s.textEnd := by omega
    skel_simp

/-- RULE_LOOK: the SIGNED operand `((int32_t *)rule)[1]` displaces `text`; outside `[text_start, text_end]` fails before the call;
    the rule returns the ORIGINAL position (the translator tracks `text += off; ...; text -= off` as a pending displacement) -/
theorem rule_look (E : Env) (k : OK ρ) (n : Nat) (w : Nat) (r : ρ) (s : St) (pos : Nat) :
    run E k (ops [(2, r)] [(1, w)]) Gen.PegSkel.RULE_LOOK s pos = Op.step E k n (.look (asInt32 w) r) s pos := by
  skel_unfold Gen.PegSkel.RULE_LOOK
  simp only [ops, evalRE]
  by_cases h : (pos : Int) + asInt32 w < 0 ∨ (pos : Int) + asInt32 w > (s.textEnd : Int)
  · rcases h with h | h <;> skel_simp
  · have h1 : ¬ ((pos : Int) + asInt32 w < 0) := fun x => h (Or.inl x)
    have h2 : ¬ ((pos : Int) + asInt32 w > (s.textEnd : Int)) := fun x => h (Or.inr x)
    cases hd : down1 s with
    | error e => skel_simp
    | ok s0 =>
      cases hk : k r s0 ((pos : Int) + asInt32 w).toNat with
      | error e => skel_simp
      | ok x => obtain ⟨res, s1⟩ := x; cases res <;> skel_simp

/-- RULE_CAPTURE_NUM: the matched text must scan as a number in base `rule[2]`; the NUMBER is pushed through pushcap (in
    accumulate mode its to-string is appended - `Tie.number_capture_not_raw`, hypothesis `numRaw = false`) -/
theorem rule_capture_num (E : Env) (hE : E.numRaw = false) (k : OK ρ) (n : Nat) (r : ρ) (base tag : Nat) (s : St) (pos : Nat) :
    run E k (ops [(1, r)] [(2, base), (3, tag)]) Gen.PegSkel.RULE_CAPTURE_NUM s pos = Op.step E k n (.capturenum r base tag) s pos := by
  skel_unfold Gen.PegSkel.RULE_CAPTURE_NUM
  simp only [ops]
  cases hd : down1 s <;> skel_simp
  rename_i s0
  cases hk : k r s0 pos <;> skel_simp
  rename_i x; obtain ⟨res, s1⟩ := x; cases res <;> skel_simp
  rename_i p
  cases hs : E.slice (up1 s1) pos p <;> skel_simp
  rename_i t
  cases hn : scanNumber t base <;> skel_simp

/-! #### RULE_GETTAG / RULE_BACKMATCH: the descending search of the tag stack -/

def liftRet (r : ORes) : Except Err Out := match r with | .error e => .error e | .ok x => .ok (.ret x)

/-- `for (i = count - 1; i >= 0; i--) if (tags[i] matches) <leave the case>`: the IR's descending loop finds what
    `reverse.find?` finds (the newest entry with the tag) and leaves the state alone otherwise -/
theorem down_search (i : Nat) (body : Loc → St → Except Err Out) (s : St) (pos : Nat) (p : Nat × Val → Bool) (hit : Nat × Val → ORes)
    (hbody : ∀ (L : Loc), L.ptr 0 = some pos → ∀ (j : Nat) (hj : j < s.tagged.length),
      body { L with num := upd L.num i j } s =
        if p s.tagged[j] then liftRet (hit s.tagged[j]) else .ok (.cont { L with num := upd L.num i j } s)) :
    ∀ (j : Nat), j ≤ s.tagged.length → ∀ (L : Loc), L.ptr 0 = some pos →
      match (s.tagged.take j).reverse.find? p with
      | some tv => downN i body j L s = liftRet (hit tv)
      | none => ∃ L', downN i body j L s = .ok (.cont L' s) := by
  intro j
  induction j with
  | zero => intro _ L _; exact ⟨L, by simp [downN]⟩
  | succ j ih =>
    intro hj L hL
    have hj' : j < s.tagged.length := by omega
    have htake : (s.tagged.take (j + 1)).reverse = s.tagged[j] :: (s.tagged.take j).reverse := by
      rw [List.take_succ]; simp [List.getElem?_eq_getElem hj']
    rw [htake, List.find?_cons]
    have hb := hbody L hL j hj'
    by_cases hp : p s.tagged[j] = true
    · simp only [hp, if_true] at hb ⊢
      simp only [downN, hb, bind, Except.bind, liftRet]
      cases hit s.tagged[j] <;> rfl
    · have hp' : p s.tagged[j] = false := by simpa using hp
      simp only [hp', Bool.false_eq_true, if_false] at hb ⊢
      have := ih (by omega) { L with num := upd L.num i j } hL
      simp only [downN, hb, bind, Except.bind]
      exact this

theorem gettag_body (E : Env) (k : OK ρ) (search tag fuel : Nat) (s : St) (pos : Nat) :
    ∀ (L : Loc), L.ptr 0 = some pos → ∀ (j : Nat) (hj : j < s.tagged.length),
      execL E k (ops [] [(1, search), (2, tag)]) fuel Gen.PegSkel.RULE_GETTAG_body0 { L with num := upd L.num 0 j } s =
        if (fun tv : Nat × Val => tv.1 == search) s.tagged[j] then liftRet ((fun tv => .ok (some pos, pushcap E s tv.2 tag)) s.tagged[j])
        else .ok (.cont { L with num := upd L.num 0 j } s) := by
  intro L hL j hj
  simp only [Gen.PegSkel.RULE_GETTAG_body0, execL, execStmt, evalCond, evalVE, evalWE, ops, liftRet]
  by_cases h : s.tagged[j].1 = search <;> simp [h, hj, hL, upd, opsWord, bind, Except.bind]

/-- RULE_GETTAG: the NEWEST tagged capture with the tag is pushed again (under `rule[2]`), no entry = no match -/
theorem rule_gettag (E : Env) (k : OK ρ) (n fuel : Nat) (search tag : Nat) (s : St) (pos : Nat) :
    runL E k (ops [] [(1, search), (2, tag)]) fuel Gen.PegSkel.RULE_GETTAG s pos = Op.step E k n (.gettag search tag) s pos := by
  simp only [runL, Gen.PegSkel.RULE_GETTAG, execL, evalNE, Op.step, findTag]
  have key := down_search 0 _ s pos (fun tv => tv.1 == search) (fun tv => .ok (some pos, pushcap E s tv.2 tag))
    (gettag_body E k search tag fuel s pos) s.tagged.length (Nat.le_refl _) (Loc.init pos) (by simp [Loc.init])
  rw [List.take_length] at key
  cases hf : s.tagged.reverse.find? (fun tv => tv.1 == search) with
  | some tv => simp only [hf] at key; simp [key, liftRet, bind, Except.bind]
  | none =>
    simp only [hf] at key; obtain ⟨L', hL'⟩ := key
    simp [hL', Gen.PegSkel.RULE_GETTAG_rest0, execL, bind, Except.bind]

/-- what RULE_BACKMATCH does with the newest capture carrying the tag -/
def backmatchHit (E : Env) (s : St) (pos : Nat) (tv : Nat × Val) : ORes :=
  match tv.2 with
  | .str bytes =>
    if pos + bytes.length > s.textEnd then .ok (none, s)
    else do
      let t ← E.slice s pos (pos + bytes.length)
      .ok (if t == bytes then some (pos + bytes.length) else none, s)
  | _ => .ok (none, s)

theorem backmatch_body (E : Env) (k : OK ρ) (search fuel : Nat) (s : St) (pos : Nat) :
    ∀ (L : Loc), L.ptr 0 = some pos → ∀ (j : Nat) (hj : j < s.tagged.length),
      execL E k (ops [] [(1, search)]) fuel Gen.PegSkel.RULE_BACKMATCH_body0 { L with num := upd L.num 0 j } s =
        if (fun tv : Nat × Val => tv.1 == search) s.tagged[j] then liftRet (backmatchHit E s pos s.tagged[j])
        else .ok (.cont { L with num := upd L.num 0 j } s) := by
  intro L hL j hj
  simp only [Gen.PegSkel.RULE_BACKMATCH_body0, execL, execStmt, evalCond, evalVE, evalNE, evalWE, ops, liftRet, backmatchHit]
  by_cases h : s.tagged[j].1 = search
  · cases hv : s.tagged[j].2 with
    | str bytes =>
      by_cases hw : pos + bytes.length > s.textEnd
      · simp [h, hj, hL, hv, hw, upd, opsWord, bind, Except.bind]
      · cases hs : E.slice s pos (pos + bytes.length) with
        | error e => simp [h, hj, hL, hv, hw, hs, upd, opsWord, bind, Except.bind]
        | ok t => by_cases ht : t = bytes <;> simp [h, hj, hL, hv, hw, hs, ht, upd, opsWord, bind, Except.bind]
    | _ => simp [h, hj, hL, hv, upd, opsWord, bind, Except.bind]
  · simp [h, hj, hL, upd, opsWord, bind, Except.bind]

/-- RULE_BACKMATCH: the newest capture with the tag must be a STRING, fit into the current window and be what the text has there -/
theorem rule_backmatch (E : Env) (k : OK ρ) (n fuel : Nat) (search : Nat) (s : St) (pos : Nat) :
    runL E k (ops [] [(1, search)]) fuel Gen.PegSkel.RULE_BACKMATCH s pos = Op.step E k n (.backmatch search) s pos := by
  have hstep : Op.step E k n (.backmatch search) s pos =
      (match s.tagged.reverse.find? (fun tv => tv.1 == search) with | some tv => backmatchHit E s pos tv | none => .ok (none, s)) := by
    simp only [Op.step, findTag, backmatchHit]
    cases s.tagged.reverse.find? (fun tv => tv.1 == search) with
    | none => rfl
    | some tv => obtain ⟨t, v⟩ := tv; cases v <;> rfl
  rw [hstep]
  simp only [runL, Gen.PegSkel.RULE_BACKMATCH, execL, evalNE]
  have key := down_search 0 _ s pos (fun tv => tv.1 == search) (backmatchHit E s pos)
    (backmatch_body E k search fuel s pos) s.tagged.length (Nat.le_refl _) (Loc.init pos) (by simp [Loc.init])
  rw [List.take_length] at key
  cases hf : s.tagged.reverse.find? (fun tv => tv.1 == search) with
  | some tv =>
    simp only [hf] at key
    simp only [key, liftRet, bind, Except.bind]
    cases backmatchHit E s pos tv <;> rfl
  | none =>
    simp only [hf] at key; obtain ⟨L', hL'⟩ := key
    simp [hL', Gen.PegSkel.RULE_BACKMATCH_rest0, execL, bind, Except.bind]

/-! #### RULE_UNREF: the in-place compaction of the tag stack IS the model's `filter` -/

theorem set_take_succ {α : Type} (l : List α) (w : Nat) (e : α) (h : w < l.length) : (l.set w e).take (w + 1) = l.take w ++ [e] := by
  rw [List.take_add_one, List.take_set_of_le (Nat.le_refl w)]
  simp [h]

theorem drop_take_snoc {α : Type} (l : List α) (c i : Nat) (hc : c ≤ i) (hi : i < l.length) :
    (l.drop c).take (i + 1 - c) = (l.drop c).take (i - c) ++ [l[i]] := by
  have : i + 1 - c = (i - c) + 1 := by omega
  rw [this, List.take_add_one]
  have h2 : c + (i - c) = i := by omega
  simp [h2, hi]

/-- the compaction loop: locals 0 = tcap, 1 = final_tcap, 2 = w, 3 = i.  Invariant: the first `w` entries are the kept ones of
    `T0[0, i)`, the entries from `i` on are untouched.  `f` = IR loop fuel. -/
theorem unref_loop (E : Env) (k : OK ρ) (r : ρ) (tag fuel : Nat) (T0 : List (Nat × Val)) (c : Nat) :
    ∀ (m f : Nat) (L : Loc) (s : St), m = L.num 1 - L.num 3 → m + 1 ≤ f →
      L.num 1 = T0.length → s.tagged.length = T0.length → c ≤ L.num 2 → L.num 2 ≤ L.num 3 →
      s.tagged.take (L.num 2) = T0.take c ++ ((T0.drop c).take (L.num 3 - c)).filter (fun tv => tv.1 != tag % 256) →
      s.tagged.drop (L.num 3) = T0.drop (L.num 3) →
      ∃ L' T', loopN (fun L s => evalCond E (ops [(1, r)] [(2, tag)]) L s (.numLtNum 3 1))
          (fun L s => execL E k (ops [(1, r)] [(2, tag)]) fuel Gen.PegSkel.RULE_UNREF_body0 L s) f L s = .ok (.cont L' { s with tagged := T' }) ∧
        L'.ptr = L.ptr ∧ T'.take (L'.num 2) = T0.take c ++ (T0.drop c).filter (fun tv => tv.1 != tag % 256) := by
  intro m
  induction m with
  | zero =>
    intro f L s hm hf h1 hlen hc hw htake hdrop
    obtain ⟨f', rfl⟩ : ∃ f', f = f' + 1 := ⟨f - 1, by omega⟩
    have hge : ¬ L.num 3 < L.num 1 := by omega
    refine ⟨L, s.tagged, by simp [loopN, evalCond, hge], rfl, ?_⟩
    have hall : (T0.drop c).take (L.num 3 - c) = T0.drop c := List.take_of_length_le (by simp only [List.length_drop]; omega)
    rw [htake, hall]
  | succ m ih =>
    intro f L s hm hf h1 hlen hc hw htake hdrop
    obtain ⟨f', rfl⟩ : ∃ f', f = f' + 1 := ⟨f - 1, by omega⟩
    have hlt : L.num 3 < L.num 1 := by omega
    have hi : L.num 3 < T0.length := by omega
    have hi' : L.num 3 < s.tagged.length := by omega
    have he : s.tagged[L.num 3] = T0[L.num 3] := by
      have h1' := List.drop_eq_getElem_cons hi'
      have h2' := List.drop_eq_getElem_cons hi
      rw [h1', h2'] at hdrop
      exact (List.cons.inj hdrop).1
    have hdrop1 : s.tagged.drop (L.num 3 + 1) = T0.drop (L.num 3 + 1) := by
      have h1' := List.drop_eq_getElem_cons hi'
      have h2' := List.drop_eq_getElem_cons hi
      rw [h1', h2'] at hdrop
      exact (List.cons.inj hdrop).2
    have hsnoc := drop_take_snoc T0 c (L.num 3) (by omega) hi
    simp only [loopN, evalCond, hlt, decide_true, if_true]
    by_cases ht : T0[L.num 3].1 = tag % 256
    · -- dropped: only i moves
      have hb : execL E k (ops [(1, r)] [(2, tag)]) fuel Gen.PegSkel.RULE_UNREF_body0 L s =
          .ok (.cont { L with num := upd L.num 3 (L.num 3 + 1) } s) := by
        simp [Gen.PegSkel.RULE_UNREF_body0, execL, execStmt, evalCond, evalNE, evalWE, ops, opsWord, hi', he, ht, bind, Except.bind]
      simp only [hb, bind, Except.bind]
      have := ih f' { L with num := upd L.num 3 (L.num 3 + 1) } s (by simp [upd]; omega) (by omega) (by simpa [upd] using h1) hlen
        (by simpa [upd] using hc) (by simp [upd]; omega)
        (by simp only [upd]; simp only [if_pos, if_neg, show (2 : Nat) ≠ 3 by decide, if_true, if_false]
            rw [htake, hsnoc, List.filter_append]; simp [ht])
        (by simpa [upd] using hdrop1)
      obtain ⟨L', T', g1, g2, g3⟩ := this
      exact ⟨L', T', g1, g2, g3⟩
    · -- kept: moved down to w
      have hwl : L.num 2 < s.tagged.length := by omega
      have hb : execL E k (ops [(1, r)] [(2, tag)]) fuel Gen.PegSkel.RULE_UNREF_body0 L s =
          .ok (.cont { L with num := upd (upd L.num 2 (L.num 2 + 1)) 3 (L.num 3 + 1) }
            { s with tagged := s.tagged.set (L.num 2) T0[L.num 3] }) := by
        simp [Gen.PegSkel.RULE_UNREF_body0, execL, execStmt, evalCond, evalNE, evalWE, ops, opsWord, hi', he, ht, hwl, upd, bind, Except.bind]
      simp only [hb, bind, Except.bind]
      have := ih f' { L with num := upd (upd L.num 2 (L.num 2 + 1)) 3 (L.num 3 + 1) }
        { s with tagged := s.tagged.set (L.num 2) T0[L.num 3] } (by simp [upd]; omega) (by omega) (by simpa [upd] using h1)
        (by simpa using hlen) (by simp [upd]; omega) (by simp [upd]; omega)
        (by simp only [upd]; simp only [if_pos, if_neg, show (2 : Nat) ≠ 3 by decide, if_true, if_false]
            rw [set_take_succ _ _ _ hwl, htake, hsnoc, List.filter_append]; simp [ht])
        (by simp only [upd, if_true]; rw [List.drop_set_of_lt (by omega)]; exact hdrop1)
      obtain ⟨L', T', g1, g2, g3⟩ := this
      exact ⟨L', T', g1, g2, g3⟩

/-- RULE_UNREF: after a successful sub-rule, the tagged captures it added are dropped - all of them for `rule[2] = 0`, the ones
    tagged `rule[2] & 0xFF` otherwise (compacted in place, order kept); both tag arrays are cut to the same length.
    `fuel` = IR loop fuel: one unit per tagged capture added by the sub-rule and one for the exit test. -/
theorem rule_unref (E : Env) (k : OK ρ) (n fuel : Nat) (r : ρ) (tag : Nat) (s : St) (pos : Nat)
    (hf : ∀ s0 res s1, down1 s = .ok s0 → k r s0 pos = .ok (res, s1) → s1.tagged.length - s.tagged.length + 1 ≤ fuel) :
    runL E k (ops [(1, r)] [(2, tag)]) fuel Gen.PegSkel.RULE_UNREF s pos = Op.step E k n (.unref r tag) s pos := by
  simp only [runL, Gen.PegSkel.RULE_UNREF, execL, execStmt, evalNE, evalCond, Loc.init, Op.step]
  cases hd : down1 s with
  | error e => simp [hd, bind, Except.bind]
  | ok s0 =>
    have hs0 : s0.tagged = s.tagged := by
      unfold down1 at hd; split at hd <;> simp at hd; subst hd; rfl
    cases hk : k r s0 pos with
    | error e => simp [hd, hk, ops, opsRule, bind, Except.bind]
    | ok x =>
      obtain ⟨res, s1⟩ := x
      cases res with
      | none => simp [hd, hk, ops, opsRule, upd, bind, Except.bind]
      | some p =>
        by_cases ht : tag = 0
        · simp [hd, hk, ops, opsRule, opsWord, upd, ht, up1, bind, Except.bind]
        · have hfuel := hf s0 (some p) s1 hd hk
          simp only [hd, ops, bind, Except.bind]
          rw [show opsRule [(1, r)] 1 = some r from by simp [opsRule]]
          simp only [Loc.init, if_true]
          rw [hk]
          simp only [show opsWord [(2, tag)] 2 = tag from by simp [opsWord], beq_iff_eq, ht, if_false,
            show ∀ (f : Nat → Option Nat) (v : Option Nat), upd f 1 v 1 = v from fun f v => by simp [upd], Option.isNone,
            Bool.false_eq_true]
          generalize hL0 : Loc.mk _ _ _ _ _ = L0
          have n0 : L0.num 0 = s.tagged.length := by rw [← hL0]; simp [upd]
          have n1 : L0.num 1 = s1.tagged.length := by rw [← hL0]; simp [upd, up1]
          have n2 : L0.num 2 = s.tagged.length := by rw [← hL0]; simp [upd]
          have n3 : L0.num 3 = s.tagged.length := by rw [← hL0]; simp [upd]
          have p1 : L0.ptr 1 = some p := by rw [← hL0]; simp [upd]
          obtain ⟨L', T', g1, g2, g3⟩ := unref_loop E k r tag fuel s1.tagged s.tagged.length (L0.num 1 - L0.num 3) fuel L0 (up1 s1)
            rfl (by rw [n1, n3]; exact hfuel) n1 (by simp [up1]) (by rw [n2]; exact Nat.le_refl _) (by rw [n2, n3]; exact Nat.le_refl _)
            (by rw [n2, n3]; simp [up1]) (by simp [up1])
          simp only [evalCond, ops] at g1
          rw [g1]
          have p1' : L'.ptr 1 = some p := by rw [g2]; exact p1
          simp [Gen.PegSkel.RULE_UNREF_rest0, execL, execStmt, p1', g3, ht, up1, bind, Except.bind]

/-! #### the loop cases without fuel hypotheses

`rule_to_thru`, `rule_til`, `rule_choice`, `rule_sequence`, `rule_lenprefix`, `rule_unref` ask for "enough IR loop fuel"; the bound is
a function of the state only, so the fuel-free meaning `Returns` of the extracted program IS the `Op.step` case, with no hypothesis
on fuel.  `rule_between` / `rule_split` run the IR with the MODEL's loop fuel `n`; their model loops are monotone in `n`
(`betweenLoop_mono`, `splitLoop_mono`), so whenever the model's own fuel sufficed (its answer is not `Err.fuel`), that answer is the
fuel-free meaning of the extracted program - `s.textEnd + 2 ≤ n` of `rule_split` is gone. -/

theorem rule_to_thru_returns (E : Env) (k : OK ρ) (hk : KeepsWindow k) (n : Nat) (isTo : Bool) (r : ρ) (s : St) (pos : Nat) :
    Returns (fun fuel => runL E k ⟨opsRule [(1, r)], opsWord [(0, if isTo then Gen.Peg.RULE_TO else Gen.Peg.RULE_THRU)], fun _ => .nil,
        fun _ => []⟩ fuel Gen.PegSkel.RULE_TO s pos)
      (Op.step E k n (if isTo then .to r else .thru r) s pos) :=
  ⟨s.textEnd + 1 - pos + 1, fun fuel hf => rule_to_thru E k hk n fuel isTo r s pos hf⟩

/-- inside a match the window never exceeds the text (`never_reads_outside`), so `|text| + 2` units are enough at every state -/
theorem rule_to_thru_text_bound (E : Env) (k : OK ρ) (hk : KeepsWindow k) (n fuel : Nat) (isTo : Bool) (r : ρ) (s : St) (pos : Nat)
    (hwin : s.textEnd ≤ E.text.length) (hf : E.text.length + 2 ≤ fuel) :
    runL E k ⟨opsRule [(1, r)], opsWord [(0, if isTo then Gen.Peg.RULE_TO else Gen.Peg.RULE_THRU)], fun _ => .nil, fun _ => []⟩ fuel
        Gen.PegSkel.RULE_TO s pos =
      Op.step E k n (if isTo then .to r else .thru r) s pos :=
  rule_to_thru E k hk n fuel isTo r s pos (by omega)

theorem rule_til_returns (E : Env) (k : OK ρ) (hk : KeepsWindow k) (n : Nat) (t r : ρ) (s : St) (pos : Nat) :
    Returns (fun fuel => runL E k (ops [(1, t), (2, r)] []) fuel Gen.PegSkel.RULE_TIL s pos) (Op.step E k n (.til t r) s pos) :=
  ⟨s.textEnd + 1 - pos + 1, fun fuel hf => rule_til E k hk n fuel t r s pos hf⟩

theorem rule_til_text_bound (E : Env) (k : OK ρ) (hk : KeepsWindow k) (n fuel : Nat) (t r : ρ) (s : St) (pos : Nat)
    (hwin : s.textEnd ≤ E.text.length) (hf : E.text.length + 2 ≤ fuel) :
    runL E k (ops [(1, t), (2, r)] []) fuel Gen.PegSkel.RULE_TIL s pos = Op.step E k n (.til t r) s pos :=
  rule_til E k hk n fuel t r s pos (by omega)

theorem rule_choice_returns (E : Env) (k : OK ρ) (n : Nat) (rs : List ρ) (s : St) (pos : Nat) :
    Returns (fun fuel => runL E k (opsList rs) fuel Gen.PegSkel.RULE_CHOICE s pos) (Op.step E k n (.choice rs) s pos) :=
  ⟨rs.length + 1, fun fuel hf => rule_choice E k n fuel rs s pos hf⟩

theorem rule_sequence_returns (E : Env) (k : OK ρ) (n : Nat) (rs : List ρ) (s : St) (pos : Nat) :
    Returns (fun fuel => runL E k (opsList rs) fuel Gen.PegSkel.RULE_SEQUENCE s pos) (Op.step E k n (.sequence rs) s pos) :=
  ⟨rs.length + 1, fun fuel hf => rule_sequence E k n fuel rs s pos hf⟩

theorem rule_lenprefix_returns (E : Env) (hE : E.lenprefixLeak = false) (k : OK ρ) (n : Nat) (a b : ρ) (s : St) (pos : Nat) :
    Returns (fun fuel => runL E k (ops [(1, a), (2, b)] []) fuel Gen.PegSkel.RULE_LENPREFIX s pos)
      (Op.step E k n (.lenprefix a b) s pos) :=
  ⟨2147483648, fun fuel hf => rule_lenprefix E hE k n fuel a b s pos hf⟩

theorem rule_unref_returns (E : Env) (k : OK ρ) (n : Nat) (r : ρ) (tag : Nat) (s : St) (pos : Nat) :
    Returns (fun fuel => runL E k (ops [(1, r)] [(2, tag)]) fuel Gen.PegSkel.RULE_UNREF s pos) (Op.step E k n (.unref r tag) s pos) := by
  refine ⟨(match down1 s with
    | .ok s0 => (match k r s0 pos with | .ok (_, s1) => s1.tagged.length - s.tagged.length + 1 | .error _ => 0)
    | .error _ => 0), fun fuel hf => rule_unref E k n fuel r tag s pos ?_⟩
  intro s0 res s1 hd hk
  simpa [hd, hk] using hf

/-- the model's RULE_BETWEEN loop does not change its answer when given more fuel -/
theorem betweenLoop_mono (k : OK ρ) (r : ρ) (hi : Nat) :
    ∀ (n : Nat) (c : Nat) (s : St) (pos : Nat) (res : Except Err (Nat × Nat × St)),
      Op.betweenLoop k r hi n c s pos = res → res ≠ .error .fuel → ∀ n', n ≤ n' → Op.betweenLoop k r hi n' c s pos = res := by
  intro n
  induction n with
  | zero => intro c s pos res h hne; simp [Op.betweenLoop] at h; exact absurd h.symm hne
  | succ n ih =>
    intro c s pos res h hne n' hn'
    obtain ⟨m, rfl⟩ : ∃ m, n' = m + 1 := ⟨n' - 1, by omega⟩
    simp only [Op.betweenLoop] at h ⊢
    by_cases hc : c < hi
    · simp only [hc, if_true] at h ⊢
      cases hk : k r s pos with
      | error e => simp only [hk, bind, Except.bind] at h ⊢; exact h
      | ok x =>
        obtain ⟨q, s1⟩ := x
        cases q with
        | none => simp only [hk, bind, Except.bind] at h ⊢; exact h
        | some p =>
          simp only [hk, bind, Except.bind] at h ⊢
          by_cases hz : (p == pos ∧ hi == uintMax)
          · simp only [hz, if_true] at h ⊢; exact h
          · simp only [hz, if_false] at h ⊢
            exact ih (c + 1) s1 p res h hne m (by omega)
    · simp only [hc, if_false] at h ⊢; exact h

theorem rule_between_returns (E : Env) (k : OK ρ) (n : Nat) (lo hi : Nat) (r : ρ) (s : St) (pos : Nat)
    (hn : ∀ s0, down1 s = .ok s0 → Op.betweenLoop k r hi n 0 s0 pos ≠ .error .fuel) :
    Returns (fun fuel => runL E k (ops [(3, r)] [(1, lo), (2, hi)]) fuel Gen.PegSkel.RULE_BETWEEN s pos)
      (Op.step E k n (.between lo hi r) s pos) := by
  refine ⟨n, fun fuel hf => ?_⟩
  show runL E k (ops [(3, r)] [(1, lo), (2, hi)]) fuel Gen.PegSkel.RULE_BETWEEN s pos = _
  rw [rule_between E k fuel lo hi r s pos]
  simp only [Op.step]
  cases hd : down1 s with
  | error e => rfl
  | ok s0 =>
    simp only [bind, Except.bind]
    rw [betweenLoop_mono k r hi n 0 s0 pos _ rfl (hn s0 hd) fuel hf]

/-- ... nor does the RULE_SPLIT loop -/
theorem splitLoop_mono (k : OK ρ) (sep sub : ρ) (se : Nat) :
    ∀ (n : Nat) (s : St) (cstart pos : Nat) (res : ORes),
      Op.splitLoop k sep sub se n s cstart pos = res → res ≠ .error .fuel → ∀ n', n ≤ n' → Op.splitLoop k sep sub se n' s cstart pos = res := by
  intro n
  induction n with
  | zero => intro s cstart pos res h hne; simp [Op.splitLoop] at h; exact absurd h.symm hne
  | succ n ih =>
    intro s cstart pos res h hne n' hn'
    obtain ⟨m, rfl⟩ : ∃ m, n' = m + 1 := ⟨n' - 1, by omega⟩
    rw [splitLoop_succ] at h ⊢
    by_cases hp : pos ≤ se
    · simp only [hp, if_true] at h ⊢
      cases hit : splitIter k sep sub se s cstart pos with
      | error e => simp only [hit] at h ⊢; exact h
      | ok x =>
        cases x with
        | inl r => simp only [hit] at h ⊢; exact h
        | inr y =>
          obtain ⟨s6, p'⟩ := y
          simp only [hit] at h ⊢
          exact ih s6 p' p' res h hne m (by omega)
    · simp only [hp, if_false] at h ⊢; exact h

/-- RULE_SPLIT without `s.textEnd + 2 ≤ n`: whenever the model's outer loop had enough fuel of its own -/
theorem rule_split_returns (E : Env) (k : OK ρ) (n : Nat) (sep r : ρ) (s : St) (pos : Nat)
    (hn : Op.step E k n (.split sep r) s pos ≠ .error .fuel) :
    Returns (fun fuel => runL E k (ops [(1, sep), (2, r)] []) fuel Gen.PegSkel.RULE_SPLIT s pos) (Op.step E k n (.split sep r) s pos) := by
  refine ⟨max n (s.textEnd + 2), fun fuel hf => ?_⟩
  show runL E k (ops [(1, sep), (2, r)] []) fuel Gen.PegSkel.RULE_SPLIT s pos = _
  rw [rule_split E k fuel sep r s pos (by omega)]
  simp only [Op.step] at hn ⊢
  exact splitLoop_mono k sep r s.textEnd n s pos pos _ rfl hn fuel (by omega)

/-! #### non-vacuity: the extracted programs compute (concrete runs of the IR on the current peg.c cases) -/
section Examples
def exE : Env := { text := [97, 98, 99], args := [], hasBackref := true }
def exS : St := { caps := [], tagged := [(1, .str [97]), (2, .str [98]), (1, .str [98, 99])], scratch := [], acc := false, textEnd := 3, depth := 10 }
def exK : OK Nat := fun r s p => if r == 7 then .ok (some (p + 1), { s with tagged := s.tagged ++ [(1, .nil), (2, .int 5), (1, .nil)] }) else .ok (none, s)

example : (run exE exK (ops [] [(1, 97 + 65536 * 122)]) Gen.PegSkel.RULE_RANGE exS 1).toOption.map (·.1) = some (some 2) := rfl
example : (run exE exK (ops [] [(1, 97 + 65536 * 97)]) Gen.PegSkel.RULE_RANGE exS 1).toOption.map (·.1) = some none := rfl
example : (run exE exK ⟨opsRule [], opsWord [(1, 2)], fun _ => .nil, fun b => if b = 2 then [98, 99] else []⟩ Gen.PegSkel.RULE_LITERAL exS 1).toOption.map (·.1)
    = some (some 3) := rfl
example : (run exE exK ⟨opsRule [], fun j => [0, 0, 0, 4, 0, 0, 0, 0].getD (j - 1) 0, fun _ => .nil, fun _ => []⟩ Gen.PegSkel.RULE_SET exS 1).toOption.map (·.1)
    = some (some 2) := rfl
-- (look -1 r) at 1: the sub-rule runs at 0, the rule returns 1
example : (run exE exK (ops [(2, 7)] [(1, 4294967295)]) Gen.PegSkel.RULE_LOOK exS 1).toOption.map (·.1) = some (some 1) := rfl
example : (run exE exK (ops [(2, 7)] [(1, 4294967295)]) Gen.PegSkel.RULE_LOOK exS 0).toOption.map (·.1) = some none := rfl
-- the NEWEST capture tagged 1 is "bc": backmatch at 1 matches to 3, at 0 it does not; gettag pushes it
example : (runL exE exK (ops [] [(1, 1)]) 0 Gen.PegSkel.RULE_BACKMATCH exS 1).toOption.map (·.1) = some (some 3) := rfl
example : (runL exE exK (ops [] [(1, 1)]) 0 Gen.PegSkel.RULE_BACKMATCH exS 0).toOption.map (·.1) = some none := rfl
example : (runL exE exK (ops [] [(1, 2), (2, 9)]) 0 Gen.PegSkel.RULE_GETTAG exS 0).toOption.map (fun x => x.2.tagged.length) = some 4 := rfl
example : (runL exE exK (ops [] [(1, 3), (2, 9)]) 0 Gen.PegSkel.RULE_GETTAG exS 0).toOption.map (·.1) = some none := rfl
-- unref of tag 1: of the three tagged captures the sub-rule adds, the one tagged 2 stays (compacted down)
example : (runL exE exK (ops [(1, 7)] [(2, 1)]) 5 Gen.PegSkel.RULE_UNREF exS 0).toOption.map (fun x => x.2.tagged.map (·.1)) = some [1, 2, 1, 2] := rfl
example : (runL exE exK (ops [(1, 7)] [(2, 0)]) 5 Gen.PegSkel.RULE_UNREF exS 0).toOption.map (fun x => x.2.tagged.map (·.1)) = some [1, 2, 1] := rfl
-- the fuel-free meaning exists and is the model's answer (hypothesis of rule_split_returns satisfiable)
example : Op.step exE exK 10 (.split 3 7) exS 0 ≠ .error .fuel := by
  intro h; have := congrArg (fun r : ORes => match r with | .error .fuel => true | _ => false) h; simp at this; revert this; decide
end Examples

/-! #### RULE_READINT: the two byte-accumulation loops ARE `readBE` / `readLE` -/

/-- the value RULE_READINT wraps, from the accumulated integer -/
def rdVal (acc flags : Nat) : Val :=
  if flags % 16 > 6 then
    if (flags / 16) % 2 == 1 then .s64 (toSigned acc (flags % 16)) else .u64 acc
  else
    if (flags / 16) % 2 == 1 then .int (toSigned acc (flags % 16)) else .int acc

theorem readintVal_eq (t : List Nat) (flags : Nat) :
    readintVal t flags = rdVal (if (flags / 32) % 2 == 1 then readBE t else readLE t) flags := by
  simp only [readintVal, rdVal]

theorem readBE_snoc (l : List Nat) (b : Nat) : readBE (l ++ [b]) = readBE l * 256 + b := by
  simp [readBE, List.foldl_append]

/-- the bytes of the window slice, one by one through the guarded accessor -/
theorem window_bytes (E : Env) (s : St) (pos w : Nat) (hin : pos + w ≤ s.textEnd) (hwin : s.textEnd ≤ E.text.length) :
    ((E.text.drop pos).take w).length = w ∧
    ∀ (i : Nat) (hi : i < w), ∃ b, ((E.text.drop pos).take w)[i]? = some b ∧ E.byte s (pos + i) = .ok b := by
  have hlen : ((E.text.drop pos).take w).length = w := by simp; omega
  refine ⟨hlen, fun i hi => ?_⟩
  have h1 : pos + i < E.text.length := by omega
  refine ⟨E.text[pos + i], ?_, ?_⟩
  · simp [List.getElem?_take, hi, h1]
  · have h2 : pos + i < s.textEnd := by omega
    simp [Env.byte, h2, h1]

section ReadInt
variable (E : Env) (k : OK ρ) (flags tag fuel : Nat)

/-- big endian: ascending loop, locals 0 = accum, 1 = i -/
theorem readint_be_loop (s : St) (pos : Nat) (t : List Nat) (ht : t.length = flags % 16) (hw : flags % 16 ≤ 8)
    (hb : ∀ b ∈ t, b < 256) (hbyte : ∀ i, i < flags % 16 → ∃ b, t[i]? = some b ∧ E.byte s (pos + i) = .ok b) :
    ∀ (m f : Nat) (L : Loc), m = flags % 16 - L.num 1 → m + 1 ≤ f → L.ptr 0 = some pos → L.num 1 ≤ flags % 16 →
      L.num 0 = readBE (t.take (L.num 1)) → L.num 0 < 256 ^ L.num 1 →
      ∃ L', loopN (fun L s => evalCond E (ops [] [(1, flags), (2, tag)] : Operands ρ) L s (.numLtWord 1 (.lowBits 1 4)))
          (fun L s => execL E k (ops [] [(1, flags), (2, tag)]) fuel Gen.PegSkel.RULE_READINT_body0 L s) f L s = .ok (.cont L' s) ∧
        L'.ptr 0 = some pos ∧ L'.num 0 = readBE t := by
  have hcond : ∀ (L : Loc) (s : St), evalCond E (ops [] [(1, flags), (2, tag)] : Operands ρ) L s (.numLtWord 1 (.lowBits 1 4)) =
      decide (L.num 1 < flags % 16) := by
    intro L s; simp [evalCond, evalWE, ops, opsWord]
  intro m
  induction m with
  | zero =>
    intro f L hm hf hp hi hacc _
    obtain ⟨f', rfl⟩ : ∃ f', f = f' + 1 := ⟨f - 1, by omega⟩
    have hge : ¬ L.num 1 < flags % 16 := by omega
    refine ⟨L, by simp [loopN, hcond, hge], hp, ?_⟩
    rw [hacc, List.take_of_length_le (by omega)]
  | succ m ih =>
    intro f L hm hf hp hi hacc hlt
    obtain ⟨f', rfl⟩ : ∃ f', f = f' + 1 := ⟨f - 1, by omega⟩
    have hlt1 : L.num 1 < flags % 16 := by omega
    obtain ⟨b, hb1, hb2⟩ := hbyte (L.num 1) hlt1
    have hbm : b ∈ t := List.mem_of_getElem? hb1
    have hb256 := hb b hbm
    have hsmall : L.num 0 * 256 + b < 18446744073709551616 := by
      have h1 : L.num 0 + 1 ≤ 256 ^ L.num 1 := hlt
      have h2 : 256 ^ L.num 1 * 256 ≤ 256 ^ 7 * 256 := Nat.mul_le_mul_right _ (Nat.pow_le_pow_right (by decide) (by omega))
      have h3 : (L.num 0 + 1) * 256 ≤ 256 ^ L.num 1 * 256 := Nat.mul_le_mul_right _ h1
      have : (256 : Nat) ^ 7 * 256 = 18446744073709551616 := by decide
      omega
    have hbody : execL E k (ops [] [(1, flags), (2, tag)]) fuel Gen.PegSkel.RULE_READINT_body0 L s =
        .ok (.cont { L with num := upd (upd L.num 0 (L.num 0 * 256 + b)) 1 (L.num 1 + 1) } s) := by
      simp [Gen.PegSkel.RULE_READINT_body0, execL, execStmt, evalNE, hp, hb2, upd, bind, Except.bind, Nat.mod_eq_of_lt hsmall]
    simp only [loopN, hcond, hlt1, decide_true, if_true, hbody, bind, Except.bind]
    exact ih f' { L with num := upd (upd L.num 0 (L.num 0 * 256 + b)) 1 (L.num 1 + 1) } (by simp [upd]; omega) (by omega)
      (by simpa using hp) (by simp [upd]; omega)
      (by simp only [upd]; simp only [if_true, show (0 : Nat) ≠ 1 by decide, if_false]
          rw [List.take_add_one, hb1, Option.toList, readBE_snoc, ← hacc])
      (by simp only [upd]; simp only [if_true, show (0 : Nat) ≠ 1 by decide, if_false]
          have h1 : L.num 0 + 1 ≤ 256 ^ L.num 1 := hlt
          have h3 : (L.num 0 + 1) * 256 ≤ 256 ^ L.num 1 * 256 := Nat.mul_le_mul_right _ h1
          rw [Nat.pow_succ]; omega)

/-- little endian: descending loop from the last byte of the slice -/
theorem readint_le_loop (s : St) (pos : Nat) (t : List Nat) (ht : t.length = flags % 16) (hw : flags % 16 ≤ 8)
    (hb : ∀ b ∈ t, b < 256) (hbyte : ∀ i, i < flags % 16 → ∃ b, t[i]? = some b ∧ E.byte s (pos + i) = .ok b) :
    ∀ (j : Nat) (L : Loc), j ≤ flags % 16 → L.ptr 0 = some pos → L.num 0 = readLE (t.drop j) → L.num 0 < 256 ^ (flags % 16 - j) →
      ∃ L', downN 1 (fun L s => execL E k (ops [] [(1, flags), (2, tag)]) fuel Gen.PegSkel.RULE_READINT_body1 L s) j L s = .ok (.cont L' s) ∧
        L'.ptr 0 = some pos ∧ L'.num 0 = readLE t := by
  intro j
  induction j with
  | zero => intro L _ hp hacc _; exact ⟨L, by simp [downN], hp, by simpa using hacc⟩
  | succ j ih =>
    intro L hj hp hacc hlt
    have hj1 : j < flags % 16 := by omega
    obtain ⟨b, hb1, hb2⟩ := hbyte j hj1
    have hbm : b ∈ t := List.mem_of_getElem? hb1
    have hb256 := hb b hbm
    have hsmall : L.num 0 * 256 + b < 18446744073709551616 := by
      have h1 : L.num 0 + 1 ≤ 256 ^ (flags % 16 - (j + 1)) := hlt
      have h2 : 256 ^ (flags % 16 - (j + 1)) * 256 ≤ 256 ^ 7 * 256 := Nat.mul_le_mul_right _ (Nat.pow_le_pow_right (by decide) (by omega))
      have h3 : (L.num 0 + 1) * 256 ≤ 256 ^ (flags % 16 - (j + 1)) * 256 := Nat.mul_le_mul_right _ h1
      have : (256 : Nat) ^ 7 * 256 = 18446744073709551616 := by decide
      omega
    have hjl : j < t.length := by omega
    have hbj : t[j] = b := by
      have := List.getElem?_eq_getElem hjl
      rw [this] at hb1; exact Option.some.inj hb1
    have hbody : execL E k (ops [] [(1, flags), (2, tag)]) fuel Gen.PegSkel.RULE_READINT_body1 { L with num := upd L.num 1 j } s =
        .ok (.cont { L with num := upd (upd L.num 1 j) 0 (L.num 0 * 256 + b) } s) := by
      simp [Gen.PegSkel.RULE_READINT_body1, execL, execStmt, hp, hb2, upd, bind, Except.bind, Nat.mod_eq_of_lt hsmall]
    simp only [downN, hbody, bind, Except.bind]
    exact ih { L with num := upd (upd L.num 1 j) 0 (L.num 0 * 256 + b) } (by omega) (by simpa using hp)
      (by simp only [upd, if_true]; rw [List.drop_eq_getElem_cons hjl, hbj, readLE, ← hacc]; omega)
      (by simp only [upd, if_true]
          have h1 : L.num 0 + 1 ≤ 256 ^ (flags % 16 - (j + 1)) := hlt
          have h3 : (L.num 0 + 1) * 256 ≤ 256 ^ (flags % 16 - (j + 1)) * 256 := Nat.mul_le_mul_right _ h1
          have : flags % 16 - j = (flags % 16 - (j + 1)) + 1 := by omega
          rw [this, Nat.pow_succ]; omega)

/-- what follows both loops: wrap, push, return -/
theorem readint_rest (s : St) (pos : Nat) (L : Loc) (hp : L.ptr 0 = some pos) :
    execL E k (ops [] [(1, flags), (2, tag)]) fuel Gen.PegSkel.RULE_READINT_rest0 L s =
      .ok (.ret (some (pos + flags % 16), pushcap E s (rdVal (L.num 0) flags) tag)) := by
  simp only [Gen.PegSkel.RULE_READINT_rest0, execL, execStmt, evalCond, evalVE, evalWE, ops, opsWord, rdVal]
  by_cases h6 : flags % 16 > 6 <;> by_cases hs : (flags / 16) % 2 = 1 <;> simp [h6, hs, hp, upd, bind, Except.bind]

/-- RULE_READINT: `rule[1] & 0xF` bytes inside the window, accumulated big endian (bit 5) or little endian, wrapped signed
    (bit 4) or unsigned, as an int-type above 6 bytes.  Hypotheses: the window lies inside the text (the model's invariant
    `never_reads_outside`), the width is at most 8 (spec_readint; the C's uint64_t accumulator wraps beyond), text elements are
    bytes.  `fuel` = IR loop fuel of the ascending loop. -/
theorem rule_readint (n : Nat) (s : St) (pos : Nat) (hwin : s.textEnd ≤ E.text.length) (hw : flags % 16 ≤ 8)
    (hb : ∀ b ∈ E.text, b < 256) (hf : 10 ≤ fuel) :
    runL E k (ops [] [(1, flags), (2, tag)]) fuel Gen.PegSkel.RULE_READINT s pos = Op.step E k n (.readint flags tag) s pos := by
  simp only [runL, Gen.PegSkel.RULE_READINT, execL, execStmt, evalCond, evalNE, evalWE, Loc.init, Op.step]
  have hword : (ops [] [(1, flags), (2, tag)] : Operands ρ).word 1 = flags := by simp [ops, opsWord]
  simp only [hword, show (2 : Nat) ^ 4 = 16 by decide, show (2 : Nat) ^ 5 = 32 by decide, if_true]
  by_cases hout : pos + flags % 16 > s.textEnd
  · simp [hout]
  · have hin : pos + flags % 16 ≤ s.textEnd := by omega
    obtain ⟨hlen, hbyte⟩ := window_bytes E s pos (flags % 16) hin hwin
    have hbt : ∀ b ∈ (E.text.drop pos).take (flags % 16), b < 256 :=
      fun b hb' => hb b (List.mem_of_mem_drop (List.mem_of_mem_take hb'))
    have hslice : E.slice s pos (pos + flags % 16) = .ok ((E.text.drop pos).take (flags % 16)) := by
      simp [Env.slice, hin]; omega
    simp only [hout, decide_false, Bool.false_eq_true, if_false, hslice, bind, Except.bind, readintVal_eq]
    by_cases hbe : (flags / 32) % 2 = 1
    · simp only [hbe, beq_self_eq_true, if_true]
      obtain ⟨L', g1, g2, g3⟩ := readint_be_loop E k flags tag fuel s pos _ hlen hw hbt hbyte (flags % 16) fuel
        { ptr := fun x => if x = 0 then some pos else none, cs := fun _ => ⟨0, 0, 0⟩, val := fun _ => .nil,
          num := upd (upd (fun _ => 0) 0 0) 1 0, oldmode := false }
        (by simp [upd]) (by omega) (by simp) (by simp [upd]) (by simp [upd, readBE]) (by simp [upd])
      simp only [evalCond, evalWE, hword, show (2 : Nat) ^ 4 = 16 by decide] at g1
      rw [g1]
      simp only [readint_rest E k flags tag fuel s pos L' g2, g3]
    · have hbe' : ((flags / 32) % 2 == 1) = false := by simpa using hbe
      simp only [hbe', Bool.false_eq_true, if_false]
      obtain ⟨L', g1, g2, g3⟩ := readint_le_loop E k flags tag fuel s pos _ hlen hw hbt hbyte (flags % 16)
        { ptr := fun x => if x = 0 then some pos else none, cs := fun _ => ⟨0, 0, 0⟩, val := fun _ => .nil,
          num := upd (fun _ => 0) 0 0, oldmode := false }
        (Nat.le_refl _) (by simp) (by simp [upd, hlen.symm ▸ List.drop_length, readLE]) (by simp [upd])
      rw [g1]
      simp only [show Gen.PegSkel.RULE_READINT_rest1 = Gen.PegSkel.RULE_READINT_rest0 from rfl,
        readint_rest E k flags tag fuel s pos L' g2, g3]

end ReadInt


theorem rule_readint_returns {ρ : Type} (E : Env) (k : OK ρ) (flags tag n : Nat) (s : St) (pos : Nat) (hwin : s.textEnd ≤ E.text.length)
    (hw : flags % 16 ≤ 8) (hb : ∀ b ∈ E.text, b < 256) :
    Returns (fun fuel => runL E k (ops [] [(1, flags), (2, tag)]) fuel Gen.PegSkel.RULE_READINT s pos)
      (Op.step E k n (.readint flags tag) s pos) :=
  ⟨10, fun fuel hf => rule_readint E k flags tag fuel n s pos hwin hw hb hf⟩

-- two bytes "bc" at 1, little endian unsigned = 98 + 256 * 99; big endian = 98 * 256 + 99
example : (runL exE exK (ops [] [(1, 2), (2, 0)]) 10 Gen.PegSkel.RULE_READINT exS 1).toOption.map (fun x => x.2.caps.length) = some 1 := rfl
example : (runL exE exK (ops [] [(1, 4), (2, 0)]) 10 Gen.PegSkel.RULE_READINT exS 1).toOption.map (·.1) = some none := rfl

section Decoded
open JanetModel.Gen.Peg

/-! #### the operand layout, extracted: `rule_x` on the RAW words of the bytecode

`rule_x` above names the operands of the instruction (`ops [(1, a), (2, b)] ..`).  Here the extracted program runs on `rawOps P pc len`
- `rule[j]` IS word `pc + j` of the bytecode for `j < len` (the instruction's own words; nothing beyond them) - and the instruction
is what `Decode.decode P pc` returns.  Which positions the C reads comes from the extracted program (`Skel.okProg`, decided by the
kernel), which positions the decoder reads comes from `decode`; an operand the C takes from another position than the decoder
(or from beyond the instruction) breaks `decoded_x`. -/

/-- the operand words of the instruction at `pc` that occupies `len` words, as the C sees them through `rule[k]` -/
def rawOps (P : Program) (pc len : Nat) : Operands Nat :=
  { rule := fun j => if j < len then some (P.word (pc + j)) else none,
    word := fun j => if j < len then P.word (pc + j) else 0,
    const := fun j => (P.constants[P.word (pc + j)]?).getD .nil,
    bytes := fun j => (List.range (P.word (pc + 1))).map (P.litByte (pc + j)) }

macro "agree_tac" : tactic =>
  `(tactic| (constructor <;> intro j hj <;> simp [FP.W, FP.R, FP.C, FP.B] at hj <;>
      (try rcases hj with h | h | h | h) <;> (try subst h) <;> simp [rawOps, ops, opsRepl, opsRule, opsWord, *]))
macro "decode_tac" hpc:ident hop:ident : tactic =>
  `(tactic| simp +decide [decode, Nat.not_le.mpr $hpc, $hop:ident, *])

theorem decoded_if (E : Env) (k : OK Nat) (n : Nat) (P : Program) (pc : Nat) (s : St) (pos : Nat)
    (hpc : pc < P.bytecode.size) (hop : P.word pc = RULE_IF) :
    ∃ i, decode P pc = some i ∧ run E k (rawOps P pc 3) Gen.PegSkel.RULE_IF s pos = Op.step E k n i s pos := by
  refine ⟨.if_ (P.word (pc + 1)) (P.word (pc + 2)), by decode_tac hpc hop, ?_⟩
  rw [← rule_if E k n _ _ s pos]
  exact run_congr (f := { r := [1, 2] }) (by agree_tac) E k _ (by decide) s pos

theorem decoded_ifnot (E : Env) (k : OK Nat) (n : Nat) (P : Program) (pc : Nat) (s : St) (pos : Nat)
    (hpc : pc < P.bytecode.size) (hop : P.word pc = RULE_IFNOT) :
    ∃ i, decode P pc = some i ∧ run E k (rawOps P pc 3) Gen.PegSkel.RULE_IFNOT s pos = Op.step E k n i s pos := by
  refine ⟨.ifnot (P.word (pc + 1)) (P.word (pc + 2)), by decode_tac hpc hop, ?_⟩
  rw [← rule_ifnot E k n _ _ s pos]
  exact run_congr (f := { r := [1, 2] }) (by agree_tac) E k _ (by decide) s pos

theorem decoded_not (E : Env) (k : OK Nat) (n : Nat) (P : Program) (pc : Nat) (s : St) (pos : Nat)
    (hpc : pc < P.bytecode.size) (hop : P.word pc = RULE_NOT) :
    ∃ i, decode P pc = some i ∧ run E k (rawOps P pc 2) Gen.PegSkel.RULE_NOT s pos = Op.step E k n i s pos := by
  refine ⟨.not (P.word (pc + 1)), by decode_tac hpc hop, ?_⟩
  rw [← rule_not E k n _ s pos]
  exact run_congr (f := { r := [1] }) (by agree_tac) E k _ (by decide) s pos

theorem decoded_drop (E : Env) (k : OK Nat) (n : Nat) (P : Program) (pc : Nat) (s : St) (pos : Nat)
    (hpc : pc < P.bytecode.size) (hop : P.word pc = RULE_DROP) :
    ∃ i, decode P pc = some i ∧ run E k (rawOps P pc 2) Gen.PegSkel.RULE_DROP s pos = Op.step E k n i s pos := by
  refine ⟨.drop (P.word (pc + 1)), by decode_tac hpc hop, ?_⟩
  rw [← rule_drop E k n _ s pos]
  exact run_congr (f := { r := [1] }) (by agree_tac) E k _ (by decide) s pos

theorem decoded_only_tags (E : Env) (k : OK Nat) (n : Nat) (P : Program) (pc : Nat) (s : St) (pos : Nat)
    (hpc : pc < P.bytecode.size) (hop : P.word pc = RULE_ONLY_TAGS) :
    ∃ i, decode P pc = some i ∧ run E k (rawOps P pc 2) Gen.PegSkel.RULE_ONLY_TAGS s pos = Op.step E k n i s pos := by
  refine ⟨.onlytags (P.word (pc + 1)), by decode_tac hpc hop, ?_⟩
  rw [← rule_only_tags E k n _ s pos]
  exact run_congr (f := { r := [1] }) (by agree_tac) E k _ (by decide) s pos

theorem decoded_sub (E : Env) (k : OK Nat) (n : Nat) (P : Program) (pc : Nat) (s : St) (pos : Nat)
    (hpc : pc < P.bytecode.size) (hop : P.word pc = RULE_SUB) :
    ∃ i, decode P pc = some i ∧ run E k (rawOps P pc 3) Gen.PegSkel.RULE_SUB s pos = Op.step E k n i s pos := by
  refine ⟨.sub (P.word (pc + 1)) (P.word (pc + 2)), by decode_tac hpc hop, ?_⟩
  rw [← rule_sub E k n _ _ s pos]
  exact run_congr (f := { r := [1, 2] }) (by agree_tac) E k _ (by decide) s pos

theorem decoded_accumulate (E : Env) (k : OK Nat) (n : Nat) (P : Program) (pc : Nat) (s : St) (pos : Nat)
    (hpc : pc < P.bytecode.size) (hop : P.word pc = RULE_ACCUMULATE) :
    ∃ i, decode P pc = some i ∧ run E k (rawOps P pc 3) Gen.PegSkel.RULE_ACCUMULATE s pos = Op.step E k n i s pos := by
  refine ⟨.accumulate (P.word (pc + 1)) (P.word (pc + 2)), by decode_tac hpc hop, ?_⟩
  rw [← rule_accumulate E k n _ _ s pos]
  exact run_congr (f := { r := [1], w := [2] }) (by agree_tac) E k _ (by decide) s pos

theorem decoded_capture (E : Env) (k : OK Nat) (n : Nat) (P : Program) (pc : Nat) (s : St) (pos : Nat)
    (hpc : pc < P.bytecode.size) (hop : P.word pc = RULE_CAPTURE) :
    ∃ i, decode P pc = some i ∧ run E k (rawOps P pc 3) Gen.PegSkel.RULE_CAPTURE s pos = Op.step E k n i s pos := by
  refine ⟨.capture (P.word (pc + 1)) (P.word (pc + 2)), by decode_tac hpc hop, ?_⟩
  rw [← rule_capture E k n _ _ s pos]
  exact run_congr (f := { r := [1], w := [2] }) (by agree_tac) E k _ (by decide) s pos

theorem decoded_position (E : Env) (k : OK Nat) (n : Nat) (P : Program) (pc : Nat) (s : St) (pos : Nat)
    (hpc : pc < P.bytecode.size) (hop : P.word pc = RULE_POSITION) :
    ∃ i, decode P pc = some i ∧ run E k (rawOps P pc 2) Gen.PegSkel.RULE_POSITION s pos = Op.step E k n i s pos := by
  refine ⟨.position (P.word (pc + 1)), by decode_tac hpc hop, ?_⟩
  rw [← rule_position E k n _ s pos]
  exact run_congr (f := { w := [1] }) (by agree_tac) E k _ (by decide) s pos

theorem decoded_constant (E : Env) (k : OK Nat) (n : Nat) (P : Program) (pc : Nat) (s : St) (pos : Nat)
    (hpc : pc < P.bytecode.size) (hop : P.word pc = RULE_CONSTANT) (v : Val)
    (hv : P.constants[P.word (pc + 1)]? = some v) :
    ∃ i, decode P pc = some i ∧ run E k (rawOps P pc 3) Gen.PegSkel.RULE_CONSTANT s pos = Op.step E k n i s pos := by
  refine ⟨.constant v (P.word (pc + 2)), by decode_tac hpc hop, ?_⟩
  rw [← rule_constant E k n v _ s pos]
  exact run_congr (f := { c := [1], w := [2] }) (by agree_tac) E k _ (by decide) s pos

theorem decoded_group (E : Env) (k : OK Nat) (n : Nat) (P : Program) (pc : Nat) (s : St) (pos : Nat)
    (hpc : pc < P.bytecode.size) (hop : P.word pc = RULE_GROUP) :
    ∃ i, decode P pc = some i ∧ run E k (rawOps P pc 3) Gen.PegSkel.RULE_GROUP s pos = Op.step E k n i s pos := by
  refine ⟨.group (P.word (pc + 1)) (P.word (pc + 2)), by decode_tac hpc hop, ?_⟩
  rw [← rule_group E k n _ _ s pos]
  exact run_congr (f := { r := [1], w := [2] }) (by agree_tac) E k _ (by decide) s pos

theorem decoded_nth (E : Env) (k : OK Nat) (n : Nat) (P : Program) (pc : Nat) (s : St) (pos : Nat)
    (hpc : pc < P.bytecode.size) (hop : P.word pc = RULE_NTH) :
    ∃ i, decode P pc = some i ∧ run E k (rawOps P pc 4) Gen.PegSkel.RULE_NTH s pos = Op.step E k n i s pos := by
  refine ⟨.nth (P.word (pc + 1)) (P.word (pc + 2)) (P.word (pc + 3)), by decode_tac hpc hop, ?_⟩
  rw [← rule_nth E k n _ _ _ s pos]
  exact run_congr (f := { r := [2], w := [1, 3] }) (by agree_tac) E k _ (by decide) s pos

theorem decoded_error (E : Env) (k : OK Nat) (n : Nat) (P : Program) (pc : Nat) (s : St) (pos : Nat)
    (hpc : pc < P.bytecode.size) (hop : P.word pc = RULE_ERROR) :
    ∃ i, decode P pc = some i ∧ run E k (rawOps P pc 2) Gen.PegSkel.RULE_ERROR s pos = Op.step E k n i s pos := by
  refine ⟨.error (P.word (pc + 1)), by decode_tac hpc hop, ?_⟩
  rw [← rule_error E k n _ s pos]
  exact run_congr (f := { r := [1] }) (by agree_tac) E k _ (by decide) s pos

theorem decoded_nchar (E : Env) (k : OK Nat) (n : Nat) (P : Program) (pc : Nat) (s : St) (pos : Nat)
    (hpc : pc < P.bytecode.size) (hop : P.word pc = RULE_NCHAR) :
    ∃ i, decode P pc = some i ∧ run E k (rawOps P pc 2) Gen.PegSkel.RULE_NCHAR s pos = Op.step E k n i s pos := by
  refine ⟨.nchar (P.word (pc + 1)), by decode_tac hpc hop, ?_⟩
  rw [← rule_nchar E k n _ s pos]
  exact run_congr (f := { w := [1] }) (by agree_tac) E k _ (by decide) s pos

theorem decoded_notnchar (E : Env) (k : OK Nat) (n : Nat) (P : Program) (pc : Nat) (s : St) (pos : Nat)
    (hpc : pc < P.bytecode.size) (hop : P.word pc = RULE_NOTNCHAR) :
    ∃ i, decode P pc = some i ∧ run E k (rawOps P pc 2) Gen.PegSkel.RULE_NOTNCHAR s pos = Op.step E k n i s pos := by
  refine ⟨.notnchar (P.word (pc + 1)), by decode_tac hpc hop, ?_⟩
  rw [← rule_notnchar E k n _ s pos]
  exact run_congr (f := { w := [1] }) (by agree_tac) E k _ (by decide) s pos

theorem decoded_line (E : Env) (k : OK Nat) (n : Nat) (P : Program) (pc : Nat) (s : St) (pos : Nat)
    (hpc : pc < P.bytecode.size) (hop : P.word pc = RULE_LINE) :
    ∃ i, decode P pc = some i ∧ run E k (rawOps P pc 2) Gen.PegSkel.RULE_LINE s pos = Op.step E k n i s pos := by
  refine ⟨.line (P.word (pc + 1)), by decode_tac hpc hop, ?_⟩
  rw [← rule_line E k n _ s pos]
  exact run_congr (f := { w := [1] }) (by agree_tac) E k _ (by decide) s pos

theorem decoded_column (E : Env) (k : OK Nat) (n : Nat) (P : Program) (pc : Nat) (s : St) (pos : Nat)
    (hpc : pc < P.bytecode.size) (hop : P.word pc = RULE_COLUMN) :
    ∃ i, decode P pc = some i ∧ run E k (rawOps P pc 2) Gen.PegSkel.RULE_COLUMN s pos = Op.step E k n i s pos := by
  refine ⟨.column (P.word (pc + 1)), by decode_tac hpc hop, ?_⟩
  rw [← rule_column E k n _ s pos]
  exact run_congr (f := { w := [1] }) (by agree_tac) E k _ (by decide) s pos

theorem decoded_argument (E : Env) (k : OK Nat) (n : Nat) (P : Program) (pc : Nat) (s : St) (pos : Nat)
    (hpc : pc < P.bytecode.size) (hop : P.word pc = RULE_ARGUMENT) :
    ∃ i, decode P pc = some i ∧ run E k (rawOps P pc 3) Gen.PegSkel.RULE_ARGUMENT s pos = Op.step E k n i s pos := by
  refine ⟨.argument (P.word (pc + 1)) (P.word (pc + 2)), by decode_tac hpc hop, ?_⟩
  rw [← rule_argument E k n _ _ s pos]
  exact run_congr (f := { w := [1, 2] }) (by agree_tac) E k _ (by decide) s pos

theorem decoded_replace (E : Env) (k : OK Nat) (n : Nat) (P : Program) (pc : Nat) (s : St) (pos : Nat)
    (hpc : pc < P.bytecode.size) (hop : P.word pc = RULE_REPLACE) (hk : KeepsDepth k) (v : Val)
    (hv : P.constants[P.word (pc + 2)]? = some v) :
    ∃ i, decode P pc = some i ∧ run E k (rawOps P pc 4) Gen.PegSkel.RULE_REPLACE s pos = Op.step E k n i s pos := by
  refine ⟨.replace (P.word (pc + 1)) v (P.word (pc + 3)), by decode_tac hpc hop, ?_⟩
  rw [← rule_replace E k hk n _ v _ s pos]
  exact run_congr (f := { r := [1], w := [0, 3], c := [2] }) (by agree_tac) E k _ (by decide) s pos

theorem decoded_matchtime (E : Env) (k : OK Nat) (n : Nat) (P : Program) (pc : Nat) (s : St) (pos : Nat)
    (hpc : pc < P.bytecode.size) (hop : P.word pc = RULE_MATCHTIME) (hk : KeepsDepth k) (v : Val)
    (hv : P.constants[P.word (pc + 2)]? = some v) :
    ∃ i, decode P pc = some i ∧ run E k (rawOps P pc 4) Gen.PegSkel.RULE_MATCHTIME s pos = Op.step E k n i s pos := by
  refine ⟨.matchtime (P.word (pc + 1)) v (P.word (pc + 3)), by decode_tac hpc hop, ?_⟩
  rw [← rule_matchtime E k hk n _ v _ s pos]
  exact run_congr (f := { r := [1], w := [0, 3], c := [2] }) (by agree_tac) E k _ (by decide) s pos

theorem decoded_range (E : Env) (k : OK Nat) (n : Nat) (P : Program) (pc : Nat) (s : St) (pos : Nat)
    (hpc : pc < P.bytecode.size) (hop : P.word pc = RULE_RANGE) :
    ∃ i, decode P pc = some i ∧ run E k (rawOps P pc 2) Gen.PegSkel.RULE_RANGE s pos = Op.step E k n i s pos := by
  refine ⟨.range ((P.word (pc + 1)) % 256) (((P.word (pc + 1)) / 65536) % 256), by decode_tac hpc hop, ?_⟩
  rw [← rule_range E k n _ s pos]
  exact run_congr (f := { w := [1] }) (by agree_tac) E k _ (by decide) s pos

theorem decoded_look (E : Env) (k : OK Nat) (n : Nat) (P : Program) (pc : Nat) (s : St) (pos : Nat)
    (hpc : pc < P.bytecode.size) (hop : P.word pc = RULE_LOOK) :
    ∃ i, decode P pc = some i ∧ run E k (rawOps P pc 3) Gen.PegSkel.RULE_LOOK s pos = Op.step E k n i s pos := by
  refine ⟨.look (asInt32 (P.word (pc + 1))) (P.word (pc + 2)), by decode_tac hpc hop, ?_⟩
  rw [← rule_look E k n _ _ s pos]
  exact run_congr (f := { r := [2], w := [1] }) (by agree_tac) E k _ (by decide) s pos

theorem decoded_capture_num (E : Env) (k : OK Nat) (n : Nat) (P : Program) (pc : Nat) (s : St) (pos : Nat)
    (hpc : pc < P.bytecode.size) (hop : P.word pc = RULE_CAPTURE_NUM) (hE : E.numRaw = false) :
    ∃ i, decode P pc = some i ∧ run E k (rawOps P pc 4) Gen.PegSkel.RULE_CAPTURE_NUM s pos = Op.step E k n i s pos := by
  refine ⟨.capturenum (P.word (pc + 1)) (P.word (pc + 2)) (P.word (pc + 3)), by decode_tac hpc hop, ?_⟩
  rw [← rule_capture_num E hE k n _ _ _ s pos]
  exact run_congr (f := { r := [1], w := [2, 3] }) (by agree_tac) E k _ (by decide) s pos

theorem decoded_literal (E : Env) (k : OK Nat) (n : Nat) (P : Program) (pc : Nat) (s : St) (pos : Nat)
    (hpc : pc < P.bytecode.size) (hop : P.word pc = RULE_LITERAL) :
    ∃ i, decode P pc = some i ∧ run E k (rawOps P pc 2) Gen.PegSkel.RULE_LITERAL s pos = Op.step E k n i s pos := by
  refine ⟨.literal ((List.range (P.word (pc + 1))).map (P.litByte (pc + 2))), by decode_tac hpc hop, ?_⟩
  rw [← rule_literal E k n _ s pos]
  exact run_congr (f := { w := [1], b := [2] }) (by agree_tac) E k _ (by decide) s pos

theorem decoded_set (E : Env) (k : OK Nat) (n : Nat) (P : Program) (pc : Nat) (s : St) (pos : Nat)
    (hpc : pc < P.bytecode.size) (hop : P.word pc = RULE_SET) :
    ∃ i, decode P pc = some i ∧ run E k (rawOps P pc 9) Gen.PegSkel.RULE_SET s pos = Op.step E k n i s pos := by
  refine ⟨.set ((List.range 8).map (fun j => P.word (pc + 1 + j))), by decode_tac hpc hop, ?_⟩
  rw [← rule_set E k n _ s pos]
  refine run_congr (f := { wFrom := some 1 }) ?_ E k _ (by decide) s pos
  constructor <;> intro j hj <;> simp [FP.W, FP.R, FP.C, FP.B] at hj
  simp only [rawOps]
  by_cases h9 : j < 9
  · have : j - 1 < 8 := by omega
    have h2 : pc + 1 + (j - 1) = pc + j := by omega
    simp [h9, List.getD, this, h2]
  · have : ¬ (j - 1 < 8) := by omega
    simp [h9, List.getD, this]

theorem decoded_to (E : Env) (k : OK Nat) (n : Nat) (P : Program) (pc : Nat) (s : St) (pos : Nat)
    (hpc : pc < P.bytecode.size) (hop : P.word pc = RULE_TO) (hk : KeepsWindow k) :
    ∃ i, decode P pc = some i ∧
      Returns (fun fuel => runL E k (rawOps P pc 2) fuel Gen.PegSkel.RULE_TO s pos) (Op.step E k n i s pos) := by
  refine ⟨.to (P.word (pc + 1)), by decode_tac hpc hop, ?_⟩
  have hc : (fun fuel => runL E k (rawOps P pc 2) fuel Gen.PegSkel.RULE_TO s pos) =
      (fun fuel => runL E k ⟨opsRule [(1, (P.word (pc + 1)))], opsWord [(0, if true then RULE_TO else RULE_THRU)], fun _ => .nil, fun _ => []⟩ fuel Gen.PegSkel.RULE_TO s pos) :=
    funext fun fuel => runL_congr (f := { r := [1], w := [0] }) (by agree_tac) E k fuel _ (by decide) s pos
  rw [hc]
  exact rule_to_thru_returns E k hk n true _ s pos

theorem decoded_thru (E : Env) (k : OK Nat) (n : Nat) (P : Program) (pc : Nat) (s : St) (pos : Nat)
    (hpc : pc < P.bytecode.size) (hop : P.word pc = RULE_THRU) (hk : KeepsWindow k) :
    ∃ i, decode P pc = some i ∧
      Returns (fun fuel => runL E k (rawOps P pc 2) fuel Gen.PegSkel.RULE_THRU s pos) (Op.step E k n i s pos) := by
  refine ⟨.thru (P.word (pc + 1)), by decode_tac hpc hop, ?_⟩
  have hc : (fun fuel => runL E k (rawOps P pc 2) fuel Gen.PegSkel.RULE_THRU s pos) =
      (fun fuel => runL E k ⟨opsRule [(1, (P.word (pc + 1)))], opsWord [(0, if false then RULE_TO else RULE_THRU)], fun _ => .nil, fun _ => []⟩ fuel Gen.PegSkel.RULE_TO s pos) :=
    funext fun fuel => runL_congr (f := { r := [1], w := [0] }) (by agree_tac) E k fuel _ (by decide) s pos
  rw [hc]
  exact rule_to_thru_returns E k hk n false _ s pos

theorem decoded_til (E : Env) (k : OK Nat) (n : Nat) (P : Program) (pc : Nat) (s : St) (pos : Nat)
    (hpc : pc < P.bytecode.size) (hop : P.word pc = RULE_TIL) (hk : KeepsWindow k) :
    ∃ i, decode P pc = some i ∧
      Returns (fun fuel => runL E k (rawOps P pc 3) fuel Gen.PegSkel.RULE_TIL s pos) (Op.step E k n i s pos) := by
  refine ⟨.til (P.word (pc + 1)) (P.word (pc + 2)), by decode_tac hpc hop, ?_⟩
  have hc : (fun fuel => runL E k (rawOps P pc 3) fuel Gen.PegSkel.RULE_TIL s pos) =
      (fun fuel => runL E k (ops [(1, (P.word (pc + 1))), (2, (P.word (pc + 2)))] []) fuel Gen.PegSkel.RULE_TIL s pos) :=
    funext fun fuel => runL_congr (f := { r := [1, 2] }) (by agree_tac) E k fuel _ (by decide) s pos
  rw [hc]
  exact rule_til_returns E k hk n _ _ s pos

theorem decoded_lenprefix (E : Env) (k : OK Nat) (n : Nat) (P : Program) (pc : Nat) (s : St) (pos : Nat)
    (hpc : pc < P.bytecode.size) (hop : P.word pc = RULE_LENPREFIX) (hE : E.lenprefixLeak = false) :
    ∃ i, decode P pc = some i ∧
      Returns (fun fuel => runL E k (rawOps P pc 3) fuel Gen.PegSkel.RULE_LENPREFIX s pos) (Op.step E k n i s pos) := by
  refine ⟨.lenprefix (P.word (pc + 1)) (P.word (pc + 2)), by decode_tac hpc hop, ?_⟩
  have hc : (fun fuel => runL E k (rawOps P pc 3) fuel Gen.PegSkel.RULE_LENPREFIX s pos) =
      (fun fuel => runL E k (ops [(1, (P.word (pc + 1))), (2, (P.word (pc + 2)))] []) fuel Gen.PegSkel.RULE_LENPREFIX s pos) :=
    funext fun fuel => runL_congr (f := { r := [1, 2] }) (by agree_tac) E k fuel _ (by decide) s pos
  rw [hc]
  exact rule_lenprefix_returns E hE k n _ _ s pos

theorem decoded_between (E : Env) (k : OK Nat) (n : Nat) (P : Program) (pc : Nat) (s : St) (pos : Nat)
    (hpc : pc < P.bytecode.size) (hop : P.word pc = RULE_BETWEEN)
    (hn : ∀ s0, down1 s = .ok s0 → Op.betweenLoop k (P.word (pc + 3)) (P.word (pc + 2)) n 0 s0 pos ≠ .error .fuel) :
    ∃ i, decode P pc = some i ∧
      Returns (fun fuel => runL E k (rawOps P pc 4) fuel Gen.PegSkel.RULE_BETWEEN s pos) (Op.step E k n i s pos) := by
  refine ⟨.between (P.word (pc + 1)) (P.word (pc + 2)) (P.word (pc + 3)), by decode_tac hpc hop, ?_⟩
  have hc : (fun fuel => runL E k (rawOps P pc 4) fuel Gen.PegSkel.RULE_BETWEEN s pos) =
      (fun fuel => runL E k (ops [(3, (P.word (pc + 3)))] [(1, (P.word (pc + 1))), (2, (P.word (pc + 2)))]) fuel Gen.PegSkel.RULE_BETWEEN s pos) :=
    funext fun fuel => runL_congr (f := { r := [3], w := [1, 2] }) (by agree_tac) E k fuel _ (by decide) s pos
  rw [hc]
  exact rule_between_returns E k n _ _ _ s pos hn

theorem decoded_split (E : Env) (k : OK Nat) (n : Nat) (P : Program) (pc : Nat) (s : St) (pos : Nat)
    (hpc : pc < P.bytecode.size) (hop : P.word pc = RULE_SPLIT)
    (hn : Op.step E k n (.split (P.word (pc + 1)) (P.word (pc + 2))) s pos ≠ .error .fuel) :
    ∃ i, decode P pc = some i ∧
      Returns (fun fuel => runL E k (rawOps P pc 3) fuel Gen.PegSkel.RULE_SPLIT s pos) (Op.step E k n i s pos) := by
  refine ⟨.split (P.word (pc + 1)) (P.word (pc + 2)), by decode_tac hpc hop, ?_⟩
  have hc : (fun fuel => runL E k (rawOps P pc 3) fuel Gen.PegSkel.RULE_SPLIT s pos) =
      (fun fuel => runL E k (ops [(1, (P.word (pc + 1))), (2, (P.word (pc + 2)))] []) fuel Gen.PegSkel.RULE_SPLIT s pos) :=
    funext fun fuel => runL_congr (f := { r := [1, 2] }) (by agree_tac) E k fuel _ (by decide) s pos
  rw [hc]
  exact rule_split_returns E k n _ _ s pos hn

theorem decoded_unref (E : Env) (k : OK Nat) (n : Nat) (P : Program) (pc : Nat) (s : St) (pos : Nat)
    (hpc : pc < P.bytecode.size) (hop : P.word pc = RULE_UNREF) :
    ∃ i, decode P pc = some i ∧
      Returns (fun fuel => runL E k (rawOps P pc 3) fuel Gen.PegSkel.RULE_UNREF s pos) (Op.step E k n i s pos) := by
  refine ⟨.unref (P.word (pc + 1)) (P.word (pc + 2)), by decode_tac hpc hop, ?_⟩
  have hc : (fun fuel => runL E k (rawOps P pc 3) fuel Gen.PegSkel.RULE_UNREF s pos) =
      (fun fuel => runL E k (ops [(1, (P.word (pc + 1)))] [(2, (P.word (pc + 2)))]) fuel Gen.PegSkel.RULE_UNREF s pos) :=
    funext fun fuel => runL_congr (f := { r := [1], w := [2] }) (by agree_tac) E k fuel _ (by decide) s pos
  rw [hc]
  exact rule_unref_returns E k n _ _ s pos

theorem decoded_gettag (E : Env) (k : OK Nat) (n : Nat) (P : Program) (pc : Nat) (s : St) (pos : Nat)
    (hpc : pc < P.bytecode.size) (hop : P.word pc = RULE_GETTAG) :
    ∃ i, decode P pc = some i ∧
      Returns (fun fuel => runL E k (rawOps P pc 3) fuel Gen.PegSkel.RULE_GETTAG s pos) (Op.step E k n i s pos) := by
  refine ⟨.gettag (P.word (pc + 1)) (P.word (pc + 2)), by decode_tac hpc hop, ?_⟩
  have hc : (fun fuel => runL E k (rawOps P pc 3) fuel Gen.PegSkel.RULE_GETTAG s pos) =
      (fun fuel => runL E k (ops [] [(1, (P.word (pc + 1))), (2, (P.word (pc + 2)))]) fuel Gen.PegSkel.RULE_GETTAG s pos) :=
    funext fun fuel => runL_congr (f := { w := [1, 2] }) (by agree_tac) E k fuel _ (by decide) s pos
  rw [hc]
  exact ⟨0, fun fuel _ => rule_gettag E k n fuel _ _ s pos⟩

theorem decoded_backmatch (E : Env) (k : OK Nat) (n : Nat) (P : Program) (pc : Nat) (s : St) (pos : Nat)
    (hpc : pc < P.bytecode.size) (hop : P.word pc = RULE_BACKMATCH) :
    ∃ i, decode P pc = some i ∧
      Returns (fun fuel => runL E k (rawOps P pc 2) fuel Gen.PegSkel.RULE_BACKMATCH s pos) (Op.step E k n i s pos) := by
  refine ⟨.backmatch (P.word (pc + 1)), by decode_tac hpc hop, ?_⟩
  have hc : (fun fuel => runL E k (rawOps P pc 2) fuel Gen.PegSkel.RULE_BACKMATCH s pos) =
      (fun fuel => runL E k (ops [] [(1, (P.word (pc + 1)))]) fuel Gen.PegSkel.RULE_BACKMATCH s pos) :=
    funext fun fuel => runL_congr (f := { w := [1] }) (by agree_tac) E k fuel _ (by decide) s pos
  rw [hc]
  exact ⟨0, fun fuel _ => rule_backmatch E k n fuel _ s pos⟩

theorem decoded_choice (E : Env) (k : OK Nat) (n : Nat) (P : Program) (pc : Nat) (s : St) (pos : Nat)
    (hpc : pc < P.bytecode.size) (hop : P.word pc = RULE_CHOICE) :
    ∃ i, decode P pc = some i ∧
      Returns (fun fuel => runL E k (rawOps P pc (2 + P.word (pc + 1))) fuel Gen.PegSkel.RULE_CHOICE s pos) (Op.step E k n i s pos) := by
  refine ⟨.choice ((List.range (P.word (pc + 1))).map (fun j => P.word (pc + 2 + j))), by decode_tac hpc hop, ?_⟩
  have hc : (fun fuel => runL E k (rawOps P pc (2 + P.word (pc + 1))) fuel Gen.PegSkel.RULE_CHOICE s pos) =
      (fun fuel => runL E k (opsList ((List.range (P.word (pc + 1))).map (fun j => P.word (pc + 2 + j)))) fuel Gen.PegSkel.RULE_CHOICE s pos) :=
    funext fun fuel => runL_congr (f := { rFrom := some 2, w := [1] }) (by
      constructor <;> intro j hj <;> simp [FP.W, FP.R, FP.C, FP.B] at hj
      · subst hj; simp [rawOps, opsList, opsWord]; omega
      · simp only [rawOps, opsList, hj, if_true]
        by_cases hlt : j < 2 + P.word (pc + 1)
        · have h1 : j - 2 < P.word (pc + 1) := by omega
          have h2 : pc + 2 + (j - 2) = pc + j := by omega
          simp [hlt, h1, h2]
        · have h1 : ¬ (j - 2 < P.word (pc + 1)) := by omega
          simp [hlt, h1]) E k fuel _ (by decide) s pos
  rw [hc]
  exact rule_choice_returns E k n _ s pos

theorem decoded_sequence (E : Env) (k : OK Nat) (n : Nat) (P : Program) (pc : Nat) (s : St) (pos : Nat)
    (hpc : pc < P.bytecode.size) (hop : P.word pc = RULE_SEQUENCE) :
    ∃ i, decode P pc = some i ∧
      Returns (fun fuel => runL E k (rawOps P pc (2 + P.word (pc + 1))) fuel Gen.PegSkel.RULE_SEQUENCE s pos) (Op.step E k n i s pos) := by
  refine ⟨.sequence ((List.range (P.word (pc + 1))).map (fun j => P.word (pc + 2 + j))), by decode_tac hpc hop, ?_⟩
  have hc : (fun fuel => runL E k (rawOps P pc (2 + P.word (pc + 1))) fuel Gen.PegSkel.RULE_SEQUENCE s pos) =
      (fun fuel => runL E k (opsList ((List.range (P.word (pc + 1))).map (fun j => P.word (pc + 2 + j)))) fuel Gen.PegSkel.RULE_SEQUENCE s pos) :=
    funext fun fuel => runL_congr (f := { rFrom := some 2, w := [1] }) (by
      constructor <;> intro j hj <;> simp [FP.W, FP.R, FP.C, FP.B] at hj
      · subst hj; simp [rawOps, opsList, opsWord]; omega
      · simp only [rawOps, opsList, hj, if_true]
        by_cases hlt : j < 2 + P.word (pc + 1)
        · have h1 : j - 2 < P.word (pc + 1) := by omega
          have h2 : pc + 2 + (j - 2) = pc + j := by omega
          simp [hlt, h1, h2]
        · have h1 : ¬ (j - 2 < P.word (pc + 1)) := by omega
          simp [hlt, h1]) E k fuel _ (by decide) s pos
  rw [hc]
  exact rule_sequence_returns E k n _ s pos

theorem decoded_readint (E : Env) (k : OK Nat) (n : Nat) (P : Program) (pc : Nat) (s : St) (pos : Nat)
    (hpc : pc < P.bytecode.size) (hop : P.word pc = RULE_READINT) (hwin : s.textEnd ≤ E.text.length)
    (hw : P.word (pc + 1) % 16 ≤ 8) (hb : ∀ b ∈ E.text, b < 256) :
    ∃ i, decode P pc = some i ∧
      Returns (fun fuel => runL E k (rawOps P pc 3) fuel Gen.PegSkel.RULE_READINT s pos) (Op.step E k n i s pos) := by
  refine ⟨.readint (P.word (pc + 1)) (P.word (pc + 2)), by decode_tac hpc hop, ?_⟩
  have hc : (fun fuel => runL E k (rawOps P pc 3) fuel Gen.PegSkel.RULE_READINT s pos) =
      (fun fuel => runL E k (ops [] [(1, P.word (pc + 1)), (2, P.word (pc + 2))]) fuel Gen.PegSkel.RULE_READINT s pos) :=
    funext fun fuel => runL_congr (f := { w := [1, 2] }) (by agree_tac) E k fuel _ (by decide) s pos
  rw [hc]
  exact rule_readint_returns E k _ _ n s pos hwin hw hb

end Decoded

end JanetModel.Peg.TieSkel
