/-
Structural tie of the simpler opcode cases of `peg_rule`: the statements of the CURRENT peg.c, translated by
tools/gen/pegskel.py into programs of the IR `Peg/Skel.lean` (`Gen/PegSkel.lean`, regenerated on every run), executed by
`Skel.run`, ARE the corresponding cases of the hand-written operational model `Op.step` - for every environment, sub-rule
runner, state and position.  Built separately by checks/C12.py (like Peg/Tie.lean): on a tree where a case no longer does
what the model does, the theorem of that opcode fails and names it.
-/
import JanetModel.Gen.PegSkel
import JanetModel.Peg.Skel

namespace JanetModel.Peg.TieSkel
open JanetModel.Peg JanetModel.Peg.Skel

variable {ρ : Type}

macro "skel_unfold" p:ident : tactic =>
  `(tactic| simp only [run, $p:ident, exec, execStmt, evalCond, evalVE, Loc.init, Op.step])
macro "skel_simp" : tactic =>
  `(tactic| simp [upd, opsRule, opsWord, bind, Except.bind, *])

/-- operands of an instruction with no constant operand -/
def ops (rules : List (Nat × ρ)) (words : List (Nat × Nat)) : Operands ρ := ⟨opsRule rules, opsWord words, fun _ => .nil⟩

theorem rule_if (E : Env) (k : OK ρ) (n : Nat) (a b : ρ) (s : St) (pos : Nat) :
    run E k (ops [(1, a), (2, b)] []) Gen.PegSkel.RULE_IF s pos = Op.step E k n (.if_ a b) s pos := by
  skel_unfold Gen.PegSkel.RULE_IF
  simp only [ops]
  cases hd : down1 s <;> skel_simp
  rename_i s0
  cases hk : k a s0 pos <;> skel_simp
  rename_i x; obtain ⟨res, s1⟩ := x; cases res <;> skel_simp

theorem rule_ifnot (E : Env) (k : OK ρ) (n : Nat) (a b : ρ) (s : St) (pos : Nat) :
    run E k (ops [(1, a), (2, b)] []) Gen.PegSkel.RULE_IFNOT s pos = Op.step E k n (.ifnot a b) s pos := by
  skel_unfold Gen.PegSkel.RULE_IFNOT
  simp only [ops]
  cases hd : down1 s <;> skel_simp
  rename_i s0
  cases hk : k a s0 pos <;> skel_simp
  rename_i x; obtain ⟨res, s1⟩ := x; cases res <;> skel_simp

theorem rule_not (E : Env) (k : OK ρ) (n : Nat) (a : ρ) (s : St) (pos : Nat) :
    run E k (ops [(1, a)] []) Gen.PegSkel.RULE_NOT s pos = Op.step E k n (.not a) s pos := by
  skel_unfold Gen.PegSkel.RULE_NOT
  simp only [ops]
  cases hd : down1 s <;> skel_simp
  rename_i s0
  cases hk : k a s0 pos <;> skel_simp
  rename_i x; obtain ⟨res, s1⟩ := x; cases res <;> skel_simp

theorem rule_drop (E : Env) (k : OK ρ) (n : Nat) (r : ρ) (s : St) (pos : Nat) :
    run E k (ops [(1, r)] []) Gen.PegSkel.RULE_DROP s pos = Op.step E k n (.drop r) s pos := by
  skel_unfold Gen.PegSkel.RULE_DROP
  simp only [ops]
  cases hd : down1 s <;> skel_simp
  rename_i s0
  cases hk : k r s0 pos <;> skel_simp
  rename_i x; obtain ⟨res, s1⟩ := x; cases res <;> skel_simp

theorem rule_only_tags (E : Env) (k : OK ρ) (n : Nat) (r : ρ) (s : St) (pos : Nat) :
    run E k (ops [(1, r)] []) Gen.PegSkel.RULE_ONLY_TAGS s pos = Op.step E k n (.onlytags r) s pos := by
  skel_unfold Gen.PegSkel.RULE_ONLY_TAGS
  simp only [ops]
  cases hd : down1 s <;> skel_simp
  rename_i s0
  cases hk : k r s0 pos <;> skel_simp
  rename_i x; obtain ⟨res, s1⟩ := x; cases res <;> skel_simp

/-- RULE_SUB: the window is narrowed to where the window pattern ended, the sub-pattern runs from the START, and
    `s->text_end` gets back the value it had when the case was entered (an enclosing window stays in force) -/
theorem rule_sub (E : Env) (k : OK ρ) (n : Nat) (w r : ρ) (s : St) (pos : Nat) :
    run E k (ops [(1, w), (2, r)] []) Gen.PegSkel.RULE_SUB s pos = Op.step E k n (.sub w r) s pos := by
  skel_unfold Gen.PegSkel.RULE_SUB
  simp only [ops]
  cases hd : down1 s <;> skel_simp
  rename_i s0
  cases hk : k w s0 pos <;> skel_simp
  rename_i x; obtain ⟨res, s1⟩ := x; cases res <;> skel_simp
  rename_i we
  cases hd2 : down1 { up1 s1 with textEnd := we } <;> skel_simp
  rename_i s3
  cases hk2 : k r s3 pos <;> skel_simp
  rename_i x; obtain ⟨res, s4⟩ := x; cases res <;> skel_simp

/-- RULE_ACCUMULATE: only an UNTAGGED accumulate inside an accumulation runs its body in place; otherwise the mode is
    switched and restored, the accumulated text is cut off the scratch buffer and pushed (and tagged) as one capture -/
theorem rule_accumulate (E : Env) (k : OK ρ) (n : Nat) (r : ρ) (tag : Nat) (s : St) (pos : Nat) :
    run E k (ops [(1, r)] [(2, tag)]) Gen.PegSkel.RULE_ACCUMULATE s pos = Op.step E k n (.accumulate r tag) s pos := by
  skel_unfold Gen.PegSkel.RULE_ACCUMULATE
  simp only [ops]
  by_cases ht : tag = 0 <;> by_cases ha : s.acc = true <;> skel_simp
  all_goals
    cases hd : down1 { s with acc := true } with
    | error e => skel_simp
    | ok s0 =>
      skel_simp
      cases hk : k r s0 pos with
      | error e => skel_simp
      | ok x => obtain ⟨res, s1⟩ := x; cases res <;> skel_simp

theorem rule_capture (E : Env) (k : OK ρ) (n : Nat) (r : ρ) (tag : Nat) (s : St) (pos : Nat) :
    run E k (ops [(1, r)] [(2, tag)]) Gen.PegSkel.RULE_CAPTURE s pos = Op.step E k n (.capture r tag) s pos := by
  skel_unfold Gen.PegSkel.RULE_CAPTURE
  simp only [ops]
  cases hd : down1 s <;> skel_simp
  rename_i s0
  cases hk : k r s0 pos <;> skel_simp
  rename_i x; obtain ⟨res, s1⟩ := x; cases res <;> skel_simp
  rename_i p
  cases hs : E.slice (up1 s1) pos p <;> by_cases hb : E.hasBackref = true <;> by_cases ha : (up1 s1).acc = true <;> skel_simp

theorem rule_position (E : Env) (k : OK ρ) (n : Nat) (tag : Nat) (s : St) (pos : Nat) :
    run E k (ops [] [(1, tag)]) Gen.PegSkel.RULE_POSITION s pos = Op.step E k n (.position tag) s pos := by
  skel_unfold Gen.PegSkel.RULE_POSITION
  simp only [ops]
  skel_simp

theorem rule_constant (E : Env) (k : OK ρ) (n : Nat) (v : Val) (tag : Nat) (s : St) (pos : Nat) :
    run E k ⟨opsRule [], opsWord [(2, tag)], fun _ => v⟩ Gen.PegSkel.RULE_CONSTANT s pos = Op.step E k n (.constant v tag) s pos := by
  skel_unfold Gen.PegSkel.RULE_CONSTANT
  skel_simp

/-- RULE_GROUP: mode switched to NORMAL and restored before every return; the captures above the saved height become one
    array capture -/
theorem rule_group (E : Env) (k : OK ρ) (n : Nat) (r : ρ) (tag : Nat) (s : St) (pos : Nat) :
    run E k (ops [(1, r)] [(2, tag)]) Gen.PegSkel.RULE_GROUP s pos = Op.step E k n (.group r tag) s pos := by
  skel_unfold Gen.PegSkel.RULE_GROUP
  simp only [ops, evalNE]
  cases hd : down1 { s with acc := false } with
  | error e => skel_simp
  | ok s0 =>
    skel_simp
    cases hk : k r s0 pos with
    | error e => skel_simp
    | ok x =>
      obtain ⟨res, s1⟩ := x
      have htake : ∀ (l : List Val) (c : Nat), List.take (l.length - c) (List.drop c l) = List.drop c l :=
        fun l c => List.take_of_length_le (by simp)
      cases res <;> skel_simp

theorem rule_nth (E : Env) (k : OK ρ) (n : Nat) (nth : Nat) (r : ρ) (tag : Nat) (s : St) (pos : Nat) :
    run E k (ops [(2, r)] [(1, nth), (3, tag)]) Gen.PegSkel.RULE_NTH s pos = Op.step E k n (.nth nth r tag) s pos := by
  skel_unfold Gen.PegSkel.RULE_NTH
  simp only [ops, evalNE, evalWE]
  cases hd : down1 { s with acc := false } with
  | error e => skel_simp
  | ok s0 =>
    skel_simp
    cases hk : k r s0 pos with
    | error e => skel_simp
    | ok x =>
      obtain ⟨res, s1⟩ := x
      cases res with
      | none => skel_simp
      | some p =>
        skel_simp
        generalize (if int32Max < nth then int32Max else nth) = m
        by_cases h : m < (up1 s1).caps.length - (capSave s).cap
        · have hlt : (capSave s).cap + m < (up1 s1).caps.length := by omega
          simp [h, List.getElem?_eq_getElem hlt, upd]
        · have hge : (up1 s1).caps.length ≤ (capSave s).cap + m := by omega
          simp [h, List.getElem?_eq_none hge]

theorem rule_error (E : Env) (k : OK ρ) (n : Nat) (r : ρ) (s : St) (pos : Nat) :
    run E k (ops [(1, r)] []) Gen.PegSkel.RULE_ERROR s pos = Op.step E k n (.error r) s pos := by
  skel_unfold Gen.PegSkel.RULE_ERROR
  simp only [ops, evalNE]
  cases hd : down1 { s with acc := false } with
  | error e => skel_simp
  | ok s0 =>
    skel_simp
    cases hk : k r s0 pos with
    | error e => skel_simp
    | ok x =>
      obtain ⟨res, s1⟩ := x
      cases res <;> skel_simp
      split <;> rfl

end JanetModel.Peg.TieSkel
