/- Correctness of the compile model (Peg/Compile.lean): lemmas for `compile_correct` (Props/C12.lean). -/
import JanetModel.Peg.Compile
import JanetModel.Peg.ValidateLemmas

set_option linter.unusedSimpArgs false
namespace JanetModel.Peg
open Spec Compile JanetModel.Gen.Peg

/-! ### instructions that differ only in their sub-rule operands -/

theorem list_len1 {α : Type} {l : List α} (h : l.length = 1) : ∃ a, l = [a] := by
  match l, h with
  | [a], _ => exact ⟨a, rfl⟩

theorem list_len2 {α : Type} {l : List α} (h : l.length = 2) : ∃ a b, l = [a, b] := by
  match l, h with
  | [a, b], _ => exact ⟨a, b, rfl⟩

section congr
variable {α β ρ : Type} [Inhabited α] [Inhabited β]

/-- the same instruction over two kinds of rule references whose sub-rules mean the same, means the same -/
theorem step_rebuild_congr (E : Env) {k1 : DK α} {k2 : DK β} (n : Nat) (i : Instr ρ) (as : List α) (bs : List β)
    (ha : as.length = i.kids.length) (hb : bs.length = i.kids.length)
    (hk : ∀ p ∈ as.zip bs, k1 p.1 = k2 p.2) :
    Den.step E k1 n (i.rebuild as) = Den.step E k2 n (i.rebuild bs) := by
  have one : i.kids.length = 1 → ∃ a b, as = [a] ∧ bs = [b] ∧ k1 a = k2 b := by
    intro h
    obtain ⟨a, rfl⟩ := list_len1 (ha.trans h)
    obtain ⟨b, rfl⟩ := list_len1 (hb.trans h)
    exact ⟨a, b, rfl, rfl, hk (a, b) (by simp)⟩
  have two : i.kids.length = 2 → ∃ a a' b b', as = [a, a'] ∧ bs = [b, b'] ∧ k1 a = k2 b ∧ k1 a' = k2 b' := by
    intro h
    obtain ⟨a, a', rfl⟩ := list_len2 (ha.trans h)
    obtain ⟨b, b', rfl⟩ := list_len2 (hb.trans h)
    exact ⟨a, a', b, b', rfl, rfl, hk (a, b) (by simp), hk (a', b') (by simp)⟩
  cases i with
  | literal b => rfl
  | nchar b => rfl
  | notnchar b => rfl
  | range lo hi => rfl
  | set b => rfl
  | gettag a b => rfl
  | position b => rfl
  | line b => rfl
  | column b => rfl
  | backmatch b => rfl
  | argument a b => rfl
  | readint a b => rfl
  | constant v t => rfl
  | look off r =>
    obtain ⟨a, b, rfl, rfl, e⟩ := one rfl
    funext s pos; simp only [Instr.rebuild, List.getD_cons_zero, Den.step, e]
  | not r =>
    obtain ⟨a, b, rfl, rfl, e⟩ := one rfl
    funext s pos; simp only [Instr.rebuild, List.getD_cons_zero, Den.step, e]
  | error r =>
    obtain ⟨a, b, rfl, rfl, e⟩ := one rfl
    funext s pos; simp only [Instr.rebuild, List.getD_cons_zero, Den.step, e]
  | drop r =>
    obtain ⟨a, b, rfl, rfl, e⟩ := one rfl
    funext s pos; simp only [Instr.rebuild, List.getD_cons_zero, Den.step, e]
  | onlytags r =>
    obtain ⟨a, b, rfl, rfl, e⟩ := one rfl
    funext s pos; simp only [Instr.rebuild, List.getD_cons_zero, Den.step, e]
  | to r =>
    obtain ⟨a, b, rfl, rfl, e⟩ := one rfl
    funext s pos; simp only [Instr.rebuild, List.getD_cons_zero, Den.step, toLoop_congr e]
  | thru r =>
    obtain ⟨a, b, rfl, rfl, e⟩ := one rfl
    funext s pos; simp only [Instr.rebuild, List.getD_cons_zero, Den.step, toLoop_congr e]
  | between lo hi r =>
    obtain ⟨a, b, rfl, rfl, e⟩ := one rfl
    funext s pos; simp only [Instr.rebuild, List.getD_cons_zero, Den.step, betweenLoop_congr e]
  | capture r t =>
    obtain ⟨a, b, rfl, rfl, e⟩ := one rfl
    funext s pos; simp only [Instr.rebuild, List.getD_cons_zero, Den.step, e]
  | accumulate r t =>
    obtain ⟨a, b, rfl, rfl, e⟩ := one rfl
    funext s pos; simp only [Instr.rebuild, List.getD_cons_zero, Den.step, e]
  | group r t =>
    obtain ⟨a, b, rfl, rfl, e⟩ := one rfl
    funext s pos; simp only [Instr.rebuild, List.getD_cons_zero, Den.step, e]
  | unref r t =>
    obtain ⟨a, b, rfl, rfl, e⟩ := one rfl
    funext s pos; simp only [Instr.rebuild, List.getD_cons_zero, Den.step, e]
  | capturenum r b t =>
    obtain ⟨a, b, rfl, rfl, e⟩ := one rfl
    funext s pos; simp only [Instr.rebuild, List.getD_cons_zero, Den.step, e]
  | nth m r t =>
    obtain ⟨a, b, rfl, rfl, e⟩ := one rfl
    funext s pos; simp only [Instr.rebuild, List.getD_cons_zero, Den.step, e]
  | replace r v t =>
    obtain ⟨a, b, rfl, rfl, e⟩ := one rfl
    funext s pos; simp only [Instr.rebuild, List.getD_cons_zero, Den.step, e]
  | matchtime r v t =>
    obtain ⟨a, b, rfl, rfl, e⟩ := one rfl
    funext s pos; simp only [Instr.rebuild, List.getD_cons_zero, Den.step, e]
  | if_ x y =>
    obtain ⟨a, a', b, b', rfl, rfl, e1, e2⟩ := two rfl
    funext s pos; simp only [Instr.rebuild, List.getD_cons_zero, List.getD_cons_succ, Den.step, e1, e2]
  | ifnot x y =>
    obtain ⟨a, a', b, b', rfl, rfl, e1, e2⟩ := two rfl
    funext s pos; simp only [Instr.rebuild, List.getD_cons_zero, List.getD_cons_succ, Den.step, e1, e2]
  | lenprefix x y =>
    obtain ⟨a, a', b, b', rfl, rfl, e1, e2⟩ := two rfl
    funext s pos; simp only [Instr.rebuild, List.getD_cons_zero, List.getD_cons_succ, Den.step, e1, lenLoop_congr e2]
  | sub x y =>
    obtain ⟨a, a', b, b', rfl, rfl, e1, e2⟩ := two rfl
    funext s pos; simp only [Instr.rebuild, List.getD_cons_zero, List.getD_cons_succ, Den.step, e1, e2]
  | til x y =>
    obtain ⟨a, a', b, b', rfl, rfl, e1, e2⟩ := two rfl
    funext s pos; simp only [Instr.rebuild, List.getD_cons_zero, List.getD_cons_succ, Den.step, tilLoop_congr e1, e2]
  | split x y =>
    obtain ⟨a, a', b, b', rfl, rfl, e1, e2⟩ := two rfl
    funext s pos; simp only [Instr.rebuild, List.getD_cons_zero, List.getD_cons_succ, Den.step, splitLoop_congr e1 e2]
  | choice rs =>
    have hl : as.length = bs.length := ha.trans hb.symm
    have he : as.isEmpty = bs.isEmpty := by cases as <;> cases bs <;> simp at hl ⊢
    funext s pos
    simp only [Instr.rebuild, Den.step, he, choiceLoop_congr as bs hl hk]
  | sequence rs =>
    have hl : as.length = bs.length := ha.trans hb.symm
    have he : as.isEmpty = bs.isEmpty := by cases as <;> cases bs <;> simp at hl ⊢
    funext s pos
    simp only [Instr.rebuild, Den.step, he, seqLoop_congr as bs hl hk]

/-- **bisimulation ⇒ same denotation**: if `R` relates rule references of two programs such that related references fetch the
    same instruction up to sub-rule operands which are again related, related references mean the same (every fuel, state,
    position).  `R` may be cyclic: recursive grammars. -/
theorem bisim_run_eq (E : Env) (f1 : α → Option (Instr α)) (f2 : β → Option (Instr β)) (R : α → β → Prop)
    (hR : ∀ a c, R a c → ∃ (i : Instr ρ) (as : List α) (bs : List β), f1 a = some (i.rebuild as) ∧ f2 c = some (i.rebuild bs) ∧
      as.length = i.kids.length ∧ bs.length = i.kids.length ∧ ∀ p ∈ as.zip bs, R p.1 p.2) :
    ∀ fuel a c, R a c → Den.run E f1 fuel a = Den.run E f2 fuel c := by
  intro fuel
  induction fuel with
  | zero => intro a c _; funext s pos; simp [Den.run]
  | succ f ih =>
    intro a c h
    obtain ⟨i, as, bs, h1, h2, ha, hb, hp⟩ := hR a c h
    funext s pos
    simp only [Den.run, h1, h2]
    rw [step_rebuild_congr E (f + 1) i as bs ha hb (fun p hp' => ih p.1 p.2 (hp p hp'))]

end congr
/-! ### header words decode back to the instruction -/

theorem word_mk (code : List Nat) (cs : Array Val) (i : Nat) : (Program.mk code.toArray cs).word i = code.getD i 0 := by
  simp [Program.word, Array.getD_eq_getD_getElem?, List.getD_eq_getElem?_getD]

def hdrAt (code : List Nat) (a : Nat) (ws : List Nat) : Prop :=
  a + ws.length ≤ code.length ∧ ∀ k, k < ws.length → code.getD (a + k) 0 = ws.getD k 0

theorem packBytes_length : ∀ b : List Nat, (packBytes b).length = (b.length + 3) / 4
  | [] => by simp [packBytes]
  | [_] => by simp [packBytes]
  | [_, _] => by simp [packBytes]
  | [_, _, _] => by simp [packBytes]
  | _ :: _ :: _ :: _ :: rest => by
    simp only [packBytes, List.length_cons, packBytes_length rest]; omega

theorem packBytes_byte : ∀ (b : List Nat), (∀ x ∈ b, x < 256) → ∀ j, j < b.length →
    ((packBytes b).getD (j / 4) 0 / 256 ^ (j % 4)) % 256 = b.getD j 0
  | [], _, j, hj => by simp at hj
  | [a], h, j, hj => by
    have ha := h a (by simp)
    have : j = 0 := by simpa using hj
    subst this; simp [packBytes]; omega
  | [a, b], h, j, hj => by
    have ha := h a (by simp); have hb := h b (by simp)
    simp at hj
    rcases j with _ | _ | j
    · simp [packBytes]; omega
    · simp [packBytes]; omega
    · omega
  | [a, b, c], h, j, hj => by
    have ha := h a (by simp); have hb := h b (by simp); have hc := h c (by simp)
    simp at hj
    rcases j with _ | _ | _ | j
    · simp [packBytes]; omega
    · simp [packBytes]; omega
    · simp [packBytes]; omega
    · omega
  | a :: b :: c :: d :: rest, h, j, hj => by
    have ha := h a (by simp); have hb := h b (by simp); have hc := h c (by simp); have hd := h d (by simp)
    rcases j with _ | _ | _ | _ | j
    · simp [packBytes]; omega
    · simp [packBytes]; omega
    · simp [packBytes]; omega
    · simp [packBytes]; omega
    · have ih := packBytes_byte rest (fun x hx => h x (by simp [hx])) j (by simpa using hj)
      have e1 : (j + 1 + 1 + 1 + 1) / 4 = j / 4 + 1 := by omega
      have e2 : (j + 1 + 1 + 1 + 1) % 4 = j % 4 := by omega
      rw [e1, e2]
      simpa [packBytes] using ih

def EncOk {ρ : Type} : Instr ρ → Prop
  | .literal b => ∀ x ∈ b, x < 256
  | .range lo hi => lo < 256 ∧ hi < 256
  | .set bm => bm.length = 8
  | .look o _ => isInt32 o = true
  | _ => True

def constOk {ρ : Type} (consts : List Val) (i : Instr ρ) (c : Nat) : Prop :=
  match i.constOf with
  | some v => consts[c]? = some v
  | none => True

theorem range_map_getD (l : List Nat) (f : Nat → Nat) (h : ∀ j, j < l.length → f j = l.getD j 0) :
    (List.range l.length).map f = l := by
  apply List.ext_getElem (by simp)
  intro j h1 h2
  simp at h1
  simp [h j h1, List.getD_eq_getElem?_getD, List.getElem?_eq_getElem h1]

theorem asInt32_u32 (o : Int) (h : isInt32 o = true) : asInt32 (u32 o) = o := by
  simp [isInt32] at h
  unfold asInt32 u32
  split <;> split <;> omega

theorem decode_encode (code : List Nat) (consts : List Val) (a : Nat) (j : Instr Nat) (c : Nat)
    (hok : EncOk j) (hh : hdrAt code a (encode j c)) (hc : constOk consts j c) :
    decode ⟨code.toArray, consts.toArray⟩ a = some j := by
  obtain ⟨hlen, hw⟩ := hh
  have w := word_mk code consts.toArray
  have hsz : ¬ a ≥ code.length := by
    have : 0 < (encode j c).length := by cases j <;> simp [encode]
    omega
  have g : ∀ k, k < (encode j c).length → code[a + k]?.getD 0 = (encode j c).getD k 0 := by
    intro k hk; have := hw k hk; simpa [List.getD_eq_getElem?_getD] using this
  cases j with
  | literal b =>
    have h0 := g 0 (by simp [encode]); have h1 := g 1 (by simp [encode])
    simp [encode] at h0 h1
    have hb : (List.range b.length).map (Program.litByte ⟨code.toArray, consts.toArray⟩ (a + 2)) = b := by
      apply range_map_getD
      intro j hj
      simp only [Program.litByte, w, List.getD_eq_getElem?_getD]
      have := g (2 + j / 4) (by simp [encode, packBytes_length]; omega)
      rw [show a + (2 + j / 4) = a + 2 + j / 4 by omega] at this
      rw [this]
      simp only [encode, List.cons_append, List.nil_append]
      rw [show 2 + j / 4 = (j / 4) + 1 + 1 by omega, List.getD_cons_succ, List.getD_cons_succ]
      exact packBytes_byte b hok j hj
    simp [decode, w, h0, h1, hsz, Program.litByte, hb, RULE_LITERAL, RULE_NCHAR, RULE_NOTNCHAR, RULE_RANGE, RULE_SET, RULE_LOOK, RULE_CHOICE, RULE_SEQUENCE, RULE_IF, RULE_IFNOT, RULE_NOT, RULE_BETWEEN, RULE_GETTAG, RULE_CAPTURE, RULE_POSITION, RULE_ARGUMENT, RULE_CONSTANT, RULE_ACCUMULATE, RULE_GROUP, RULE_REPLACE, RULE_MATCHTIME, RULE_ERROR, RULE_DROP, RULE_BACKMATCH, RULE_TO, RULE_THRU, RULE_LENPREFIX, RULE_READINT, RULE_LINE, RULE_COLUMN, RULE_UNREF, RULE_CAPTURE_NUM, RULE_SUB, RULE_TIL, RULE_SPLIT, RULE_NTH, RULE_ONLY_TAGS]
  | set bm =>
    have h0 := g 0 (by simp [encode])
    simp [encode] at h0
    have hb : (List.range 8).map (fun j => code[a + 1 + j]?.getD 0) = bm := by
      have hl : bm.length = 8 := hok
      rw [← hl]
      apply range_map_getD
      intro j hj
      have := g (1 + j) (by simp [encode]; omega)
      rw [show a + (1 + j) = a + 1 + j by omega] at this
      rw [this]
      simp only [encode]
      rw [show 1 + j = j + 1 by omega, List.getD_cons_succ]
    simp [decode, w, h0, hsz, hb, RULE_LITERAL, RULE_NCHAR, RULE_NOTNCHAR, RULE_RANGE, RULE_SET, RULE_LOOK, RULE_CHOICE, RULE_SEQUENCE, RULE_IF, RULE_IFNOT, RULE_NOT, RULE_BETWEEN, RULE_GETTAG, RULE_CAPTURE, RULE_POSITION, RULE_ARGUMENT, RULE_CONSTANT, RULE_ACCUMULATE, RULE_GROUP, RULE_REPLACE, RULE_MATCHTIME, RULE_ERROR, RULE_DROP, RULE_BACKMATCH, RULE_TO, RULE_THRU, RULE_LENPREFIX, RULE_READINT, RULE_LINE, RULE_COLUMN, RULE_UNREF, RULE_CAPTURE_NUM, RULE_SUB, RULE_TIL, RULE_SPLIT, RULE_NTH, RULE_ONLY_TAGS]
  | choice rs =>
    have h0 := g 0 (by simp [encode]); have h1 := g 1 (by simp [encode])
    simp [encode] at h0 h1
    have hb : (List.range rs.length).map (fun j => code[a + 2 + j]?.getD 0) = rs := by
      apply range_map_getD
      intro j hj
      have := g (2 + j) (by simp [encode]; omega)
      rw [show a + (2 + j) = a + 2 + j by omega] at this
      rw [this]
      simp only [encode, List.cons_append, List.nil_append]
      rw [show 2 + j = j + 1 + 1 by omega, List.getD_cons_succ, List.getD_cons_succ]
    simp [decode, w, h0, h1, hsz, hb, RULE_LITERAL, RULE_NCHAR, RULE_NOTNCHAR, RULE_RANGE, RULE_SET, RULE_LOOK, RULE_CHOICE, RULE_SEQUENCE, RULE_IF, RULE_IFNOT, RULE_NOT, RULE_BETWEEN, RULE_GETTAG, RULE_CAPTURE, RULE_POSITION, RULE_ARGUMENT, RULE_CONSTANT, RULE_ACCUMULATE, RULE_GROUP, RULE_REPLACE, RULE_MATCHTIME, RULE_ERROR, RULE_DROP, RULE_BACKMATCH, RULE_TO, RULE_THRU, RULE_LENPREFIX, RULE_READINT, RULE_LINE, RULE_COLUMN, RULE_UNREF, RULE_CAPTURE_NUM, RULE_SUB, RULE_TIL, RULE_SPLIT, RULE_NTH, RULE_ONLY_TAGS]
  | sequence rs =>
    have h0 := g 0 (by simp [encode]); have h1 := g 1 (by simp [encode])
    simp [encode] at h0 h1
    have hb : (List.range rs.length).map (fun j => code[a + 2 + j]?.getD 0) = rs := by
      apply range_map_getD
      intro j hj
      have := g (2 + j) (by simp [encode]; omega)
      rw [show a + (2 + j) = a + 2 + j by omega] at this
      rw [this]
      simp only [encode, List.cons_append, List.nil_append]
      rw [show 2 + j = j + 1 + 1 by omega, List.getD_cons_succ, List.getD_cons_succ]
    simp [decode, w, h0, h1, hsz, hb, RULE_LITERAL, RULE_NCHAR, RULE_NOTNCHAR, RULE_RANGE, RULE_SET, RULE_LOOK, RULE_CHOICE, RULE_SEQUENCE, RULE_IF, RULE_IFNOT, RULE_NOT, RULE_BETWEEN, RULE_GETTAG, RULE_CAPTURE, RULE_POSITION, RULE_ARGUMENT, RULE_CONSTANT, RULE_ACCUMULATE, RULE_GROUP, RULE_REPLACE, RULE_MATCHTIME, RULE_ERROR, RULE_DROP, RULE_BACKMATCH, RULE_TO, RULE_THRU, RULE_LENPREFIX, RULE_READINT, RULE_LINE, RULE_COLUMN, RULE_UNREF, RULE_CAPTURE_NUM, RULE_SUB, RULE_TIL, RULE_SPLIT, RULE_NTH, RULE_ONLY_TAGS]
  | range lo hi =>
    have h0 := g 0 (by simp [encode]); have h1 := g 1 (by simp [encode])
    simp [encode] at h0 h1
    obtain ⟨hlo, hhi⟩ : lo < 256 ∧ hi < 256 := hok
    have e1 : (lo + 65536 * hi) % 256 = lo := by omega
    have e2 : (lo + 65536 * hi) / 65536 % 256 = hi := by omega
    simp [decode, w, h0, h1, hsz, e1, e2, RULE_LITERAL, RULE_NCHAR, RULE_NOTNCHAR, RULE_RANGE, RULE_SET, RULE_LOOK, RULE_CHOICE, RULE_SEQUENCE, RULE_IF, RULE_IFNOT, RULE_NOT, RULE_BETWEEN, RULE_GETTAG, RULE_CAPTURE, RULE_POSITION, RULE_ARGUMENT, RULE_CONSTANT, RULE_ACCUMULATE, RULE_GROUP, RULE_REPLACE, RULE_MATCHTIME, RULE_ERROR, RULE_DROP, RULE_BACKMATCH, RULE_TO, RULE_THRU, RULE_LENPREFIX, RULE_READINT, RULE_LINE, RULE_COLUMN, RULE_UNREF, RULE_CAPTURE_NUM, RULE_SUB, RULE_TIL, RULE_SPLIT, RULE_NTH, RULE_ONLY_TAGS]
  | look o r =>
    have h0 := g 0 (by simp [encode]); have h1 := g 1 (by simp [encode]); have h2 := g 2 (by simp [encode])
    simp [encode] at h0 h1 h2
    have e := asInt32_u32 o hok
    simp [decode, w, h0, h1, h2, hsz, e, RULE_LITERAL, RULE_NCHAR, RULE_NOTNCHAR, RULE_RANGE, RULE_SET, RULE_LOOK, RULE_CHOICE, RULE_SEQUENCE, RULE_IF, RULE_IFNOT, RULE_NOT, RULE_BETWEEN, RULE_GETTAG, RULE_CAPTURE, RULE_POSITION, RULE_ARGUMENT, RULE_CONSTANT, RULE_ACCUMULATE, RULE_GROUP, RULE_REPLACE, RULE_MATCHTIME, RULE_ERROR, RULE_DROP, RULE_BACKMATCH, RULE_TO, RULE_THRU, RULE_LENPREFIX, RULE_READINT, RULE_LINE, RULE_COLUMN, RULE_UNREF, RULE_CAPTURE_NUM, RULE_SUB, RULE_TIL, RULE_SPLIT, RULE_NTH, RULE_ONLY_TAGS]
  | constant v t =>
    have h0 := g 0 (by simp [encode]); have h1 := g 1 (by simp [encode]); have h2 := g 2 (by simp [encode])
    simp [encode] at h0 h1 h2
    have hc' : consts[c]? = some v := hc
    simp [decode, w, h0, h1, h2, hsz, hc', RULE_LITERAL, RULE_NCHAR, RULE_NOTNCHAR, RULE_RANGE, RULE_SET, RULE_LOOK, RULE_CHOICE, RULE_SEQUENCE, RULE_IF, RULE_IFNOT, RULE_NOT, RULE_BETWEEN, RULE_GETTAG, RULE_CAPTURE, RULE_POSITION, RULE_ARGUMENT, RULE_CONSTANT, RULE_ACCUMULATE, RULE_GROUP, RULE_REPLACE, RULE_MATCHTIME, RULE_ERROR, RULE_DROP, RULE_BACKMATCH, RULE_TO, RULE_THRU, RULE_LENPREFIX, RULE_READINT, RULE_LINE, RULE_COLUMN, RULE_UNREF, RULE_CAPTURE_NUM, RULE_SUB, RULE_TIL, RULE_SPLIT, RULE_NTH, RULE_ONLY_TAGS]
  | replace r v t =>
    have h0 := g 0 (by simp [encode]); have h1 := g 1 (by simp [encode]); have h2 := g 2 (by simp [encode]); have h3 := g 3 (by simp [encode])
    simp [encode] at h0 h1 h2 h3
    have hc' : consts[c]? = some v := hc
    simp [decode, w, h0, h1, h2, h3, hsz, hc', RULE_LITERAL, RULE_NCHAR, RULE_NOTNCHAR, RULE_RANGE, RULE_SET, RULE_LOOK, RULE_CHOICE, RULE_SEQUENCE, RULE_IF, RULE_IFNOT, RULE_NOT, RULE_BETWEEN, RULE_GETTAG, RULE_CAPTURE, RULE_POSITION, RULE_ARGUMENT, RULE_CONSTANT, RULE_ACCUMULATE, RULE_GROUP, RULE_REPLACE, RULE_MATCHTIME, RULE_ERROR, RULE_DROP, RULE_BACKMATCH, RULE_TO, RULE_THRU, RULE_LENPREFIX, RULE_READINT, RULE_LINE, RULE_COLUMN, RULE_UNREF, RULE_CAPTURE_NUM, RULE_SUB, RULE_TIL, RULE_SPLIT, RULE_NTH, RULE_ONLY_TAGS]
  | matchtime r v t =>
    have h0 := g 0 (by simp [encode]); have h1 := g 1 (by simp [encode]); have h2 := g 2 (by simp [encode]); have h3 := g 3 (by simp [encode])
    simp [encode] at h0 h1 h2 h3
    have hc' : consts[c]? = some v := hc
    simp [decode, w, h0, h1, h2, h3, hsz, hc', RULE_LITERAL, RULE_NCHAR, RULE_NOTNCHAR, RULE_RANGE, RULE_SET, RULE_LOOK, RULE_CHOICE, RULE_SEQUENCE, RULE_IF, RULE_IFNOT, RULE_NOT, RULE_BETWEEN, RULE_GETTAG, RULE_CAPTURE, RULE_POSITION, RULE_ARGUMENT, RULE_CONSTANT, RULE_ACCUMULATE, RULE_GROUP, RULE_REPLACE, RULE_MATCHTIME, RULE_ERROR, RULE_DROP, RULE_BACKMATCH, RULE_TO, RULE_THRU, RULE_LENPREFIX, RULE_READINT, RULE_LINE, RULE_COLUMN, RULE_UNREF, RULE_CAPTURE_NUM, RULE_SUB, RULE_TIL, RULE_SPLIT, RULE_NTH, RULE_ONLY_TAGS]
  | between lo hi r =>
    have h0 := g 0 (by simp [encode]); have h1 := g 1 (by simp [encode]); have h2 := g 2 (by simp [encode]); have h3 := g 3 (by simp [encode])
    simp [encode] at h0 h1 h2 h3
    simp [decode, w, h0, h1, h2, h3, hsz, RULE_LITERAL, RULE_NCHAR, RULE_NOTNCHAR, RULE_RANGE, RULE_SET, RULE_LOOK, RULE_CHOICE, RULE_SEQUENCE, RULE_IF, RULE_IFNOT, RULE_NOT, RULE_BETWEEN, RULE_GETTAG, RULE_CAPTURE, RULE_POSITION, RULE_ARGUMENT, RULE_CONSTANT, RULE_ACCUMULATE, RULE_GROUP, RULE_REPLACE, RULE_MATCHTIME, RULE_ERROR, RULE_DROP, RULE_BACKMATCH, RULE_TO, RULE_THRU, RULE_LENPREFIX, RULE_READINT, RULE_LINE, RULE_COLUMN, RULE_UNREF, RULE_CAPTURE_NUM, RULE_SUB, RULE_TIL, RULE_SPLIT, RULE_NTH, RULE_ONLY_TAGS]
  | capturenum r b t =>
    have h0 := g 0 (by simp [encode]); have h1 := g 1 (by simp [encode]); have h2 := g 2 (by simp [encode]); have h3 := g 3 (by simp [encode])
    simp [encode] at h0 h1 h2 h3
    simp [decode, w, h0, h1, h2, h3, hsz, RULE_LITERAL, RULE_NCHAR, RULE_NOTNCHAR, RULE_RANGE, RULE_SET, RULE_LOOK, RULE_CHOICE, RULE_SEQUENCE, RULE_IF, RULE_IFNOT, RULE_NOT, RULE_BETWEEN, RULE_GETTAG, RULE_CAPTURE, RULE_POSITION, RULE_ARGUMENT, RULE_CONSTANT, RULE_ACCUMULATE, RULE_GROUP, RULE_REPLACE, RULE_MATCHTIME, RULE_ERROR, RULE_DROP, RULE_BACKMATCH, RULE_TO, RULE_THRU, RULE_LENPREFIX, RULE_READINT, RULE_LINE, RULE_COLUMN, RULE_UNREF, RULE_CAPTURE_NUM, RULE_SUB, RULE_TIL, RULE_SPLIT, RULE_NTH, RULE_ONLY_TAGS]
  | nth n r t =>
    have h0 := g 0 (by simp [encode]); have h1 := g 1 (by simp [encode]); have h2 := g 2 (by simp [encode]); have h3 := g 3 (by simp [encode])
    simp [encode] at h0 h1 h2 h3
    simp [decode, w, h0, h1, h2, h3, hsz, RULE_LITERAL, RULE_NCHAR, RULE_NOTNCHAR, RULE_RANGE, RULE_SET, RULE_LOOK, RULE_CHOICE, RULE_SEQUENCE, RULE_IF, RULE_IFNOT, RULE_NOT, RULE_BETWEEN, RULE_GETTAG, RULE_CAPTURE, RULE_POSITION, RULE_ARGUMENT, RULE_CONSTANT, RULE_ACCUMULATE, RULE_GROUP, RULE_REPLACE, RULE_MATCHTIME, RULE_ERROR, RULE_DROP, RULE_BACKMATCH, RULE_TO, RULE_THRU, RULE_LENPREFIX, RULE_READINT, RULE_LINE, RULE_COLUMN, RULE_UNREF, RULE_CAPTURE_NUM, RULE_SUB, RULE_TIL, RULE_SPLIT, RULE_NTH, RULE_ONLY_TAGS]
  | nchar n =>
    have h0 := g 0 (by simp [encode]); have h1 := g 1 (by simp [encode])
    simp [encode] at h0 h1
    simp [decode, w, h0, h1, hsz, RULE_LITERAL, RULE_NCHAR, RULE_NOTNCHAR, RULE_RANGE, RULE_SET, RULE_LOOK, RULE_CHOICE, RULE_SEQUENCE, RULE_IF, RULE_IFNOT, RULE_NOT, RULE_BETWEEN, RULE_GETTAG, RULE_CAPTURE, RULE_POSITION, RULE_ARGUMENT, RULE_CONSTANT, RULE_ACCUMULATE, RULE_GROUP, RULE_REPLACE, RULE_MATCHTIME, RULE_ERROR, RULE_DROP, RULE_BACKMATCH, RULE_TO, RULE_THRU, RULE_LENPREFIX, RULE_READINT, RULE_LINE, RULE_COLUMN, RULE_UNREF, RULE_CAPTURE_NUM, RULE_SUB, RULE_TIL, RULE_SPLIT, RULE_NTH, RULE_ONLY_TAGS]
  | notnchar n =>
    have h0 := g 0 (by simp [encode]); have h1 := g 1 (by simp [encode])
    simp [encode] at h0 h1
    simp [decode, w, h0, h1, hsz, RULE_LITERAL, RULE_NCHAR, RULE_NOTNCHAR, RULE_RANGE, RULE_SET, RULE_LOOK, RULE_CHOICE, RULE_SEQUENCE, RULE_IF, RULE_IFNOT, RULE_NOT, RULE_BETWEEN, RULE_GETTAG, RULE_CAPTURE, RULE_POSITION, RULE_ARGUMENT, RULE_CONSTANT, RULE_ACCUMULATE, RULE_GROUP, RULE_REPLACE, RULE_MATCHTIME, RULE_ERROR, RULE_DROP, RULE_BACKMATCH, RULE_TO, RULE_THRU, RULE_LENPREFIX, RULE_READINT, RULE_LINE, RULE_COLUMN, RULE_UNREF, RULE_CAPTURE_NUM, RULE_SUB, RULE_TIL, RULE_SPLIT, RULE_NTH, RULE_ONLY_TAGS]
  | not r =>
    have h0 := g 0 (by simp [encode]); have h1 := g 1 (by simp [encode])
    simp [encode] at h0 h1
    simp [decode, w, h0, h1, hsz, RULE_LITERAL, RULE_NCHAR, RULE_NOTNCHAR, RULE_RANGE, RULE_SET, RULE_LOOK, RULE_CHOICE, RULE_SEQUENCE, RULE_IF, RULE_IFNOT, RULE_NOT, RULE_BETWEEN, RULE_GETTAG, RULE_CAPTURE, RULE_POSITION, RULE_ARGUMENT, RULE_CONSTANT, RULE_ACCUMULATE, RULE_GROUP, RULE_REPLACE, RULE_MATCHTIME, RULE_ERROR, RULE_DROP, RULE_BACKMATCH, RULE_TO, RULE_THRU, RULE_LENPREFIX, RULE_READINT, RULE_LINE, RULE_COLUMN, RULE_UNREF, RULE_CAPTURE_NUM, RULE_SUB, RULE_TIL, RULE_SPLIT, RULE_NTH, RULE_ONLY_TAGS]
  | position t =>
    have h0 := g 0 (by simp [encode]); have h1 := g 1 (by simp [encode])
    simp [encode] at h0 h1
    simp [decode, w, h0, h1, hsz, RULE_LITERAL, RULE_NCHAR, RULE_NOTNCHAR, RULE_RANGE, RULE_SET, RULE_LOOK, RULE_CHOICE, RULE_SEQUENCE, RULE_IF, RULE_IFNOT, RULE_NOT, RULE_BETWEEN, RULE_GETTAG, RULE_CAPTURE, RULE_POSITION, RULE_ARGUMENT, RULE_CONSTANT, RULE_ACCUMULATE, RULE_GROUP, RULE_REPLACE, RULE_MATCHTIME, RULE_ERROR, RULE_DROP, RULE_BACKMATCH, RULE_TO, RULE_THRU, RULE_LENPREFIX, RULE_READINT, RULE_LINE, RULE_COLUMN, RULE_UNREF, RULE_CAPTURE_NUM, RULE_SUB, RULE_TIL, RULE_SPLIT, RULE_NTH, RULE_ONLY_TAGS]
  | error r =>
    have h0 := g 0 (by simp [encode]); have h1 := g 1 (by simp [encode])
    simp [encode] at h0 h1
    simp [decode, w, h0, h1, hsz, RULE_LITERAL, RULE_NCHAR, RULE_NOTNCHAR, RULE_RANGE, RULE_SET, RULE_LOOK, RULE_CHOICE, RULE_SEQUENCE, RULE_IF, RULE_IFNOT, RULE_NOT, RULE_BETWEEN, RULE_GETTAG, RULE_CAPTURE, RULE_POSITION, RULE_ARGUMENT, RULE_CONSTANT, RULE_ACCUMULATE, RULE_GROUP, RULE_REPLACE, RULE_MATCHTIME, RULE_ERROR, RULE_DROP, RULE_BACKMATCH, RULE_TO, RULE_THRU, RULE_LENPREFIX, RULE_READINT, RULE_LINE, RULE_COLUMN, RULE_UNREF, RULE_CAPTURE_NUM, RULE_SUB, RULE_TIL, RULE_SPLIT, RULE_NTH, RULE_ONLY_TAGS]
  | drop r =>
    have h0 := g 0 (by simp [encode]); have h1 := g 1 (by simp [encode])
    simp [encode] at h0 h1
    simp [decode, w, h0, h1, hsz, RULE_LITERAL, RULE_NCHAR, RULE_NOTNCHAR, RULE_RANGE, RULE_SET, RULE_LOOK, RULE_CHOICE, RULE_SEQUENCE, RULE_IF, RULE_IFNOT, RULE_NOT, RULE_BETWEEN, RULE_GETTAG, RULE_CAPTURE, RULE_POSITION, RULE_ARGUMENT, RULE_CONSTANT, RULE_ACCUMULATE, RULE_GROUP, RULE_REPLACE, RULE_MATCHTIME, RULE_ERROR, RULE_DROP, RULE_BACKMATCH, RULE_TO, RULE_THRU, RULE_LENPREFIX, RULE_READINT, RULE_LINE, RULE_COLUMN, RULE_UNREF, RULE_CAPTURE_NUM, RULE_SUB, RULE_TIL, RULE_SPLIT, RULE_NTH, RULE_ONLY_TAGS]
  | backmatch t =>
    have h0 := g 0 (by simp [encode]); have h1 := g 1 (by simp [encode])
    simp [encode] at h0 h1
    simp [decode, w, h0, h1, hsz, RULE_LITERAL, RULE_NCHAR, RULE_NOTNCHAR, RULE_RANGE, RULE_SET, RULE_LOOK, RULE_CHOICE, RULE_SEQUENCE, RULE_IF, RULE_IFNOT, RULE_NOT, RULE_BETWEEN, RULE_GETTAG, RULE_CAPTURE, RULE_POSITION, RULE_ARGUMENT, RULE_CONSTANT, RULE_ACCUMULATE, RULE_GROUP, RULE_REPLACE, RULE_MATCHTIME, RULE_ERROR, RULE_DROP, RULE_BACKMATCH, RULE_TO, RULE_THRU, RULE_LENPREFIX, RULE_READINT, RULE_LINE, RULE_COLUMN, RULE_UNREF, RULE_CAPTURE_NUM, RULE_SUB, RULE_TIL, RULE_SPLIT, RULE_NTH, RULE_ONLY_TAGS]
  | to r =>
    have h0 := g 0 (by simp [encode]); have h1 := g 1 (by simp [encode])
    simp [encode] at h0 h1
    simp [decode, w, h0, h1, hsz, RULE_LITERAL, RULE_NCHAR, RULE_NOTNCHAR, RULE_RANGE, RULE_SET, RULE_LOOK, RULE_CHOICE, RULE_SEQUENCE, RULE_IF, RULE_IFNOT, RULE_NOT, RULE_BETWEEN, RULE_GETTAG, RULE_CAPTURE, RULE_POSITION, RULE_ARGUMENT, RULE_CONSTANT, RULE_ACCUMULATE, RULE_GROUP, RULE_REPLACE, RULE_MATCHTIME, RULE_ERROR, RULE_DROP, RULE_BACKMATCH, RULE_TO, RULE_THRU, RULE_LENPREFIX, RULE_READINT, RULE_LINE, RULE_COLUMN, RULE_UNREF, RULE_CAPTURE_NUM, RULE_SUB, RULE_TIL, RULE_SPLIT, RULE_NTH, RULE_ONLY_TAGS]
  | thru r =>
    have h0 := g 0 (by simp [encode]); have h1 := g 1 (by simp [encode])
    simp [encode] at h0 h1
    simp [decode, w, h0, h1, hsz, RULE_LITERAL, RULE_NCHAR, RULE_NOTNCHAR, RULE_RANGE, RULE_SET, RULE_LOOK, RULE_CHOICE, RULE_SEQUENCE, RULE_IF, RULE_IFNOT, RULE_NOT, RULE_BETWEEN, RULE_GETTAG, RULE_CAPTURE, RULE_POSITION, RULE_ARGUMENT, RULE_CONSTANT, RULE_ACCUMULATE, RULE_GROUP, RULE_REPLACE, RULE_MATCHTIME, RULE_ERROR, RULE_DROP, RULE_BACKMATCH, RULE_TO, RULE_THRU, RULE_LENPREFIX, RULE_READINT, RULE_LINE, RULE_COLUMN, RULE_UNREF, RULE_CAPTURE_NUM, RULE_SUB, RULE_TIL, RULE_SPLIT, RULE_NTH, RULE_ONLY_TAGS]
  | line t =>
    have h0 := g 0 (by simp [encode]); have h1 := g 1 (by simp [encode])
    simp [encode] at h0 h1
    simp [decode, w, h0, h1, hsz, RULE_LITERAL, RULE_NCHAR, RULE_NOTNCHAR, RULE_RANGE, RULE_SET, RULE_LOOK, RULE_CHOICE, RULE_SEQUENCE, RULE_IF, RULE_IFNOT, RULE_NOT, RULE_BETWEEN, RULE_GETTAG, RULE_CAPTURE, RULE_POSITION, RULE_ARGUMENT, RULE_CONSTANT, RULE_ACCUMULATE, RULE_GROUP, RULE_REPLACE, RULE_MATCHTIME, RULE_ERROR, RULE_DROP, RULE_BACKMATCH, RULE_TO, RULE_THRU, RULE_LENPREFIX, RULE_READINT, RULE_LINE, RULE_COLUMN, RULE_UNREF, RULE_CAPTURE_NUM, RULE_SUB, RULE_TIL, RULE_SPLIT, RULE_NTH, RULE_ONLY_TAGS]
  | column t =>
    have h0 := g 0 (by simp [encode]); have h1 := g 1 (by simp [encode])
    simp [encode] at h0 h1
    simp [decode, w, h0, h1, hsz, RULE_LITERAL, RULE_NCHAR, RULE_NOTNCHAR, RULE_RANGE, RULE_SET, RULE_LOOK, RULE_CHOICE, RULE_SEQUENCE, RULE_IF, RULE_IFNOT, RULE_NOT, RULE_BETWEEN, RULE_GETTAG, RULE_CAPTURE, RULE_POSITION, RULE_ARGUMENT, RULE_CONSTANT, RULE_ACCUMULATE, RULE_GROUP, RULE_REPLACE, RULE_MATCHTIME, RULE_ERROR, RULE_DROP, RULE_BACKMATCH, RULE_TO, RULE_THRU, RULE_LENPREFIX, RULE_READINT, RULE_LINE, RULE_COLUMN, RULE_UNREF, RULE_CAPTURE_NUM, RULE_SUB, RULE_TIL, RULE_SPLIT, RULE_NTH, RULE_ONLY_TAGS]
  | onlytags r =>
    have h0 := g 0 (by simp [encode]); have h1 := g 1 (by simp [encode])
    simp [encode] at h0 h1
    simp [decode, w, h0, h1, hsz, RULE_LITERAL, RULE_NCHAR, RULE_NOTNCHAR, RULE_RANGE, RULE_SET, RULE_LOOK, RULE_CHOICE, RULE_SEQUENCE, RULE_IF, RULE_IFNOT, RULE_NOT, RULE_BETWEEN, RULE_GETTAG, RULE_CAPTURE, RULE_POSITION, RULE_ARGUMENT, RULE_CONSTANT, RULE_ACCUMULATE, RULE_GROUP, RULE_REPLACE, RULE_MATCHTIME, RULE_ERROR, RULE_DROP, RULE_BACKMATCH, RULE_TO, RULE_THRU, RULE_LENPREFIX, RULE_READINT, RULE_LINE, RULE_COLUMN, RULE_UNREF, RULE_CAPTURE_NUM, RULE_SUB, RULE_TIL, RULE_SPLIT, RULE_NTH, RULE_ONLY_TAGS]
  | if_ x y =>
    have h0 := g 0 (by simp [encode]); have h1 := g 1 (by simp [encode]); have h2 := g 2 (by simp [encode])
    simp [encode] at h0 h1 h2
    simp [decode, w, h0, h1, h2, hsz, RULE_LITERAL, RULE_NCHAR, RULE_NOTNCHAR, RULE_RANGE, RULE_SET, RULE_LOOK, RULE_CHOICE, RULE_SEQUENCE, RULE_IF, RULE_IFNOT, RULE_NOT, RULE_BETWEEN, RULE_GETTAG, RULE_CAPTURE, RULE_POSITION, RULE_ARGUMENT, RULE_CONSTANT, RULE_ACCUMULATE, RULE_GROUP, RULE_REPLACE, RULE_MATCHTIME, RULE_ERROR, RULE_DROP, RULE_BACKMATCH, RULE_TO, RULE_THRU, RULE_LENPREFIX, RULE_READINT, RULE_LINE, RULE_COLUMN, RULE_UNREF, RULE_CAPTURE_NUM, RULE_SUB, RULE_TIL, RULE_SPLIT, RULE_NTH, RULE_ONLY_TAGS]
  | ifnot x y =>
    have h0 := g 0 (by simp [encode]); have h1 := g 1 (by simp [encode]); have h2 := g 2 (by simp [encode])
    simp [encode] at h0 h1 h2
    simp [decode, w, h0, h1, h2, hsz, RULE_LITERAL, RULE_NCHAR, RULE_NOTNCHAR, RULE_RANGE, RULE_SET, RULE_LOOK, RULE_CHOICE, RULE_SEQUENCE, RULE_IF, RULE_IFNOT, RULE_NOT, RULE_BETWEEN, RULE_GETTAG, RULE_CAPTURE, RULE_POSITION, RULE_ARGUMENT, RULE_CONSTANT, RULE_ACCUMULATE, RULE_GROUP, RULE_REPLACE, RULE_MATCHTIME, RULE_ERROR, RULE_DROP, RULE_BACKMATCH, RULE_TO, RULE_THRU, RULE_LENPREFIX, RULE_READINT, RULE_LINE, RULE_COLUMN, RULE_UNREF, RULE_CAPTURE_NUM, RULE_SUB, RULE_TIL, RULE_SPLIT, RULE_NTH, RULE_ONLY_TAGS]
  | gettag x y =>
    have h0 := g 0 (by simp [encode]); have h1 := g 1 (by simp [encode]); have h2 := g 2 (by simp [encode])
    simp [encode] at h0 h1 h2
    simp [decode, w, h0, h1, h2, hsz, RULE_LITERAL, RULE_NCHAR, RULE_NOTNCHAR, RULE_RANGE, RULE_SET, RULE_LOOK, RULE_CHOICE, RULE_SEQUENCE, RULE_IF, RULE_IFNOT, RULE_NOT, RULE_BETWEEN, RULE_GETTAG, RULE_CAPTURE, RULE_POSITION, RULE_ARGUMENT, RULE_CONSTANT, RULE_ACCUMULATE, RULE_GROUP, RULE_REPLACE, RULE_MATCHTIME, RULE_ERROR, RULE_DROP, RULE_BACKMATCH, RULE_TO, RULE_THRU, RULE_LENPREFIX, RULE_READINT, RULE_LINE, RULE_COLUMN, RULE_UNREF, RULE_CAPTURE_NUM, RULE_SUB, RULE_TIL, RULE_SPLIT, RULE_NTH, RULE_ONLY_TAGS]
  | capture x y =>
    have h0 := g 0 (by simp [encode]); have h1 := g 1 (by simp [encode]); have h2 := g 2 (by simp [encode])
    simp [encode] at h0 h1 h2
    simp [decode, w, h0, h1, h2, hsz, RULE_LITERAL, RULE_NCHAR, RULE_NOTNCHAR, RULE_RANGE, RULE_SET, RULE_LOOK, RULE_CHOICE, RULE_SEQUENCE, RULE_IF, RULE_IFNOT, RULE_NOT, RULE_BETWEEN, RULE_GETTAG, RULE_CAPTURE, RULE_POSITION, RULE_ARGUMENT, RULE_CONSTANT, RULE_ACCUMULATE, RULE_GROUP, RULE_REPLACE, RULE_MATCHTIME, RULE_ERROR, RULE_DROP, RULE_BACKMATCH, RULE_TO, RULE_THRU, RULE_LENPREFIX, RULE_READINT, RULE_LINE, RULE_COLUMN, RULE_UNREF, RULE_CAPTURE_NUM, RULE_SUB, RULE_TIL, RULE_SPLIT, RULE_NTH, RULE_ONLY_TAGS]
  | argument x y =>
    have h0 := g 0 (by simp [encode]); have h1 := g 1 (by simp [encode]); have h2 := g 2 (by simp [encode])
    simp [encode] at h0 h1 h2
    simp [decode, w, h0, h1, h2, hsz, RULE_LITERAL, RULE_NCHAR, RULE_NOTNCHAR, RULE_RANGE, RULE_SET, RULE_LOOK, RULE_CHOICE, RULE_SEQUENCE, RULE_IF, RULE_IFNOT, RULE_NOT, RULE_BETWEEN, RULE_GETTAG, RULE_CAPTURE, RULE_POSITION, RULE_ARGUMENT, RULE_CONSTANT, RULE_ACCUMULATE, RULE_GROUP, RULE_REPLACE, RULE_MATCHTIME, RULE_ERROR, RULE_DROP, RULE_BACKMATCH, RULE_TO, RULE_THRU, RULE_LENPREFIX, RULE_READINT, RULE_LINE, RULE_COLUMN, RULE_UNREF, RULE_CAPTURE_NUM, RULE_SUB, RULE_TIL, RULE_SPLIT, RULE_NTH, RULE_ONLY_TAGS]
  | accumulate x y =>
    have h0 := g 0 (by simp [encode]); have h1 := g 1 (by simp [encode]); have h2 := g 2 (by simp [encode])
    simp [encode] at h0 h1 h2
    simp [decode, w, h0, h1, h2, hsz, RULE_LITERAL, RULE_NCHAR, RULE_NOTNCHAR, RULE_RANGE, RULE_SET, RULE_LOOK, RULE_CHOICE, RULE_SEQUENCE, RULE_IF, RULE_IFNOT, RULE_NOT, RULE_BETWEEN, RULE_GETTAG, RULE_CAPTURE, RULE_POSITION, RULE_ARGUMENT, RULE_CONSTANT, RULE_ACCUMULATE, RULE_GROUP, RULE_REPLACE, RULE_MATCHTIME, RULE_ERROR, RULE_DROP, RULE_BACKMATCH, RULE_TO, RULE_THRU, RULE_LENPREFIX, RULE_READINT, RULE_LINE, RULE_COLUMN, RULE_UNREF, RULE_CAPTURE_NUM, RULE_SUB, RULE_TIL, RULE_SPLIT, RULE_NTH, RULE_ONLY_TAGS]
  | group x y =>
    have h0 := g 0 (by simp [encode]); have h1 := g 1 (by simp [encode]); have h2 := g 2 (by simp [encode])
    simp [encode] at h0 h1 h2
    simp [decode, w, h0, h1, h2, hsz, RULE_LITERAL, RULE_NCHAR, RULE_NOTNCHAR, RULE_RANGE, RULE_SET, RULE_LOOK, RULE_CHOICE, RULE_SEQUENCE, RULE_IF, RULE_IFNOT, RULE_NOT, RULE_BETWEEN, RULE_GETTAG, RULE_CAPTURE, RULE_POSITION, RULE_ARGUMENT, RULE_CONSTANT, RULE_ACCUMULATE, RULE_GROUP, RULE_REPLACE, RULE_MATCHTIME, RULE_ERROR, RULE_DROP, RULE_BACKMATCH, RULE_TO, RULE_THRU, RULE_LENPREFIX, RULE_READINT, RULE_LINE, RULE_COLUMN, RULE_UNREF, RULE_CAPTURE_NUM, RULE_SUB, RULE_TIL, RULE_SPLIT, RULE_NTH, RULE_ONLY_TAGS]
  | lenprefix x y =>
    have h0 := g 0 (by simp [encode]); have h1 := g 1 (by simp [encode]); have h2 := g 2 (by simp [encode])
    simp [encode] at h0 h1 h2
    simp [decode, w, h0, h1, h2, hsz, RULE_LITERAL, RULE_NCHAR, RULE_NOTNCHAR, RULE_RANGE, RULE_SET, RULE_LOOK, RULE_CHOICE, RULE_SEQUENCE, RULE_IF, RULE_IFNOT, RULE_NOT, RULE_BETWEEN, RULE_GETTAG, RULE_CAPTURE, RULE_POSITION, RULE_ARGUMENT, RULE_CONSTANT, RULE_ACCUMULATE, RULE_GROUP, RULE_REPLACE, RULE_MATCHTIME, RULE_ERROR, RULE_DROP, RULE_BACKMATCH, RULE_TO, RULE_THRU, RULE_LENPREFIX, RULE_READINT, RULE_LINE, RULE_COLUMN, RULE_UNREF, RULE_CAPTURE_NUM, RULE_SUB, RULE_TIL, RULE_SPLIT, RULE_NTH, RULE_ONLY_TAGS]
  | readint x y =>
    have h0 := g 0 (by simp [encode]); have h1 := g 1 (by simp [encode]); have h2 := g 2 (by simp [encode])
    simp [encode] at h0 h1 h2
    simp [decode, w, h0, h1, h2, hsz, RULE_LITERAL, RULE_NCHAR, RULE_NOTNCHAR, RULE_RANGE, RULE_SET, RULE_LOOK, RULE_CHOICE, RULE_SEQUENCE, RULE_IF, RULE_IFNOT, RULE_NOT, RULE_BETWEEN, RULE_GETTAG, RULE_CAPTURE, RULE_POSITION, RULE_ARGUMENT, RULE_CONSTANT, RULE_ACCUMULATE, RULE_GROUP, RULE_REPLACE, RULE_MATCHTIME, RULE_ERROR, RULE_DROP, RULE_BACKMATCH, RULE_TO, RULE_THRU, RULE_LENPREFIX, RULE_READINT, RULE_LINE, RULE_COLUMN, RULE_UNREF, RULE_CAPTURE_NUM, RULE_SUB, RULE_TIL, RULE_SPLIT, RULE_NTH, RULE_ONLY_TAGS]
  | unref x y =>
    have h0 := g 0 (by simp [encode]); have h1 := g 1 (by simp [encode]); have h2 := g 2 (by simp [encode])
    simp [encode] at h0 h1 h2
    simp [decode, w, h0, h1, h2, hsz, RULE_LITERAL, RULE_NCHAR, RULE_NOTNCHAR, RULE_RANGE, RULE_SET, RULE_LOOK, RULE_CHOICE, RULE_SEQUENCE, RULE_IF, RULE_IFNOT, RULE_NOT, RULE_BETWEEN, RULE_GETTAG, RULE_CAPTURE, RULE_POSITION, RULE_ARGUMENT, RULE_CONSTANT, RULE_ACCUMULATE, RULE_GROUP, RULE_REPLACE, RULE_MATCHTIME, RULE_ERROR, RULE_DROP, RULE_BACKMATCH, RULE_TO, RULE_THRU, RULE_LENPREFIX, RULE_READINT, RULE_LINE, RULE_COLUMN, RULE_UNREF, RULE_CAPTURE_NUM, RULE_SUB, RULE_TIL, RULE_SPLIT, RULE_NTH, RULE_ONLY_TAGS]
  | sub x y =>
    have h0 := g 0 (by simp [encode]); have h1 := g 1 (by simp [encode]); have h2 := g 2 (by simp [encode])
    simp [encode] at h0 h1 h2
    simp [decode, w, h0, h1, h2, hsz, RULE_LITERAL, RULE_NCHAR, RULE_NOTNCHAR, RULE_RANGE, RULE_SET, RULE_LOOK, RULE_CHOICE, RULE_SEQUENCE, RULE_IF, RULE_IFNOT, RULE_NOT, RULE_BETWEEN, RULE_GETTAG, RULE_CAPTURE, RULE_POSITION, RULE_ARGUMENT, RULE_CONSTANT, RULE_ACCUMULATE, RULE_GROUP, RULE_REPLACE, RULE_MATCHTIME, RULE_ERROR, RULE_DROP, RULE_BACKMATCH, RULE_TO, RULE_THRU, RULE_LENPREFIX, RULE_READINT, RULE_LINE, RULE_COLUMN, RULE_UNREF, RULE_CAPTURE_NUM, RULE_SUB, RULE_TIL, RULE_SPLIT, RULE_NTH, RULE_ONLY_TAGS]
  | til x y =>
    have h0 := g 0 (by simp [encode]); have h1 := g 1 (by simp [encode]); have h2 := g 2 (by simp [encode])
    simp [encode] at h0 h1 h2
    simp [decode, w, h0, h1, h2, hsz, RULE_LITERAL, RULE_NCHAR, RULE_NOTNCHAR, RULE_RANGE, RULE_SET, RULE_LOOK, RULE_CHOICE, RULE_SEQUENCE, RULE_IF, RULE_IFNOT, RULE_NOT, RULE_BETWEEN, RULE_GETTAG, RULE_CAPTURE, RULE_POSITION, RULE_ARGUMENT, RULE_CONSTANT, RULE_ACCUMULATE, RULE_GROUP, RULE_REPLACE, RULE_MATCHTIME, RULE_ERROR, RULE_DROP, RULE_BACKMATCH, RULE_TO, RULE_THRU, RULE_LENPREFIX, RULE_READINT, RULE_LINE, RULE_COLUMN, RULE_UNREF, RULE_CAPTURE_NUM, RULE_SUB, RULE_TIL, RULE_SPLIT, RULE_NTH, RULE_ONLY_TAGS]
  | split x y =>
    have h0 := g 0 (by simp [encode]); have h1 := g 1 (by simp [encode]); have h2 := g 2 (by simp [encode])
    simp [encode] at h0 h1 h2
    simp [decode, w, h0, h1, h2, hsz, RULE_LITERAL, RULE_NCHAR, RULE_NOTNCHAR, RULE_RANGE, RULE_SET, RULE_LOOK, RULE_CHOICE, RULE_SEQUENCE, RULE_IF, RULE_IFNOT, RULE_NOT, RULE_BETWEEN, RULE_GETTAG, RULE_CAPTURE, RULE_POSITION, RULE_ARGUMENT, RULE_CONSTANT, RULE_ACCUMULATE, RULE_GROUP, RULE_REPLACE, RULE_MATCHTIME, RULE_ERROR, RULE_DROP, RULE_BACKMATCH, RULE_TO, RULE_THRU, RULE_LENPREFIX, RULE_READINT, RULE_LINE, RULE_COLUMN, RULE_UNREF, RULE_CAPTURE_NUM, RULE_SUB, RULE_TIL, RULE_SPLIT, RULE_NTH, RULE_ONLY_TAGS]
/-! ### `shape`: the instruction of a source tuple / primitive is what `Spec.fetch` reads there -/

theorem shape_fetch (dflt : Scope) (sc : List Scope) (q : Patt) (i : Instr Patt) (n : Nat) (h : shape q = some i) :
    fetchN dflt (n + 1) ⟨sc, q⟩ = some (i.rebuild (i.kids.map (fun k => (⟨sc, k⟩ : Closure)))) := by
  cases q with
  | set c =>
    simp only [shape] at h; cases h; simp [fetchN, Instr.rebuild, Instr.kids]
  | choice ps =>
    simp only [shape] at h; cases h; simp [fetchN, Instr.rebuild, Instr.kids]
  | seq ps =>
    simp only [shape] at h; cases h; simp [fetchN, Instr.rebuild, Instr.kids]
  | if_ c p =>
    simp only [shape] at h; cases h; simp [fetchN, Instr.rebuild, Instr.kids]
  | ifnot c p =>
    simp only [shape] at h; cases h; simp [fetchN, Instr.rebuild, Instr.kids]
  | not p =>
    simp only [shape] at h; cases h; simp [fetchN, Instr.rebuild, Instr.kids]
  | any p =>
    simp only [shape] at h; cases h; simp [fetchN, Instr.rebuild, Instr.kids]
  | some p =>
    simp only [shape] at h; cases h; simp [fetchN, Instr.rebuild, Instr.kids]
  | opt p =>
    simp only [shape] at h; cases h; simp [fetchN, Instr.rebuild, Instr.kids]
  | to p =>
    simp only [shape] at h; cases h; simp [fetchN, Instr.rebuild, Instr.kids]
  | thru p =>
    simp only [shape] at h; cases h; simp [fetchN, Instr.rebuild, Instr.kids]
  | drop p =>
    simp only [shape] at h; cases h; simp [fetchN, Instr.rebuild, Instr.kids]
  | onlytags p =>
    simp only [shape] at h; cases h; simp [fetchN, Instr.rebuild, Instr.kids]
  | lenprefix a p =>
    simp only [shape] at h; cases h; simp [fetchN, Instr.rebuild, Instr.kids]
  | sub a p =>
    simp only [shape] at h; cases h; simp [fetchN, Instr.rebuild, Instr.kids]
  | split a p =>
    simp only [shape] at h; cases h; simp [fetchN, Instr.rebuild, Instr.kids]
  | til a p =>
    simp only [shape] at h; cases h; simp [fetchN, Instr.rebuild, Instr.kids]
  | str b =>
    simp only [shape] at h; split at h
    · cases h; simp [fetchN, Instr.rebuild, Instr.kids]
    · cases h
  | int n =>
    simp only [shape] at h; split at h
    · cases h
      by_cases hn : n < 0 <;> simp [fetchN, Instr.rebuild, Instr.kids, hn]
    · cases h
  | look o p =>
    simp only [shape] at h; split at h
    · cases h; simp [fetchN, Instr.rebuild, Instr.kids]
    · cases h
  | between lo hi p =>
    simp only [shape] at h; split at h
    · cases h; simp [fetchN, Instr.rebuild, Instr.kids]
    · cases h
  | atleast n p =>
    simp only [shape] at h; split at h
    · cases h; simp [fetchN, Instr.rebuild, Instr.kids]
    · cases h
  | atmost n p =>
    simp only [shape] at h; split at h
    · cases h; simp [fetchN, Instr.rebuild, Instr.kids]
    · cases h
  | repeat_ n p =>
    simp only [shape] at h; split at h
    · cases h; simp [fetchN, Instr.rebuild, Instr.kids]
    · cases h
  | capture p t =>
    simp only [shape] at h; split at h
    · cases h; simp [fetchN, Instr.rebuild, Instr.kids]
    · cases h
  | accumulate p t =>
    simp only [shape] at h; split at h
    · cases h; simp [fetchN, Instr.rebuild, Instr.kids]
    · cases h
  | group p t =>
    simp only [shape] at h; split at h
    · cases h; simp [fetchN, Instr.rebuild, Instr.kids]
    · cases h
  | replace p v t =>
    simp only [shape] at h; split at h
    · cases h; simp [fetchN, Instr.rebuild, Instr.kids]
    · cases h
  | constant v t =>
    simp only [shape] at h; split at h
    · cases h; simp [fetchN, Instr.rebuild, Instr.kids]
    · cases h
  | argument n t =>
    simp only [shape] at h; split at h
    · cases h; simp [fetchN, Instr.rebuild, Instr.kids]
    · cases h
  | position t =>
    simp only [shape] at h; split at h
    · cases h; simp [fetchN, Instr.rebuild, Instr.kids]
    · cases h
  | line t =>
    simp only [shape] at h; split at h
    · cases h; simp [fetchN, Instr.rebuild, Instr.kids]
    · cases h
  | column t =>
    simp only [shape] at h; split at h
    · cases h; simp [fetchN, Instr.rebuild, Instr.kids]
    · cases h
  | backref s t =>
    simp only [shape] at h; split at h
    · cases h; simp [fetchN, Instr.rebuild, Instr.kids]
    · cases h
  | backmatch t =>
    simp only [shape] at h; split at h
    · cases h; simp [fetchN, Instr.rebuild, Instr.kids]
    · cases h
  | unref p t =>
    simp only [shape] at h; split at h
    · cases h; simp [fetchN, Instr.rebuild, Instr.kids]
    · cases h
  | nth n p t =>
    simp only [shape] at h; split at h
    · cases h; simp [fetchN, Instr.rebuild, Instr.kids]
    · cases h
  | readint w sg be t =>
    simp only [shape] at h; split at h
    · cases h; simp [fetchN, Instr.rebuild, Instr.kids]
    · cases h
  | number p b t =>
    simp only [shape] at h; split at h
    · cases h; simp [fetchN, Instr.rebuild, Instr.kids]
    · cases h
  | bool b => cases b <;> (simp only [shape] at h; cases h; simp [fetchN, Instr.rebuild, Instr.kids])
  | ref nm => simp [shape] at h
  | grammar rs => simp [shape] at h
  | range rs =>
    rcases rs with _ | ⟨⟨lo, hi⟩, _ | ⟨r2, rest⟩⟩
    · simp [shape] at h
    · simp only [shape] at h; split at h
      · cases h; simp [fetchN, Instr.rebuild, Instr.kids]
      · cases h
    · simp only [shape] at h; split at h
      · cases h; simp [fetchN, Instr.rebuild, Instr.kids]
      · cases h
  | cmt p v t =>
    cases v <;> simp only [shape] at h <;> (try cases h)
    split at h
    · cases h; simp [fetchN, Instr.rebuild, Instr.kids]
    · cases h
  | error o =>
    cases o <;> (simp only [shape] at h; cases h; simp [fetchN, Instr.rebuild, Instr.kids])

theorem shape_encOk (q : Patt) (i : Instr Patt) (ks : List Nat) (h : shape q = some i) : EncOk (i.rebuild ks) := by
  cases q with
  | set c =>
    simp only [shape] at h; cases h; (first | (simp_all [Instr.rebuild, EncOk, bitmapOf]; done) | (simp_all [Instr.rebuild, EncOk, bitmapOf]; omega) | (split <;> simp [Instr.rebuild, EncOk]))
  | choice ps =>
    simp only [shape] at h; cases h; (first | (simp_all [Instr.rebuild, EncOk, bitmapOf]; done) | (simp_all [Instr.rebuild, EncOk, bitmapOf]; omega) | (split <;> simp [Instr.rebuild, EncOk]))
  | seq ps =>
    simp only [shape] at h; cases h; (first | (simp_all [Instr.rebuild, EncOk, bitmapOf]; done) | (simp_all [Instr.rebuild, EncOk, bitmapOf]; omega) | (split <;> simp [Instr.rebuild, EncOk]))
  | if_ c p =>
    simp only [shape] at h; cases h; (first | (simp_all [Instr.rebuild, EncOk, bitmapOf]; done) | (simp_all [Instr.rebuild, EncOk, bitmapOf]; omega) | (split <;> simp [Instr.rebuild, EncOk]))
  | ifnot c p =>
    simp only [shape] at h; cases h; (first | (simp_all [Instr.rebuild, EncOk, bitmapOf]; done) | (simp_all [Instr.rebuild, EncOk, bitmapOf]; omega) | (split <;> simp [Instr.rebuild, EncOk]))
  | not p =>
    simp only [shape] at h; cases h; (first | (simp_all [Instr.rebuild, EncOk, bitmapOf]; done) | (simp_all [Instr.rebuild, EncOk, bitmapOf]; omega) | (split <;> simp [Instr.rebuild, EncOk]))
  | any p =>
    simp only [shape] at h; cases h; (first | (simp_all [Instr.rebuild, EncOk, bitmapOf]; done) | (simp_all [Instr.rebuild, EncOk, bitmapOf]; omega) | (split <;> simp [Instr.rebuild, EncOk]))
  | some p =>
    simp only [shape] at h; cases h; (first | (simp_all [Instr.rebuild, EncOk, bitmapOf]; done) | (simp_all [Instr.rebuild, EncOk, bitmapOf]; omega) | (split <;> simp [Instr.rebuild, EncOk]))
  | opt p =>
    simp only [shape] at h; cases h; (first | (simp_all [Instr.rebuild, EncOk, bitmapOf]; done) | (simp_all [Instr.rebuild, EncOk, bitmapOf]; omega) | (split <;> simp [Instr.rebuild, EncOk]))
  | to p =>
    simp only [shape] at h; cases h; (first | (simp_all [Instr.rebuild, EncOk, bitmapOf]; done) | (simp_all [Instr.rebuild, EncOk, bitmapOf]; omega) | (split <;> simp [Instr.rebuild, EncOk]))
  | thru p =>
    simp only [shape] at h; cases h; (first | (simp_all [Instr.rebuild, EncOk, bitmapOf]; done) | (simp_all [Instr.rebuild, EncOk, bitmapOf]; omega) | (split <;> simp [Instr.rebuild, EncOk]))
  | drop p =>
    simp only [shape] at h; cases h; (first | (simp_all [Instr.rebuild, EncOk, bitmapOf]; done) | (simp_all [Instr.rebuild, EncOk, bitmapOf]; omega) | (split <;> simp [Instr.rebuild, EncOk]))
  | onlytags p =>
    simp only [shape] at h; cases h; (first | (simp_all [Instr.rebuild, EncOk, bitmapOf]; done) | (simp_all [Instr.rebuild, EncOk, bitmapOf]; omega) | (split <;> simp [Instr.rebuild, EncOk]))
  | lenprefix a p =>
    simp only [shape] at h; cases h; (first | (simp_all [Instr.rebuild, EncOk, bitmapOf]; done) | (simp_all [Instr.rebuild, EncOk, bitmapOf]; omega) | (split <;> simp [Instr.rebuild, EncOk]))
  | sub a p =>
    simp only [shape] at h; cases h; (first | (simp_all [Instr.rebuild, EncOk, bitmapOf]; done) | (simp_all [Instr.rebuild, EncOk, bitmapOf]; omega) | (split <;> simp [Instr.rebuild, EncOk]))
  | split a p =>
    simp only [shape] at h; cases h; (first | (simp_all [Instr.rebuild, EncOk, bitmapOf]; done) | (simp_all [Instr.rebuild, EncOk, bitmapOf]; omega) | (split <;> simp [Instr.rebuild, EncOk]))
  | til a p =>
    simp only [shape] at h; cases h; (first | (simp_all [Instr.rebuild, EncOk, bitmapOf]; done) | (simp_all [Instr.rebuild, EncOk, bitmapOf]; omega) | (split <;> simp [Instr.rebuild, EncOk]))
  | str b =>
    simp only [shape] at h; split at h
    · cases h; (first | (simp_all [Instr.rebuild, EncOk, bitmapOf]; done) | (simp_all [Instr.rebuild, EncOk, bitmapOf]; omega) | (split <;> simp [Instr.rebuild, EncOk]))
    · cases h
  | int n =>
    simp only [shape] at h; split at h
    · cases h; (first | (simp_all [Instr.rebuild, EncOk, bitmapOf]; done) | (simp_all [Instr.rebuild, EncOk, bitmapOf]; omega) | (split <;> simp [Instr.rebuild, EncOk]))
    · cases h
  | look o p =>
    simp only [shape] at h; split at h
    · cases h; (first | (simp_all [Instr.rebuild, EncOk, bitmapOf]; done) | (simp_all [Instr.rebuild, EncOk, bitmapOf]; omega) | (split <;> simp [Instr.rebuild, EncOk]))
    · cases h
  | between lo hi p =>
    simp only [shape] at h; split at h
    · cases h; (first | (simp_all [Instr.rebuild, EncOk, bitmapOf]; done) | (simp_all [Instr.rebuild, EncOk, bitmapOf]; omega) | (split <;> simp [Instr.rebuild, EncOk]))
    · cases h
  | atleast n p =>
    simp only [shape] at h; split at h
    · cases h; (first | (simp_all [Instr.rebuild, EncOk, bitmapOf]; done) | (simp_all [Instr.rebuild, EncOk, bitmapOf]; omega) | (split <;> simp [Instr.rebuild, EncOk]))
    · cases h
  | atmost n p =>
    simp only [shape] at h; split at h
    · cases h; (first | (simp_all [Instr.rebuild, EncOk, bitmapOf]; done) | (simp_all [Instr.rebuild, EncOk, bitmapOf]; omega) | (split <;> simp [Instr.rebuild, EncOk]))
    · cases h
  | repeat_ n p =>
    simp only [shape] at h; split at h
    · cases h; (first | (simp_all [Instr.rebuild, EncOk, bitmapOf]; done) | (simp_all [Instr.rebuild, EncOk, bitmapOf]; omega) | (split <;> simp [Instr.rebuild, EncOk]))
    · cases h
  | capture p t =>
    simp only [shape] at h; split at h
    · cases h; (first | (simp_all [Instr.rebuild, EncOk, bitmapOf]; done) | (simp_all [Instr.rebuild, EncOk, bitmapOf]; omega) | (split <;> simp [Instr.rebuild, EncOk]))
    · cases h
  | accumulate p t =>
    simp only [shape] at h; split at h
    · cases h; (first | (simp_all [Instr.rebuild, EncOk, bitmapOf]; done) | (simp_all [Instr.rebuild, EncOk, bitmapOf]; omega) | (split <;> simp [Instr.rebuild, EncOk]))
    · cases h
  | group p t =>
    simp only [shape] at h; split at h
    · cases h; (first | (simp_all [Instr.rebuild, EncOk, bitmapOf]; done) | (simp_all [Instr.rebuild, EncOk, bitmapOf]; omega) | (split <;> simp [Instr.rebuild, EncOk]))
    · cases h
  | replace p v t =>
    simp only [shape] at h; split at h
    · cases h; (first | (simp_all [Instr.rebuild, EncOk, bitmapOf]; done) | (simp_all [Instr.rebuild, EncOk, bitmapOf]; omega) | (split <;> simp [Instr.rebuild, EncOk]))
    · cases h
  | constant v t =>
    simp only [shape] at h; split at h
    · cases h; (first | (simp_all [Instr.rebuild, EncOk, bitmapOf]; done) | (simp_all [Instr.rebuild, EncOk, bitmapOf]; omega) | (split <;> simp [Instr.rebuild, EncOk]))
    · cases h
  | argument n t =>
    simp only [shape] at h; split at h
    · cases h; (first | (simp_all [Instr.rebuild, EncOk, bitmapOf]; done) | (simp_all [Instr.rebuild, EncOk, bitmapOf]; omega) | (split <;> simp [Instr.rebuild, EncOk]))
    · cases h
  | position t =>
    simp only [shape] at h; split at h
    · cases h; (first | (simp_all [Instr.rebuild, EncOk, bitmapOf]; done) | (simp_all [Instr.rebuild, EncOk, bitmapOf]; omega) | (split <;> simp [Instr.rebuild, EncOk]))
    · cases h
  | line t =>
    simp only [shape] at h; split at h
    · cases h; (first | (simp_all [Instr.rebuild, EncOk, bitmapOf]; done) | (simp_all [Instr.rebuild, EncOk, bitmapOf]; omega) | (split <;> simp [Instr.rebuild, EncOk]))
    · cases h
  | column t =>
    simp only [shape] at h; split at h
    · cases h; (first | (simp_all [Instr.rebuild, EncOk, bitmapOf]; done) | (simp_all [Instr.rebuild, EncOk, bitmapOf]; omega) | (split <;> simp [Instr.rebuild, EncOk]))
    · cases h
  | backref s t =>
    simp only [shape] at h; split at h
    · cases h; (first | (simp_all [Instr.rebuild, EncOk, bitmapOf]; done) | (simp_all [Instr.rebuild, EncOk, bitmapOf]; omega) | (split <;> simp [Instr.rebuild, EncOk]))
    · cases h
  | backmatch t =>
    simp only [shape] at h; split at h
    · cases h; (first | (simp_all [Instr.rebuild, EncOk, bitmapOf]; done) | (simp_all [Instr.rebuild, EncOk, bitmapOf]; omega) | (split <;> simp [Instr.rebuild, EncOk]))
    · cases h
  | unref p t =>
    simp only [shape] at h; split at h
    · cases h; (first | (simp_all [Instr.rebuild, EncOk, bitmapOf]; done) | (simp_all [Instr.rebuild, EncOk, bitmapOf]; omega) | (split <;> simp [Instr.rebuild, EncOk]))
    · cases h
  | nth n p t =>
    simp only [shape] at h; split at h
    · cases h; (first | (simp_all [Instr.rebuild, EncOk, bitmapOf]; done) | (simp_all [Instr.rebuild, EncOk, bitmapOf]; omega) | (split <;> simp [Instr.rebuild, EncOk]))
    · cases h
  | readint w sg be t =>
    simp only [shape] at h; split at h
    · cases h; (first | (simp_all [Instr.rebuild, EncOk, bitmapOf]; done) | (simp_all [Instr.rebuild, EncOk, bitmapOf]; omega) | (split <;> simp [Instr.rebuild, EncOk]))
    · cases h
  | number p b t =>
    simp only [shape] at h; split at h
    · cases h; (first | (simp_all [Instr.rebuild, EncOk, bitmapOf]; done) | (simp_all [Instr.rebuild, EncOk, bitmapOf]; omega) | (split <;> simp [Instr.rebuild, EncOk]))
    · cases h
  | bool b => cases b <;> (simp only [shape] at h; cases h; (first | (simp_all [Instr.rebuild, EncOk, bitmapOf]; done) | (simp_all [Instr.rebuild, EncOk, bitmapOf]; omega) | (split <;> simp [Instr.rebuild, EncOk])))
  | ref nm => simp [shape] at h
  | grammar rs => simp [shape] at h
  | range rs =>
    rcases rs with _ | ⟨⟨lo, hi⟩, _ | ⟨r2, rest⟩⟩
    · simp [shape] at h
    · simp only [shape] at h; split at h
      · cases h; (first | (simp_all [Instr.rebuild, EncOk, bitmapOf]; done) | (simp_all [Instr.rebuild, EncOk, bitmapOf]; omega) | (split <;> simp [Instr.rebuild, EncOk]))
      · cases h
    · simp only [shape] at h; split at h
      · cases h; (first | (simp_all [Instr.rebuild, EncOk, bitmapOf]; done) | (simp_all [Instr.rebuild, EncOk, bitmapOf]; omega) | (split <;> simp [Instr.rebuild, EncOk]))
      · cases h
  | cmt p v t =>
    cases v <;> simp only [shape] at h <;> (try cases h)
    split at h
    · cases h; (first | (simp_all [Instr.rebuild, EncOk, bitmapOf]; done) | (simp_all [Instr.rebuild, EncOk, bitmapOf]; omega) | (split <;> simp [Instr.rebuild, EncOk]))
    · cases h
  | error o =>
    cases o <;> (simp only [shape] at h; cases h; (first | (simp_all [Instr.rebuild, EncOk, bitmapOf]; done) | (simp_all [Instr.rebuild, EncOk, bitmapOf]; omega) | (split <;> simp [Instr.rebuild, EncOk])))

theorem shape_prim_kids (q : Patt) (i : Instr Patt) (hp : isPrim q = true) (h : shape q = some i) : i.kids = [] := by
  cases q <;> simp [isPrim] at hp
  · simp only [shape] at h; split at h
    · cases h; rfl
    · cases h
  · simp only [shape] at h; split at h
    · cases h; split <;> rfl
    · cases h
  · rename_i b; cases b <;> (simp only [shape] at h; cases h; rfl)

theorem asRef_eq {p : Patt} {n : String} (h : asRef p = some n) : p = .ref n := by
  cases p <;> simp [asRef] at h; rw [h]

theorem asGrammar_eq {p : Patt} {rs : Scope} (h : asGrammar p = some rs) : p = .grammar rs := by
  cases p <;> simp [asGrammar] at h; rw [h]

theorem encode_length {ρ : Type} (i : Instr ρ) (as : List Nat) (c : Nat) (h : as.length = i.kids.length) :
    (encode (i.rebuild as) c).length = encSize i := by
  cases i <;> simp [Instr.kids] at h <;> simp [encSize, encode, Instr.rebuild, Instr.kids, h]
end JanetModel.Peg
