/-
never_reads_outside: in the denotational semantics (hence, by op_eq_den, in the operational model) a guarded text
access never fails: every rule is entered with `pos ≤ text_end ≤ |text|` and returns a position in `[pos, text_end]`,
including inside the narrowed windows of sub / til / split.
-/
import JanetModel.Peg.Lemmas

namespace JanetModel.Peg
variable {ρ : Type}

/-- result is not an out-of-window read and, on success, ends inside `[pos, te]` -/
def Good (te pos : Nat) (res : DRes) : Prop :=
  match res with
  | .error e => e ≠ .oob
  | .ok none => True
  | .ok (some (p, _)) => pos ≤ p ∧ p ≤ te

def DSafe (E : Env) (kd : DK ρ) : Prop :=
  ∀ r s pos, s.textEnd ≤ E.text.length → pos ≤ s.textEnd → Good s.textEnd pos (kd r s pos)

theorem dchild {E : Env} {kd : DK ρ} (hk : DSafe E kd) (r : ρ) (s : St) (pos : Nat)
    (h1 : s.textEnd ≤ E.text.length) (h2 : pos ≤ s.textEnd) :
    (∃ e, kd r s pos = .error e ∧ e ≠ .oob) ∨ (kd r s pos = .ok none) ∨
    (∃ p d, kd r s pos = .ok (some (p, d)) ∧ pos ≤ p ∧ p ≤ s.textEnd) := by
  have h := hk r s pos h1 h2
  cases hkd : kd r s pos with
  | error e => left; rw [hkd] at h; exact ⟨e, rfl, h⟩
  | ok v =>
    cases v with
    | none => right; left; rfl
    | some pd => right; right; obtain ⟨p, d⟩ := pd; rw [hkd] at h; exact ⟨p, d, rfl, h⟩

theorem slice_ok (E : Env) (s : St) (a b : Nat) (h1 : a ≤ b) (h2 : b ≤ s.textEnd) (h3 : s.textEnd ≤ E.text.length) :
    ∃ t, E.slice s a b = .ok t := by
  refine ⟨(E.text.drop a).take (b - a), ?_⟩
  simp only [Env.slice]
  rw [if_pos ⟨h1, h2, Nat.le_trans h2 h3⟩]

theorem byte_ok (E : Env) (s : St) (i : Nat) (h1 : i < s.textEnd) (h3 : s.textEnd ≤ E.text.length) :
    ∃ b, E.byte s i = .ok b := by
  have hi : i < E.text.length := Nat.lt_of_lt_of_le h1 h3
  refine ⟨E.text[i], ?_⟩
  simp [Env.byte, h1, List.getElem?_eq_getElem hi]

theorem good_none (te pos : Nat) : Good te pos (.ok none) := trivial
theorem good_err (te pos : Nat) (e : Err) (h : e ≠ .oob) : Good te pos (.error e) := h

theorem leaf_good (E : Env) {kd : DK ρ} (n : Nat) (i : Instr ρ) (s : St) (pos : Nat)
    (hte : s.textEnd ≤ E.text.length) (hpos : pos ≤ s.textEnd)
    (hi : match i with
      | .literal _ | .nchar _ | .notnchar _ | .range _ _ | .set _ | .gettag _ _ | .position _ | .line _ | .column _
      | .argument _ _ | .constant _ _ | .backmatch _ | .readint _ _ => True
      | _ => False) :
    Good s.textEnd pos (Den.step E kd n i s pos) := by
  cases i <;> simp only at hi <;> simp only [Den.step]
  case literal bytes =>
    split
    · trivial
    · obtain ⟨t, ht⟩ := slice_ok E s pos (pos + bytes.length) (by omega) (by omega) hte
      simp only [ht, bind, Except.bind]
      split <;> simp [Good] <;> omega
  case nchar c => split <;> simp [Good] <;> omega
  case notnchar c => split <;> simp [Good] <;> omega
  case range lo hi =>
    split
    · rename_i h
      obtain ⟨b, hb⟩ := byte_ok E s pos h hte
      simp only [hb, bind, Except.bind]
      split <;> simp [Good] <;> omega
    · trivial
  case set bm =>
    split
    · trivial
    · obtain ⟨b, hb⟩ := byte_ok E s pos (by omega) hte
      simp only [hb, bind, Except.bind]
      split <;> simp [Good] <;> omega
  case gettag search tag => cases findTag s.tagged search <;> simp [Good] <;> omega
  case position tag => simp [Good]; omega
  case line tag => simp [Good]; omega
  case column tag => simp [Good]; omega
  case argument idx tag => simp [Good]; omega
  case constant v tag => simp [Good]; omega
  case backmatch search =>
    cases findTag s.tagged search with
    | none => trivial
    | some v =>
      cases v <;> try trivial
      rename_i bytes
      simp only
      split
      · trivial
      · obtain ⟨t, ht⟩ := slice_ok E s pos (pos + bytes.length) (by omega) (by omega) hte
        simp only [ht, bind, Except.bind]
        split <;> simp [Good] <;> omega
  case readint flags tag =>
    split
    · trivial
    · obtain ⟨t, ht⟩ := slice_ok E s pos (pos + flags % 16) (by omega) (by omega) hte
      simp only [ht, bind, Except.bind]
      simp [Good]; omega

end JanetModel.Peg

namespace JanetModel.Peg
variable {ρ : Type}

theorem under_down {E : Env} {kd : DK ρ} (hk : DSafe E kd) (r : ρ) (S : St) (pos : Nat)
    (hte : S.textEnd ≤ E.text.length) (hpos : pos ≤ S.textEnd) :
    (down1 S = .error .depth) ∨
    (∃ s0, down1 S = .ok s0 ∧ s0.textEnd = S.textEnd ∧
      ((∃ e, kd r s0 pos = .error e ∧ e ≠ .oob) ∨ kd r s0 pos = .ok none ∨
       ∃ p d, kd r s0 pos = .ok (some (p, d)) ∧ pos ≤ p ∧ p ≤ S.textEnd)) := by
  rcases down1_cases S with hd | ⟨_, hd⟩
  · left; exact hd
  · right
    exact ⟨_, hd, rfl, dchild hk r { S with depth := S.depth - 1 } pos hte hpos⟩

/-- wrappers whose result position is the child's: capture-like, mode switching, drop, ... -/
theorem wrap_good (E : Env) {kd : DK ρ} (hk : DSafe E kd) (n : Nat) (i : Instr ρ) (s : St) (pos : Nat)
    (hte : s.textEnd ≤ E.text.length) (hpos : pos ≤ s.textEnd)
    (hi : match i with
      | .capture _ _ | .capturenum _ _ _ | .drop _ | .onlytags _ | .group _ _ | .nth _ _ _ | .replace _ _ _
      | .matchtime _ _ _ | .error _ | .unref _ _ | .not _ => True
      | _ => False) :
    Good s.textEnd pos (Den.step E kd n i s pos) := by
  cases i <;> simp only at hi <;> simp only [Den.step]
  case capture r tag =>
    rcases under_down hk r s pos hte hpos with hd | ⟨s0, hd, h0, ⟨e, h1, he⟩ | h1 | ⟨p, d, h1, hp1, hp2⟩⟩
    · simp [hd, Good, bind, Except.bind]
    · simp [hd, h1, Good, bind, Except.bind, he]
    · simp [hd, h1, Good, bind, Except.bind]
    · obtain ⟨t, ht⟩ := slice_ok E s pos p hp1 hp2 hte
      simp only [hd, h1, ht, bind, Except.bind]
      split <;> exact ⟨hp1, hp2⟩
  case capturenum r base tag =>
    rcases under_down hk r s pos hte hpos with hd | ⟨s0, hd, h0, ⟨e, h1, he⟩ | h1 | ⟨p, d, h1, hp1, hp2⟩⟩
    · simp [hd, Good, bind, Except.bind]
    · simp [hd, h1, Good, bind, Except.bind, he]
    · simp [hd, h1, Good, bind, Except.bind]
    · obtain ⟨t, ht⟩ := slice_ok E s pos p hp1 hp2 hte
      simp only [hd, h1, ht, bind, Except.bind]
      cases scanNumber t base with
      | none => trivial
      | some x => simp only; split <;> exact ⟨hp1, hp2⟩
  case drop r =>
    rcases under_down hk r s pos hte hpos with hd | ⟨s0, hd, h0, ⟨e, h1, he⟩ | h1 | ⟨p, d, h1, hp1, hp2⟩⟩
    · simp [hd, Good, bind, Except.bind]
    · simp [hd, h1, Good, bind, Except.bind, he]
    · simp [hd, h1, Good, bind, Except.bind]
    · simp only [hd, h1, bind, Except.bind]; exact ⟨hp1, hp2⟩
  case onlytags r =>
    rcases under_down hk r s pos hte hpos with hd | ⟨s0, hd, h0, ⟨e, h1, he⟩ | h1 | ⟨p, d, h1, hp1, hp2⟩⟩
    · simp [hd, Good, bind, Except.bind]
    · simp [hd, h1, Good, bind, Except.bind, he]
    · simp [hd, h1, Good, bind, Except.bind]
    · simp only [hd, h1, bind, Except.bind]; exact ⟨hp1, hp2⟩
  case unref r tag =>
    rcases under_down hk r s pos hte hpos with hd | ⟨s0, hd, h0, ⟨e, h1, he⟩ | h1 | ⟨p, d, h1, hp1, hp2⟩⟩
    · simp [hd, Good, bind, Except.bind]
    · simp [hd, h1, Good, bind, Except.bind, he]
    · simp [hd, h1, Good, bind, Except.bind]
    · simp only [hd, h1, bind, Except.bind]; exact ⟨hp1, hp2⟩
  case not r =>
    rcases under_down hk r s pos hte hpos with hd | ⟨s0, hd, h0, ⟨e, h1, he⟩ | h1 | ⟨p, d, h1, hp1, hp2⟩⟩
    · simp [hd, Good, bind, Except.bind]
    · simp [hd, h1, Good, bind, Except.bind, he]
    · simp only [hd, h1, bind, Except.bind]; exact ⟨Nat.le_refl _, hpos⟩
    · simp [hd, h1, Good, bind, Except.bind]
  case group r tag =>
    rcases under_down hk r { s with acc := false } pos hte hpos with hd | ⟨s0, hd, h0, ⟨e, h1, he⟩ | h1 | ⟨p, d, h1, hp1, hp2⟩⟩
    · simp [hd, Good, bind, Except.bind]
    · simp [hd, h1, Good, bind, Except.bind, he]
    · simp [hd, h1, Good, bind, Except.bind]
    · simp only [hd, h1, bind, Except.bind]; exact ⟨hp1, hp2⟩
  case nth k r tag =>
    rcases under_down hk r { s with acc := false } pos hte hpos with hd | ⟨s0, hd, h0, ⟨e, h1, he⟩ | h1 | ⟨p, d, h1, hp1, hp2⟩⟩
    · simp [hd, Good, bind, Except.bind]
    · simp [hd, h1, Good, bind, Except.bind, he]
    · simp [hd, h1, Good, bind, Except.bind]
    · simp only [hd, h1, bind, Except.bind]
      split
      · trivial
      · exact ⟨hp1, hp2⟩
  case replace r v tag =>
    rcases under_down hk r { s with acc := false } pos hte hpos with hd | ⟨s0, hd, h0, ⟨e, h1, he⟩ | h1 | ⟨p, d, h1, hp1, hp2⟩⟩
    · simp [hd, Good, bind, Except.bind]
    · simp [hd, h1, Good, bind, Except.bind, he]
    · simp [hd, h1, Good, bind, Except.bind]
    · simp only [hd, h1, bind, Except.bind]
      have hrv : ∀ e, Den.replaceValue v s.caps d.caps = .error e → e ≠ .oob := by
        intro e he
        cases v <;> simp [Den.replaceValue] at he
        rename_i name
        simp only [applyFn] at he
        repeat (split at he; · simp at he)
        simp at he; rw [← he]; simp
      have hcg : ∀ e, callGuard E s.depth v = .error e → e ≠ .oob := by
        intro e he
        cases v <;> simp [callGuard] at he
        split at he
        · simp at he; rw [← he]; simp
        · simp at he
      cases hg : callGuard E s.depth v with
      | error e => exact hcg e hg
      | ok _ =>
      simp only []
      cases hv : Den.replaceValue v s.caps d.caps with
      | error e => exact hrv e hv
      | ok cap => exact ⟨hp1, hp2⟩
  case matchtime r v tag =>
    rcases under_down hk r { s with acc := false } pos hte hpos with hd | ⟨s0, hd, h0, ⟨e, h1, he⟩ | h1 | ⟨p, d, h1, hp1, hp2⟩⟩
    · simp [hd, Good, bind, Except.bind]
    · simp [hd, h1, Good, bind, Except.bind, he]
    · simp [hd, h1, Good, bind, Except.bind]
    · simp only [hd, h1, bind, Except.bind]
      have hrv : ∀ e, Den.replaceValue v s.caps d.caps = .error e → e ≠ .oob := by
        intro e he
        cases v <;> simp [Den.replaceValue] at he
        rename_i name
        simp only [applyFn] at he
        repeat (split at he; · simp at he)
        simp at he; rw [← he]; simp
      have hcg : ∀ e, callGuard E s.depth v = .error e → e ≠ .oob := by
        intro e he
        cases v <;> simp [callGuard] at he
        split at he
        · simp at he; rw [← he]; simp
        · simp at he
      cases hg : callGuard E s.depth v with
      | error e => exact hcg e hg
      | ok _ =>
      simp only []
      cases hv : Den.replaceValue v s.caps d.caps with
      | error e => exact hrv e hv
      | ok cap => simp only; split; · exact ⟨hp1, hp2⟩
                  · trivial
  case error r =>
    rcases under_down hk r { s with acc := false } pos hte hpos with hd | ⟨s0, hd, h0, ⟨e, h1, he⟩ | h1 | ⟨p, d, h1, hp1, hp2⟩⟩
    · simp [hd, Good, bind, Except.bind]
    · simp [hd, h1, Good, bind, Except.bind, he]
    · simp [hd, h1, Good, bind, Except.bind]
    · simp only [hd, h1, bind, Except.bind]
      split <;> simp [Good]

end JanetModel.Peg

namespace JanetModel.Peg
variable {ρ : Type}

theorem good_mono {te pos pos' : Nat} {res : DRes} (h : pos ≤ pos') (g : Good te pos' res) : Good te pos res := by
  unfold Good at *
  cases res with
  | error e => exact g
  | ok v =>
    cases v with
    | none => trivial
    | some pd => obtain ⟨p, d⟩ := pd; exact ⟨Nat.le_trans h g.1, g.2⟩

theorem look_good (E : Env) {kd : DK ρ} (hk : DSafe E kd) (n : Nat) (off : Int) (r : ρ) (s : St) (pos : Nat)
    (hte : s.textEnd ≤ E.text.length) (hpos : pos ≤ s.textEnd) :
    Good s.textEnd pos (Den.step E kd n (.look off r) s pos) := by
  simp only [Den.step]
  split
  · trivial
  · rename_i hb
    have ht : ((pos : Int) + off).toNat ≤ s.textEnd := by omega
    rcases under_down hk r s ((pos : Int) + off).toNat hte ht with hd | ⟨s0, hd, h0, ⟨e, h1, he⟩ | h1 | ⟨p, d, h1, hp1, hp2⟩⟩
    · simp [hd, Good, bind, Except.bind]
    · simp [hd, h1, Good, bind, Except.bind, he]
    · simp [hd, h1, Good, bind, Except.bind]
    · simp only [hd, h1, bind, Except.bind]; exact ⟨Nat.le_refl _, hpos⟩

theorem accumulate_good (E : Env) {kd : DK ρ} (hk : DSafe E kd) (n : Nat) (r : ρ) (tag : Nat) (s : St) (pos : Nat)
    (hte : s.textEnd ≤ E.text.length) (hpos : pos ≤ s.textEnd) :
    Good s.textEnd pos (Den.step E kd n (.accumulate r tag) s pos) := by
  simp only [Den.step]
  split
  · exact hk r s pos hte hpos
  · rcases under_down hk r { s with acc := true } pos hte hpos with hd | ⟨s0, hd, h0, ⟨e, h1, he⟩ | h1 | ⟨p, d, h1, hp1, hp2⟩⟩
    · simp [hd, Good, bind, Except.bind]
    · simp [hd, h1, Good, bind, Except.bind, he]
    · simp [hd, h1, Good, bind, Except.bind]
    · simp only [hd, h1, bind, Except.bind]; exact ⟨hp1, hp2⟩

theorem if_good (E : Env) {kd : DK ρ} (hk : DSafe E kd) (n : Nat) (a b : ρ) (s : St) (pos : Nat)
    (hte : s.textEnd ≤ E.text.length) (hpos : pos ≤ s.textEnd) :
    Good s.textEnd pos (Den.step E kd n (.if_ a b) s pos) := by
  simp only [Den.step]
  rcases under_down hk a s pos hte hpos with hd | ⟨s0, hd, h0, ⟨e, h1, he⟩ | h1 | ⟨p, d, h1, hp1, hp2⟩⟩
  · simp [hd, Good, bind, Except.bind]
  · simp [hd, h1, Good, bind, Except.bind, he]
  · simp [hd, h1, Good, bind, Except.bind]
  · simp only [hd, h1, bind, Except.bind]
    rcases dchild hk b (s.extend d) pos hte hpos with ⟨e, g1, ge⟩ | g1 | ⟨p2, d2, g1, gp1, gp2⟩
    · simp [g1, Good, ge]
    · simp [g1, Good]
    · simp only [g1]; exact ⟨gp1, gp2⟩

theorem ifnot_good (E : Env) {kd : DK ρ} (hk : DSafe E kd) (n : Nat) (a b : ρ) (s : St) (pos : Nat)
    (hte : s.textEnd ≤ E.text.length) (hpos : pos ≤ s.textEnd) :
    Good s.textEnd pos (Den.step E kd n (.ifnot a b) s pos) := by
  simp only [Den.step]
  rcases under_down hk a s pos hte hpos with hd | ⟨s0, hd, h0, ⟨e, h1, he⟩ | h1 | ⟨p, d, h1, hp1, hp2⟩⟩
  · simp [hd, Good, bind, Except.bind]
  · simp [hd, h1, Good, bind, Except.bind, he]
  · simp only [hd, h1, bind, Except.bind]; exact hk b s pos hte hpos
  · simp [hd, h1, Good, bind, Except.bind]

theorem choiceLoop_good {E : Env} {kd : DK ρ} (hk : DSafe E kd) (s0 : St) (pos : Nat)
    (hte : s0.textEnd ≤ E.text.length) (hpos : pos ≤ s0.textEnd) :
    ∀ rs : List ρ, Good s0.textEnd pos (Den.choiceLoop kd rs s0 pos) := by
  intro rs
  induction rs with
  | nil => simp [Den.choiceLoop, Good]
  | cons r rest ih =>
    cases rest with
    | nil => simp only [Den.choiceLoop]; exact hk r (up1 s0) pos hte hpos
    | cons r' rest' =>
      simp only [Den.choiceLoop, bind, Except.bind]
      rcases dchild hk r s0 pos hte hpos with ⟨e, g1, ge⟩ | g1 | ⟨p2, d2, g1, gp1, gp2⟩
      · simp [g1, Good, ge]
      · simp only [g1]; exact ih
      · simp only [g1]; exact ⟨gp1, gp2⟩

theorem choice_good (E : Env) {kd : DK ρ} (hk : DSafe E kd) (n : Nat) (rs : List ρ) (s : St) (pos : Nat)
    (hte : s.textEnd ≤ E.text.length) (hpos : pos ≤ s.textEnd) :
    Good s.textEnd pos (Den.step E kd n (.choice rs) s pos) := by
  simp only [Den.step]
  split
  · trivial
  · rcases down1_cases s with hd | ⟨_, hd⟩
    · simp [hd, Good, bind, Except.bind]
    · simp only [hd, bind, Except.bind]
      exact choiceLoop_good hk { s with depth := s.depth - 1 } pos hte hpos rs

theorem seqLoop_good {E : Env} {kd : DK ρ} (hk : DSafe E kd) (s0 : St) (hte : s0.textEnd ≤ E.text.length) :
    ∀ (rs : List ρ) (pos : Nat) (d : Delta), pos ≤ s0.textEnd → Good s0.textEnd pos (Den.seqLoop kd rs s0 pos d) := by
  intro rs
  induction rs with
  | nil => intro pos d hpos; simp only [Den.seqLoop]; exact ⟨Nat.le_refl _, hpos⟩
  | cons r rest ih =>
    intro pos d hpos
    cases rest with
    | nil =>
      simp only [Den.seqLoop, bind, Except.bind]
      rcases dchild hk r (up1 (s0.extend d)) pos hte hpos with ⟨e, g1, ge⟩ | g1 | ⟨p2, d2, g1, gp1, gp2⟩
      · simp [g1, Good, ge]
      · simp [g1, Good]
      · simp only [g1]; exact ⟨gp1, gp2⟩
    | cons r' rest' =>
      simp only [Den.seqLoop, bind, Except.bind]
      rcases dchild hk r (s0.extend d) pos hte hpos with ⟨e, g1, ge⟩ | g1 | ⟨p2, d2, g1, gp1, gp2⟩
      · simp [g1, Good, ge]
      · simp [g1, Good]
      · simp only [g1]
        exact good_mono gp1 (ih p2 (d.append d2) gp2)

theorem sequence_good (E : Env) {kd : DK ρ} (hk : DSafe E kd) (n : Nat) (rs : List ρ) (s : St) (pos : Nat)
    (hte : s.textEnd ≤ E.text.length) (hpos : pos ≤ s.textEnd) :
    Good s.textEnd pos (Den.step E kd n (.sequence rs) s pos) := by
  simp only [Den.step]
  split
  · exact ⟨Nat.le_refl _, hpos⟩
  · rcases down1_cases s with hd | ⟨_, hd⟩
    · simp [hd, Good, bind, Except.bind]
    · simp only [hd, bind, Except.bind]
      exact seqLoop_good hk { s with depth := s.depth - 1 } hte rs pos {} hpos

theorem toLoop_good {E : Env} {kd : DK ρ} (hk : DSafe E kd) (r : ρ) (isTo : Bool) (s0 : St) (pos0 : Nat)
    (hte : s0.textEnd ≤ E.text.length) :
    ∀ (n cur : Nat), pos0 ≤ cur → cur + n ≤ s0.textEnd + 1 → Good s0.textEnd pos0 (Den.toLoop kd r isTo n s0 cur) := by
  intro n
  induction n with
  | zero => intro cur _ _; simp [Den.toLoop, Good]
  | succ n ih =>
    intro cur h1 h2
    simp only [Den.toLoop, bind, Except.bind]
    rcases dchild hk r s0 cur hte (by omega) with ⟨e, g1, ge⟩ | g1 | ⟨p2, d2, g1, gp1, gp2⟩
    · simp [g1, Good, ge]
    · simp only [g1]; exact ih (cur + 1) (by omega) (by omega)
    · simp only [g1]
      cases isTo with
      | true => simp only [if_true]; exact ⟨h1, by omega⟩
      | false => simp only [Bool.false_eq_true, if_false]; exact ⟨by omega, gp2⟩

theorem to_good (E : Env) {kd : DK ρ} (hk : DSafe E kd) (n : Nat) (r : ρ) (isTo : Bool) (s : St) (pos : Nat)
    (hte : s.textEnd ≤ E.text.length) (hpos : pos ≤ s.textEnd) :
    Good s.textEnd pos (Den.step E kd n (if isTo then .to r else .thru r) s pos) := by
  cases isTo <;> simp only [Den.step, if_true, Bool.false_eq_true, if_false]
  · rcases down1_cases s with hd | ⟨_, hd⟩
    · simp [hd, Good, bind, Except.bind]
    · simp only [hd, bind, Except.bind]
      exact toLoop_good hk r false { s with depth := s.depth - 1 } pos hte _ pos (Nat.le_refl _) (by simp; omega)
  · rcases down1_cases s with hd | ⟨_, hd⟩
    · simp [hd, Good, bind, Except.bind]
    · simp only [hd, bind, Except.bind]
      exact toLoop_good hk r true { s with depth := s.depth - 1 } pos hte _ pos (Nat.le_refl _) (by simp; omega)

end JanetModel.Peg

namespace JanetModel.Peg
variable {ρ : Type}

theorem betweenLoop_good {E : Env} {kd : DK ρ} (hk : DSafe E kd) (r : ρ) (hi : Nat) (s0 : St) (hte : s0.textEnd ≤ E.text.length) :
    ∀ (n captured pos : Nat) (d : Delta), pos ≤ s0.textEnd →
      match Den.betweenLoop kd r hi n captured s0 pos d with
      | .error e => e ≠ .oob
      | .ok (_, p, _) => pos ≤ p ∧ p ≤ s0.textEnd := by
  intro n
  induction n with
  | zero => intro captured pos d _; simp [Den.betweenLoop]
  | succ n ih =>
    intro captured pos d hpos
    simp only [Den.betweenLoop]
    by_cases hc : captured < hi
    · rw [if_pos hc]
      simp only [bind, Except.bind]
      rcases dchild hk r (s0.extend d) pos hte hpos with ⟨e, g1, ge⟩ | g1 | ⟨p2, d2, g1, gp1, gp2⟩
      · simp [g1, ge]
      · simp only [g1]; exact ⟨Nat.le_refl _, hpos⟩
      · simp only [g1]
        by_cases hz : ((p2 == pos) = true ∧ (hi == uintMax) = true)
        · rw [if_pos hz]; exact ⟨Nat.le_refl _, hpos⟩
        · rw [if_neg hz]
          have := ih (captured + 1) p2 (d.append d2) gp2
          revert this
          cases Den.betweenLoop kd r hi n (captured + 1) s0 p2 (d.append d2) with
          | error e => exact id
          | ok v => obtain ⟨c, p, d'⟩ := v; intro h; exact ⟨by omega, h.2⟩
    · rw [if_neg hc]; exact ⟨Nat.le_refl _, hpos⟩

theorem between_good (E : Env) {kd : DK ρ} (hk : DSafe E kd) (n : Nat) (lo hi : Nat) (r : ρ) (s : St) (pos : Nat)
    (hte : s.textEnd ≤ E.text.length) (hpos : pos ≤ s.textEnd) :
    Good s.textEnd pos (Den.step E kd n (.between lo hi r) s pos) := by
  simp only [Den.step]
  rcases down1_cases s with hd | ⟨_, hd⟩
  · simp [hd, Good, bind, Except.bind]
  · simp only [hd, bind, Except.bind]
    have := betweenLoop_good hk r hi { s with depth := s.depth - 1 } hte n 0 pos {} hpos
    revert this
    cases Den.betweenLoop kd r hi n 0 { s with depth := s.depth - 1 } pos {} with
    | error e => exact id
    | ok v =>
      obtain ⟨c, p, d'⟩ := v
      intro h
      simp only
      split
      · trivial
      · exact h

theorem lenLoop_good {E : Env} {kd : DK ρ} (hk : DSafe E kd) (r : ρ) (s : St) (hte : s.textEnd ≤ E.text.length) :
    ∀ (n pos : Nat) (d : Delta), pos ≤ s.textEnd → Good s.textEnd pos (Den.lenLoop kd r n s pos d) := by
  intro n
  induction n with
  | zero => intro pos d hpos; simp only [Den.lenLoop]; exact ⟨Nat.le_refl _, hpos⟩
  | succ n ih =>
    intro pos d hpos
    simp only [Den.lenLoop]
    rcases under_down hk r (s.extend d) pos hte hpos with hd | ⟨s0, hd, h0, ⟨e, h1, he⟩ | h1 | ⟨p, d2, h1, hp1, hp2⟩⟩
    · simp [hd, Good, bind, Except.bind]
    · simp [hd, h1, Good, bind, Except.bind, he]
    · simp [hd, h1, Good, bind, Except.bind]
    · simp only [hd, h1, bind, Except.bind]
      exact good_mono hp1 (ih p (d.append d2) hp2)

theorem lenprefix_good (E : Env) {kd : DK ρ} (hk : DSafe E kd) (n : Nat) (a b : ρ) (s : St) (pos : Nat)
    (hte : s.textEnd ≤ E.text.length) (hpos : pos ≤ s.textEnd) :
    Good s.textEnd pos (Den.step E kd n (.lenprefix a b) s pos) := by
  simp only [Den.step]
  rcases under_down hk a { s with acc := false } pos hte hpos with hd | ⟨s0, hd, h0, ⟨e, h1, he⟩ | h1 | ⟨p, d, h1, hp1, hp2⟩⟩
  · simp [hd, Good, bind, Except.bind]
  · simp [hd, h1, Good, bind, Except.bind, he]
  · simp [hd, h1, Good, bind, Except.bind]
  · simp only [hd, h1, bind, Except.bind]
    cases d.caps.head? with
    | none => trivial
    | some v =>
      cases v <;> try trivial
      rename_i nrep
      simp only
      split
      · exact good_mono hp1 (lenLoop_good hk b s hte nrep.toNat p {} hp2)
      · trivial

/-- a child run under `down1` in a window narrowed to `we` -/
theorem under_window {E : Env} {kd : DK ρ} (hk : DSafe E kd) (r : ρ) (S : St) (we pos : Nat)
    (hwe : we ≤ E.text.length) (hpos : pos ≤ we) :
    (down1 { S with textEnd := we } = .error .depth) ∨
    (∃ s0, down1 { S with textEnd := we } = .ok s0 ∧
      ((∃ e, kd r s0 pos = .error e ∧ e ≠ .oob) ∨ kd r s0 pos = .ok none ∨
       ∃ p d, kd r s0 pos = .ok (some (p, d)) ∧ pos ≤ p ∧ p ≤ we)) := by
  rcases under_down hk r { S with textEnd := we } pos hwe hpos with hd | ⟨s0, hd, _, h⟩
  · left; exact hd
  · right; exact ⟨s0, hd, h⟩

theorem sub_good (E : Env) {kd : DK ρ} (hk : DSafe E kd) (n : Nat) (w r : ρ) (s : St) (pos : Nat)
    (hte : s.textEnd ≤ E.text.length) (hpos : pos ≤ s.textEnd) :
    Good s.textEnd pos (Den.step E kd n (.sub w r) s pos) := by
  simp only [Den.step]
  rcases under_down hk w s pos hte hpos with hd | ⟨s0, hd, h0, ⟨e, h1, he⟩ | h1 | ⟨we, d, h1, hp1, hp2⟩⟩
  · simp [hd, Good, bind, Except.bind]
  · simp [hd, h1, Good, bind, Except.bind, he]
  · simp [hd, h1, Good, bind, Except.bind]
  · simp only [hd, h1, bind, Except.bind]
    rcases under_window hk r (s.extend d) we pos (by omega) hp1 with gd | ⟨s3, gd, ⟨e, g1, ge⟩ | g1 | ⟨p2, d2, g1, _, _⟩⟩
    · simp [gd, Good]
    · simp [gd, g1, Good, ge]
    · simp [gd, g1, Good]
    · simp only [gd, g1]; exact ⟨hp1, hp2⟩

theorem tilLoop_good {E : Env} {kd : DK ρ} (hk : DSafe E kd) (t : ρ) (s0 : St) (pos0 : Nat) (hte : s0.textEnd ≤ E.text.length) :
    ∀ (n cur : Nat), pos0 ≤ cur → cur + n ≤ s0.textEnd + 1 →
      match Den.tilLoop kd t n s0 cur with
      | .error e => e ≠ .oob
      | .ok none => True
      | .ok (some (ts, te)) => pos0 ≤ ts ∧ ts ≤ te ∧ te ≤ s0.textEnd := by
  intro n
  induction n with
  | zero => intro cur _ _; simp [Den.tilLoop]
  | succ n ih =>
    intro cur h1 h2
    simp only [Den.tilLoop, bind, Except.bind]
    rcases dchild hk t s0 cur hte (by omega) with ⟨e, g1, ge⟩ | g1 | ⟨p2, d2, g1, gp1, gp2⟩
    · simp [g1, ge]
    · simp only [g1]; exact ih (cur + 1) (by omega) (by omega)
    · simp only [g1]; exact ⟨h1, gp1, gp2⟩

theorem til_good (E : Env) {kd : DK ρ} (hk : DSafe E kd) (n : Nat) (t r : ρ) (s : St) (pos : Nat)
    (hte : s.textEnd ≤ E.text.length) (hpos : pos ≤ s.textEnd) :
    Good s.textEnd pos (Den.step E kd n (.til t r) s pos) := by
  simp only [Den.step]
  rcases down1_cases s with hd | ⟨_, hd⟩
  · simp [hd, Good, bind, Except.bind]
  · simp only [hd, bind, Except.bind]
    have := tilLoop_good hk t { s with depth := s.depth - 1 } pos hte (s.textEnd + 1 - pos) pos (Nat.le_refl _) (by simp; omega)
    revert this
    cases Den.tilLoop kd t (s.textEnd + 1 - pos) { s with depth := s.depth - 1 } pos with
    | error e => exact id
    | ok v =>
      cases v with
      | none => intro _; trivial
      | some se =>
        obtain ⟨ts, te⟩ := se
        intro h
        simp only at h
        simp only
        rcases under_window hk r s ts pos (by omega) h.1 with gd | ⟨s3, gd, ⟨e, g1, ge⟩ | g1 | ⟨p2, d2, g1, _, _⟩⟩
        · simp [gd, Good]
        · simp [gd, g1, Good, ge]
        · simp [gd, g1, Good]
        · simp only [gd, g1]; exact ⟨by omega, h.2.2⟩

theorem splitFind_good {E : Env} {kd : DK ρ} (hk : DSafe E kd) (sep : ρ) (s0 : St) (lo : Nat) (hte : s0.textEnd ≤ E.text.length) :
    ∀ (n ce cur : Nat), lo ≤ ce → ce ≤ s0.textEnd → ce ≤ cur → cur + n = s0.textEnd + 1 →
      match Den.splitFind kd sep n s0 ce cur with
      | .error e => e ≠ .oob
      | .ok (ce', p') => lo ≤ ce' ∧ ce' ≤ s0.textEnd ∧ ce' ≤ p' := by
  intro n
  induction n with
  | zero => intro ce cur h1 h2 h3 _; simp only [Den.splitFind]; exact ⟨h1, h2, h3⟩
  | succ n ih =>
    intro ce cur h1 h2 h3 h4
    simp only [Den.splitFind, bind, Except.bind]
    rcases dchild hk sep s0 cur hte (by omega) with ⟨e, g1, ge⟩ | g1 | ⟨p2, d2, g1, gp1, gp2⟩
    · simp [g1, ge]
    · simp only [g1]; exact ih cur (cur + 1) (by omega) (by omega) (by omega) (by omega)
    · simp only [g1]; exact ⟨by omega, by omega, gp1⟩

theorem splitLoop_good {E : Env} {kd : DK ρ} (hk : DSafe E kd) (sep sub : ρ) (s : St) (pos0 : Nat)
    (hte : s.textEnd ≤ E.text.length) (hpos0 : pos0 ≤ s.textEnd) :
    ∀ (n pos : Nat) (d : Delta), Good s.textEnd pos0 (Den.splitLoop kd sep sub s.textEnd n s pos pos d) := by
  intro n
  induction n with
  | zero => intro pos d; simp [Den.splitLoop, Good]
  | succ n ih =>
    intro pos d
    simp only [Den.splitLoop]
    split
    · rename_i hp
      rcases down1_cases (s.extend d) with hd | ⟨_, hd⟩
      · simp [hd, Good, bind, Except.bind]
      · simp only [hd, bind, Except.bind]
        have := splitFind_good hk sep { s.extend d with depth := (s.extend d).depth - 1 } pos hte (s.textEnd + 1 - pos) pos pos
          (Nat.le_refl _) hp (Nat.le_refl _) (by simp [St.extend]; omega)
        revert this
        cases Den.splitFind kd sep (s.textEnd + 1 - pos) { s.extend d with depth := (s.extend d).depth - 1 } pos pos with
        | error e => exact id
        | ok v =>
          obtain ⟨ce, p'⟩ := v
          intro h
          simp only at h
          simp only
          rcases under_window hk sub (s.extend d) ce pos (by simp [St.extend] at h; omega) h.1 with gd | ⟨s3, gd, ⟨e, g1, ge⟩ | g1 | ⟨p2, d2, g1, _, _⟩⟩
          · simp [gd, Good]
          · simp [gd, g1, Good, ge]
          · simp [gd, g1, Good]
          · simp only [gd, g1]
            split
            · trivial
            · exact ih p' (d.append d2)
    · exact ⟨hpos0, Nat.le_refl _⟩

theorem split_good (E : Env) {kd : DK ρ} (hk : DSafe E kd) (n : Nat) (sep r : ρ) (s : St) (pos : Nat)
    (hte : s.textEnd ≤ E.text.length) (hpos : pos ≤ s.textEnd) :
    Good s.textEnd pos (Den.step E kd n (.split sep r) s pos) := by
  simp only [Den.step]
  exact splitLoop_good hk sep r s pos hte hpos n pos {}

/-- every opcode keeps reads inside the window and returns a position inside `[pos, text_end]` -/
theorem step_good (E : Env) {kd : DK ρ} (hk : DSafe E kd) (n : Nat) (i : Instr ρ) (s : St) (pos : Nat)
    (hte : s.textEnd ≤ E.text.length) (hpos : pos ≤ s.textEnd) :
    Good s.textEnd pos (Den.step E kd n i s pos) := by
  cases i with
  | literal _ => exact leaf_good E n _ s pos hte hpos trivial
  | nchar _ => exact leaf_good E n _ s pos hte hpos trivial
  | notnchar _ => exact leaf_good E n _ s pos hte hpos trivial
  | range _ _ => exact leaf_good E n _ s pos hte hpos trivial
  | set _ => exact leaf_good E n _ s pos hte hpos trivial
  | gettag _ _ => exact leaf_good E n _ s pos hte hpos trivial
  | position _ => exact leaf_good E n _ s pos hte hpos trivial
  | line _ => exact leaf_good E n _ s pos hte hpos trivial
  | column _ => exact leaf_good E n _ s pos hte hpos trivial
  | argument _ _ => exact leaf_good E n _ s pos hte hpos trivial
  | constant _ _ => exact leaf_good E n _ s pos hte hpos trivial
  | backmatch _ => exact leaf_good E n _ s pos hte hpos trivial
  | readint _ _ => exact leaf_good E n _ s pos hte hpos trivial
  | capture _ _ => exact wrap_good E hk n _ s pos hte hpos trivial
  | capturenum _ _ _ => exact wrap_good E hk n _ s pos hte hpos trivial
  | drop _ => exact wrap_good E hk n _ s pos hte hpos trivial
  | onlytags _ => exact wrap_good E hk n _ s pos hte hpos trivial
  | group _ _ => exact wrap_good E hk n _ s pos hte hpos trivial
  | nth _ _ _ => exact wrap_good E hk n _ s pos hte hpos trivial
  | replace _ _ _ => exact wrap_good E hk n _ s pos hte hpos trivial
  | matchtime _ _ _ => exact wrap_good E hk n _ s pos hte hpos trivial
  | error _ => exact wrap_good E hk n _ s pos hte hpos trivial
  | unref _ _ => exact wrap_good E hk n _ s pos hte hpos trivial
  | not _ => exact wrap_good E hk n _ s pos hte hpos trivial
  | look off r => exact look_good E hk n off r s pos hte hpos
  | accumulate r tag => exact accumulate_good E hk n r tag s pos hte hpos
  | if_ a b => exact if_good E hk n a b s pos hte hpos
  | ifnot a b => exact ifnot_good E hk n a b s pos hte hpos
  | choice rs => exact choice_good E hk n rs s pos hte hpos
  | sequence rs => exact sequence_good E hk n rs s pos hte hpos
  | to r => exact to_good E hk n r true s pos hte hpos
  | thru r => exact to_good E hk n r false s pos hte hpos
  | between lo hi r => exact between_good E hk n lo hi r s pos hte hpos
  | lenprefix a b => exact lenprefix_good E hk n a b s pos hte hpos
  | sub a b => exact sub_good E hk n a b s pos hte hpos
  | til a b => exact til_good E hk n a b s pos hte hpos
  | split a b => exact split_good E hk n a b s pos hte hpos

theorem run_good (E : Env) (fetch : ρ → Option (Instr ρ)) : ∀ fuel, DSafe E (Den.run E fetch fuel) := by
  intro fuel
  induction fuel with
  | zero => intro r s pos _ _; simp [Den.run, Good]
  | succ f ih =>
    intro r s pos hte hpos
    simp only [Den.run]
    cases fetch r with
    | none => simp [Good]
    | some i => exact step_good E ih (f + 1) i s pos hte hpos

end JanetModel.Peg
