/-
Operational model of `peg_rule` (peg.c:181-806), opcode by opcode, over decoded instructions.

* mutation of PegState      -> the state `St` is threaded and returned, also on failure (the C leaves
                               "extra captures from successful child expressions" on the stacks when a rule fails)
* `return NULL`             -> `.ok (none, s)`
* `janet_panic` (longjmp)   -> `.error e`
* `goto tail`               -> a call of the child runner without `down1`/`up1`
* `down1` / `up1`           -> `down1` / `up1` on `St.depth`
* recursion                 -> the child runner `k` (= `run fuel`), loops get the Lean fuel `n`
Core Lean only.
-/
import JanetModel.Peg.Basic

namespace JanetModel.Peg

abbrev ORes := Except Err (Option Nat × St)
/-- child runner: rule reference → state → text position → result -/
abbrev OK (ρ : Type) := ρ → St → Nat → ORes

def down1 (s : St) : Except Err St :=
  if s.depth ≤ 1 then .error .depth else .ok { s with depth := s.depth - 1 }

def up1 (s : St) : St := { s with depth := s.depth + 1 }

namespace Op
variable {ρ : Type}

/-- RULE_CHOICE loop over all alternatives but the last; `cs` was saved before the loop -/
def choiceLoop (k : OK ρ) (cs : CapState) : List ρ → St → Nat → ORes
  | [], s, _ => .ok (none, s)          -- unreachable (len = 0 handled by caller)
  | [r], s, pos => k r (up1 s) pos     -- up1; goto tail
  | r :: rs, s, pos => do
    let (res, s1) ← k r s pos
    match res with
    | some p => .ok (some p, up1 s1)
    | none => choiceLoop k cs rs (capLoad s1 cs) pos

/-- RULE_SEQUENCE loop over all elements but the last -/
def seqLoop (k : OK ρ) : List ρ → St → Nat → ORes
  | [], s, pos => .ok (some pos, s)    -- unreachable
  | [r], s, pos => k r (up1 s) pos     -- up1; goto tail
  | r :: rs, s, pos => do
    let (res, s1) ← k r s pos
    match res with
    | some p => seqLoop k rs s1 p
    | none => .ok (none, up1 s1)

/-- RULE_TO / RULE_THRU scanning loop; `n` = remaining positions (text_end + 1 - text) -/
def toLoop (k : OK ρ) (r : ρ) (isTo : Bool) (cs : CapState) : Nat → St → Nat → ORes
  | 0, s, _ => .ok (none, capLoad (up1 s) cs)         -- text > text_end: cap_load(s, cs); return NULL
  | n + 1, s, pos => do
    let cs2 := capSave s
    let (res, s1) ← k r s pos
    match res with
    | some p =>
      if isTo then .ok (some pos, up1 (capLoad s1 cs2)) else .ok (some p, up1 s1)
    | none => toLoop k r isTo cs n (capLoad s1 cs2) (pos + 1)

/-- RULE_BETWEEN loop; `n` is Lean fuel -/
def betweenLoop (k : OK ρ) (r : ρ) (hi : Nat) : Nat → Nat → St → Nat → Except Err (Nat × Nat × St)
  | 0, _, _, _ => .error .fuel
  | n + 1, captured, s, pos =>
    if captured < hi then do
      let cs2 := capSave s
      let (res, s1) ← k r s pos
      match res with
      | none => .ok (captured, pos, capLoad s1 cs2)
      | some p =>
        if p == pos ∧ hi == uintMax then .ok (captured, pos, capLoad s1 cs2)
        else betweenLoop k r hi n (captured + 1) s1 p
    else .ok (captured, pos, s)

/-- RULE_LENPREFIX repetition loop -/
def lenLoop (k : OK ρ) (r : ρ) (cs : CapState) : Nat → St → Nat → ORes
  | 0, s, pos => .ok (some pos, s)
  | n + 1, s, pos => do
    let s0 ← down1 s
    let (res, s1) ← k r s0 pos
    let s2 := up1 s1
    match res with
    | none => .ok (none, capLoad s2 cs)
    | some p => lenLoop k r cs n s2 p

/-- RULE_TIL: search for the terminus; `n` = text_end + 1 - terminus_start.  Returns (terminus_start, terminus_end). -/
def tilLoop (k : OK ρ) (r : ρ) : Nat → St → Nat → Except Err (Option (Nat × Nat) × St)
  | 0, s, _ => .ok (none, s)
  | n + 1, s, pos => do
    let cs2 := capSave s
    let (res, s1) ← k r s pos
    let s2 := capLoad s1 cs2
    match res with
    | some e => .ok (some (pos, e), s2)
    | none => tilLoop k r n s2 (pos + 1)

/-- RULE_SPLIT inner loop: find the next separator.  `n` = saved_end + 1 - text.
    Returns (chunk_end, text) where text is after the separator, or saved_end + 1 when none was found. -/
def splitFind (k : OK ρ) (sep : ρ) (cs : CapState) : Nat → St → Nat → Nat → Except Err (Nat × Nat × St)
  | 0, s, chunkEnd, pos => .ok (chunkEnd, pos, s)
  | n + 1, s, _, pos => do
    let (res, s1) ← k sep s pos
    let s2 := capLoad s1 cs
    match res with
    | some c => .ok (pos, c, s2)
    | none => splitFind k sep cs n s2 pos (pos + 1)

/-- RULE_SPLIT outer loop; `n` is Lean fuel -/
def splitLoop (k : OK ρ) (sep sub : ρ) (savedEnd : Nat) : Nat → St → Nat → Nat → ORes
  | 0, _, _, _ => .error .fuel
  | n + 1, s, chunkStart, pos =>
    if pos ≤ savedEnd then do
      let cs := capSave s
      let s0 ← down1 s
      let (chunkEnd, pos', s1) ← splitFind k sep cs (savedEnd + 1 - pos) s0 pos pos
      let s2 := up1 s1
      let s3 : St := { s2 with textEnd := chunkEnd }
      let s4 ← down1 s3
      let (res, s5) ← k sub s4 chunkStart
      let s6 : St := { up1 s5 with textEnd := savedEnd }
      match res with
      | none => .ok (none, s6)
      | some _ =>
        if pos' == chunkStart then .ok (none, s6)
        else splitLoop k sep sub savedEnd n s6 pos' pos'
    else .ok (some savedEnd, { s with textEnd := savedEnd })

/-- the value computed by RULE_REPLACE / RULE_MATCHTIME from the constant -/
def replaceValue (v : Val) (s : St) (cs : CapState) : Except Err Val :=
  match v with
  | .struct kvs => .ok (match s.caps.getLast? with | some c => structGet kvs c | none => .nil)
  | .fn name => applyFn name (s.caps.drop cs.cap)
  | v => .ok v

/-- One opcode of `peg_rule`.  `k` runs a sub-rule, `n` is the Lean fuel available to loops. -/
def step (E : Env) (k : OK ρ) (n : Nat) (i : Instr ρ) (s : St) (pos : Nat) : ORes :=
  match i with
  | .literal bytes =>
    if pos + bytes.length > s.textEnd then .ok (none, s)
    else do
      let t ← E.slice s pos (pos + bytes.length)
      .ok (if t == bytes then some (pos + bytes.length) else none, s)
  | .nchar c => .ok (if pos + c > s.textEnd then none else some (pos + c), s)
  | .notnchar c => .ok (if pos + c > s.textEnd then some pos else none, s)
  | .range lo hi =>
    if pos < s.textEnd then do
      let b ← E.byte s pos
      .ok (if lo ≤ b ∧ b ≤ hi then some (pos + 1) else none, s)
    else .ok (none, s)
  | .set bm =>
    if pos ≥ s.textEnd then .ok (none, s)
    else do
      let b ← E.byte s pos
      let word := bm.getD (b / 32) 0
      .ok (if (word / 2 ^ (b % 32)) % 2 == 1 then some (pos + 1) else none, s)
  | .look off r =>
    let t : Int := (pos : Int) + off
    if t < 0 ∨ t > (s.textEnd : Int) then .ok (none, s)
    else do
      let s0 ← down1 s
      let (res, s1) ← k r s0 t.toNat
      .ok (res.map (fun _ => pos), up1 s1)
  | .choice rs =>
    if rs.isEmpty then .ok (none, s)
    else do
      let s0 ← down1 s
      choiceLoop k (capSave s0) rs s0 pos
  | .sequence rs =>
    if rs.isEmpty then .ok (some pos, s)
    else do
      let s0 ← down1 s
      seqLoop k rs s0 pos
  | .if_ a b => do
    let s0 ← down1 s
    let (res, s1) ← k a s0 pos
    let s2 := up1 s1
    match res with
    | none => .ok (none, s2)
    | some _ => k b s2 pos
  | .ifnot a b => do
    let s0 ← down1 s
    let cs := capSave s0
    let (res, s1) ← k a s0 pos
    match res with
    | some _ => .ok (none, up1 s1)
    | none => k b (up1 (capLoad s1 cs)) pos
  | .not a => do
    let s0 ← down1 s
    let cs := capSave s0
    let (res, s1) ← k a s0 pos
    match res with
    | some _ => .ok (none, up1 s1)
    | none => .ok (some pos, up1 (capLoad s1 cs))
  | .to r => do
    let cs := capSave s
    let s0 ← down1 s
    toLoop k r true cs (s.textEnd + 1 - pos) s0 pos
  | .thru r => do
    let cs := capSave s
    let s0 ← down1 s
    toLoop k r false cs (s.textEnd + 1 - pos) s0 pos
  | .between lo hi r => do
    let cs := capSave s
    let s0 ← down1 s
    let (captured, p, s1) ← betweenLoop k r hi n 0 s0 pos
    let s2 := up1 s1
    if captured < lo then .ok (none, capLoad s2 cs) else .ok (some p, s2)
  | .gettag search tag =>
    match findTag s.tagged search with
    | some v => .ok (some pos, pushcap E s v tag)
    | none => .ok (none, s)
  | .position tag => .ok (some pos, pushcap E s (.int pos) tag)
  | .line tag => .ok (some pos, pushcap E s (.int (lineCol E.text pos).1) tag)
  | .column tag => .ok (some pos, pushcap E s (.int (lineCol E.text pos).2) tag)
  | .argument idx tag => .ok (some pos, pushcap E s (E.args.getD idx .nil) tag)
  | .constant v tag => .ok (some pos, pushcap E s v tag)
  | .capture r tag => do
    let s0 ← down1 s
    let (res, s1) ← k r s0 pos
    let s2 := up1 s1
    match res with
    | none => .ok (none, s2)
    | some p => do
      let t ← E.slice s2 pos p
      if !E.hasBackref ∧ s2.acc then .ok (some p, { s2 with scratch := s2.scratch ++ t })
      else .ok (some p, pushcap E s2 (.str t) tag)
  | .capturenum r base tag => do
    let s0 ← down1 s
    let (res, s1) ← k r s0 pos
    let s2 := up1 s1
    match res with
    | none => .ok (none, s2)
    | some p => do
      let t ← E.slice s2 pos p
      match scanNumber t base with
      | none => .ok (none, s2)
      | some x =>
        if E.numRaw ∧ !E.hasBackref ∧ s2.acc then .ok (some p, { s2 with scratch := s2.scratch ++ t })
        else .ok (some p, pushcap E s2 x tag)
  | .accumulate r tag =>
    if tag == 0 ∧ s.acc then k r s pos      -- goto tail
    else do
      let oldmode := s.acc
      let cs := capSave s
      let s0 ← down1 { s with acc := true }
      let (res, s1) ← k r s0 pos
      let s2 : St := { up1 s1 with acc := oldmode }
      match res with
      | none => .ok (none, s2)
      | some p =>
        let cap := Val.str (s2.scratch.drop cs.scratch)
        .ok (some p, pushcap E (capLoadKeept s2 cs) cap tag)
  | .drop r => do
    let cs := capSave s
    let s0 ← down1 s
    let (res, s1) ← k r s0 pos
    let s2 := up1 s1
    match res with
    | none => .ok (none, s2)
    | some p => .ok (some p, capLoad s2 cs)
  | .onlytags r => do
    let cs := capSave s
    let s0 ← down1 s
    let (res, s1) ← k r s0 pos
    let s2 := up1 s1
    match res with
    | none => .ok (none, s2)
    | some p => .ok (some p, capLoadKeept s2 cs)
  | .group r tag => do
    let oldmode := s.acc
    let cs := capSave s
    let s0 ← down1 { s with acc := false }
    let (res, s1) ← k r s0 pos
    let s2 : St := { up1 s1 with acc := oldmode }
    match res with
    | none => .ok (none, s2)
    | some p =>
      let sub := s2.caps.drop cs.cap
      .ok (some p, pushcap E (capLoadKeept s2 cs) (.arr sub) tag)
  | .nth nth r tag => do
    let nth := if nth > int32Max then int32Max else nth
    let oldmode := s.acc
    let cs := capSave s
    let s0 ← down1 { s with acc := false }
    let (res, s1) ← k r s0 pos
    let s2 : St := { up1 s1 with acc := oldmode }
    match res with
    | none => .ok (none, s2)
    | some p =>
      match (s2.caps.drop cs.cap)[nth]? with
      | none => .ok (none, s2)
      | some cap => .ok (some p, pushcap E (capLoadKeept s2 cs) cap tag)
  | .sub w r => do
    let s0 ← down1 s
    let (res, s1) ← k w s0 pos
    let s2 := up1 s1
    match res with
    | none => .ok (none, s2)
    | some windowEnd => do
      let savedEnd := s2.textEnd
      let s3 ← down1 { s2 with textEnd := windowEnd }
      let (res2, s4) ← k r s3 pos
      let s5 : St := { up1 s4 with textEnd := savedEnd }
      match res2 with
      | none => .ok (none, s5)
      | some _ => .ok (some windowEnd, s5)
  | .til t r => do
    let s0 ← down1 s
    let (found, s1) ← tilLoop k t (s.textEnd + 1 - pos) s0 pos
    let s2 := up1 s1
    match found with
    | none => .ok (none, s2)
    | some (termStart, termEnd) => do
      let savedEnd := s2.textEnd
      let s3 ← down1 { s2 with textEnd := termStart }
      let (res2, s4) ← k r s3 pos
      let s5 : St := { up1 s4 with textEnd := savedEnd }
      match res2 with
      | none => .ok (none, s5)
      | some _ => .ok (some termEnd, s5)
  | .split sep r => splitLoop k sep r s.textEnd n s pos pos
  | .replace r v tag => do
    let oldmode := s.acc
    let cs := capSave s
    let s0 ← down1 { s with acc := false }
    let (res, s1) ← k r s0 pos
    let s2 : St := { up1 s1 with acc := oldmode }
    match res with
    | none => .ok (none, s2)
    | some p => do
      callGuard E s.depth v      -- s->depth at the call = depth on entry (down1 / up1 above are balanced)
      let cap ← replaceValue v s2 cs
      .ok (some p, pushcap E (capLoadKeept s2 cs) cap tag)
  | .matchtime r v tag => do
    let oldmode := s.acc
    let cs := capSave s
    let s0 ← down1 { s with acc := false }
    let (res, s1) ← k r s0 pos
    let s2 : St := { up1 s1 with acc := oldmode }
    match res with
    | none => .ok (none, s2)
    | some p => do
      callGuard E s.depth v      -- s->depth at the call = depth on entry (down1 / up1 above are balanced)
      let cap ← replaceValue v s2 cs
      let s3 := capLoadKeept s2 cs
      if truthy cap then .ok (some p, pushcap E s3 cap tag) else .ok (none, s3)
  | .error r => do
    let oldmode := s.acc
    let oldCap := s.caps.length
    let s0 ← down1 { s with acc := false }
    let (res, s1) ← k r s0 pos
    let s2 : St := { up1 s1 with acc := oldmode }
    match res with
    | none => .ok (none, s2)
    | some _ =>
      if s2.caps.length > oldCap then
        match s2.caps.getLast? with
        | some v => .error (.user v)
        | none => .error .badop
      else
        let lc := lineCol E.text pos
        .error (.matchErr lc.1 lc.2)
  | .backmatch search =>
    match findTag s.tagged search with
    | some (.str bytes) =>
      if pos + bytes.length > s.textEnd then .ok (none, s)
      else do
        let t ← E.slice s pos (pos + bytes.length)
        .ok (if t == bytes then some (pos + bytes.length) else none, s)
    | _ => .ok (none, s)
  | .lenprefix a b => do
    let oldmode := s.acc
    let cs := capSave s
    let s0 ← down1 { s with acc := false }
    let (res, s1) ← k a s0 pos
    let s2 := up1 s1
    match res with
    | none =>
      -- pinned tree: `if (NULL == next_text) return NULL;` comes before `s->mode = oldmode;`
      .ok (none, if E.lenprefixLeak then s2 else { s2 with acc := oldmode })
    | some p =>
      let s3 : St := { s2 with acc := oldmode }
      match (s3.caps.drop cs.cap).head? with
      | some (.int nrep) =>
        if checkint nrep then lenLoop k b cs nrep.toNat (capLoad s3 cs) p else .ok (none, capLoad s3 cs)
      | _ => .ok (none, capLoad s3 cs)
  | .readint flags tag =>
    let width := flags % 16
    if pos + width > s.textEnd then .ok (none, s)
    else do
      let t ← E.slice s pos (pos + width)
      .ok (some (pos + width), pushcap E s (readintVal t flags) tag)
  | .unref r tag => do
    let tcap := s.tagged.length
    let s0 ← down1 s
    let (res, s1) ← k r s0 pos
    let s2 := up1 s1
    match res with
    | none => .ok (none, s2)
    | some p =>
      let kept := if tag != 0 then (s2.tagged.drop tcap).filter (fun tv => tv.1 != tag % 256) else []
      .ok (some p, { s2 with tagged := s2.tagged.take tcap ++ kept })

/-- `peg_rule(s, rule, text)`: fetch the instruction at `r` and execute it; recursion through `run fuel`. -/
def run (E : Env) (fetch : ρ → Option (Instr ρ)) : Nat → OK ρ
  | 0, _, _, _ => .error .fuel
  | fuel + 1, r, s, pos =>
    match fetch r with
    | none => .error .badop
    | some i => step E (run E fetch fuel) (fuel + 1) i s pos

end Op
end JanetModel.Peg
