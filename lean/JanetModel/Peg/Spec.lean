/-
Semantics of SOURCE grammars: the documented meaning of each PEG combinator (janet-lang.org/docs/peg.html),
given by reading every source form as one instruction of the denotational semantics `Den` whose sub-rules are the
sub-forms themselves (no compilation, no addresses, no rule cache):

  "abc"                 literal            3 / -3        exactly n bytes / fewer than n bytes left
  true / false          always / never     :name         the rule bound to :name in the innermost enclosing grammar
  (range "az" ..)       one byte in a range               (set "abc")   one byte of the set
  (any p) (some p) (opt p) (at-least n p) (at-most n p) (repeat n p) (n p) (between lo hi p)
                        greedy repetition with bounds; any/some/at-least stop on an empty iteration
  (to p) (thru p) (if c p) (if-not c p) (not p) (look off p) (sub w p) (split sep p) (til t p) (lenprefix n p)
  (capture p ?tag) (accumulate p ?tag) (group p ?tag) (replace p subst ?tag) (cmt p f ?tag) (constant v ?tag)
  (argument n ?tag) (position ?tag) (line ?tag) (column ?tag) (backref tag ?tag) (backmatch ?tag) (unref p ?tag)
  (drop p) (only-tags p) (nth i p ?tag) (error ?p) (number p ?base ?tag) (int n) (uint n) (int-be n) (uint-be n)
  {:main ... :a ...}    nested grammar (lexical scope for keyword references)

Where the prose documentation is silent or differs, the observed behaviour of the pinned implementation is followed
and noted in notes/C12.md (e.g. captures made by the condition of `if` and by `look` are kept).
Core Lean only.
-/
import JanetModel.Peg.Den

namespace JanetModel.Peg.Spec
open JanetModel.Peg

inductive Patt
  | str (b : List Nat)
  | int (n : Int)
  | bool (b : Bool)
  | ref (name : String)
  | range (rs : List (Nat × Nat))
  | set (chars : List Nat)
  | look (off : Int) (p : Patt)
  | choice (ps : List Patt)
  | seq (ps : List Patt)
  | if_ (c p : Patt)
  | ifnot (c p : Patt)
  | not (p : Patt)
  | any (p : Patt)
  | some (p : Patt)
  | opt (p : Patt)
  | between (lo hi : Nat) (p : Patt)
  | atleast (n : Nat) (p : Patt)
  | atmost (n : Nat) (p : Patt)
  | repeat_ (n : Nat) (p : Patt)
  | to (p : Patt)
  | thru (p : Patt)
  | capture (p : Patt) (tag : Nat)
  | accumulate (p : Patt) (tag : Nat)
  | group (p : Patt) (tag : Nat)
  | drop (p : Patt)
  | onlytags (p : Patt)
  | replace (p : Patt) (subst : Val) (tag : Nat)
  | cmt (p : Patt) (f : Val) (tag : Nat)
  | constant (v : Val) (tag : Nat)
  | argument (n : Nat) (tag : Nat)
  | position (tag : Nat)
  | line (tag : Nat)
  | column (tag : Nat)
  | backref (search tag : Nat)
  | backmatch (tag : Nat)
  | unref (p : Patt) (tag : Nat)
  | nth (n : Nat) (p : Patt) (tag : Nat)
  | error (p : Option Patt)
  | lenprefix (n p : Patt)
  | sub (w p : Patt)
  | split (sep p : Patt)
  | til (t p : Patt)
  | readint (width : Nat) (signed be : Bool) (tag : Nat)
  | number (p : Patt) (base : Nat) (tag : Nat)
  | grammar (rules : List (String × Patt))

abbrev Scope := List (String × Patt)

/-- a form together with the grammars it is lexically inside of (innermost first) -/
structure Closure where
  scopes : List Scope
  patt : Patt

def lookupScope (sc : Scope) (name : String) : Option Patt := (sc.find? (fun kv => kv.1 == name)).map (·.2)

/-- resolve `:name`: innermost grammar that binds it; the bound form lives in the scope chain from there outwards -/
def resolve : List Scope → String → Option Closure
  | [], _ => none
  | sc :: rest, name =>
    match lookupScope sc name with
    | some p => some ⟨sc :: rest, p⟩
    | none => resolve rest name

def bitmapOf (mem : Nat → Bool) : List Nat :=
  (List.range 8).map (fun w => ((List.range 32).map (fun b => if mem (w * 32 + b) then 2 ^ b else 0)).foldl (· + ·) 0)

/-- One source form as an instruction over closures.  Keyword references are LEXICALLY scoped: the rule bound to a name
    is read in the grammar in which it was found (`resolve` returns the scope chain from there outwards).  `chain` bounds keyword → keyword reference chains
    (the compiler gives up after JANET_RECURSION_GUARD links). -/
def fetchN (dflt : Scope) : Nat → Closure → Option (Instr Closure)
  | 0, _ => none
  | chain + 1, ⟨sc, p⟩ =>
    let cl (q : Patt) : Closure := ⟨sc, q⟩
    match p with
    | .str b => some (.literal b)
    | .int n => some (if n < 0 then .notnchar (-n).toNat else .nchar n.toNat)
    | .bool true => some (.nchar 0)
    | .bool false => some (.notnchar 0)
    | .ref name =>
      match resolve sc name with
      | some c => fetchN dflt chain c
      | none =>
        -- `(dyn :peg-grammar)`: observed behaviour: a default rule's body is read in the scope of the REFERENCE
        -- (so a user rule :d changes what the default :d+ = (some :d) means); user rules are lexically scoped
        match lookupScope dflt name with
        | some p => fetchN dflt chain ⟨sc, p⟩
        | none => none
    | .grammar rules =>
      match lookupScope rules "main" with
      | some m => fetchN dflt chain ⟨rules :: sc, m⟩
      | none => none
    | .range [(lo, hi)] => some (.range lo hi)
    | .range rs => some (.set (bitmapOf (fun c => rs.any (fun r => r.1 ≤ c ∧ c ≤ r.2))))
    | .set chars => some (.set (bitmapOf (fun c => chars.contains c)))
    | .look off q => some (.look off (cl q))
    | .choice ps => some (.choice (ps.map cl))
    | .seq ps => some (.sequence (ps.map cl))
    | .if_ c q => some (.if_ (cl c) (cl q))
    | .ifnot c q => some (.ifnot (cl c) (cl q))
    | .not q => some (.not (cl q))
    | .any q => some (.between 0 uintMax (cl q))
    | .some q => some (.between 1 uintMax (cl q))
    | .opt q => some (.between 0 1 (cl q))
    | .between lo hi q => some (.between lo hi (cl q))
    | .atleast n q => some (.between n uintMax (cl q))
    | .atmost n q => some (.between 0 n (cl q))
    | .repeat_ n q => some (.between n n (cl q))
    | .to q => some (.to (cl q))
    | .thru q => some (.thru (cl q))
    | .capture q tag => some (.capture (cl q) tag)
    | .accumulate q tag => some (.accumulate (cl q) tag)
    | .group q tag => some (.group (cl q) tag)
    | .drop q => some (.drop (cl q))
    | .onlytags q => some (.onlytags (cl q))
    | .replace q v tag => some (.replace (cl q) v tag)
    | .cmt q f tag => some (.matchtime (cl q) f tag)
    | .constant v tag => some (.constant v tag)
    | .argument n tag => some (.argument n tag)
    | .position tag => some (.position tag)
    | .line tag => some (.line tag)
    | .column tag => some (.column tag)
    | .backref search tag => some (.gettag search tag)
    | .backmatch tag => some (.backmatch tag)
    | .unref q tag => some (.unref (cl q) tag)
    | .nth n q tag => some (.nth n (cl q) tag)
    | .error none => some (.error (cl (.int 0)))
    | .error (some q) => some (.error (cl q))
    | .lenprefix n q => some (.lenprefix (cl n) (cl q))
    | .sub w q => some (.sub (cl w) (cl q))
    | .split sep q => some (.split (cl sep) (cl q))
    | .til t q => some (.til (cl t) (cl q))
    | .readint width signed be tag =>
      some (.readint (width + (if signed then 16 else 0) + (if be then 32 else 0)) tag)
    | .number q base tag => some (.capturenum (cl q) base tag)

/-- `dflt` = the default grammar `(dyn :peg-grammar)` -/
def fetch (dflt : Scope) (c : Closure) : Option (Instr Closure) := fetchN dflt 1024 c

end JanetModel.Peg.Spec
