/-
`has_backref` is unobservable when no reachable instruction reads the tag stack.

peg.c records tagged captures (`s->tags`, `s->tagged_captures`) only when the compiled grammar contains a back-reference
(`has_backref`, set by spec_reference / spec_backmatch); the documented meaning (Spec) always records them.  Here: for two
environments that differ at most in `hasBackref`, and a set `R` of rules closed under sub-rule operands in which no instruction
is RULE_GETTAG / RULE_BACKMATCH, the denotations agree on everything but the tagged captures: same error, same failure, same end
position, same captures, same accumulated text - from states that agree on everything but the tag stack.  Needs
`numRaw = false` (the pinned tree's RULE_CAPTURE_NUM defect made the flag observable: Tie.number_capture_not_raw).
-/
import JanetModel.Peg.Den
import JanetModel.Peg.Entry
import JanetModel.Peg.Compile

namespace JanetModel.Peg.Backref
open JanetModel.Peg

variable {ρ : Type}

/-- same state up to the tag stack -/
structure StEq (a b : St) : Prop where
  caps : b.caps = a.caps
  scratch : b.scratch = a.scratch
  acc : b.acc = a.acc
  textEnd : b.textEnd = a.textEnd
  depth : b.depth = a.depth

/-- same delta up to tagged captures -/
structure DEq (a b : Delta) : Prop where
  caps : b.caps = a.caps
  scratch : b.scratch = a.scratch

/-- same environment up to `hasBackref` (and the lenprefix flag, which the denotation does not read) -/
structure EnvEq (E E' : Env) : Prop where
  text : E'.text = E.text
  args : E'.args = E.args
  stackn : E'.stackn = E.stackn
  raw : E.numRaw = false
  raw' : E'.numRaw = false

/-- same result up to tagged captures -/
def REq (a b : DRes) : Prop :=
  (∃ e, a = .error e ∧ b = .error e) ∨ (a = .ok none ∧ b = .ok none) ∨
    (∃ p d d', a = .ok (some (p, d)) ∧ b = .ok (some (p, d')) ∧ DEq d d')

def KEq (R : ρ → Prop) (k k' : DK ρ) : Prop :=
  ∀ r, R r → ∀ s s' pos, StEq s s' → REq (k r s pos) (k' r s' pos)

theorem StEq.refl (s : St) : StEq s s := ⟨rfl, rfl, rfl, rfl, rfl⟩
theorem DEq.refl (d : Delta) : DEq d d := ⟨rfl, rfl⟩
theorem DEq.nil_left (d : Delta) (h1 : d.caps = []) (h2 : d.scratch = []) : DEq {} d := ⟨h1, h2⟩

theorem StEq.up1 {s s' : St} (h : StEq s s') : StEq (up1 s) (up1 s') :=
  ⟨h.caps, h.scratch, h.acc, h.textEnd, by simp [JanetModel.Peg.up1, h.depth]⟩

theorem StEq.extend {s s' : St} {d d' : Delta} (h : StEq s s') (hd : DEq d d') : StEq (s.extend d) (s'.extend d') :=
  ⟨by simp [St.extend, h.caps, hd.caps], by simp [St.extend, h.scratch, hd.scratch], h.acc, h.textEnd, h.depth⟩

theorem StEq.withAcc {s s' : St} (h : StEq s s') (m : Bool) : StEq { s with acc := m } { s' with acc := m } :=
  ⟨h.caps, h.scratch, rfl, h.textEnd, h.depth⟩

theorem StEq.withEnd {s s' : St} (h : StEq s s') (e : Nat) : StEq { s with textEnd := e } { s' with textEnd := e } :=
  ⟨h.caps, h.scratch, h.acc, rfl, h.depth⟩

theorem DEq.append {a a' b b' : Delta} (h1 : DEq a a') (h2 : DEq b b') : DEq (a.append b) (a'.append b') :=
  ⟨by simp [Delta.append, h1.caps, h2.caps], by simp [Delta.append, h1.scratch, h2.scratch]⟩

theorem down1_eq {s s' : St} (h : StEq s s') :
    (∃ e, down1 s = .error e ∧ down1 s' = .error e) ∨ (∃ s0 s0', down1 s = .ok s0 ∧ down1 s' = .ok s0' ∧ StEq s0 s0') := by
  unfold down1
  rw [h.depth]
  by_cases hd : s.depth ≤ 1
  · left; exact ⟨.depth, by simp [hd], by simp [hd]⟩
  · right
    exact ⟨{ s with depth := s.depth - 1 }, { s' with depth := s.depth - 1 }, by simp [hd], by simp [hd],
      ⟨h.caps, h.scratch, h.acc, h.textEnd, rfl⟩⟩

theorem slice_eq {E E' : Env} (hE : EnvEq E E') {s s' : St} (h : StEq s s') (a b : Nat) : E'.slice s' a b = E.slice s a b := by
  simp [Env.slice, hE.text, h.textEnd]

theorem byte_eq {E E' : Env} (hE : EnvEq E E') {s s' : St} (h : StEq s s') (a : Nat) : E'.byte s' a = E.byte s a := by
  simp [Env.byte, hE.text, h.textEnd]

theorem push_deq (E E' : Env) (m : Bool) (v : Val) (tag : Nat) : DEq (pushDelta E m v tag) (pushDelta E' m v tag) :=
  ⟨rfl, rfl⟩

theorem REq.same (a : DRes) : REq a a := by
  cases a with
  | error e => exact .inl ⟨e, rfl, rfl⟩
  | ok v =>
    cases v with
    | none => exact .inr (.inl ⟨rfl, rfl⟩)
    | some pd => exact .inr (.inr ⟨pd.1, pd.2, pd.2, rfl, rfl, DEq.refl _⟩)

theorem capture_deq (F G : Env) (acc : Bool) (t : List Nat) (tag : Nat) {d d' : Delta} (hd : DEq d d') :
    DEq (if !F.hasBackref ∧ acc then d.append { scratch := t } else d.append (pushDelta F acc (.str t) tag))
      (if !G.hasBackref ∧ acc then d'.append { scratch := t } else d'.append (pushDelta G acc (.str t) tag)) := by
  constructor <;> cases acc <;> cases hF : F.hasBackref <;> cases hG : G.hasBackref <;>
    simp [Delta.append, pushDelta, toStr, hd.caps, hd.scratch]

theorem ite_ok {c : Prop} [Decidable c] (p : Nat) (A B : Delta) :
    (if c then (Except.ok (some (p, A)) : DRes) else .ok (some (p, B))) = .ok (some (p, if c then A else B)) := by
  split <;> rfl

theorem REq.err (e : Err) : REq (.error e) (.error e) := .inl ⟨e, rfl, rfl⟩
theorem REq.none : REq (.ok none) (.ok none) := .inr (.inl ⟨rfl, rfl⟩)
theorem REq.some (p : Nat) {d d' : Delta} (h : DEq d d') : REq (.ok (some (p, d))) (.ok (some (p, d'))) :=
  .inr (.inr ⟨p, d, d', rfl, rfl, h⟩)

/-- the three outcomes of a sub-rule call -/
theorem child {R : ρ → Prop} {k k' : DK ρ} (hk : KEq R k k') {r : ρ} (hr : R r) {s s' : St} (hs : StEq s s') (pos : Nat) :
    (∃ e, k r s pos = .error e ∧ k' r s' pos = .error e) ∨ (k r s pos = .ok none ∧ k' r s' pos = .ok none) ∨
      (∃ p d d', k r s pos = .ok (some (p, d)) ∧ k' r s' pos = .ok (some (p, d')) ∧ DEq d d') := hk r hr s s' pos hs

/-! ### loops -/

theorem choiceLoop_eq {R : ρ → Prop} {k k' : DK ρ} (hk : KEq R k k') :
    ∀ (rs : List ρ), (∀ r ∈ rs, R r) → ∀ s s' pos, StEq s s' → REq (Den.choiceLoop k rs s pos) (Den.choiceLoop k' rs s' pos)
  | [], _, _, _, _, _ => by simp [Den.choiceLoop]; exact REq.none
  | [r], hR, s, s', pos, hs => by
    simp only [Den.choiceLoop]
    exact hk r (hR r (by simp)) _ _ pos hs.up1
  | r :: r2 :: rs, hR, s, s', pos, hs => by
    simp only [Den.choiceLoop]
    rcases child hk (hR r (by simp)) hs pos with ⟨e, h1, h2⟩ | ⟨h1, h2⟩ | ⟨p, d, d', h1, h2, hd⟩
    · simp [h1, h2, bind, Except.bind]; exact REq.err e
    · simp only [h1, h2, bind, Except.bind]
      exact choiceLoop_eq hk (r2 :: rs) (fun x hx => hR x (by simp [hx])) s s' pos hs
    · simp [h1, h2, bind, Except.bind]; exact REq.some p hd

theorem seqLoop_eq {R : ρ → Prop} {k k' : DK ρ} (hk : KEq R k k') :
    ∀ (rs : List ρ), (∀ r ∈ rs, R r) → ∀ s s' pos d d', StEq s s' → DEq d d' →
      REq (Den.seqLoop k rs s pos d) (Den.seqLoop k' rs s' pos d')
  | [], _, _, _, pos, _, _, _, hd => by simp [Den.seqLoop]; exact REq.some pos hd
  | [r], hR, s, s', pos, d, d', hs, hd => by
    simp only [Den.seqLoop]
    rcases child hk (hR r (by simp)) (hs.extend hd).up1 pos with ⟨e, h1, h2⟩ | ⟨h1, h2⟩ | ⟨p, d2, d2', h1, h2, hd2⟩
    · simp [h1, h2, bind, Except.bind]; exact REq.err e
    · simp [h1, h2, bind, Except.bind]; exact REq.none
    · simp [h1, h2, bind, Except.bind]; exact REq.some p (hd.append hd2)
  | r :: r2 :: rs, hR, s, s', pos, d, d', hs, hd => by
    simp only [Den.seqLoop]
    rcases child hk (hR r (by simp)) (hs.extend hd) pos with ⟨e, h1, h2⟩ | ⟨h1, h2⟩ | ⟨p, d2, d2', h1, h2, hd2⟩
    · simp [h1, h2, bind, Except.bind]; exact REq.err e
    · simp [h1, h2, bind, Except.bind]; exact REq.none
    · simp only [h1, h2, bind, Except.bind]
      exact seqLoop_eq hk (r2 :: rs) (fun x hx => hR x (by simp [hx])) s s' p _ _ hs (hd.append hd2)

theorem toLoop_eq {R : ρ → Prop} {k k' : DK ρ} (hk : KEq R k k') {r : ρ} (hr : R r) (isTo : Bool) :
    ∀ (n : Nat) s s' pos, StEq s s' → REq (Den.toLoop k r isTo n s pos) (Den.toLoop k' r isTo n s' pos)
  | 0, _, _, _, _ => by simp [Den.toLoop]; exact REq.none
  | n + 1, s, s', pos, hs => by
    simp only [Den.toLoop]
    rcases child hk hr hs pos with ⟨e, h1, h2⟩ | ⟨h1, h2⟩ | ⟨p, d, d', h1, h2, hd⟩
    · simp [h1, h2, bind, Except.bind]; exact REq.err e
    · simp only [h1, h2, bind, Except.bind]
      exact toLoop_eq hk hr isTo n s s' (pos + 1) hs
    · cases isTo
      · simp [h1, h2, bind, Except.bind]; exact REq.some p hd
      · simp [h1, h2, bind, Except.bind]; exact REq.some pos (DEq.refl _)

/-- outcome of the between loop -/
def BEq (a b : Except Err (Nat × Nat × Delta)) : Prop :=
  (∃ e, a = .error e ∧ b = .error e) ∨ (∃ c p d d', a = .ok (c, p, d) ∧ b = .ok (c, p, d') ∧ DEq d d')

theorem betweenLoop_eq {R : ρ → Prop} {k k' : DK ρ} (hk : KEq R k k') {r : ρ} (hr : R r) (hi : Nat) :
    ∀ (n c : Nat) s s' pos d d', StEq s s' → DEq d d' →
      BEq (Den.betweenLoop k r hi n c s pos d) (Den.betweenLoop k' r hi n c s' pos d')
  | 0, _, _, _, _, _, _, _, _ => by simp [Den.betweenLoop]; exact .inl ⟨.fuel, rfl, rfl⟩
  | n + 1, c, s, s', pos, d, d', hs, hd => by
    simp only [Den.betweenLoop]
    by_cases hc : c < hi
    · simp only [hc, if_true]
      rcases child hk hr (hs.extend hd) pos with ⟨e, h1, h2⟩ | ⟨h1, h2⟩ | ⟨p, d2, d2', h1, h2, hd2⟩
      · simp [h1, h2, bind, Except.bind]; exact .inl ⟨e, rfl, rfl⟩
      · simp [h1, h2, bind, Except.bind]; exact .inr ⟨c, pos, d, d', rfl, rfl, hd⟩
      · simp only [h1, h2, bind, Except.bind]
        by_cases hp : (p == pos ∧ hi == uintMax)
        · simp only [hp, if_true]; exact .inr ⟨c, pos, d, d', rfl, rfl, hd⟩
        · simp only [hp, if_false]
          exact betweenLoop_eq hk hr hi n (c + 1) s s' p _ _ hs (hd.append hd2)
    · simp only [hc, if_false]; exact .inr ⟨c, pos, d, d', rfl, rfl, hd⟩

theorem lenLoop_eq {R : ρ → Prop} {k k' : DK ρ} (hk : KEq R k k') {r : ρ} (hr : R r) :
    ∀ (n : Nat) s s' pos d d', StEq s s' → DEq d d' → REq (Den.lenLoop k r n s pos d) (Den.lenLoop k' r n s' pos d')
  | 0, _, _, pos, _, _, _, hd => by simp [Den.lenLoop]; exact REq.some pos hd
  | n + 1, s, s', pos, d, d', hs, hd => by
    simp only [Den.lenLoop]
    rcases down1_eq (hs.extend hd) with ⟨e, h1, h2⟩ | ⟨s0, s0', h1, h2, hs0⟩
    · simp [h1, h2, bind, Except.bind]; exact REq.err e
    · simp only [h1, h2, bind, Except.bind]
      rcases child hk hr hs0 pos with ⟨e, h1, h2⟩ | ⟨h1, h2⟩ | ⟨p, d2, d2', h1, h2, hd2⟩
      · simp [h1, h2]; exact REq.err e
      · simp [h1, h2]; exact REq.none
      · simp only [h1, h2]
        exact lenLoop_eq hk hr n s s' p _ _ hs (hd.append hd2)

theorem tilLoop_eq {R : ρ → Prop} {k k' : DK ρ} (hk : KEq R k k') {r : ρ} (hr : R r) :
    ∀ (n : Nat) s s' pos, StEq s s' → Den.tilLoop k' r n s' pos = Den.tilLoop k r n s pos
  | 0, _, _, _, _ => by simp [Den.tilLoop]
  | n + 1, s, s', pos, hs => by
    simp only [Den.tilLoop]
    rcases child hk hr hs pos with ⟨e, h1, h2⟩ | ⟨h1, h2⟩ | ⟨p, d, d', h1, h2, hd⟩
    · simp [h1, h2, bind, Except.bind]
    · simp only [h1, h2, bind, Except.bind]
      exact tilLoop_eq hk hr n s s' (pos + 1) hs
    · simp [h1, h2, bind, Except.bind]

theorem splitFind_eq {R : ρ → Prop} {k k' : DK ρ} (hk : KEq R k k') {r : ρ} (hr : R r) :
    ∀ (n : Nat) s s' ce pos, StEq s s' → Den.splitFind k' r n s' ce pos = Den.splitFind k r n s ce pos
  | 0, _, _, _, _, _ => by simp [Den.splitFind]
  | n + 1, s, s', ce, pos, hs => by
    simp only [Den.splitFind]
    rcases child hk hr hs pos with ⟨e, h1, h2⟩ | ⟨h1, h2⟩ | ⟨p, d, d', h1, h2, hd⟩
    · simp [h1, h2, bind, Except.bind]
    · simp only [h1, h2, bind, Except.bind]
      exact splitFind_eq hk hr n s s' pos (pos + 1) hs
    · simp [h1, h2, bind, Except.bind]

theorem splitLoop_eq {R : ρ → Prop} {k k' : DK ρ} (hk : KEq R k k') {sep sub : ρ} (hsep : R sep) (hsub : R sub) (se : Nat) :
    ∀ (n : Nat) s s' cs pos d d', StEq s s' → DEq d d' →
      REq (Den.splitLoop k sep sub se n s cs pos d) (Den.splitLoop k' sep sub se n s' cs pos d')
  | 0, _, _, _, _, _, _, _, _ => by simp [Den.splitLoop]; exact REq.err .fuel
  | n + 1, s, s', cs, pos, d, d', hs, hd => by
    simp only [Den.splitLoop]
    by_cases hp : pos ≤ se
    · simp only [hp, if_true]
      rcases down1_eq (hs.extend hd) with ⟨e, h1, h2⟩ | ⟨s0, s0', h1, h2, hs0⟩
      · simp [h1, h2, bind, Except.bind]; exact REq.err e
      · simp only [h1, h2, bind, Except.bind]
        rw [splitFind_eq hk hsep (se + 1 - pos) s0 s0' pos pos hs0]
        cases hf : Den.splitFind k sep (se + 1 - pos) s0 pos pos with
        | error e => simp; exact REq.err e
        | ok cp =>
          obtain ⟨ce, pos'⟩ := cp
          simp only
          rcases down1_eq ((hs.extend hd).withEnd ce) with ⟨e, h1, h2⟩ | ⟨s4, s4', h1, h2, hs4⟩
          · simp [h1, h2]; exact REq.err e
          · simp only [h1, h2]
            rcases child hk hsub hs4 cs with ⟨e, h1, h2⟩ | ⟨h1, h2⟩ | ⟨p, d2, d2', h1, h2, hd2⟩
            · simp [h1, h2]; exact REq.err e
            · simp [h1, h2]; exact REq.none
            · simp only [h1, h2]
              by_cases hq : (pos' == cs) = true
              · simp [hq]; exact REq.none
              · simp only [hq, if_false]
                exact splitLoop_eq hk hsep hsub se n s s' pos' pos' _ _ hs (hd.append hd2)
    · simp only [hp, if_false]; exact REq.some se hd

/-! ### one instruction -/

theorem step_eq {E E' : Env} (hE : EnvEq E E') {R : ρ → Prop} {k k' : DK ρ} (hk : KEq R k k') (n : Nat) (i : Instr ρ)
    (hnt : i.readsTags = false) (hkids : ∀ c ∈ i.kids, R c) {s s' : St} (hs : StEq s s') (pos : Nat) :
    REq (Den.step E k n i s pos) (Den.step E' k' n i s' pos) := by
  cases i with
  | literal bytes => simp only [Den.step, hs.textEnd, slice_eq hE hs]; exact REq.same _
  | nchar c => simp only [Den.step, hs.textEnd]; exact REq.same _
  | notnchar c => simp only [Den.step, hs.textEnd]; exact REq.same _
  | range lo hi => simp only [Den.step, hs.textEnd, byte_eq hE hs]; exact REq.same _
  | set bm => simp only [Den.step, hs.textEnd, byte_eq hE hs]; exact REq.same _
  | look off r =>
    have hr : R r := hkids r (by simp [Instr.kids])
    simp only [Den.step, hs.textEnd]
    by_cases h : (pos : Int) + off < 0 ∨ (pos : Int) + off > (s.textEnd : Int)
    · simp [h]; exact REq.none
    · simp only [h, if_false]
      rcases down1_eq hs with ⟨e, h1, h2⟩ | ⟨s0, s0', h1, h2, hs0⟩
      · simp [h1, h2, bind, Except.bind]; exact REq.err e
      · simp only [h1, h2, bind, Except.bind]
        rcases child hk hr hs0 ((pos : Int) + off).toNat with ⟨e, h1, h2⟩ | ⟨h1, h2⟩ | ⟨p, d, d', h1, h2, hd⟩
        · simp [h1, h2]; exact REq.err e
        · simp [h1, h2]; exact REq.none
        · simp [h1, h2]; exact REq.some _ hd
  | choice rs =>
    simp only [Den.step]
    by_cases h : rs.isEmpty = true
    · simp [h]; exact REq.none
    · simp only [h, if_false]
      rcases down1_eq hs with ⟨e, h1, h2⟩ | ⟨s0, s0', h1, h2, hs0⟩
      · simp [h1, h2, bind, Except.bind]; exact REq.err e
      · simp only [h1, h2, bind, Except.bind]
        exact choiceLoop_eq hk rs (fun r hr => hkids r (by simpa [Instr.kids] using hr)) s0 s0' pos hs0
  | sequence rs =>
    simp only [Den.step]
    by_cases h : rs.isEmpty = true
    · simp [h]; exact REq.some _ (DEq.refl _)
    · simp only [h, if_false]
      rcases down1_eq hs with ⟨e, h1, h2⟩ | ⟨s0, s0', h1, h2, hs0⟩
      · simp [h1, h2, bind, Except.bind]; exact REq.err e
      · simp only [h1, h2, bind, Except.bind]
        exact seqLoop_eq hk rs (fun r hr => hkids r (by simpa [Instr.kids] using hr)) s0 s0' pos _ _ hs0 (DEq.refl _)
  | if_ a b =>
    have ha : R a := hkids a (by simp [Instr.kids])
    have hb : R b := hkids b (by simp [Instr.kids])
    simp only [Den.step]
    rcases down1_eq hs with ⟨e, h1, h2⟩ | ⟨s0, s0', h1, h2, hs0⟩
    · simp [h1, h2, bind, Except.bind]; exact REq.err e
    · simp only [h1, h2, bind, Except.bind]
      rcases child hk ha hs0 pos with ⟨e, h1, h2⟩ | ⟨h1, h2⟩ | ⟨p, d, d', h1, h2, hd⟩
      · simp [h1, h2]; exact REq.err e
      · simp [h1, h2]; exact REq.none
      · simp only [h1, h2]
        rcases child hk hb (hs.extend hd) pos with ⟨e, h1, h2⟩ | ⟨h1, h2⟩ | ⟨p2, d2, d2', h1, h2, hd2⟩
        · simp [h1, h2]; exact REq.err e
        · simp [h1, h2]; exact REq.none
        · simp [h1, h2]; exact REq.some _ (hd.append hd2)
  | ifnot a b =>
    have ha : R a := hkids a (by simp [Instr.kids])
    have hb : R b := hkids b (by simp [Instr.kids])
    simp only [Den.step]
    rcases down1_eq hs with ⟨e, h1, h2⟩ | ⟨s0, s0', h1, h2, hs0⟩
    · simp [h1, h2, bind, Except.bind]; exact REq.err e
    · simp only [h1, h2, bind, Except.bind]
      rcases child hk ha hs0 pos with ⟨e, h1, h2⟩ | ⟨h1, h2⟩ | ⟨p, d, d', h1, h2, hd⟩
      · simp [h1, h2]; exact REq.err e
      · simp only [h1, h2]; exact hk b hb s s' pos hs
      · simp [h1, h2]; exact REq.none
  | not a =>
    have ha : R a := hkids a (by simp [Instr.kids])
    simp only [Den.step]
    rcases down1_eq hs with ⟨e, h1, h2⟩ | ⟨s0, s0', h1, h2, hs0⟩
    · simp [h1, h2, bind, Except.bind]; exact REq.err e
    · simp only [h1, h2, bind, Except.bind]
      rcases child hk ha hs0 pos with ⟨e, h1, h2⟩ | ⟨h1, h2⟩ | ⟨p, d, d', h1, h2, hd⟩
      · simp [h1, h2]; exact REq.err e
      · simp [h1, h2]; exact REq.some _ (DEq.refl _)
      · simp [h1, h2]; exact REq.none
  | between lo hi r =>
    have hr : R r := hkids r (by simp [Instr.kids])
    simp only [Den.step]
    rcases down1_eq hs with ⟨e, h1, h2⟩ | ⟨s0, s0', h1, h2, hs0⟩
    · simp [h1, h2, bind, Except.bind]; exact REq.err e
    · simp only [h1, h2, bind, Except.bind]
      rcases betweenLoop_eq hk hr hi n 0 s0 s0' pos {} {} hs0 (DEq.refl _) with ⟨e, h1, h2⟩ | ⟨c, p, d, d', h1, h2, hd⟩
      · simp [h1, h2]; exact REq.err e
      · simp only [h1, h2]
        by_cases hc : c < lo
        · simp [hc]; exact REq.none
        · simp [hc]; exact REq.some _ hd
  | gettag search tag => simp [Instr.readsTags] at hnt
  | backmatch search => simp [Instr.readsTags] at hnt
  | position tag => simp only [Den.step, hs.acc]; exact REq.some _ (push_deq _ _ _ _ _)
  | line tag => simp only [Den.step, hs.acc, hE.text]; exact REq.some _ (push_deq _ _ _ _ _)
  | column tag => simp only [Den.step, hs.acc, hE.text]; exact REq.some _ (push_deq _ _ _ _ _)
  | argument idx tag => simp only [Den.step, hs.acc, hE.args]; exact REq.some _ (push_deq _ _ _ _ _)
  | constant v tag => simp only [Den.step, hs.acc]; exact REq.some _ (push_deq _ _ _ _ _)
  | capture r tag =>
    have hr : R r := hkids r (by simp [Instr.kids])
    simp only [Den.step]
    rcases down1_eq hs with ⟨e, h1, h2⟩ | ⟨s0, s0', h1, h2, hs0⟩
    · simp [h1, h2, bind, Except.bind]; exact REq.err e
    · simp only [h1, h2, bind, Except.bind]
      rcases child hk hr hs0 pos with ⟨e, h1, h2⟩ | ⟨h1, h2⟩ | ⟨p, d, d', h1, h2, hd⟩
      · simp [h1, h2]; exact REq.err e
      · simp [h1, h2]; exact REq.none
      · simp only [h1, h2, slice_eq hE hs, hs.acc]
        cases E.slice s pos p with
        | error e => simp; exact REq.err e
        | ok t =>
          simp only
          rw [ite_ok, ite_ok]
          exact REq.some p (capture_deq E E' s.acc t tag hd)
  | capturenum r base tag =>
    have hr : R r := hkids r (by simp [Instr.kids])
    simp only [Den.step, hE.raw, hE.raw']
    rcases down1_eq hs with ⟨e, h1, h2⟩ | ⟨s0, s0', h1, h2, hs0⟩
    · simp [h1, h2, bind, Except.bind]; exact REq.err e
    · simp only [h1, h2, bind, Except.bind]
      rcases child hk hr hs0 pos with ⟨e, h1, h2⟩ | ⟨h1, h2⟩ | ⟨p, d, d', h1, h2, hd⟩
      · simp [h1, h2]; exact REq.err e
      · simp [h1, h2]; exact REq.none
      · simp only [h1, h2, slice_eq hE hs, hs.acc]
        cases E.slice s pos p with
        | error e => simp; exact REq.err e
        | ok t =>
          simp only
          cases scanNumber t base with
          | none => simp; exact REq.none
          | some x => simp; exact REq.some p (hd.append (push_deq _ _ _ _ _))
  | accumulate r tag =>
    have hr : R r := hkids r (by simp [Instr.kids])
    simp only [Den.step, hs.acc]
    by_cases h : (tag == 0 ∧ s.acc)
    · simp only [h, if_true]; exact hk r hr s s' pos hs
    · simp only [h, if_false]
      rcases down1_eq (hs.withAcc true) with ⟨e, h1, h2⟩ | ⟨s0, s0', h1, h2, hs0⟩
      · simp [h1, h2, bind, Except.bind]; exact REq.err e
      · simp only [h1, h2, bind, Except.bind]
        rcases child hk hr hs0 pos with ⟨e, h1, h2⟩ | ⟨h1, h2⟩ | ⟨p, d, d', h1, h2, hd⟩
        · simp [h1, h2]; exact REq.err e
        · simp [h1, h2]; exact REq.none
        · simp only [h1, h2, hd.scratch]
          exact REq.some p (DEq.append ⟨rfl, rfl⟩ (push_deq _ _ _ _ _))
  | drop r =>
    have hr : R r := hkids r (by simp [Instr.kids])
    simp only [Den.step]
    rcases down1_eq hs with ⟨e, h1, h2⟩ | ⟨s0, s0', h1, h2, hs0⟩
    · simp [h1, h2, bind, Except.bind]; exact REq.err e
    · simp only [h1, h2, bind, Except.bind]
      rcases child hk hr hs0 pos with ⟨e, h1, h2⟩ | ⟨h1, h2⟩ | ⟨p, d, d', h1, h2, hd⟩
      · simp [h1, h2]; exact REq.err e
      · simp [h1, h2]; exact REq.none
      · simp [h1, h2]; exact REq.some p (DEq.refl _)
  | onlytags r =>
    have hr : R r := hkids r (by simp [Instr.kids])
    simp only [Den.step]
    rcases down1_eq hs with ⟨e, h1, h2⟩ | ⟨s0, s0', h1, h2, hs0⟩
    · simp [h1, h2, bind, Except.bind]; exact REq.err e
    · simp only [h1, h2, bind, Except.bind]
      rcases child hk hr hs0 pos with ⟨e, h1, h2⟩ | ⟨h1, h2⟩ | ⟨p, d, d', h1, h2, hd⟩
      · simp [h1, h2]; exact REq.err e
      · simp [h1, h2]; exact REq.none
      · simp [h1, h2]; exact REq.some p ⟨rfl, rfl⟩
  | group r tag =>
    have hr : R r := hkids r (by simp [Instr.kids])
    simp only [Den.step, hs.acc]
    rcases down1_eq (hs.withAcc false) with ⟨e, h1, h2⟩ | ⟨s0, s0', h1, h2, hs0⟩
    · simp [h1, h2, bind, Except.bind]; exact REq.err e
    · simp only [h1, h2, bind, Except.bind]
      rcases child hk hr hs0 pos with ⟨e, h1, h2⟩ | ⟨h1, h2⟩ | ⟨p, d, d', h1, h2, hd⟩
      · simp [h1, h2]; exact REq.err e
      · simp [h1, h2]; exact REq.none
      · simp only [h1, h2, hd.caps]
        exact REq.some p (DEq.append ⟨rfl, rfl⟩ (push_deq _ _ _ _ _))
  | nth nth r tag =>
    have hr : R r := hkids r (by simp [Instr.kids])
    simp only [Den.step, hs.acc]
    rcases down1_eq (hs.withAcc false) with ⟨e, h1, h2⟩ | ⟨s0, s0', h1, h2, hs0⟩
    · simp [h1, h2, bind, Except.bind]; exact REq.err e
    · simp only [h1, h2, bind, Except.bind]
      rcases child hk hr hs0 pos with ⟨e, h1, h2⟩ | ⟨h1, h2⟩ | ⟨p, d, d', h1, h2, hd⟩
      · simp [h1, h2]; exact REq.err e
      · simp [h1, h2]; exact REq.none
      · simp only [h1, h2, hd.caps]
        cases d.caps[if nth > int32Max then int32Max else nth]? with
        | none => simp; exact REq.none
        | some cap => simp; exact REq.some p (DEq.append ⟨rfl, rfl⟩ (push_deq _ _ _ _ _))
  | sub w r =>
    have hw : R w := hkids w (by simp [Instr.kids])
    have hr : R r := hkids r (by simp [Instr.kids])
    simp only [Den.step]
    rcases down1_eq hs with ⟨e, h1, h2⟩ | ⟨s0, s0', h1, h2, hs0⟩
    · simp [h1, h2, bind, Except.bind]; exact REq.err e
    · simp only [h1, h2, bind, Except.bind]
      rcases child hk hw hs0 pos with ⟨e, h1, h2⟩ | ⟨h1, h2⟩ | ⟨we, d, d', h1, h2, hd⟩
      · simp [h1, h2]; exact REq.err e
      · simp [h1, h2]; exact REq.none
      · simp only [h1, h2]
        rcases down1_eq ((hs.extend hd).withEnd we) with ⟨e, h1, h2⟩ | ⟨s3, s3', h1, h2, hs3⟩
        · simp [h1, h2]; exact REq.err e
        · simp only [h1, h2]
          rcases child hk hr hs3 pos with ⟨e, h1, h2⟩ | ⟨h1, h2⟩ | ⟨p2, d2, d2', h1, h2, hd2⟩
          · simp [h1, h2]; exact REq.err e
          · simp [h1, h2]; exact REq.none
          · simp [h1, h2]; exact REq.some we (hd.append hd2)
  | til t r =>
    have ht : R t := hkids t (by simp [Instr.kids])
    have hr : R r := hkids r (by simp [Instr.kids])
    simp only [Den.step, hs.textEnd]
    rcases down1_eq hs with ⟨e, h1, h2⟩ | ⟨s0, s0', h1, h2, hs0⟩
    · simp [h1, h2, bind, Except.bind]; exact REq.err e
    · simp only [h1, h2, bind, Except.bind]
      rw [tilLoop_eq hk ht (s.textEnd + 1 - pos) s0 s0' pos hs0]
      cases Den.tilLoop k t (s.textEnd + 1 - pos) s0 pos with
      | error e => simp; exact REq.err e
      | ok f =>
        cases f with
        | none => simp; exact REq.none
        | some se =>
          obtain ⟨ts, te⟩ := se
          simp only
          rcases down1_eq (hs.withEnd ts) with ⟨e, h1, h2⟩ | ⟨s3, s3', h1, h2, hs3⟩
          · simp [h1, h2]; exact REq.err e
          · simp only [h1, h2]
            rcases child hk hr hs3 pos with ⟨e, h1, h2⟩ | ⟨h1, h2⟩ | ⟨p2, d2, d2', h1, h2, hd2⟩
            · simp [h1, h2]; exact REq.err e
            · simp [h1, h2]; exact REq.none
            · simp [h1, h2]; exact REq.some te hd2
  | split sep r =>
    have hsep : R sep := hkids sep (by simp [Instr.kids])
    have hr : R r := hkids r (by simp [Instr.kids])
    simp only [Den.step, hs.textEnd]
    exact splitLoop_eq hk hsep hr s.textEnd n s s' pos pos {} {} hs (DEq.refl _)
  | replace r v tag =>
    have hr : R r := hkids r (by simp [Instr.kids])
    simp only [Den.step, hs.acc]
    rcases down1_eq (hs.withAcc false) with ⟨e, h1, h2⟩ | ⟨s0, s0', h1, h2, hs0⟩
    · simp [h1, h2, bind, Except.bind]; exact REq.err e
    · simp only [h1, h2, bind, Except.bind]
      rcases child hk hr hs0 pos with ⟨e, h1, h2⟩ | ⟨h1, h2⟩ | ⟨p, d, d', h1, h2, hd⟩
      · simp [h1, h2]; exact REq.err e
      · simp [h1, h2]; exact REq.none
      · simp only [h1, h2, hd.caps, hs.depth, hs.caps]
        have hg : callGuard E' s.depth v = callGuard E s.depth v := by cases v <;> simp [callGuard, hE.stackn]
        rw [hg]
        cases callGuard E s.depth v with
        | error e => simp; exact REq.err e
        | ok u =>
          simp only
          cases Den.replaceValue v s.caps d.caps with
          | error e => simp; exact REq.err e
          | ok cap => simp; exact REq.some p (DEq.append ⟨rfl, rfl⟩ (push_deq _ _ _ _ _))
  | matchtime r v tag =>
    have hr : R r := hkids r (by simp [Instr.kids])
    simp only [Den.step, hs.acc]
    rcases down1_eq (hs.withAcc false) with ⟨e, h1, h2⟩ | ⟨s0, s0', h1, h2, hs0⟩
    · simp [h1, h2, bind, Except.bind]; exact REq.err e
    · simp only [h1, h2, bind, Except.bind]
      rcases child hk hr hs0 pos with ⟨e, h1, h2⟩ | ⟨h1, h2⟩ | ⟨p, d, d', h1, h2, hd⟩
      · simp [h1, h2]; exact REq.err e
      · simp [h1, h2]; exact REq.none
      · simp only [h1, h2, hd.caps, hs.depth, hs.caps]
        have hg : callGuard E' s.depth v = callGuard E s.depth v := by cases v <;> simp [callGuard, hE.stackn]
        rw [hg]
        cases callGuard E s.depth v with
        | error e => simp; exact REq.err e
        | ok u =>
          simp only
          cases Den.replaceValue v s.caps d.caps with
          | error e => simp; exact REq.err e
          | ok cap =>
            simp only
            by_cases ht : truthy cap = true
            · simp [ht]; exact REq.some p (DEq.append ⟨rfl, rfl⟩ (push_deq _ _ _ _ _))
            · simp [ht]; exact REq.none
  | error r =>
    have hr : R r := hkids r (by simp [Instr.kids])
    simp only [Den.step, hE.text]
    rcases down1_eq (hs.withAcc false) with ⟨e, h1, h2⟩ | ⟨s0, s0', h1, h2, hs0⟩
    · simp [h1, h2, bind, Except.bind]; exact REq.err e
    · simp only [h1, h2, bind, Except.bind]
      rcases child hk hr hs0 pos with ⟨e, h1, h2⟩ | ⟨h1, h2⟩ | ⟨p, d, d', h1, h2, hd⟩
      · simp [h1, h2]; exact REq.err e
      · simp [h1, h2]; exact REq.none
      · simp only [h1, h2, hd.caps]
        cases d.caps.getLast? with
        | none => simp; exact REq.err _
        | some v => simp; exact REq.err _
  | to r =>
    have hr : R r := hkids r (by simp [Instr.kids])
    simp only [Den.step, hs.textEnd]
    rcases down1_eq hs with ⟨e, h1, h2⟩ | ⟨s0, s0', h1, h2, hs0⟩
    · simp [h1, h2, bind, Except.bind]; exact REq.err e
    · simp only [h1, h2, bind, Except.bind]
      exact toLoop_eq hk hr true _ s0 s0' pos hs0
  | thru r =>
    have hr : R r := hkids r (by simp [Instr.kids])
    simp only [Den.step, hs.textEnd]
    rcases down1_eq hs with ⟨e, h1, h2⟩ | ⟨s0, s0', h1, h2, hs0⟩
    · simp [h1, h2, bind, Except.bind]; exact REq.err e
    · simp only [h1, h2, bind, Except.bind]
      exact toLoop_eq hk hr false _ s0 s0' pos hs0
  | lenprefix a b =>
    have ha : R a := hkids a (by simp [Instr.kids])
    have hb : R b := hkids b (by simp [Instr.kids])
    simp only [Den.step]
    rcases down1_eq (hs.withAcc false) with ⟨e, h1, h2⟩ | ⟨s0, s0', h1, h2, hs0⟩
    · simp [h1, h2, bind, Except.bind]; exact REq.err e
    · simp only [h1, h2, bind, Except.bind]
      rcases child hk ha hs0 pos with ⟨e, h1, h2⟩ | ⟨h1, h2⟩ | ⟨p, d, d', h1, h2, hd⟩
      · simp [h1, h2]; exact REq.err e
      · simp [h1, h2]; exact REq.none
      · simp only [h1, h2, hd.caps]
        cases hh : d.caps.head? with
        | none => simp; exact REq.none
        | some v =>
          cases v with
          | int nrep =>
            simp only
            by_cases hc : checkint nrep = true
            · simp only [hc, if_true]; exact lenLoop_eq hk hb nrep.toNat s s' p {} {} hs (DEq.refl _)
            · simp [hc]; exact REq.none
          | _ => simp; exact REq.none
  | readint flags tag =>
    simp only [Den.step, hs.textEnd, hs.acc, slice_eq hE hs]
    by_cases h : pos + flags % 16 > s.textEnd
    · simp [h]; exact REq.none
    · simp only [h, if_false]
      cases E.slice s pos (pos + flags % 16) with
      | error e => simp [bind, Except.bind]; exact REq.err e
      | ok t => simp [bind, Except.bind]; exact REq.some _ (push_deq _ _ _ _ _)
  | unref r tag =>
    have hr : R r := hkids r (by simp [Instr.kids])
    simp only [Den.step]
    rcases down1_eq hs with ⟨e, h1, h2⟩ | ⟨s0, s0', h1, h2, hs0⟩
    · simp [h1, h2, bind, Except.bind]; exact REq.err e
    · simp only [h1, h2, bind, Except.bind]
      rcases child hk hr hs0 pos with ⟨e, h1, h2⟩ | ⟨h1, h2⟩ | ⟨p, d, d', h1, h2, hd⟩
      · simp [h1, h2]; exact REq.err e
      · simp [h1, h2]; exact REq.none
      · simp [h1, h2]; exact REq.some p ⟨hd.caps, hd.scratch⟩

/-- a set of rules in which no instruction reads the tag stack, closed under sub-rule operands -/
def Closed (fetch : ρ → Option (Instr ρ)) (R : ρ → Prop) : Prop :=
  ∀ r, R r → ∀ i, fetch r = some i → i.readsTags = false ∧ ∀ c ∈ i.kids, R c

theorem run_eq {E E' : Env} (hE : EnvEq E E') (fetch : ρ → Option (Instr ρ)) {R : ρ → Prop} (hR : Closed fetch R) :
    ∀ fuel, KEq R (Den.run E fetch fuel) (Den.run E' fetch fuel)
  | 0 => fun _ _ _ _ _ _ => by simp [Den.run]; exact REq.err .fuel
  | fuel + 1 => fun r hr s s' pos hs => by
    simp only [Den.run]
    cases hf : fetch r with
    | none => simp; exact REq.err .badop
    | some i =>
      simp only
      obtain ⟨h1, h2⟩ := hR r hr i hf
      exact step_eq hE (run_eq hE fetch hR fuel) (fuel + 1) i h1 h2 hs pos

/-- same single-attempt result for both values of the flag (denotation) -/
theorem denMatcher_eq {E E' : Env} (hE : EnvEq E E') (fetch : ρ → Option (Instr ρ)) {R : ρ → Prop} (hR : Closed fetch R)
    {main : ρ} (hmain : R main) (fuel guard : Nat) :
    denMatcher E' fetch main fuel guard = denMatcher E fetch main fuel guard := by
  funext start
  simp only [denMatcher]
  have hi : initSt E' guard = initSt E guard := by simp [initSt, hE.text]
  rw [hi]
  rcases run_eq hE fetch hR fuel main hmain (initSt E guard) (initSt E guard) start (StEq.refl _) with
    ⟨e, h1, h2⟩ | ⟨h1, h2⟩ | ⟨p, d, d', h1, h2, hd⟩
  · simp [h1, h2]
  · simp [h1, h2]
  · simp [h1, h2, hd.caps]

/-! ### certificate for compiled bytecode -/

/-- every address in `S` holds an instruction that does not read the tag stack and whose sub-rule operands are in `S` -/
def closedNoTag (fetch : Nat → Option (Instr Nat)) (S : List Nat) : Bool :=
  S.all fun a =>
    match fetch a with
    | none => true
    | some i => !i.readsTags && i.kids.all (fun c => S.contains c)

theorem closedNoTag_sound (fetch : Nat → Option (Instr Nat)) (S : List Nat) (h : closedNoTag fetch S = true) :
    Closed fetch (· ∈ S) := by
  intro r hr i hf
  have := (List.all_eq_true.mp h) r hr
  simp only [hf, Bool.and_eq_true, Bool.not_eq_true', List.all_eq_true] at this
  refine ⟨this.1, fun c hc => ?_⟩
  have := this.2 c hc
  simpa using this

/-- the addresses reachable from `todo` through sub-rule operands (worklist with fuel; only used to PRODUCE a certificate) -/
def reach (fetch : Nat → Option (Instr Nat)) : Nat → List Nat → List Nat → List Nat
  | 0, _, seen => seen
  | _ + 1, [], seen => seen
  | n + 1, a :: todo, seen =>
    if seen.contains a then reach fetch n todo seen
    else
      match fetch a with
      | none => reach fetch n todo (a :: seen)
      | some i => reach fetch n (i.kids ++ todo) (a :: seen)

end JanetModel.Peg.Backref
