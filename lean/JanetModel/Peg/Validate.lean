/-
Translation validation of compiled PEG bytecode against the source grammar.

`validate f1 f2 k a c` walks the bytecode from rule address `a` (through `f1 = decode P`) and the source form `c`
(through `f2 = Spec.fetch dflt`) in lock step: same opcode, same immediate operands, sub-rules pairwise validated, to
nesting depth `k`.  It is executable (the driver runs it on the bytecode dumped from the REAL peg/compile) and sound:
`validate_sound` - a validated program has, from that address, the same denotation as the source form for every text,
state and fuel; with `op_eq_den` the operational run of the compiled program is the documented meaning of the source.

Outside the validated subset (validate answers `false`): recursive grammars (the unrolling never ends), constants that are
arrays / structs (`constant`, `replace` with a struct), anything peg/compile would encode differently from the source form.
Core Lean only.
-/
import JanetModel.Peg.Den
import JanetModel.Peg.Spec

namespace JanetModel.Peg

/-- equality test on the scalar values that occur as constants -/
def Val.same : Val → Val → Bool
  | .nil, .nil => true
  | .bool a, .bool b => a == b
  | .int a, .int b => a == b
  | .str a, .str b => a == b
  | .kw a, .kw b => a == b
  | .s64 a, .s64 b => a == b
  | .u64 a, .u64 b => a == b
  | .fn a, .fn b => a == b
  | _, _ => false

theorem Val.same_eq {a b : Val} (h : Val.same a b = true) : a = b := by
  cases a <;> cases b <;> simp [Val.same] at h <;> simp [h]

/-- same opcode and same immediate operands: the paired sub-rules; otherwise `none` -/
def match2 {α β : Type} : Instr α → Instr β → Option (List (α × β))
  | .literal b, .literal b' => if b = b' then some [] else none
  | .nchar n, .nchar n' => if n = n' then some [] else none
  | .notnchar n, .notnchar n' => if n = n' then some [] else none
  | .range lo hi, .range lo' hi' => if lo = lo' ∧ hi = hi' then some [] else none
  | .set bm, .set bm' => if bm = bm' then some [] else none
  | .look off r, .look off' c => if off = off' then some [(r, c)] else none
  | .choice rs, .choice cs => if rs.length = cs.length then some (rs.zip cs) else none
  | .sequence rs, .sequence cs => if rs.length = cs.length then some (rs.zip cs) else none
  | .if_ a b, .if_ a' b' => some [(a, a'), (b, b')]
  | .ifnot a b, .ifnot a' b' => some [(a, a'), (b, b')]
  | .not a, .not a' => some [(a, a')]
  | .between lo hi r, .between lo' hi' c => if lo = lo' ∧ hi = hi' then some [(r, c)] else none
  | .gettag s t, .gettag s' t' => if s = s' ∧ t = t' then some [] else none
  | .capture r t, .capture c t' => if t = t' then some [(r, c)] else none
  | .position t, .position t' => if t = t' then some [] else none
  | .argument i t, .argument i' t' => if i = i' ∧ t = t' then some [] else none
  | .constant v t, .constant v' t' => if Val.same v v' = true ∧ t = t' then some [] else none
  | .accumulate r t, .accumulate c t' => if t = t' then some [(r, c)] else none
  | .group r t, .group c t' => if t = t' then some [(r, c)] else none
  | .replace r v t, .replace c v' t' => if Val.same v v' = true ∧ t = t' then some [(r, c)] else none
  | .matchtime r v t, .matchtime c v' t' => if Val.same v v' = true ∧ t = t' then some [(r, c)] else none
  | .error r, .error c => some [(r, c)]
  | .drop r, .drop c => some [(r, c)]
  | .backmatch t, .backmatch t' => if t = t' then some [] else none
  | .to r, .to c => some [(r, c)]
  | .thru r, .thru c => some [(r, c)]
  | .lenprefix a b, .lenprefix a' b' => some [(a, a'), (b, b')]
  | .readint f t, .readint f' t' => if f = f' ∧ t = t' then some [] else none
  | .line t, .line t' => if t = t' then some [] else none
  | .column t, .column t' => if t = t' then some [] else none
  | .unref r t, .unref c t' => if t = t' then some [(r, c)] else none
  | .capturenum r b t, .capturenum c b' t' => if b = b' ∧ t = t' then some [(r, c)] else none
  | .sub a b, .sub a' b' => some [(a, a'), (b, b')]
  | .til a b, .til a' b' => some [(a, a'), (b, b')]
  | .split a b, .split a' b' => some [(a, a'), (b, b')]
  | .nth n r t, .nth n' c t' => if n = n' ∧ t = t' then some [(r, c)] else none
  | .onlytags r, .onlytags c => some [(r, c)]
  | _, _ => none

def validate {α β : Type} (f1 : α → Option (Instr α)) (f2 : β → Option (Instr β)) : Nat → α → β → Bool
  | 0, _, _ => false
  | k + 1, a, c =>
    match f1 a, f2 c with
    | some i, some j =>
      match match2 i j with
      | some pairs => pairs.all (fun p => validate f1 f2 k p.1 p.2)
      | none => false
    | _, _ => false

end JanetModel.Peg
