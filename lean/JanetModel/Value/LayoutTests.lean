/- C03 — kernel-checked exhaustive TESTS of the struct-layout model (`decide +kernel`).  Kept in their own module because
   they cost about a minute of kernel time; the general theorems are in Props/C03.lean.  The theorem names stay in the
   namespace `JanetModel.Props.C03` (they are in the audited list of checks/C03.py). -/
import JanetModel.Value.StructLemmas

namespace JanetModel.Props.C03
open JanetModel.Value

/-- with a duplicate of the first key (overwritten later), a nil value, a nil key; announced count = sequence length -/
def noisy (kvs : List (Slot F64)) : List (Slot F64) :=
  match kvs with
  | [] => []
  | (k, _) :: _ => (k, .kw [1]) :: kvs ++ [(.kw [2], .nil), (.nil, .bool true)]

theorem struct_layout_canonical_partial :
    (layoutFamilies.all fun kvs =>
      (permsOf kvs).all fun p =>
        equals (structOf p) (structOf kvs) && equals (structOf (noisy p)) (structOf kvs) &&
        equals (structOf p [structOf kvs]) (structOf kvs [structOf kvs.reverse])) = true := by
  decide +kernel

/-- same kind of kernel-checked test on a six-key probe cluster with eviction (all 720 insertion orders) -/
theorem struct_layout_canonical_partial_cluster :
    ((permsOf clusterFamily).all fun p => equals (structOf p) (structOf clusterFamily)) = true := by
  decide +kernel

end JanetModel.Props.C03
