/- C03 — uniqueness of the robin-hood layout: two arrays with the invariant, the same entries and the same occupied
   slots are equal. -/
import JanetModel.Value.Robin

namespace JanetModel.Value
open JanetModel.Gen.Value

/-! ### offsets from an anchor slot `z` (an empty slot): `off z x` counts from the slot after `z` -/

def off (cap z x : Nat) : Nat := dst cap x (nx cap z)

theorem off_lt {cap z x : Nat} (hz : z < cap) (hx : x < cap) : off cap z x < cap := dst_lt hx (nx_lt hz)

theorem off_anchor {cap z : Nat} (hz : z < cap) : off cap z z = cap - 1 := by
  unfold off; have := nx_cases hz; have := dst_cases hz (nx_lt hz); omega

theorem off_nx {cap z x : Nat} (hz : z < cap) (hx : x < cap) (hne : x ≠ z) : off cap z (nx cap x) = off cap z x + 1 := by
  unfold off
  have hu := nx_lt hz; have hn := nx_lt hx
  have := nx_cases hz; have := nx_cases hx; have := dst_cases hx hu; have := dst_cases hn hu; omega

theorem off_inj {cap z a b : Nat} (hz : z < cap) (ha : a < cap) (hb : b < cap) (e : off cap z a = off cap z b) : a = b :=
  dst_inj_left ha hb (nx_lt hz) e

theorem dst_of_off {cap z x h : Nat} (hz : z < cap) (hx : x < cap) (hh : h < cap) (hle : off cap z h ≤ off cap z x) :
    dst cap x h = off cap z x - off cap z h := by
  unfold off at *
  have hu := nx_lt hz
  have := nx_cases hz; have := dst_cases hx hu; have := dst_cases hh hu; have := dst_cases hx hh; omega

theorem dst_cross {cap z x h : Nat} (hz : z < cap) (hx : x < cap) (hh : h < cap) (hlt : off cap z x < off cap z h) :
    dst cap z h < dst cap x h := by
  unfold off at *
  have hu := nx_lt hz
  have := nx_cases hz; have := dst_cases hx hu; have := dst_cases hh hu; have := dst_cases hx hh; have := dst_cases hz hh
  omega

theorem Tri.comm {x y w : Ordering} (h : Tri x y w) : Tri y x w :=
  ⟨fun a b => h.1 b a, fun a b => h.2.2.1 b a, fun a b => h.2.1 b a, fun a b => h.2.2.2 b a⟩

theorem natCmp_sub {a b x : Nat} (ha : a ≤ x) (hb : b ≤ x) : natCmp (x - a) (x - b) = (natCmp a b).swap := by
  rcases Nat.lt_trichotomy a b with h | h | h
  · rw [(natCmp_lt_iff a b).mpr h, (natCmp_gt_iff _ _).mpr (by omega)]; rfl
  · subst h; rw [(natCmp_eq_iff a a).mpr rfl, (natCmp_eq_iff _ _).mpr rfl]; rfl
  · rw [(natCmp_gt_iff a b).mpr h, (natCmp_lt_iff _ _).mpr (by omega)]; rfl

variable {N : Type} [NumLike N] [LawfulNum N]

/-- the order in which entries appear along the array, seen from the anchor: by home slot, then by hash (descending),
    then by `janet_compare` (descending) -/
def cmpz (cap z : Nat) (a b : JVal N) : Ordering :=
  (natCmp (off cap z (hm cap a)) (off cap z (hm cap b))).then
    ((intCmp (sInt (hash b)) (sInt (hash a))).then (jcompare b a))

theorem cmpz_swap (cap z : Nat) (a b : JVal N) : cmpz cap z b a = (cmpz cap z a b).swap := by
  unfold cmpz; rw [swap_then', swap_then', natCmp_swap, intCmp_swap, jcompare_swap]

theorem cmpz_tri (cap z : Nat) (a b c : JVal N) : Tri (cmpz cap z a b) (cmpz cap z b c) (cmpz cap z a c) := by
  unfold cmpz
  exact Tri.then' (tri_natCmp _ _ _) (fun _ _ _ =>
    Tri.then' (tri_intCmp _ _ _).comm (fun _ _ _ => (jcompare_tri c b a).comm))

theorem stat_eq_cmpz {cap z x : Nat} (hz : z < cap) (hx : x < cap) (a b : JVal N)
    (ha : off cap z (hm cap a) ≤ off cap z x) (hb : off cap z (hm cap b) ≤ off cap z x) :
    stat cap x a b = (cmpz cap z a b).swap := by
  have hcap : 0 < cap := by omega
  unfold stat cmpz
  rw [putStatus_then, dst_of_off hz hx (hm_lt hcap a) ha, dst_of_off hz hx (hm_lt hcap b) hb, natCmp_sub ha hb,
    swap_then', swap_then', ← intCmp_swap, ← jcompare_swap]


/-- no entry's probe path crosses an empty slot: seen from the anchor, the home of an entry is not after its slot -/
theorem RH.home_le {sl : List (Slot N)} (hrh : RH sl) {z j : Nat} (hz : z < sl.length) (hez : ¬ Occ sl z)
    (hj : j < sl.length) (hoj : Occ sl j) :
    off sl.length z (hm sl.length (sg sl j).1) ≤ off sl.length z j := by
  have hcap : 0 < sl.length := by omega
  have hh := hm_lt hcap (sg sl j).1
  by_cases h : off sl.length z (hm sl.length (sg sl j).1) ≤ off sl.length z j
  · exact h
  · exfalso
    exact hez (hrh.chain j z hj hz hoj (dst_cross hz hj hh (by omega)))

/-- neighbours are in anchor order -/
theorem RH.local_lt {sl : List (Slot N)} (hrh : RH sl) {z x : Nat} (hz : z < sl.length) (hez : ¬ Occ sl z)
    (hx : x < sl.length) (hox : Occ sl x) (hon : Occ sl (nx sl.length x)) :
    cmpz sl.length z (sg sl x).1 (sg sl (nx sl.length x)).1 = .lt := by
  have hcap : 0 < sl.length := by omega
  have hxz : x ≠ z := fun e => hez (e ▸ hox)
  have hn := nx_lt hx
  have ha := hrh.home_le hz hez hx hox
  have hb := hrh.home_le hz hez hn hon
  have hoff := off_nx hz hx hxz
  by_cases hhome : hm sl.length (sg sl (nx sl.length x)).1 = nx sl.length x
  · unfold cmpz
    rw [hhome, (natCmp_lt_iff _ _).mpr (by omega)]; rfl
  · have hb' : off sl.length z (hm sl.length (sg sl (nx sl.length x)).1) ≤ off sl.length z x := by
      have : off sl.length z (hm sl.length (sg sl (nx sl.length x)).1) ≠ off sl.length z (nx sl.length x) :=
        fun e => hhome (off_inj hz (hm_lt hcap _) hn e)
      omega
    have := hrh.order x hx hox hon hhome
    rw [stat_eq_cmpz hz hx _ _ ha hb'] at this
    cases h : cmpz sl.length z (sg sl x).1 (sg sl (nx sl.length x)).1 <;> rw [h] at this <;> simp at this ⊢

/-- along a fully occupied stretch the entries are in anchor order -/
theorem RH.sorted {sl : List (Slot N)} (hrh : RH sl) {z : Nat} (hz : z < sl.length) (hez : ¬ Occ sl z) :
    ∀ (n x y : Nat), x < sl.length → y < sl.length → off sl.length z y = off sl.length z x + n + 1 →
      (∀ w, w < sl.length → off sl.length z x ≤ off sl.length z w → off sl.length z w ≤ off sl.length z y → Occ sl w) →
      cmpz sl.length z (sg sl x).1 (sg sl y).1 = .lt := by
  intro n
  induction n with
  | zero =>
    intro x y hx hy ho hocc
    have hox := hocc x hx (Nat.le_refl _) (by omega)
    have hxz : x ≠ z := by
      intro e; subst e; have := off_anchor hz; have := off_lt hz hy; omega
    have : y = nx sl.length x := off_inj hz hy (nx_lt hx) (by rw [off_nx hz hx hxz]; omega)
    subst this
    exact hrh.local_lt hz hez hx hox (hocc _ hy (by omega) (Nat.le_refl _))
  | succ n ih =>
    intro x y hx hy ho hocc
    have hox := hocc x hx (Nat.le_refl _) (by omega)
    have hxz : x ≠ z := by
      intro e; subst e; have := off_anchor hz; have := off_lt hz hy; omega
    have hn := nx_lt hx
    have hoff := off_nx hz hx hxz
    have hon := hocc _ hn (by omega) (by omega)
    have h1 := hrh.local_lt hz hez hx hox hon
    have h2 := ih (nx sl.length x) y hn hy (by omega) (fun w hw h3 h4 => hocc w hw (by omega) h4)
    exact (cmpz_tri sl.length z _ _ _).2.1 h1 (by rw [h2]; simp)


/-- **uniqueness of the robin-hood layout**: two arrays of the same capacity that satisfy the invariant, have the same
    occupied slots (one of them empty) and hold the same entries are equal -/
theorem RH.unique {sl1 sl2 : List (Slot N)} (h1 : RH sl1) (h2 : RH sl2) (hlen : sl2.length = sl1.length)
    (hocc : ∀ j, Occ sl1 j ↔ Occ sl2 j) (hhas : ∀ e, Has sl1 e ↔ Has sl2 e)
    {z : Nat} (hz : z < sl1.length) (hez : ¬ Occ sl1 z) : sl1 = sl2 := by
  have hez2 : ¬ Occ sl2 z := fun h => hez ((hocc z).mpr h)
  have hz2 : z < sl2.length := by omega
  -- slot by slot, in the order of the offsets from the anchor
  have key : ∀ n j, j < sl1.length → off sl1.length z j = n → sg sl1 j = sg sl2 j := by
    intro n
    induction n using Nat.strongRecOn with
    | ind n ih =>
      intro j hj hoj
      by_cases ho : Occ sl1 j
      · apply Classical.byContradiction
        intro hne
        have ho2 : Occ sl2 j := (hocc j).mp ho
        have hj2 : j < sl2.length := by omega
        -- where the other array keeps these two entries
        obtain ⟨ja, hja, hoja, heja⟩ := (hhas (sg sl1 j)).mp ⟨j, hj, ho, rfl⟩
        obtain ⟨jb, hjb, hojb, hejb⟩ := (hhas (sg sl2 j)).mpr ⟨j, hj2, ho2, rfl⟩
        rw [hlen] at hja
        have hja_gt : n < off sl1.length z ja := by
          by_cases hlt : off sl1.length z ja < n
          · exfalso
            have := ih _ hlt ja hja rfl
            have e : sg sl1 ja = sg sl1 j := by rw [this, heja]
            have := h1.distinct ja j hja hj ((hocc ja).mpr hoja) ho (by rw [e]; exact contentEq_refl_both.1 _)
            subst this; exact hne heja.symm
          · have : off sl1.length z ja ≠ n := by
              intro e; rw [← hoj] at e; have := off_inj hz hja hj e; subst this; exact hne heja.symm
            omega
        have hjb_gt : n < off sl1.length z jb := by
          by_cases hlt : off sl1.length z jb < n
          · exfalso
            have := ih _ hlt jb hjb rfl
            have e : sg sl2 jb = sg sl2 j := by rw [← this, hejb]
            have := h2.distinct jb j (by omega) hj2 ((hocc jb).mp hojb) ho2 (by rw [e]; exact contentEq_refl_both.1 _)
            subst this; exact hne hejb
          · have : off sl1.length z jb ≠ n := by
              intro e; rw [← hoj] at e; have := off_inj hz hjb hj e; subst this; exact hne hejb
            omega
        -- in sl2 the stretch j … ja is occupied (probe path of the entry at ja, whose home is not after j)
        have hcap : 0 < sl1.length := by omega
        have hA1 := h1.home_le hz hez hj ho            -- home of a = sg sl1 j, in sl1
        have hA2 := h2.home_le hz2 hez2 (by omega : ja < sl2.length) hoja
        rw [heja, hlen] at hA2
        have hstretch2 : ∀ w, w < sl2.length → off sl2.length z j ≤ off sl2.length z w →
            off sl2.length z w ≤ off sl2.length z ja → Occ sl2 w := by
          intro w hw hw1 hw2
          rw [hlen] at hw hw1 hw2
          by_cases e : w = ja
          · subst e; exact hoja
          · have hne' : off sl1.length z w ≠ off sl1.length z ja := fun e' => e (off_inj hz hw hja e')
            have hh := hm_lt hcap (sg sl1 j).1
            have d1 := dst_of_off hz hw hh (by omega)
            have d2 := dst_of_off hz hja hh (by omega)
            have := h2.chain ja w (by omega) (by omega) hoja (by rw [heja, hlen]; omega)
            exact this
        have hB1 := h2.home_le hz2 hez2 hj2 ho2
        have hB2 := h1.home_le hz hez hjb hojb
        rw [hejb] at hB2; rw [hlen] at hB1
        have hstretch1 : ∀ w, w < sl1.length → off sl1.length z j ≤ off sl1.length z w →
            off sl1.length z w ≤ off sl1.length z jb → Occ sl1 w := by
          intro w hw hw1 hw2
          by_cases e : w = jb
          · subst e; exact hojb
          · have hne' : off sl1.length z w ≠ off sl1.length z jb := fun e' => e (off_inj hz hw hjb e')
            have hh := hm_lt hcap (sg sl2 j).1
            have d1 := dst_of_off hz hw hh (by omega)
            have d2 := dst_of_off hz hjb hh (by omega)
            exact h1.chain jb w hjb hw hojb (by rw [hejb]; omega)
        have s2 := h2.sorted hz2 hez2 (off sl1.length z ja - n - 1) j ja hj2 (by omega) (by rw [hlen]; omega) hstretch2
        have s1 := h1.sorted hz hez (off sl1.length z jb - n - 1) j jb hj hjb (by omega) hstretch1
        rw [heja, hlen] at s2
        rw [hejb] at s1
        have := cmpz_swap sl1.length z (sg sl1 j).1 (sg sl2 j).1
        rw [s1, s2] at this
        cases this
      · have ho2 : ¬ Occ sl2 j := fun h => ho ((hocc j).mpr h)
        rw [h1.blank j hj ho, h2.blank j (by omega) ho2]
  apply List.ext_getElem hlen.symm
  intro i hi1 hi2
  have := key _ i hi1 rfl
  unfold sg at this
  simpa [List.getD_eq_getElem?_getD, hi1, hi2] using this

end JanetModel.Value
