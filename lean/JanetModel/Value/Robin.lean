/- C03 — the slot array built by `janet_struct_put` is a function of the key/value map alone:
   the robin-hood ordering invariant, its preservation by `putLoop`, uniqueness of the layout. -/
import JanetModel.Value.Order
import JanetModel.Value.Struct

namespace JanetModel.Value
open JanetModel.Gen.Value

/-! ### cyclic index arithmetic without `%` -/

theorem mod_two_cap {x cap : Nat} (h : x < 2 * cap) : x % cap = if x < cap then x else x - cap := by
  split
  · exact Nat.mod_eq_of_lt (by assumption)
  · rw [Nat.mod_eq_sub_mod (by omega)]; exact Nat.mod_eq_of_lt (by omega)

/-- distance of slot `i` from home slot `h` (struct.c: `(i + cap - otherindex) & (cap - 1)`) -/
def dst (cap i h : Nat) : Nat := (i + cap - h) % cap
/-- next slot (wrapping) -/
def nx (cap i : Nat) : Nat := (i + 1) % cap

theorem dst_eq {cap i h : Nat} (hi : i < cap) (hh : h < cap) : dst cap i h = if h ≤ i then i - h else i + cap - h := by
  unfold dst; rw [mod_two_cap (by omega)]; split <;> split <;> omega

theorem nx_eq {cap i : Nat} (hi : i < cap) : nx cap i = if i + 1 < cap then i + 1 else 0 := by
  unfold nx; rw [mod_two_cap (by omega)]; split <;> omega

theorem nx_lt {cap i : Nat} (hi : i < cap) : nx cap i < cap := by rw [nx_eq hi]; split <;> omega
theorem dst_lt {cap i h : Nat} (hi : i < cap) (hh : h < cap) : dst cap i h < cap := by rw [dst_eq hi hh]; split <;> omega


theorem dst_cases {cap i h : Nat} (hi : i < cap) (hh : h < cap) :
    (h ≤ i ∧ dst cap i h = i - h) ∨ (i < h ∧ dst cap i h = i + cap - h) := by
  rw [dst_eq hi hh]; split <;> omega

theorem nx_cases {cap i : Nat} (hi : i < cap) :
    (i + 1 < cap ∧ nx cap i = i + 1) ∨ (i + 1 = cap ∧ nx cap i = 0) := by
  rw [nx_eq hi]; split <;> omega

theorem dst_self {cap i : Nat} (hi : i < cap) : dst cap i i = 0 := by have := dst_cases hi hi; omega

theorem dst_zero_iff {cap i h : Nat} (hi : i < cap) (hh : h < cap) : dst cap i h = 0 ↔ i = h := by
  have := dst_cases hi hh; omega

theorem dst_inj_left {cap a b h : Nat} (ha : a < cap) (hb : b < cap) (hh : h < cap)
    (e : dst cap a h = dst cap b h) : a = b := by
  have := dst_cases ha hh; have := dst_cases hb hh; omega

theorem nx_inj {cap a b : Nat} (ha : a < cap) (hb : b < cap) (e : nx cap a = nx cap b) : a = b := by
  have := nx_cases ha; have := nx_cases hb; omega

theorem dst_nx {cap i h : Nat} (hi : i < cap) (hh : h < cap) (hlt : dst cap i h + 1 < cap) :
    dst cap (nx cap i) h = dst cap i h + 1 := by
  have hn := nx_lt hi
  have := nx_cases hi; have := dst_cases hi hh; have := dst_cases hn hh; omega

theorem dst_nx_of_ne {cap i h : Nat} (hi : i < cap) (hh : h < cap) (hne : h ≠ nx cap i) :
    dst cap (nx cap i) h = dst cap i h + 1 := by
  have hn := nx_lt hi
  have := nx_cases hi; have := dst_cases hi hh; have := dst_cases hn hh; omega

/-- distance from `i` of a slot `j ≠ i`, seen from the next slot -/
theorem dst_from_nx {cap i j : Nat} (hi : i < cap) (hj : j < cap) (hne : j ≠ i) :
    dst cap j i = dst cap j (nx cap i) + 1 := by
  have hn := nx_lt hi
  have := nx_cases hi; have := dst_cases hj hi; have := dst_cases hj hn; omega


/-! ### priority of two keys at a slot -/

variable {N : Type} [NumLike N]

theorem putStatus_then (d1 d2 : Nat) (h1 h2 : UInt32) (a b : JVal N) :
    putStatus d1 d2 h1 h2 a b = (natCmp d1 d2).then ((intCmp (sInt h1) (sInt h2)).then (jcompare a b)) := by
  unfold putStatus natCmp intCmp
  split
  · rfl
  · split
    · rfl
    · simp only [Ordering.then]
      split
      · rfl
      · split <;> rfl

variable [LawfulNum N]

theorem jcompare_swap (a b : JVal N) : jcompare b a = (jcompare a b).swap :=
  (swap_all (sizeOf a + sizeOf b)).1 a b (Nat.le_refl _)

theorem jcompare_tri (a b c : JVal N) : Tri (jcompare a b) (jcompare b c) (jcompare a c) :=
  (tri_all (sizeOf a + sizeOf b + sizeOf c)).1 a b c (Nat.le_refl _)

theorem jcompare_eq_iff (a b : JVal N) : jcompare a b = .eq ↔ contentEq a b = true :=
  (eqiff_all (sizeOf a + sizeOf b)).1 a b (Nat.le_refl _)

theorem putStatus_swap (d1 d2 : Nat) (h1 h2 : UInt32) (a b : JVal N) :
    putStatus d2 d1 h2 h1 b a = (putStatus d1 d2 h1 h2 a b).swap := by
  rw [putStatus_then, putStatus_then, swap_then', swap_then', natCmp_swap, intCmp_swap, jcompare_swap]

theorem putStatus_tri (d1 d2 d3 : Nat) (h1 h2 h3 : UInt32) (a b c : JVal N) :
    Tri (putStatus d1 d2 h1 h2 a b) (putStatus d2 d3 h2 h3 b c) (putStatus d1 d3 h1 h3 a c) := by
  rw [putStatus_then, putStatus_then, putStatus_then]
  exact Tri.then' (tri_natCmp _ _ _) (fun _ _ _ => Tri.then' (tri_intCmp _ _ _) (fun _ _ _ => jcompare_tri a b c))

theorem putStatus_gt_trans {d1 d2 d3 : Nat} {h1 h2 h3 : UInt32} {a b c : JVal N}
    (hab : putStatus d1 d2 h1 h2 a b = .gt) (hbc : putStatus d2 d3 h2 h3 b c = .gt) :
    putStatus d1 d3 h1 h3 a c = .gt := by
  have t := putStatus_tri d3 d2 d1 h3 h2 h1 c b a
  have e1 := putStatus_swap d1 d2 h1 h2 a b
  have e2 := putStatus_swap d2 d3 h2 h3 b c
  have e3 := putStatus_swap d1 d3 h1 h3 a c
  rw [hab] at e1; rw [hbc] at e2
  have := t.2.1 (by rw [e2]; rfl) (by rw [e1]; simp)
  rw [this] at e3
  cases h : putStatus d1 d3 h1 h3 a c <;> rw [h] at e3 <;> simp at e3 ⊢

theorem putStatus_eq_content {d1 d2 : Nat} {h1 h2 : UInt32} {a b : JVal N}
    (h : putStatus d1 d2 h1 h2 a b = .eq) : contentEq a b = true := by
  rw [putStatus_then, then_eq_iff, then_eq_iff] at h
  exact (jcompare_eq_iff a b).mp h.2.2


/-! ### the invariant -/

omit [LawfulNum N]

abbrev sg (sl : List (Slot N)) (i : Nat) : Slot N := sl.getD i emptySlot
/-- slot `i` holds an entry -/
def Occ (sl : List (Slot N)) (i : Nat) : Prop := (sg sl i).1.isNil = false
/-- home slot of a key -/
def hm (cap : Nat) (k : JVal N) : Nat := mapHash cap (hash k)
/-- priority of key `a` against key `b` at slot `i` (what `putStatus` computes when `a` travels and `b` resides, or vice versa) -/
def stat (cap i : Nat) (a b : JVal N) : Ordering :=
  putStatus (dst cap i (hm cap a)) (dst cap i (hm cap b)) (hash a) (hash b) a b

theorem hm_lt {cap : Nat} (h : 0 < cap) (k : JVal N) : hm cap k < cap := Nat.mod_lt _ h

omit [NumLike N] in
theorem sg_set (sl : List (Slot N)) (i j : Nat) (a : Slot N) :
    sg (sl.set i a) j = if i = j ∧ i < sl.length then a else sg sl j := by
  unfold sg
  simp only [List.getD_eq_getElem?_getD, List.getElem?_set]
  by_cases h : i = j
  · subst h
    by_cases h2 : i < sl.length
    · simp [h2]
    · simp [h2]
  · simp [h]

/-- the robin-hood invariant of a slot array -/
structure RH (sl : List (Slot N)) : Prop where
  /-- no hole between the home slot of an entry and the slot it sits in -/
  chain : ∀ i j, i < sl.length → j < sl.length → Occ sl i →
    dst sl.length j (hm sl.length (sg sl i).1) < dst sl.length i (hm sl.length (sg sl i).1) → Occ sl j
  /-- an entry has priority, at its own slot, over its successor (unless the successor sits at its home) -/
  order : ∀ i, i < sl.length → Occ sl i → Occ sl (nx sl.length i) →
    hm sl.length (sg sl (nx sl.length i)).1 ≠ nx sl.length i →
    stat sl.length i (sg sl i).1 (sg sl (nx sl.length i)).1 = .gt
  /-- keys are pairwise different -/
  distinct : ∀ a b, a < sl.length → b < sl.length → Occ sl a → Occ sl b →
    contentEq (sg sl a).1 (sg sl b).1 = true → a = b
  /-- unused slots are exactly (nil, nil) -/
  blank : ∀ j, j < sl.length → ¬ Occ sl j → sg sl j = emptySlot


theorem occ_set {sl : List (Slot N)} {i : Nat} (hi : i < sl.length) (k v : JVal N) (j : Nat) :
    Occ (sl.set i (k, v)) j ↔ (if j = i then k.isNil = false else Occ sl j) := by
  unfold Occ; rw [sg_set]
  by_cases h : j = i
  · subst h; simp [hi]
  · simp [h, Ne.symm h]

theorem occ_lt {sl : List (Slot N)} {i : Nat} (h : Occ sl i) : i < sl.length := by
  unfold Occ sg at h
  by_cases hl : i < sl.length
  · exact hl
  · rw [List.getD_eq_getElem?_getD, List.getElem?_eq_none (by omega)] at h
    simp [emptySlot, JVal.isNil] at h

/-- with an empty slot somewhere, a fully occupied stretch from `h` up to `i` cannot cover the whole array -/
theorem no_full {sl : List (Slot N)} {cap i h d : Nat} (hlen : sl.length = cap) (hi : i < cap) (hh : h < cap)
    (hz : ∃ z, z < cap ∧ ¬ Occ sl z) (hpath : ∀ j, j < cap → dst cap j h < d → Occ sl j) (hocc : Occ sl i)
    (hd : dst cap i h = d) : d + 1 < cap := by
  obtain ⟨z, hz1, hz2⟩ := hz
  have := dst_lt hi hh
  by_cases hlt : d + 1 < cap
  · exact hlt
  · exfalso
    have hdz := dst_lt hz1 hh
    by_cases e : dst cap z h < d
    · exact hz2 (hpath z hz1 e)
    · have : dst cap z h = dst cap i h := by omega
      have := dst_inj_left hz1 hi hh this
      subst this; exact hz2 hocc

variable [LawfulNum N]

/-- the travelling pair takes an occupied slot from a resident it has priority over -/
theorem RH.set_occupied {sl : List (Slot N)} (hrh : RH sl) {i : Nat} (hi : i < sl.length) (hocc : Occ sl i)
    {key value : JVal N} (hk : key.isNil = false)
    (hpath : ∀ j, j < sl.length → dst sl.length j (hm sl.length key) < dst sl.length i (hm sl.length key) → Occ sl j)
    (hprev : ∀ p, p < sl.length → nx sl.length p = i → hm sl.length key ≠ i → stat sl.length p (sg sl p).1 key = .gt)
    (hgt : stat sl.length i key (sg sl i).1 = .gt)
    (hnew : ∀ j, j < sl.length → Occ sl j → contentEq key (sg sl j).1 = false)
    (hz : ∃ z, z < sl.length ∧ ¬ Occ sl z) :
    RH (sl.set i (key, value)) := by
  have hlen : (sl.set i (key, value)).length = sl.length := by simp
  have hoc : ∀ j, Occ (sl.set i (key, value)) j ↔ Occ sl j := by
    intro j; rw [occ_set hi]; by_cases h : j = i
    · subst h; simp [hk, hocc]
    · simp [h]
  have hsg : ∀ j, sg (sl.set i (key, value)) j = if j = i then (key, value) else sg sl j := by
    intro j; rw [sg_set]; by_cases h : j = i
    · subst h; simp [hi]
    · simp [h, Ne.symm h]
  have hni : nx sl.length i ≠ i := by
    intro e
    obtain ⟨z, hz1, hz2⟩ := hz
    have := nx_cases hi
    have : z = i := by omega
    subst this; exact hz2 hocc
  refine ⟨?_, ?_, ?_, ?_⟩
  rotate_left 3
  · intro j hj hnj
    rw [hlen] at hj; rw [hoc] at hnj; rw [hsg]
    have : j ≠ i := fun e => hnj (e ▸ hocc)
    simp only [this, if_false]; exact hrh.blank j hj hnj
  · intro x j hx hj hox hd
    rw [hlen] at hx hj hd; rw [hoc] at hox ⊢
    rw [hsg] at hd
    by_cases hxi : x = i
    · subst hxi; simp only [if_true] at hd; exact hpath j hj hd
    · simp only [hxi, if_false] at hd; exact hrh.chain x j hx hj hox hd
  · intro x hx hox hon hne
    rw [hlen] at hx hne hon ⊢; rw [hoc] at hox hon
    rw [hsg, hsg] at *
    by_cases hxi : x = i
    · subst hxi
      simp only [if_true, hni, if_false] at hne ⊢
      have := hrh.order x hx hox hon hne
      exact putStatus_gt_trans hgt this
    · simp only [hxi, if_false] at hne ⊢
      by_cases hnxi : nx sl.length x = i
      · simp only [hnxi, if_true] at hne ⊢
        exact hprev x hx hnxi (by rw [← hnxi] at hne ⊢; exact hne)
      · simp only [hnxi, if_false] at hne ⊢
        exact hrh.order x hx hox hon hne
  · intro a b ha hb hoa hob he
    rw [hlen] at ha hb; rw [hoc] at hoa hob
    rw [hsg, hsg] at he
    by_cases hai : a = i <;> by_cases hbi : b = i
    · rw [hai, hbi]
    · simp only [hai, if_true, hbi, if_false] at he
      rw [hnew b hb hob] at he; cases he
    · simp only [hai, if_false, hbi, if_true] at he
      rw [contentEq_symm_both.1, hnew a ha hoa] at he; cases he
    · simp only [hai, hbi, if_false] at he
      exact hrh.distinct a b ha hb hoa hob he


/-- the travelling pair is put into an empty slot -/
theorem RH.set_empty {sl : List (Slot N)} (hrh : RH sl) {i : Nat} (hi : i < sl.length) (hemp : ¬ Occ sl i)
    {key value : JVal N} (hk : key.isNil = false)
    (hpath : ∀ j, j < sl.length → dst sl.length j (hm sl.length key) < dst sl.length i (hm sl.length key) → Occ sl j)
    (hprev : ∀ p, p < sl.length → nx sl.length p = i → hm sl.length key ≠ i → stat sl.length p (sg sl p).1 key = .gt)
    (hnew : ∀ j, j < sl.length → Occ sl j → contentEq key (sg sl j).1 = false) :
    RH (sl.set i (key, value)) := by
  have hlen : (sl.set i (key, value)).length = sl.length := by simp
  have hcap : 0 < sl.length := by omega
  have hoc : ∀ j, Occ (sl.set i (key, value)) j ↔ (j = i ∨ Occ sl j) := by
    intro j; rw [occ_set hi]; by_cases h : j = i
    · subst h; simp [hk]
    · simp [h]
  have hsg : ∀ j, sg (sl.set i (key, value)) j = if j = i then (key, value) else sg sl j := by
    intro j; rw [sg_set]; by_cases h : j = i
    · subst h; simp [hi]
    · simp [h, Ne.symm h]
  refine ⟨?_, ?_, ?_, ?_⟩
  rotate_left 3
  · intro j hj hnj
    rw [hlen] at hj; rw [hoc] at hnj; rw [hsg]
    have : j ≠ i := fun e => hnj (Or.inl e)
    simp only [this, if_false]; exact hrh.blank j hj (fun h => hnj (Or.inr h))
  · intro x j hx hj hox hd
    rw [hlen] at hx hj hd; rw [hoc] at hox ⊢
    rw [hsg] at hd
    by_cases hxi : x = i
    · subst hxi; simp only [if_true] at hd; exact Or.inr (hpath j hj hd)
    · simp only [hxi, if_false] at hd
      rcases hox with h | h
      · exact absurd h hxi
      · exact Or.inr (hrh.chain x j hx hj h hd)
  · intro x hx hox hon hne
    rw [hlen] at hx hne hon ⊢; rw [hoc] at hox hon
    rw [hsg, hsg] at *
    by_cases hxi : x = i
    · subst hxi
      exfalso
      by_cases hni : nx sl.length x = x
      · simp only [hni, if_true] at hne
        have := nx_cases hx
        have := hm_lt hcap key
        omega
      · simp only [hni, if_false] at hne
        rcases hon with h | h
        · exact hni h
        · have hn := nx_lt hx
          have hh := hm_lt hcap (sg sl (nx sl.length x)).1
          have e := dst_nx_of_ne hx hh hne
          exact hemp (hrh.chain (nx sl.length x) x hn hx h (by omega))
    · simp only [hxi, if_false] at hne ⊢
      have hox' : Occ sl x := by rcases hox with h | h; exact absurd h hxi; exact h
      by_cases hnxi : nx sl.length x = i
      · simp only [hnxi, if_true] at hne ⊢
        exact hprev x hx hnxi (by rw [← hnxi] at hne ⊢; exact hne)
      · simp only [hnxi, if_false] at hne ⊢
        have hon' : Occ sl (nx sl.length x) := by rcases hon with h | h; exact absurd h hnxi; exact h
        exact hrh.order x hx hox' hon' hne
  · intro a b ha hb hoa hob he
    rw [hlen] at ha hb; rw [hoc] at hoa hob
    rw [hsg, hsg] at he
    by_cases hai : a = i <;> by_cases hbi : b = i
    · rw [hai, hbi]
    · simp only [hai, if_true, hbi, if_false] at he
      have hob' : Occ sl b := by rcases hob with h | h; exact absurd h hbi; exact h
      rw [hnew b hb hob'] at he; cases he
    · simp only [hai, if_false, hbi, if_true] at he
      have hoa' : Occ sl a := by rcases hoa with h | h; exact absurd h hai; exact h
      rw [contentEq_symm_both.1, hnew a ha hoa'] at he; cases he
    · simp only [hai, hbi, if_false] at he
      have hoa' : Occ sl a := by rcases hoa with h | h; exact absurd h hai; exact h
      have hob' : Occ sl b := by rcases hob with h | h; exact absurd h hbi; exact h
      exact hrh.distinct a b ha hb hoa' hob' he


/-- the array holds the entry `e` -/
def Has (sl : List (Slot N)) (e : Slot N) : Prop := ∃ j, j < sl.length ∧ Occ sl j ∧ sg sl j = e


/-- the pairs stored in a slot array, in slot order -/
def entries (sl : List (Slot N)) : List (Slot N) := sl.filter (fun s => !s.1.isNil)

omit [LawfulNum N] in
theorem entries_cons (a : Slot N) (l : List (Slot N)) :
    entries (a :: l) = if a.1.isNil then entries l else a :: entries l := by
  unfold entries; rw [List.filter_cons]; cases a.1.isNil <;> simp

omit [LawfulNum N] in
/-- overwriting an occupied slot swaps one entry for another -/
theorem entries_set_occ : ∀ (sl : List (Slot N)) (i : Nat) (new : Slot N), i < sl.length → Occ sl i → new.1.isNil = false →
    (sg sl i :: entries (sl.set i new)).Perm (new :: entries sl)
  | [], _, _, h, _, _ => by simp at h
  | a :: l, 0, new, _, ho, hn => by
      have ha : a.1.isNil = false := by simpa [Occ, sg] using ho
      simp only [List.set_cons_zero, entries_cons, hn, ha, Bool.false_eq_true, if_false]
      simp only [sg, List.getD_cons_zero]
      exact List.Perm.swap _ _ _
  | a :: l, i + 1, new, h, ho, hn => by
      have ih := entries_set_occ l i new (by simpa using h) (by simpa [Occ, sg] using ho) hn
      have e : sg (a :: l) (i + 1) = sg l i := by simp [sg]
      rw [e]
      simp only [List.set_cons_succ, entries_cons]
      cases a.1.isNil with
      | true => simpa using ih
      | false =>
        simp only [Bool.false_eq_true, if_false]
        exact ((List.Perm.swap _ _ _).trans (ih.cons a)).trans (List.Perm.swap _ _ _)

omit [LawfulNum N] in
/-- filling an empty slot adds one entry -/
theorem entries_set_empty : ∀ (sl : List (Slot N)) (i : Nat) (new : Slot N), i < sl.length → ¬ Occ sl i → new.1.isNil = false →
    (entries (sl.set i new)).Perm (new :: entries sl)
  | [], _, _, h, _, _ => by simp at h
  | a :: l, 0, new, _, ho, hn => by
      have ha : a.1.isNil = true := by
        cases h : a.1.isNil with
        | true => rfl
        | false => exact absurd (by simpa [Occ, sg] using h) ho
      simp only [List.set_cons_zero, entries_cons, hn, ha, Bool.false_eq_true, if_false, if_true]
      exact List.Perm.refl _
  | a :: l, i + 1, new, h, ho, hn => by
      have ih := entries_set_empty l i new (by simpa using h) (by simpa [Occ, sg] using ho) hn
      simp only [List.set_cons_succ, entries_cons]
      cases a.1.isNil with
      | true => simpa using ih
      | false =>
        simp only [Bool.false_eq_true, if_false]
        exact (ih.cons a).trans (List.Perm.swap _ _ _)


theorem putLoop_step_empty {cap : Nat} {replace : Bool} {fuel i dist : Nat} {key value : JVal N} {h : UInt32}
    {sl : List (Slot N)} (he : (sg sl i).1.isNil = true) :
    putLoop cap replace (fuel + 1) i dist key value h sl = (sl.set i (key, value), true) := by
  rw [putLoop]; simp only [sg] at he; simp only [he, if_true]

theorem putLoop_step_occ {cap : Nat} {replace : Bool} {fuel i dist : Nat} {key value : JVal N} {h : UInt32}
    {sl : List (Slot N)} (he : (sg sl i).1.isNil = false) :
    putLoop cap replace (fuel + 1) i dist key value h sl =
      match putStatus dist (dst cap i (hm cap (sg sl i).1)) h (hash (sg sl i).1) key (sg sl i).1 with
      | .gt => putLoop cap replace fuel (nx cap i) (dst cap i (hm cap (sg sl i).1) + 1) (sg sl i).1 (sg sl i).2
                 (hash (sg sl i).1) (sl.set i (key, value))
      | .eq => ((if replace then sl.set i ((sg sl i).1, value) else sl), false)
      | .lt => putLoop cap replace fuel (nx cap i) (dist + 1) key value h sl := by
  rw [putLoop]; simp only [sg] at he; simp only [he, Bool.false_eq_true, if_false]; rfl


theorem has_set_occ {sl : List (Slot N)} {i : Nat} (hi : i < sl.length) (hocc : Occ sl i) (hd : RH sl)
    {key value : JVal N} (hk : key.isNil = false) (e : Slot N) :
    Has (sl.set i (key, value)) e ↔ ((Has sl e ∧ e ≠ sg sl i) ∨ e = (key, value)) := by
  have hsg : ∀ j, sg (sl.set i (key, value)) j = if j = i then (key, value) else sg sl j := by
    intro j; rw [sg_set]; by_cases h : j = i
    · subst h; simp [hi]
    · simp [h, Ne.symm h]
  have hoc : ∀ j, Occ (sl.set i (key, value)) j ↔ Occ sl j := by
    intro j; rw [occ_set hi]; by_cases h : j = i
    · subst h; simp [hk, hocc]
    · simp [h]
  unfold Has
  constructor
  · rintro ⟨j, hj, ho, he⟩
    rw [hsg] at he; rw [hoc] at ho
    simp only [List.length_set] at hj
    by_cases hji : j = i
    · simp only [hji, if_true] at he; exact Or.inr he.symm
    · simp only [hji, if_false] at he
      refine Or.inl ⟨⟨j, hj, ho, he⟩, fun h => ?_⟩
      rw [← he] at h
      exact hji (hd.distinct j i hj hi ho hocc (by rw [h]; exact contentEq_refl_both.1 _))
  · rintro (⟨⟨j, hj, ho, he⟩, hne⟩ | h)
    · have hji : j ≠ i := fun e' => hne (by rw [← he, e'])
      exact ⟨j, by simpa using hj, (hoc j).mpr ho, by rw [hsg]; simp only [hji, if_false]; exact he⟩
    · exact ⟨i, by simpa using hi, (hoc i).mpr hocc, by rw [hsg]; simp [h]⟩

theorem has_set_empty {sl : List (Slot N)} {i : Nat} (hi : i < sl.length) (hemp : ¬ Occ sl i)
    {key value : JVal N} (hk : key.isNil = false) (e : Slot N) :
    Has (sl.set i (key, value)) e ↔ (Has sl e ∨ e = (key, value)) := by
  have hsg : ∀ j, sg (sl.set i (key, value)) j = if j = i then (key, value) else sg sl j := by
    intro j; rw [sg_set]; by_cases h : j = i
    · subst h; simp [hi]
    · simp [h, Ne.symm h]
  have hoc : ∀ j, Occ (sl.set i (key, value)) j ↔ (j = i ∨ Occ sl j) := by
    intro j; rw [occ_set hi]; by_cases h : j = i
    · subst h; simp [hk]
    · simp [h]
  unfold Has
  constructor
  · rintro ⟨j, hj, ho, he⟩
    rw [hsg] at he; rw [hoc] at ho
    simp only [List.length_set] at hj
    by_cases hji : j = i
    · simp only [hji, if_true] at he; exact Or.inr he.symm
    · simp only [hji, if_false] at he
      rcases ho with h | h
      · exact absurd h hji
      · exact Or.inl ⟨j, hj, h, he⟩
  · rintro (⟨j, hj, ho, he⟩ | h)
    · have hji : j ≠ i := fun e' => hemp (e' ▸ ho)
      exact ⟨j, by simpa using hj, (hoc j).mpr (Or.inr ho), by rw [hsg]; simp only [hji, if_false]; exact he⟩
    · exact ⟨i, by simpa using hi, (hoc i).mpr (Or.inl rfl), by rw [hsg]; simp [h]⟩

/-- **the probe loop of `janet_struct_put_ext`** inserting a key that is not in the array: it fills the first empty slot
    at or after the start slot, keeps the robin-hood invariant, and adds exactly the new pair.
    The displaced pair always travels on with ITS OWN hash and distance (`hash kv.1`, `otherdist + 1`). -/
theorem putLoop_spec (cap : Nat) (replace : Bool) (i0 : Nat) (hi0 : i0 < cap) :
    ∀ (fuel s i : Nat) (key value : JVal N) (sl : List (Slot N)),
      sl.length = cap → RH sl → i < cap → s + fuel = cap → dst cap i i0 = s →
      (∀ j, j < cap → dst cap j i0 < s → Occ sl j) →
      (∃ z, z < cap ∧ ¬ Occ sl z) →
      key.isNil = false →
      (∀ j, j < cap → dst cap j (hm cap key) < dst cap i (hm cap key) → Occ sl j) →
      (∀ p, p < cap → nx cap p = i → hm cap key ≠ i → stat cap p (sg sl p).1 key = .gt) →
      (∀ j, j < cap → Occ sl j → contentEq key (sg sl j).1 = false) →
      ∃ f sl', f < cap ∧ putLoop cap replace fuel i (dst cap i (hm cap key)) key value (hash key) sl = (sl', true) ∧
        sl'.length = cap ∧ RH sl' ∧ ¬ Occ sl f ∧
        (∀ j, j < cap → dst cap j i < dst cap f i → Occ sl j) ∧
        (∀ j, Occ sl' j ↔ (Occ sl j ∨ j = f)) ∧
        (∀ e, Has sl' e ↔ (Has sl e ∨ e = (key, value))) ∧
        (entries sl').Perm ((key, value) :: entries sl) := by
  intro fuel
  induction fuel with
  | zero =>
    intro s i key value sl hlen hrh hi hs hd
    have := dst_lt hi hi0; omega
  | succ fuel ih =>
    intro s i key value sl hlen hrh hi hs hd hvis hz hk hpath hprev hnew
    subst hlen
    have hcap : 0 < sl.length := by omega
    by_cases hocc : Occ sl i
    · -- occupied: compare with the resident
      have hocc' : (sg sl i).1.isNil = false := hocc
      rw [putLoop_step_occ hocc']
      have hr_home := hm_lt hcap (sg sl i).1
      have hk_home := hm_lt hcap key
      have hn := nx_lt hi
      -- the visited stretch does not cover the array
      have hs1 : s + 1 < sl.length := no_full rfl hi hi0 hz hvis hocc hd
      have hvis' : ∀ (sl2 : List (Slot N)), (∀ j, Occ sl2 j ↔ Occ sl j) →
          ∀ j, j < sl.length → dst sl.length j i0 < s + 1 → Occ sl2 j := by
        intro sl2 ho j hj hlt
        rw [ho]
        by_cases e : dst sl.length j i0 < s
        · exact hvis j hj e
        · have : j = i := dst_inj_left hj hi hi0 (by omega)
          subst this; exact hocc
      have hd' : dst sl.length (nx sl.length i) i0 = s + 1 := by rw [dst_nx hi hi0 (by omega), hd]
      cases hst : putStatus (dst sl.length i (hm sl.length key)) (dst sl.length i (hm sl.length (sg sl i).1)) (hash key)
          (hash (sg sl i).1) key (sg sl i).1 with
      | eq =>
        exfalso
        have := putStatus_eq_content hst
        rw [hnew i hi hocc] at this; cases this
      | gt =>
        have hrh1 := hrh.set_occupied hi hocc (value := value) hk hpath hprev hst hnew hz
        have hoc1 : ∀ j, Occ (sl.set i (key, value)) j ↔ Occ sl j := by
          intro j; rw [occ_set hi]; by_cases h : j = i
          · subst h; simp [hk, hocc]
          · simp [h]
        have hsg1 : ∀ j, sg (sl.set i (key, value)) j = if j = i then (key, value) else sg sl j := by
          intro j; rw [sg_set]; by_cases h : j = i
          · subst h; simp [hi]
          · simp [h, Ne.symm h]
        have hrd : dst sl.length i (hm sl.length (sg sl i).1) + 1 < sl.length :=
          no_full rfl hi hr_home hz (fun j hj hlt => hrh.chain i j hi hj hocc hlt) hocc rfl
        have hrdn : dst sl.length (nx sl.length i) (hm sl.length (sg sl i).1) = dst sl.length i (hm sl.length (sg sl i).1) + 1 :=
          dst_nx hi hr_home hrd
        have := ih (s + 1) (nx sl.length i) (sg sl i).1 (sg sl i).2 (sl.set i (key, value)) (by simp) hrh1 hn (by omega) hd'
          (hvis' _ hoc1)
          (by obtain ⟨z, hz1, hz2⟩ := hz; exact ⟨z, hz1, fun h => hz2 ((hoc1 z).mp h)⟩)
          hocc'
          (by
            intro j hj hlt
            rw [hoc1, ]
            rw [hrdn] at hlt
            by_cases e : dst sl.length j (hm sl.length (sg sl i).1) < dst sl.length i (hm sl.length (sg sl i).1)
            · exact hrh.chain i j hi hj hocc e
            · have : j = i := dst_inj_left hj hi hr_home (by omega)
              subst this; exact hocc)
          (by
            intro p hp hnp _
            have : p = i := nx_inj hp hi hnp
            subst this
            rw [hsg1]; simp only [if_true]
            exact hst)
          (by
            intro j hj hoj
            rw [hoc1] at hoj
            rw [hsg1]
            by_cases hji : j = i
            · subst hji; simp only [if_true]
              rw [contentEq_symm_both.1]; exact hnew j hj hoj
            · simp only [hji, if_false]
              cases hce : contentEq (sg sl i).1 (sg sl j).1 with
              | false => rfl
              | true => exact absurd (hrh.distinct i j hi hj hocc hoj hce).symm hji)
        obtain ⟨f, sl', hf, hres, hlen', hrh', hnf, hpth, hocc2, hhas, hperm⟩ := this
        rw [hrdn] at hres
        have hfi : f ≠ i := fun e => hnf (by rw [e, hoc1]; exact hocc)
        refine ⟨f, sl', hf, ?_, hlen', hrh', fun h => hnf ((hoc1 f).mpr h), ?_, ?_, ?_, ?_⟩
        · have e : (sg sl i) = ((sg sl i).1, (sg sl i).2) := rfl
          exact hres
        · intro j hj hlt
          by_cases hji : j = i
          · subst hji; exact hocc
          · have e1 := dst_from_nx hi hj hji
            have e2 := dst_from_nx hi hf hfi
            exact (hoc1 j).mp (hpth j hj (by omega))
        · intro j; rw [hocc2, hoc1]
        · intro e
          rw [hhas, has_set_occ hi hocc hrh hk]
          constructor
          · rintro ((⟨h1, _⟩ | h1) | h1)
            · exact Or.inl h1
            · exact Or.inr h1
            · exact Or.inl ⟨i, hi, hocc, h1.symm⟩
          · rintro (h1 | h1)
            · by_cases he : e = sg sl i
              · exact Or.inr he
              · exact Or.inl (Or.inl ⟨h1, he⟩)
            · exact Or.inl (Or.inr h1)
        · exact hperm.trans (entries_set_occ sl i (key, value) hi hocc hk)
      | lt =>
        have hkd : dst sl.length i (hm sl.length key) + 1 < sl.length :=
          no_full rfl hi hk_home hz hpath hocc rfl
        have hkdn : dst sl.length (nx sl.length i) (hm sl.length key) = dst sl.length i (hm sl.length key) + 1 :=
          dst_nx hi hk_home hkd
        have := ih (s + 1) (nx sl.length i) key value sl rfl hrh hn (by omega) hd'
          (hvis' sl (fun _ => Iff.rfl)) hz hk
          (by
            intro j hj hlt
            rw [hkdn] at hlt
            by_cases e : dst sl.length j (hm sl.length key) < dst sl.length i (hm sl.length key)
            · exact hpath j hj e
            · have : j = i := dst_inj_left hj hi hk_home (by omega)
              subst this; exact hocc)
          (by
            intro p hp hnp _
            have : p = i := nx_inj hp hi hnp
            subst this
            have := putStatus_swap (dst sl.length p (hm sl.length key)) (dst sl.length p (hm sl.length (sg sl p).1)) (hash key)
              (hash (sg sl p).1) key (sg sl p).1
            rw [hst] at this
            exact this)
          hnew
        obtain ⟨f, sl', hf, hres, hlen', hrh', hnf, hpth, hocc2, hhas, hperm⟩ := this
        rw [hkdn] at hres
        have hfi : f ≠ i := fun e => hnf (by rw [e]; exact hocc)
        refine ⟨f, sl', hf, hres, hlen', hrh', hnf, ?_, hocc2, hhas, hperm⟩
        intro j hj hlt
        by_cases hji : j = i
        · subst hji; exact hocc
        · have e1 := dst_from_nx hi hj hji
          have e2 := dst_from_nx hi hf hfi
          exact hpth j hj (by omega)
    · -- empty slot: the pair is stored
      have hemp : (sg sl i).1.isNil = true := by
        unfold Occ at hocc; cases h : (sg sl i).1.isNil <;> simp_all
      rw [putLoop_step_empty hemp]
      refine ⟨i, sl.set i (key, value), hi, rfl, by simp, hrh.set_empty hi hocc hk hpath hprev hnew, hocc, ?_, ?_, ?_, ?_⟩
      · intro j hj hlt; rw [dst_self hi] at hlt; omega
      · intro j; rw [occ_set hi]; by_cases h : j = i
        · subst h; simp [hk]
        · simp [h]
      · intro e; exact has_set_empty hi hocc hk e
      · exact entries_set_empty sl i (key, value) hi hocc hk

end JanetModel.Value
