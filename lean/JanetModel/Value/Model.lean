/- C03 — executable model of janet's value equality, ordering and hashing.

   Mirrors (function by function):
     src/core/util.c    janet_hash_mix, janet_string_calchash, janet_array_calchash, janet_kv_calchash, janet_tablen
     src/core/value.c   janet_hash, janet_equals, janet_compare (the explicit traversal stack of the C is replaced by
                        structural recursion; the stack itself is C19's matter), murmur64
     src/core/string.c  janet_string_compare, janet_string_equalconst
     src/core/struct.c  janet_struct_begin, janet_struct_put_ext, janet_struct_end   (see Value/Struct.lean)

   Numbers are abstract: any type `N` with `NumLike N` (IEEE `==`, `<`, and the 64-bit pattern after `d += 0.0`).
   The laws that non-NaN doubles satisfy are the class `LawfulNum` (Value/Lemmas.lean), the laws of all doubles, NaN
   included, the class `LawfulNaNNum` (Value/NaNNum.lean); `F64` below is the executable instance on ALL 64-bit patterns
   used by the driver (Value/F64.lean: `LawfulNaNNum F64`, hence `LawfulNum (NonNaN F64)`).

   CORE LEAN ONLY (the driver links this file). -/
import JanetModel.Gen.Value

namespace JanetModel.Value
open JanetModel.Gen.Value

/-- what the model needs from doubles: `==`, `<`, and the bit pattern after `as.d += 0.0` (value.c janet_hash) -/
class NumLike (N : Type) where
  eq : N → N → Bool
  lt : N → N → Bool
  normBits : N → UInt64

/-- reference ("identity") types: compared by address -/
inductive RefKind where
  | fiber | array | table | buffer | function | cfunction | pointer
  deriving DecidableEq, Repr

def RefKind.tag : RefKind → Nat
  | .fiber => tyFiber | .array => tyArray | .table => tyTable | .buffer => tyBuffer
  | .function => tyFunction | .cfunction => tyCfunction | .pointer => tyPointer

/-- A janet value.  `struct flat proto`: `flat` is the slot array of the struct, flattened as
    key₀, value₀, key₁, value₁, … (an empty slot is nil, nil), exactly the order in which value.c traverses it;
    `proto = []` stands for a NULL prototype pointer, `proto = [p]` for the prototype `p` (an optional value written
    as a list so that one list traversal serves tuples, slots and prototypes; only the head is ever a prototype).  `ref k bits`: `bits` is the 64-bit NaN-boxed word
    (type tag and address), which is what `janet_hash` feeds to murmur64 and what pointer comparison orders by
    (same kind ⇒ same tag bits). -/
inductive JVal (N : Type) where
  | num (n : N)
  | nil
  | bool (b : Bool)
  | str (bs : List UInt8)
  | sym (bs : List UInt8)
  | kw (bs : List UInt8)
  | tuple (bracket : Bool) (xs : List (JVal N))
  | struct (flat : List (JVal N)) (proto : List (JVal N))
  | ref (kind : RefKind) (bits : UInt64)
  deriving Repr

namespace JVal
variable {N : Type}

/-- `janet_type(x)` as the enum value (janet.h JanetType) -/
def typeTag : JVal N → Nat
  | .num _ => tyNumber | .nil => tyNil | .bool _ => tyBoolean
  | .str _ => tyString | .sym _ => tySymbol | .kw _ => tyKeyword
  | .tuple _ _ => tyTuple | .struct _ _ => tyStruct | .ref k _ => k.tag

def isNil : JVal N → Bool
  | .nil => true
  | _ => false

end JVal

/-! ### util.c -/

/-- `janet_hash_mix` -/
def hashMix (input more : UInt32) : UInt32 :=
  let mix1 := more + mixK1.toUInt32 + (input <<< mixShl1.toUInt32) + (input >>> mixShr1.toUInt32)
  input ^^^ (mixK2.toUInt32 + (mix1 <<< mixShl2.toUInt32) + (mix1 >>> mixShr2.toUInt32))

/-- `janet_string_calchash` (the non-`JANET_PRF` branch; the translator checks `JANET_PRF` is not configured) -/
def stringHash (bs : List UInt8) : UInt32 :=
  if bs.length = 0 then strEmpty.toUInt32
  else hashMix (bs.foldl (fun h b => (h <<< strShl.toUInt32) + h + b.toUInt32) strSeed.toUInt32) bs.length.toUInt32

/-- `janet_tablen` for 0 ≤ n < 2^31 -/
def tablen (n : Nat) : Nat :=
  (tablenShifts.foldl (fun n s => n ||| (n >>> s)) n) + 1

/-- `janet_maphash(cap, hash)`; `cap` is a power of two in every call, so `& (cap-1)` is `% cap` -/
def mapHash (cap : Nat) (h : UInt32) : Nat := h.toNat % cap

/-- the value of an `int32_t` holding the bits `h` (struct.c and value.c compare hashes as signed ints) -/
def sInt (h : UInt32) : Int := if h.toNat < 2147483648 then (h.toNat : Int) else (h.toNat : Int) - 4294967296

/-- `murmur64` -/
def murmur64 (h : UInt64) : UInt64 :=
  let h := h ^^^ (h >>> murShr1.toUInt64)
  let h := h * murMul1.toUInt64
  let h := h ^^^ (h >>> murShr2.toUInt64)
  let h := h * murMul2.toUInt64
  h ^^^ (h >>> murShr3.toUInt64)

/-- hash of a number from its normalised bit pattern (value.c janet_hash, JANET_NUMBER) -/
def numHashBits (u : UInt64) : UInt32 :=
  let lo := u.toUInt32
  let hi := (u >>> 32).toUInt32
  let hilo := (hi ^^^ lo) * numMul.toUInt32
  (hilo <<< numShl.toUInt32) ||| (hilo >>> numShr.toUInt32)

/-- default pointer hash on a 64-bit build (value.c janet_hash, default case) -/
def ptrHash (bits : UInt64) : UInt32 := (murmur64 bits >>> ptrShr.toUInt64).toUInt32

/-! ### string.c -/

/-- `janet_string_compare`: memcmp on the common prefix, then length -/
def bytesCompare : List UInt8 → List UInt8 → Ordering
  | [], [] => .eq
  | [], _ :: _ => .lt
  | _ :: _, [] => .gt
  | a :: as, b :: bs => if a < b then .lt else if b < a then .gt else bytesCompare as bs

/-- `janet_string_equal` = `janet_string_equalconst(lhs, rhs, len rhs, hash rhs)` -/
def bytesEqual (a b : List UInt8) : Bool :=
  if stringHash a != stringHash b || a.length != b.length then false else a == b

/-! ### value.c -/

section
variable {N : Type} [NumLike N]

mutual
/-- `janet_hash`.  For tuples and structs the C reads the hash stored by `janet_tuple_end` / `janet_struct_end`;
    here it is recomputed from the contents (the stored field is a pure function of them). -/
def hash : JVal N → UInt32
  | .num n => numHashBits (NumLike.normBits n)
  | .nil => 0
  | .bool b => if b then 1 else 0
  | .str bs => stringHash bs
  | .sym bs => stringHash bs
  | .kw bs => stringHash bs
  | .tuple br xs => hashFold arraySeed.toUInt32 xs + (if br then 1 else 0)
  | .struct flat proto =>
      -- janet_struct_end: kv hash, plus protoMul * hash of the prototype when there is one
      hashFold kvSeed.toUInt32 flat + (match proto with
        | [] => 0
        | p :: _ => protoMul.toUInt32 * hash p)
  | .ref _ bits => ptrHash bits
/-- the loop of `janet_array_calchash`; `janet_kv_calchash` is the same loop over key, value, key, value, … -/
def hashFold : UInt32 → List (JVal N) → UInt32
  | h, [] => h
  | h, x :: xs => hashFold (hashMix h (hash x)) xs
end

/-- `janet_tuple_hash(t)`: the field stored by `janet_tuple_end` (no bracket flag) -/
def tupleHash (xs : List (JVal N)) : UInt32 := hashFold arraySeed.toUInt32 xs

/-- `janet_struct_length(st)` for a finished struct: number of occupied slots -/
def structLength : List (JVal N) → Nat
  | k :: _ :: rest => (if k.isNil then 0 else 1) + structLength rest
  | _ => 0

mutual
/-- `janet_equals` -/
def equals : JVal N → JVal N → Bool
  | .num a, .num b => NumLike.eq a b
  | .nil, .nil => true
  | .bool a, .bool b => a == b
  | .str a, .str b => bytesEqual a b
  -- symbols and keywords: pointer comparison in C; interning makes that equality of bytes (Value/SymCache.lean)
  | .sym a, .sym b => a == b
  | .kw a, .kw b => a == b
  | .ref k1 b1, .ref k2 b2 => k1 == k2 && b1 == b2
  | .tuple br1 xs, .tuple br2 ys =>
      if br1 != br2 then false
      else if tupleHash xs != tupleHash ys then false
      else if xs.length != ys.length then false
      else equalsList xs ys
  | .struct f1 p1, .struct f2 p2 =>
      if hash (.struct f1 p1) != hash (.struct f2 p2) then false
      else if structLength f1 != structLength f2 then false
      else if !p1.isEmpty && p2.isEmpty then false
      else if p1.isEmpty && !p2.isEmpty then false
      else equalsList f1 f2 && equalsList p1 p2   -- slots, then (traversal_next) the prototypes, themselves structs
  | _, _ => false
/-- element-wise traversal (traversal_next with index2 = 0).  The C walks `capacity(self)` slots of both structs,
    relying on equal length ⇒ equal capacity (struct.c janet_struct_begin); the model requires equal lengths. -/
def equalsList : List (JVal N) → List (JVal N) → Bool
  | [], [] => true
  | x :: xs, y :: ys => equals x y && equalsList xs ys
  | _, _ => false
end

/-- comparison of two `int32_t` -/
def sCompare (a b : UInt32) : Ordering := compare (sInt a) (sInt b)

mutual
/-- `janet_compare` (result −1 / 0 / 1 as `Ordering`) -/
def jcompare : JVal N → JVal N → Ordering
  | .num a, .num b => if NumLike.eq a b then .eq else if NumLike.lt a b then .lt else .gt
  | .nil, .nil => .eq
  | .bool a, .bool b => compare a.toNat b.toNat
  | .str a, .str b => bytesCompare a b
  | .sym a, .sym b => bytesCompare a b
  | .kw a, .kw b => bytesCompare a b
  | .ref k1 b1, .ref k2 b2 =>
      if k1.tag != k2.tag then (if k1.tag < k2.tag then .lt else .gt)
      else if b1 == b2 then .eq else if b1 > b2 then .gt else .lt
  | .tuple br1 xs, .tuple br2 ys =>
      if br1 != br2 then (if br1 then .gt else .lt)
      else compareList xs ys
  | .struct f1 p1, .struct f2 p2 =>
      -- capacity, then stored hash as signed ints, then slots, then prototypes
      if f1.length / 2 < f2.length / 2 then .lt
      else if f1.length / 2 > f2.length / 2 then .gt
      else match sCompare (hash (.struct f1 p1)) (hash (.struct f2 p2)) with
        | .lt => .lt
        | .gt => .gt
        | .eq => match compareList f1 f2 with
          | .lt => .lt
          | .gt => .gt
          | .eq => compareList p1 p2   -- no proto < proto; both: compare the prototypes
  | x, y => if x.typeTag < y.typeTag then .lt else if x.typeTag > y.typeTag then .gt else .eq
/-- traversal_next with index2 = 1: element-wise, then by length -/
def compareList : List (JVal N) → List (JVal N) → Ordering
  | [], [] => .eq
  | [], _ :: _ => .lt
  | _ :: _, [] => .gt
  | x :: xs, y :: ys =>
      match jcompare x y with
      | .lt => .lt
      | .gt => .gt
      | .eq => compareList xs ys
end

/-- `<`, `<=`, `>`, `>=` (vm.c / corelib.c: `janet_compare(a, b) OP 0`) -/
def jlt (a b : JVal N) : Bool := jcompare a b == .lt
def jle (a b : JVal N) : Bool := jcompare a b != .gt
def jgt (a b : JVal N) : Bool := jcompare a b == .gt
def jge (a b : JVal N) : Bool := jcompare a b != .lt

end

/-! ### executable doubles: 64-bit patterns -/

/-- a double given by its IEEE-754 bit pattern -/
structure F64 where
  bits : UInt64
  deriving Repr, DecidableEq

namespace F64
def mag (x : F64) : Nat := x.bits.toNat % 9223372036854775808
def neg (x : F64) : Bool := 9223372036854775808 ≤ x.bits.toNat
def isNaN (x : F64) : Bool := 0x7FF0000000000000 < x.mag
/-- sign-magnitude reading of the pattern: for non-NaN doubles `==` and `<` are `=` and `<` of the keys -/
def key (x : F64) : Int := if x.neg then -(x.mag : Int) else (x.mag : Int)
end F64

/-- IEEE-754 `==`, `<` and `d += 0.0` on 64-bit patterns, NaN included: a NaN is `==` to nothing (not even itself) and
    unordered; `+= 0.0` turns −0 into +0 and quiets a signalling NaN (sets the top mantissa bit), everything else is kept -/
instance : NumLike F64 where
  eq a b := !a.isNaN && !b.isNaN && a.key == b.key
  lt a b := !a.isNaN && !b.isNaN && decide (a.key < b.key)
  normBits a := if a.bits == 0x8000000000000000 then 0 else if a.isNaN then a.bits ||| 0x0008000000000000 else a.bits

end JanetModel.Value
