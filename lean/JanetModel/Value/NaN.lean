/- C03 — NaN inside the model type.

   `JVal N` for a number type `N` WITH NaN (`LawfulNaNNum N`, e.g. `F64` = all 64-bit patterns with IEEE `==` / `<`).
   `lift : JVal (NonNaN N) → JVal N` embeds the values built from non-NaN numbers; `janet_hash`, `janet_equals`,
   `janet_compare` commute with it (`hash_lift`, `equals_lift`, `jcompare_lift`), and every NaN-free value of `JVal N`
   (`nanFree`: no NaN at any depth) is in its image (`lift_surj`).  So every law proved for lawful numbers holds on the
   NaN-free part of `JVal N` — stated in Props/C03.lean — while on NaN itself the laws fail (`nan_*` below), which is why
   the property excludes it.  `janet_struct_put_ext` refuses a NaN key (`structPutExt_nan_key`) and a whole struct
   construction commutes with `lift` (`structOfCount_lift`), NaN-keyed puts interspersed or not. -/
import JanetModel.Value.NaNNum
import JanetModel.Value.RobinDup

namespace JanetModel.Value
open JanetModel.Gen.Value

variable {N : Type} [NumLike N]

mutual
/-- the embedding of values over the non-NaN numbers -/
def lift : JVal (NonNaN N) → JVal N
  | .num n => .num n.1
  | .nil => .nil
  | .bool b => .bool b
  | .str b => .str b
  | .sym b => .sym b
  | .kw b => .kw b
  | .tuple br xs => .tuple br (liftList xs)
  | .struct f p => .struct (liftList f) (liftList p)
  | .ref k b => .ref k b
def liftList : List (JVal (NonNaN N)) → List (JVal N)
  | [] => []
  | x :: xs => lift x :: liftList xs
end

mutual
/-- no NaN at any depth -/
def nanFree : JVal N → Bool
  | .num n => NumLike.eq n n
  | .tuple _ xs => nanFreeList xs
  | .struct f p => nanFreeList f && nanFreeList p
  | _ => true
def nanFreeList : List (JVal N) → Bool
  | [] => true
  | x :: xs => nanFree x && nanFreeList xs
end

theorem liftList_eq_map (l : List (JVal (NonNaN N))) : liftList l = l.map lift := by
  induction l with
  | nil => rfl
  | cons x xs ih => simp [liftList, ih]

theorem liftList_length (l : List (JVal (NonNaN N))) : (liftList l).length = l.length := by
  rw [liftList_eq_map]; simp

theorem liftList_isEmpty (l : List (JVal (NonNaN N))) : (liftList l).isEmpty = l.isEmpty := by
  cases l <;> rfl

theorem typeTag_lift (a : JVal (NonNaN N)) : (lift a).typeTag = a.typeTag := by
  cases a <;> rfl

theorem isNil_lift (a : JVal (NonNaN N)) : (lift a).isNil = a.isNil := by
  cases a <;> rfl

theorem isNaNKey_lift (a : JVal (NonNaN N)) : isNaNKey (lift a) = isNaNKey a := by
  cases a <;> rfl

theorem structLength_lift : ∀ (l : List (JVal (NonNaN N))), structLength (liftList l) = structLength l
  | [] => rfl
  | [_] => rfl
  | k :: _ :: rest => by
      simp only [liftList, structLength, isNil_lift, structLength_lift rest]

/-- `janet_hash` commutes with the embedding -/
theorem hash_lift_both :
    (∀ a : JVal (NonNaN N), hash (lift a) = hash a) ∧
    (∀ l : List (JVal (NonNaN N)), (∀ h, hashFold h (liftList l) = hashFold h l) ∧ protoHash (liftList l) = protoHash l) := by
  apply JVal.induct (P := fun a => hash (lift a) = hash a)
    (Q := fun l => (∀ h, hashFold h (liftList l) = hashFold h l) ∧ protoHash (liftList l) = protoHash l)
  case num => intro n; rfl
  case tuple => intro br xs ih; simp only [lift]; rw [hash_tuple, hash_tuple, tupleHash, tupleHash, ih.1]
  case struct => intro f p ihf ihp; simp only [lift]; rw [hash_struct, hash_struct, ihf.1, ihp.2]
  case lnil => exact ⟨fun _ => rfl, rfl⟩
  case lcons =>
    intro x xs ihx ihxs
    refine ⟨fun h => ?_, ?_⟩
    · simp only [liftList, hashFold, ihx, ihxs.1]
    · simp only [liftList, protoHash, ihx]
  all_goals intros; rfl

theorem hash_lift (a : JVal (NonNaN N)) : hash (lift a) = hash a := hash_lift_both.1 a

theorem tupleHash_lift (l : List (JVal (NonNaN N))) : tupleHash (liftList l) = tupleHash l := (hash_lift_both.2 l).1 _

/-- `janet_equals` commutes with the embedding -/
theorem equals_lift_both :
    (∀ a b : JVal (NonNaN N), equals (lift a) (lift b) = equals a b) ∧
    (∀ l m : List (JVal (NonNaN N)), equalsList (liftList l) (liftList m) = equalsList l m) := by
  apply JVal.induct (P := fun a => ∀ b, equals (lift a) (lift b) = equals a b)
    (Q := fun l => ∀ m, equalsList (liftList l) (liftList m) = equalsList l m)
  case tuple =>
    intro br xs ih b
    cases b <;> simp only [lift, equals]
    rename_i br2 ys
    rw [tupleHash_lift, tupleHash_lift, liftList_length, liftList_length, ih ys]
  case struct =>
    intro f p ihf ihp b
    cases b <;> simp only [lift, equals]
    rename_i f2 p2
    have h1 : hash (JVal.struct (liftList f) (liftList p) : JVal N) = hash (JVal.struct f p) := hash_lift (.struct f p)
    have h2 : hash (JVal.struct (liftList f2) (liftList p2) : JVal N) = hash (JVal.struct f2 p2) := hash_lift (.struct f2 p2)
    rw [h1, h2, structLength_lift, structLength_lift, liftList_isEmpty, liftList_isEmpty, ihf f2, ihp p2]
  case lnil => intro m; cases m <;> rfl
  case lcons =>
    intro x xs ihx ihxs m
    cases m with
    | nil => rfl
    | cons y ys => simp only [liftList, equalsList, ihx y, ihxs ys]
  all_goals intros
  all_goals (rename_i b; cases b <;> simp only [lift, equals] <;> rfl)

theorem equals_lift (a b : JVal (NonNaN N)) : equals (lift a) (lift b) = equals a b := equals_lift_both.1 a b

/-- `janet_compare` commutes with the embedding -/
theorem jcompare_lift_both :
    (∀ a b : JVal (NonNaN N), jcompare (lift a) (lift b) = jcompare a b) ∧
    (∀ l m : List (JVal (NonNaN N)), compareList (liftList l) (liftList m) = compareList l m) := by
  apply JVal.induct (P := fun a => ∀ b, jcompare (lift a) (lift b) = jcompare a b)
    (Q := fun l => ∀ m, compareList (liftList l) (liftList m) = compareList l m)
  case tuple =>
    intro br xs ih b
    cases b <;> try rfl
    rename_i br2 ys
    simp only [lift, jcompare]
    rw [ih ys]
  case struct =>
    intro f p ihf ihp b
    cases b <;> try rfl
    rename_i f2 p2
    have h1 : hash (JVal.struct (liftList f) (liftList p) : JVal N) = hash (JVal.struct f p) := hash_lift (.struct f p)
    have h2 : hash (JVal.struct (liftList f2) (liftList p2) : JVal N) = hash (JVal.struct f2 p2) := hash_lift (.struct f2 p2)
    simp only [lift, jcompare]
    rw [h1, h2, liftList_length, liftList_length, ihf f2, ihp p2]
  case lnil => intro m; cases m <;> rfl
  case lcons =>
    intro x xs ihx ihxs m
    cases m with
    | nil => rfl
    | cons y ys => simp only [liftList, compareList, ihx y, ihxs ys]
  all_goals intros
  all_goals (rename_i b; cases b <;> rfl)

theorem jcompare_lift (a b : JVal (NonNaN N)) : jcompare (lift a) (lift b) = jcompare a b := jcompare_lift_both.1 a b

/-- the image of the embedding is exactly the NaN-free values -/
theorem nanFree_lift_both :
    (∀ a : JVal (NonNaN N), nanFree (lift a) = true) ∧ (∀ l : List (JVal (NonNaN N)), nanFreeList (liftList l) = true) := by
  apply JVal.induct
  case num => intro n; exact n.2
  case tuple => intro br xs ih; simpa only [lift, nanFree] using ih
  case struct => intro f p ihf ihp; simp only [lift, nanFree, ihf, ihp, Bool.and_self]
  case lnil => rfl
  case lcons => intro x xs ihx ihxs; simp only [liftList, nanFreeList, ihx, ihxs, Bool.and_self]
  all_goals intros; rfl

theorem lift_surj_both :
    (∀ a : JVal N, nanFree a = true → ∃ a' : JVal (NonNaN N), lift a' = a) ∧
    (∀ l : List (JVal N), nanFreeList l = true → ∃ l' : List (JVal (NonNaN N)), liftList l' = l) := by
  apply JVal.induct
  case num => intro n h; exact ⟨.num ⟨n, h⟩, rfl⟩
  case nil => intro _; exact ⟨.nil, rfl⟩
  case bool => intro b _; exact ⟨.bool b, rfl⟩
  case str => intro b _; exact ⟨.str b, rfl⟩
  case sym => intro b _; exact ⟨.sym b, rfl⟩
  case kw => intro b _; exact ⟨.kw b, rfl⟩
  case ref => intro k b _; exact ⟨.ref k b, rfl⟩
  case tuple =>
    intro br xs ih h
    obtain ⟨xs', rfl⟩ := ih (by simpa only [nanFree] using h)
    exact ⟨.tuple br xs', rfl⟩
  case struct =>
    intro f p ihf ihp h
    simp only [nanFree, Bool.and_eq_true] at h
    obtain ⟨f', rfl⟩ := ihf h.1
    obtain ⟨p', rfl⟩ := ihp h.2
    exact ⟨.struct f' p', rfl⟩
  case lnil => intro _; exact ⟨[], rfl⟩
  case lcons =>
    intro x xs ihx ihxs h
    simp only [nanFreeList, Bool.and_eq_true] at h
    obtain ⟨x', rfl⟩ := ihx h.1
    obtain ⟨xs', rfl⟩ := ihxs h.2
    exact ⟨x' :: xs', rfl⟩

theorem lift_surj (a : JVal N) (h : nanFree a = true) : ∃ a' : JVal (NonNaN N), lift a' = a := lift_surj_both.1 a h

/-! ### struct construction -/

/-- `janet_struct_put_ext` ignores a NaN key (struct.c: `janet_checktype(key, JANET_NUMBER) && isnan(…)`), whatever the value,
    the flag and the state of the build -/
theorem structPutExt_nan_key (st : StructBuild N) (n : N) (h : NumLike.isNaN n = true) (v : JVal N) (r : Bool) :
    structPutExt st (.num n) v r = st := by
  unfold structPutExt
  have : isNaNKey (JVal.num n) = true := h
  simp only [this, if_true]
  split <;> rfl

def liftSlot (s : Slot (NonNaN N)) : Slot N := (lift s.1, lift s.2)

theorem liftSlot_rel : SlotRelPut (fun (s : Slot (NonNaN N)) (s' : Slot N) => s' = liftSlot s) where
  empty := rfl
  nil := by rintro s _ rfl; exact (isNil_lift s.1).symm
  vnil := by rintro s _ rfl; exact (isNil_lift s.2).symm
  nan := by rintro s _ rfl; exact (isNaNKey_lift s.1).symm
  hash := by rintro s _ rfl; exact (hash_lift s.1).symm
  cmp := by rintro s _ t _ rfl rfl; exact (jcompare_lift s.1 t.1).symm
  repl := by rintro s _ t _ rfl rfl _; rfl

theorem flatten_liftSlot : ∀ (sl : List (Slot (NonNaN N))), flatten (sl.map liftSlot) = liftList (flatten sl)
  | [] => rfl
  | (k, v) :: rest => by simp only [List.map_cons, liftSlot, flatten, liftList, flatten_liftSlot rest]

theorem PW_liftSlot {sl : List (Slot (NonNaN N))} {sl' : List (Slot N)}
    (h : PW (fun (s : Slot (NonNaN N)) (s' : Slot N) => s' = liftSlot s) sl sl') : sl' = sl.map liftSlot := by
  obtain ⟨hl, h⟩ := h
  apply List.ext_getElem (by simp [hl])
  intro i h1 h2
  have := h i
  simp only [List.getD_eq_getElem?_getD] at this
  rw [List.getElem?_eq_getElem h1, List.getElem?_eq_getElem (by rw [hl]; exact h1)] at this
  simpa using this

/-- **a whole struct construction commutes with the embedding** -/
theorem structOfCount_lift (c : Nat) (kvs : List (Slot (NonNaN N))) (proto : List (JVal (NonNaN N))) :
    structOfCount c (kvs.map liftSlot) (liftList proto) = lift (structOfCount c kvs proto) := by
  obtain ⟨sl, sl', e1, e2, hpw⟩ := structOfCount_rel (RP := fun p p' => p' = liftList p) liftSlot_rel rfl c
    (kvs := kvs) (kvs' := kvs.map liftSlot) (by simp)
    (fun i => by
      simp only [List.getD_eq_getElem?_getD, List.getElem?_map]
      cases kvs[i]? <;> rfl)
    (proto := proto) (proto' := liftList proto) rfl
  rw [e1, e2, PW_liftSlot hpw, flatten_liftSlot]
  rfl

/-- puts with a NaN key interspersed change nothing -/
theorem structOfCount_drop_nan_keys (c : Nat) (raw : List (Slot N)) (proto : List (JVal N)) :
    structOfCount c raw proto = structOfCount c (raw.filter (fun kv => !isNaNKey kv.1)) proto := by
  unfold structOfCount
  congr 2
  generalize structBegin c = st
  induction raw generalizing st with
  | nil => rfl
  | cons kv rest ih =>
    rw [List.foldl_cons, List.filter_cons]
    cases h : isNaNKey kv.1 with
    | false => simp only [Bool.not_false, if_true, List.foldl_cons]; exact ih _
    | true =>
      simp only [Bool.not_true, Bool.false_eq_true, if_false]
      have : structPut st kv.1 kv.2 = st := by
        unfold structPut structPutExt
        simp only [h, if_true]
        split <;> rfl
      rw [this]; exact ih st

/-! ### on NaN itself the laws fail -/

variable [LawfulNaNNum N]

omit [LawfulNaNNum N] in
/-- NaN is not `=` to itself: reflexivity fails … -/
theorem nan_not_equal_self (n : N) (h : NumLike.isNaN n = true) : equals (.num n : JVal N) (.num n) = false := by
  simpa [equals, NumLike.isNaN] using h

/-- … NaN "is greater than" every number AND every number "is greater than" NaN: antisymmetry fails, `compare = 0 ⇔ =`
    holds only vacuously; a tuple holding NaN is not `=` to itself (content walk; the C short-cuts on pointer identity) -/
theorem nan_compare (n m : N) (h : NumLike.isNaN n = true) :
    jcompare (.num n : JVal N) (.num m) = .gt ∧ jcompare (.num m : JVal N) (.num n) = .gt ∧
    equals (.tuple false [.num n] : JVal N) (.tuple false [.num n]) = false := by
  have hn : NumLike.eq n n = false := by simpa [NumLike.isNaN] using h
  refine ⟨?_, ?_, ?_⟩
  · simp [jcompare, LawfulNaNNum.nan_eq_left n m hn, LawfulNaNNum.nan_lt_left n m hn]
  · simp [jcompare, LawfulNaNNum.nan_eq_right m n hn, LawfulNaNNum.nan_lt_right m n hn]
  · simp [equals, equalsList, hn]

end JanetModel.Value
