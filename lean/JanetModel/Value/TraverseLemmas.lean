/- C03 — the iterative `janet_equals` / `janet_compare` (explicit traversal stack, Value/Traverse.lean) compute the
   recursive definitions of Value/Model.lean, for every well-formed value (any depth, any width).

   Method: a denotation of the stack (`restCmp` / `restEq`: what the frames still have to compare, top first, combined
   lexicographically / conjunctively), a frame invariant (`FrameOK`), and the loop invariant
       compareLoop fuel x y st = some ((jcompare x y).then (restCmp st))
       equalsLoop  fuel x y st = some (equals x y && restEq st)
   for any fuel above the number of nodes still to visit. -/
import JanetModel.Value.Traverse

set_option linter.unusedSimpArgs false

namespace JanetModel.Value.Traverse
open JanetModel.Gen.Value JanetModel.Value

variable {N : Type}

mutual
/-- well-formed values: a struct's slot array has `janet_tablen(2 * length)` slots (janet_struct_begin / the rebuild of
    janet_struct_end), i.e. `flat` has twice that many entries, and at most one prototype -/
def WFv : JVal N → Prop
  | .tuple _ xs => WFl xs
  | .struct f p => f.length = 2 * tablen (2 * structLength f) ∧ p.length ≤ 1 ∧ WFl f ∧ WFl p
  | _ => True
def WFl : List (JVal N) → Prop
  | [] => True
  | x :: xs => WFv x ∧ WFl xs
end

theorem WFl_drop : ∀ (xs : List (JVal N)) (i : Nat), WFl xs → WFl (xs.drop i)
  | [], i, _ => by simp [WFl]
  | _ :: _, 0, h => by simpa using h
  | _ :: xs, i + 1, h => by
      simp only [List.drop_succ_cons]
      exact WFl_drop xs i (by simp only [WFl] at h; exact h.2)

theorem WFl_getD : ∀ (xs : List (JVal N)) (i : Nat), WFl xs → WFv (xs.getD i .nil)
  | [], i, _ => by simp [WFv]
  | _ :: _, 0, h => by simp only [WFl] at h; simpa using h.1
  | _ :: xs, i + 1, h => by
      simp only [List.getD_cons_succ]
      exact WFl_getD xs i (by simp only [WFl] at h; exact h.2)

theorem drop_cons_getD : ∀ (xs : List (JVal N)) (i : Nat), i < xs.length →
    xs.drop i = xs.getD i .nil :: xs.drop (i + 1)
  | [], i, h => by simp at h
  | _ :: _, 0, _ => by simp
  | _ :: xs, i + 1, h => by
      simp only [List.drop_succ_cons, List.getD_cons_succ]
      exact drop_cons_getD xs i (by simpa using h)

theorem weight_pos (x : JVal N) : 0 < weight x := by
  cases x <;> simp [weight] <;> omega

theorem then_assoc (a b c : Ordering) : (a.then b).then c = a.then (b.then c) := by
  cases a <;> rfl

section
variable [NumLike N]

theorem compareList_cons (a b : JVal N) (as bs : List (JVal N)) :
    compareList (a :: as) (b :: bs) = (jcompare a b).then (compareList as bs) := by
  simp only [compareList]
  cases jcompare a b <;> rfl

theorem equalsList_cons (a b : JVal N) (as bs : List (JVal N)) :
    equalsList (a :: as) (b :: bs) = (equals a b && equalsList as bs) := by
  simp only [equalsList]

/-! ### frame invariant, denotation of the stack, weights -/

/-- `cmp = true`: frames pushed by janet_compare (tuple frames carry the length flag); `cmp = false`: frames pushed by
    janet_equals (tuples of equal length, prototypes both present or both absent) -/
def FrameOK (cmp : Bool) : Frame N → Prop
  | .tup xs ys i i2 => i ≤ xs.length ∧ i ≤ ys.length ∧ (if cmp then i2 = true else xs.length = ys.length) ∧ WFl xs ∧ WFl ys
  | .str f1 p1 f2 p2 i i2 =>
      f1.length = f2.length ∧ f1.length % 2 = 0 ∧ (i2 = true → 2 * i + 1 < f1.length) ∧ p1.length ≤ 1 ∧ p2.length ≤ 1 ∧
      (cmp = false → p1.isEmpty = p2.isEmpty) ∧ WFl f1 ∧ WFl f2 ∧ WFl p1 ∧ WFl p2

def StackOK (cmp : Bool) : List (Frame N) → Prop
  | [] => True
  | f :: st => FrameOK cmp f ∧ StackOK cmp st

def frameCmp : Frame N → Ordering
  | .tup xs ys i _ => compareList (xs.drop i) (ys.drop i)
  | .str f1 p1 f2 p2 i i2 =>
      (compareList (f1.drop (2 * i + i2.toNat)) (f2.drop (2 * i + i2.toNat))).then (compareList p1 p2)

def restCmp : List (Frame N) → Ordering
  | [] => .eq
  | f :: st => (frameCmp f).then (restCmp st)

def frameEq : Frame N → Bool
  | .tup xs ys i _ => equalsList (xs.drop i) (ys.drop i)
  | .str f1 p1 f2 p2 i i2 =>
      equalsList (f1.drop (2 * i + i2.toNat)) (f2.drop (2 * i + i2.toNat)) && equalsList p1 p2

def restEq : List (Frame N) → Bool
  | [] => true
  | f :: st => frameEq f && restEq st

end

def frameW : Frame N → Nat
  | .tup xs _ i _ => weightL (xs.drop i)
  | .str f1 p1 _ _ i i2 => weightL (f1.drop (2 * i + i2.toNat)) + weightL p1

def stackW : List (Frame N) → Nat
  | [] => 0
  | f :: st => frameW f + stackW st

section
variable [NumLike N]

/-- what one call of `traversal_next` does to the denotation of a janet_compare stack -/
def NextCmpSpec (st : List (Frame N)) : Next N → Prop
  | .found x y st' => restCmp st = (jcompare x y).then (restCmp st') ∧ StackOK true st' ∧ WFv x ∧ WFv y ∧
      weight x + stackW st' ≤ stackW st
  | .stop s => restCmp st = statusOrd s

theorem next_cmp : ∀ (st : List (Frame N)), StackOK true st → NextCmpSpec st (traversalNext st)
  | [], _ => by simp [traversalNext, NextCmpSpec, restCmp, statusOrd]
  | .tup xs ys i i2 :: st, hok => by
    obtain ⟨⟨hix, hiy, hi2, hwx, hwy⟩, hst⟩ := hok
    simp only [if_true] at hi2
    simp only [traversalNext]
    by_cases h1 : i < xs.length ∧ i < ys.length
    · rw [if_pos h1]
      simp only [NextCmpSpec, restCmp, frameCmp, stackW, frameW]
      rw [drop_cons_getD xs i h1.1, drop_cons_getD ys i h1.2, compareList_cons, then_assoc]
      refine ⟨rfl, ⟨⟨by omega, by omega, by simp [hi2], hwx, hwy⟩, hst⟩, WFl_getD xs i hwx, WFl_getD ys i hwy, ?_⟩
      simp only [weightL]; omega
    · rw [if_neg h1]
      by_cases h2 : i2 = true ∧ xs.length ≠ ys.length
      · rw [if_pos h2]
        simp only [NextCmpSpec, restCmp, frameCmp]
        by_cases h3 : xs.length > ys.length
        · have hi : i = ys.length := by omega
          rw [if_pos h3, List.drop_eq_nil_of_le (as := ys) (by omega), drop_cons_getD xs i (by omega)]
          simp [compareList, statusOrd, Ordering.then]
        · have hi : i = xs.length := by omega
          rw [if_neg h3, List.drop_eq_nil_of_le (as := xs) (by omega), drop_cons_getD ys i (by omega)]
          simp [compareList, statusOrd, Ordering.then]
      · rw [if_neg h2]
        have hlen : xs.length = ys.length := by
          by_cases e : xs.length = ys.length
          · exact e
          · exact absurd ⟨hi2, e⟩ h2
        have ih := next_cmp st hst
        have hfr : frameCmp (.tup xs ys i i2) = .eq := by
          simp only [frameCmp]
          rw [List.drop_eq_nil_of_le (as := xs) (by omega), List.drop_eq_nil_of_le (as := ys) (by omega)]
          simp [compareList]
        cases hn : traversalNext st with
        | found x y st' =>
          rw [hn] at ih
          simp only [NextCmpSpec, restCmp, hfr, Ordering.then, stackW] at ih ⊢
          exact ⟨ih.1, ih.2.1, ih.2.2.1, ih.2.2.2.1, by omega⟩
        | stop s =>
          rw [hn] at ih
          simp only [NextCmpSpec, restCmp, hfr, Ordering.then] at ih ⊢
          exact ih
  | .str f1 p1 f2 p2 i i2 :: st, hok => by
    obtain ⟨⟨hlen, hev, hi2, hp1, hp2, _, hw1, hw2, hwp1, hwp2⟩, hst⟩ := hok
    simp only [traversalNext]
    by_cases h1 : i2 = true
    · rw [if_pos h1]
      have hlt := hi2 h1
      subst h1
      simp only [NextCmpSpec, restCmp, frameCmp, stackW, frameW, Bool.toNat_true, Bool.toNat_false, Nat.add_zero]
      rw [drop_cons_getD f1 (2 * i + 1) hlt, drop_cons_getD f2 (2 * i + 1) (by omega), compareList_cons]
      have e : 2 * i + 1 + 1 = 2 * (i + 1) := by omega
      rw [e]
      simp only [then_assoc]
      refine ⟨trivial, ⟨⟨hlen, hev, by simp, hp1, hp2, by simp, hw1, hw2, hwp1, hwp2⟩, hst⟩,
        WFl_getD f1 _ hw1, WFl_getD f2 _ hw2, ?_⟩
      simp only [weightL]; omega
    · rw [if_neg h1]
      have h1' : i2 = false := by cases i2 <;> simp_all
      subst h1'
      by_cases h2 : i < f1.length / 2
      · rw [if_pos h2]
        simp only [NextCmpSpec, restCmp, frameCmp, stackW, frameW, Bool.toNat_true, Bool.toNat_false, Nat.add_zero]
        rw [drop_cons_getD f1 (2 * i) (by omega), drop_cons_getD f2 (2 * i) (by omega), compareList_cons]
        simp only [then_assoc]
        refine ⟨trivial, ⟨⟨hlen, hev, fun _ => by omega, hp1, hp2, by simp, hw1, hw2, hwp1, hwp2⟩, hst⟩,
          WFl_getD f1 _ hw1, WFl_getD f2 _ hw2, ?_⟩
        simp only [weightL]; omega
      · rw [if_neg h2]
        have hfl : compareList (f1.drop (2 * i)) (f2.drop (2 * i)) = .eq := by
          rw [List.drop_eq_nil_of_le (as := f1) (by omega), List.drop_eq_nil_of_le (as := f2) (by omega)]
          simp [compareList]
        simp only [NextCmpSpec, restCmp, frameCmp, Bool.toNat_false, Nat.add_zero, hfl, stackW, frameW]
        match p1, p2, hp1, hp2, hwp1, hwp2 with
        | a :: r1, [], _, _, _, _ =>
          simp [NextCmpSpec, restCmp, frameCmp, hfl, compareList, statusOrd, Ordering.then]
        | [], b :: r2, _, _, _, _ =>
          simp [NextCmpSpec, restCmp, frameCmp, hfl, compareList, statusOrd, Ordering.then]
        | a :: r1, b :: r2, hp1, hp2, hwp1, hwp2 =>
          have e1 : r1 = [] := by cases r1 with | nil => rfl | cons _ _ => simp at hp1
          have e2 : r2 = [] := by cases r2 with | nil => rfl | cons _ _ => simp at hp2
          subst e1; subst e2
          simp only [NextCmpSpec, restCmp, frameCmp, hfl, compareList_cons, stackW, frameW]
          simp only [WFl] at hwp1 hwp2
          refine ⟨?_, hst, hwp1.1, hwp2.1, ?_⟩
          · simp [compareList, Ordering.then]
            cases jcompare a b <;> rfl
          · simp only [weightL]; omega
        | [], [], _, _, _, _ =>
          have ih := next_cmp st hst
          cases hn : traversalNext st with
          | found x y st' =>
            rw [hn] at ih
            simp only [NextCmpSpec, restCmp, frameCmp, hfl, compareList, Ordering.then, stackW] at ih ⊢
            exact ⟨ih.1, ih.2.1, ih.2.2.1, ih.2.2.2.1, by omega⟩
          | stop s =>
            rw [hn] at ih
            simp only [NextCmpSpec, restCmp, frameCmp, hfl, compareList, Ordering.then] at ih ⊢
            exact ih

theorem jcompare_tuple (br1 br2 : Bool) (xs ys : List (JVal N)) :
    jcompare (.tuple br1 xs) (.tuple br2 ys) = if br1 != br2 then (if br1 then .gt else .lt) else compareList xs ys := by
  simp only [jcompare]

theorem jcompare_struct (f1 p1 f2 p2 : List (JVal N)) :
    jcompare (.struct f1 p1) (.struct f2 p2) =
      if f1.length / 2 < f2.length / 2 then .lt
      else if f1.length / 2 > f2.length / 2 then .gt
      else match sCompare (hash (.struct f1 p1 : JVal N)) (hash (.struct f2 p2 : JVal N)) with
        | .lt => .lt
        | .gt => .gt
        | .eq => (compareList f1 f2).then (compareList p1 p2) := by
  simp only [jcompare]
  by_cases h1 : f1.length / 2 < f2.length / 2
  · simp only [h1, if_true]
  · simp only [h1, if_false]
    by_cases h2 : f1.length / 2 > f2.length / 2
    · simp only [h2, if_true]
    · simp only [h2, if_false]
      cases sCompare (hash (.struct f1 p1 : JVal N)) (hash (.struct f2 p2 : JVal N)) with
      | lt => rfl
      | gt => rfl
      | eq => simp only []; cases compareList f1 f2 <;> rfl

theorem visitCompare_leaf (x y : JVal N) (st : List (Frame N))
    (h1 : ∀ br1 xs br2 ys, ¬ (x = .tuple br1 xs ∧ y = .tuple br2 ys))
    (h2 : ∀ f1 p1 f2 p2, ¬ (x = .struct f1 p1 ∧ y = .struct f2 p2)) :
    visitCompare x y st = (match jcompare x y with | .eq => .go st | r => .ret r) := by
  unfold visitCompare
  split
  · exact absurd ⟨rfl, rfl⟩ (h1 _ _ _ _)
  · exact absurd ⟨rfl, rfl⟩ (h2 _ _ _ _)
  · rfl

/-- the part of one loop iteration after the `switch`: `traversal_next`, then the next iteration or the exit -/
def afterGoC (fuel : Nat) (st' : List (Frame N)) : Option Ordering :=
  match traversalNext st' with
  | .found x' y' st'' => compareLoop fuel x' y' st''
  | .stop s => some (statusOrd s)

theorem compareLoop_succ (fuel : Nat) (x y : JVal N) (st : List (Frame N)) :
    compareLoop (fuel + 1) x y st =
      (match visitCompare x y st with
        | .ret r => some r
        | .go st' => afterGoC fuel st') := by
  rfl

/-- **loop invariant of `janet_compare`**: from any reachable state the loop returns the recursive comparison of the
    current pair, then (lexicographically) what the stack still holds -/
theorem compareLoop_spec : ∀ (fuel : Nat) (x y : JVal N) (st : List (Frame N)), StackOK true st → WFv x → WFv y →
    weight x + stackW st < fuel → compareLoop fuel x y st = some ((jcompare x y).then (restCmp st))
  | 0, _, _, _, _, _, _, h => by omega
  | fuel + 1, x, y, st, hst, hx, hy, hw => by
    have cont : ∀ st' : List (Frame N), StackOK true st' → stackW st' < fuel → afterGoC fuel st' = some (restCmp st') := by
      intro st' hok hw'
      have h := next_cmp st' hok
      unfold afterGoC
      cases hn : traversalNext st' with
      | found x' y' st'' =>
        rw [hn] at h; simp only [NextCmpSpec] at h
        simp only []
        rw [compareLoop_spec fuel x' y' st'' h.2.1 h.2.2.1 h.2.2.2.1 (by omega), h.1]
      | stop s =>
        rw [hn] at h; simp only [NextCmpSpec] at h
        simp only [h]
    have hwx := weight_pos x
    rw [compareLoop_succ]
    by_cases ht : ∃ br1 xs br2 ys, x = .tuple br1 xs ∧ y = .tuple br2 ys
    · -- two tuples
      obtain ⟨br1, xs, br2, ys, e1, e2⟩ := ht
      subst e1; subst e2
      rw [jcompare_tuple]
      simp only [visitCompare]
      by_cases hb : (br1 != br2) = true
      · simp only [hb, if_true]
        cases br1 <;> rfl
      · simp only [hb, Bool.false_eq_true, if_false]
        simp only [WFv] at hx hy
        rw [cont (.tup xs ys 0 true :: st) ⟨⟨Nat.zero_le _, Nat.zero_le _, by simp, hx, hy⟩, hst⟩ (by simp only [stackW, frameW, List.drop_zero, weight] at hw ⊢; omega)]
        simp [restCmp, frameCmp]
    by_cases hs : ∃ f1 p1 f2 p2, x = .struct f1 p1 ∧ y = .struct f2 p2
    · -- two structs
      obtain ⟨f1, p1, f2, p2, e1, e2⟩ := hs
      subst e1; subst e2
      rw [jcompare_struct]
      simp only [visitCompare]
      simp only [WFv] at hx hy
      by_cases h1 : f1.length / 2 < f2.length / 2
      · simp only [h1, if_true]; rfl
      · simp only [h1, if_false]
        by_cases h2 : f1.length / 2 > f2.length / 2
        · simp only [h2, if_true]; rfl
        · simp only [h2, if_false]
          cases hs : sCompare (hash (.struct f1 p1 : JVal N)) (hash (.struct f2 p2 : JVal N)) with
          | lt => rfl
          | gt => rfl
          | eq =>
            simp only []
            rw [cont (.str f1 p1 f2 p2 0 false :: st) ⟨⟨by omega, by omega, by simp, hx.2.1, hy.2.1, by simp, hx.2.2.1, hy.2.2.1, hx.2.2.2, hy.2.2.2⟩, hst⟩
              (by simp only [stackW, frameW, Bool.toNat_false, Nat.add_zero, Nat.mul_zero, List.drop_zero, weight] at hw ⊢; omega)]
            simp [restCmp, frameCmp]
    · -- anything else: no node is pushed
      rw [visitCompare_leaf x y st (fun br1 xs br2 ys h => ht ⟨br1, xs, br2, ys, h⟩) (fun f1 p1 f2 p2 h => hs ⟨f1, p1, f2, p2, h⟩)]
      cases hc : jcompare x y with
      | lt => rfl
      | gt => rfl
      | eq =>
        simp only []
        rw [cont st hst (by omega)]
        rfl

/-- **`janet_compare` by the explicit traversal stack is the recursive `jcompare`**, for all well-formed values (nested
    tuples and structs of any depth and width); the fuel `weight x + 1` the executable version starts with always suffices -/
theorem compareIter_eq (x y : JVal N) (hx : WFv x) (hy : WFv y) : compareIter x y = some (jcompare x y) := by
  unfold compareIter
  rw [compareLoop_spec (weight x + 1) x y [] trivial hx hy (by simp [stackW])]
  cases jcompare x y <;> rfl

/-! ### `janet_equals` -/

/-- what one call of `traversal_next` does to the denotation of a janet_equals stack; the statuses 1 and 3 (early stop)
    cannot occur there (equal lengths and prototype presence were checked before the push), so the C's `return 1` after ANY
    non-zero status is right -/
def NextEqSpec (st : List (Frame N)) : Next N → Prop
  | .found x y st' => restEq st = (equals x y && restEq st') ∧ StackOK false st' ∧ WFv x ∧ WFv y ∧
      weight x + stackW st' ≤ stackW st
  | .stop s => restEq st = true ∧ s = 2

theorem next_eq : ∀ (st : List (Frame N)), StackOK false st → NextEqSpec st (traversalNext st)
  | [], _ => by simp [traversalNext, NextEqSpec, restEq]
  | .tup xs ys i i2 :: st, hok => by
    obtain ⟨⟨hix, hiy, hlen, hwx, hwy⟩, hst⟩ := hok
    simp only [Bool.false_eq_true, if_false] at hlen
    simp only [traversalNext]
    by_cases h1 : i < xs.length ∧ i < ys.length
    · rw [if_pos h1]
      simp only [NextEqSpec, restEq, frameEq, stackW, frameW]
      rw [drop_cons_getD xs i h1.1, drop_cons_getD ys i h1.2, equalsList_cons, Bool.and_assoc]
      refine ⟨rfl, ⟨⟨by omega, by omega, by simp [hlen], hwx, hwy⟩, hst⟩, WFl_getD xs i hwx, WFl_getD ys i hwy, ?_⟩
      simp only [weightL]; omega
    · rw [if_neg h1, if_neg (fun h => h.2 hlen)]
      have ih := next_eq st hst
      have hfr : frameEq (.tup xs ys i i2) = true := by
        simp only [frameEq]
        rw [List.drop_eq_nil_of_le (as := xs) (by omega), List.drop_eq_nil_of_le (as := ys) (by omega)]
        simp [equalsList]
      cases hn : traversalNext st with
      | found x y st' =>
        rw [hn] at ih
        simp only [NextEqSpec, restEq, hfr, Bool.true_and, stackW] at ih ⊢
        exact ⟨ih.1, ih.2.1, ih.2.2.1, ih.2.2.2.1, by omega⟩
      | stop s =>
        rw [hn] at ih
        simp only [NextEqSpec, restEq, hfr, Bool.true_and] at ih ⊢
        exact ih
  | .str f1 p1 f2 p2 i i2 :: st, hok => by
    obtain ⟨⟨hlen, hev, hi2, hp1, hp2, hpe, hw1, hw2, hwp1, hwp2⟩, hst⟩ := hok
    have hpe := hpe rfl
    simp only [traversalNext]
    by_cases h1 : i2 = true
    · rw [if_pos h1]
      have hlt := hi2 h1
      subst h1
      simp only [NextEqSpec, restEq, frameEq, stackW, frameW, Bool.toNat_true, Bool.toNat_false, Nat.add_zero]
      rw [drop_cons_getD f1 (2 * i + 1) hlt, drop_cons_getD f2 (2 * i + 1) (by omega), equalsList_cons]
      have e : 2 * i + 1 + 1 = 2 * (i + 1) := by omega
      rw [e]
      simp only [Bool.and_assoc]
      refine ⟨trivial, ⟨⟨hlen, hev, by simp, hp1, hp2, fun _ => hpe, hw1, hw2, hwp1, hwp2⟩, hst⟩,
        WFl_getD f1 _ hw1, WFl_getD f2 _ hw2, ?_⟩
      simp only [weightL]; omega
    · rw [if_neg h1]
      have h1' : i2 = false := by cases i2 <;> simp_all
      subst h1'
      by_cases h2 : i < f1.length / 2
      · rw [if_pos h2]
        simp only [NextEqSpec, restEq, frameEq, stackW, frameW, Bool.toNat_true, Bool.toNat_false, Nat.add_zero]
        rw [drop_cons_getD f1 (2 * i) (by omega), drop_cons_getD f2 (2 * i) (by omega), equalsList_cons]
        simp only [Bool.and_assoc]
        refine ⟨trivial, ⟨⟨hlen, hev, fun _ => by omega, hp1, hp2, fun _ => hpe, hw1, hw2, hwp1, hwp2⟩, hst⟩,
          WFl_getD f1 _ hw1, WFl_getD f2 _ hw2, ?_⟩
        simp only [weightL]; omega
      · rw [if_neg h2]
        have hfl : equalsList (f1.drop (2 * i)) (f2.drop (2 * i)) = true := by
          rw [List.drop_eq_nil_of_le (as := f1) (by omega), List.drop_eq_nil_of_le (as := f2) (by omega)]
          simp [equalsList]
        simp only [NextEqSpec, restEq, frameEq, Bool.toNat_false, Nat.add_zero, hfl, stackW, frameW]
        match p1, p2, hp1, hp2, hwp1, hwp2, hpe with
        | a :: r1, [], _, _, _, _, hpe => simp at hpe
        | [], b :: r2, _, _, _, _, hpe => simp at hpe
        | a :: r1, b :: r2, hp1, hp2, hwp1, hwp2, _ =>
          have e1 : r1 = [] := by cases r1 with | nil => rfl | cons _ _ => simp at hp1
          have e2 : r2 = [] := by cases r2 with | nil => rfl | cons _ _ => simp at hp2
          subst e1; subst e2
          simp only [WFl] at hwp1 hwp2
          refine ⟨?_, hst, hwp1.1, hwp2.1, ?_⟩
          · simp [equalsList]
          · simp only [weightL]; omega
        | [], [], _, _, _, _, _ =>
          have ih := next_eq st hst
          cases hn : traversalNext st with
          | found x y st' =>
            rw [hn] at ih
            simp only [NextEqSpec, equalsList, Bool.true_and, Bool.and_true, weightL] at ih ⊢
            exact ⟨ih.1, ih.2.1, ih.2.2.1, ih.2.2.2.1, by omega⟩
          | stop s =>
            rw [hn] at ih
            simp only [NextEqSpec, equalsList, Bool.true_and, Bool.and_true] at ih ⊢
            exact ih

theorem equals_tuple (br1 br2 : Bool) (xs ys : List (JVal N)) :
    equals (.tuple br1 xs) (.tuple br2 ys) =
      if br1 != br2 then false else if tupleHash xs != tupleHash ys then false
      else if xs.length != ys.length then false else equalsList xs ys := by
  simp only [equals]

theorem equals_struct (f1 p1 f2 p2 : List (JVal N)) :
    equals (.struct f1 p1) (.struct f2 p2) =
      if hash (.struct f1 p1 : JVal N) != hash (.struct f2 p2 : JVal N) then false
      else if structLength f1 != structLength f2 then false
      else if !p1.isEmpty && p2.isEmpty then false
      else if p1.isEmpty && !p2.isEmpty then false
      else equalsList f1 f2 && equalsList p1 p2 := by
  simp only [equals]

theorem visitEquals_leaf (x y : JVal N) (st : List (Frame N))
    (h1 : ∀ br1 xs br2 ys, ¬ (x = .tuple br1 xs ∧ y = .tuple br2 ys))
    (h2 : ∀ f1 p1 f2 p2, ¬ (x = .struct f1 p1 ∧ y = .struct f2 p2)) :
    visitEquals x y st = if equals x y then .go st else .ret false := by
  unfold visitEquals
  split
  · exact absurd ⟨rfl, rfl⟩ (h1 _ _ _ _)
  · exact absurd ⟨rfl, rfl⟩ (h2 _ _ _ _)
  · rfl

def afterGoE (fuel : Nat) (st' : List (Frame N)) : Option Bool :=
  match traversalNext st' with
  | .found x' y' st'' => equalsLoop fuel x' y' st''
  | .stop _ => some true

theorem equalsLoop_succ (fuel : Nat) (x y : JVal N) (st : List (Frame N)) :
    equalsLoop (fuel + 1) x y st =
      (match visitEquals x y st with
        | .ret r => some r
        | .go st' => afterGoE fuel st') := by
  rfl

/-- **loop invariant of `janet_equals`**: the loop returns whether the current pair is `=` (recursive definition) and every
    pair the stack still holds is -/
theorem equalsLoop_spec : ∀ (fuel : Nat) (x y : JVal N) (st : List (Frame N)), StackOK false st → WFv x → WFv y →
    weight x + stackW st < fuel → equalsLoop fuel x y st = some (equals x y && restEq st)
  | 0, _, _, _, _, _, _, h => by omega
  | fuel + 1, x, y, st, hst, hx, hy, hw => by
    have cont : ∀ st' : List (Frame N), StackOK false st' → stackW st' < fuel → afterGoE fuel st' = some (restEq st') := by
      intro st' hok hw'
      have h := next_eq st' hok
      unfold afterGoE
      cases hn : traversalNext st' with
      | found x' y' st'' =>
        rw [hn] at h; simp only [NextEqSpec] at h
        simp only []
        rw [equalsLoop_spec fuel x' y' st'' h.2.1 h.2.2.1 h.2.2.2.1 (by omega), h.1]
      | stop s =>
        rw [hn] at h; simp only [NextEqSpec] at h
        simp only [h.1]
    have hwx := weight_pos x
    rw [equalsLoop_succ]
    by_cases ht : ∃ br1 xs br2 ys, x = .tuple br1 xs ∧ y = .tuple br2 ys
    · obtain ⟨br1, xs, br2, ys, e1, e2⟩ := ht
      subst e1; subst e2
      rw [equals_tuple]
      simp only [visitEquals]
      by_cases hb : (br1 != br2) = true
      · simp only [hb, if_true, Bool.false_and]
      · simp only [hb, Bool.false_eq_true, if_false]
        by_cases hh : (tupleHash xs != tupleHash ys) = true
        · simp only [hh, if_true, Bool.false_and]
        · simp only [hh, Bool.false_eq_true, if_false]
          by_cases hl : (xs.length != ys.length) = true
          · simp only [hl, if_true, Bool.false_and]
          · simp only [hl, Bool.false_eq_true, if_false]
            have hl' : xs.length = ys.length := by simpa using hl
            simp only [WFv] at hx hy
            rw [cont (.tup xs ys 0 false :: st) ⟨⟨Nat.zero_le _, Nat.zero_le _, by simp [hl'], hx, hy⟩, hst⟩
              (by simp only [stackW, frameW, List.drop_zero, weight] at hw ⊢; omega)]
            simp [restEq, frameEq]
    by_cases hs : ∃ f1 p1 f2 p2, x = .struct f1 p1 ∧ y = .struct f2 p2
    · obtain ⟨f1, p1, f2, p2, e1, e2⟩ := hs
      subst e1; subst e2
      rw [equals_struct]
      simp only [visitEquals]
      simp only [WFv] at hx hy
      by_cases hh : (hash (.struct f1 p1 : JVal N) != hash (.struct f2 p2 : JVal N)) = true
      · simp only [hh, if_true, Bool.false_and]
      · simp only [hh, Bool.false_eq_true, if_false]
        by_cases hl : (structLength f1 != structLength f2) = true
        · simp only [hl, if_true, Bool.false_and]
        · simp only [hl, Bool.false_eq_true, if_false]
          have hl' : structLength f1 = structLength f2 := by simpa using hl
          by_cases hq1 : (!p1.isEmpty && p2.isEmpty) = true
          · simp only [hq1, if_true, Bool.false_and]
          · simp only [hq1, Bool.false_eq_true, if_false]
            by_cases hq2 : (p1.isEmpty && !p2.isEmpty) = true
            · simp only [hq2, if_true, Bool.false_and]
            · simp only [hq2, Bool.false_eq_true, if_false]
              have hpe : p1.isEmpty = p2.isEmpty := by
                cases h1 : p1.isEmpty <;> cases h2 : p2.isEmpty <;> simp_all
              have hlen : f1.length = f2.length := by rw [hx.1, hy.1, hl']
              rw [cont (.str f1 p1 f2 p2 0 false :: st)
                ⟨⟨hlen, by omega, by simp, hx.2.1, hy.2.1, fun _ => hpe, hx.2.2.1, hy.2.2.1, hx.2.2.2, hy.2.2.2⟩, hst⟩
                (by simp only [stackW, frameW, Bool.toNat_false, Nat.add_zero, Nat.mul_zero, List.drop_zero, weight] at hw ⊢; omega)]
              simp [restEq, frameEq]
    · rw [visitEquals_leaf x y st (fun br1 xs br2 ys h => ht ⟨br1, xs, br2, ys, h⟩) (fun f1 p1 f2 p2 h => hs ⟨f1, p1, f2, p2, h⟩)]
      cases hc : equals x y with
      | false => simp
      | true =>
        simp only [if_true, Bool.true_and]
        exact cont st hst (by omega)

/-- **`janet_equals` by the explicit traversal stack is the recursive `equals`**, for all well-formed values -/
theorem equalsIter_eq (x y : JVal N) (hx : WFv x) (hy : WFv y) : equalsIter x y = some (equals x y) := by
  unfold equalsIter
  rw [equalsLoop_spec (weight x + 1) x y [] trivial hx hy (by simp [stackW])]
  simp [restEq]

end

end JanetModel.Value.Traverse
