/- C03 — struct construction from insertion sequences that contain the SAME key several times.

   `janet_struct_put_ext(st, key, value, replace)` on a key that is already in the array keeps the key object that went in
   FIRST and (with `replace`) stores the value that came LAST (`status == 0` branch); the layout does not move.  So the
   finished struct is a function of the final key→value map alone:

     structOfCount c raw proto = structOf (finalMap raw) proto            (`structOfCount_finalMap`)

   for EVERY insertion sequence `raw` (duplicates, nil keys / values interspersed) and every announced count `c` that is at
   least the number of accepted puts (what every caller in src/core announces).  The proof needs "the layout does not
   depend on the values" — `foldl_ins_map`, an instance of the lock-step lemma `putLoop_rel` (RobinRel.lean).
   With a smaller announced count the "avoid extra items" test drops puts — also replacing ones — and the result DOES
   depend on the order (`Props/C03.lean: struct_put_extra_dropped_witness`). -/
import JanetModel.Value.RobinRel

namespace JanetModel.Value

variable {N : Type} [NumLike N]

/-! ### the key→value map as an association list in first-insertion order -/

/-- give every entry whose key equals `k` the value `v` -/
def setVal (k v : JVal N) (e : Slot N) : Slot N := (e.1, if contentEq e.1 k then v else e.2)

/-- one accepted `janet_struct_put_ext(st, k, v, replace)` seen on the map: a new key is appended; an existing key keeps
    its (first) key object and, with `replace`, gets the new value -/
def updMap (replace : Bool) (acc : List (Slot N)) (kv : Slot N) : List (Slot N) :=
  if acc.any (fun e => contentEq e.1 kv.1) then (if replace then acc.map (setVal kv.1 kv.2) else acc)
  else acc ++ [kv]

/-- the final key→value map of an insertion sequence (pairs with a nil key or value are ignored) -/
def finalMapR (replace : Bool) (raw : List (Slot N)) : List (Slot N) := (raw.filter validPair).foldl (updMap replace) []

/-- … for `janet_struct_put` (replace) -/
def finalMap (raw : List (Slot N)) : List (Slot N) := finalMapR true raw

/-- lookup in the map: the value stored under a key equal to `k`, nil when there is none -/
def mapGet (m : List (Slot N)) (k : JVal N) : JVal N :=
  match m.find? (fun e => contentEq e.1 k) with
  | some e => e.2
  | none => .nil

/-! ### helpers -/

theorem putLoop_added_replace (cap : Nat) (r : Bool) :
    ∀ (fuel i dist : Nat) (key value : JVal N) (h : UInt32) (sl sl' : List (Slot N)),
      putLoop cap true fuel i dist key value h sl = (sl', true) → putLoop cap r fuel i dist key value h sl = (sl', true) := by
  intro fuel
  induction fuel with
  | zero => intro i dist key value h sl sl' e; simp [putLoop] at e
  | succ fuel ih =>
    intro i dist key value h sl sl' e
    rw [putLoop] at e ⊢
    simp only [] at e ⊢
    by_cases he : (sl.getD i emptySlot).1.isNil = true
    · simp only [he, if_true] at e ⊢; exact e
    · simp only [he, Bool.false_eq_true, if_false] at e ⊢
      cases hs : putStatus dist ((i + cap - mapHash cap (hash (sl.getD i emptySlot).1)) % cap) h (hash (sl.getD i emptySlot).1) key
          (sl.getD i emptySlot).1 with
      | lt => rw [hs] at e; exact ih _ _ _ _ _ _ _ e
      | gt => rw [hs] at e; exact ih _ _ _ _ _ _ _ e
      | eq => rw [hs] at e; simp at e

theorem contentEq_nil_left {k : JVal N} (hk : k.isNil = false) : contentEq (.nil : JVal N) k = false := by
  cases k <;> simp [contentEq, JVal.isNil] at hk ⊢

theorem setVal_empty {k v : JVal N} (hk : k.isNil = false) : setVal k v (emptySlot : Slot N) = emptySlot := by
  simp [setVal, emptySlot, contentEq_nil_left hk]

omit [NumLike N] in
theorem getD_map_empty (φ : Slot N → Slot N) (he : φ emptySlot = emptySlot) (sl : List (Slot N)) (i : Nat) :
    (sl.map φ).getD i emptySlot = φ (sl.getD i emptySlot) := by
  simp only [List.getD_eq_getElem?_getD, List.getElem?_map]
  cases sl[i]? <;> simp [he]

omit [NumLike N] in
theorem PW_graph_iff (φ : Slot N → Slot N) (he : φ emptySlot = emptySlot) (sl sl' : List (Slot N)) :
    PW (fun s s' => s' = φ s) sl sl' ↔ sl' = sl.map φ := by
  constructor
  · rintro ⟨hl, h⟩
    apply List.ext_getElem (by simp [hl])
    intro i h1 h2
    have := h i
    simp only [List.getD_eq_getElem?_getD] at this
    rw [List.getElem?_eq_getElem h1, List.getElem?_eq_getElem (by rw [hl]; exact h1)] at this
    simpa using this
  · rintro rfl
    exact ⟨by simp, fun i => getD_map_empty φ he sl i⟩

variable [LawfulNum N]

/-- the slot relation "same key, value rewritten under the keys equal to `k`" -/
theorem setVal_rel {k v : JVal N} (hk : k.isNil = false) : SlotRel (fun s s' : Slot N => s' = setVal k v s) where
  empty := (setVal_empty hk).symm
  nil := by rintro s _ rfl; rfl
  hash := by rintro s _ rfl; rfl
  cmp := by rintro s _ t _ rfl rfl; rfl
  repl := by
    rintro s _ t _ rfl rfl h
    have : contentEq s.1 t.1 = true := (jcompare_eq_iff _ _).mp h
    have e : contentEq t.1 k = contentEq s.1 k := by
      cases h1 : contentEq s.1 k
      · cases h2 : contentEq t.1 k
        · rfl
        · rw [contentEq_trans_both.1 _ _ _ this h2] at h1; cases h1
      · exact contentEq_trans_both.1 _ _ _ (by rw [contentEq_symm_both.1]; exact this) h1
    simp only [setVal, e]

/-- **the layout does not depend on the values**: inserting the rewritten pair into the rewritten array gives the
    rewritten result -/
theorem ins_map {k v : JVal N} (hk : k.isNil = false) (sl : List (Slot N)) (kv : Slot N) :
    ins (sl.map (setVal k v)) (setVal k v kv) = (ins sl kv).map (setVal k v) := by
  have he := setVal_empty (v := v) hk
  have hpw := (PW_graph_iff (setVal k v) he sl _).mpr rfl
  have := (putLoop_rel (setVal_rel (v := v) hk) sl.length true sl.length (hm sl.length kv.1) 0 kv.1 kv.2 kv.1 (setVal k v kv).2
    (hash kv.1) sl (sl.map (setVal k v)) hpw rfl).1
  rw [PW_graph_iff _ he] at this
  unfold ins
  simp only [List.length_map]
  exact this

theorem foldl_ins_map {k v : JVal N} (hk : k.isNil = false) : ∀ (l : List (Slot N)) (sl : List (Slot N)),
    (l.map (setVal k v)).foldl ins (sl.map (setVal k v)) = (l.foldl ins sl).map (setVal k v)
  | [], _ => rfl
  | kv :: rest, sl => by
      simp only [List.map_cons, List.foldl_cons]
      rw [ins_map hk, foldl_ins_map hk rest]

omit [NumLike N] [LawfulNum N] in
theorem mem_entries_iff (sl : List (Slot N)) (e : Slot N) : e ∈ entries sl ↔ Has sl e := by
  unfold entries Has Occ sg
  rw [List.mem_filter, List.mem_iff_getElem]
  constructor
  · rintro ⟨⟨j, hj, rfl⟩, h2⟩
    refine ⟨j, hj, ?_, ?_⟩ <;> simp [List.getD_eq_getElem?_getD, hj] at h2 ⊢
    exact h2
  · rintro ⟨j, hj, ho, rfl⟩
    simp only [List.getD_eq_getElem?_getD, List.getElem?_eq_getElem hj, Option.getD_some] at ho ⊢
    exact ⟨⟨j, hj, rfl⟩, by simp [ho]⟩

/-- in an array with pairwise different keys, rewriting the values under `k` is overwriting the one slot that holds `k` -/
theorem map_setVal_eq_set {sl : List (Slot N)} (hrh : RH sl) {k v : JVal N} (hk : k.isNil = false) {p : Nat}
    (hp : p < sl.length) (hop : Occ sl p) (heq : contentEq (sg sl p).1 k = true) :
    sl.map (setVal k v) = sl.set p ((sg sl p).1, v) := by
  apply List.ext_getElem (by simp)
  intro j h1 h2
  have hj : j < sl.length := by simpa using h1
  have hsg : sg sl j = sl[j] := by simp [sg, List.getD_eq_getElem?_getD, hj]
  rw [List.getElem_map, List.getElem_set]
  by_cases e : p = j
  · subst e
    simp only [if_true]
    rw [hsg] at heq ⊢
    simp only [setVal, heq, if_true]
  · simp only [e, if_false]
    by_cases ho : Occ sl j
    · have : contentEq sl[j].1 k = false := by
        cases h : contentEq sl[j].1 k
        · rfl
        · exfalso
          apply e
          have h' : contentEq (sg sl j).1 (sg sl p).1 = true :=
            contentEq_trans_both.1 _ _ _ (by rw [hsg]; exact h) (by rw [contentEq_symm_both.1]; exact heq)
          exact (hrh.distinct j p hj hp ho hop h').symm
      simp [setVal, this]
    · have hb := hrh.blank j hj ho
      rw [hsg] at hb
      rw [hb]; exact setVal_empty hk

/-! ### one put, any `replace` flag -/

omit [NumLike N] [LawfulNum N] in
theorem validPair_iff (kv : Slot N) : validPair kv = true ↔ kv.1.isNil = false ∧ kv.2.isNil = false := by
  unfold validPair; cases kv.1.isNil <;> cases kv.2.isNil <;> simp

/-- `janet_struct_put_ext` of a valid pair with a NEW key, any `replace` -/
theorem structPutExt_new {st : StructBuild N} (hrh : RH st.slots) (hcnt : st.count = nOcc st.slots)
    (hroom : st.count < st.length) (hcap : st.length < st.slots.length) {kv : Slot N}
    (hk : kv.1.isNil = false) (hv : kv.2.isNil = false) (hnew : NewKey st.slots kv.1) (r : Bool) :
    structPutExt st kv.1 kv.2 r = { st with slots := ins st.slots kv, count := st.count + 1 } := by
  obtain ⟨f, hres, _⟩ := ins_new hrh (by omega) hk hnew
  have hres' := putLoop_added_replace _ r _ _ _ _ _ _ _ _ hres
  unfold hm at hres'
  unfold structPutExt
  have hne : (st.count == st.length) = false := by simp; omega
  simp only [hk, hv, Bool.or_self, Bool.false_eq_true, if_false, isNaNKey_false, hne, hres', if_true]

/-- `janet_struct_put_ext` of a valid pair whose key IS in the array (at slot `p`): nothing moves, nothing is counted;
    with `replace` the value of that slot is overwritten (the resident key object stays) -/
theorem structPutExt_dup {st : StructBuild N} (hrh : RH st.slots) (hcnt : st.count = nOcc st.slots)
    (hroom : st.count < st.length) (hcap : st.length < st.slots.length) {kv : Slot N}
    (hk : kv.1.isNil = false) (hv : kv.2.isNil = false) {p : Nat} (hp : p < st.slots.length) (hop : Occ st.slots p)
    (heq : contentEq kv.1 (sg st.slots p).1 = true) (r : Bool) :
    structPutExt st kv.1 kv.2 r =
      { st with slots := if r then st.slots.set p ((sg st.slots p).1, kv.2) else st.slots } := by
  obtain ⟨z, hz, hez⟩ := nOcc_lt_exists_empty st.slots (by omega)
  have hlen : 0 < st.slots.length := by omega
  have hh := hm_lt hlen kv.1
  have hd := putLoop_dup hrh hz hez hp hop heq (value := kv.2) r st.slots.length (hm st.slots.length kv.1) hh
    (by rw [dst_self hh]; omega) (by rw [dst_self hh]; omega)
  rw [dst_self hh] at hd
  unfold hm at hd
  unfold structPutExt
  have hne : (st.count == st.length) = false := by simp; omega
  simp only [hk, hv, Bool.or_self, Bool.false_eq_true, if_false, isNaNKey_false, hne, hd]

/-! ### a run of puts with duplicates -/

theorem any_false_newKey {m : List (Slot N)} {sl : List (Slot N)} (hperm : (entries sl).Perm m) {k : JVal N}
    (h : m.any (fun e => contentEq e.1 k) = false) : NewKey sl k := by
  intro j hj ho
  have hm : sg sl j ∈ m := hperm.mem_iff.mp ((mem_entries_iff sl _).mpr ⟨j, hj, ho, rfl⟩)
  have := List.any_eq_false.mp h _ hm
  rw [contentEq_symm_both.1]; simpa using this

omit [LawfulNum N] in
theorem any_true_slot {m : List (Slot N)} {sl : List (Slot N)} (hperm : (entries sl).Perm m) {k : JVal N}
    (h : m.any (fun e => contentEq e.1 k) = true) : ∃ p, p < sl.length ∧ Occ sl p ∧ contentEq (sg sl p).1 k = true := by
  obtain ⟨e, he, hc⟩ := List.any_eq_true.mp h
  obtain ⟨p, hp, ho, hs⟩ := (mem_entries_iff sl e).mp (hperm.mem_iff.mpr he)
  exact ⟨p, hp, ho, by rw [hs]; exact hc⟩

omit [LawfulNum N] in
theorem distinctKeys_map_setVal {m : List (Slot N)} (hd : DistinctKeys m) (k v : JVal N) : DistinctKeys (m.map (setVal k v)) := by
  unfold DistinctKeys at hd ⊢
  rw [List.pairwise_map]
  exact hd.imp (fun h => by simpa [setVal] using h)

/-- **any run of accepted puts, duplicates included** (any `replace` flag), started from a build whose array is the
    canonical array of a map `m`: the array afterwards is the canonical array of the updated map, the temporary count is
    the size of that map.  Needs only that the announced count covers the puts (so that "avoid extra items" never fires). -/
theorem foldl_put_dup (r : Bool) (cap : Nat) : ∀ (V m : List (Slot N)) (st : StructBuild N),
    st.slots = m.foldl ins (List.replicate cap emptySlot) → st.count = m.length →
    m.length + V.length ≤ st.length → st.length < cap →
    DistinctKeys m → (∀ kv ∈ m, kv.1.isNil = false ∧ kv.2.isNil = false) → (∀ kv ∈ V, kv.1.isNil = false ∧ kv.2.isNil = false) →
    V.foldl (fun acc kv => structPutExt acc kv.1 kv.2 r) st =
      { st with slots := (V.foldl (updMap r) m).foldl ins (List.replicate cap emptySlot), count := (V.foldl (updMap r) m).length } ∧
    DistinctKeys (V.foldl (updMap r) m) ∧ (∀ kv ∈ V.foldl (updMap r) m, kv.1.isNil = false ∧ kv.2.isNil = false) ∧
    (V.foldl (updMap r) m).length ≤ m.length + V.length
  | [], m, st, hs, hc, _, _, hd, hv, _ => by
      refine ⟨?_, hd, hv, by simp⟩
      simp only [List.foldl_nil]
      rw [← hs, ← hc]
  | kv :: rest, m, st, hs, hc, hroom, hcap, hd, hvm, hvV => by
      simp only [List.length_cons] at hroom
      have hkv := hvV kv (List.mem_cons_self ..)
      have hnew0 : ∀ (e : Slot N), NewKey (List.replicate cap (emptySlot : Slot N)) e.1 :=
        fun e j _ ho => absurd ho (occ_replicate _ j)
      have hi := foldl_ins_inv m (List.replicate cap emptySlot) (RH.replicate _) (by simp [nOcc_replicate]; omega)
        (fun e he => ⟨(hvm e he).1, hnew0 e⟩) hd
      rw [← hs, entries_replicate, List.append_nil, nOcc_replicate, Nat.zero_add] at hi
      obtain ⟨hrh, hlen, hn, hperm⟩ := hi
      simp only [List.length_replicate] at hlen
      simp only [List.foldl_cons]
      have hcnt : st.count = nOcc st.slots := by rw [hn, hc]
      by_cases hany : m.any (fun e => contentEq e.1 kv.1) = true
      · -- duplicate key
        obtain ⟨p, hp, hop, heq⟩ := any_true_slot hperm hany
        have heq' : contentEq kv.1 (sg st.slots p).1 = true := by rw [contentEq_symm_both.1]; exact heq
        rw [structPutExt_dup hrh hcnt (by omega) (by omega) hkv.1 hkv.2 hp hop heq' r]
        have hupd : updMap r m kv = if r then m.map (setVal kv.1 kv.2) else m := by unfold updMap; rw [if_pos hany]
        rw [hupd]
        cases r with
        | false =>
          simp only [Bool.false_eq_true, if_false]
          have := foldl_put_dup false cap rest m st hs hc (by omega) hcap hd hvm (fun e he => hvV e (List.mem_cons_of_mem _ he))
          exact ⟨this.1, this.2.1, this.2.2.1, by have := this.2.2.2; simp only [List.length_cons]; omega⟩
        | true =>
          simp only [if_true]
          have hs' : st.slots.set p ((sg st.slots p).1, kv.2) =
              (m.map (setVal kv.1 kv.2)).foldl ins (List.replicate cap emptySlot) := by
            rw [← map_setVal_eq_set hrh hkv.1 hp hop heq, hs, ← foldl_ins_map hkv.1, List.map_replicate, setVal_empty hkv.1]
          have := foldl_put_dup true cap rest (m.map (setVal kv.1 kv.2))
            { st with slots := st.slots.set p ((sg st.slots p).1, kv.2) } hs' (by simpa using hc) (by simpa using (by omega : m.length + rest.length ≤ st.length))
            hcap (distinctKeys_map_setVal hd _ _)
            (fun e he => by
              obtain ⟨e0, he0, rfl⟩ := List.mem_map.mp he
              refine ⟨(hvm e0 he0).1, ?_⟩
              simp only [setVal]; split
              · exact hkv.2
              · exact (hvm e0 he0).2)
            (fun e he => hvV e (List.mem_cons_of_mem _ he))
          refine ⟨this.1, this.2.1, this.2.2.1, ?_⟩
          have := this.2.2.2; simp only [List.length_map, List.length_cons] at this ⊢; omega
      · -- new key
        have hany' : m.any (fun e => contentEq e.1 kv.1) = false := by simpa using hany
        have hnew := any_false_newKey hperm hany'
        rw [structPutExt_new hrh hcnt (by omega) (by omega) hkv.1 hkv.2 hnew r]
        have hupd : updMap r m kv = m ++ [kv] := by unfold updMap; rw [if_neg hany]
        rw [hupd]
        have hd' : DistinctKeys (m ++ [kv]) := by
          unfold DistinctKeys at hd ⊢
          rw [List.pairwise_append]
          refine ⟨hd, List.pairwise_singleton _ _, ?_⟩
          intro a ha b hb
          simp only [List.mem_singleton] at hb; subst hb
          simpa using List.any_eq_false.mp hany' a ha
        have := foldl_put_dup r cap rest (m ++ [kv]) { st with slots := ins st.slots kv, count := st.count + 1 }
          (by simp only [List.foldl_append, List.foldl_cons, List.foldl_nil]; rw [hs])
          (by simp only [List.length_append, List.length_cons, List.length_nil]; omega)
          (by simp only [List.length_append, List.length_cons, List.length_nil]; omega) hcap hd'
          (fun e he => by
            rcases List.mem_append.mp he with h | h
            · exact hvm e h
            · simp only [List.mem_singleton] at h; subst h; exact hkv)
          (fun e he => hvV e (List.mem_cons_of_mem _ he))
        refine ⟨this.1, this.2.1, this.2.2.1, ?_⟩
        have := this.2.2.2; simp only [List.length_append, List.length_cons, List.length_nil] at this ⊢; omega

omit [NumLike N] [LawfulNum N] in
theorem filter_validPair_valid (raw : List (Slot N)) : ∀ kv ∈ raw.filter validPair, kv.1.isNil = false ∧ kv.2.isNil = false :=
  fun kv h => (validPair_iff kv).mp (List.mem_filter.mp h).2

/-- the final map has pairwise different keys, valid pairs, and is no longer than the sequence -/
theorem finalMapR_spec (r : Bool) (raw : List (Slot N)) :
    DistinctKeys (finalMapR r raw) ∧ (∀ kv ∈ finalMapR r raw, kv.1.isNil = false ∧ kv.2.isNil = false) ∧
    (finalMapR r raw).length ≤ (raw.filter validPair).length := by
  have := foldl_put_dup r (tablen (2 * (raw.filter validPair).length)) (raw.filter validPair) []
    (structBegin (raw.filter validPair).length) (by simp [structBegin]) (by simp [structBegin]) (by simp [structBegin])
    (by have := tablen_gt' (2 * (raw.filter validPair).length); simp [structBegin]; omega)
    List.Pairwise.nil (by simp) (filter_validPair_valid raw)
  exact ⟨this.2.1, this.2.2.1, by unfold finalMapR; simpa using this.2.2.2⟩

/-- **struct construction is a function of the final key→value map**: for every insertion sequence — the same key any
    number of times, nil keys / values interspersed — and every announced count that covers the accepted puts, the struct
    built by `janet_struct_begin(c)` / `janet_struct_put`… / `janet_struct_end` is the struct of its final map
    (first key object, last value), hence (`structOf_perm`) of any list with the same pairs in any order. -/
theorem structOfCount_finalMap (c : Nat) (raw : List (Slot N)) (proto : List (JVal N))
    (hc : (raw.filter validPair).length ≤ c) : structOfCount c raw proto = structOf (finalMap raw) proto := by
  obtain ⟨hd, hv, hl⟩ := finalMapR_spec true raw
  show structOfCount c raw proto = structOf (finalMapR true raw) proto
  rw [← structOfCount_eq_structOf proto (c := c) (by omega) hv hd]
  have hcap := tablen_gt' (2 * c)
  have h1 := (foldl_put_dup true (tablen (2 * c)) (raw.filter validPair) [] (structBegin c) (by simp [structBegin])
    (by simp [structBegin]) (by simpa [structBegin] using hc) (by simp [structBegin]; omega) List.Pairwise.nil (by simp)
    (filter_validPair_valid raw)).1
  have hnew0 : ∀ (kv : Slot N), NewKey (List.replicate (tablen (2 * c)) (emptySlot : Slot N)) kv.1 :=
    fun kv j _ ho => absurd ho (occ_replicate _ j)
  have h2 := foldl_structPut (finalMap raw) (structBegin c) (RH.replicate _) (by simp [structBegin, nOcc_replicate])
    (by simp only [structBegin, Nat.zero_add]; unfold finalMap; omega) (by simp [structBegin]; omega)
    (fun kv hkv => ⟨(hv kv hkv).1, (hv kv hkv).2, hnew0 kv⟩) hd
  unfold finalMap at h2
  unfold structOfCount
  rw [foldl_structPut_filter raw]
  unfold structPut
  unfold structPut at h2
  rw [h1, h2]
  simp [structBegin, finalMapR]

/-! ### which value wins: the last one put under an equal key -/

omit [LawfulNum N] in
theorem mapGet_cons (e : Slot N) (m : List (Slot N)) (k : JVal N) :
    mapGet (e :: m) k = if contentEq e.1 k then e.2 else mapGet m k := by
  unfold mapGet; rw [List.find?_cons]; cases contentEq e.1 k <;> rfl

omit [LawfulNum N] in
theorem mapGet_append_single (m : List (Slot N)) (kv : Slot N) (k : JVal N) (h : m.any (fun e => contentEq e.1 k) = false) :
    mapGet (m ++ [kv]) k = if contentEq kv.1 k then kv.2 else .nil := by
  induction m with
  | nil => rw [List.nil_append, mapGet_cons]; rfl
  | cons e m ih =>
    simp only [List.any_cons, Bool.or_eq_false_iff] at h
    rw [List.cons_append, mapGet_cons, h.1, ih h.2]; rfl

omit [LawfulNum N] in
theorem mapGet_none (m : List (Slot N)) (k : JVal N) (h : m.any (fun e => contentEq e.1 k) = false) : mapGet m k = .nil := by
  induction m with
  | nil => rfl
  | cons e m ih =>
    simp only [List.any_cons, Bool.or_eq_false_iff] at h
    rw [mapGet_cons, h.1, ih h.2]; rfl

theorem contentEq_congr_left {a b : JVal N} (h : contentEq a b = true) (c : JVal N) : contentEq a c = contentEq b c := by
  cases h1 : contentEq b c
  · cases h2 : contentEq a c
    · rfl
    · rw [contentEq_trans_both.1 _ _ _ (by rw [contentEq_symm_both.1]; exact h) h2] at h1; cases h1
  · exact contentEq_trans_both.1 _ _ _ h h1

theorem mapGet_map_setVal (m : List (Slot N)) (k0 v0 k : JVal N) :
    mapGet (m.map (setVal k0 v0)) k =
      if contentEq k0 k && m.any (fun e => contentEq e.1 k) then v0 else mapGet m k := by
  induction m with
  | nil => simp [mapGet]
  | cons e m ih =>
    rw [List.map_cons, mapGet_cons, mapGet_cons, ih, List.any_cons]
    simp only [setVal]
    by_cases h1 : contentEq e.1 k = true
    · -- e.1 = k: then (e.1 = k0) ↔ (k0 = k)
      have : contentEq e.1 k0 = contentEq k0 k := by
        rw [contentEq_congr_left h1 k0, contentEq_symm_both.1]
      rw [this]
      simp only [h1, if_true, Bool.true_or, Bool.and_true]
    · have h1' : contentEq e.1 k = false := by simpa using h1
      simp only [h1', Bool.false_eq_true, if_false, Bool.false_or]

/-- one accepted put on the map: the key now maps to the put value (replace) / keeps its value when it had one -/
theorem mapGet_updMap_true (m : List (Slot N)) (kv : Slot N) (k : JVal N) :
    mapGet (updMap true m kv) k = if contentEq kv.1 k then kv.2 else mapGet m k := by
  unfold updMap
  by_cases hany : m.any (fun e => contentEq e.1 kv.1) = true
  · simp only [hany, if_true]
    rw [mapGet_map_setVal]
    cases h : contentEq kv.1 k
    · simp
    · have : m.any (fun e => contentEq e.1 k) = true := by
        obtain ⟨e, he, hc⟩ := List.any_eq_true.mp hany
        exact List.any_eq_true.mpr ⟨e, he, contentEq_trans_both.1 _ _ _ hc h⟩
      simp [this]
  · have hany' : m.any (fun e => contentEq e.1 kv.1) = false := by simpa using hany
    simp only [hany', Bool.false_eq_true, if_false]
    cases h : contentEq kv.1 k
    · simp only [Bool.false_eq_true, if_false]
      induction m with
      | nil => simp [mapGet_cons, h]
      | cons e m ih =>
        simp only [List.any_cons, Bool.or_eq_false_iff] at hany'
        rw [List.cons_append, mapGet_cons, mapGet_cons, ih (by simp [hany'.2]) hany'.2]
    · have : m.any (fun e => contentEq e.1 k) = false := by
        cases h2 : m.any (fun e => contentEq e.1 k)
        · rfl
        · obtain ⟨e, he, hc⟩ := List.any_eq_true.mp h2
          have := List.any_eq_false.mp hany' e he
          rw [contentEq_trans_both.1 _ _ _ hc (by rw [contentEq_symm_both.1]; exact h)] at this
          simp at this
      rw [mapGet_append_single m kv k this, h]; rfl

/-- the value the LAST accepted put with a key equal to `k` carried (nil when there is none) -/
def lastPut (V : List (Slot N)) (k : JVal N) : JVal N :=
  V.foldl (fun acc kv => if contentEq kv.1 k then kv.2 else acc) .nil

theorem mapGet_foldl_updMap : ∀ (V m : List (Slot N)) (k : JVal N),
    mapGet (V.foldl (updMap true) m) k = V.foldl (fun acc kv => if contentEq kv.1 k then kv.2 else acc) (mapGet m k)
  | [], _, _ => rfl
  | kv :: rest, m, k => by
      simp only [List.foldl_cons]
      rw [mapGet_foldl_updMap rest, mapGet_updMap_true]

/-- **which value wins**: in the final map of an insertion sequence a key maps to the value of the LAST accepted put under
    an equal key -/
theorem mapGet_finalMap (raw : List (Slot N)) (k : JVal N) : mapGet (finalMap raw) k = lastPut (raw.filter validPair) k := by
  unfold finalMap finalMapR lastPut
  rw [mapGet_foldl_updMap]; rfl

/-! ### `replace = 0` (struct/proto-flatten): the FIRST value stays -/

omit [LawfulNum N] in
theorem structPutExt_invalid (st : StructBuild N) (kv : Slot N) (r : Bool) (h : validPair kv = false) :
    structPutExt st kv.1 kv.2 r = st := by
  unfold structPutExt
  have : (kv.1.isNil || kv.2.isNil) = true := by
    unfold validPair at h; cases h1 : kv.1.isNil <;> cases h2 : kv.2.isNil <;> simp_all
  simp only [this, if_true]

omit [LawfulNum N] in
theorem foldl_putExt_filter (r : Bool) : ∀ (raw : List (Slot N)) (st : StructBuild N),
    raw.foldl (fun acc kv => structPutExt acc kv.1 kv.2 r) st =
      (raw.filter validPair).foldl (fun acc kv => structPutExt acc kv.1 kv.2 r) st
  | [], _ => rfl
  | kv :: rest, st => by
      rw [List.foldl_cons, List.filter_cons]
      cases h : validPair kv with
      | true => simp only [if_true, List.foldl_cons]; exact foldl_putExt_filter r rest _
      | false =>
        simp only [Bool.false_eq_true, if_false]; rw [structPutExt_invalid st kv r h]; exact foldl_putExt_filter r rest st

/-- `struct/proto-flatten`'s construction is the struct of the keep-first map -/
theorem structOfCountKeep_finalMap (c : Nat) (raw : List (Slot N)) (hc : (raw.filter validPair).length ≤ c) :
    structOfCountKeep c raw = structOf (finalMapR false raw) [] := by
  obtain ⟨hd, hv, hl⟩ := finalMapR_spec false raw
  rw [← structOfCount_eq_structOf [] (c := c) (by omega) hv hd]
  have hcap := tablen_gt' (2 * c)
  have h1 := (foldl_put_dup false (tablen (2 * c)) (raw.filter validPair) [] (structBegin c) (by simp [structBegin])
    (by simp [structBegin]) (by simpa [structBegin] using hc) (by simp [structBegin]; omega) List.Pairwise.nil (by simp)
    (filter_validPair_valid raw)).1
  have hnew0 : ∀ (kv : Slot N), NewKey (List.replicate (tablen (2 * c)) (emptySlot : Slot N)) kv.1 :=
    fun kv j _ ho => absurd ho (occ_replicate _ j)
  have h2 := foldl_structPut (finalMapR false raw) (structBegin c) (RH.replicate _) (by simp [structBegin, nOcc_replicate])
    (by simp only [structBegin, Nat.zero_add]; omega) (by simp [structBegin]; omega)
    (fun kv hkv => ⟨(hv kv hkv).1, (hv kv hkv).2, hnew0 kv⟩) hd
  unfold structOfCountKeep structOfCount
  rw [foldl_putExt_filter false raw, h1, h2]
  simp [structBegin, finalMapR]

omit [LawfulNum N] in
theorem mapGet_append (a b : List (Slot N)) (k : JVal N) :
    mapGet (a ++ b) k = if a.any (fun e => contentEq e.1 k) then mapGet a k else mapGet b k := by
  induction a with
  | nil => simp
  | cons e a ih =>
    rw [List.cons_append, mapGet_cons, mapGet_cons, List.any_cons, ih]
    cases contentEq e.1 k
    · simp only [Bool.false_or, Bool.false_eq_true, if_false]
    · simp only [Bool.true_or, if_true]

theorem mapGet_foldl_updMap_false : ∀ (V m : List (Slot N)) (k : JVal N),
    mapGet (V.foldl (updMap false) m) k = mapGet (m ++ V) k
  | [], m, k => by simp
  | kv :: rest, m, k => by
      simp only [List.foldl_cons]
      rw [mapGet_foldl_updMap_false rest]
      unfold updMap
      by_cases hany : m.any (fun e => contentEq e.1 kv.1) = true
      · simp only [hany, if_true, Bool.false_eq_true, if_false]
        rw [mapGet_append, mapGet_append m (kv :: rest), mapGet_cons]
        cases h : contentEq kv.1 k
        · rfl
        · have : m.any (fun e => contentEq e.1 k) = true := by
            obtain ⟨e, he, hc⟩ := List.any_eq_true.mp hany
            exact List.any_eq_true.mpr ⟨e, he, contentEq_trans_both.1 _ _ _ hc h⟩
          simp [this]
      · have hany' : m.any (fun e => contentEq e.1 kv.1) = false := by simpa using hany
        simp only [hany', Bool.false_eq_true, if_false, List.append_assoc, List.cons_append, List.nil_append]

/-- with `replace = 0` a key maps to the value of the FIRST accepted put under an equal key -/
theorem mapGet_finalMapKeep (raw : List (Slot N)) (k : JVal N) :
    mapGet (finalMapR false raw) k = mapGet (raw.filter validPair) k := by
  unfold finalMapR
  rw [mapGet_foldl_updMap_false]; rfl

/-! ### `=`-equal insertion sequences give `=` structs -/

/-- two pairs with equal keys and equal values -/
def pairEq (s s' : Slot N) : Prop := contentEq s.1 s'.1 = true ∧ contentEq s.2 s'.2 = true

theorem jcompare_congr_right {a b : JVal N} (h : contentEq a b = true) (c : JVal N) : jcompare c a = jcompare c b := by
  rw [jcompare_swap a c, jcompare_swap b c, jcompare_congr_left h]

theorem pairEq_rel : SlotRelPut (pairEq : Slot N → Slot N → Prop) where
  empty := ⟨rfl, rfl⟩
  nil := fun _ _ h => contentEq_isNil _ _ h.1
  vnil := fun _ _ h => contentEq_isNil _ _ h.2
  nan := fun _ _ _ => by rw [isNaNKey_false, isNaNKey_false]
  hash := fun _ _ h => contentEq_hash_both.1 _ _ h.1
  cmp := fun _ _ _ _ h1 h2 => by rw [jcompare_congr_left h1.1, jcompare_congr_right h2.1]
  repl := fun _ _ _ _ h1 h2 _ => ⟨h2.1, h1.2⟩

omit [NumLike N] [LawfulNum N] in
theorem PW_cons {M : Type} (R : Slot N → Slot M → Prop) (a : Slot N) (l : List (Slot N)) (a' : Slot M) (l' : List (Slot M)) :
    PW R (a :: l) (a' :: l') ↔ R a a' ∧ PW R l l' := by
  unfold PW
  constructor
  · rintro ⟨hl, h⟩
    exact ⟨by simpa using h 0, by simpa using hl, fun i => by simpa using h (i + 1)⟩
  · rintro ⟨h0, hl, h⟩
    refine ⟨by simp [hl], fun i => ?_⟩
    cases i with
    | zero => simpa using h0
    | succ i => simpa using h i

omit [LawfulNum N] in
theorem PW_pairEq_flatten : ∀ (sl sl' : List (Slot N)), PW pairEq sl sl' → contentEqList (flatten sl) (flatten sl') = true
  | [], [], _ => rfl
  | [], _ :: _, h => by have := h.1; simp at this
  | _ :: _, [], h => by have := h.1; simp at this
  | (k, v) :: l, (k', v') :: l', h => by
      rw [PW_cons] at h
      simp only [flatten, contentEqList, Bool.and_eq_true]
      exact ⟨h.1.1, h.1.2, PW_pairEq_flatten l l' h.2⟩

/-- insertion sequences that are equal pair by pair up to `=` (e.g. −0 for +0 as a key), announced alike, with `=`
    prototypes, give `=` structs -/
theorem structOfCount_contentEq (c : Nat) {kvs kvs' : List (Slot N)} (hlen : kvs.length = kvs'.length)
    (hkv : ∀ i, pairEq (kvs.getD i emptySlot) (kvs'.getD i emptySlot)) {proto proto' : List (JVal N)}
    (hp : contentEqList proto proto' = true) :
    contentEq (structOfCount c kvs proto) (structOfCount c kvs' proto') = true := by
  obtain ⟨sl, sl', e1, e2, hpw⟩ := structOfCount_rel (RP := fun p p' => contentEqList p p' = true) pairEq_rel rfl c hlen hkv hp
  rw [e1, e2]
  simp only [contentEq, Bool.and_eq_true]
  exact ⟨PW_pairEq_flatten _ _ hpw, hp⟩

/-- two maps with the same keys and values up to `=`, listed in any order -/
def MapEquiv (m₁ m₂ : List (Slot N)) : Prop :=
  ∃ m₂', m₂.Perm m₂' ∧ m₁.length = m₂'.length ∧ ∀ i, pairEq (m₁.getD i emptySlot) (m₂'.getD i emptySlot)

/-- **the struct is a function of the final key→value map alone, up to `=`**: two insertion sequences — any duplicates,
    ignored pairs, orders, announced counts, and any choice among equal key objects (−0 / +0, distinct but equal tuples) —
    whose final maps agree give structs that are `=` (hence hash alike and compare as 0) -/
theorem structOfCount_mapEquiv (c₁ c₂ : Nat) (raw₁ raw₂ : List (Slot N)) (proto : List (JVal N))
    (hc₁ : (raw₁.filter validPair).length ≤ c₁) (hc₂ : (raw₂.filter validPair).length ≤ c₂)
    (h : MapEquiv (finalMap raw₁) (finalMap raw₂)) :
    contentEq (structOfCount c₁ raw₁ proto) (structOfCount c₂ raw₂ proto) = true := by
  obtain ⟨m, hperm, hlen, hpw⟩ := h
  obtain ⟨hd, hv, _⟩ := finalMapR_spec true raw₂
  rw [structOfCount_finalMap c₁ raw₁ proto hc₁, structOfCount_finalMap c₂ raw₂ proto hc₂,
    structOf_perm proto hperm hv hd]
  unfold structOf
  rw [← hlen]
  exact structOfCount_contentEq _ hlen hpw (contentEq_refl_both.2 proto)

end JanetModel.Value
