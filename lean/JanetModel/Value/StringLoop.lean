/- C03 — string.c `janet_string_compare` / `janet_string_equalconst` / `janet_string_equal` mirrored statement by
   statement (lengths, `memcmp` over the common prefix as the byte loop it specifies, sign normalisation, length tiebreak;
   hash and length pre-check, pointer short-cut, `memcmp` over the whole string), and proved equal to the lexicographic
   byte order `bytesCompare` resp. byte equality that `janet_compare` / `janet_equals` of the model use.  CORE LEAN ONLY
   (the driver runs `stringCompareC` / `stringEqualC` against the implementation on the pool's strings). -/
import JanetModel.Value.Model

namespace JanetModel.Value

/-- `memcmp(p, q, n)`: the sign of the difference of the first pair of differing bytes (compared as unsigned char) among the
    first `n`; reading past the end of either list does not happen in the callers (n ≤ both lengths) and yields 0 -/
def memcmpC : List UInt8 → List UInt8 → Nat → Int
  | _, _, 0 => 0
  | x :: p, y :: q, n + 1 => if x != y then (if x < y then -1 else 1) else memcmpC p q n
  | _, _, _ + 1 => 0

/-- `janet_string_compare(lhs, rhs)` -/
def stringCompareC (lhs rhs : List UInt8) : Int :=
  let xlen := lhs.length
  let ylen := rhs.length
  let len := if xlen > ylen then ylen else xlen
  let res := memcmpC lhs rhs len
  if res != 0 then (if res > 0 then 1 else -1)
  else if xlen == ylen then 0
  else if xlen < ylen then -1 else 1

/-- `janet_string_equalconst(lhs, rhs, rlen, rhash)`; `samePtr` is the `lhs == rhs` test -/
def stringEqualConstC (lhs rhs : List UInt8) (rlen : Nat) (rhash : UInt32) (samePtr : Bool) : Bool :=
  let lhash := stringHash lhs
  let llen := lhs.length
  if lhash != rhash || llen != rlen then false
  else if samePtr then true
  else memcmpC lhs rhs rlen == 0

/-- `janet_string_equal(lhs, rhs)` -/
def stringEqualC (lhs rhs : List UInt8) (samePtr : Bool) : Bool :=
  stringEqualConstC lhs rhs rhs.length (stringHash rhs) samePtr

def ordInt : Ordering → Int
  | .lt => -1
  | .eq => 0
  | .gt => 1

theorem memcmpC_self (a : List UInt8) : ∀ n, memcmpC a a n = 0 := by
  induction a with
  | nil => intro n; cases n <;> rfl
  | cons x a ih => intro n; cases n with
    | zero => rfl
    | succ n => simp [memcmpC, ih]

/-- `memcmp` over the whole (equal) length is 0 exactly for equal byte strings -/
theorem memcmpC_eq_zero_iff : ∀ (a b : List UInt8), a.length = b.length → (memcmpC a b b.length = 0 ↔ a = b)
  | [], [], _ => by simp [memcmpC]
  | [], _ :: _, h => by simp at h
  | _ :: _, [], h => by simp at h
  | x :: a, y :: b, h => by
      have ih := memcmpC_eq_zero_iff a b (by simpa using h)
      simp only [List.length_cons, memcmpC]
      by_cases e : x = y
      · subst e; simp [ih]
      · have : (x != y) = true := by simpa using e
        simp only [this, if_true, List.cons.injEq, e, false_and, iff_false]
        split <;> decide

/-- **`janet_string_compare` is the lexicographic byte order** (prefix first) -/
theorem stringCompareC_eq : ∀ (a b : List UInt8), stringCompareC a b = ordInt (bytesCompare a b)
  | [], [] => by decide
  | [], _ :: _ => by simp [stringCompareC, memcmpC, bytesCompare, ordInt]
  | _ :: _, [] => by simp [stringCompareC, memcmpC, bytesCompare, ordInt]
  | x :: a, y :: b => by
      have ih := stringCompareC_eq a b
      unfold stringCompareC at ih ⊢
      simp only [List.length_cons, bytesCompare] at ih ⊢
      have hlen : (if a.length + 1 > b.length + 1 then b.length + 1 else a.length + 1) = (if a.length > b.length then b.length else a.length) + 1 := by
        split <;> split <;> omega
      rw [hlen]
      simp only [memcmpC]
      by_cases hxy : x = y
      · subst hxy
        have h1 : ¬ (x < x) := by simp
        simp only [bne_self_eq_false, Bool.false_eq_true, if_false, h1]
        rw [← ih]
        simp only [Nat.add_lt_add_iff_right, Nat.add_right_cancel_iff, beq_iff_eq]
      · have hne : (x != y) = true := by simpa using hxy
        simp only [hne, if_true]
        by_cases hlt : x < y
        · simp [hlt, ordInt]
        · have hgt : y < x := by
            have h1 : x.toNat ≠ y.toNat := fun h => hxy (UInt8.toNat_inj.mp h)
            have h2 : ¬ x.toNat < y.toNat := fun h => hlt (UInt8.lt_iff_toNat_lt.mpr h)
            exact UInt8.lt_iff_toNat_lt.mpr (by omega)
          simp [hlt, hgt, ordInt]

/-- **`janet_string_equal` is byte equality** — the hash and length pre-checks and the pointer short-cut (taken only when
    both are the same string) never change the answer -/
theorem stringEqualC_eq (a b : List UInt8) (samePtr : Bool) (hptr : samePtr = true → a = b) :
    stringEqualC a b samePtr = (a == b) ∧ stringEqualC a b samePtr = bytesEqual a b := by
  have key : stringEqualC a b samePtr = (a == b) := by
    unfold stringEqualC stringEqualConstC
    simp only []
    by_cases e : a = b
    · subst e
      simp [memcmpC_self]
    · have hne : (a == b) = false := by simpa using e
      rw [hne]
      by_cases hp : (stringHash a != stringHash b || a.length != b.length) = true
      · simp only [hp, if_true]
      · simp only [hp, Bool.false_eq_true, if_false]
        have hl : a.length = b.length := by
          simp only [Bool.or_eq_true, bne_iff_ne, ne_eq, not_or, Decidable.not_not] at hp
          exact hp.2
        cases samePtr with
        | true => exact absurd (hptr rfl) e
        | false =>
          simp only [Bool.false_eq_true, if_false]
          have : ¬ memcmpC a b b.length = 0 := fun h => e ((memcmpC_eq_zero_iff a b hl).mp h)
          simpa using this
  refine ⟨key, ?_⟩
  rw [key]
  unfold bytesEqual
  by_cases e : a = b
  · subst e; simp
  · split <;> simp [e]

end JanetModel.Value
