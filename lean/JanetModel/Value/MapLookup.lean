/- C03 — from equal lookups to `MapEquiv`: two key→value maps (pairwise different keys, non-nil values — what `finalMap` yields)
   that answer every lookup alike, up to `=` of the values, list the same pairs up to `=` and order. -/
import JanetModel.Value.RobinDup

namespace JanetModel.Value

variable {N : Type} [NumLike N] [LawfulNum N]

/-- the two maps answer every lookup alike (values up to `=`) -/
def SameLookups (m₁ m₂ : List (Slot N)) : Prop := ∀ k, contentEq (mapGet m₁ k) (mapGet m₂ k) = true

theorem ceq_symm' {a b : JVal N} (h : contentEq a b = true) : contentEq b a = true := by
  rw [contentEq_symm_both.1]; exact h

theorem ceq_trans' {a b c : JVal N} (h1 : contentEq a b = true) (h2 : contentEq b c = true) : contentEq a c = true :=
  contentEq_trans_both.1 a b c h1 h2

theorem ceq_false_of {a b c : JVal N} (h1 : contentEq a b = false) (h2 : contentEq b c = true) : contentEq a c = false := by
  cases h : contentEq a c
  · rfl
  · rw [ceq_trans' h (ceq_symm' h2)] at h1; cases h1

/-- in a map with pairwise different keys the entry under a key is THE entry whose key equals it -/
theorem mapGet_of_mem : ∀ (m : List (Slot N)) (e : Slot N) (k : JVal N), DistinctKeys m → e ∈ m → contentEq e.1 k = true →
    mapGet m k = e.2
  | [], _, _, _, h, _ => by cases h
  | hd :: tl, e, k, hd', hm, hk => by
    rw [mapGet_cons]
    rcases List.mem_cons.mp hm with rfl | hm'
    · rw [hk]; rfl
    · have hne : contentEq hd.1 e.1 = false := (List.pairwise_cons.mp hd').1 e hm'
      rw [ceq_false_of hne hk]
      exact mapGet_of_mem tl e k (List.pairwise_cons.mp hd').2 hm' hk

omit [LawfulNum N] in
theorem mapGet_nil_or_mem : ∀ (m : List (Slot N)) (k : JVal N),
    m.any (fun e => contentEq e.1 k) = false ∨ ∃ e ∈ m, contentEq e.1 k = true
  | [], _ => Or.inl rfl
  | hd :: tl, k => by
    cases h : contentEq hd.1 k
    · rcases mapGet_nil_or_mem tl k with h' | ⟨e, he, hk⟩
      · exact Or.inl (by simp [List.any_cons, h, h'])
      · exact Or.inr ⟨e, List.mem_cons_of_mem _ he, hk⟩
    · exact Or.inr ⟨hd, List.mem_cons_self, h⟩

theorem distinctKeys_perm {l l' : List (Slot N)} (hp : l.Perm l') (hd : DistinctKeys l) : DistinctKeys l' := by
  unfold DistinctKeys at *
  refine (hp.pairwise_iff ?_).mp hd
  intro a b h
  rw [contentEq_symm_both.1]; exact h

/-- lookups do not depend on the order in which a map with pairwise different keys is listed -/
theorem mapGet_perm {l l' : List (Slot N)} (hp : l.Perm l') (hd : DistinctKeys l) (k : JVal N) : mapGet l k = mapGet l' k := by
  rcases mapGet_nil_or_mem l k with h | ⟨e, he, hk⟩
  · have h' : l'.any (fun e => contentEq e.1 k) = false := by
      rw [List.any_eq_false] at *
      intro x hx; exact h x (hp.mem_iff.mpr hx)
    rw [mapGet_none l k h, mapGet_none l' k h']
  · rw [mapGet_of_mem l e k hd he hk, mapGet_of_mem l' e k (distinctKeys_perm hp hd) (hp.mem_iff.mp he) hk]

omit [LawfulNum N] in
theorem ceq_nil_left {x : JVal N} (h : contentEq (.nil : JVal N) x = true) : x.isNil = true := by
  cases x <;> simp [contentEq] at h; rfl

/-- **EQUAL LOOKUPS ⇒ `MapEquiv`** -/
theorem mapEquiv_of_sameLookups : ∀ (m₁ m₂ : List (Slot N)), DistinctKeys m₁ → DistinctKeys m₂ →
    (∀ kv ∈ m₁, kv.2.isNil = false) → (∀ kv ∈ m₂, kv.2.isNil = false) → SameLookups m₁ m₂ → MapEquiv m₁ m₂
  | [], m₂, _, _, _, hv₂, hs => by
    cases m₂ with
    | nil => exact ⟨[], List.Perm.refl _, rfl, fun i => by simp [pairEq, emptySlot, contentEq]⟩
    | cons e rest =>
      exfalso
      have := hs e.1
      rw [mapGet_cons, contentEq_refl_both.1] at this
      have h1 := ceq_nil_left (by simpa [mapGet] using this)
      rw [hv₂ e List.mem_cons_self] at h1; cases h1
  | (k, v) :: rest, m₂, hd₁, hd₂, hv₁, hv₂, hs => by
    have hk := hs k
    rw [mapGet_cons] at hk
    simp only [contentEq_refl_both.1, if_true] at hk
    have hvn : v.isNil = false := hv₁ (k, v) List.mem_cons_self
    have hgn : (mapGet m₂ k).isNil = false := by rw [← contentEq_isNil v _ hk]; exact hvn
    rcases mapGet_nil_or_mem m₂ k with h | ⟨e, he, hek⟩
    · rw [mapGet_none m₂ k h] at hgn; cases hgn
    · have hge := mapGet_of_mem m₂ e k hd₂ he hek
      obtain ⟨s, t, rfl⟩ := List.mem_iff_append.mp he
      have hperm : (s ++ e :: t).Perm (e :: (s ++ t)) := List.perm_middle
      have hd₂' := distinctKeys_perm hperm hd₂
      have hdr := (List.pairwise_cons.mp hd₁).2
      have hd₂t := (List.pairwise_cons.mp hd₂').2
      have hs' : SameLookups rest (s ++ t) := by
        intro k'
        have h0 := hs k'
        rw [mapGet_cons, mapGet_perm hperm hd₂ k', mapGet_cons] at h0
        cases hkk : contentEq k k'
        · have : contentEq e.1 k' = false := by
            cases hx : contentEq e.1 k'
            · rfl
            · rw [ceq_trans' (ceq_symm' hek) hx] at hkk; cases hkk
          simpa [hkk, this] using h0
        · have h1 : rest.any (fun x => contentEq x.1 k') = false := by
            rw [List.any_eq_false]; intro x hx
            have := (List.pairwise_cons.mp hd₁).1 x hx
            simp only at this
            cases hxx : contentEq x.1 k'
            · simp
            · rw [ceq_trans' hkk (ceq_symm' hxx)] at this; cases this
          have h2 : (s ++ t).any (fun x => contentEq x.1 k') = false := by
            rw [List.any_eq_false]; intro x hx
            have := (List.pairwise_cons.mp hd₂').1 x hx
            cases hxx : contentEq x.1 k'
            · simp
            · rw [ceq_trans' (ceq_trans' hek hkk) (ceq_symm' hxx)] at this; cases this
          rw [mapGet_none _ _ h1, mapGet_none _ _ h2]; rfl
      obtain ⟨m', hp', hl', hpw'⟩ := mapEquiv_of_sameLookups rest (s ++ t) hdr hd₂t
        (fun kv h => hv₁ kv (List.mem_cons_of_mem _ h))
        (fun kv h => hv₂ kv (by rcases List.mem_append.mp h with h | h
                                · exact List.mem_append_left _ h
                                · exact List.mem_append_right _ (List.mem_cons_of_mem _ h))) hs'
      refine ⟨e :: m', hperm.trans (List.Perm.cons e hp'), by simp [hl'], fun i => ?_⟩
      cases i with
      | zero => exact ⟨ceq_symm' hek, by rw [hge] at hk; exact hk⟩
      | succ i => simpa using hpw' i

end JanetModel.Value
