/- C03 — order independence: two insertions commute, hence any permutation of the insertions gives the same array. -/
import JanetModel.Value.RobinUnique

namespace JanetModel.Value
open JanetModel.Gen.Value

theorem dst_add {cap f h x : Nat} (hf : f < cap) (hh : h < cap) (hx : x < cap) (hle : dst cap f h ≤ dst cap x h) :
    dst cap x h = dst cap f h + dst cap x f := by
  have := dst_cases hf hh; have := dst_cases hx hh; have := dst_cases hx hf; omega

theorem dst_add' {cap f h x : Nat} (hf : f < cap) (hh : h < cap) (hx : x < cap) (hlt : dst cap f h + dst cap x f < cap) :
    dst cap x h = dst cap f h + dst cap x f := by
  have := dst_cases hf hh; have := dst_cases hx hh; have := dst_cases hx hf; omega

variable {N : Type} [NumLike N]

/-- `f` is the first empty slot at or after `h` (cyclically) -/
def IsFE (sl : List (Slot N)) (h f : Nat) : Prop :=
  f < sl.length ∧ ¬ Occ sl f ∧ ∀ j, j < sl.length → dst sl.length j h < dst sl.length f h → Occ sl j

theorem IsFE.unique {sl : List (Slot N)} {h f f' : Nat} (hh : h < sl.length) (h1 : IsFE sl h f) (h2 : IsFE sl h f') : f = f' := by
  obtain ⟨a1, a2, a3⟩ := h1; obtain ⟨b1, b2, b3⟩ := h2
  by_cases e : dst sl.length f h = dst sl.length f' h
  · exact dst_inj_left a1 b1 hh e
  · exfalso
    by_cases lt : dst sl.length f h < dst sl.length f' h
    · exact a2 (b3 f a1 lt)
    · exact b2 (a3 f' b1 (by omega))

/-- filling another slot does not move the first empty slot -/
theorem IsFE.of_other {sl sl1 : List (Slot N)} {h f g : Nat} (hlen : sl1.length = sl.length)
    (hocc : ∀ j, Occ sl1 j ↔ (Occ sl j ∨ j = g)) (hne : f ≠ g) (h1 : IsFE sl h f) : IsFE sl1 h f := by
  obtain ⟨a1, a2, a3⟩ := h1
  refine ⟨by omega, fun ho => ?_, fun j hj hlt => ?_⟩
  · rcases (hocc f).mp ho with h' | h'
    · exact a2 h'
    · exact hne h'
  · rw [hlen] at hj hlt; exact (hocc j).mpr (Or.inl (a3 j hj hlt))

/-- when everything from `h` up to and including `f` is occupied, searching from `h` or from `f` finds the same slot -/
theorem IsFE.shift {sl : List (Slot N)} {h f g : Nat} (hh : h < sl.length) (hf : f < sl.length)
    (hpath : ∀ j, j < sl.length → dst sl.length j h ≤ dst sl.length f h → Occ sl j) :
    IsFE sl h g ↔ IsFE sl f g := by
  constructor
  · rintro ⟨a1, a2, a3⟩
    have hgt : dst sl.length f h < dst sl.length g h := by
      by_cases e : dst sl.length f h < dst sl.length g h
      · exact e
      · exact absurd (hpath g a1 (by omega)) a2
    have eg := dst_add hf hh a1 (by omega)
    refine ⟨a1, a2, fun j hj hlt => ?_⟩
    have := dst_lt a1 hh
    have ej := dst_add' hf hh hj (by omega)
    exact a3 j hj (by omega)
  · rintro ⟨a1, a2, a3⟩
    have hgt : dst sl.length f h < dst sl.length g h := by
      by_cases e : dst sl.length f h < dst sl.length g h
      · exact e
      · exact absurd (hpath g a1 (by omega)) a2
    have eg := dst_add hf hh a1 (by omega)
    refine ⟨a1, a2, fun j hj hlt => ?_⟩
    by_cases e : dst sl.length j h ≤ dst sl.length f h
    · exact hpath j hj e
    · have ej := dst_add hf hh hj (by omega)
      exact a3 j hj (by omega)


/-- number of occupied slots -/
def nOcc (sl : List (Slot N)) : Nat := sl.countP (fun s => !s.1.isNil)

theorem sg_cons_succ (a : Slot N) (l : List (Slot N)) (i : Nat) : sg (a :: l) (i + 1) = sg l i := by simp [sg]
theorem occ_cons_succ (a : Slot N) (l : List (Slot N)) (i : Nat) : Occ (a :: l) (i + 1) ↔ Occ l i := by
  unfold Occ; rw [sg_cons_succ]
theorem occ_cons_zero (a : Slot N) (l : List (Slot N)) : Occ (a :: l) 0 ↔ a.1.isNil = false := by simp [Occ, sg]
theorem nOcc_cons (a : Slot N) (l : List (Slot N)) : nOcc (a :: l) = (if a.1.isNil then 0 else 1) + nOcc l := by
  unfold nOcc; rw [List.countP_cons]; cases a.1.isNil <;> simp <;> omega

theorem nOcc_congr : ∀ (l1 l2 : List (Slot N)), l1.length = l2.length → (∀ j, Occ l2 j ↔ Occ l1 j) → nOcc l2 = nOcc l1
  | [], [], _, _ => rfl
  | [], _ :: _, h, _ => by simp at h
  | _ :: _, [], h, _ => by simp at h
  | a :: t1, b :: t2, h, ho => by
      have ih := nOcc_congr t1 t2 (by simpa using h) (fun j => by have := ho (j + 1); rwa [occ_cons_succ, occ_cons_succ] at this)
      have h0 := ho 0
      rw [occ_cons_zero, occ_cons_zero] at h0
      rw [nOcc_cons, nOcc_cons, ih]
      cases ha : a.1.isNil <;> cases hb : b.1.isNil <;> simp_all

theorem nOcc_add_one : ∀ (l1 l2 : List (Slot N)) (f : Nat), l1.length = l2.length → f < l1.length → ¬ Occ l1 f →
    (∀ j, Occ l2 j ↔ (Occ l1 j ∨ j = f)) → nOcc l2 = nOcc l1 + 1
  | [], _, _, _, hf, _, _ => by simp at hf
  | _ :: _, [], _, h, _, _, _ => by simp at h
  | a :: t1, b :: t2, 0, h, _, hn, ho => by
      have ih := nOcc_congr t1 t2 (by simpa using h) (fun j => by
        have := ho (j + 1); rw [occ_cons_succ, occ_cons_succ] at this; simpa using this)
      have h0 := ho 0
      rw [occ_cons_zero] at hn
      rw [occ_cons_zero, occ_cons_zero] at h0
      rw [nOcc_cons, nOcc_cons, ih]
      cases ha : a.1.isNil <;> cases hb : b.1.isNil <;> simp_all <;> omega
  | a :: t1, b :: t2, f + 1, h, hf, hn, ho => by
      have ih := nOcc_add_one t1 t2 f (by simpa using h) (by simpa using hf) (by rwa [occ_cons_succ] at hn) (fun j => by
        have := ho (j + 1); rw [occ_cons_succ, occ_cons_succ] at this; simpa using this)
      have h0 := ho 0
      rw [occ_cons_zero, occ_cons_zero] at h0
      rw [nOcc_cons, nOcc_cons, ih]
      cases ha : a.1.isNil <;> cases hb : b.1.isNil <;> simp_all <;> omega

theorem nOcc_lt_exists_empty : ∀ (sl : List (Slot N)), nOcc sl < sl.length → ∃ z, z < sl.length ∧ ¬ Occ sl z
  | [], h => by simp at h
  | a :: l, h => by
      cases ha : a.1.isNil with
      | true => exact ⟨0, by simp, by rw [occ_cons_zero]; simp [ha]⟩
      | false =>
        have : nOcc l < l.length := by rw [nOcc_cons] at h; simp [ha] at h; omega
        obtain ⟨z, hz, he⟩ := nOcc_lt_exists_empty l this
        exact ⟨z + 1, by simp; omega, by rw [occ_cons_succ]; exact he⟩

theorem nOcc_replicate (n : Nat) : nOcc (List.replicate n (emptySlot : Slot N)) = 0 := by
  unfold nOcc; simp [List.countP_replicate, emptySlot, JVal.isNil]


variable [LawfulNum N]

/-- the slot array after the probe loop of `janet_struct_put` for the pair `kv` -/
def ins (sl : List (Slot N)) (kv : Slot N) : List (Slot N) :=
  (putLoop sl.length true sl.length (hm sl.length kv.1) 0 kv.1 kv.2 (hash kv.1) sl).1

/-- `kv`'s key is different from every key in the array -/
def NewKey (sl : List (Slot N)) (k : JVal N) : Prop := ∀ j, j < sl.length → Occ sl j → contentEq k (sg sl j).1 = false

/-- inserting a new key: first empty slot from its home gets filled, invariant kept, exactly this pair added -/
theorem ins_new {sl : List (Slot N)} (hrh : RH sl) (hroom : nOcc sl < sl.length) {kv : Slot N} (hk : kv.1.isNil = false)
    (hnew : NewKey sl kv.1) :
    ∃ f, putLoop sl.length true sl.length (hm sl.length kv.1) 0 kv.1 kv.2 (hash kv.1) sl = (ins sl kv, true) ∧
      (ins sl kv).length = sl.length ∧ RH (ins sl kv) ∧ IsFE sl (hm sl.length kv.1) f ∧
      (∀ j, Occ (ins sl kv) j ↔ (Occ sl j ∨ j = f)) ∧ (∀ e, Has (ins sl kv) e ↔ (Has sl e ∨ e = kv)) ∧
      nOcc (ins sl kv) = nOcc sl + 1 := by
  have hcap : 0 < sl.length := by omega
  have hh := hm_lt hcap kv.1
  have hz := nOcc_lt_exists_empty sl hroom
  have := putLoop_spec sl.length true (hm sl.length kv.1) hh sl.length 0 (hm sl.length kv.1) kv.1 kv.2 sl rfl hrh hh
    (by omega) (dst_self hh) (fun j _ h => by omega) hz hk
    (fun j _ h => by rw [dst_self hh] at h; omega) (fun p _ _ h => absurd rfl h) hnew
  obtain ⟨f, sl', hf, hres, hlen', hrh', hnf, hpth, hocc, hhas⟩ := this
  rw [dst_self hh] at hres
  have e : ins sl kv = sl' := by unfold ins; rw [hres]
  rw [e]
  refine ⟨f, hres, hlen', hrh', ⟨hf, hnf, hpth⟩, hocc, ?_, nOcc_add_one sl sl' f hlen'.symm hf hnf hocc⟩
  intro x; rw [hhas]

theorem IsFE.congr {sl sl' : List (Slot N)} {h f : Nat} (hlen : sl'.length = sl.length)
    (hocc : ∀ j, Occ sl' j ↔ Occ sl j) (h1 : IsFE sl h f) : IsFE sl' h f := by
  obtain ⟨a1, a2, a3⟩ := h1
  exact ⟨by omega, fun ho => a2 ((hocc f).mp ho), fun j hj hlt => (hocc j).mpr (a3 j (by omega) (by rw [← hlen]; exact hlt))⟩

theorem newKey_ins {sl : List (Slot N)} {a : Slot N} {k : JVal N} (hnew : NewKey sl k)
    (hhas : ∀ e, Has (ins sl a) e ↔ (Has sl e ∨ e = a)) (hne : contentEq k a.1 = false) : NewKey (ins sl a) k := by
  intro j hj ho
  rcases (hhas (sg (ins sl a) j)).mp ⟨j, hj, ho, rfl⟩ with ⟨j', hj', ho', he⟩ | he
  · rw [← he]; exact hnew j' hj' ho'
  · rw [he]; exact hne

/-- **two insertions commute** -/
theorem ins_comm {sl : List (Slot N)} (hrh : RH sl) (hroom : nOcc sl + 2 < sl.length) {a b : Slot N}
    (ha : a.1.isNil = false) (hb : b.1.isNil = false) (hna : NewKey sl a.1) (hnb : NewKey sl b.1)
    (hab : contentEq a.1 b.1 = false) : ins (ins sl a) b = ins (ins sl b) a := by
  have hba : contentEq b.1 a.1 = false := by rw [contentEq_symm_both.1]; exact hab
  have hcap : 0 < sl.length := by omega
  obtain ⟨fa, _, lenA, rhA, feA, occA, hasA, nA⟩ := ins_new hrh (by omega) ha hna
  obtain ⟨fb, _, lenB, rhB, feB, occB, hasB, nB⟩ := ins_new hrh (by omega) hb hnb
  obtain ⟨g, _, lenAB, rhAB, feAB, occAB, hasAB, nAB⟩ := ins_new rhA (by omega) hb (newKey_ins hnb hasA hba)
  obtain ⟨g', _, lenBA, rhBA, feBA, occBA, hasBA, nBA⟩ := ins_new rhB (by omega) ha (newKey_ins hna hasB hab)
  rw [lenA] at feAB; rw [lenB] at feBA
  have hha := hm_lt hcap a.1
  have hhb := hm_lt hcap b.1
  -- the two pairs of filled slots coincide
  have hsets : ∀ j, (j = fa ∨ j = g) ↔ (j = fb ∨ j = g') := by
    by_cases e : fa = fb
    · subst e
      -- both first land in `fa`; the second ones search on from there
      have pathA : ∀ h, h < sl.length → IsFE sl h fa →
          ∀ j, j < (ins sl a).length → dst (ins sl a).length j h ≤ dst (ins sl a).length fa h → Occ (ins sl a) j := by
        intro h hh hfe j hj hle
        rw [lenA] at hj hle
        by_cases e : j = fa
        · exact (occA j).mpr (Or.inr e)
        · have : dst sl.length j h ≠ dst sl.length fa h := fun e' => e (dst_inj_left hj hfe.1 hh e')
          exact (occA j).mpr (Or.inl (hfe.2.2 j hj (by omega)))
      have s1 : IsFE (ins sl a) fa g :=
        (IsFE.shift (by rw [lenA]; exact hhb) (by rw [lenA]; exact feA.1) (pathA _ hhb feB)).mp
          feAB
      have occEq : ∀ j, Occ (ins sl b) j ↔ Occ (ins sl a) j := fun j => by rw [occA, occB]
      have pathB : ∀ j, j < (ins sl b).length → dst (ins sl b).length j (hm sl.length a.1) ≤ dst (ins sl b).length fa (hm sl.length a.1) →
          Occ (ins sl b) j := by
        intro j hj hle
        rw [occEq]; exact pathA _ hha feA j (by rw [lenA]; rw [lenB] at hj; exact hj) (by rw [lenA]; rw [lenB] at hle; exact hle)
      have s2 : IsFE (ins sl b) fa g' :=
        (IsFE.shift (by rw [lenB]; exact hha) (by rw [lenB]; exact feB.1) pathB).mp feBA
      have s2' : IsFE (ins sl a) fa g' := s2.congr (by rw [lenA, lenB]) (fun j => (occEq j).symm)
      have := IsFE.unique (by rw [lenA]; exact feA.1) s1 s2'
      subst this
      intro j; exact Iff.rfl
    · have e1 : g = fb :=
        IsFE.unique (by rw [lenA]; exact hhb) feAB ((feB.of_other lenA occA (Ne.symm e)))
      have e2 : g' = fa :=
        IsFE.unique (by rw [lenB]; exact hha) feBA ((feA.of_other lenB occB e))
      subst e1; subst e2
      intro j; exact ⟨fun h => h.symm, fun h => h.symm⟩
  have hoccEq : ∀ j, Occ (ins (ins sl a) b) j ↔ Occ (ins (ins sl b) a) j := by
    intro j; rw [occAB, occBA, occA, occB]
    have := hsets j
    constructor
    · rintro ((h | h) | h)
      · exact Or.inl (Or.inl h)
      · rcases this.mp (Or.inl h) with h' | h'
        · exact Or.inl (Or.inr h')
        · exact Or.inr h'
      · rcases this.mp (Or.inr h) with h' | h'
        · exact Or.inl (Or.inr h')
        · exact Or.inr h'
    · rintro ((h | h) | h)
      · exact Or.inl (Or.inl h)
      · rcases this.mpr (Or.inl h) with h' | h'
        · exact Or.inl (Or.inr h')
        · exact Or.inr h'
      · rcases this.mpr (Or.inr h) with h' | h'
        · exact Or.inl (Or.inr h')
        · exact Or.inr h'
  have hhasEq : ∀ e, Has (ins (ins sl a) b) e ↔ Has (ins (ins sl b) a) e := by
    intro e; rw [hasAB, hasBA, hasA, hasB]
    constructor
    · rintro ((h | h) | h)
      · exact Or.inl (Or.inl h)
      · exact Or.inr h
      · exact Or.inl (Or.inr h)
    · rintro ((h | h) | h)
      · exact Or.inl (Or.inl h)
      · exact Or.inr h
      · exact Or.inl (Or.inr h)
  obtain ⟨z, hz, hez⟩ := nOcc_lt_exists_empty (ins (ins sl a) b) (by rw [lenAB, lenA]; omega)
  exact RH.unique rhAB rhBA (by rw [lenBA, lenB, lenAB, lenA]) hoccEq hhasEq hz hez

end JanetModel.Value
