/- C03 — order independence: two insertions commute, hence any permutation of the insertions gives the same array. -/
import JanetModel.Value.RobinUnique

namespace JanetModel.Value
open JanetModel.Gen.Value

theorem dst_add {cap f h x : Nat} (hf : f < cap) (hh : h < cap) (hx : x < cap) (hle : dst cap f h ≤ dst cap x h) :
    dst cap x h = dst cap f h + dst cap x f := by
  have := dst_cases hf hh; have := dst_cases hx hh; have := dst_cases hx hf; omega

theorem dst_add' {cap f h x : Nat} (hf : f < cap) (hh : h < cap) (hx : x < cap) (hlt : dst cap f h + dst cap x f < cap) :
    dst cap x h = dst cap f h + dst cap x f := by
  have := dst_cases hf hh; have := dst_cases hx hh; have := dst_cases hx hf; omega

variable {N : Type} [NumLike N]

/-- `f` is the first empty slot at or after `h` (cyclically) -/
def IsFE (sl : List (Slot N)) (h f : Nat) : Prop :=
  f < sl.length ∧ ¬ Occ sl f ∧ ∀ j, j < sl.length → dst sl.length j h < dst sl.length f h → Occ sl j

theorem IsFE.unique {sl : List (Slot N)} {h f f' : Nat} (hh : h < sl.length) (h1 : IsFE sl h f) (h2 : IsFE sl h f') : f = f' := by
  obtain ⟨a1, a2, a3⟩ := h1; obtain ⟨b1, b2, b3⟩ := h2
  by_cases e : dst sl.length f h = dst sl.length f' h
  · exact dst_inj_left a1 b1 hh e
  · exfalso
    by_cases lt : dst sl.length f h < dst sl.length f' h
    · exact a2 (b3 f a1 lt)
    · exact b2 (a3 f' b1 (by omega))

/-- filling another slot does not move the first empty slot -/
theorem IsFE.of_other {sl sl1 : List (Slot N)} {h f g : Nat} (hlen : sl1.length = sl.length)
    (hocc : ∀ j, Occ sl1 j ↔ (Occ sl j ∨ j = g)) (hne : f ≠ g) (h1 : IsFE sl h f) : IsFE sl1 h f := by
  obtain ⟨a1, a2, a3⟩ := h1
  refine ⟨by omega, fun ho => ?_, fun j hj hlt => ?_⟩
  · rcases (hocc f).mp ho with h' | h'
    · exact a2 h'
    · exact hne h'
  · rw [hlen] at hj hlt; exact (hocc j).mpr (Or.inl (a3 j hj hlt))

/-- when everything from `h` up to and including `f` is occupied, searching from `h` or from `f` finds the same slot -/
theorem IsFE.shift {sl : List (Slot N)} {h f g : Nat} (hh : h < sl.length) (hf : f < sl.length)
    (hpath : ∀ j, j < sl.length → dst sl.length j h ≤ dst sl.length f h → Occ sl j) :
    IsFE sl h g ↔ IsFE sl f g := by
  constructor
  · rintro ⟨a1, a2, a3⟩
    have hgt : dst sl.length f h < dst sl.length g h := by
      by_cases e : dst sl.length f h < dst sl.length g h
      · exact e
      · exact absurd (hpath g a1 (by omega)) a2
    have eg := dst_add hf hh a1 (by omega)
    refine ⟨a1, a2, fun j hj hlt => ?_⟩
    have := dst_lt a1 hh
    have ej := dst_add' hf hh hj (by omega)
    exact a3 j hj (by omega)
  · rintro ⟨a1, a2, a3⟩
    have hgt : dst sl.length f h < dst sl.length g h := by
      by_cases e : dst sl.length f h < dst sl.length g h
      · exact e
      · exact absurd (hpath g a1 (by omega)) a2
    have eg := dst_add hf hh a1 (by omega)
    refine ⟨a1, a2, fun j hj hlt => ?_⟩
    by_cases e : dst sl.length j h ≤ dst sl.length f h
    · exact hpath j hj e
    · have ej := dst_add hf hh hj (by omega)
      exact a3 j hj (by omega)


/-- number of occupied slots -/
def nOcc (sl : List (Slot N)) : Nat := sl.countP (fun s => !s.1.isNil)

theorem sg_cons_succ (a : Slot N) (l : List (Slot N)) (i : Nat) : sg (a :: l) (i + 1) = sg l i := by simp [sg]
theorem occ_cons_succ (a : Slot N) (l : List (Slot N)) (i : Nat) : Occ (a :: l) (i + 1) ↔ Occ l i := by
  unfold Occ; rw [sg_cons_succ]
theorem occ_cons_zero (a : Slot N) (l : List (Slot N)) : Occ (a :: l) 0 ↔ a.1.isNil = false := by simp [Occ, sg]
theorem nOcc_cons (a : Slot N) (l : List (Slot N)) : nOcc (a :: l) = (if a.1.isNil then 0 else 1) + nOcc l := by
  unfold nOcc; rw [List.countP_cons]; cases a.1.isNil <;> simp <;> omega

theorem nOcc_congr : ∀ (l1 l2 : List (Slot N)), l1.length = l2.length → (∀ j, Occ l2 j ↔ Occ l1 j) → nOcc l2 = nOcc l1
  | [], [], _, _ => rfl
  | [], _ :: _, h, _ => by simp at h
  | _ :: _, [], h, _ => by simp at h
  | a :: t1, b :: t2, h, ho => by
      have ih := nOcc_congr t1 t2 (by simpa using h) (fun j => by have := ho (j + 1); rwa [occ_cons_succ, occ_cons_succ] at this)
      have h0 := ho 0
      rw [occ_cons_zero, occ_cons_zero] at h0
      rw [nOcc_cons, nOcc_cons, ih]
      cases ha : a.1.isNil <;> cases hb : b.1.isNil <;> simp_all

theorem nOcc_add_one : ∀ (l1 l2 : List (Slot N)) (f : Nat), l1.length = l2.length → f < l1.length → ¬ Occ l1 f →
    (∀ j, Occ l2 j ↔ (Occ l1 j ∨ j = f)) → nOcc l2 = nOcc l1 + 1
  | [], _, _, _, hf, _, _ => by simp at hf
  | _ :: _, [], _, h, _, _, _ => by simp at h
  | a :: t1, b :: t2, 0, h, _, hn, ho => by
      have ih := nOcc_congr t1 t2 (by simpa using h) (fun j => by
        have := ho (j + 1); rw [occ_cons_succ, occ_cons_succ] at this; simpa using this)
      have h0 := ho 0
      rw [occ_cons_zero] at hn
      rw [occ_cons_zero, occ_cons_zero] at h0
      rw [nOcc_cons, nOcc_cons, ih]
      cases ha : a.1.isNil <;> cases hb : b.1.isNil <;> simp_all <;> omega
  | a :: t1, b :: t2, f + 1, h, hf, hn, ho => by
      have ih := nOcc_add_one t1 t2 f (by simpa using h) (by simpa using hf) (by rwa [occ_cons_succ] at hn) (fun j => by
        have := ho (j + 1); rw [occ_cons_succ, occ_cons_succ] at this; simpa using this)
      have h0 := ho 0
      rw [occ_cons_zero, occ_cons_zero] at h0
      rw [nOcc_cons, nOcc_cons, ih]
      cases ha : a.1.isNil <;> cases hb : b.1.isNil <;> simp_all <;> omega

theorem nOcc_lt_exists_empty : ∀ (sl : List (Slot N)), nOcc sl < sl.length → ∃ z, z < sl.length ∧ ¬ Occ sl z
  | [], h => by simp at h
  | a :: l, h => by
      cases ha : a.1.isNil with
      | true => exact ⟨0, by simp, by rw [occ_cons_zero]; simp [ha]⟩
      | false =>
        have : nOcc l < l.length := by rw [nOcc_cons] at h; simp [ha] at h; omega
        obtain ⟨z, hz, he⟩ := nOcc_lt_exists_empty l this
        exact ⟨z + 1, by simp; omega, by rw [occ_cons_succ]; exact he⟩

theorem nOcc_replicate (n : Nat) : nOcc (List.replicate n (emptySlot : Slot N)) = 0 := by
  unfold nOcc; simp [List.countP_replicate, emptySlot, JVal.isNil]


variable [LawfulNum N]

/-- the slot array after the probe loop of `janet_struct_put` for the pair `kv` -/
def ins (sl : List (Slot N)) (kv : Slot N) : List (Slot N) :=
  (putLoop sl.length true sl.length (hm sl.length kv.1) 0 kv.1 kv.2 (hash kv.1) sl).1

/-- `kv`'s key is different from every key in the array -/
def NewKey (sl : List (Slot N)) (k : JVal N) : Prop := ∀ j, j < sl.length → Occ sl j → contentEq k (sg sl j).1 = false

/-- inserting a new key: first empty slot from its home gets filled, invariant kept, exactly this pair added -/
theorem ins_new {sl : List (Slot N)} (hrh : RH sl) (hroom : nOcc sl < sl.length) {kv : Slot N} (hk : kv.1.isNil = false)
    (hnew : NewKey sl kv.1) :
    ∃ f, putLoop sl.length true sl.length (hm sl.length kv.1) 0 kv.1 kv.2 (hash kv.1) sl = (ins sl kv, true) ∧
      (ins sl kv).length = sl.length ∧ RH (ins sl kv) ∧ IsFE sl (hm sl.length kv.1) f ∧
      (∀ j, Occ (ins sl kv) j ↔ (Occ sl j ∨ j = f)) ∧ (∀ e, Has (ins sl kv) e ↔ (Has sl e ∨ e = kv)) ∧
      nOcc (ins sl kv) = nOcc sl + 1 := by
  have hcap : 0 < sl.length := by omega
  have hh := hm_lt hcap kv.1
  have hz := nOcc_lt_exists_empty sl hroom
  have := putLoop_spec sl.length true (hm sl.length kv.1) hh sl.length 0 (hm sl.length kv.1) kv.1 kv.2 sl rfl hrh hh
    (by omega) (dst_self hh) (fun j _ h => by omega) hz hk
    (fun j _ h => by rw [dst_self hh] at h; omega) (fun p _ _ h => absurd rfl h) hnew
  obtain ⟨f, sl', hf, hres, hlen', hrh', hnf, hpth, hocc, hhas, _⟩ := this
  rw [dst_self hh] at hres
  have e : ins sl kv = sl' := by unfold ins; rw [hres]
  rw [e]
  refine ⟨f, hres, hlen', hrh', ⟨hf, hnf, hpth⟩, hocc, ?_, nOcc_add_one sl sl' f hlen'.symm hf hnf hocc⟩
  intro x; rw [hhas]

/-- … and the stored pairs are the old ones plus the new one -/
theorem ins_entries {sl : List (Slot N)} (hrh : RH sl) (hroom : nOcc sl < sl.length) {kv : Slot N} (hk : kv.1.isNil = false)
    (hnew : NewKey sl kv.1) : (entries (ins sl kv)).Perm (kv :: entries sl) := by
  have hcap : 0 < sl.length := by omega
  have hh := hm_lt hcap kv.1
  have hz := nOcc_lt_exists_empty sl hroom
  have := putLoop_spec sl.length true (hm sl.length kv.1) hh sl.length 0 (hm sl.length kv.1) kv.1 kv.2 sl rfl hrh hh
    (by omega) (dst_self hh) (fun j _ h => by omega) hz hk
    (fun j _ h => by rw [dst_self hh] at h; omega) (fun p _ _ h => absurd rfl h) hnew
  obtain ⟨f, sl', _, hres, _, _, _, _, _, _, hperm⟩ := this
  rw [dst_self hh] at hres
  have e : ins sl kv = sl' := by unfold ins; rw [hres]
  rw [e]; exact hperm

theorem IsFE.congr {sl sl' : List (Slot N)} {h f : Nat} (hlen : sl'.length = sl.length)
    (hocc : ∀ j, Occ sl' j ↔ Occ sl j) (h1 : IsFE sl h f) : IsFE sl' h f := by
  obtain ⟨a1, a2, a3⟩ := h1
  exact ⟨by omega, fun ho => a2 ((hocc f).mp ho), fun j hj hlt => (hocc j).mpr (a3 j (by omega) (by rw [← hlen]; exact hlt))⟩

theorem newKey_ins {sl : List (Slot N)} {a : Slot N} {k : JVal N} (hnew : NewKey sl k)
    (hhas : ∀ e, Has (ins sl a) e ↔ (Has sl e ∨ e = a)) (hne : contentEq k a.1 = false) : NewKey (ins sl a) k := by
  intro j hj ho
  rcases (hhas (sg (ins sl a) j)).mp ⟨j, hj, ho, rfl⟩ with ⟨j', hj', ho', he⟩ | he
  · rw [← he]; exact hnew j' hj' ho'
  · rw [he]; exact hne

/-- **two insertions commute** -/
theorem ins_comm {sl : List (Slot N)} (hrh : RH sl) (hroom : nOcc sl + 2 < sl.length) {a b : Slot N}
    (ha : a.1.isNil = false) (hb : b.1.isNil = false) (hna : NewKey sl a.1) (hnb : NewKey sl b.1)
    (hab : contentEq a.1 b.1 = false) : ins (ins sl a) b = ins (ins sl b) a := by
  have hba : contentEq b.1 a.1 = false := by rw [contentEq_symm_both.1]; exact hab
  have hcap : 0 < sl.length := by omega
  obtain ⟨fa, _, lenA, rhA, feA, occA, hasA, nA⟩ := ins_new hrh (by omega) ha hna
  obtain ⟨fb, _, lenB, rhB, feB, occB, hasB, nB⟩ := ins_new hrh (by omega) hb hnb
  obtain ⟨g, _, lenAB, rhAB, feAB, occAB, hasAB, nAB⟩ := ins_new rhA (by omega) hb (newKey_ins hnb hasA hba)
  obtain ⟨g', _, lenBA, rhBA, feBA, occBA, hasBA, nBA⟩ := ins_new rhB (by omega) ha (newKey_ins hna hasB hab)
  rw [lenA] at feAB; rw [lenB] at feBA
  have hha := hm_lt hcap a.1
  have hhb := hm_lt hcap b.1
  -- the two pairs of filled slots coincide
  have hsets : ∀ j, (j = fa ∨ j = g) ↔ (j = fb ∨ j = g') := by
    by_cases e : fa = fb
    · subst e
      -- both first land in `fa`; the second ones search on from there
      have pathA : ∀ h, h < sl.length → IsFE sl h fa →
          ∀ j, j < (ins sl a).length → dst (ins sl a).length j h ≤ dst (ins sl a).length fa h → Occ (ins sl a) j := by
        intro h hh hfe j hj hle
        rw [lenA] at hj hle
        by_cases e : j = fa
        · exact (occA j).mpr (Or.inr e)
        · have : dst sl.length j h ≠ dst sl.length fa h := fun e' => e (dst_inj_left hj hfe.1 hh e')
          exact (occA j).mpr (Or.inl (hfe.2.2 j hj (by omega)))
      have s1 : IsFE (ins sl a) fa g :=
        (IsFE.shift (by rw [lenA]; exact hhb) (by rw [lenA]; exact feA.1) (pathA _ hhb feB)).mp
          feAB
      have occEq : ∀ j, Occ (ins sl b) j ↔ Occ (ins sl a) j := fun j => by rw [occA, occB]
      have pathB : ∀ j, j < (ins sl b).length → dst (ins sl b).length j (hm sl.length a.1) ≤ dst (ins sl b).length fa (hm sl.length a.1) →
          Occ (ins sl b) j := by
        intro j hj hle
        rw [occEq]; exact pathA _ hha feA j (by rw [lenA]; rw [lenB] at hj; exact hj) (by rw [lenA]; rw [lenB] at hle; exact hle)
      have s2 : IsFE (ins sl b) fa g' :=
        (IsFE.shift (by rw [lenB]; exact hha) (by rw [lenB]; exact feB.1) pathB).mp feBA
      have s2' : IsFE (ins sl a) fa g' := s2.congr (by rw [lenA, lenB]) (fun j => (occEq j).symm)
      have := IsFE.unique (by rw [lenA]; exact feA.1) s1 s2'
      subst this
      intro j; exact Iff.rfl
    · have e1 : g = fb :=
        IsFE.unique (by rw [lenA]; exact hhb) feAB ((feB.of_other lenA occA (Ne.symm e)))
      have e2 : g' = fa :=
        IsFE.unique (by rw [lenB]; exact hha) feBA ((feA.of_other lenB occB e))
      subst e1; subst e2
      intro j; exact ⟨fun h => h.symm, fun h => h.symm⟩
  have hoccEq : ∀ j, Occ (ins (ins sl a) b) j ↔ Occ (ins (ins sl b) a) j := by
    intro j; rw [occAB, occBA, occA, occB]
    have := hsets j
    constructor
    · rintro ((h | h) | h)
      · exact Or.inl (Or.inl h)
      · rcases this.mp (Or.inl h) with h' | h'
        · exact Or.inl (Or.inr h')
        · exact Or.inr h'
      · rcases this.mp (Or.inr h) with h' | h'
        · exact Or.inl (Or.inr h')
        · exact Or.inr h'
    · rintro ((h | h) | h)
      · exact Or.inl (Or.inl h)
      · rcases this.mpr (Or.inl h) with h' | h'
        · exact Or.inl (Or.inr h')
        · exact Or.inr h'
      · rcases this.mpr (Or.inr h) with h' | h'
        · exact Or.inl (Or.inr h')
        · exact Or.inr h'
  have hhasEq : ∀ e, Has (ins (ins sl a) b) e ↔ Has (ins (ins sl b) a) e := by
    intro e; rw [hasAB, hasBA, hasA, hasB]
    constructor
    · rintro ((h | h) | h)
      · exact Or.inl (Or.inl h)
      · exact Or.inr h
      · exact Or.inl (Or.inr h)
    · rintro ((h | h) | h)
      · exact Or.inl (Or.inl h)
      · exact Or.inr h
      · exact Or.inl (Or.inr h)
  obtain ⟨z, hz, hez⟩ := nOcc_lt_exists_empty (ins (ins sl a) b) (by rw [lenAB, lenA]; omega)
  exact RH.unique rhAB rhBA (by rw [lenBA, lenB, lenAB, lenA]) hoccEq hhasEq hz hez


/-- keys pairwise different -/
def DistinctKeys (l : List (Slot N)) : Prop := l.Pairwise (fun a b => contentEq a.1 b.1 = false)

/-- **any permutation of the insertions gives the same slot array** (new, pairwise different, non-nil keys) -/
theorem build_perm {l1 l2 : List (Slot N)} (hp : l1.Perm l2) :
    ∀ (sl : List (Slot N)), RH sl → nOcc sl + l1.length < sl.length →
      (∀ kv ∈ l1, kv.1.isNil = false ∧ NewKey sl kv.1) → DistinctKeys l1 →
      l1.foldl ins sl = l2.foldl ins sl := by
  induction hp with
  | nil => intro sl _ _ _ _; rfl
  | cons x hp ih =>
    rename_i l1 l2
    intro sl hrh hroom hkeys hd
    simp only [List.foldl_cons]
    have hx := hkeys x (List.mem_cons_self ..)
    obtain ⟨f, _, len', rh', _, _, has', n'⟩ := ins_new hrh (by simp at hroom; omega) hx.1 hx.2
    unfold DistinctKeys at hd
    rw [List.pairwise_cons] at hd
    apply ih (ins sl x) rh' (by rw [len', n']; simp at hroom; omega)
    · intro kv hkv
      have h1 := hkeys kv (List.mem_cons_of_mem _ hkv)
      refine ⟨h1.1, newKey_ins h1.2 has' ?_⟩
      rw [contentEq_symm_both.1]; exact hd.1 kv hkv
    · exact hd.2
  | swap x y l =>
    intro sl hrh hroom hkeys hd
    simp only [List.foldl_cons]
    have hy := hkeys y (List.mem_cons_self ..)
    have hx := hkeys x (List.mem_cons_of_mem _ (List.mem_cons_self ..))
    unfold DistinctKeys at hd
    rw [List.pairwise_cons] at hd
    have hyx : contentEq y.1 x.1 = false := hd.1 x (List.mem_cons_self ..)
    rw [ins_comm hrh (by simp at hroom; omega) hy.1 hx.1 hy.2 hx.2 hyx]
  | trans hp1 hp2 ih1 ih2 =>
    rename_i l1 l2 l3
    intro sl hrh hroom hkeys hd
    rw [ih1 sl hrh hroom hkeys hd]
    apply ih2 sl hrh (by rw [← hp1.length_eq]; exact hroom)
    · intro kv hkv; exact hkeys kv (hp1.mem_iff.mpr hkv)
    · unfold DistinctKeys at hd ⊢
      exact (hp1.pairwise_iff (fun {a b} h => by rw [contentEq_symm_both.1]; exact h)).mp hd


theorem tablen_gt' (n : Nat) : n < tablen n := by
  unfold tablen
  have : ∀ (l : List Nat) (m : Nat), m ≤ l.foldl (fun n s => n ||| (n >>> s)) m := by
    intro l
    induction l with
    | nil => intro m; exact Nat.le_refl _
    | cons s l ih => intro m; exact Nat.le_trans Nat.left_le_or (ih _)
  have := this tablenShifts n
  omega

theorem isNaNKey_false (k : JVal N) : isNaNKey k = false := by
  cases k <;> simp [isNaNKey, LawfulNum.eq_refl]

theorem occ_replicate (n j : Nat) : ¬ Occ (List.replicate n (emptySlot : Slot N)) j := by
  unfold Occ sg
  by_cases h : j < n <;> simp [List.getD_eq_getElem?_getD, h, emptySlot, JVal.isNil]

theorem RH.replicate (n : Nat) : RH (List.replicate n (emptySlot : Slot N)) :=
  ⟨fun i _ _ _ h => absurd h (occ_replicate n i), fun i _ h => absurd h (occ_replicate n i),
   fun a _ _ _ h => absurd h (occ_replicate n a), fun j hj _ => by
     unfold sg; simp at hj; simp [List.getD_eq_getElem?_getD, hj]⟩

/-- `janet_struct_put` of a valid pair with a new key into a struct that still has room -/
theorem structPut_new {st : StructBuild N} (hrh : RH st.slots) (hcnt : st.count = nOcc st.slots)
    (hroom : st.count < st.length) (hcap : st.length < st.slots.length) {kv : Slot N}
    (hk : kv.1.isNil = false) (hv : kv.2.isNil = false) (hnew : NewKey st.slots kv.1) :
    structPut st kv.1 kv.2 = { st with slots := ins st.slots kv, count := st.count + 1 } := by
  obtain ⟨f, hres, _⟩ := ins_new hrh (by omega) hk hnew
  unfold hm at hres
  unfold structPut structPutExt
  have hne : (st.count == st.length) = false := by simp; omega
  simp only [hk, hv, Bool.or_self, Bool.false_eq_true, if_false, isNaNKey_false, hne, hres, if_true]

/-- a run of puts of valid, new, pairwise different keys -/
theorem foldl_structPut : ∀ (kvs : List (Slot N)) (st : StructBuild N), RH st.slots → st.count = nOcc st.slots →
    st.count + kvs.length ≤ st.length → st.length < st.slots.length →
    (∀ kv ∈ kvs, kv.1.isNil = false ∧ kv.2.isNil = false ∧ NewKey st.slots kv.1) → DistinctKeys kvs →
    kvs.foldl (fun acc kv => structPut acc kv.1 kv.2) st =
      { st with slots := kvs.foldl ins st.slots, count := st.count + kvs.length }
  | [], st, _, _, _, _, _, _ => by simp
  | kv :: rest, st, hrh, hcnt, hroom, hcap, hv, hd => by
      have h0 := hv kv (List.mem_cons_self ..)
      simp only [List.length_cons] at hroom
      obtain ⟨f, _, len', rh', _, _, has', n'⟩ := ins_new hrh (by omega) h0.1 h0.2.2
      unfold DistinctKeys at hd
      rw [List.pairwise_cons] at hd
      simp only [List.foldl_cons]
      rw [structPut_new hrh hcnt (by omega) hcap h0.1 h0.2.1 h0.2.2]
      rw [foldl_structPut rest _ rh' (by simp only []; omega) (by simp only []; omega) (by simp only []; omega)
        (fun kv' hkv' => by
          have h1 := hv kv' (List.mem_cons_of_mem _ hkv')
          refine ⟨h1.1, h1.2.1, newKey_ins h1.2.2 has' ?_⟩
          rw [contentEq_symm_both.1]; exact hd.1 kv' hkv') hd.2]
      simp only [List.length_cons]
      congr 1
      omega

/-- **struct layout is canonical**: structs built from the same pairs (valid, pairwise different keys) in ANY insertion
    order are the same value — identical slot arrays, whatever the collision pattern, including wrap-around -/
theorem structOf_perm {kvs1 kvs2 : List (Slot N)} (proto : List (JVal N)) (hp : kvs1.Perm kvs2)
    (hvalid : ∀ kv ∈ kvs1, kv.1.isNil = false ∧ kv.2.isNil = false) (hd : DistinctKeys kvs1) :
    structOf kvs1 proto = structOf kvs2 proto := by
  have hvalid2 : ∀ kv ∈ kvs2, kv.1.isNil = false ∧ kv.2.isNil = false := fun kv h => hvalid kv (hp.mem_iff.mpr h)
  have hd2 : DistinctKeys kvs2 :=
    (hp.pairwise_iff (fun {a b} h => by rw [contentEq_symm_both.1]; exact h)).mp hd
  have hlen := hp.length_eq
  have key : ∀ (kvs : List (Slot N)), (∀ kv ∈ kvs, kv.1.isNil = false ∧ kv.2.isNil = false) → DistinctKeys kvs →
      structOf kvs proto = .struct (flatten (kvs.foldl ins (List.replicate (tablen (2 * kvs.length)) emptySlot))) proto := by
    intro kvs hv hdk
    unfold structOf structOfCount
    have hcap := tablen_gt' (2 * kvs.length)
    rw [foldl_structPut kvs (structBegin kvs.length) (RH.replicate _) (by simp [structBegin, nOcc_replicate])
      (by simp [structBegin]) (by simp [structBegin]; omega)
      (fun kv hkv => ⟨(hv kv hkv).1, (hv kv hkv).2, fun j _ ho => absurd ho (occ_replicate _ j)⟩) hdk]
    simp [structEnd, structBegin]
  rw [key kvs1 hvalid hd, key kvs2 hvalid2 hd2, ← hlen]
  congr 2
  apply build_perm hp _ (RH.replicate _)
  · have := tablen_gt' (2 * kvs1.length); simp [nOcc_replicate]; omega
  · intro kv hkv; exact ⟨(hvalid kv hkv).1, fun j _ ho => absurd ho (occ_replicate _ j)⟩
  · exact hd


/-- a run of insertions of new, pairwise different, non-nil keys -/
theorem foldl_ins_inv : ∀ (kvs : List (Slot N)) (sl : List (Slot N)), RH sl → nOcc sl + kvs.length < sl.length →
    (∀ kv ∈ kvs, kv.1.isNil = false ∧ NewKey sl kv.1) → DistinctKeys kvs →
    RH (kvs.foldl ins sl) ∧ (kvs.foldl ins sl).length = sl.length ∧ nOcc (kvs.foldl ins sl) = nOcc sl + kvs.length ∧
      (entries (kvs.foldl ins sl)).Perm (kvs ++ entries sl)
  | [], sl, hrh, _, _, _ => ⟨hrh, rfl, by simp, by simp⟩
  | kv :: rest, sl, hrh, hroom, hv, hd => by
      have h0 := hv kv (List.mem_cons_self ..)
      simp only [List.length_cons] at hroom
      obtain ⟨f, _, len', rh', _, _, has', n'⟩ := ins_new hrh (by omega) h0.1 h0.2
      have pe := ins_entries hrh (by omega) h0.1 h0.2
      unfold DistinctKeys at hd
      rw [List.pairwise_cons] at hd
      have ih := foldl_ins_inv rest (ins sl kv) rh' (by rw [len', n']; omega)
        (fun kv' hkv' => by
          have h1 := hv kv' (List.mem_cons_of_mem _ hkv')
          refine ⟨h1.1, newKey_ins h1.2 has' ?_⟩
          rw [contentEq_symm_both.1]; exact hd.1 kv' hkv') hd.2
      simp only [List.foldl_cons, List.length_cons]
      refine ⟨ih.1, by rw [ih.2.1, len'], by rw [ih.2.2.1, n']; omega, ?_⟩
      refine ih.2.2.2.trans ?_
      exact ((List.Perm.append_left rest pe).trans (List.perm_middle)).trans (List.Perm.refl _)

theorem foldl_skip : ∀ (S : List (Slot N)) (st : StructBuild N),
    S.foldl (fun acc kv => if kv.1.isNil then acc else structPut acc kv.1 kv.2) st =
      (entries S).foldl (fun acc kv => structPut acc kv.1 kv.2) st
  | [], st => rfl
  | a :: l, st => by
      rw [List.foldl_cons, entries_cons]
      cases h : a.1.isNil with
      | true => simp only [if_true]; exact foldl_skip l st
      | false => simp only [Bool.false_eq_true, if_false, List.foldl_cons]; exact foldl_skip l _

theorem entries_replicate (n : Nat) : entries (List.replicate n (emptySlot : Slot N)) = [] := by
  unfold entries; simp [List.filter_replicate, emptySlot, JVal.isNil]

/-- announcing more pairs than are put (`janet_struct_begin(c)` with `c` larger than the number of pairs, e.g. after
    ignored nil values or duplicate keys) changes nothing: `janet_struct_end` rebuilds into the canonical array -/
theorem structOfCount_eq_structOf {kvs : List (Slot N)} (proto : List (JVal N)) {c : Nat} (hc : kvs.length ≤ c)
    (hvalid : ∀ kv ∈ kvs, kv.1.isNil = false ∧ kv.2.isNil = false) (hd : DistinctKeys kvs) :
    structOfCount c kvs proto = structOf kvs proto := by
  by_cases hcn : c = kvs.length
  · subst hcn; rfl
  · have hcap := tablen_gt' (2 * c)
    have hnew0 : ∀ (m : Nat) (kv : Slot N), NewKey (List.replicate m (emptySlot : Slot N)) kv.1 :=
      fun m kv j _ ho => absurd ho (occ_replicate _ j)
    -- first build, at the announced capacity
    have hb := foldl_structPut kvs (structBegin c) (RH.replicate _) (by simp [structBegin, nOcc_replicate])
      (by simp [structBegin]; omega) (by simp [structBegin]; omega)
      (fun kv hkv => ⟨(hvalid kv hkv).1, (hvalid kv hkv).2, hnew0 _ kv⟩) hd
    have hi := foldl_ins_inv kvs (List.replicate (tablen (2 * c)) emptySlot) (RH.replicate _)
      (by simp [nOcc_replicate]; omega) (fun kv hkv => ⟨(hvalid kv hkv).1, hnew0 _ kv⟩) hd
    rw [entries_replicate, List.append_nil] at hi
    have hE := hi.2.2.2     -- the stored pairs are a permutation of kvs
    have hvalidE : ∀ kv ∈ entries (kvs.foldl ins (List.replicate (tablen (2 * c)) emptySlot)),
        kv.1.isNil = false ∧ kv.2.isNil = false := fun kv h => hvalid kv (hE.mem_iff.mp h)
    have hdE : DistinctKeys (entries (kvs.foldl ins (List.replicate (tablen (2 * c)) emptySlot))) :=
      (hE.symm.pairwise_iff (fun {a b} h => by rw [contentEq_symm_both.1]; exact h)).mp hd
    have hlenE := hE.length_eq
    -- the rebuild
    have hcap' := tablen_gt' (2 * kvs.length)
    have hr := foldl_structPut (entries (kvs.foldl ins (List.replicate (tablen (2 * c)) emptySlot))) (structBegin kvs.length)
      (RH.replicate _) (by simp [structBegin, nOcc_replicate]) (by simp [structBegin]; omega) (by simp [structBegin]; omega)
      (fun kv hkv => ⟨(hvalidE kv hkv).1, (hvalidE kv hkv).2, hnew0 _ kv⟩) hdE
    have hperm := build_perm hE (List.replicate (tablen (2 * kvs.length)) emptySlot) (RH.replicate _)
      (by simp [nOcc_replicate]; omega) (fun kv hkv => ⟨(hvalidE kv hkv).1, hnew0 _ kv⟩) hdE
    -- the direct build
    have hs := foldl_structPut kvs (structBegin kvs.length) (RH.replicate _) (by simp [structBegin, nOcc_replicate])
      (by simp [structBegin]) (by simp [structBegin]; omega)
      (fun kv hkv => ⟨(hvalid kv hkv).1, (hvalid kv hkv).2, hnew0 _ kv⟩) hd
    unfold structOf structOfCount
    rw [hb, hs]
    have hne : (kvs.length != c) = true := by simp; omega
    simp only [structBegin, Nat.zero_add] at hr
    simp only [structEnd, structBegin, Nat.zero_add, hne, if_true, bne_self_eq_false, Bool.false_eq_true, if_false]
    rw [foldl_skip, hr, hperm]


/-- pairs `janet_struct_put` accepts: key and value not nil (NaN keys do not exist in the model's domain) -/
def validPair (kv : Slot N) : Bool := !kv.1.isNil && !kv.2.isNil

omit [LawfulNum N] in
theorem structPut_invalid (st : StructBuild N) (kv : Slot N) (h : validPair kv = false) : structPut st kv.1 kv.2 = st := by
  unfold structPut structPutExt
  have : (kv.1.isNil || kv.2.isNil) = true := by
    unfold validPair at h; cases h1 : kv.1.isNil <;> cases h2 : kv.2.isNil <;> simp_all
  simp only [this, if_true]

omit [LawfulNum N] in
/-- puts of pairs with a nil key or a nil value are ignored -/
theorem foldl_structPut_filter : ∀ (raw : List (Slot N)) (st : StructBuild N),
    raw.foldl (fun acc kv => structPut acc kv.1 kv.2) st = (raw.filter validPair).foldl (fun acc kv => structPut acc kv.1 kv.2) st
  | [], _ => rfl
  | kv :: rest, st => by
      rw [List.foldl_cons, List.filter_cons]
      cases h : validPair kv with
      | true => simp only [if_true, List.foldl_cons]; exact foldl_structPut_filter rest _
      | false => simp only [Bool.false_eq_true, if_false]; rw [structPut_invalid st kv h]; exact foldl_structPut_filter rest st

omit [LawfulNum N] in
theorem structOfCount_filter (c : Nat) (raw : List (Slot N)) (proto : List (JVal N)) :
    structOfCount c raw proto = structOfCount c (raw.filter validPair) proto := by
  unfold structOfCount; rw [foldl_structPut_filter]

/-- **struct layout is canonical, general form**: whatever is announced to `janet_struct_begin` (at least the number of
    accepted pairs), whatever ignored pairs (nil key or nil value) are interspersed, and in whatever order the accepted
    pairs (pairwise different keys) are put, the resulting struct is the same value -/
theorem structOfCount_canonical {raw1 raw2 : List (Slot N)} (proto : List (JVal N)) {c1 c2 : Nat}
    (hp : (raw1.filter validPair).Perm (raw2.filter validPair)) (hd : DistinctKeys (raw1.filter validPair))
    (hc1 : (raw1.filter validPair).length ≤ c1) (hc2 : (raw2.filter validPair).length ≤ c2) :
    structOfCount c1 raw1 proto = structOfCount c2 raw2 proto := by
  have hv : ∀ (raw : List (Slot N)), ∀ kv ∈ raw.filter validPair, kv.1.isNil = false ∧ kv.2.isNil = false := by
    intro raw kv h
    have := (List.mem_filter.mp h).2
    unfold validPair at this
    cases h1 : kv.1.isNil <;> cases h2 : kv.2.isNil <;> simp_all
  have hd2 : DistinctKeys (raw2.filter validPair) :=
    (hp.pairwise_iff (fun {a b} h => by rw [contentEq_symm_both.1]; exact h)).mp hd
  rw [structOfCount_filter c1 raw1, structOfCount_filter c2 raw2,
    structOfCount_eq_structOf proto hc1 (hv raw1) hd, structOfCount_eq_structOf proto hc2 (hv raw2) hd2]
  exact structOf_perm proto hp (hv raw1) hd


/-- equal keys are interchangeable on the left of a comparison -/
theorem jcompare_congr_left {a b : JVal N} (h : contentEq a b = true) (c : JVal N) : jcompare a c = jcompare b c := by
  have hab := (jcompare_eq_iff a b).mpr h
  have hba : jcompare b a = .eq := by rw [jcompare_swap a b, hab]; rfl
  have t1 := jcompare_tri a b c
  have t2 := jcompare_tri b a c
  cases h1 : jcompare b c
  · exact t1.2.2.1 (by simp [hab]) h1
  · exact t1.2.2.2 hab h1
  · cases h2 : jcompare a c
    · have := t2.2.2.1 (by simp [hba]) h2; simp_all
    · have := t2.2.2.2 hba h2; simp_all
    · rfl

/-- **a key that is already in the struct is found before anything is displaced**: the probe walks from the home slot to
    the slot holding the equal key without swapping, and only the value is (optionally) replaced — the layout is unchanged
    (struct.c `status == 0` branch) -/
theorem putLoop_dup {sl : List (Slot N)} (hrh : RH sl) {z : Nat} (hz : z < sl.length) (hez : ¬ Occ sl z)
    {key value : JVal N} {p : Nat} (hp : p < sl.length) (hop : Occ sl p) (heq : contentEq key (sg sl p).1 = true)
    (replace : Bool) :
    ∀ (fuel x : Nat), x < sl.length → dst sl.length x (hm sl.length key) + fuel = sl.length →
      dst sl.length x (hm sl.length key) ≤ dst sl.length p (hm sl.length key) →
      putLoop sl.length replace fuel x (dst sl.length x (hm sl.length key)) key value (hash key) sl =
        ((if replace then sl.set p ((sg sl p).1, value) else sl), false) := by
  have hcap : 0 < sl.length := by omega
  have hhash : hash key = hash (sg sl p).1 := contentEq_hash_both.1 _ _ heq
  have hhome : hm sl.length key = hm sl.length (sg sl p).1 := by unfold hm; rw [hhash]
  have hh := hm_lt hcap key
  intro fuel
  induction fuel with
  | zero => intro x hx h1 _; have := dst_lt hx hh; omega
  | succ fuel ih =>
    intro x hx h1 h2
    by_cases hxp : x = p
    · subst hxp
      rw [putLoop_step_occ hop]
      have : putStatus (dst sl.length x (hm sl.length key)) (dst sl.length x (hm sl.length (sg sl x).1)) (hash key)
          (hash (sg sl x).1) key (sg sl x).1 = .eq := by
        rw [putStatus_then, then_eq_iff, then_eq_iff, natCmp_eq_iff, intCmp_eq_iff, jcompare_eq_iff]
        exact ⟨by rw [hhome], by rw [hhash], heq⟩
      rw [this]
    · have hlt : dst sl.length x (hm sl.length key) < dst sl.length p (hm sl.length key) := by
        have : dst sl.length x (hm sl.length key) ≠ dst sl.length p (hm sl.length key) :=
          fun e => hxp (dst_inj_left hx hp hh e)
        omega
      have hox : Occ sl x := hrh.chain p x hp hx hop (by rw [← hhome]; exact hlt)
      rw [putLoop_step_occ hox]
      -- the resident of x comes before the equal key in the run, so the travelling key loses against it
      have hpd := dst_lt hp hh
      have hst : putStatus (dst sl.length x (hm sl.length key)) (dst sl.length x (hm sl.length (sg sl x).1)) (hash key)
          (hash (sg sl x).1) key (sg sl x).1 = .lt := by
        -- in anchor order: entry at x < entry at p
        have hHp := hrh.home_le hz hez hp hop
        have hHx := hrh.home_le hz hez hx hox
        rw [← hhome] at hHp
        -- offsets: x lies between the home of the key and p
        have hxle : off sl.length z (hm sl.length key) ≤ off sl.length z x ∧ off sl.length z x < off sl.length z p := by
          have d1 := dst_of_off hz hp hh hHp
          by_cases hc : off sl.length z (hm sl.length key) ≤ off sl.length z x
          · have d2 := dst_of_off hz hx hh hc
            omega
          · exfalso
            have := dst_cross hz hx hh (by omega)
            exact hez (hrh.chain p z hp hz hop (by rw [← hhome]; omega))
        have hsorted := hrh.sorted hz hez (off sl.length z p - off sl.length z x - 1) x p hx hp (by omega)
          (fun w hw hw1 hw2 => by
            by_cases e : w = p
            · subst e; exact hop
            · have : off sl.length z w ≠ off sl.length z p := fun e' => e (off_inj hz hw hp e')
              have d1 := dst_of_off hz hp hh hHp
              have d2 := dst_of_off hz hw hh (by omega)
              exact hrh.chain p w hp hw hop (by rw [← hhome]; omega))
        have hs := stat_eq_cmpz hz hx (sg sl x).1 (sg sl p).1 hHx (by rw [← hhome]; exact hxle.1)
        rw [hsorted] at hs
        -- status of the key against the resident = status of the equal key against it = lt
        have hsw := putStatus_swap (dst sl.length x (hm sl.length (sg sl x).1)) (dst sl.length x (hm sl.length (sg sl p).1))
          (hash (sg sl x).1) (hash (sg sl p).1) (sg sl x).1 (sg sl p).1
        unfold stat at hs
        rw [hs] at hsw
        rw [putStatus_then, hhome, hhash, jcompare_congr_left heq, ← putStatus_then]
        exact hsw
      rw [hst]
      have hn := nx_lt hx
      have hdn := dst_nx hx hh (by omega)
      have := ih (nx sl.length x) hn (by omega) (by omega)
      rw [hdn] at this
      exact this

end JanetModel.Value
