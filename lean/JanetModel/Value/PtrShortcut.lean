/- C03 — the pointer short-cuts of `janet_equals` (`if (t1 == t2) break;`, `if (s1 == s2) break;`).

   `PVal L` = values whose tuples and structs carry their ADDRESS; `equalsP` = janet_equals with the two short-cuts in front of
   the flag / hash / length tests, exactly where the C has them.  Two values read from one memory (`Consistent mem`: the object at
   an address has one content) are `equalsP` exactly when their contents are `equalsL` — the short-cut is reflexivity of `=` on
   the content, nothing else (`equalsP_eq_equalsL`).  With a leaf type whose `=` is not reflexive (NaN) the short-cut IS visible:
   see the example in Props/C03.lean.  janet_compare has no such short-cut for tuples and structs (regenerated flag); the one in
   janet_compare_abstract (`if (xx == yy) return 0`) is part of `compareAbstract` itself and shown redundant by `cmpAbs_then`. -/
import JanetModel.Value.AbstractLemmas

namespace JanetModel.Value
open JanetModel.Gen.Value

/-- a janet value with the addresses of its tuples and structs -/
inductive PVal (L : Type) where
  | leaf (l : L)
  | tuple (addr : Nat) (bracket : Bool) (xs : List (PVal L))
  | struct (addr : Nat) (flat : List (PVal L)) (proto : List (PVal L))

variable {L : Type}

mutual
/-- the content of an addressed value -/
def erase : PVal L → LVal L
  | .leaf l => .leaf l
  | .tuple _ br xs => .tuple br (erases xs)
  | .struct _ f p => .struct (erases f) (erases p)
def erases : List (PVal L) → List (LVal L)
  | [] => []
  | x :: xs => erase x :: erases xs
end

mutual
/-- every tuple / struct object inside the value is the object the memory holds at its address -/
def Consistent (mem : Nat → Option (LVal L)) : PVal L → Prop
  | .leaf _ => True
  | .tuple a br xs => mem a = some (.tuple br (erases xs)) ∧ ConsistentL mem xs
  | .struct a f p => mem a = some (.struct (erases f) (erases p)) ∧ ConsistentL mem f ∧ ConsistentL mem p
def ConsistentL (mem : Nat → Option (LVal L)) : List (PVal L) → Prop
  | [] => True
  | x :: xs => Consistent mem x ∧ ConsistentL mem xs
end

variable [LeafOps L]

mutual
/-- `janet_equals` with its pointer short-cuts (stored hash / length fields are functions of the content) -/
def equalsP : PVal L → PVal L → Bool
  | .leaf a, .leaf b => LeafOps.eq a b
  | .tuple a1 br1 xs, .tuple a2 br2 ys =>
      if a1 == a2 then true                       -- `if (t1 == t2) break;`
      else if br1 != br2 then false
      else if tupleHashL (erases xs) != tupleHashL (erases ys) then false
      else if xs.length != ys.length then false
      else equalsListP xs ys
  | .struct a1 f1 p1, .struct a2 f2 p2 =>
      if a1 == a2 then true                       -- `if (s1 == s2) break;`
      else if hashL (.struct (erases f1) (erases p1)) != hashL (.struct (erases f2) (erases p2)) then false
      else if structLengthL (erases f1) != structLengthL (erases f2) then false
      else if !p1.isEmpty && p2.isEmpty then false
      else if p1.isEmpty && !p2.isEmpty then false
      else equalsListP f1 f2 && equalsListP p1 p2
  | _, _ => false
def equalsListP : List (PVal L) → List (PVal L) → Bool
  | [], [] => true
  | x :: xs, y :: ys => equalsP x y && equalsListP xs ys
  | _, _ => false
end

/-- which cases of the model's janet_equals start with a pointer test (for the tie with the regenerated flags) -/
def equalsP.tupleShortcut : Bool := true
def equalsP.structShortcut : Bool := true

omit [LeafOps L] in
theorem PVal.induct {P : PVal L → Prop} {Q : List (PVal L) → Prop}
    (leaf : ∀ l, P (.leaf l)) (tuple : ∀ a br xs, Q xs → P (.tuple a br xs)) (struct : ∀ a f p, Q f → Q p → P (.struct a f p))
    (lnil : Q []) (lcons : ∀ x xs, P x → Q xs → Q (x :: xs)) : (∀ a, P a) ∧ (∀ l, Q l) :=
  ⟨fun a => PVal.rec (motive_1 := P) (motive_2 := Q) leaf tuple struct lnil lcons a,
   fun l => PVal.rec_1 (motive_1 := P) (motive_2 := Q) leaf tuple struct lnil lcons l⟩

omit [LeafOps L] in
theorem erases_length : ∀ l : List (PVal L), (erases l).length = l.length
  | [] => rfl
  | _ :: xs => by simp [erases, erases_length xs]

omit [LeafOps L] in
theorem erases_isEmpty (l : List (PVal L)) : (erases l).isEmpty = l.isEmpty := by
  cases l <;> rfl

/-- THE POINTER SHORT-CUTS DO NOT CHANGE THE RESULT: for two values read from one memory, janet_equals with the short-cuts
    answers what janet_equals without them answers on the contents — given that `=` is reflexive on contents -/
theorem equalsP_eq_equalsL_both (mem : Nat → Option (LVal L)) (hrefl : ∀ v : LVal L, equalsL v v = true) :
    (∀ x y : PVal L, Consistent mem x → Consistent mem y → equalsP x y = equalsL (erase x) (erase y)) ∧
    (∀ l m : List (PVal L), ConsistentL mem l → ConsistentL mem m → equalsListP l m = equalsListL (erases l) (erases m)) := by
  apply PVal.induct
    (P := fun x => ∀ y, Consistent mem x → Consistent mem y → equalsP x y = equalsL (erase x) (erase y))
    (Q := fun l => ∀ m, ConsistentL mem l → ConsistentL mem m → equalsListP l m = equalsListL (erases l) (erases m))
  case leaf => intro l y _ _; cases y <;> rfl
  case tuple =>
    intro a br xs ih y hx hy
    cases y with
    | leaf _ => rfl
    | struct _ _ _ => rfl
    | tuple a2 br2 ys =>
      simp only [Consistent] at hx hy
      by_cases ha : a = a2
      · subst ha
        have he : erase (.tuple a br xs) = erase (.tuple a br2 ys) := by
          have := hx.1.symm.trans hy.1
          simpa [erase] using this
        rw [← he, hrefl]
        simp [equalsP]
      · have ha' : (a == a2) = false := by simp [ha]
        simp only [equalsP, erase, equalsL, ha', Bool.false_eq_true, if_false, erases_length, ih ys hx.2 hy.2]
  case struct =>
    intro a f p ihf ihp y hx hy
    cases y with
    | leaf _ => rfl
    | tuple _ _ _ => rfl
    | struct a2 f2 p2 =>
      simp only [Consistent] at hx hy
      by_cases ha : a = a2
      · subst ha
        have he : erase (.struct a f p) = erase (.struct a f2 p2) := by
          have := hx.1.symm.trans hy.1
          simpa [erase] using this
        rw [← he, hrefl]
        simp [equalsP]
      · have ha' : (a == a2) = false := by simp [ha]
        simp only [equalsP, erase, equalsL, ha', Bool.false_eq_true, if_false, erases_isEmpty,
          ihf f2 hx.2.1 hy.2.1, ihp p2 hx.2.2 hy.2.2]
  case lnil => intro m _ _; cases m <;> rfl
  case lcons =>
    intro x xs ihx ihxs m hl hm
    cases m with
    | nil => rfl
    | cons y ys =>
      simp only [ConsistentL] at hl hm
      simp only [equalsListP, erases, equalsListL, ihx y hl.1 hm.1, ihxs ys hl.2 hm.2]

theorem equalsP_eq_equalsL [LawfulLeaf L] (mem : Nat → Option (LVal L)) (x y : PVal L)
    (hx : Consistent mem x) (hy : Consistent mem y) : equalsP x y = equalsL (erase x) (erase y) :=
  (equalsP_eq_equalsL_both mem (fun v => by rw [equalsL_eq_contentEqL_both.1]; exact contentEqL_refl_both.1 v)).1 x y hx hy

end JanetModel.Value
