/- C03 — lemmas about the value model: content equality, hash congruence, `equals` = content equality,
   `jcompare` is a total order whose equality is content equality. -/
import JanetModel.Value.Model

namespace JanetModel.Value
open JanetModel.Gen.Value

/-- what the proofs need from doubles other than NaN: `==` is an equivalence, `<` a strict order total modulo `==`,
    and `==`-equal doubles have the same bit pattern after `+= 0.0` (−0 ↦ +0) -/
class LawfulNum (N : Type) [NumLike N] : Prop where
  eq_refl : ∀ a : N, NumLike.eq a a = true
  eq_symm : ∀ a b : N, NumLike.eq a b = NumLike.eq b a
  eq_trans : ∀ a b c : N, NumLike.eq a b = true → NumLike.eq b c = true → NumLike.eq a c = true
  lt_not_eq : ∀ a b : N, NumLike.lt a b = true → NumLike.eq a b = false
  lt_asymm : ∀ a b : N, NumLike.lt a b = true → NumLike.lt b a = false
  lt_total : ∀ a b : N, NumLike.eq a b = false → NumLike.lt a b = false → NumLike.lt b a = true
  lt_trans : ∀ a b c : N, NumLike.lt a b = true → NumLike.lt b c = true → NumLike.lt a c = true
  lt_congr_left : ∀ a b c : N, NumLike.eq a b = true → NumLike.lt a c = NumLike.lt b c
  lt_congr_right : ∀ a b c : N, NumLike.eq a b = true → NumLike.lt c a = NumLike.lt c b
  eq_norm : ∀ a b : N, NumLike.eq a b = true → NumLike.normBits a = NumLike.normBits b

variable {N : Type} [NumLike N]

mutual
/-- content equality: what the property calls "the same value" — no hashes, no lengths, no layout shortcuts -/
def contentEq : JVal N → JVal N → Bool
  | .num a, .num b => NumLike.eq a b
  | .nil, .nil => true
  | .bool a, .bool b => a == b
  | .str a, .str b => a == b
  | .sym a, .sym b => a == b
  | .kw a, .kw b => a == b
  | .ref k1 b1, .ref k2 b2 => k1 == k2 && b1 == b2
  | .tuple br1 xs, .tuple br2 ys => br1 == br2 && contentEqList xs ys
  | .struct f1 p1, .struct f2 p2 => contentEqList f1 f2 && contentEqList p1 p2
  | _, _ => false
def contentEqList : List (JVal N) → List (JVal N) → Bool
  | [], [] => true
  | x :: xs, y :: ys => contentEq x y && contentEqList xs ys
  | _, _ => false
end

/-- simultaneous induction over values and lists of values (the recursor of the nested inductive type) -/
theorem JVal.induct {P : JVal N → Prop} {Q : List (JVal N) → Prop}
    (num : ∀ n, P (.num n)) (nil : P .nil) (bool : ∀ b, P (.bool b)) (str : ∀ b, P (.str b)) (sym : ∀ b, P (.sym b))
    (kw : ∀ b, P (.kw b)) (tuple : ∀ br xs, Q xs → P (.tuple br xs)) (struct : ∀ f p, Q f → Q p → P (.struct f p))
    (ref : ∀ k b, P (.ref k b)) (lnil : Q []) (lcons : ∀ x xs, P x → Q xs → Q (x :: xs)) :
    (∀ a, P a) ∧ (∀ l, Q l) :=
  ⟨fun a => JVal.rec (motive_1 := P) (motive_2 := Q) num nil bool str sym kw tuple struct ref lnil lcons a,
   fun l => JVal.rec_1 (motive_1 := P) (motive_2 := Q) num nil bool str sym kw tuple struct ref lnil lcons l⟩


theorem bytesEqual_eq (a b : List UInt8) : bytesEqual a b = (a == b) := by
  unfold bytesEqual
  by_cases h : a = b
  · subst h; simp
  · split <;> simp [h]

theorem contentEqList_length : ∀ (l m : List (JVal N)), contentEqList l m = true → l.length = m.length
  | [], [], _ => rfl
  | [], _ :: _, h => by simp [contentEqList] at h
  | _ :: _, [], h => by simp [contentEqList] at h
  | _ :: xs, _ :: ys, h => by
      simp [contentEqList] at h
      simp [contentEqList_length xs ys h.2]

theorem contentEq_isNil (a b : JVal N) (h : contentEq a b = true) : a.isNil = b.isNil := by
  cases a <;> cases b <;> simp [contentEq] at h <;> rfl

theorem contentEqList_structLength : ∀ (l m : List (JVal N)), contentEqList l m = true → structLength l = structLength m
  | [], [], _ => rfl
  | [], _ :: _, h => by simp [contentEqList] at h
  | [_], [], h => by simp [contentEqList] at h
  | [_], [_], _ => by simp [structLength]
  | [_], _ :: _ :: _, h => by simp [contentEqList] at h
  | _ :: _ :: _, [], h => by simp [contentEqList] at h
  | _ :: _ :: _, [_], h => by simp [contentEqList] at h
  | k :: _ :: rest, k' :: _ :: rest', h => by
      simp [contentEqList] at h
      simp [structLength, contentEq_isNil k k' h.1, contentEqList_structLength rest rest' h.2.2]

theorem contentEqList_isEmpty (l m : List (JVal N)) (h : contentEqList l m = true) : l.isEmpty = m.isEmpty := by
  cases l <;> cases m <;> simp [contentEqList] at h <;> rfl


/-- the prototype term of a struct hash -/
def protoHash (p : List (JVal N)) : UInt32 :=
  match p with
  | [] => 0
  | q :: _ => protoMul.toUInt32 * hash q

theorem hash_struct (f p : List (JVal N)) : hash (.struct f p) = hashFold kvSeed.toUInt32 f + protoHash p := by
  cases p <;> simp [hash, protoHash]

theorem hash_tuple (br : Bool) (xs : List (JVal N)) : hash (.tuple br xs) = tupleHash xs + (if br then 1 else 0) := by
  simp [hash, tupleHash]


variable [LawfulNum N]

theorem contentEq_refl_both : (∀ a : JVal N, contentEq a a = true) ∧ (∀ l : List (JVal N), contentEqList l l = true) := by
  apply JVal.induct <;> intros <;> simp_all [contentEq, contentEqList, LawfulNum.eq_refl]

theorem contentEq_symm_both : (∀ a b : JVal N, contentEq a b = contentEq b a) ∧ (∀ l m : List (JVal N), contentEqList l m = contentEqList m l) := by
  apply JVal.induct (P := fun a => ∀ b, contentEq a b = contentEq b a) (Q := fun l => ∀ m, contentEqList l m = contentEqList m l)
  all_goals intros
  all_goals (rename_i b; cases b <;> simp_all [contentEq, contentEqList, LawfulNum.eq_symm, Bool.beq_comm])


theorem contentEq_trans_both :
    (∀ a b c : JVal N, contentEq a b = true → contentEq b c = true → contentEq a c = true) ∧
    (∀ l m n : List (JVal N), contentEqList l m = true → contentEqList m n = true → contentEqList l n = true) := by
  apply JVal.induct (P := fun a => ∀ b c, contentEq a b = true → contentEq b c = true → contentEq a c = true)
    (Q := fun l => ∀ m n, contentEqList l m = true → contentEqList m n = true → contentEqList l n = true)
  case num => intro n b c hab hbc; cases b <;> simp [contentEq] at hab; cases c <;> simp [contentEq] at hbc ⊢; exact LawfulNum.eq_trans _ _ _ hab hbc
  all_goals intros
  all_goals (rename_i b c hab hbc; cases b <;> simp [contentEq, contentEqList] at hab <;> cases c <;> simp [contentEq, contentEqList] at hbc ⊢)
  all_goals grind



theorem contentEq_hash_both :
    (∀ a b : JVal N, contentEq a b = true → hash a = hash b) ∧
    (∀ l m : List (JVal N), contentEqList l m = true → (∀ h, hashFold h l = hashFold h m) ∧ protoHash l = protoHash m) := by
  apply JVal.induct (P := fun a => ∀ b, contentEq a b = true → hash a = hash b)
    (Q := fun l => ∀ m, contentEqList l m = true → (∀ h, hashFold h l = hashFold h m) ∧ protoHash l = protoHash m)
  case num => intro n b hab; cases b <;> simp [contentEq] at hab; simp [hash, LawfulNum.eq_norm _ _ hab]
  case tuple =>
    intro br xs ih b hab; cases b <;> simp [contentEq] at hab
    rw [hash_tuple, hash_tuple, tupleHash, tupleHash, (ih _ hab.2).1, hab.1]
  case struct =>
    intro f p ihf ihp b hab; cases b <;> simp [contentEq] at hab
    rw [hash_struct, hash_struct, (ihf _ hab.1).1, (ihp _ hab.2).2]
  case lcons =>
    intro x xs ihx ihxs m hab; cases m <;> simp [contentEqList] at hab
    have hx := ihx _ hab.1
    have hxs := ihxs _ hab.2
    refine ⟨fun h => ?_, ?_⟩
    · simp [hashFold, hx, hxs.1]
    · simp [protoHash, hx]
  case lnil => intro m hab; cases m <;> simp [contentEqList] at hab; simp
  all_goals (intros; rename_i b hab; cases b <;> simp [contentEq] at hab <;> simp_all [hash])


theorem equals_eq_contentEq_both :
    (∀ a b : JVal N, equals a b = contentEq a b) ∧ (∀ l m : List (JVal N), equalsList l m = contentEqList l m) := by
  apply JVal.induct (P := fun a => ∀ b, equals a b = contentEq a b) (Q := fun l => ∀ m, equalsList l m = contentEqList l m)
  case tuple =>
    intro br xs ih b; cases b <;> simp [equals, contentEq]
    rename_i br2 ys
    rw [ih ys]
    by_cases hc : contentEqList xs ys = true
    · have h1 : tupleHash xs = tupleHash ys := (contentEq_hash_both.2 xs ys hc).1 _
      have h2 := contentEqList_length xs ys hc
      simp [hc, h1, h2]
      cases br <;> cases br2 <;> rfl
    · simp at hc; simp [hc]
  case struct =>
    intro f p ihf ihp b; cases b <;> simp [equals, contentEq]
    rename_i f2 p2
    rw [ihf f2, ihp p2]
    by_cases hc : contentEqList f f2 = true ∧ contentEqList p p2 = true
    · have h1 : hash (.struct f p) = hash (.struct f2 p2) := contentEq_hash_both.1 _ _ (by simp [contentEq, hc])
      have h2 := contentEqList_structLength f f2 hc.1
      have h3 := contentEqList_isEmpty p p2 hc.2
      simp [hc, h1, h2]
      cases p <;> cases p2 <;> simp_all
    · have : (contentEqList f f2 && contentEqList p p2) = false := by
        cases h1 : contentEqList f f2 <;> cases h2 : contentEqList p p2 <;> simp_all
      simp [this]
  case str => intro a b; cases b <;> simp [equals, contentEq, bytesEqual_eq]
  all_goals intros
  all_goals (rename_i b; cases b <;> simp_all [equals, equalsList, contentEq, contentEqList])

end JanetModel.Value
