/- C03 — model of `janet_symbol_gen` / `inc_gensym` (src/core/symcache.c) on top of the symbol-cache model.

   `janet_symbol_gen` probes the cache for the current counter name and repeats — advancing the counter with `inc_gensym` —
   for as long as the probe FINDS a symbol; the bucket returned by the failed probe then receives a NEW symbol object whose
   bytes are the counter.  (A probe that finds the name may move the found symbol into the first tombstone on its path,
   exactly as in `janet_symbol`.)  The digit transitions of `inc_gensym`, the initial counter and the fact that the probe
   sits in a loop are regenerated from the source (Gen.Value.gensymSteps / gensymInit / gensymProbeLoop).
   CORE LEAN ONLY. -/
import JanetModel.Value.SymCache

namespace JanetModel.Value.SymCache
open JanetModel.Gen.Value JanetModel.Value

/-- one position of `inc_gensym`: the new digit and whether the loop goes on to the next (more significant) position -/
def incDigit (d : UInt8) : UInt8 × Bool :=
  match gensymSteps.find? (fun s => s.1 == d.toNat) with
  | some (_, to, carry) => (to.toUInt8, carry)
  | none => (d + 1, false)

/-- the loop of `inc_gensym` over the digits, least significant (position sizeof-2) first -/
def incDigits : List UInt8 → List UInt8
  | [] => []
  | d :: rest =>
    let (d', carry) := incDigit d
    if carry then d' :: incDigits rest else d' :: rest

/-- `inc_gensym` on the counter name (positions 0 … sizeof-2; position 0, the `_`, is never touched: `for (i = sizeof-2; i; i--)`) -/
def incGensym : List UInt8 → List UInt8
  | [] => []
  | u :: ds => u :: (incDigits ds.reverse).reverse

/-- `janet_vm.gensym_counter` after `janet_symcache_init` (the sizeof-1 bytes that make the name) -/
def gensymCounterInit : List UInt8 := gensymInit.map Nat.toUInt8

/-- the `do { probe } while (status && (inc_gensym(), 1))` loop; `fuel` bounds the number of probes (`none`: not finished
    within `fuel` probes).  Result: the cache after the probes, the counter, the bucket of the failed probe. -/
def genLoop : Nat → Cache → List UInt8 → Option (Cache × List UInt8 × Option Nat)
  | 0, _, _ => none
  | fuel + 1, c, ctr =>
    match find c.slots ctr with
    | (sl, .hit _) => genLoop fuel { c with slots := sl } (incGensym ctr)
    | (sl, .miss bucket) => some ({ c with slots := sl }, ctr, bucket)

/-- `janet_symbol_gen`: new cache, new counter, address of the new symbol.  `none`: NULL bucket (the `janet_assert`) or
    the probe loop did not finish within `fuel` probes. -/
def gensym (fuel : Nat) (c : Cache) (ctr : List UInt8) : Option (Cache × List UInt8 × Nat) :=
  match genLoop fuel c ctr with
  | none => none
  | some (_, _, none) => none
  | some (c1, ctr', bucket) =>
    (put { c1 with next := c1.next + 1 } c1.next ctr' bucket).map fun c' => (c', ctr', c1.next)

/-- cache + gensym counter -/
structure GState where
  cache : Cache
  counter : List UInt8
  deriving Repr

def ginit : GState := { cache := init, counter := gensymCounterInit }

inductive OpG where
  | intern (bytes : List UInt8)
  | sweep (bytes : List UInt8)
  | gensym

/-- histories with gensym; `fuel` = bound on the probes of one `janet_symbol_gen` call -/
def runG (fuel : Nat) : GState → List OpG → Option GState
  | s, [] => some s
  | s, .intern b :: ops => match intern s.cache b with | some (c', _) => runG fuel { s with cache := c' } ops | none => none
  | s, .sweep b :: ops => runG fuel { s with cache := deinit s.cache b } ops
  | s, .gensym :: ops =>
    match gensym fuel s.cache s.counter with
    | some (c', ctr', _) => runG fuel { cache := c', counter := ctr' } ops
    | none => none

/-- `janet_symbol_gen` WITHOUT a probe bound as parameter: the C loop has none.  `janet_vm.cache_count + 1` probes always
    suffice (`genLoop_terminates` in SymGenTerm.lean: the counter names are pairwise distinct, so after `cache_count + 1` hits
    the cache would hold more symbols than it counts), and more fuel never changes the result — hence this IS the result of the
    unbounded loop, and `none` can only mean the NULL-bucket `janet_assert`. -/
def gensymT (c : Cache) (ctr : List UInt8) : Option (Cache × List UInt8 × Nat) := gensym (c.count + 1) c ctr

/-- histories with gensym, no probe bound -/
def runGT : GState → List OpG → Option GState
  | s, [] => some s
  | s, .intern b :: ops => match intern s.cache b with | some (c', _) => runGT { s with cache := c' } ops | none => none
  | s, .sweep b :: ops => runGT { s with cache := deinit s.cache b } ops
  | s, .gensym :: ops =>
    match gensymT s.cache s.counter with
    | some (c', ctr', _) => runGT { cache := c', counter := ctr' } ops
    | none => none

end JanetModel.Value.SymCache
