/- C03 — `jcompare` is a total order: antisymmetric, transitive, and its equality is content equality. -/
import JanetModel.Value.Lemmas

namespace JanetModel.Value
open JanetModel.Gen.Value

/-! ### three-way comparisons: what "transitive" means for one triple, closed under lexicographic products -/

/-- the results of comparing a–b, b–c, a–c are consistent with a total preorder -/
def Tri (ab bc ac : Ordering) : Prop :=
  (ab ≠ .gt → bc ≠ .gt → ac ≠ .gt) ∧ (ab = .lt → bc ≠ .gt → ac = .lt) ∧ (ab ≠ .gt → bc = .lt → ac = .lt) ∧
  (ab = .eq → bc = .eq → ac = .eq)

theorem Tri.then' {o1 o2 o3 r1 r2 r3 : Ordering} (h : Tri o1 o2 o3)
    (hr : o1 = .eq → o2 = .eq → o3 = .eq → Tri r1 r2 r3) : Tri (o1.then r1) (o2.then r2) (o3.then r3) := by
  cases o1 <;> cases o2 <;> cases o3 <;>
    first
    | exact hr rfl rfl rfl
    | (simp [Tri, Ordering.then] at h ⊢)

theorem then_match (o r : Ordering) : (match o with | .lt => .lt | .gt => .gt | .eq => r) = o.then r := by
  cases o <;> rfl

/-- comparison of two naturals, written with `<` only -/
def natCmp (a b : Nat) : Ordering := if a < b then .lt else if b < a then .gt else .eq

theorem natCmp_swap (a b : Nat) : natCmp b a = (natCmp a b).swap := by
  unfold natCmp; split <;> split <;> simp <;> omega

theorem natCmp_eq_iff (a b : Nat) : natCmp a b = .eq ↔ a = b := by
  unfold natCmp; split <;> (try split) <;> simp <;> omega

theorem natCmp_lt_iff (a b : Nat) : natCmp a b = .lt ↔ a < b := by
  unfold natCmp; split <;> (try split) <;> simp <;> omega

theorem natCmp_gt_iff (a b : Nat) : natCmp a b = .gt ↔ b < a := by
  unfold natCmp; split <;> (try split) <;> simp <;> omega

theorem tri_natCmp (a b c : Nat) : Tri (natCmp a b) (natCmp b c) (natCmp a c) := by
  simp only [Tri, ne_eq, natCmp_lt_iff, natCmp_gt_iff, natCmp_eq_iff]
  omega

def intCmp (a b : Int) : Ordering := if a < b then .lt else if b < a then .gt else .eq

theorem intCmp_swap (a b : Int) : intCmp b a = (intCmp a b).swap := by
  unfold intCmp; split <;> split <;> simp <;> omega

theorem intCmp_eq_iff (a b : Int) : intCmp a b = .eq ↔ a = b := by
  unfold intCmp; split <;> (try split) <;> simp <;> omega

theorem intCmp_lt_iff (a b : Int) : intCmp a b = .lt ↔ a < b := by
  unfold intCmp; split <;> (try split) <;> simp <;> omega

theorem intCmp_gt_iff (a b : Int) : intCmp a b = .gt ↔ b < a := by
  unfold intCmp; split <;> (try split) <;> simp <;> omega

theorem tri_intCmp (a b c : Int) : Tri (intCmp a b) (intCmp b c) (intCmp a c) := by
  simp only [Tri, ne_eq, intCmp_lt_iff, intCmp_gt_iff, intCmp_eq_iff]
  omega

variable {N : Type} [NumLike N]

theorem ref_tag_ne (k : RefKind) : k.tag ≠ 0 ∧ k.tag ≠ 1 ∧ k.tag ≠ 2 ∧ k.tag ≠ 4 ∧ k.tag ≠ 5 ∧ k.tag ≠ 6 ∧ k.tag ≠ 8 ∧ k.tag ≠ 10 := by
  cases k <;> decide

theorem RefKind.tag_inj (k1 k2 : RefKind) (h : k1.tag = k2.tag) : k1 = k2 := by
  cases k1 <;> cases k2 <;> first | rfl | (exact absurd h (by decide))

theorem sCompare_eq (a b : UInt32) : sCompare a b = intCmp (sInt a) (sInt b) := by
  unfold sCompare intCmp
  rw [Int.compare_eq_ite_lt]

theorem compare_nat_eq (a b : Nat) : compare a b = natCmp a b := by
  unfold natCmp; rw [Nat.compare_eq_ite_lt]

theorem jcompare_tuple (b1 b2 : Bool) (xs ys : List (JVal N)) :
    jcompare (.tuple b1 xs) (.tuple b2 ys) = (natCmp b1.toNat b2.toNat).then (compareList xs ys) := by
  cases b1 <;> cases b2 <;> simp [jcompare, natCmp, Ordering.then]

theorem jcompare_struct (f1 p1 f2 p2 : List (JVal N)) :
    jcompare (.struct f1 p1) (.struct f2 p2) =
      (natCmp (f1.length / 2) (f2.length / 2)).then
        ((intCmp (sInt (hash (.struct f1 p1))) (sInt (hash (.struct f2 p2)))).then
          ((compareList f1 f2).then (compareList p1 p2))) := by
  simp only [jcompare, sCompare_eq]
  unfold natCmp
  split
  · rfl
  · split
    · simp [Ordering.then]
    · have : ¬ (f2.length / 2 < f1.length / 2) := by omega
      simp only [this, if_false, Ordering.then]
      cases intCmp (sInt (hash (JVal.struct f1 p1))) (sInt (hash (JVal.struct f2 p2))) <;> simp
      cases compareList f1 f2 <;> simp

theorem compareList_cons (x y : JVal N) (xs ys : List (JVal N)) :
    compareList (x :: xs) (y :: ys) = (jcompare x y).then (compareList xs ys) := by
  simp only [compareList]
  cases jcompare x y <;> rfl

theorem jcompare_ref (k1 k2 : RefKind) (b1 b2 : UInt64) :
    jcompare (.ref k1 b1 : JVal N) (.ref k2 b2) = (natCmp k1.tag k2.tag).then (natCmp b1.toNat b2.toNat) := by
  simp only [jcompare, natCmp]
  by_cases h : k1.tag = k2.tag
  · simp [h, Ordering.then]
    by_cases h2 : b1 = b2
    · simp [h2]
    · have : b1.toNat ≠ b2.toNat := fun e => h2 (UInt64.toNat_inj.mp e)
      simp only [h2, if_false, gt_iff_lt, UInt64.lt_iff_toNat_lt]
      by_cases h3 : b2.toNat < b1.toNat
      · have : ¬ b1.toNat < b2.toNat := by omega
        simp [h3, this]
      · have : b1.toNat < b2.toNat := by omega
        simp [h3, this]
  · simp only [bne_iff_ne, ne_eq, h, not_false_eq_true, if_true]
    by_cases h3 : k1.tag < k2.tag
    · simp [h3, Ordering.then]
    · have : k2.tag < k1.tag := by omega
      simp [h3, this, Ordering.then]

theorem jcompare_bool (a b : Bool) : jcompare (.bool a : JVal N) (.bool b) = natCmp a.toNat b.toNat := by
  simp only [jcompare, compare_nat_eq]

/-- number comparison as written in janet_compare -/
def numCmp (a b : N) : Ordering := if NumLike.eq a b then .eq else if NumLike.lt a b then .lt else .gt

theorem jcompare_num (a b : N) : jcompare (.num a) (.num b) = numCmp a b := by simp [jcompare, numCmp]


theorem jcompare_of_tag_ne (a b : JVal N) (h : a.typeTag ≠ b.typeTag) : jcompare a b = natCmp a.typeTag b.typeTag := by
  cases a <;> cases b <;> simp [jcompare, natCmp, JVal.typeTag] at h ⊢ <;> (try rfl)
  rename_i k1 b1 k2 b2
  simp only [h, if_false]
  by_cases h3 : k1.tag < k2.tag
  · simp [h3]
  · have : k2.tag < k1.tag := by omega
    simp [h3, this]

theorem jcompare_tag_then (a b : JVal N) : jcompare a b = (natCmp a.typeTag b.typeTag).then (jcompare a b) := by
  by_cases h : a.typeTag = b.typeTag
  · rw [h, (natCmp_eq_iff _ _).mpr rfl]; rfl
  · rw [jcompare_of_tag_ne a b h]
    have : natCmp a.typeTag b.typeTag ≠ .eq := fun e => h ((natCmp_eq_iff _ _).mp e)
    cases hc : natCmp a.typeTag b.typeTag <;> simp_all [Ordering.then]

omit [NumLike N] in
/-- values with the same type tag have the same shape -/
theorem sameTag_cases {motive : JVal N → JVal N → Prop} (a b : JVal N) (h : a.typeTag = b.typeTag)
    (num : ∀ x y, motive (.num x) (.num y)) (nil : motive .nil .nil) (bool : ∀ x y, motive (.bool x) (.bool y))
    (str : ∀ x y, motive (.str x) (.str y)) (sym : ∀ x y, motive (.sym x) (.sym y)) (kw : ∀ x y, motive (.kw x) (.kw y))
    (tuple : ∀ b1 xs b2 ys, motive (.tuple b1 xs) (.tuple b2 ys))
    (struct : ∀ f1 p1 f2 p2, motive (.struct f1 p1) (.struct f2 p2))
    (ref : ∀ k b1 b2, motive (.ref k b1) (.ref k b2)) : motive a b := by
  cases a <;> cases b <;>
    simp only [JVal.typeTag, tyNumber, tyNil, tyBoolean, tyString, tySymbol, tyKeyword, tyTuple, tyStruct] at h <;>
    first
    | (exact absurd h (by decide))
    | apply num | exact nil | apply bool | apply str | apply sym | apply kw | apply tuple | apply struct
    | (rename_i k1 _ k2 _; have := RefKind.tag_inj k1 k2 h; subst this; apply ref)
    | (have hk := ref_tag_ne ‹RefKind›; omega)


theorem swap_then' (o r : Ordering) : (o.then r).swap = o.swap.then r.swap := by cases o <;> rfl
theorem then_eq_iff (o r : Ordering) : o.then r = .eq ↔ o = .eq ∧ r = .eq := by cases o <;> simp [Ordering.then]

theorem bytesCompare_cons (a b : UInt8) (as bs : List UInt8) :
    bytesCompare (a :: as) (b :: bs) = (natCmp a.toNat b.toNat).then (bytesCompare as bs) := by
  simp only [bytesCompare, natCmp, UInt8.lt_iff_toNat_lt]
  split
  · rfl
  · split <;> rfl

theorem bytesCompare_swap : ∀ a b : List UInt8, bytesCompare b a = (bytesCompare a b).swap
  | [], [] => rfl
  | [], _ :: _ => rfl
  | _ :: _, [] => rfl
  | a :: as, b :: bs => by
      rw [bytesCompare_cons, bytesCompare_cons, swap_then', natCmp_swap, bytesCompare_swap as bs]

theorem bytesCompare_eq_iff : ∀ a b : List UInt8, bytesCompare a b = .eq ↔ a = b
  | [], [] => by simp [bytesCompare]
  | [], _ :: _ => by simp [bytesCompare]
  | _ :: _, [] => by simp [bytesCompare]
  | a :: as, b :: bs => by
      rw [bytesCompare_cons, then_eq_iff, natCmp_eq_iff, bytesCompare_eq_iff as bs]
      simp [UInt8.toNat_inj]

theorem tri_bytes : ∀ a b c : List UInt8, Tri (bytesCompare a b) (bytesCompare b c) (bytesCompare a c)
  | [], [], [] => by simp [bytesCompare, Tri]
  | [], [], _ :: _ => by simp [bytesCompare, Tri]
  | [], _ :: _, [] => by simp [bytesCompare, Tri]
  | [], _ :: _, _ :: _ => by simp [bytesCompare, Tri]
  | _ :: _, [], [] => by simp [bytesCompare, Tri]
  | _ :: _, [], _ :: _ => by simp [bytesCompare, Tri]
  | _ :: _, _ :: _, [] => by simp [bytesCompare, Tri]
  | a :: as, b :: bs, c :: cs => by
      rw [bytesCompare_cons, bytesCompare_cons, bytesCompare_cons]
      exact Tri.then' (tri_natCmp _ _ _) (fun _ _ _ => tri_bytes as bs cs)

variable [LawfulNum N]

theorem numCmp_swap (a b : N) : numCmp b a = (numCmp a b).swap := by
  unfold numCmp
  rw [LawfulNum.eq_symm b a]
  by_cases h : NumLike.eq a b = true
  · simp [h]
  · simp only [h, if_false, Bool.false_eq_true]
    simp only [Bool.not_eq_true] at h
    by_cases h2 : NumLike.lt a b = true
    · simp [h2, LawfulNum.lt_asymm a b h2]
    · simp only [Bool.not_eq_true] at h2
      simp [h2, LawfulNum.lt_total a b h h2]

omit [LawfulNum N] in
theorem numCmp_eq_iff (a b : N) : numCmp a b = .eq ↔ NumLike.eq a b = true := by
  unfold numCmp; split <;> (try split) <;> simp_all

theorem numCmp_lt_iff (a b : N) : numCmp a b = .lt ↔ NumLike.lt a b = true := by
  unfold numCmp
  by_cases h : NumLike.eq a b = true
  · simp only [h, if_true]
    constructor
    · intro h'; cases h'
    · intro h2; have := LawfulNum.lt_not_eq a b h2; simp_all
  · simp only [h, if_false, Bool.false_eq_true]; split <;> simp_all

theorem numCmp_gt_iff (a b : N) : numCmp a b = .gt ↔ NumLike.lt b a = true := by
  rw [← numCmp_lt_iff b a, numCmp_swap a b]; cases numCmp a b <;> simp

theorem numCmp_ne_gt_iff (a b : N) : numCmp a b ≠ .gt ↔ NumLike.lt b a = false := by
  rw [ne_eq, numCmp_gt_iff]; simp

theorem num_trichotomy (a b : N) (h : NumLike.lt b a = false) : NumLike.eq a b = true ∨ NumLike.lt a b = true := by
  by_cases he : NumLike.eq a b = true
  · exact Or.inl he
  · simp only [Bool.not_eq_true] at he
    by_cases hl : NumLike.lt a b = true
    · exact Or.inr hl
    · simp only [Bool.not_eq_true] at hl
      have := LawfulNum.lt_total a b he hl
      simp_all

theorem tri_num (a b c : N) : Tri (numCmp a b) (numCmp b c) (numCmp a c) := by
  simp only [Tri, numCmp_ne_gt_iff, numCmp_lt_iff, numCmp_eq_iff]
  refine ⟨?_, ?_, ?_, ?_⟩
  · intro h1 h2
    cases hca : NumLike.lt c a
    · rfl
    · exfalso
      rcases num_trichotomy a b h1 with he | hl
      · rw [LawfulNum.lt_congr_right a b c he] at hca; simp_all
      · have := LawfulNum.lt_trans c a b hca hl; simp_all
  · intro h1 h2
    rcases num_trichotomy b c h2 with he | hl
    · rw [← LawfulNum.lt_congr_right b c a he]; exact h1
    · exact LawfulNum.lt_trans a b c h1 hl
  · intro h1 h2
    rcases num_trichotomy a b h1 with he | hl
    · rw [LawfulNum.lt_congr_left a b c he]; exact h2
    · exact LawfulNum.lt_trans a b c hl h2
  · exact LawfulNum.eq_trans a b c


omit [NumLike N] [LawfulNum N] in
theorem JVal.sizeOf_pos [SizeOf N] (a : JVal N) : 1 ≤ sizeOf a := by
  cases a <;> simp <;> omega

theorem swap_all : ∀ n : Nat,
    (∀ a b : JVal N, sizeOf a + sizeOf b ≤ n → jcompare b a = (jcompare a b).swap) ∧
    (∀ l m : List (JVal N), sizeOf l + sizeOf m ≤ n → compareList m l = (compareList l m).swap) := by
  intro n
  induction n with
  | zero =>
    constructor
    · intro a b hs; have := JVal.sizeOf_pos a; omega
    · intro l m hs; cases l <;> simp at hs
  | succ n ih =>
    constructor
    · intro a b hs
      by_cases h : a.typeTag = b.typeTag
      · revert hs
        refine sameTag_cases (motive := fun a b => sizeOf a + sizeOf b ≤ n + 1 → jcompare b a = (jcompare a b).swap) a b h ?_ ?_ ?_ ?_ ?_ ?_ ?_ ?_ ?_
        · intro x y _; rw [jcompare_num, jcompare_num, numCmp_swap]
        · intro _; rfl
        · intro x y _; rw [jcompare_bool, jcompare_bool, natCmp_swap]
        · intro x y _; simp only [jcompare]; exact bytesCompare_swap x y
        · intro x y _; simp only [jcompare]; exact bytesCompare_swap x y
        · intro x y _; simp only [jcompare]; exact bytesCompare_swap x y
        · intro b1 xs b2 ys hs
          rw [jcompare_tuple, jcompare_tuple, swap_then', natCmp_swap, ih.2 xs ys (by simp at hs; omega)]
        · intro f1 p1 f2 p2 hs
          rw [jcompare_struct, jcompare_struct, swap_then', swap_then', swap_then', natCmp_swap, intCmp_swap,
            ih.2 f1 f2 (by simp at hs; omega), ih.2 p1 p2 (by simp at hs; omega)]
        · intro k b1 b2 _
          rw [jcompare_ref, jcompare_ref, swap_then', natCmp_swap b1.toNat, ← natCmp_swap k.tag]
      · rw [jcompare_of_tag_ne a b h, jcompare_of_tag_ne b a (Ne.symm h), natCmp_swap]
    · intro l m hs
      cases l <;> cases m
      · rfl
      · rfl
      · rfl
      · rename_i x xs y ys
        rw [compareList_cons, compareList_cons, swap_then', ih.1 x y (by simp at hs; omega), ih.2 xs ys (by simp at hs; omega)]


omit [LawfulNum N] in
theorem contentEq_tag (a b : JVal N) (h : contentEq a b = true) : a.typeTag = b.typeTag := by
  cases a <;> cases b <;> simp [contentEq] at h <;> simp [JVal.typeTag, h]

theorem eqiff_all : ∀ n : Nat,
    (∀ a b : JVal N, sizeOf a + sizeOf b ≤ n → (jcompare a b = .eq ↔ contentEq a b = true)) ∧
    (∀ l m : List (JVal N), sizeOf l + sizeOf m ≤ n → (compareList l m = .eq ↔ contentEqList l m = true)) := by
  intro n
  induction n with
  | zero =>
    constructor
    · intro a b hs; have := JVal.sizeOf_pos a; omega
    · intro l m hs; cases l <;> simp at hs
  | succ n ih =>
    constructor
    · intro a b hs
      by_cases h : a.typeTag = b.typeTag
      · revert hs
        refine sameTag_cases (motive := fun a b => sizeOf a + sizeOf b ≤ n + 1 → (jcompare a b = .eq ↔ contentEq a b = true)) a b h ?_ ?_ ?_ ?_ ?_ ?_ ?_ ?_ ?_
        · intro x y _; rw [jcompare_num, numCmp_eq_iff]; simp [contentEq]
        · intro _; simp [jcompare, contentEq]
        · intro x y _; rw [jcompare_bool, natCmp_eq_iff]; cases x <;> cases y <;> simp [contentEq]
        · intro x y _; simp only [jcompare, contentEq, bytesCompare_eq_iff, beq_iff_eq]
        · intro x y _; simp only [jcompare, contentEq, bytesCompare_eq_iff, beq_iff_eq]
        · intro x y _; simp only [jcompare, contentEq, bytesCompare_eq_iff, beq_iff_eq]
        · intro b1 xs b2 ys hs
          rw [jcompare_tuple, then_eq_iff, natCmp_eq_iff, ih.2 xs ys (by simp at hs; omega)]
          cases b1 <;> cases b2 <;> simp [contentEq]
        · intro f1 p1 f2 p2 hs
          rw [jcompare_struct, then_eq_iff, then_eq_iff, then_eq_iff, natCmp_eq_iff, intCmp_eq_iff,
            ih.2 f1 f2 (by simp at hs; omega), ih.2 p1 p2 (by simp at hs; omega)]
          simp only [contentEq, Bool.and_eq_true]
          constructor
          · intro h'; exact ⟨h'.2.2.1, h'.2.2.2⟩
          · intro h'
            have hh : hash (.struct f1 p1) = hash (.struct f2 p2) := contentEq_hash_both.1 _ _ (by simp [contentEq, h'.1, h'.2])
            exact ⟨by rw [contentEqList_length f1 f2 h'.1], by rw [hh], h'.1, h'.2⟩
        · intro k b1 b2 _
          rw [jcompare_ref, then_eq_iff, natCmp_eq_iff, natCmp_eq_iff]
          simp [contentEq, UInt64.toNat_inj]
      · rw [jcompare_of_tag_ne a b h]
        have h1 : natCmp a.typeTag b.typeTag ≠ .eq := fun e => h ((natCmp_eq_iff _ _).mp e)
        have h2 : contentEq a b ≠ true := fun e => h (contentEq_tag a b e)
        simp [h1, h2]
    · intro l m hs
      cases l <;> cases m
      · simp [compareList, contentEqList]
      · simp [compareList, contentEqList]
      · simp [compareList, contentEqList]
      · rename_i x xs y ys
        rw [compareList_cons, then_eq_iff, ih.1 x y (by simp at hs; omega), ih.2 xs ys (by simp at hs; omega)]
        simp [contentEqList]


/-- closes a goal whose hypothesis `h` equates the type tags of two different constructors -/
macro "tagelim " h:ident : tactic =>
  `(tactic| (simp only [JVal.typeTag, tyNumber, tyNil, tyBoolean, tyString, tySymbol, tyKeyword, tyTuple, tyStruct] at $h:ident;
             first | exact absurd $h (by decide) | (have hk := ref_tag_ne ‹RefKind›; omega)))

theorem tri_all : ∀ n : Nat,
    (∀ a b c : JVal N, sizeOf a + sizeOf b + sizeOf c ≤ n → Tri (jcompare a b) (jcompare b c) (jcompare a c)) ∧
    (∀ l m k : List (JVal N), sizeOf l + sizeOf m + sizeOf k ≤ n → Tri (compareList l m) (compareList m k) (compareList l k)) := by
  intro n
  induction n with
  | zero =>
    constructor
    · intro a b c hs; have := JVal.sizeOf_pos a; omega
    · intro l m k hs; cases l <;> simp at hs
  | succ n ih =>
    constructor
    · intro a b c hs
      rw [jcompare_tag_then a b, jcompare_tag_then b c, jcompare_tag_then a c]
      refine Tri.then' (tri_natCmp _ _ _) ?_
      intro h1 h2 h3
      have hab := (natCmp_eq_iff _ _).mp h1
      have hbc := (natCmp_eq_iff _ _).mp h2
      clear h1 h2 h3
      revert hs hbc
      refine sameTag_cases (motive := fun a b => sizeOf a + sizeOf b + sizeOf c ≤ n + 1 → b.typeTag = c.typeTag →
        Tri (jcompare a b) (jcompare b c) (jcompare a c)) a b hab ?_ ?_ ?_ ?_ ?_ ?_ ?_ ?_ ?_
      · intro x y hs hbc
        cases c <;> first | tagelim hbc | skip
        simp only [jcompare_num]; exact tri_num _ _ _
      · intro hs hbc
        cases c <;> first | tagelim hbc | skip
        simp [jcompare, Tri]
      · intro x y hs hbc
        cases c <;> first | tagelim hbc | skip
        simp only [jcompare_bool]; exact tri_natCmp _ _ _
      · intro x y hs hbc
        cases c <;> first | tagelim hbc | skip
        simp only [jcompare]; exact tri_bytes _ _ _
      · intro x y hs hbc
        cases c <;> first | tagelim hbc | skip
        simp only [jcompare]; exact tri_bytes _ _ _
      · intro x y hs hbc
        cases c <;> first | tagelim hbc | skip
        simp only [jcompare]; exact tri_bytes _ _ _
      · intro b1 xs b2 ys hs hbc
        cases c <;> first | tagelim hbc | skip
        rename_i b3 zs
        simp only [jcompare_tuple]
        exact Tri.then' (tri_natCmp _ _ _) (fun _ _ _ => ih.2 xs ys zs (by simp at hs; omega))
      · intro f1 p1 f2 p2 hs hbc
        cases c <;> first | tagelim hbc | skip
        rename_i f3 p3
        simp only [jcompare_struct]
        refine Tri.then' (tri_natCmp _ _ _) (fun _ _ _ => Tri.then' (tri_intCmp _ _ _) (fun _ _ _ => ?_))
        exact Tri.then' (ih.2 f1 f2 f3 (by simp at hs; omega)) (fun _ _ _ => ih.2 p1 p2 p3 (by simp at hs; omega))
      · intro k b1 b2 hs hbc
        cases c <;> first | tagelim hbc | skip
        rename_i k3 b3
        simp only [jcompare_ref]
        exact Tri.then' (tri_natCmp _ _ _) (fun _ _ _ => tri_natCmp _ _ _)
    · intro l m k hs
      cases l <;> cases m <;> cases k <;> try (simp [compareList, Tri]; done)
      rename_i x xs y ys z zs
      simp only [compareList_cons]
      exact Tri.then' (ih.1 x y z (by simp at hs; omega)) (fun _ _ _ => ih.2 xs ys zs (by simp at hs; omega))

end JanetModel.Value
