/- C03 — the symbol cache keeps interned symbols unique: invariants of `SymCache` and their preservation. -/
import JanetModel.Value.SymCache

namespace JanetModel.Value.SymCache
open JanetModel.Gen.Value JanetModel.Value

/-! ### probe positions -/

theorem pos_lt {cap index k : Nat} (hi : index < cap) (hk : k < cap) : pos cap index k < cap := by
  unfold pos; split <;> omega

theorem pos_inj {cap index j k : Nat} (hi : index < cap) (hj : j < cap) (hk : k < cap)
    (h : pos cap index j = pos cap index k) : j = k := by
  unfold pos at h; split at h <;> split at h <;> omega

theorem pos_surj {cap index i : Nat} (hi : index < cap) (h : i < cap) : ∃ k, k < cap ∧ pos cap index k = i := by
  by_cases hge : index ≤ i
  · exact ⟨i - index, by omega, by unfold pos; split <;> omega⟩
  · exact ⟨i + cap - index, by omega, by unfold pos; split <;> omega⟩

theorem home_lt {cap : Nat} (h : 0 < cap) (b : List UInt8) : home cap b < cap := Nat.mod_lt _ h

/-! ### slots -/

abbrev gd (sl : List Slot) (i : Nat) : Slot := sl.getD i .empty

theorem gd_set (sl : List Slot) (i j : Nat) (a : Slot) :
    gd (sl.set i a) j = if i = j ∧ i < sl.length then a else gd sl j := by
  unfold gd
  simp only [List.getD_eq_getElem?_getD, List.getElem?_set]
  by_cases h : i = j
  · subst h
    by_cases h2 : i < sl.length
    · simp [h2]
    · simp [h2]
  · simp [h]

theorem gd_lt {sl : List Slot} {i : Nat} (h : gd sl i ≠ .empty) : i < sl.length := by
  unfold gd at h
  by_cases hl : i < sl.length
  · exact hl
  · simp [List.getD_eq_getElem?_getD, List.getElem?_eq_none (by omega : sl.length ≤ i)] at h

theorem vacatedByMove_ne : vacatedByMove ≠ .empty := by simp [vacatedByMove]
theorem vacatedByDeinit_ne : vacatedByDeinit ≠ .empty := by simp [vacatedByDeinit]
theorem vacatedByMove_not_live (p : Nat) (b : List UInt8) : vacatedByMove ≠ .live p b := by
  unfold vacatedByMove; split <;> simp
theorem vacatedByDeinit_not_live (p : Nat) (b : List UInt8) : vacatedByDeinit ≠ .live p b := by
  unfold vacatedByDeinit; split <;> simp

/-- the probe path from the home of `b` reaches slot `i` without crossing an empty slot -/
def Reach (sl : List Slot) (b : List UInt8) (i : Nat) : Prop :=
  ∃ d, d < sl.length ∧ i = pos sl.length (home sl.length b) d ∧
    ∀ k, k < d → gd sl (pos sl.length (home sl.length b) k) ≠ .empty

/-- invariant of `janet_vm.cache` -/
structure Inv (sl : List Slot) : Prop where
  /-- no two live entries with the same bytes -/
  nodup : ∀ i j p q b, gd sl i = .live p b → gd sl j = .live q b → i = j
  /-- probe-chain: every live entry is reachable from its home slot without crossing an empty slot -/
  chain : ∀ i p b, gd sl i = .live p b → Reach sl b i

theorem Reach.mono {sl sl' : List Slot} {b : List UInt8} {i : Nat} (hl : sl'.length = sl.length)
    (hm : ∀ y, gd sl y ≠ .empty → gd sl' y ≠ .empty) (h : Reach sl b i) : Reach sl' b i := by
  obtain ⟨d, hd, hi, hk⟩ := h
  exact ⟨d, by omega, by rw [hl]; exact hi, fun k hk' => by rw [hl]; exact hm _ (hk k hk')⟩


theorem findLoop_empty {bytes : List UInt8} {cap index fuel k : Nat} {fe : Option Nat} {sl : List Slot}
    (h : gd sl (pos cap index k) = .empty) :
    findLoop bytes cap index (fuel + 1) k fe sl = (sl, .miss (some (fe.getD (pos cap index k)))) := by
  unfold findLoop; simp only [gd] at h; simp only [h]

theorem findLoop_deleted {bytes : List UInt8} {cap index fuel k : Nat} {fe : Option Nat} {sl : List Slot}
    (h : gd sl (pos cap index k) = .deleted) :
    findLoop bytes cap index (fuel + 1) k fe sl = findLoop bytes cap index fuel (k + 1) (some (fe.getD (pos cap index k))) sl := by
  rw [findLoop]; simp only [gd] at h; simp only [h]

theorem findLoop_other {bytes : List UInt8} {cap index fuel k : Nat} {fe : Option Nat} {sl : List Slot} {q : Nat} {b : List UInt8}
    (h : gd sl (pos cap index k) = .live q b) (hne : b ≠ bytes) :
    findLoop bytes cap index (fuel + 1) k fe sl = findLoop bytes cap index fuel (k + 1) fe sl := by
  rw [findLoop]; simp only [gd] at h; simp only [h, hne, if_false]

theorem findLoop_match {bytes : List UInt8} {cap index fuel k : Nat} {fe : Option Nat} {sl : List Slot} {q : Nat}
    (h : gd sl (pos cap index k) = .live q bytes) :
    findLoop bytes cap index (fuel + 1) k fe sl =
      match fe with
      | some f => ((sl.set f (.live q bytes)).set (pos cap index k) vacatedByMove, .hit f)
      | none => (sl, .hit (pos cap index k)) := by
  rw [findLoop]; simp only [gd] at h; simp only [h, if_true]; cases fe <;> rfl

/-- `findLoop` when the bytes are live at probe number `d` and nothing before it stops the probe -/
theorem findLoop_hit (bytes : List UInt8) (cap index : Nat) (sl : List Slot) (p d : Nat)
    (hlive : gd sl (pos cap index d) = .live p bytes) :
    ∀ (fuel k0 : Nat) (fe : Option Nat), k0 ≤ d → d < k0 + fuel →
      (∀ k, k0 ≤ k → k < d → gd sl (pos cap index k) ≠ .empty ∧ ∀ q, gd sl (pos cap index k) ≠ .live q bytes) →
      (findLoop bytes cap index fuel k0 fe sl = (sl, .hit (pos cap index d)) ∧ fe = none ∧
          ∀ k, k0 ≤ k → k < d → gd sl (pos cap index k) ≠ .deleted) ∨
      (∃ f, findLoop bytes cap index fuel k0 fe sl =
            ((sl.set f (.live p bytes)).set (pos cap index d) vacatedByMove, .hit f) ∧
          (fe = some f ∨ (fe = none ∧ ∃ j, k0 ≤ j ∧ j < d ∧ f = pos cap index j ∧ gd sl f = .deleted))) := by
  intro fuel
  induction fuel with
  | zero => intro k0 fe h1 h2; omega
  | succ fuel ih =>
    intro k0 fe h1 h2 hpath
    by_cases hk : k0 = d
    · subst hk
      rw [findLoop_match hlive]
      cases fe with
      | none => left; exact ⟨rfl, rfl, fun k a b => by omega⟩
      | some f => right; exact ⟨f, rfl, Or.inl rfl⟩
    · have hlt : k0 < d := by omega
      have hp := hpath k0 (Nat.le_refl _) hlt
      cases hs : gd sl (pos cap index k0) with
      | empty => exact absurd hs hp.1
      | deleted =>
        rw [findLoop_deleted hs]
        have := ih (k0 + 1) (some (fe.getD (pos cap index k0))) (by omega) (by omega) (fun k a b => hpath k (by omega) b)
        rcases this with ⟨_, h, _⟩ | ⟨f, hf, hor⟩
        · cases h
        · right
          refine ⟨f, hf, ?_⟩
          rcases hor with h | ⟨h, _⟩
          · cases fe with
            | none =>
              right
              simp at h
              exact ⟨rfl, k0, Nat.le_refl _, hlt, h.symm, by rw [← h]; exact hs⟩
            | some g => left; simp at h; rw [h]
          · cases h
      | live q b =>
        have hne : b ≠ bytes := fun e => hp.2 q (by rw [← e]; exact hs)
        rw [findLoop_other hs hne]
        have := ih (k0 + 1) fe (by omega) (by omega) (fun k a b => hpath k (by omega) b)
        rcases this with ⟨h1', h2', h3'⟩ | ⟨f, hf, hor⟩
        · left
          refine ⟨h1', h2', fun k a b => ?_⟩
          by_cases hkk : k = k0
          · subst hkk; rw [hs]; simp
          · exact h3' k (by omega) b
        · right
          refine ⟨f, hf, ?_⟩
          rcases hor with h | ⟨h, j, hj1, hj2, hj3, hj4⟩
          · exact Or.inl h
          · exact Or.inr ⟨h, j, by omega, hj2, hj3, hj4⟩

/-- `findLoop` when no live entry has these bytes: nothing changes, and the returned bucket (if any) is the first
    tombstone on the probe path or the empty slot ending it -/
theorem findLoop_miss (bytes : List UInt8) (cap index : Nat) (sl : List Slot) (hno : ∀ i q, gd sl i ≠ .live q bytes) :
    ∀ (fuel k0 : Nat) (fe : Option Nat), ∃ r, findLoop bytes cap index fuel k0 fe sl = (sl, .miss r) ∧
      ∀ b, r = some b → fe = some b ∨
        (fe = none ∧ ∃ j, k0 ≤ j ∧ j < k0 + fuel ∧ b = pos cap index j ∧ (gd sl b = .empty ∨ gd sl b = .deleted) ∧
          ∀ k, k0 ≤ k → k < j → gd sl (pos cap index k) ≠ .empty) := by
  intro fuel
  induction fuel with
  | zero => intro k0 fe; exact ⟨fe, rfl, fun b h => Or.inl h⟩
  | succ fuel ih =>
    intro k0 fe
    cases hs : gd sl (pos cap index k0) with
    | empty =>
      rw [findLoop_empty hs]
      refine ⟨_, rfl, fun b h => ?_⟩
      cases fe with
      | some f => left; simpa using h
      | none =>
        right
        simp at h
        exact ⟨rfl, k0, Nat.le_refl _, by omega, h.symm, Or.inl (by rw [← h]; exact hs), fun k a b => by omega⟩
    | deleted =>
      rw [findLoop_deleted hs]
      obtain ⟨r, hr, hb⟩ := ih (k0 + 1) (some (fe.getD (pos cap index k0)))
      refine ⟨r, hr, fun b h => ?_⟩
      rcases hb b h with h' | ⟨h', _⟩
      · cases fe with
        | some f => left; simpa using h'
        | none =>
          right
          simp at h'
          exact ⟨rfl, k0, Nat.le_refl _, by omega, h'.symm, Or.inr (by rw [← h']; exact hs), fun k a b => by omega⟩
      · cases h'
    | live q b' =>
      have hne : b' ≠ bytes := fun e => hno _ q (by rw [← e]; exact hs)
      rw [findLoop_other hs hne]
      obtain ⟨r, hr, hb⟩ := ih (k0 + 1) fe
      refine ⟨r, hr, fun b h => ?_⟩
      rcases hb b h with h' | ⟨h', j, hj1, hj2, hj3, hj4, hj5⟩
      · exact Or.inl h'
      · right
        refine ⟨h', j, by omega, by omega, hj3, hj4, fun k a c => ?_⟩
        by_cases hk : k = k0
        · subst hk; rw [hs]; simp
        · exact hj5 k (by omega) c


/-- the symbol with address `q` and bytes `c` is in the cache -/
def Live (sl : List Slot) (q : Nat) (c : List UInt8) : Prop := ∃ y, gd sl y = .live q c

/-- moving a live entry from probe number `d` into a tombstone at an earlier probe number keeps the invariant -/
theorem Inv.move {sl : List Slot} (hinv : Inv sl) {p : Nat} {b : List UInt8} {d j : Nat}
    (hd : d < sl.length) (hj : j < d)
    (hlive : gd sl (pos sl.length (home sl.length b) d) = .live p b)
    (hdel : gd sl (pos sl.length (home sl.length b) j) = .deleted)
    (hpath : ∀ k, k < d → gd sl (pos sl.length (home sl.length b) k) ≠ .empty) :
    let f := pos sl.length (home sl.length b) j
    let i := pos sl.length (home sl.length b) d
    let sl' := (sl.set f (.live p b)).set i vacatedByMove
    Inv sl' ∧ sl'.length = sl.length ∧ gd sl' f = .live p b ∧ (∀ q c, Live sl' q c ↔ Live sl q c) := by
  intro f i sl'
  have hcap : 0 < sl.length := by omega
  have hh := home_lt hcap b
  have hfi : f ≠ i := fun e => by have := pos_inj hh (by omega) hd e; omega
  have hf_lt : f < sl.length := pos_lt hh (by omega)
  have hi_lt : i < sl.length := pos_lt hh hd
  have hlen : sl'.length = sl.length := by simp [sl']
  have hg : ∀ y, gd sl' y = if y = i then vacatedByMove else if y = f then .live p b else gd sl y := by
    intro y
    simp only [sl', gd_set, List.length_set]
    by_cases h1 : y = i
    · subst h1; simp [hi_lt]
    · by_cases h2 : y = f
      · subst h2; simp [hf_lt, Ne.symm h1, h1]
      · simp [h1, h2, Ne.symm h1, Ne.symm h2]
  have hmono : ∀ y, gd sl y ≠ .empty → gd sl' y ≠ .empty := by
    intro y hy
    rw [hg]
    split
    · exact vacatedByMove_ne
    · split
      · simp
      · exact hy
  have hgf : gd sl' f = .live p b := by rw [hg]; simp [hfi]
  refine ⟨⟨?_, ?_⟩, hlen, hgf, ?_⟩
  · -- nodup
    intro x y q1 q2 c hx hy
    rw [hg] at hx hy
    by_cases hxi : x = i
    · simp [hxi] at hx; exact absurd hx (vacatedByMove_not_live _ _)
    · by_cases hyi : y = i
      · simp [hyi] at hy; exact absurd hy (vacatedByMove_not_live _ _)
      · simp only [hxi, hyi, if_false] at hx hy
        by_cases hxf : x = f <;> by_cases hyf : y = f
        · rw [hxf, hyf]
        · simp only [hxf, if_true, hyf, if_false] at hx hy
          cases hx
          exact absurd (hinv.nodup _ _ _ _ _ hy hlive) hyi
        · simp only [hxf, if_false, hyf, if_true] at hx hy
          cases hy
          exact absurd (hinv.nodup _ _ _ _ _ hx hlive) hxi
        · simp only [hxf, hyf, if_false] at hx hy
          exact hinv.nodup _ _ _ _ _ hx hy
  · -- chain
    intro x q c hx
    rw [hg] at hx
    by_cases hxi : x = i
    · simp [hxi] at hx; exact absurd hx (vacatedByMove_not_live _ _)
    · simp only [hxi, if_false] at hx
      by_cases hxf : x = f
      · simp only [hxf, if_true] at hx
        cases hx
        refine ⟨j, by omega, by rw [hlen, hxf], fun k hk => ?_⟩
        rw [hlen]
        exact hmono _ (hpath k (by omega))
      · simp only [hxf, if_false] at hx
        exact (hinv.chain x q c hx).mono hlen hmono
  · intro q c
    constructor
    · rintro ⟨y, hy⟩
      rw [hg] at hy
      by_cases hyi : y = i
      · simp [hyi] at hy; exact absurd hy (vacatedByMove_not_live _ _)
      · simp only [hyi, if_false] at hy
        by_cases hyf : y = f
        · simp only [hyf, if_true] at hy; cases hy; exact ⟨i, hlive⟩
        · simp only [hyf, if_false] at hy; exact ⟨y, hy⟩
    · rintro ⟨y, hy⟩
      by_cases hyi : y = i
      · subst hyi
        rw [hlive] at hy; cases hy
        exact ⟨f, hgf⟩
      · have hyf : y ≠ f := fun e => by subst e; rw [hdel] at hy; cases hy
        exact ⟨y, by rw [hg]; simp only [hyi, hyf, if_false]; exact hy⟩


/-- `janet_symcache_findmem` on the bytes of a live symbol: finds it (possibly after moving it into an earlier
    tombstone); the cache invariant and the set of live symbols are unchanged -/
theorem find_hit {sl : List Slot} (hinv : Inv sl) {i p : Nat} {b : List UInt8} (hlive : gd sl i = .live p b) :
    ∃ sl' bkt, find sl b = (sl', .hit bkt) ∧ gd sl' bkt = .live p b ∧ Inv sl' ∧ sl'.length = sl.length ∧
      ∀ q c, Live sl' q c ↔ Live sl q c := by
  obtain ⟨d, hd, hi, hpath⟩ := hinv.chain i p b hlive
  have hcap : 0 < sl.length := by omega
  have hh := home_lt hcap b
  rw [hi] at hlive
  have hother : ∀ k, 0 ≤ k → k < d → gd sl (pos sl.length (home sl.length b) k) ≠ .empty ∧
      ∀ q, gd sl (pos sl.length (home sl.length b) k) ≠ .live q b := by
    intro k _ hk
    refine ⟨hpath k hk, fun q hq => ?_⟩
    have := hinv.nodup _ _ _ _ _ hq hlive
    have := pos_inj hh (by omega) hd this
    omega
  have := findLoop_hit b sl.length (home sl.length b) sl p d hlive sl.length 0 none (Nat.zero_le _) (by omega) hother
  unfold find
  rcases this with ⟨h1, _, _⟩ | ⟨f, h1, hor⟩
  · exact ⟨sl, _, h1, hlive, hinv, rfl, fun q c => Iff.rfl⟩
  · rcases hor with h | ⟨_, j, _, hj2, hj3, hj4⟩
    · cases h
    · subst hj3
      have := Inv.move hinv hd hj2 hlive hj4 hpath
      exact ⟨_, _, h1, this.2.2.1, this.1, this.2.1, this.2.2.2⟩

/-- `janet_symcache_findmem` on bytes that are not in the cache: nothing changes; the returned bucket is a free slot
    (empty or tombstone) reachable from the home slot without crossing an empty slot -/
theorem find_miss {sl : List Slot} {b : List UInt8} (hno : ∀ q, ¬ Live sl q b) :
    ∃ r, find sl b = (sl, .miss r) ∧
      ∀ bk, r = some bk → bk < sl.length ∧ (gd sl bk = .empty ∨ gd sl bk = .deleted) ∧ Reach sl b bk := by
  have hno' : ∀ i q, gd sl i ≠ .live q b := fun i q h => hno q ⟨i, h⟩
  obtain ⟨r, hr, hb⟩ := findLoop_miss b sl.length (home sl.length b) sl hno' sl.length 0 none
  refine ⟨r, hr, fun bk h => ?_⟩
  rcases hb bk h with h' | ⟨_, j, _, hj2, hj3, hj4, hj5⟩
  · cases h'
  · have hcap : 0 < sl.length := by omega
    have hh := home_lt hcap b
    refine ⟨by rw [hj3]; exact pos_lt hh (by omega), hj4, j, by omega, hj3, fun k hk => hj5 k (Nat.zero_le _) hk⟩

/-- writing a new symbol into the bucket returned by a failed lookup -/
theorem Inv.insert {sl : List Slot} (hinv : Inv sl) {b : List UInt8} (hno : ∀ q, ¬ Live sl q b) {bk ptr : Nat}
    (hlt : bk < sl.length) (hfree : gd sl bk = .empty ∨ gd sl bk = .deleted) (hreach : Reach sl b bk) :
    Inv (sl.set bk (.live ptr b)) ∧ ∀ q c, Live (sl.set bk (.live ptr b)) q c ↔ (Live sl q c ∨ (q = ptr ∧ c = b)) := by
  have hg : ∀ y, gd (sl.set bk (.live ptr b)) y = if y = bk then .live ptr b else gd sl y := by
    intro y; rw [gd_set]; by_cases h : y = bk
    · subst h; simp [hlt]
    · simp [h, Ne.symm h]
  have hlen : (sl.set bk (.live ptr b)).length = sl.length := by simp
  have hmono : ∀ y, gd sl y ≠ .empty → gd (sl.set bk (.live ptr b)) y ≠ .empty := by
    intro y hy; rw [hg]; split
    · simp
    · exact hy
  have hnotlive : ∀ q c, gd sl bk ≠ .live q c := by
    intro q c h; rcases hfree with h' | h' <;> rw [h'] at h <;> cases h
  refine ⟨⟨?_, ?_⟩, ?_⟩
  · intro x y q1 q2 c hx hy
    rw [hg] at hx hy
    by_cases hxb : x = bk <;> by_cases hyb : y = bk
    · rw [hxb, hyb]
    · simp only [hxb, if_true, hyb, if_false] at hx hy; cases hx; exact absurd ⟨y, hy⟩ (hno q2)
    · simp only [hxb, if_false, hyb, if_true] at hx hy; cases hy; exact absurd ⟨x, hx⟩ (hno q1)
    · simp only [hxb, hyb, if_false] at hx hy; exact hinv.nodup _ _ _ _ _ hx hy
  · intro x q c hx
    rw [hg] at hx
    by_cases hxb : x = bk
    · simp only [hxb, if_true] at hx; cases hx
      rw [hxb]; exact hreach.mono hlen hmono
    · simp only [hxb, if_false] at hx
      exact (hinv.chain x q c hx).mono hlen hmono
  · intro q c
    constructor
    · rintro ⟨y, hy⟩
      rw [hg] at hy
      by_cases hyb : y = bk
      · simp only [hyb, if_true] at hy; cases hy; exact Or.inr ⟨rfl, rfl⟩
      · simp only [hyb, if_false] at hy; exact Or.inl ⟨y, hy⟩
    · rintro (⟨y, hy⟩ | ⟨h1, h2⟩)
      · have : y ≠ bk := fun e => hnotlive q c (e ▸ hy)
        exact ⟨y, by rw [hg]; simp only [this, if_false]; exact hy⟩
      · subst h1; subst h2; exact ⟨bk, by rw [hg]; simp⟩

/-- overwriting a live symbol's slot with a tombstone (janet_symbol_deinit) -/
theorem Inv.delete {sl : List Slot} (hinv : Inv sl) {bk p : Nat} {b : List UInt8} (hlive : gd sl bk = .live p b)
    {v : Slot} (hv : v ≠ .empty) (hv2 : ∀ q c, v ≠ .live q c) :
    Inv (sl.set bk v) ∧ ∀ q c, Live (sl.set bk v) q c ↔ (Live sl q c ∧ c ≠ b) := by
  have hlt : bk < sl.length := gd_lt (by rw [hlive]; simp)
  have hg : ∀ y, gd (sl.set bk v) y = if y = bk then v else gd sl y := by
    intro y; rw [gd_set]; by_cases h : y = bk
    · subst h; simp [hlt]
    · simp [h, Ne.symm h]
  have hlen : (sl.set bk v).length = sl.length := by simp
  have hmono : ∀ y, gd sl y ≠ .empty → gd (sl.set bk v) y ≠ .empty := by
    intro y hy; rw [hg]; split
    · exact hv
    · exact hy
  refine ⟨⟨?_, ?_⟩, ?_⟩
  · intro x y q1 q2 c hx hy
    rw [hg] at hx hy
    by_cases hxb : x = bk
    · simp only [hxb, if_true] at hx; exact absurd hx (hv2 _ _)
    · by_cases hyb : y = bk
      · simp only [hyb, if_true] at hy; exact absurd hy (hv2 _ _)
      · simp only [hxb, hyb, if_false] at hx hy; exact hinv.nodup _ _ _ _ _ hx hy
  · intro x q c hx
    rw [hg] at hx
    by_cases hxb : x = bk
    · simp only [hxb, if_true] at hx; exact absurd hx (hv2 _ _)
    · simp only [hxb, if_false] at hx
      exact (hinv.chain x q c hx).mono hlen hmono
  · intro q c
    constructor
    · rintro ⟨y, hy⟩
      rw [hg] at hy
      by_cases hyb : y = bk
      · simp only [hyb, if_true] at hy; exact absurd hy (hv2 _ _)
      · simp only [hyb, if_false] at hy
        refine ⟨⟨y, hy⟩, fun e => ?_⟩
        subst e
        exact hyb (hinv.nodup _ _ _ _ _ hy hlive)
    · rintro ⟨⟨y, hy⟩, hne⟩
      have : y ≠ bk := fun e => by subst e; rw [hlive] at hy; cases hy; exact hne rfl
      exact ⟨y, by rw [hg]; simp only [this, if_false]; exact hy⟩


theorem Inv.replicate (n : Nat) : Inv (List.replicate n Slot.empty) := by
  have h : ∀ i, gd (List.replicate n Slot.empty) i = .empty := by
    intro i; unfold gd
    by_cases hi : i < n
    · simp [List.getD_eq_getElem?_getD, hi]
    · simp [List.getD_eq_getElem?_getD, hi]
  refine ⟨?_, ?_⟩
  · intro i j p q b hi _; rw [h] at hi; cases hi
  · intro i p b hi; rw [h] at hi; cases hi

theorem not_live_replicate (n q : Nat) (c : List UInt8) : ¬ Live (List.replicate n Slot.empty) q c := by
  rintro ⟨y, hy⟩
  unfold gd at hy
  by_cases hi : y < n <;> simp [List.getD_eq_getElem?_getD, hi] at hy

/-- symbols listed in an (old) slot array -/
def InOld (old : List Slot) (q : Nat) (c : List UInt8) : Prop := Slot.live q c ∈ old

/-- the re-insertion loop of `janet_cache_resize` keeps the invariant and only ever contains symbols of the old cache -/
theorem reinsert_inv : ∀ (old new : List Slot), Inv new →
    Inv (reinsert old new) ∧ (reinsert old new).length = new.length ∧
      ∀ q c, Live (reinsert old new) q c → Live new q c ∨ InOld old q c
  | [], new, h => ⟨h, rfl, fun q c hl => Or.inl hl⟩
  | .empty :: rest, new, h => by
      have := reinsert_inv rest new h
      simp only [reinsert]
      exact ⟨this.1, this.2.1, fun q c hl => (this.2.2 q c hl).imp id (fun h' => List.mem_cons_of_mem _ h')⟩
  | .deleted :: rest, new, h => by
      have := reinsert_inv rest new h
      simp only [reinsert]
      exact ⟨this.1, this.2.1, fun q c hl => (this.2.2 q c hl).imp id (fun h' => List.mem_cons_of_mem _ h')⟩
  | .live p b :: rest, new, h => by
      by_cases hex : ∃ q, Live new q b
      · obtain ⟨q, i, hi⟩ := hex
        obtain ⟨new', bkt, hf, _, hinv', hlen', hlive'⟩ := find_hit h hi
        simp only [reinsert, hf]
        exact ⟨hinv', hlen', fun q c hl => Or.inl ((hlive' q c).mp hl)⟩
      · have hno : ∀ q, ¬ Live new q b := fun q hq => hex ⟨q, hq⟩
        obtain ⟨r, hf, hb⟩ := find_miss hno
        cases r with
        | none => simp only [reinsert, hf]; exact ⟨h, trivial, fun q c hl => Or.inl hl⟩
        | some bk =>
          simp only [reinsert, hf]
          obtain ⟨hlt, hfree, hreach⟩ := hb bk rfl
          have hins := Inv.insert h hno (ptr := p) hlt hfree hreach
          have := reinsert_inv rest (new.set bk (.live p b)) hins.1
          refine ⟨this.1, by rw [this.2.1]; simp, fun q c hl => ?_⟩
          rcases this.2.2 q c hl with h1 | h1
          · rcases (hins.2 q c).mp h1 with h2 | ⟨h2, h3⟩
            · exact Or.inl h2
            · subst h2; subst h3; exact Or.inr (List.mem_cons_self ..)
          · exact Or.inr (List.mem_cons_of_mem _ h1)

theorem inOld_live {old : List Slot} {q : Nat} {c : List UInt8} (h : InOld old q c) : Live old q c := by
  obtain ⟨i, hi, he⟩ := List.getElem_of_mem h
  exact ⟨i, by unfold gd; simp [List.getD_eq_getElem?_getD, hi, he]⟩


/-- invariant of the whole cache state: the slot invariant, every cached address was handed out before (`next`), and one
    address names one symbol -/
structure CInv (c : Cache) : Prop where
  inv : Inv c.slots
  fresh : ∀ q b, Live c.slots q b → q < c.next
  ptrInj : ∀ q b b', Live c.slots q b → Live c.slots q b' → b = b'

theorem init_inv : CInv init :=
  ⟨Inv.replicate _, fun q b h => absurd h (not_live_replicate _ _ _), fun q b b' h => absurd h (not_live_replicate _ _ _)⟩

/-- `janet_symbol_deinit`: the symbol with these bytes (if any) leaves the cache, every other symbol stays -/
theorem deinit_spec {c : Cache} (h : CInv c) (b : List UInt8) :
    CInv (deinit c b) ∧ ∀ q x, Live (deinit c b).slots q x ↔ (Live c.slots q x ∧ x ≠ b) := by
  by_cases hex : ∃ q, Live c.slots q b
  · obtain ⟨q, i, hi⟩ := hex
    obtain ⟨sl', bkt, hf, hb, hinv', _, hlive'⟩ := find_hit h.inv hi
    have hd := Inv.delete hinv' hb vacatedByDeinit_ne vacatedByDeinit_not_live
    have hl : ∀ q x, Live (deinit c b).slots q x ↔ (Live c.slots q x ∧ x ≠ b) := by
      intro q x; simp only [deinit, hf]; rw [hd.2, hlive']
    refine ⟨⟨by simp only [deinit, hf]; exact hd.1, fun q x hq => ?_, fun q x x' h1 h2 => ?_⟩, hl⟩
    · have := ((hl q x).mp hq).1
      have := h.fresh q x this
      simpa [deinit, hf] using this
    · exact h.ptrInj q x x' ((hl q x).mp h1).1 ((hl q x').mp h2).1
  · have hno : ∀ q, ¬ Live c.slots q b := fun q hq => hex ⟨q, hq⟩
    obtain ⟨r, hf, _⟩ := find_miss hno
    have hl : ∀ q x, Live (deinit c b).slots q x ↔ (Live c.slots q x ∧ x ≠ b) := by
      intro q x; simp only [deinit, hf]
      exact ⟨fun hq => ⟨hq, fun e => hno q (e ▸ hq)⟩, fun hq => hq.1⟩
    refine ⟨⟨by simp only [deinit, hf]; exact h.inv, fun q x hq => ?_, fun q x x' h1 h2 => ?_⟩, hl⟩
    · have := h.fresh q x ((hl q x).mp hq).1
      simpa [deinit, hf] using this
    · exact h.ptrInj q x x' ((hl q x).mp h1).1 ((hl q x').mp h2).1

/-- `janet_symcache_put` of a new symbol (bytes not in the cache, bucket from the failed lookup) -/
theorem put_spec {c : Cache} (hinv : Inv c.slots) {b : List UInt8} (hno : ∀ q, ¬ Live c.slots q b) {ptr : Nat}
    {bucket : Option Nat}
    (hb : ∀ bk, bucket = some bk → bk < c.slots.length ∧ (gd c.slots bk = .empty ∨ gd c.slots bk = .deleted) ∧ Reach c.slots b bk)
    {c' : Cache} (hput : put c ptr b bucket = some c') :
    Inv c'.slots ∧ c'.next = c.next ∧ Live c'.slots ptr b ∧
      ∀ q x, Live c'.slots q x → (Live c.slots q x ∨ (q = ptr ∧ x = b)) := by
  unfold put at hput
  by_cases hres : (c.count + c.deleted) * 2 > c.slots.length
  · simp only [hres, if_true] at hput
    -- resized
    have hr := reinsert_inv c.slots (List.replicate (tablen (2 * c.count + 1)) .empty) (Inv.replicate _)
    have hsub : ∀ q x, Live (resize c (tablen (2 * c.count + 1))).slots q x → Live c.slots q x := by
      intro q x hq
      rcases hr.2.2 q x hq with h1 | h1
      · exact absurd h1 (not_live_replicate _ _ _)
      · exact inOld_live h1
    have hno2 : ∀ q, ¬ Live (resize c (tablen (2 * c.count + 1))).slots q b := fun q hq => hno q (hsub q b hq)
    obtain ⟨r, hf, hb2⟩ := find_miss hno2
    simp only [hf] at hput
    cases r with
    | none => simp at hput
    | some bk =>
      simp only [Option.some.injEq] at hput
      obtain ⟨hlt, hfree, hreach⟩ := hb2 bk rfl
      have hins := Inv.insert (show Inv (resize c (tablen (2 * c.count + 1))).slots from hr.1) hno2 (ptr := ptr) hlt hfree hreach
      subst hput
      refine ⟨hins.1, rfl, (hins.2 ptr b).mpr (Or.inr ⟨rfl, rfl⟩), fun q x hq => ?_⟩
      rcases (hins.2 q x).mp hq with h1 | h1
      · exact Or.inl (hsub q x h1)
      · exact Or.inr h1
  · simp only [hres, if_false] at hput
    cases bucket with
    | none => simp at hput
    | some bk =>
      simp only [Option.some.injEq] at hput
      obtain ⟨hlt, hfree, hreach⟩ := hb bk rfl
      have hins := Inv.insert hinv hno (ptr := ptr) hlt hfree hreach
      subst hput
      exact ⟨hins.1, rfl, (hins.2 ptr b).mpr (Or.inr ⟨rfl, rfl⟩), fun q x hq => (hins.2 q x).mp hq⟩

/-- `janet_symbol` on bytes that are in the cache returns the existing address; nothing else changes -/
theorem intern_live {c : Cache} (h : CInv c) {p : Nat} {b : List UInt8} (hl : Live c.slots p b) :
    ∃ c', intern c b = some (c', p) ∧ CInv c' ∧ c'.next = c.next ∧ ∀ q x, Live c'.slots q x ↔ Live c.slots q x := by
  obtain ⟨i, hi⟩ := hl
  obtain ⟨sl', bkt, hf, hb, hinv', _, hlive'⟩ := find_hit h.inv hi
  unfold gd at hb
  refine ⟨{ c with slots := sl' }, by simp only [intern, hf, hb], ⟨hinv', fun q x hq => h.fresh q x ((hlive' q x).mp hq),
    fun q x x' h1 h2 => h.ptrInj q x x' ((hlive' q x).mp h1) ((hlive' q x').mp h2)⟩, rfl, hlive'⟩

/-- `janet_symbol` on bytes that are not in the cache allocates a fresh address (or trips the NULL-bucket assertion) -/
theorem intern_new {c : Cache} (h : CInv c) {b : List UInt8} (hno : ∀ q, ¬ Live c.slots q b) {c' : Cache} {p : Nat}
    (hi : intern c b = some (c', p)) :
    p = c.next ∧ CInv c' ∧ Live c'.slots p b ∧ ∀ q x, Live c'.slots q x → (Live c.slots q x ∨ (q = p ∧ x = b)) := by
  obtain ⟨r, hf, hb⟩ := find_miss hno
  cases r with
  | none => simp [intern, hf] at hi
  | some bk0 =>
  simp only [intern, hf, Option.map_eq_some_iff] at hi
  obtain ⟨c'', hput, he⟩ := hi
  simp only [Prod.mk.injEq] at he
  obtain ⟨he1, he2⟩ := he
  subst he1; subst he2
  have := put_spec (c := { c with slots := c.slots, next := c.next + 1 }) h.inv hno hb hput
  obtain ⟨hinv', hnext, hl, hsub⟩ := this
  refine ⟨rfl, ⟨hinv', fun q x hq => ?_, fun q x x' h1 h2 => ?_⟩, hl, hsub⟩
  · rw [hnext]
    rcases hsub q x hq with h1 | ⟨h1, _⟩
    · have := h.fresh q x h1; simp; omega
    · simp; omega
  · rcases hsub q x h1 with a | ⟨a1, a2⟩ <;> rcases hsub q x' h2 with b' | ⟨b1, b2⟩
    · exact h.ptrInj q x x' a b'
    · have := h.fresh q x a; omega
    · have := h.fresh q x' b'; omega
    · rw [a2, b2]


def isLive : Slot → Bool
  | .live _ _ => true
  | _ => false
def isOcc : Slot → Bool
  | .empty => false
  | _ => true

/-- number of symbols in the cache / number of non-empty slots -/
def liveCount (sl : List Slot) : Nat := sl.countP isLive
def occ (sl : List Slot) : Nat := sl.countP isOcc

theorem gd_cons_succ (a : Slot) (l : List Slot) (i : Nat) : gd (a :: l) (i + 1) = gd l i := by simp [gd]

theorem occ_lt_exists_empty : ∀ (sl : List Slot), occ sl < sl.length → ∃ i, i < sl.length ∧ gd sl i = .empty
  | [], h => by simp at h
  | a :: l, h => by
      cases a with
      | empty => exact ⟨0, by simp, by simp [gd]⟩
      | deleted =>
        have : occ l < l.length := by unfold occ at h ⊢; rw [List.countP_cons] at h; simp [isOcc] at h; omega
        obtain ⟨i, hi, he⟩ := occ_lt_exists_empty l this
        exact ⟨i + 1, by simp; omega, by rw [gd_cons_succ]; exact he⟩
      | live p b =>
        have : occ l < l.length := by unfold occ at h ⊢; rw [List.countP_cons] at h; simp [isOcc] at h; omega
        obtain ⟨i, hi, he⟩ := occ_lt_exists_empty l this
        exact ⟨i + 1, by simp; omega, by rw [gd_cons_succ]; exact he⟩

/-- the probe gives up (NULL bucket) only after seeing `fuel` live entries in a row -/
theorem findLoop_none (bytes : List UInt8) (cap index : Nat) (sl sl' : List Slot) :
    ∀ (fuel k0 : Nat) (fe : Option Nat), findLoop bytes cap index fuel k0 fe sl = (sl', .miss none) →
      ∀ k, k0 ≤ k → k < k0 + fuel → gd sl (pos cap index k) ≠ .empty := by
  intro fuel
  induction fuel with
  | zero => intro k0 fe _ k h1 h2; omega
  | succ fuel ih =>
    intro k0 fe h k h1 h2
    cases hs : gd sl (pos cap index k0) with
    | empty => rw [findLoop_empty hs] at h; simp at h
    | deleted =>
      rw [findLoop_deleted hs] at h
      by_cases hk : k = k0
      · subst hk; rw [hs]; simp
      · exact ih (k0 + 1) _ h k (by omega) (by omega)
    | live q b' =>
      by_cases hb : b' = bytes
      · subst hb; rw [findLoop_match hs] at h; cases fe <;> simp at h
      · rw [findLoop_other hs hb] at h
        by_cases hk : k = k0
        · subst hk; rw [hs]; simp
        · exact ih (k0 + 1) _ h k (by omega) (by omega)

/-- with a free slot somewhere a failed lookup always returns a bucket -/
theorem find_miss_some {sl : List Slot} {b : List UInt8} (hno : ∀ q, ¬ Live sl q b) (hocc : occ sl < sl.length) :
    ∃ bk, find sl b = (sl, .miss (some bk)) := by
  obtain ⟨r, hf, _⟩ := find_miss hno
  cases r with
  | some bk => exact ⟨bk, hf⟩
  | none =>
    exfalso
    obtain ⟨i, hi, he⟩ := occ_lt_exists_empty sl hocc
    have hcap : 0 < sl.length := by omega
    obtain ⟨k, hk, hp⟩ := pos_surj (home_lt hcap b) hi
    have := findLoop_none b sl.length (home sl.length b) sl sl sl.length 0 none hf k (Nat.zero_le _) (by omega)
    rw [hp] at this
    exact this he

theorem occ_set_le (sl : List Slot) (i : Nat) (v : Slot) : occ (sl.set i v) ≤ occ sl + 1 := by
  unfold occ
  by_cases h : i < sl.length
  · rw [List.countP_set h]; split <;> split <;> omega
  · rw [List.set_eq_of_length_le (by omega)]; omega

theorem liveCount_cons (a : Slot) (l : List Slot) : liveCount (a :: l) = (if isLive a then 1 else 0) + liveCount l := by
  unfold liveCount; rw [List.countP_cons]; omega

theorem occ_replicate (n : Nat) : occ (List.replicate n Slot.empty) = 0 := by
  unfold occ; simp [List.countP_replicate, isOcc]

theorem liveCount_set : ∀ (sl : List Slot) (i : Nat) (v : Slot), i < sl.length →
    liveCount (sl.set i v) + (if isLive (gd sl i) then 1 else 0) = liveCount sl + (if isLive v then 1 else 0)
  | [], _, _, h => by simp at h
  | a :: l, 0, v, _ => by simp only [List.set_cons_zero, liveCount_cons, gd]; simp; omega
  | a :: l, i + 1, v, h => by
      have := liveCount_set l i v (by simpa using h)
      simp only [List.set_cons_succ, liveCount_cons, gd_cons_succ]; omega

theorem liveCount_insert {sl : List Slot} {bk : Nat} (hlt : bk < sl.length) (hfree : gd sl bk = .empty ∨ gd sl bk = .deleted)
    (p : Nat) (b : List UInt8) : liveCount (sl.set bk (.live p b)) = liveCount sl + 1 := by
  have := liveCount_set sl bk (.live p b) hlt
  rcases hfree with h | h <;> rw [h] at this <;> simp [isLive] at this <;> omega

/-- the re-insertion loop of `janet_cache_resize` loses no symbol when the new array has room:
    every symbol of the old array, and everything already in the new one, is in the result -/
theorem reinsert_keeps : ∀ (old new : List Slot), Inv new →
    (∀ i j p q b, gd old i = .live p b → gd old j = .live q b → i = j) →
    (∀ i p b, gd old i = .live p b → ∀ q, ¬ Live new q b) →
    occ new + liveCount old ≤ new.length →
    (∀ q c, Live new q c → Live (reinsert old new) q c) ∧
    (∀ i p b, gd old i = .live p b → Live (reinsert old new) p b) ∧
    occ (reinsert old new) ≤ occ new + liveCount old ∧
    liveCount (reinsert old new) = liveCount new + liveCount old
  | [], new, _, _, _, _ => ⟨fun q c h => h, fun i p b h => by simp [gd] at h, by simp [reinsert, liveCount], by simp [reinsert, liveCount]⟩
  | .empty :: rest, new, hinv, hnd, hdis, hroom => by
      have ih := reinsert_keeps rest new hinv (fun i j p q b h1 h2 => by
          have := hnd (i + 1) (j + 1) p q b (by rw [gd_cons_succ]; exact h1) (by rw [gd_cons_succ]; exact h2); omega)
        (fun i p b h => hdis (i + 1) p b (by rw [gd_cons_succ]; exact h))
        (by rw [liveCount_cons] at hroom; simp [isLive] at hroom; exact hroom)
      simp only [reinsert]
      refine ⟨ih.1, fun i p b h => ?_, by rw [liveCount_cons]; simp [isLive]; exact ih.2.2.1,
        by rw [liveCount_cons]; simp [isLive]; exact ih.2.2.2⟩
      cases i with
      | zero => simp [gd] at h
      | succ i => exact ih.2.1 i p b (by rw [gd_cons_succ] at h; exact h)
  | .deleted :: rest, new, hinv, hnd, hdis, hroom => by
      have ih := reinsert_keeps rest new hinv (fun i j p q b h1 h2 => by
          have := hnd (i + 1) (j + 1) p q b (by rw [gd_cons_succ]; exact h1) (by rw [gd_cons_succ]; exact h2); omega)
        (fun i p b h => hdis (i + 1) p b (by rw [gd_cons_succ]; exact h))
        (by rw [liveCount_cons] at hroom; simp [isLive] at hroom; exact hroom)
      simp only [reinsert]
      refine ⟨ih.1, fun i p b h => ?_, by rw [liveCount_cons]; simp [isLive]; exact ih.2.2.1,
        by rw [liveCount_cons]; simp [isLive]; exact ih.2.2.2⟩
      cases i with
      | zero => simp [gd] at h
      | succ i => exact ih.2.1 i p b (by rw [gd_cons_succ] at h; exact h)
  | .live p0 b0 :: rest, new, hinv, hnd, hdis, hroom => by
      have hno : ∀ q, ¬ Live new q b0 := hdis 0 p0 b0 (by simp [gd])
      rw [liveCount_cons] at hroom
      simp only [isLive, if_true] at hroom
      obtain ⟨bk, hf⟩ := find_miss_some hno (by omega)
      obtain ⟨r, hf', hb⟩ := find_miss hno
      rw [hf] at hf'
      have hr : r = some bk := by simpa using hf'.symm
      obtain ⟨hlt, hfree, hreach⟩ := hb bk hr
      have hins := Inv.insert hinv hno (ptr := p0) hlt hfree hreach
      have ih := reinsert_keeps rest (new.set bk (.live p0 b0)) hins.1
        (fun i j p q b h1 h2 => by
          have := hnd (i + 1) (j + 1) p q b (by rw [gd_cons_succ]; exact h1) (by rw [gd_cons_succ]; exact h2); omega)
        (fun i p b h q hl => by
          rcases (hins.2 q b).mp hl with h1 | ⟨_, h2⟩
          · exact hdis (i + 1) p b (by rw [gd_cons_succ]; exact h) q h1
          · subst h2
            have := hnd (i + 1) 0 p p0 b (by rw [gd_cons_succ]; exact h) (by simp [gd]); omega)
        (by have := occ_set_le new bk (.live p0 b0); simp; omega)
      simp only [reinsert, hf]
      refine ⟨fun q c h => ih.1 q c ((hins.2 q c).mpr (Or.inl h)), fun i p b h => ?_, ?_, ?_⟩
      · cases i with
        | zero =>
          simp [gd] at h
          obtain ⟨h1, h2⟩ := h; subst h1; subst h2
          exact ih.1 p0 b0 ((hins.2 p0 b0).mpr (Or.inr ⟨rfl, rfl⟩))
        | succ i => exact ih.2.1 i p b (by rw [gd_cons_succ] at h; exact h)
      · have := occ_set_le new bk (.live p0 b0)
        have := ih.2.2.1
        rw [liveCount_cons]; simp only [isLive, if_true]; omega
      · have := liveCount_insert hlt hfree p0 b0
        have := ih.2.2.2
        rw [liveCount_cons]; simp only [isLive, if_true]; omega


@[simp] theorem isLive_live (p : Nat) (b : List UInt8) : isLive (.live p b) = true := rfl
@[simp] theorem isLive_deleted : isLive .deleted = false := rfl
@[simp] theorem isLive_empty : isLive .empty = false := rfl
theorem liveCount_replicate (n : Nat) : liveCount (List.replicate n Slot.empty) = 0 := by
  simp [liveCount, List.countP_replicate]

theorem vacatedByMove_isLive : isLive vacatedByMove = false := by unfold vacatedByMove; split <;> rfl
theorem vacatedByDeinit_isLive : isLive vacatedByDeinit = false := by unfold vacatedByDeinit; split <;> rfl

/-- a successful lookup (with or without the move into a tombstone) does not change the number of symbols -/
theorem find_hit_count {sl : List Slot} (hinv : Inv sl) {i p : Nat} {b : List UInt8} (hlive : gd sl i = .live p b)
    {sl' : List Slot} {r : Found} (hf : find sl b = (sl', r)) : liveCount sl' = liveCount sl := by
  obtain ⟨d, hd, hi, hpath⟩ := hinv.chain i p b hlive
  have hcap : 0 < sl.length := by omega
  have hh := home_lt hcap b
  rw [hi] at hlive
  have hother : ∀ k, 0 ≤ k → k < d → gd sl (pos sl.length (home sl.length b) k) ≠ .empty ∧
      ∀ q, gd sl (pos sl.length (home sl.length b) k) ≠ .live q b := by
    intro k _ hk
    refine ⟨hpath k hk, fun q hq => ?_⟩
    have := pos_inj hh (by omega) hd (hinv.nodup _ _ _ _ _ hq hlive)
    omega
  have := findLoop_hit b sl.length (home sl.length b) sl p d hlive sl.length 0 none (Nat.zero_le _) (by omega) hother
  unfold find at hf
  rcases this with ⟨h1, _, _⟩ | ⟨f, h1, hor⟩
  · rw [h1] at hf; cases hf; rfl
  · rcases hor with h | ⟨_, j, _, hj2, hj3, hj4⟩
    · cases h
    · rw [h1] at hf; cases hf
      have hf_lt : f < sl.length := by rw [hj3]; exact pos_lt hh (by omega)
      have hi_lt : pos sl.length (home sl.length b) d < sl.length := pos_lt hh hd
      have hne : f ≠ pos sl.length (home sl.length b) d := by
        rw [hj3]; intro e; have := pos_inj hh (by omega) hd e; omega
      have e1 := liveCount_set sl f (.live p b) hf_lt
      have e2 := liveCount_set (sl.set f (.live p b)) (pos sl.length (home sl.length b) d) vacatedByMove (by simpa using hi_lt)
      rw [gd_set] at e2
      simp only [hne, false_and, if_false, hlive, isLive_live, if_true, vacatedByMove_isLive, Bool.false_eq_true] at e2
      rw [hj4] at e1
      simp only [isLive_deleted, isLive_live, if_true, if_false, Bool.false_eq_true] at e1
      omega

/-- full invariant of the cache state -/
structure CInvC (c : Cache) : Prop extends CInv c where
  cnt : c.count = liveCount c.slots

theorem init_invC : CInvC init :=
  { toCInv := init_inv, cnt := by simp [init, liveCount_replicate] }

theorem deinit_cnt {c : Cache} (h : CInvC c) (b : List UInt8) : CInvC (deinit c b) := by
  refine { toCInv := (deinit_spec h.toCInv b).1, cnt := ?_ }
  by_cases hex : ∃ q, Live c.slots q b
  · obtain ⟨q, i, hi⟩ := hex
    obtain ⟨sl', bkt, hf, hb, _, _, _⟩ := find_hit h.inv hi
    have hc := find_hit_count h.inv hi hf
    have hlt : bkt < sl'.length := gd_lt (by rw [hb]; simp)
    have e := liveCount_set sl' bkt vacatedByDeinit hlt
    rw [hb] at e
    simp only [isLive_live, if_true, vacatedByDeinit_isLive, if_false, Bool.false_eq_true] at e
    simp only [deinit, hf]
    have := h.cnt
    omega
  · have hno : ∀ q, ¬ Live c.slots q b := fun q hq => hex ⟨q, hq⟩
    obtain ⟨r, hf, _⟩ := find_miss hno
    simp only [deinit, hf]; exact h.cnt

theorem tablen_gt (n : Nat) : n < tablen n := by
  unfold tablen
  have : ∀ (l : List Nat) (m : Nat), m ≤ l.foldl (fun n s => n ||| (n >>> s)) m := by
    intro l
    induction l with
    | nil => intro m; exact Nat.le_refl _
    | cons s l ih => intro m; exact Nat.le_trans Nat.left_le_or (ih _)
  have := this tablenShifts n
  omega

/-- `janet_symcache_put` with the counter in step: the new symbol is added, no symbol is lost (also across a resize) -/
theorem put_specC {c : Cache} (hinv : Inv c.slots) (hcnt : c.count = liveCount c.slots) {b : List UInt8}
    (hno : ∀ q, ¬ Live c.slots q b) {ptr : Nat} {bucket : Option Nat}
    (hb : ∀ bk, bucket = some bk → bk < c.slots.length ∧ (gd c.slots bk = .empty ∨ gd c.slots bk = .deleted) ∧ Reach c.slots b bk)
    {c' : Cache} (hput : put c ptr b bucket = some c') :
    c'.count = liveCount c'.slots ∧ ∀ q x, Live c'.slots q x ↔ (Live c.slots q x ∨ (q = ptr ∧ x = b)) := by
  have hps := put_spec hinv hno hb hput
  unfold put at hput
  by_cases hres : (c.count + c.deleted) * 2 > c.slots.length
  · simp only [hres, if_true] at hput
    have hroom : occ (List.replicate (tablen (2 * c.count + 1)) Slot.empty) + liveCount c.slots ≤
        (List.replicate (tablen (2 * c.count + 1)) Slot.empty).length := by
      have := tablen_gt (2 * c.count + 1)
      rw [occ_replicate]; simp; omega
    have hk := reinsert_keeps c.slots (List.replicate (tablen (2 * c.count + 1)) .empty) (Inv.replicate _)
      hinv.nodup (fun i p b' _ q => not_live_replicate _ _ _) hroom
    have hr := reinsert_inv c.slots (List.replicate (tablen (2 * c.count + 1)) .empty) (Inv.replicate _)
    have hno2 : ∀ q, ¬ Live (resize c (tablen (2 * c.count + 1))).slots q b := by
      intro q hq
      rcases hr.2.2 q b hq with h1 | h1
      · exact not_live_replicate _ _ _ h1
      · exact hno q (inOld_live h1)
    obtain ⟨r, hf, hb2⟩ := find_miss hno2
    simp only [hf] at hput
    cases r with
    | none => simp at hput
    | some bk =>
      simp only [Option.some.injEq] at hput
      obtain ⟨hlt, hfree, _⟩ := hb2 bk rfl
      subst hput
      refine ⟨?_, fun q x => ⟨hps.2.2.2 q x, ?_⟩⟩
      · have := liveCount_insert hlt hfree ptr b
        have h4 := hk.2.2.2
        rw [liveCount_replicate] at h4
        simp only [resize] at this ⊢
        omega
      · rintro (⟨y, hy⟩ | ⟨h1, h2⟩)
        · have hl := hk.2.1 y q x hy
          have hins := Inv.insert (show Inv (resize c (tablen (2 * c.count + 1))).slots from hr.1) hno2 (ptr := ptr) hlt hfree (hb2 bk rfl).2.2
          exact (hins.2 q x).mpr (Or.inl hl)
        · subst h1; subst h2; exact hps.2.2.1
  · simp only [hres, if_false] at hput
    cases bucket with
    | none => simp at hput
    | some bk =>
      simp only [Option.some.injEq] at hput
      obtain ⟨hlt, hfree, hreach⟩ := hb bk rfl
      have hins := Inv.insert hinv hno (ptr := ptr) hlt hfree hreach
      subst hput
      exact ⟨by have := liveCount_insert hlt hfree ptr b; simp only []; omega, fun q x => hins.2 q x⟩


theorem intern_liveC {c : Cache} (h : CInvC c) {p : Nat} {b : List UInt8} (hl : Live c.slots p b) :
    ∃ c', intern c b = some (c', p) ∧ CInvC c' ∧ ∀ q x, Live c'.slots q x ↔ Live c.slots q x := by
  obtain ⟨i, hi⟩ := hl
  obtain ⟨sl', bkt, hf, hb, hinv', _, hlive'⟩ := find_hit h.inv hi
  have hc := find_hit_count h.inv hi hf
  unfold gd at hb
  refine ⟨{ c with slots := sl' }, by simp only [intern, hf, hb], ?_, hlive'⟩
  exact { inv := hinv', fresh := fun q x hq => h.fresh q x ((hlive' q x).mp hq),
          ptrInj := fun q x x' h1 h2 => h.ptrInj q x x' ((hlive' q x).mp h1) ((hlive' q x').mp h2),
          cnt := by simp only []; rw [hc]; exact h.cnt }

theorem intern_newC {c : Cache} (h : CInvC c) {b : List UInt8} (hno : ∀ q, ¬ Live c.slots q b) {c' : Cache} {p : Nat}
    (hi : intern c b = some (c', p)) :
    p = c.next ∧ CInvC c' ∧ ∀ q x, Live c'.slots q x ↔ (Live c.slots q x ∨ (q = p ∧ x = b)) := by
  have hn := intern_new h.toCInv hno hi
  obtain ⟨r, hf, hb⟩ := find_miss hno
  cases r with
  | none => simp [intern, hf] at hi
  | some bk0 =>
  simp only [intern, hf, Option.map_eq_some_iff] at hi
  obtain ⟨c'', hput, he⟩ := hi
  simp only [Prod.mk.injEq] at he
  obtain ⟨he1, he2⟩ := he
  subst he1; subst he2
  have := put_specC (c := { c with slots := c.slots, next := c.next + 1 }) h.inv h.cnt hno hb hput
  exact ⟨rfl, { toCInv := hn.2.1, cnt := this.1 }, this.2⟩

/-- ghost state: the byte strings interned and not swept since -/
def aliveAfter : List (List UInt8) → List Op → List (List UInt8)
  | s, [] => s
  | s, .intern b :: ops => aliveAfter (if b ∈ s then s else b :: s) ops
  | s, .sweep b :: ops => aliveAfter (s.filter (· ≠ b)) ops

/-- along any history the invariant holds and the cache contains exactly the symbols interned and not swept since -/
theorem run_spec : ∀ (ops : List Op) (c : Cache) (s : List (List UInt8)) (c' : Cache), CInvC c →
    (∀ b, (∃ p, Live c.slots p b) ↔ b ∈ s) → run c ops = some c' →
    CInvC c' ∧ ∀ b, (∃ p, Live c'.slots p b) ↔ b ∈ aliveAfter s ops
  | [], c, s, c', h, hs, hr => by simp only [run, Option.some.injEq] at hr; subst hr; exact ⟨h, hs⟩
  | .intern b :: ops, c, s, c', h, hs, hr => by
      simp only [run] at hr
      cases hi : intern c b with
      | none => simp [hi] at hr
      | some r =>
        obtain ⟨c1, p1⟩ := r
        simp only [hi] at hr
        by_cases hex : ∃ p, Live c.slots p b
        · obtain ⟨p, hp⟩ := hex
          obtain ⟨c1', hi', hinv1, hl1⟩ := intern_liveC h hp
          rw [hi] at hi'; simp only [Option.some.injEq, Prod.mk.injEq] at hi'
          obtain ⟨e1, _⟩ := hi'; subst e1
          refine run_spec ops c1 _ c' hinv1 (fun x => ?_) hr
          have hb : b ∈ s := (hs b).mp ⟨p, hp⟩
          simp only [hb, if_true]
          rw [← hs x]; exact ⟨fun ⟨q, hq⟩ => ⟨q, (hl1 q x).mp hq⟩, fun ⟨q, hq⟩ => ⟨q, (hl1 q x).mpr hq⟩⟩
        · have hno : ∀ q, ¬ Live c.slots q b := fun q hq => hex ⟨q, hq⟩
          obtain ⟨_, hinv1, hl1⟩ := intern_newC h hno hi
          refine run_spec ops c1 _ c' hinv1 (fun x => ?_) hr
          have hb : b ∉ s := fun hb => hex ((hs b).mpr hb)
          simp only [hb, if_false, List.mem_cons]
          constructor
          · rintro ⟨q, hq⟩
            rcases (hl1 q x).mp hq with h1 | ⟨_, h2⟩
            · exact Or.inr ((hs x).mp ⟨q, h1⟩)
            · exact Or.inl h2
          · rintro (h1 | h1)
            · subst h1; exact ⟨p1, (hl1 p1 x).mpr (Or.inr ⟨rfl, rfl⟩)⟩
            · obtain ⟨q, hq⟩ := (hs x).mpr h1
              exact ⟨q, (hl1 q x).mpr (Or.inl hq)⟩
  | .sweep b :: ops, c, s, c', h, hs, hr => by
      simp only [run] at hr
      have hd := deinit_spec h.toCInv b
      refine run_spec ops (deinit c b) _ c' (deinit_cnt h b) (fun x => ?_) hr
      simp only [List.mem_filter, decide_eq_true_eq]
      rw [← hs x]
      constructor
      · rintro ⟨q, hq⟩; exact ⟨⟨q, ((hd.2 q x).mp hq).1⟩, ((hd.2 q x).mp hq).2⟩
      · rintro ⟨⟨q, hq⟩, hne⟩; exact ⟨q, (hd.2 q x).mpr ⟨hq, hne⟩⟩

/-- a symbol stays at its address as long as it is not swept -/
theorem live_stable : ∀ (ops : List Op) (c c' : Cache) (p : Nat) (b : List UInt8), CInvC c → Live c.slots p b →
    run c ops = some c' → (∀ o ∈ ops, o ≠ Op.sweep b) → Live c'.slots p b
  | [], c, c', p, b, _, hl, hr, _ => by simp only [run, Option.some.injEq] at hr; subst hr; exact hl
  | .intern b0 :: ops, c, c', p, b, h, hl, hr, hns => by
      simp only [run] at hr
      cases hi : intern c b0 with
      | none => simp [hi] at hr
      | some r =>
        obtain ⟨c1, p1⟩ := r
        simp only [hi] at hr
        have hns' : ∀ o ∈ ops, o ≠ Op.sweep b := fun o ho => hns o (List.mem_cons_of_mem _ ho)
        by_cases hex : ∃ q, Live c.slots q b0
        · obtain ⟨q, hq⟩ := hex
          obtain ⟨c1', hi', hinv1, hl1⟩ := intern_liveC h hq
          rw [hi] at hi'; simp only [Option.some.injEq, Prod.mk.injEq] at hi'
          obtain ⟨e1, _⟩ := hi'; subst e1
          exact live_stable ops c1 c' p b hinv1 ((hl1 p b).mpr hl) hr hns'
        · have hno : ∀ q, ¬ Live c.slots q b0 := fun q hq => hex ⟨q, hq⟩
          obtain ⟨_, hinv1, hl1⟩ := intern_newC h hno hi
          exact live_stable ops c1 c' p b hinv1 ((hl1 p b).mpr (Or.inl hl)) hr hns'
  | .sweep b0 :: ops, c, c', p, b, h, hl, hr, hns => by
      simp only [run] at hr
      have hne : b ≠ b0 := fun e => hns (.sweep b0) (List.mem_cons_self ..) (by rw [e])
      have hd := deinit_spec h.toCInv b0
      exact live_stable ops (deinit c b0) c' p b (deinit_cnt h b0) ((hd.2 p b).mpr ⟨hl, hne⟩) hr
        (fun o ho => hns o (List.mem_cons_of_mem _ ho))

/-- the invariant holds along any history -/
theorem run_inv : ∀ (ops : List Op) (c c' : Cache), CInvC c → run c ops = some c' → CInvC c'
  | [], c, c', h, hr => by simp only [run, Option.some.injEq] at hr; subst hr; exact h
  | .intern b :: ops, c, c', h, hr => by
      simp only [run] at hr
      cases hi : intern c b with
      | none => simp [hi] at hr
      | some r =>
        obtain ⟨c1, p1⟩ := r
        simp only [hi] at hr
        by_cases hex : ∃ p, Live c.slots p b
        · obtain ⟨p, hp⟩ := hex
          obtain ⟨c1', hi', hinv1, _⟩ := intern_liveC h hp
          rw [hi] at hi'; simp only [Option.some.injEq, Prod.mk.injEq] at hi'
          obtain ⟨e1, _⟩ := hi'; subst e1
          exact run_inv ops c1 c' hinv1 hr
        · have hno : ∀ q, ¬ Live c.slots q b := fun q hq => hex ⟨q, hq⟩
          exact run_inv ops c1 c' (intern_newC h hno hi).2.1 hr
  | .sweep b :: ops, c, c', h, hr => by
      simp only [run] at hr
      exact run_inv ops (deinit c b) c' (deinit_cnt h b) hr

/-- after `intern` the symbol is cached at the returned address -/
theorem intern_post {c c1 : Cache} {b : List UInt8} {p1 : Nat} (hc : CInvC c) (h1 : intern c b = some (c1, p1)) :
    CInvC c1 ∧ Live c1.slots p1 b ∧ ((∀ q, ¬ Live c.slots q b) → p1 = c.next) ∧ (∀ q, Live c.slots q b → q = p1) := by
  by_cases hex : ∃ q, Live c.slots q b
  · obtain ⟨q, hq⟩ := hex
    obtain ⟨c1', hi', hinv1, hl1⟩ := intern_liveC hc hq
    rw [h1] at hi'; simp only [Option.some.injEq, Prod.mk.injEq] at hi'
    obtain ⟨e1, e2⟩ := hi'; subst e1; subst e2
    refine ⟨hinv1, (hl1 _ _).mpr hq, fun hno => absurd hq (hno _), fun q' hq' => ?_⟩
    obtain ⟨i, hi⟩ := hq; obtain ⟨j, hj⟩ := hq'
    have := hc.inv.nodup i j _ _ b hi hj
    subst this; rw [hi] at hj; cases hj; rfl
  · have hno : ∀ q, ¬ Live c.slots q b := fun q hq => hex ⟨q, hq⟩
    obtain ⟨hp, hinv1, hl1⟩ := intern_newC hc hno h1
    exact ⟨hinv1, (hl1 _ _).mpr (Or.inr ⟨rfl, rfl⟩), fun _ => hp, fun q hq => absurd hq (hno q)⟩

end JanetModel.Value.SymCache
