/- C03 — the symbol cache keeps interned symbols unique: invariants of `SymCache` and their preservation. -/
import JanetModel.Value.SymCache

namespace JanetModel.Value.SymCache
open JanetModel.Gen.Value JanetModel.Value

/-! ### probe positions -/

theorem pos_lt {cap index k : Nat} (hi : index < cap) (hk : k < cap) : pos cap index k < cap := by
  unfold pos; split <;> omega

theorem pos_inj {cap index j k : Nat} (hi : index < cap) (hj : j < cap) (hk : k < cap)
    (h : pos cap index j = pos cap index k) : j = k := by
  unfold pos at h; split at h <;> split at h <;> omega

theorem pos_surj {cap index i : Nat} (hi : index < cap) (h : i < cap) : ∃ k, k < cap ∧ pos cap index k = i := by
  by_cases hge : index ≤ i
  · exact ⟨i - index, by omega, by unfold pos; split <;> omega⟩
  · exact ⟨i + cap - index, by omega, by unfold pos; split <;> omega⟩

theorem home_lt {cap : Nat} (h : 0 < cap) (b : List UInt8) : home cap b < cap := Nat.mod_lt _ h

/-! ### slots -/

abbrev gd (sl : List Slot) (i : Nat) : Slot := sl.getD i .empty

theorem gd_set (sl : List Slot) (i j : Nat) (a : Slot) :
    gd (sl.set i a) j = if i = j ∧ i < sl.length then a else gd sl j := by
  unfold gd
  simp only [List.getD_eq_getElem?_getD, List.getElem?_set]
  by_cases h : i = j
  · subst h
    by_cases h2 : i < sl.length
    · simp [h2]
    · simp [h2]
  · simp [h]

theorem gd_lt {sl : List Slot} {i : Nat} (h : gd sl i ≠ .empty) : i < sl.length := by
  unfold gd at h
  by_cases hl : i < sl.length
  · exact hl
  · simp [List.getD_eq_getElem?_getD, List.getElem?_eq_none (by omega : sl.length ≤ i)] at h

theorem vacatedByMove_ne : vacatedByMove ≠ .empty := by simp [vacatedByMove]
theorem vacatedByDeinit_ne : vacatedByDeinit ≠ .empty := by simp [vacatedByDeinit]
theorem vacatedByMove_not_live (p : Nat) (b : List UInt8) : vacatedByMove ≠ .live p b := by
  unfold vacatedByMove; split <;> simp
theorem vacatedByDeinit_not_live (p : Nat) (b : List UInt8) : vacatedByDeinit ≠ .live p b := by
  unfold vacatedByDeinit; split <;> simp

/-- the probe path from the home of `b` reaches slot `i` without crossing an empty slot -/
def Reach (sl : List Slot) (b : List UInt8) (i : Nat) : Prop :=
  ∃ d, d < sl.length ∧ i = pos sl.length (home sl.length b) d ∧
    ∀ k, k < d → gd sl (pos sl.length (home sl.length b) k) ≠ .empty

/-- invariant of `janet_vm.cache` -/
structure Inv (sl : List Slot) : Prop where
  /-- no two live entries with the same bytes -/
  nodup : ∀ i j p q b, gd sl i = .live p b → gd sl j = .live q b → i = j
  /-- probe-chain: every live entry is reachable from its home slot without crossing an empty slot -/
  chain : ∀ i p b, gd sl i = .live p b → Reach sl b i

theorem Reach.mono {sl sl' : List Slot} {b : List UInt8} {i : Nat} (hl : sl'.length = sl.length)
    (hm : ∀ y, gd sl y ≠ .empty → gd sl' y ≠ .empty) (h : Reach sl b i) : Reach sl' b i := by
  obtain ⟨d, hd, hi, hk⟩ := h
  exact ⟨d, by omega, by rw [hl]; exact hi, fun k hk' => by rw [hl]; exact hm _ (hk k hk')⟩


theorem findLoop_empty {bytes : List UInt8} {cap index fuel k : Nat} {fe : Option Nat} {sl : List Slot}
    (h : gd sl (pos cap index k) = .empty) :
    findLoop bytes cap index (fuel + 1) k fe sl = (sl, .miss (some (fe.getD (pos cap index k)))) := by
  unfold findLoop; simp only [gd] at h; simp only [h]

theorem findLoop_deleted {bytes : List UInt8} {cap index fuel k : Nat} {fe : Option Nat} {sl : List Slot}
    (h : gd sl (pos cap index k) = .deleted) :
    findLoop bytes cap index (fuel + 1) k fe sl = findLoop bytes cap index fuel (k + 1) (some (fe.getD (pos cap index k))) sl := by
  rw [findLoop]; simp only [gd] at h; simp only [h]

theorem findLoop_other {bytes : List UInt8} {cap index fuel k : Nat} {fe : Option Nat} {sl : List Slot} {q : Nat} {b : List UInt8}
    (h : gd sl (pos cap index k) = .live q b) (hne : b ≠ bytes) :
    findLoop bytes cap index (fuel + 1) k fe sl = findLoop bytes cap index fuel (k + 1) fe sl := by
  rw [findLoop]; simp only [gd] at h; simp only [h, hne, if_false]

theorem findLoop_match {bytes : List UInt8} {cap index fuel k : Nat} {fe : Option Nat} {sl : List Slot} {q : Nat}
    (h : gd sl (pos cap index k) = .live q bytes) :
    findLoop bytes cap index (fuel + 1) k fe sl =
      match fe with
      | some f => ((sl.set f (.live q bytes)).set (pos cap index k) vacatedByMove, .hit f)
      | none => (sl, .hit (pos cap index k)) := by
  rw [findLoop]; simp only [gd] at h; simp only [h, if_true]; cases fe <;> rfl

/-- `findLoop` when the bytes are live at probe number `d` and nothing before it stops the probe -/
theorem findLoop_hit (bytes : List UInt8) (cap index : Nat) (sl : List Slot) (p d : Nat)
    (hlive : gd sl (pos cap index d) = .live p bytes) :
    ∀ (fuel k0 : Nat) (fe : Option Nat), k0 ≤ d → d < k0 + fuel →
      (∀ k, k0 ≤ k → k < d → gd sl (pos cap index k) ≠ .empty ∧ ∀ q, gd sl (pos cap index k) ≠ .live q bytes) →
      (findLoop bytes cap index fuel k0 fe sl = (sl, .hit (pos cap index d)) ∧ fe = none ∧
          ∀ k, k0 ≤ k → k < d → gd sl (pos cap index k) ≠ .deleted) ∨
      (∃ f, findLoop bytes cap index fuel k0 fe sl =
            ((sl.set f (.live p bytes)).set (pos cap index d) vacatedByMove, .hit f) ∧
          (fe = some f ∨ (fe = none ∧ ∃ j, k0 ≤ j ∧ j < d ∧ f = pos cap index j ∧ gd sl f = .deleted))) := by
  intro fuel
  induction fuel with
  | zero => intro k0 fe h1 h2; omega
  | succ fuel ih =>
    intro k0 fe h1 h2 hpath
    by_cases hk : k0 = d
    · subst hk
      rw [findLoop_match hlive]
      cases fe with
      | none => left; exact ⟨rfl, rfl, fun k a b => by omega⟩
      | some f => right; exact ⟨f, rfl, Or.inl rfl⟩
    · have hlt : k0 < d := by omega
      have hp := hpath k0 (Nat.le_refl _) hlt
      cases hs : gd sl (pos cap index k0) with
      | empty => exact absurd hs hp.1
      | deleted =>
        rw [findLoop_deleted hs]
        have := ih (k0 + 1) (some (fe.getD (pos cap index k0))) (by omega) (by omega) (fun k a b => hpath k (by omega) b)
        rcases this with ⟨_, h, _⟩ | ⟨f, hf, hor⟩
        · cases h
        · right
          refine ⟨f, hf, ?_⟩
          rcases hor with h | ⟨h, _⟩
          · cases fe with
            | none =>
              right
              simp at h
              exact ⟨rfl, k0, Nat.le_refl _, hlt, h.symm, by rw [← h]; exact hs⟩
            | some g => left; simp at h; rw [h]
          · cases h
      | live q b =>
        have hne : b ≠ bytes := fun e => hp.2 q (by rw [← e]; exact hs)
        rw [findLoop_other hs hne]
        have := ih (k0 + 1) fe (by omega) (by omega) (fun k a b => hpath k (by omega) b)
        rcases this with ⟨h1', h2', h3'⟩ | ⟨f, hf, hor⟩
        · left
          refine ⟨h1', h2', fun k a b => ?_⟩
          by_cases hkk : k = k0
          · subst hkk; rw [hs]; simp
          · exact h3' k (by omega) b
        · right
          refine ⟨f, hf, ?_⟩
          rcases hor with h | ⟨h, j, hj1, hj2, hj3, hj4⟩
          · exact Or.inl h
          · exact Or.inr ⟨h, j, by omega, hj2, hj3, hj4⟩

/-- `findLoop` when no live entry has these bytes: nothing changes, and the returned bucket (if any) is the first
    tombstone on the probe path or the empty slot ending it -/
theorem findLoop_miss (bytes : List UInt8) (cap index : Nat) (sl : List Slot) (hno : ∀ i q, gd sl i ≠ .live q bytes) :
    ∀ (fuel k0 : Nat) (fe : Option Nat), ∃ r, findLoop bytes cap index fuel k0 fe sl = (sl, .miss r) ∧
      ∀ b, r = some b → fe = some b ∨
        (fe = none ∧ ∃ j, k0 ≤ j ∧ j < k0 + fuel ∧ b = pos cap index j ∧ (gd sl b = .empty ∨ gd sl b = .deleted) ∧
          ∀ k, k0 ≤ k → k < j → gd sl (pos cap index k) ≠ .empty) := by
  intro fuel
  induction fuel with
  | zero => intro k0 fe; exact ⟨fe, rfl, fun b h => Or.inl h⟩
  | succ fuel ih =>
    intro k0 fe
    cases hs : gd sl (pos cap index k0) with
    | empty =>
      rw [findLoop_empty hs]
      refine ⟨_, rfl, fun b h => ?_⟩
      cases fe with
      | some f => left; simpa using h
      | none =>
        right
        simp at h
        exact ⟨rfl, k0, Nat.le_refl _, by omega, h.symm, Or.inl (by rw [← h]; exact hs), fun k a b => by omega⟩
    | deleted =>
      rw [findLoop_deleted hs]
      obtain ⟨r, hr, hb⟩ := ih (k0 + 1) (some (fe.getD (pos cap index k0)))
      refine ⟨r, hr, fun b h => ?_⟩
      rcases hb b h with h' | ⟨h', _⟩
      · cases fe with
        | some f => left; simpa using h'
        | none =>
          right
          simp at h'
          exact ⟨rfl, k0, Nat.le_refl _, by omega, h'.symm, Or.inr (by rw [← h']; exact hs), fun k a b => by omega⟩
      · cases h'
    | live q b' =>
      have hne : b' ≠ bytes := fun e => hno _ q (by rw [← e]; exact hs)
      rw [findLoop_other hs hne]
      obtain ⟨r, hr, hb⟩ := ih (k0 + 1) fe
      refine ⟨r, hr, fun b h => ?_⟩
      rcases hb b h with h' | ⟨h', j, hj1, hj2, hj3, hj4, hj5⟩
      · exact Or.inl h'
      · right
        refine ⟨h', j, by omega, by omega, hj3, hj4, fun k a c => ?_⟩
        by_cases hk : k = k0
        · subst hk; rw [hs]; simp
        · exact hj5 k (by omega) c


/-- the symbol with address `q` and bytes `c` is in the cache -/
def Live (sl : List Slot) (q : Nat) (c : List UInt8) : Prop := ∃ y, gd sl y = .live q c

/-- moving a live entry from probe number `d` into a tombstone at an earlier probe number keeps the invariant -/
theorem Inv.move {sl : List Slot} (hinv : Inv sl) {p : Nat} {b : List UInt8} {d j : Nat}
    (hd : d < sl.length) (hj : j < d)
    (hlive : gd sl (pos sl.length (home sl.length b) d) = .live p b)
    (hdel : gd sl (pos sl.length (home sl.length b) j) = .deleted)
    (hpath : ∀ k, k < d → gd sl (pos sl.length (home sl.length b) k) ≠ .empty) :
    let f := pos sl.length (home sl.length b) j
    let i := pos sl.length (home sl.length b) d
    let sl' := (sl.set f (.live p b)).set i vacatedByMove
    Inv sl' ∧ sl'.length = sl.length ∧ gd sl' f = .live p b ∧ (∀ q c, Live sl' q c ↔ Live sl q c) := by
  intro f i sl'
  have hcap : 0 < sl.length := by omega
  have hh := home_lt hcap b
  have hfi : f ≠ i := fun e => by have := pos_inj hh (by omega) hd e; omega
  have hf_lt : f < sl.length := pos_lt hh (by omega)
  have hi_lt : i < sl.length := pos_lt hh hd
  have hlen : sl'.length = sl.length := by simp [sl']
  have hg : ∀ y, gd sl' y = if y = i then vacatedByMove else if y = f then .live p b else gd sl y := by
    intro y
    simp only [sl', gd_set, List.length_set]
    by_cases h1 : y = i
    · subst h1; simp [hi_lt]
    · by_cases h2 : y = f
      · subst h2; simp [hf_lt, Ne.symm h1, h1]
      · simp [h1, h2, Ne.symm h1, Ne.symm h2]
  have hmono : ∀ y, gd sl y ≠ .empty → gd sl' y ≠ .empty := by
    intro y hy
    rw [hg]
    split
    · exact vacatedByMove_ne
    · split
      · simp
      · exact hy
  have hgf : gd sl' f = .live p b := by rw [hg]; simp [hfi]
  refine ⟨⟨?_, ?_⟩, hlen, hgf, ?_⟩
  · -- nodup
    intro x y q1 q2 c hx hy
    rw [hg] at hx hy
    by_cases hxi : x = i
    · simp [hxi] at hx; exact absurd hx (vacatedByMove_not_live _ _)
    · by_cases hyi : y = i
      · simp [hyi] at hy; exact absurd hy (vacatedByMove_not_live _ _)
      · simp only [hxi, hyi, if_false] at hx hy
        by_cases hxf : x = f <;> by_cases hyf : y = f
        · rw [hxf, hyf]
        · simp only [hxf, if_true, hyf, if_false] at hx hy
          cases hx
          exact absurd (hinv.nodup _ _ _ _ _ hy hlive) hyi
        · simp only [hxf, if_false, hyf, if_true] at hx hy
          cases hy
          exact absurd (hinv.nodup _ _ _ _ _ hx hlive) hxi
        · simp only [hxf, hyf, if_false] at hx hy
          exact hinv.nodup _ _ _ _ _ hx hy
  · -- chain
    intro x q c hx
    rw [hg] at hx
    by_cases hxi : x = i
    · simp [hxi] at hx; exact absurd hx (vacatedByMove_not_live _ _)
    · simp only [hxi, if_false] at hx
      by_cases hxf : x = f
      · simp only [hxf, if_true] at hx
        cases hx
        refine ⟨j, by omega, by rw [hlen, hxf], fun k hk => ?_⟩
        rw [hlen]
        exact hmono _ (hpath k (by omega))
      · simp only [hxf, if_false] at hx
        exact (hinv.chain x q c hx).mono hlen hmono
  · intro q c
    constructor
    · rintro ⟨y, hy⟩
      rw [hg] at hy
      by_cases hyi : y = i
      · simp [hyi] at hy; exact absurd hy (vacatedByMove_not_live _ _)
      · simp only [hyi, if_false] at hy
        by_cases hyf : y = f
        · simp only [hyf, if_true] at hy; cases hy; exact ⟨i, hlive⟩
        · simp only [hyf, if_false] at hy; exact ⟨y, hy⟩
    · rintro ⟨y, hy⟩
      by_cases hyi : y = i
      · subst hyi
        rw [hlive] at hy; cases hy
        exact ⟨f, hgf⟩
      · have hyf : y ≠ f := fun e => by subst e; rw [hdel] at hy; cases hy
        exact ⟨y, by rw [hg]; simp only [hyi, hyf, if_false]; exact hy⟩


/-- `janet_symcache_findmem` on the bytes of a live symbol: finds it (possibly after moving it into an earlier
    tombstone); the cache invariant and the set of live symbols are unchanged -/
theorem find_hit {sl : List Slot} (hinv : Inv sl) {i p : Nat} {b : List UInt8} (hlive : gd sl i = .live p b) :
    ∃ sl' bkt, find sl b = (sl', .hit bkt) ∧ gd sl' bkt = .live p b ∧ Inv sl' ∧ sl'.length = sl.length ∧
      ∀ q c, Live sl' q c ↔ Live sl q c := by
  obtain ⟨d, hd, hi, hpath⟩ := hinv.chain i p b hlive
  have hcap : 0 < sl.length := by omega
  have hh := home_lt hcap b
  rw [hi] at hlive
  have hother : ∀ k, 0 ≤ k → k < d → gd sl (pos sl.length (home sl.length b) k) ≠ .empty ∧
      ∀ q, gd sl (pos sl.length (home sl.length b) k) ≠ .live q b := by
    intro k _ hk
    refine ⟨hpath k hk, fun q hq => ?_⟩
    have := hinv.nodup _ _ _ _ _ hq hlive
    have := pos_inj hh (by omega) hd this
    omega
  have := findLoop_hit b sl.length (home sl.length b) sl p d hlive sl.length 0 none (Nat.zero_le _) (by omega) hother
  unfold find
  rcases this with ⟨h1, _, _⟩ | ⟨f, h1, hor⟩
  · exact ⟨sl, _, h1, hlive, hinv, rfl, fun q c => Iff.rfl⟩
  · rcases hor with h | ⟨_, j, _, hj2, hj3, hj4⟩
    · cases h
    · subst hj3
      have := Inv.move hinv hd hj2 hlive hj4 hpath
      exact ⟨_, _, h1, this.2.2.1, this.1, this.2.1, this.2.2.2⟩

/-- `janet_symcache_findmem` on bytes that are not in the cache: nothing changes; the returned bucket is a free slot
    (empty or tombstone) reachable from the home slot without crossing an empty slot -/
theorem find_miss {sl : List Slot} {b : List UInt8} (hno : ∀ q, ¬ Live sl q b) :
    ∃ r, find sl b = (sl, .miss r) ∧
      ∀ bk, r = some bk → bk < sl.length ∧ (gd sl bk = .empty ∨ gd sl bk = .deleted) ∧ Reach sl b bk := by
  have hno' : ∀ i q, gd sl i ≠ .live q b := fun i q h => hno q ⟨i, h⟩
  obtain ⟨r, hr, hb⟩ := findLoop_miss b sl.length (home sl.length b) sl hno' sl.length 0 none
  refine ⟨r, hr, fun bk h => ?_⟩
  rcases hb bk h with h' | ⟨_, j, _, hj2, hj3, hj4, hj5⟩
  · cases h'
  · have hcap : 0 < sl.length := by omega
    have hh := home_lt hcap b
    refine ⟨by rw [hj3]; exact pos_lt hh (by omega), hj4, j, by omega, hj3, fun k hk => hj5 k (Nat.zero_le _) hk⟩

/-- writing a new symbol into the bucket returned by a failed lookup -/
theorem Inv.insert {sl : List Slot} (hinv : Inv sl) {b : List UInt8} (hno : ∀ q, ¬ Live sl q b) {bk ptr : Nat}
    (hlt : bk < sl.length) (hfree : gd sl bk = .empty ∨ gd sl bk = .deleted) (hreach : Reach sl b bk) :
    Inv (sl.set bk (.live ptr b)) ∧ ∀ q c, Live (sl.set bk (.live ptr b)) q c ↔ (Live sl q c ∨ (q = ptr ∧ c = b)) := by
  have hg : ∀ y, gd (sl.set bk (.live ptr b)) y = if y = bk then .live ptr b else gd sl y := by
    intro y; rw [gd_set]; by_cases h : y = bk
    · subst h; simp [hlt]
    · simp [h, Ne.symm h]
  have hlen : (sl.set bk (.live ptr b)).length = sl.length := by simp
  have hmono : ∀ y, gd sl y ≠ .empty → gd (sl.set bk (.live ptr b)) y ≠ .empty := by
    intro y hy; rw [hg]; split
    · simp
    · exact hy
  have hnotlive : ∀ q c, gd sl bk ≠ .live q c := by
    intro q c h; rcases hfree with h' | h' <;> rw [h'] at h <;> cases h
  refine ⟨⟨?_, ?_⟩, ?_⟩
  · intro x y q1 q2 c hx hy
    rw [hg] at hx hy
    by_cases hxb : x = bk <;> by_cases hyb : y = bk
    · rw [hxb, hyb]
    · simp only [hxb, if_true, hyb, if_false] at hx hy; cases hx; exact absurd ⟨y, hy⟩ (hno q2)
    · simp only [hxb, if_false, hyb, if_true] at hx hy; cases hy; exact absurd ⟨x, hx⟩ (hno q1)
    · simp only [hxb, hyb, if_false] at hx hy; exact hinv.nodup _ _ _ _ _ hx hy
  · intro x q c hx
    rw [hg] at hx
    by_cases hxb : x = bk
    · simp only [hxb, if_true] at hx; cases hx
      rw [hxb]; exact hreach.mono hlen hmono
    · simp only [hxb, if_false] at hx
      exact (hinv.chain x q c hx).mono hlen hmono
  · intro q c
    constructor
    · rintro ⟨y, hy⟩
      rw [hg] at hy
      by_cases hyb : y = bk
      · simp only [hyb, if_true] at hy; cases hy; exact Or.inr ⟨rfl, rfl⟩
      · simp only [hyb, if_false] at hy; exact Or.inl ⟨y, hy⟩
    · rintro (⟨y, hy⟩ | ⟨h1, h2⟩)
      · have : y ≠ bk := fun e => hnotlive q c (e ▸ hy)
        exact ⟨y, by rw [hg]; simp only [this, if_false]; exact hy⟩
      · subst h1; subst h2; exact ⟨bk, by rw [hg]; simp⟩

/-- overwriting a live symbol's slot with a tombstone (janet_symbol_deinit) -/
theorem Inv.delete {sl : List Slot} (hinv : Inv sl) {bk p : Nat} {b : List UInt8} (hlive : gd sl bk = .live p b)
    {v : Slot} (hv : v ≠ .empty) (hv2 : ∀ q c, v ≠ .live q c) :
    Inv (sl.set bk v) ∧ ∀ q c, Live (sl.set bk v) q c ↔ (Live sl q c ∧ c ≠ b) := by
  have hlt : bk < sl.length := gd_lt (by rw [hlive]; simp)
  have hg : ∀ y, gd (sl.set bk v) y = if y = bk then v else gd sl y := by
    intro y; rw [gd_set]; by_cases h : y = bk
    · subst h; simp [hlt]
    · simp [h, Ne.symm h]
  have hlen : (sl.set bk v).length = sl.length := by simp
  have hmono : ∀ y, gd sl y ≠ .empty → gd (sl.set bk v) y ≠ .empty := by
    intro y hy; rw [hg]; split
    · exact hv
    · exact hy
  refine ⟨⟨?_, ?_⟩, ?_⟩
  · intro x y q1 q2 c hx hy
    rw [hg] at hx hy
    by_cases hxb : x = bk
    · simp only [hxb, if_true] at hx; exact absurd hx (hv2 _ _)
    · by_cases hyb : y = bk
      · simp only [hyb, if_true] at hy; exact absurd hy (hv2 _ _)
      · simp only [hxb, hyb, if_false] at hx hy; exact hinv.nodup _ _ _ _ _ hx hy
  · intro x q c hx
    rw [hg] at hx
    by_cases hxb : x = bk
    · simp only [hxb, if_true] at hx; exact absurd hx (hv2 _ _)
    · simp only [hxb, if_false] at hx
      exact (hinv.chain x q c hx).mono hlen hmono
  · intro q c
    constructor
    · rintro ⟨y, hy⟩
      rw [hg] at hy
      by_cases hyb : y = bk
      · simp only [hyb, if_true] at hy; exact absurd hy (hv2 _ _)
      · simp only [hyb, if_false] at hy
        refine ⟨⟨y, hy⟩, fun e => ?_⟩
        subst e
        exact hyb (hinv.nodup _ _ _ _ _ hy hlive)
    · rintro ⟨⟨y, hy⟩, hne⟩
      have : y ≠ bk := fun e => by subst e; rw [hlive] at hy; cases hy; exact hne rfl
      exact ⟨y, by rw [hg]; simp only [this, if_false]; exact hy⟩

end JanetModel.Value.SymCache
