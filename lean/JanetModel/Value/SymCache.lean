/- C03 — model of the symbol cache (src/core/symcache.c): open addressing with tombstones.
   janet_symcache_findmem (which moves a found symbol into the first tombstone met on its probe path),
   janet_cache_resize, janet_symcache_put, janet_symbol_deinit (called by the sweep), janet_symbol.
   What is written into a vacated slot is read off the source (Gen.Value.symMoveVacatedDeleted / symDeinitWritesDeleted).
   CORE LEAN ONLY. -/
import JanetModel.Value.Model

namespace JanetModel.Value.SymCache
open JanetModel.Gen.Value JanetModel.Value

/-- one entry of `janet_vm.cache`: NULL, JANET_SYMCACHE_DELETED, or a symbol (its address and its bytes) -/
inductive Slot where
  | empty
  | deleted
  | live (ptr : Nat) (bytes : List UInt8)
  deriving DecidableEq, Repr

structure Cache where
  slots : List Slot
  count : Nat      -- janet_vm.cache_count
  deleted : Nat    -- janet_vm.cache_deleted
  next : Nat       -- next fresh address (stands for janet_gcalloc)
  deriving Repr

/-- the C's two probe ranges `index … cap-1`, `0 … index-1`, as the k-th probe position -/
def pos (cap index k : Nat) : Nat := if index + k < cap then index + k else index + k - cap

/-- `(uint32_t) hash & (cap - 1)` (cap is a power of two) -/
def home (cap : Nat) (bytes : List UInt8) : Nat := (stringHash bytes).toNat % cap

def vacatedByMove : Slot := if symMoveVacatedDeleted then .deleted else .empty
def vacatedByDeinit : Slot := if symDeinitWritesDeleted then .deleted else .empty

inductive Found where
  | hit (bucket : Nat)            -- *success = 1, returned bucket
  | miss (bucket : Option Nat)    -- *success = 0, returned firstEmpty (none = NULL: the janet_assert fires)
  deriving DecidableEq, Repr

/-- the probe loop of `janet_symcache_findmem`, from probe number `k`, `fuel` probes left -/
def findLoop (bytes : List UInt8) (cap index : Nat) :
    (fuel k : Nat) → (firstEmpty : Option Nat) → List Slot → List Slot × Found
  | 0, _, fe, sl => (sl, .miss fe)
  | fuel + 1, k, fe, sl =>
    let i := pos cap index k
    match sl.getD i .empty with
    | .empty => (sl, .miss (some (fe.getD i)))
    | .deleted => findLoop bytes cap index fuel (k + 1) (some (fe.getD i)) sl
    | .live p b =>
      if b = bytes then          -- janet_string_equalconst: hash, length, memcmp
        match fe with
        | some f => ((sl.set f (.live p b)).set i vacatedByMove, .hit f)   -- replace first deleted
        | none => (sl, .hit i)
      else findLoop bytes cap index fuel (k + 1) fe sl

/-- `janet_symcache_findmem` -/
def find (sl : List Slot) (bytes : List UInt8) : List Slot × Found :=
  findLoop bytes sl.length (home sl.length bytes) sl.length 0 none sl

/-- the re-insertion loop of `janet_cache_resize` (stops at the first "problem with the algorithm") -/
def reinsert : List Slot → List Slot → List Slot
  | [], new => new
  | .live p b :: rest, new =>
    match find new b with
    | (new', .miss (some bucket)) => reinsert rest (new'.set bucket (.live p b))
    | (new', _) => new'
  | _ :: rest, new => reinsert rest new

/-- `janet_cache_resize` -/
def resize (c : Cache) (newCap : Nat) : Cache :=
  { c with slots := reinsert c.slots (List.replicate newCap .empty), deleted := 0 }

/-- `janet_symcache_put`; `none`: the bucket is NULL (the C would crash) -/
def put (c : Cache) (ptr : Nat) (bytes : List UInt8) (bucket : Option Nat) : Option Cache :=
  let (c, bucket) :=
    if (c.count + c.deleted) * 2 > c.slots.length then
      let c := resize c (tablen (2 * c.count + 1))
      let (sl, r) := find c.slots bytes
      ({ c with slots := sl }, match r with | .hit b => some b | .miss b => b)
    else (c, bucket)
  match bucket with
  | some b => some { c with slots := c.slots.set b (.live ptr bytes), count := c.count + 1 }
  | none => none

/-- `janet_symbol`: the address of the interned symbol -/
def intern (c : Cache) (bytes : List UInt8) : Option (Cache × Nat) :=
  match find c.slots bytes with
  | (sl, .hit b) =>
    match sl.getD b .empty with
    | .live p _ => some ({ c with slots := sl }, p)
    | _ => none
  | (_, .miss none) => none          -- janet_assert(firstEmpty != NULL, "symcache failed to get memory") aborts
  | (sl, .miss bucket) =>
    (put { c with slots := sl, next := c.next + 1 } c.next bytes bucket).map fun c' => (c', c.next)

/-- `janet_symbol_deinit` (the sweep frees a symbol) -/
def deinit (c : Cache) (bytes : List UInt8) : Cache :=
  match find c.slots bytes with
  | (sl, .hit b) => { c with slots := sl.set b vacatedByDeinit, count := c.count - 1, deleted := c.deleted + 1 }
  | (sl, .miss _) => { c with slots := sl }

/-- `janet_symcache_init` -/
def init : Cache := { slots := List.replicate symCacheInitCap .empty, count := 0, deleted := 0, next := 1 }

inductive Op where
  | intern (bytes : List UInt8)
  | sweep (bytes : List UInt8)     -- the collector frees the symbol with these bytes (if there is one)

/-- run a history; `none` if an intern hit the NULL-bucket assertion -/
def run : Cache → List Op → Option Cache
  | c, [] => some c
  | c, .intern b :: ops => match intern c b with | some (c', _) => run c' ops | none => none
  | c, .sweep b :: ops => run (deinit c b) ops

end JanetModel.Value.SymCache
