/- C03 — the ITERATIVE form of `janet_equals` / `janet_compare` (src/core/value.c): explicit traversal stack
   (`push_traversal_node`, `traversal_next`, the `do { switch … } while (!traversal_next(&x, &y))` loops), mirrored
   statement by statement.  `Value/Model.lean` has the same two functions by structural recursion; `TraverseLemmas.lean`
   proves that the two agree on every value (nested tuples / structs of any depth and width).

   A stack frame is a `JanetTraversalNode`: the two objects (`self`, `other`), `index`, `index2`.  For a tuple frame `index2`
   is the flag "compare the lengths when the common prefix is exhausted" (set by janet_compare, clear in janet_equals); for a
   struct frame it is the flag "the key at `index` has been returned, the value comes next".  Slot `i` of a struct is
   `flat[2i]` (key) and `flat[2i+1]` (value); reads use `getD … nil` (the C reads `other->data[index]` relying on equal
   capacities).
   CORE LEAN ONLY (linked into the driver). -/
import JanetModel.Value.Model

namespace JanetModel.Value.Traverse
open JanetModel.Gen.Value JanetModel.Value

variable {N : Type}

/-- `JanetTraversalNode` -/
inductive Frame (N : Type) where
  | tup (xs ys : List (JVal N)) (index : Nat) (index2 : Bool)
  | str (f1 p1 f2 p2 : List (JVal N)) (index : Nat) (index2 : Bool)

/-- result of `traversal_next`: 0 = next pair found (with the stack as it is left), or the status 1 / 2 / 3 -/
inductive Next (N : Type) where
  | found (x y : JVal N) (st : List (Frame N))
  | stop (status : Nat)

/-- `traversal_next`: the `while (t && t > janet_vm.traversal_base)` loop, one frame per recursive call -/
def traversalNext : List (Frame N) → Next N
  | [] => .stop 2
  | .tup xs ys i i2 :: st =>
    if i < xs.length ∧ i < ys.length then
      .found (xs.getD i .nil) (ys.getD i .nil) (.tup xs ys (i + 1) i2 :: st)
    else if i2 = true ∧ xs.length ≠ ys.length then
      .stop (if xs.length > ys.length then 3 else 1)
    else traversalNext st            -- t--
  | .str f1 p1 f2 p2 i i2 :: st =>
    if i2 = true then
      .found (f1.getD (2 * i + 1) .nil) (f2.getD (2 * i + 1) .nil) (.str f1 p1 f2 p2 (i + 1) false :: st)
    else if i < f1.length / 2 then
      .found (f1.getD (2 * i) .nil) (f2.getD (2 * i) .nil) (.str f1 p1 f2 p2 i true :: st)
    else
      match p1, p2 with
      | _ :: _, [] => .stop 3
      | [], _ :: _ => .stop 1
      | a :: _, b :: _ => .found a b st          -- janet_vm.traversal = t - 1
      | [], [] => traversalNext st               -- t--

/-- `status - 2` -/
def statusOrd (s : Nat) : Ordering := if s = 1 then .lt else if s = 3 then .gt else .eq

/-- what the `switch` does with the current pair: return, or fall to `traversal_next` with the (possibly grown) stack -/
inductive Visit (α : Type) (N : Type) where
  | ret (r : α)
  | go (st : List (Frame N))

section
variable [NumLike N]

/-- the `switch` of `janet_compare` -/
def visitCompare (x y : JVal N) (st : List (Frame N)) : Visit Ordering N :=
  match x, y with
  | .tuple br1 xs, .tuple br2 ys =>
    if br1 != br2 then .ret (if br1 then .gt else .lt)
    else .go (.tup xs ys 0 true :: st)                      -- push_traversal_node(lhs, rhs, 1)
  | .struct f1 p1, .struct f2 p2 =>
    if f1.length / 2 < f2.length / 2 then .ret .lt
    else if f1.length / 2 > f2.length / 2 then .ret .gt
    else match sCompare (hash (.struct f1 p1)) (hash (.struct f2 p2)) with
      | .lt => .ret .lt
      | .gt => .ret .gt
      | .eq => .go (.str f1 p1 f2 p2 0 false :: st)         -- push_traversal_node(lhs, rhs, 0)
  | x, y =>
    -- type tags, nil, booleans, numbers, strings / symbols / keywords, pointers: no node is pushed
    match jcompare x y with
    | .eq => .go st
    | r => .ret r

/-- the loop of `janet_compare`; `fuel` bounds the number of pairs visited -/
def compareLoop : Nat → JVal N → JVal N → List (Frame N) → Option Ordering
  | 0, _, _, _ => none
  | fuel + 1, x, y, st =>
    match visitCompare x y st with
    | .ret r => some r
    | .go st' =>
      match traversalNext st' with
      | .found x' y' st'' => compareLoop fuel x' y' st''
      | .stop s => some (statusOrd s)

/-- the `switch` of `janet_equals` (the pointer short-cuts `t1 == t2`, `s1 == s2` are not modelled) -/
def visitEquals (x y : JVal N) (st : List (Frame N)) : Visit Bool N :=
  match x, y with
  | .tuple br1 xs, .tuple br2 ys =>
    if br1 != br2 then .ret false
    else if tupleHash xs != tupleHash ys then .ret false
    else if xs.length != ys.length then .ret false
    else .go (.tup xs ys 0 false :: st)                     -- push_traversal_node(t1, t2, 0)
  | .struct f1 p1, .struct f2 p2 =>
    if hash (.struct f1 p1) != hash (.struct f2 p2) then .ret false
    else if structLength f1 != structLength f2 then .ret false
    else if !p1.isEmpty && p2.isEmpty then .ret false
    else if p1.isEmpty && !p2.isEmpty then .ret false
    else .go (.str f1 p1 f2 p2 0 false :: st)
  | x, y => if equals x y then .go st else .ret false

/-- the loop of `janet_equals`: `do { … } while (!traversal_next(&x, &y)); return 1;` — ANY non-zero status ends it with 1 -/
def equalsLoop : Nat → JVal N → JVal N → List (Frame N) → Option Bool
  | 0, _, _, _ => none
  | fuel + 1, x, y, st =>
    match visitEquals x y st with
    | .ret r => some r
    | .go st' =>
      match traversalNext st' with
      | .found x' y' st'' => equalsLoop fuel x' y' st''
      | .stop _ => some true

end

mutual
/-- number of nodes of a value (bound on the pairs the loops visit) -/
def weight : JVal N → Nat
  | .tuple _ xs => 1 + weightL xs
  | .struct f p => 1 + weightL f + weightL p
  | _ => 1
def weightL : List (JVal N) → Nat
  | [] => 0
  | x :: xs => weight x + weightL xs
end

/-- the stack depth reached (reported by the driver; the C grows `janet_vm.traversal_base` on demand) -/
def depthOf : List (Frame N) → Nat := List.length

section
variable [NumLike N]

/-- `janet_compare(x, y)` by the iterative algorithm -/
def compareIter (x y : JVal N) : Option Ordering := compareLoop (weight x + 1) x y []
/-- `janet_equals(x, y)` by the iterative algorithm -/
def equalsIter (x y : JVal N) : Option Bool := equalsLoop (weight x + 1) x y []

/-- the same loop, also returning the deepest stack seen (driver only) -/
def compareLoopD : Nat → JVal N → JVal N → List (Frame N) → Nat → Option Ordering × Nat
  | 0, _, _, _, d => (none, d)
  | fuel + 1, x, y, st, d =>
    match visitCompare x y st with
    | .ret r => (some r, d)
    | .go st' =>
      match traversalNext st' with
      | .found x' y' st'' => compareLoopD fuel x' y' st'' (max d st'.length)
      | .stop s => (some (statusOrd s), max d st'.length)

end

end JanetModel.Value.Traverse
