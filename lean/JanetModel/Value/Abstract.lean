/- C03 — values that contain ABSTRACT values (JANET_ABSTRACT) with compare / hash hooks.

   Mirrors
     src/core/value.c     janet_compare_abstract, the JANET_ABSTRACT cases of janet_equals / janet_compare / janet_hash
     src/core/inttypes.c  janet_int64_compare, janet_uint64_compare, janet_int64_hash, janet_s64_type, janet_u64_type

   An abstract value is an address.  What value.c does with it — `janet_abstract_type(xx)` reads the header in front of the
   address, the hooks read the payload at the address — is a read of memory: class `AbsHeap` (address ↦ type pointer, address ↦
   payload, type pointer ↦ the two hooks `compare` / `hash` of the JanetAbstractType, `none` = NULL).  The hooks are PARAMETERS.

   The value type is generic in its leaves: `LVal L` = leaf | tuple | struct with the container code of value.c exactly as in
   Value/Model.lean, `Leaf N` = the atoms of `JVal N` plus `abs address`.  `ofJVal` embeds the abstract-free model `JVal N`;
   hash / equals / compare commute with it (Value/AbstractLemmas.lean), so `JVal N` is the abstract-free fragment of this model.

   CORE LEAN ONLY (the driver links this file). -/
import JanetModel.Value.Model
import JanetModel.Gen.ValueAbs

namespace JanetModel.Value
open JanetModel.Gen.Value

/-- what the container code of value.c needs from a leaf -/
class LeafOps (L : Type) where
  tag : L → Nat
  isNil : L → Bool
  hash : L → UInt32
  eq : L → L → Bool
  cmp : L → L → Ordering

/-- a janet value over leaves `L` (`struct flat proto` as in `JVal`) -/
inductive LVal (L : Type) where
  | leaf (l : L)
  | tuple (bracket : Bool) (xs : List (LVal L))
  | struct (flat : List (LVal L)) (proto : List (LVal L))

namespace LVal
variable {L : Type} [LeafOps L]

def typeTag : LVal L → Nat
  | .leaf l => LeafOps.tag l
  | .tuple _ _ => tyTuple
  | .struct _ _ => tyStruct

def isNil : LVal L → Bool
  | .leaf l => LeafOps.isNil l
  | _ => false

end LVal

section
variable {L : Type} [LeafOps L]

mutual
/-- `janet_hash` -/
def hashL : LVal L → UInt32
  | .leaf l => LeafOps.hash l
  | .tuple br xs => hashFoldL arraySeed.toUInt32 xs + (if br then 1 else 0)
  | .struct flat proto =>
      hashFoldL kvSeed.toUInt32 flat + (match proto with
        | [] => 0
        | p :: _ => protoMul.toUInt32 * hashL p)
def hashFoldL : UInt32 → List (LVal L) → UInt32
  | h, [] => h
  | h, x :: xs => hashFoldL (hashMix h (hashL x)) xs
end

def tupleHashL (xs : List (LVal L)) : UInt32 := hashFoldL arraySeed.toUInt32 xs

def structLengthL : List (LVal L) → Nat
  | k :: _ :: rest => (if k.isNil then 0 else 1) + structLengthL rest
  | _ => 0

mutual
/-- `janet_equals` (the pointer short-cuts `t1 == t2` / `s1 == s2`: Value/PtrShortcut.lean) -/
def equalsL : LVal L → LVal L → Bool
  | .leaf a, .leaf b => LeafOps.eq a b
  | .tuple br1 xs, .tuple br2 ys =>
      if br1 != br2 then false
      else if tupleHashL xs != tupleHashL ys then false
      else if xs.length != ys.length then false
      else equalsListL xs ys
  | .struct f1 p1, .struct f2 p2 =>
      if hashL (.struct f1 p1) != hashL (.struct f2 p2) then false
      else if structLengthL f1 != structLengthL f2 then false
      else if !p1.isEmpty && p2.isEmpty then false
      else if p1.isEmpty && !p2.isEmpty then false
      else equalsListL f1 f2 && equalsListL p1 p2
  | _, _ => false
def equalsListL : List (LVal L) → List (LVal L) → Bool
  | [], [] => true
  | x :: xs, y :: ys => equalsL x y && equalsListL xs ys
  | _, _ => false
end

mutual
/-- `janet_compare` -/
def jcompareL : LVal L → LVal L → Ordering
  | .leaf a, .leaf b => LeafOps.cmp a b
  | .tuple br1 xs, .tuple br2 ys =>
      if br1 != br2 then (if br1 then .gt else .lt)
      else compareListL xs ys
  | .struct f1 p1, .struct f2 p2 =>
      if f1.length / 2 < f2.length / 2 then .lt
      else if f1.length / 2 > f2.length / 2 then .gt
      else match sCompare (hashL (.struct f1 p1)) (hashL (.struct f2 p2)) with
        | .lt => .lt
        | .gt => .gt
        | .eq => match compareListL f1 f2 with
          | .lt => .lt
          | .gt => .gt
          | .eq => compareListL p1 p2
  | x, y => if x.typeTag < y.typeTag then .lt else if x.typeTag > y.typeTag then .gt else .eq
def compareListL : List (LVal L) → List (LVal L) → Ordering
  | [], [] => .eq
  | [], _ :: _ => .lt
  | _ :: _, [] => .gt
  | x :: xs, y :: ys =>
      match jcompareL x y with
      | .lt => .lt
      | .gt => .gt
      | .eq => compareListL xs ys
end

/-- `<`, `<=`, `>`, `>=` (vm.c / corelib.c: `janet_compare(a, b) OP 0`) -/
def jleL (a b : LVal L) : Bool := jcompareL a b != .gt
def jltL (a b : LVal L) : Bool := jcompareL a b == .lt
def jgtL (a b : LVal L) : Bool := jcompareL a b == .gt
def jgeL (a b : LVal L) : Bool := jcompareL a b != .lt

end

/-! ### abstract values -/

/-- the two hooks of a `JanetAbstractType` that value.c calls; `none` = NULL.  `compare` returns a C `int`, `hash` an
    `int32_t` (given by its bits).  (`at->hash` also receives `janet_abstract_size(xx)`; no hook in src/core reads it.) -/
structure AbsType (P : Type) where
  compare : Option (P → P → Int)
  hash : Option (P → UInt32)

/-- memory as value.c reads it through an abstract pointer: `janet_abstract_type(xx)` (address of the JanetAbstractType in
    the header), the payload the hooks read, and the hooks of each type -/
class AbsHeap where
  Payload : Type
  tyOf : UInt64 → Nat
  payload : UInt64 → Payload
  hooks : Nat → AbsType Payload

/-- sign of a C `int` as an ordering (every caller of janet_compare tests the result against 0) -/
def ordOfInt (d : Int) : Ordering := if d < 0 then .lt else if d = 0 then .eq else .gt

/-- `janet_compare_abstract(xx, yy)`, statement by statement -/
def compareAbstract [AbsHeap] (xx yy : UInt64) : Int :=
  if xx == yy then 0
  else
    let xt := AbsHeap.tyOf xx
    let yt := AbsHeap.tyOf yy
    if xt != yt then (if xt > yt then 1 else -1)
    else match (AbsHeap.hooks xt).compare with
      | none => if xx > yy then 1 else -1
      | some f => f (AbsHeap.payload xx) (AbsHeap.payload yy)

/-- the decisions `compareAbstract` implements, for the tie with the regenerated list -/
def compareAbstract.steps : List String := ["sameAddress:0", "typeDiffers:byTypePointer", "noCompareHook:byAddress", "compareHook"]

/-- `janet_hash`, case JANET_ABSTRACT: the hash hook when the type has one, else (fallthrough) the pointer hash of the boxed word -/
def hashAbstract [AbsHeap] (xx : UInt64) : UInt32 :=
  match (AbsHeap.hooks (AbsHeap.tyOf xx)).hash with
  | some h => h (AbsHeap.payload xx)
  | none => ptrHash xx

/-- the leaves: the atoms of `JVal N`, plus an abstract value given by its NaN-boxed word (tag bits and address; two
    abstracts have the same word iff they are the same object) -/
inductive Leaf (N : Type) where
  | num (n : N)
  | nil
  | bool (b : Bool)
  | str (bs : List UInt8)
  | sym (bs : List UInt8)
  | kw (bs : List UInt8)
  | ref (kind : RefKind) (bits : UInt64)
  | abs (bits : UInt64)

namespace Leaf
variable {N : Type}

def tag : Leaf N → Nat
  | .num _ => tyNumber | .nil => tyNil | .bool _ => tyBoolean
  | .str _ => tyString | .sym _ => tySymbol | .kw _ => tyKeyword
  | .ref k _ => k.tag | .abs _ => tyAbstract

def isNil : Leaf N → Bool
  | .nil => true
  | _ => false

variable [NumLike N] [AbsHeap]

/-- `janet_hash` on a non-container value -/
def hash : Leaf N → UInt32
  | .num n => numHashBits (NumLike.normBits n)
  | .nil => 0
  | .bool b => if b then 1 else 0
  | .str bs => stringHash bs
  | .sym bs => stringHash bs
  | .kw bs => stringHash bs
  | .ref _ bits => ptrHash bits
  | .abs bits => hashAbstract bits

/-- `janet_equals` on non-container values (type test first, then the switch) -/
def eq : Leaf N → Leaf N → Bool
  | .num a, .num b => NumLike.eq a b
  | .nil, .nil => true
  | .bool a, .bool b => a == b
  | .str a, .str b => bytesEqual a b
  | .sym a, .sym b => a == b
  | .kw a, .kw b => a == b
  | .ref k1 b1, .ref k2 b2 => k1 == k2 && b1 == b2
  -- `if (janet_compare_abstract(..)) return 0;`
  | .abs a, .abs b => compareAbstract a b == 0
  | _, _ => false

/-- `janet_compare` on non-container values -/
def cmp : Leaf N → Leaf N → Ordering
  | .num a, .num b => if NumLike.eq a b then .eq else if NumLike.lt a b then .lt else .gt
  | .nil, .nil => .eq
  | .bool a, .bool b => compare a.toNat b.toNat
  | .str a, .str b => bytesCompare a b
  | .sym a, .sym b => bytesCompare a b
  | .kw a, .kw b => bytesCompare a b
  | .ref k1 b1, .ref k2 b2 =>
      if k1.tag != k2.tag then (if k1.tag < k2.tag then .lt else .gt)
      else if b1 == b2 then .eq else if b1 > b2 then .gt else .lt
  -- `int diff = janet_compare_abstract(..); if (diff) return diff;`
  | .abs a, .abs b => ordOfInt (compareAbstract a b)
  | x, y => if x.tag < y.tag then .lt else if x.tag > y.tag then .gt else .eq

instance : LeafOps (Leaf N) := ⟨tag, isNil, hash, eq, cmp⟩

end Leaf

/-- values with abstracts -/
abbrev AVal (N : Type) := LVal (Leaf N)

mutual
/-- the abstract-free model `JVal N` inside `AVal N` -/
def ofJVal {N : Type} : JVal N → AVal N
  | .num n => .leaf (.num n)
  | .nil => .leaf .nil
  | .bool b => .leaf (.bool b)
  | .str b => .leaf (.str b)
  | .sym b => .leaf (.sym b)
  | .kw b => .leaf (.kw b)
  | .ref k b => .leaf (.ref k b)
  | .tuple br xs => .tuple br (ofJVals xs)
  | .struct f p => .struct (ofJVals f) (ofJVals p)
def ofJVals {N : Type} : List (JVal N) → List (AVal N)
  | [] => []
  | x :: xs => ofJVal x :: ofJVals xs
end

/-! ### inttypes.c -/

/-- a 64-bit word read as `int64_t` -/
def s64 (u : UInt64) : Int := if u.toNat < 9223372036854775808 then (u.toNat : Int) else (u.toNat : Int) - 18446744073709551616

/-- `janet_int64_compare`: `x == y ? 0 : x < y ? -1 : 1` on `int64_t` -/
def int64Compare (p1 p2 : UInt64) : Int :=
  let x := s64 p1
  let y := s64 p2
  if x = y then 0 else if x < y then -1 else 1

/-- `janet_uint64_compare`: the same on `uint64_t` -/
def uint64Compare (p1 p2 : UInt64) : Int :=
  let x := p1.toNat
  let y := p2.toNat
  if x = y then 0 else if x < y then -1 else 1

/-- `janet_int64_hash`: `words[0] ^ words[1]` of the two `int32_t` halves (little endian; xor does not care) -/
def int64Hash (p : UInt64) : UInt32 := p.toUInt32 ^^^ (p >>> 32).toUInt32

/-- hook bodies by the shape names the translator emits (Gen/ValueAbs.lean `hookedTypes`) -/
def compareHookOfShape : String → Option (Option (UInt64 → UInt64 → Int))
  | "NULL" => some none
  | "threeWay:int64_t" => some (some int64Compare)
  | "threeWay:uint64_t" => some (some uint64Compare)
  | _ => none
def hashHookOfShape : String → Option (Option (UInt64 → UInt32))
  | "NULL" => some none
  | "xorWords:int32_t" => some (some int64Hash)
  | _ => none

/-- the hooks of a type of src/core given by name, from the regenerated table; a type not in the table has no hooks -/
def coreHooks (name : String) : Option (AbsType UInt64) :=
  match JanetModel.Gen.ValueAbs.hookedTypes.find? (·.1 == name) with
  | none => some ⟨none, none⟩
  | some (_, c, h) =>
    match compareHookOfShape c, hashHookOfShape h with
    | some c, some h => some ⟨c, h⟩
    | _, _ => none

/-- memory whose payloads are 64-bit words (the driver's; `intHeap` of Value/AbstractInt.lean is this definition) -/
@[reducible] def intHeapD (tyOf : UInt64 → Nat) (payload : UInt64 → UInt64) (hooks : Nat → AbsType UInt64) : AbsHeap :=
  ⟨UInt64, tyOf, payload, hooks⟩

/-- `janet_s64_type` / `janet_u64_type` -/
def s64Type : AbsType UInt64 := ⟨some int64Compare, some int64Hash⟩
def u64Type : AbsType UInt64 := ⟨some uint64Compare, some int64Hash⟩

end JanetModel.Value
