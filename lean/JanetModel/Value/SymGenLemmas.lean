/- C03 — `janet_symbol_gen` on the symbol-cache model: one call is a run of `janet_symbol` calls on consecutive counter
   names, all but the last of which find a live symbol; hence every history with gensym is realised by a plain
   intern / sweep history and inherits the cache invariant. -/
import JanetModel.Value.SymGen
import JanetModel.Value.SymCacheLemmas

namespace JanetModel.Value.SymCache
open JanetModel.Gen.Value JanetModel.Value

theorem run_append : ∀ (ops1 ops2 : List Op) (c : Cache),
    run c (ops1 ++ ops2) = (run c ops1).bind (fun c' => run c' ops2)
  | [], _, _ => rfl
  | .intern b :: ops1, ops2, c => by
      simp only [List.cons_append, run]
      cases intern c b with
      | none => rfl
      | some r => exact run_append ops1 ops2 r.1
  | .sweep b :: ops1, ops2, c => by
      simp only [List.cons_append, run]; exact run_append ops1 ops2 _

/-- **one `janet_symbol_gen` call**: the counter names it skips (`names`) are all live; the name it settles on (`ctr'`) is
    the bytes of NO live symbol; the call has the effect of `janet_symbol` on the skipped names followed by `janet_symbol` on
    `ctr'`; the new symbol gets a fresh address; every other symbol stays where it is. -/
theorem gensym_spec : ∀ (fuel : Nat) (c : Cache) (ctr : List UInt8) (c' : Cache) (ctr' : List UInt8) (p : Nat),
    CInvC c → gensym fuel c ctr = some (c', ctr', p) →
    ∃ names : List (List UInt8),
      (∀ n ∈ names, ∃ q, Live c.slots q n) ∧
      run c ((names ++ [ctr']).map Op.intern) = some c' ∧
      (∀ q, ¬ Live c.slots q ctr') ∧ p = c.next ∧ CInvC c' ∧
      ∀ q x, Live c'.slots q x ↔ (Live c.slots q x ∨ (q = p ∧ x = ctr'))
  | 0, c, ctr, c', ctr', p, _, hg => by simp [gensym, genLoop] at hg
  | fuel + 1, c, ctr, c', ctr', p, h, hg => by
    by_cases hex : ∃ q, Live c.slots q ctr
    · -- the probe finds the counter name: inc_gensym, probe again
      obtain ⟨q, i, hi⟩ := hex
      obtain ⟨sl', bkt, hf, hb, _, _, _⟩ := find_hit h.inv hi
      obtain ⟨c1, hint, hinv1, hl1⟩ := intern_liveC h ⟨i, hi⟩
      have hc1 : c1 = { c with slots := sl' } := by
        unfold gd at hb
        have : intern c ctr = some ({ c with slots := sl' }, q) := by simp only [intern, hf, hb]
        rw [this] at hint; simp only [Option.some.injEq, Prod.mk.injEq] at hint; exact hint.1.symm
      have hstep : gensym (fuel + 1) c ctr = gensym fuel c1 (incGensym ctr) := by
        simp only [gensym, genLoop, hf, hc1]
      rw [hstep] at hg
      obtain ⟨names, hn, hrun, hfresh, hp, hinv', hl'⟩ := gensym_spec fuel c1 (incGensym ctr) c' ctr' p hinv1 hg
      refine ⟨ctr :: names, ?_, ?_, fun q' hq' => hfresh q' ((hl1 q' ctr').mpr hq'), ?_, hinv', fun q' x => ?_⟩
      · intro n hn'
        rcases List.mem_cons.mp hn' with e | e
        · subst e; exact ⟨q, i, hi⟩
        · obtain ⟨q', hq'⟩ := hn n e; exact ⟨q', (hl1 q' n).mp hq'⟩
      · simp only [List.cons_append, List.map_cons, run, hint]; exact hrun
      · rw [hp, hc1]
      · rw [hl' q' x, hl1 q' x]
    · -- the probe misses: the rest of janet_symbol_gen is what janet_symbol does for bytes that are not cached
      have hno : ∀ q, ¬ Live c.slots q ctr := fun q hq => hex ⟨q, hq⟩
      obtain ⟨r, hf, _⟩ := find_miss hno
      have hg' : (intern c ctr).map (fun r => (r.1, ctr, r.2)) = some (c', ctr', p) := by
        rw [← hg]
        cases r with
        | none => simp [gensym, genLoop, intern, hf]
        | some bk =>
          simp only [gensym, genLoop, intern, hf]
          cases put { slots := c.slots, count := c.count, deleted := c.deleted, next := c.next + 1 } c.next ctr (some bk) <;> rfl
      cases hi : intern c ctr with
      | none => simp [hi] at hg'
      | some r0 =>
        obtain ⟨c0, p0⟩ := r0
        simp only [hi, Option.map_some, Option.some.injEq, Prod.mk.injEq] at hg'
        obtain ⟨e1, e2, e3⟩ := hg'
        subst e1; subst e2; subst e3
        obtain ⟨hp, hinv', hl'⟩ := intern_newC h hno hi
        exact ⟨[], by simp, by simp [run, hi], hno, hp, hinv', hl'⟩

/-- the model counterpart of what a history with gensym looks like without it -/
def OpG.plain? : OpG → Option Op
  | .intern b => some (.intern b)
  | .sweep b => some (.sweep b)
  | .gensym => none

/-- **every history with gensym is realised by a plain history**: the cache reached by `runG` from a cache satisfying the
    invariant is reached by `run` on intern / sweep alone (each gensym replaced by the `janet_symbol` calls of `gensym_spec`);
    and the invariant holds at the end -/
theorem runG_as_run : ∀ (fuel : Nat) (ops : List OpG) (s s' : GState), CInvC s.cache → runG fuel s ops = some s' →
    CInvC s'.cache ∧ ∃ ops' : List Op, run s.cache ops' = some s'.cache
  | _, [], s, s', h, hr => by
      simp only [runG, Option.some.injEq] at hr; subst hr; exact ⟨h, [], rfl⟩
  | fuel, .intern b :: ops, s, s', h, hr => by
      simp only [runG] at hr
      cases hi : intern s.cache b with
      | none => simp [hi] at hr
      | some r =>
        obtain ⟨c1, p1⟩ := r
        simp only [hi] at hr
        have hinv1 : CInvC c1 := (intern_post h hi).1
        obtain ⟨hfin, ops', ho⟩ := runG_as_run fuel ops { s with cache := c1 } s' hinv1 hr
        exact ⟨hfin, .intern b :: ops', by simp only [run, hi]; exact ho⟩
  | fuel, .sweep b :: ops, s, s', h, hr => by
      simp only [runG] at hr
      obtain ⟨hfin, ops', ho⟩ := runG_as_run fuel ops { s with cache := deinit s.cache b } s' (deinit_cnt h b) hr
      exact ⟨hfin, .sweep b :: ops', by simp only [run]; exact ho⟩
  | fuel, .gensym :: ops, s, s', h, hr => by
      simp only [runG] at hr
      cases hg : gensym fuel s.cache s.counter with
      | none => simp [hg] at hr
      | some r =>
        obtain ⟨c1, ctr1, p1⟩ := r
        simp only [hg] at hr
        obtain ⟨names, _, hrun, _, _, hinv1, _⟩ := gensym_spec fuel s.cache s.counter c1 ctr1 p1 h hg
        obtain ⟨hfin, ops', ho⟩ := runG_as_run fuel ops { cache := c1, counter := ctr1 } s' hinv1 hr
        refine ⟨hfin, (names ++ [ctr1]).map Op.intern ++ ops', ?_⟩
        rw [run_append, hrun]; exact ho

end JanetModel.Value.SymCache
