/- C03 — the leaves of value.c are lawful (`LawfulLeaf (Leaf N)`) when the numbers are (`LawfulNum N`) and the hooks of every
   abstract type are (`LawfulAbstract`): janet_compare_abstract is then "type pointer first, then the hook (or the address)",
   a lexicographic total preorder whose equality the hash hook respects. -/
import JanetModel.Value.AbstractLemmas

namespace JanetModel.Value
open JanetModel.Gen.Value

/-- LAWFUL HOOKS.  For every abstract type with a compare hook `f`: the sign of `f` is a total preorder on payloads
    (antisymmetric as a three-way comparison, transitive), and the type has a hash hook that gives `f`-equal payloads the same
    hash.  (A type with a compare hook and NO hash hook would hash two `f`-equal objects by their addresses: not lawful.) -/
class LawfulAbstract [AbsHeap] : Prop where
  cmp_swap : ∀ t f, (AbsHeap.hooks t).compare = some f → ∀ p q, ordOfInt (f q p) = (ordOfInt (f p q)).swap
  cmp_tri : ∀ t f, (AbsHeap.hooks t).compare = some f → ∀ p q r, Tri (ordOfInt (f p q)) (ordOfInt (f q r)) (ordOfInt (f p r))
  hash_congr : ∀ t f, (AbsHeap.hooks t).compare = some f →
    ∃ h, (AbsHeap.hooks t).hash = some h ∧ ∀ p q, f p q = 0 → h p = h q

theorem ordOfInt_eq_iff (d : Int) : ordOfInt d = .eq ↔ d = 0 := by
  unfold ordOfInt; split <;> (try split) <;> simp <;> omega

theorem then_of_ne_eq (o r : Ordering) (h : o ≠ .eq) : o.then r = o := by cases o <;> simp_all [Ordering.then]

section abs
variable [AbsHeap]

/-- what janet_compare_abstract does once the type pointers agree: the compare hook, or the address order -/
def absRest (a b : UInt64) : Ordering :=
  match (AbsHeap.hooks (AbsHeap.tyOf a)).compare with
  | none => natCmp a.toNat b.toNat
  | some f => ordOfInt (f (AbsHeap.payload a) (AbsHeap.payload b))

variable [LawfulAbstract]

theorem hook_refl (t : Nat) (f) (h : (AbsHeap.hooks t).compare = some f) (p : AbsHeap.Payload) : f p p = 0 := by
  have := LawfulAbstract.cmp_swap t f h p p
  rw [← ordOfInt_eq_iff]
  cases hc : ordOfInt (f p p) <;> simp_all

/-- janet_compare_abstract is lexicographic: type pointer, then hook / address.  In particular the first statement
    `if (xx == yy) return 0` never changes the result (the hook of a lawful type is reflexive). -/
theorem cmpAbs_then (a b : UInt64) :
    ordOfInt (compareAbstract a b) = (natCmp (AbsHeap.tyOf a) (AbsHeap.tyOf b)).then (absRest a b) := by
  unfold compareAbstract
  by_cases hab : a = b
  · subst hab
    simp only [beq_self_eq_true, if_true]
    rw [(natCmp_eq_iff _ _).mpr rfl]
    simp only [Ordering.then, absRest]
    cases hh : (AbsHeap.hooks (AbsHeap.tyOf a)).compare with
    | none => simp [(natCmp_eq_iff _ _).mpr rfl, ordOfInt]
    | some f => simp only; rw [hook_refl _ f hh]
  · have hab' : (a == b) = false := by simp [hab]
    simp only [hab', Bool.false_eq_true, if_false]
    by_cases ht : AbsHeap.tyOf a = AbsHeap.tyOf b
    · simp only [ht, bne_self_eq_false, Bool.false_eq_true, if_false]
      rw [(natCmp_eq_iff _ _).mpr rfl]
      simp only [Ordering.then, absRest, ht]
      cases hh : (AbsHeap.hooks (AbsHeap.tyOf b)).compare with
      | some f => rfl
      | none =>
        simp only
        have hne : a.toNat ≠ b.toNat := fun e => hab (UInt64.toNat_inj.mp e)
        by_cases hgt : a > b
        · have : b.toNat < a.toNat := UInt64.lt_iff_toNat_lt.mp hgt
          simp [hgt, ordOfInt, (natCmp_gt_iff _ _).mpr this]
        · have : a.toNat < b.toNat := by
            have : ¬ b.toNat < a.toNat := fun h => hgt (UInt64.lt_iff_toNat_lt.mpr h)
            omega
          simp [hgt, ordOfInt, (natCmp_lt_iff _ _).mpr this]
    · have ht' : (AbsHeap.tyOf a != AbsHeap.tyOf b) = true := by simp [ht]
      simp only [ht', if_true]
      by_cases hgt : AbsHeap.tyOf a > AbsHeap.tyOf b
      · simp [hgt, ordOfInt, (natCmp_gt_iff _ _).mpr hgt, Ordering.then]
      · have : AbsHeap.tyOf a < AbsHeap.tyOf b := by omega
        simp [hgt, ordOfInt, (natCmp_lt_iff _ _).mpr this, Ordering.then]

theorem absRest_swap (a b : UInt64) (ht : AbsHeap.tyOf a = AbsHeap.tyOf b) : absRest b a = (absRest a b).swap := by
  unfold absRest
  rw [← ht]
  cases hh : (AbsHeap.hooks (AbsHeap.tyOf a)).compare with
  | none => exact natCmp_swap _ _
  | some f => exact LawfulAbstract.cmp_swap _ f hh _ _

theorem cmpAbs_swap (a b : UInt64) : ordOfInt (compareAbstract b a) = (ordOfInt (compareAbstract a b)).swap := by
  rw [cmpAbs_then, cmpAbs_then, swap_then', ← natCmp_swap]
  by_cases ht : AbsHeap.tyOf a = AbsHeap.tyOf b
  · rw [absRest_swap a b ht]
  · have : natCmp (AbsHeap.tyOf b) (AbsHeap.tyOf a) ≠ .eq := fun e => ht ((natCmp_eq_iff _ _).mp e).symm
    rw [then_of_ne_eq _ _ this, then_of_ne_eq _ _ this]

theorem cmpAbs_tri (a b c : UInt64) :
    Tri (ordOfInt (compareAbstract a b)) (ordOfInt (compareAbstract b c)) (ordOfInt (compareAbstract a c)) := by
  rw [cmpAbs_then, cmpAbs_then, cmpAbs_then]
  refine Tri.then' (tri_natCmp _ _ _) (fun h1 h2 _ => ?_)
  have hab := (natCmp_eq_iff _ _).mp h1
  have hbc := (natCmp_eq_iff _ _).mp h2
  unfold absRest
  rw [← hab]
  cases hh : (AbsHeap.hooks (AbsHeap.tyOf a)).compare with
  | none => exact tri_natCmp _ _ _
  | some f => exact LawfulAbstract.cmp_tri _ f hh _ _ _

/-- equal abstracts (janet_compare_abstract = 0) hash alike -/
theorem eqAbs_hash (a b : UInt64) (h : compareAbstract a b = 0) : hashAbstract a = hashAbstract b := by
  by_cases hab : a = b
  · rw [hab]
  · have h' := (ordOfInt_eq_iff _).mpr h
    rw [cmpAbs_then, then_eq_iff, natCmp_eq_iff] at h'
    obtain ⟨ht, hr⟩ := h'
    unfold absRest at hr
    cases hh : (AbsHeap.hooks (AbsHeap.tyOf a)).compare with
    | none =>
      rw [hh] at hr
      exact absurd (UInt64.toNat_inj.mp ((natCmp_eq_iff _ _).mp hr)) hab
    | some f =>
      rw [hh] at hr
      obtain ⟨hf, hhash, hc⟩ := LawfulAbstract.hash_congr _ f hh
      unfold hashAbstract
      rw [← ht, hhash]
      exact hc _ _ ((ordOfInt_eq_iff _).mp hr)

end abs

/-! ### all leaves -/

variable {N : Type}

theorem Leaf.tag_ne' (a : Leaf N) : a.tag ≠ tyTuple ∧ a.tag ≠ tyStruct := by
  cases a <;> simp only [Leaf.tag] <;>
    first | decide | exact ⟨(ref_tag_ne _).2.2.2.2.2.2.1, (ref_tag_ne _).2.2.2.2.2.2.2⟩

/-- leaves with the same type tag are built by the same constructor -/
theorem sameTagLeaf_cases {motive : Leaf N → Leaf N → Prop} (a b : Leaf N) (h : a.tag = b.tag)
    (num : ∀ x y, motive (.num x) (.num y)) (nil : motive .nil .nil) (bool : ∀ x y, motive (.bool x) (.bool y))
    (str : ∀ x y, motive (.str x) (.str y)) (sym : ∀ x y, motive (.sym x) (.sym y)) (kw : ∀ x y, motive (.kw x) (.kw y))
    (ref : ∀ k b1 b2, motive (.ref k b1) (.ref k b2)) (abs : ∀ x y, motive (.abs x) (.abs y)) : motive a b := by
  cases a <;> cases b <;>
    simp only [Leaf.tag, tyNumber, tyNil, tyBoolean, tyString, tySymbol, tyKeyword, tyAbstract] at h <;>
    first
    | (exact absurd h (by decide))
    | apply num | exact nil | apply bool | apply str | apply sym | apply kw | apply abs
    | (rename_i k1 _ k2 _; have := RefKind.tag_inj k1 k2 h; subst this; apply ref)
    | (have hk := ref_tag_ne ‹RefKind›; have : RefKind.tag ‹RefKind› ≠ 14 := by cases ‹RefKind› <;> decide
       omega)

variable [NumLike N] [AbsHeap]

theorem Leaf.cmp_tag' (a b : Leaf N) (h : a.tag ≠ b.tag) : Leaf.cmp a b = natCmp a.tag b.tag := by
  cases a <;> cases b <;> simp [Leaf.cmp, natCmp, Leaf.tag] at h ⊢ <;> (try rfl)
  rename_i k1 b1 k2 b2
  simp only [h, if_false]
  by_cases h3 : k1.tag < k2.tag
  · simp [h3]
  · have : k2.tag < k1.tag := by omega
    simp [h3, this]

theorem Leaf.cmp_tag_then (a b : Leaf N) : Leaf.cmp a b = (natCmp a.tag b.tag).then (Leaf.cmp a b) := by
  by_cases h : a.tag = b.tag
  · rw [h, (natCmp_eq_iff _ _).mpr rfl]; rfl
  · rw [Leaf.cmp_tag' a b h]
    have : natCmp a.tag b.tag ≠ .eq := fun e => h ((natCmp_eq_iff _ _).mp e)
    cases hc : natCmp a.tag b.tag <;> simp_all [Ordering.then]

theorem Leaf.cmp_ref (k1 k2 : RefKind) (b1 b2 : UInt64) :
    Leaf.cmp (.ref k1 b1 : Leaf N) (.ref k2 b2) = (natCmp k1.tag k2.tag).then (natCmp b1.toNat b2.toNat) := by
  have := jcompare_ref (N := N) k1 k2 b1 b2
  simpa [jcompare, Leaf.cmp] using this

theorem Leaf.eq_tag' (a b : Leaf N) (h : Leaf.eq a b = true) : a.tag = b.tag := by
  cases a <;> cases b <;> simp [Leaf.eq] at h <;> simp [Leaf.tag, h]

theorem Leaf.eq_isNil' (a b : Leaf N) (h : Leaf.eq a b = true) : a.isNil = b.isNil := by
  cases a <;> cases b <;> simp [Leaf.eq] at h <;> rfl

variable [LawfulNum N] [LawfulAbstract]

theorem Leaf.cmp_swap' (a b : Leaf N) : Leaf.cmp b a = (Leaf.cmp a b).swap := by
  by_cases h : a.tag = b.tag
  · refine sameTagLeaf_cases (motive := fun a b => Leaf.cmp b a = (Leaf.cmp a b).swap) a b h ?_ ?_ ?_ ?_ ?_ ?_ ?_ ?_
    · intro x y; simp only [Leaf.cmp]; exact numCmp_swap x y
    · rfl
    · intro x y; simp only [Leaf.cmp, compare_nat_eq]; exact natCmp_swap _ _
    · intro x y; simp only [Leaf.cmp]; exact bytesCompare_swap x y
    · intro x y; simp only [Leaf.cmp]; exact bytesCompare_swap x y
    · intro x y; simp only [Leaf.cmp]; exact bytesCompare_swap x y
    · intro k b1 b2; rw [Leaf.cmp_ref, Leaf.cmp_ref, swap_then', natCmp_swap b1.toNat, ← natCmp_swap k.tag]
    · intro x y; simp only [Leaf.cmp]; exact cmpAbs_swap x y
  · rw [Leaf.cmp_tag' a b h, Leaf.cmp_tag' b a (Ne.symm h), natCmp_swap]

omit [LawfulNum N] [LawfulAbstract] in
theorem Leaf.cmp_eq_iff' (a b : Leaf N) : Leaf.cmp a b = .eq ↔ Leaf.eq a b = true := by
  by_cases h : a.tag = b.tag
  · refine sameTagLeaf_cases (motive := fun a b => Leaf.cmp a b = .eq ↔ Leaf.eq a b = true) a b h ?_ ?_ ?_ ?_ ?_ ?_ ?_ ?_
    · intro x y; simp only [Leaf.cmp, Leaf.eq]; exact numCmp_eq_iff x y
    · simp [Leaf.cmp, Leaf.eq]
    · intro x y; simp only [Leaf.cmp, Leaf.eq, compare_nat_eq, natCmp_eq_iff]; cases x <;> cases y <;> simp
    · intro x y; simp only [Leaf.cmp, Leaf.eq, bytesCompare_eq_iff, bytesEqual_eq, beq_iff_eq]
    · intro x y; simp only [Leaf.cmp, Leaf.eq, bytesCompare_eq_iff, beq_iff_eq]
    · intro x y; simp only [Leaf.cmp, Leaf.eq, bytesCompare_eq_iff, beq_iff_eq]
    · intro k b1 b2
      rw [Leaf.cmp_ref, then_eq_iff, natCmp_eq_iff, natCmp_eq_iff]
      simp [Leaf.eq, UInt64.toNat_inj]
    · intro x y; simp only [Leaf.cmp, Leaf.eq, ordOfInt_eq_iff, beq_iff_eq]
  · rw [Leaf.cmp_tag' a b h]
    have h1 : natCmp a.tag b.tag ≠ .eq := fun e => h ((natCmp_eq_iff _ _).mp e)
    have h2 : Leaf.eq a b ≠ true := fun e => h (Leaf.eq_tag' a b e)
    simp [h1, h2]

/-- closes a goal whose hypothesis equates the type tags of two different leaf constructors -/
macro "leaftagelim " h:ident : tactic =>
  `(tactic| (simp only [Leaf.tag, tyNumber, tyNil, tyBoolean, tyString, tySymbol, tyKeyword, tyAbstract] at $h:ident;
             first | exact absurd $h (by decide)
                   | (have hk := ref_tag_ne ‹RefKind›; have : RefKind.tag ‹RefKind› ≠ 14 := by cases ‹RefKind› <;> decide
                      omega)))

theorem Leaf.cmp_tri' (a b c : Leaf N) : Tri (Leaf.cmp a b) (Leaf.cmp b c) (Leaf.cmp a c) := by
  rw [Leaf.cmp_tag_then a b, Leaf.cmp_tag_then b c, Leaf.cmp_tag_then a c]
  refine Tri.then' (tri_natCmp _ _ _) ?_
  intro h1 h2 _
  have hab := (natCmp_eq_iff _ _).mp h1
  have hbc := (natCmp_eq_iff _ _).mp h2
  clear h1 h2
  revert hbc
  refine sameTagLeaf_cases (motive := fun a b => b.tag = c.tag → Tri (Leaf.cmp a b) (Leaf.cmp b c) (Leaf.cmp a c)) a b hab
    ?_ ?_ ?_ ?_ ?_ ?_ ?_ ?_
  · intro x y hbc
    cases c <;> first | leaftagelim hbc | skip
    simp only [Leaf.cmp]; exact tri_num _ _ _
  · intro hbc
    cases c <;> first | leaftagelim hbc | skip
    simp [Leaf.cmp, Tri]
  · intro x y hbc
    cases c <;> first | leaftagelim hbc | skip
    simp only [Leaf.cmp, compare_nat_eq]; exact tri_natCmp _ _ _
  · intro x y hbc
    cases c <;> first | leaftagelim hbc | skip
    simp only [Leaf.cmp]; exact tri_bytes _ _ _
  · intro x y hbc
    cases c <;> first | leaftagelim hbc | skip
    simp only [Leaf.cmp]; exact tri_bytes _ _ _
  · intro x y hbc
    cases c <;> first | leaftagelim hbc | skip
    simp only [Leaf.cmp]; exact tri_bytes _ _ _
  · intro k b1 b2 hbc
    cases c <;> first | leaftagelim hbc | skip
    simp only [Leaf.cmp_ref]
    exact Tri.then' (tri_natCmp _ _ _) (fun _ _ _ => tri_natCmp _ _ _)
  · intro x y hbc
    cases c <;> first | leaftagelim hbc | skip
    simp only [Leaf.cmp]; exact cmpAbs_tri _ _ _

theorem Leaf.eq_hash' (a b : Leaf N) (h : Leaf.eq a b = true) : Leaf.hash a = Leaf.hash b := by
  cases a <;> cases b <;> simp [Leaf.eq] at h
  · simp [Leaf.hash, LawfulNum.eq_norm _ _ h]
  · rfl
  · simp [h]
  · rw [bytesEqual_eq] at h; simp at h; simp [h]
  · simp [h]
  · simp [h]
  · simp [Leaf.hash, h.2]
  · simp only [Leaf.hash]; exact eqAbs_hash _ _ h

/-- the leaves of value.c, with lawful numbers and lawful abstract hooks, are lawful -/
instance : LawfulLeaf (Leaf N) where
  tag_ne := Leaf.tag_ne'
  cmp_tag := Leaf.cmp_tag'
  cmp_swap := Leaf.cmp_swap'
  cmp_tri := Leaf.cmp_tri'
  cmp_eq_iff := Leaf.cmp_eq_iff'
  eq_hash := Leaf.eq_hash'
  eq_isNil := Leaf.eq_isNil'
  eq_tag := Leaf.eq_tag'

end JanetModel.Value
