/- C03 — the laws of `=` / hash / compare for values over ANY lawful leaf type (`LawfulLeaf`): the container part of value.c
   (tuples, structs, prototypes, the hash / length short-cuts) preserves the laws of the leaves.
   Same architecture as Value/Lemmas.lean + Value/Order.lean, with three constructors instead of nine. -/
import JanetModel.Value.Abstract
import JanetModel.Value.Order

namespace JanetModel.Value
open JanetModel.Gen.Value

/-- what the container code needs of the leaves: different types are ordered by type tag, `cmp` is a total preorder whose
    equality is `eq`, `eq`-equal leaves hash alike (and are both nil or both not: struct length counts non-nil keys) -/
class LawfulLeaf (L : Type) [LeafOps L] : Prop where
  tag_ne : ∀ a : L, LeafOps.tag a ≠ tyTuple ∧ LeafOps.tag a ≠ tyStruct
  cmp_tag : ∀ a b : L, LeafOps.tag a ≠ LeafOps.tag b → LeafOps.cmp a b = natCmp (LeafOps.tag a) (LeafOps.tag b)
  cmp_swap : ∀ a b : L, LeafOps.cmp b a = (LeafOps.cmp a b).swap
  cmp_tri : ∀ a b c : L, Tri (LeafOps.cmp a b) (LeafOps.cmp b c) (LeafOps.cmp a c)
  cmp_eq_iff : ∀ a b : L, LeafOps.cmp a b = .eq ↔ LeafOps.eq a b = true
  eq_hash : ∀ a b : L, LeafOps.eq a b = true → LeafOps.hash a = LeafOps.hash b
  eq_isNil : ∀ a b : L, LeafOps.eq a b = true → LeafOps.isNil a = LeafOps.isNil b
  eq_tag : ∀ a b : L, LeafOps.eq a b = true → LeafOps.tag a = LeafOps.tag b

variable {L : Type} [LeafOps L]

mutual
/-- content equality over leaves: no hashes, no lengths, no layout short-cuts -/
def contentEqL : LVal L → LVal L → Bool
  | .leaf a, .leaf b => LeafOps.eq a b
  | .tuple br1 xs, .tuple br2 ys => br1 == br2 && contentEqListL xs ys
  | .struct f1 p1, .struct f2 p2 => contentEqListL f1 f2 && contentEqListL p1 p2
  | _, _ => false
def contentEqListL : List (LVal L) → List (LVal L) → Bool
  | [], [] => true
  | x :: xs, y :: ys => contentEqL x y && contentEqListL xs ys
  | _, _ => false
end

omit [LeafOps L] in
theorem LVal.induct {P : LVal L → Prop} {Q : List (LVal L) → Prop}
    (leaf : ∀ l, P (.leaf l)) (tuple : ∀ br xs, Q xs → P (.tuple br xs)) (struct : ∀ f p, Q f → Q p → P (.struct f p))
    (lnil : Q []) (lcons : ∀ x xs, P x → Q xs → Q (x :: xs)) : (∀ a, P a) ∧ (∀ l, Q l) :=
  ⟨fun a => LVal.rec (motive_1 := P) (motive_2 := Q) leaf tuple struct lnil lcons a,
   fun l => LVal.rec_1 (motive_1 := P) (motive_2 := Q) leaf tuple struct lnil lcons l⟩

theorem contentEqListL_length : ∀ (l m : List (LVal L)), contentEqListL l m = true → l.length = m.length
  | [], [], _ => rfl
  | [], _ :: _, h => by simp [contentEqListL] at h
  | _ :: _, [], h => by simp [contentEqListL] at h
  | _ :: xs, _ :: ys, h => by
      simp [contentEqListL] at h
      simp [contentEqListL_length xs ys h.2]

theorem contentEqListL_isEmpty (l m : List (LVal L)) (h : contentEqListL l m = true) : l.isEmpty = m.isEmpty := by
  cases l <;> cases m <;> simp [contentEqListL] at h <;> rfl

/-- the prototype term of a struct hash -/
def protoHashL (p : List (LVal L)) : UInt32 :=
  match p with
  | [] => 0
  | q :: _ => protoMul.toUInt32 * hashL q

theorem hashL_struct (f p : List (LVal L)) : hashL (.struct f p) = hashFoldL kvSeed.toUInt32 f + protoHashL p := by
  cases p <;> simp [hashL, protoHashL]

theorem hashL_tuple (br : Bool) (xs : List (LVal L)) : hashL (.tuple br xs) = tupleHashL xs + (if br then 1 else 0) := by
  simp [hashL, tupleHashL]

variable [LawfulLeaf L]

theorem leaf_eq_refl (a : L) : LeafOps.eq a a = true := by
  rw [← LawfulLeaf.cmp_eq_iff]
  have h := LawfulLeaf.cmp_swap a a
  cases hc : LeafOps.cmp a a <;> simp_all

theorem leaf_eq_symm (a b : L) : LeafOps.eq a b = LeafOps.eq b a := by
  have h := LawfulLeaf.cmp_swap a b
  have h1 := LawfulLeaf.cmp_eq_iff a b
  have h2 := LawfulLeaf.cmp_eq_iff b a
  cases hc : LeafOps.cmp a b <;> cases he : LeafOps.eq a b <;> cases he' : LeafOps.eq b a <;> simp_all

theorem leaf_eq_trans (a b c : L) (h1 : LeafOps.eq a b = true) (h2 : LeafOps.eq b c = true) : LeafOps.eq a c = true := by
  rw [← LawfulLeaf.cmp_eq_iff] at *
  exact (LawfulLeaf.cmp_tri a b c).2.2.2 h1 h2

theorem contentEqL_isNil (a b : LVal L) (h : contentEqL a b = true) : a.isNil = b.isNil := by
  cases a <;> cases b <;> simp [contentEqL] at h <;> try rfl
  exact LawfulLeaf.eq_isNil _ _ h

theorem contentEqListL_structLength : ∀ (l m : List (LVal L)), contentEqListL l m = true → structLengthL l = structLengthL m
  | [], [], _ => rfl
  | [], _ :: _, h => by simp [contentEqListL] at h
  | [_], [], h => by simp [contentEqListL] at h
  | [_], [_], _ => by simp [structLengthL]
  | [_], _ :: _ :: _, h => by simp [contentEqListL] at h
  | _ :: _ :: _, [], h => by simp [contentEqListL] at h
  | _ :: _ :: _, [_], h => by simp [contentEqListL] at h
  | k :: _ :: rest, k' :: _ :: rest', h => by
      simp [contentEqListL] at h
      simp [structLengthL, contentEqL_isNil k k' h.1, contentEqListL_structLength rest rest' h.2.2]

theorem contentEqL_refl_both : (∀ a : LVal L, contentEqL a a = true) ∧ (∀ l : List (LVal L), contentEqListL l l = true) := by
  apply LVal.induct <;> intros <;> simp_all [contentEqL, contentEqListL, leaf_eq_refl]

theorem contentEqL_symm_both :
    (∀ a b : LVal L, contentEqL a b = contentEqL b a) ∧ (∀ l m : List (LVal L), contentEqListL l m = contentEqListL m l) := by
  apply LVal.induct (P := fun a => ∀ b, contentEqL a b = contentEqL b a) (Q := fun l => ∀ m, contentEqListL l m = contentEqListL m l)
  case leaf => intro l b; cases b <;> simp [contentEqL]; exact leaf_eq_symm _ _
  all_goals intros
  all_goals (rename_i b; cases b <;> simp_all [contentEqL, contentEqListL, Bool.beq_comm])

theorem contentEqL_trans_both :
    (∀ a b c : LVal L, contentEqL a b = true → contentEqL b c = true → contentEqL a c = true) ∧
    (∀ l m n : List (LVal L), contentEqListL l m = true → contentEqListL m n = true → contentEqListL l n = true) := by
  apply LVal.induct (P := fun a => ∀ b c, contentEqL a b = true → contentEqL b c = true → contentEqL a c = true)
    (Q := fun l => ∀ m n, contentEqListL l m = true → contentEqListL m n = true → contentEqListL l n = true)
  case leaf =>
    intro l b c hab hbc; cases b <;> simp [contentEqL] at hab; cases c <;> simp [contentEqL] at hbc ⊢
    exact leaf_eq_trans _ _ _ hab hbc
  all_goals intros
  all_goals (rename_i b c hab hbc; cases b <;> simp [contentEqL, contentEqListL] at hab <;> cases c <;> simp [contentEqL, contentEqListL] at hbc ⊢)
  all_goals grind

theorem contentEqL_hash_both :
    (∀ a b : LVal L, contentEqL a b = true → hashL a = hashL b) ∧
    (∀ l m : List (LVal L), contentEqListL l m = true → (∀ h, hashFoldL h l = hashFoldL h m) ∧ protoHashL l = protoHashL m) := by
  apply LVal.induct (P := fun a => ∀ b, contentEqL a b = true → hashL a = hashL b)
    (Q := fun l => ∀ m, contentEqListL l m = true → (∀ h, hashFoldL h l = hashFoldL h m) ∧ protoHashL l = protoHashL m)
  case leaf => intro l b hab; cases b <;> simp [contentEqL] at hab; simp [hashL, LawfulLeaf.eq_hash _ _ hab]
  case tuple =>
    intro br xs ih b hab; cases b <;> simp [contentEqL] at hab
    rw [hashL_tuple, hashL_tuple, tupleHashL, tupleHashL, (ih _ hab.2).1, hab.1]
  case struct =>
    intro f p ihf ihp b hab; cases b <;> simp [contentEqL] at hab
    rw [hashL_struct, hashL_struct, (ihf _ hab.1).1, (ihp _ hab.2).2]
  case lcons =>
    intro x xs ihx ihxs m hab; cases m <;> simp [contentEqListL] at hab
    have hx := ihx _ hab.1
    have hxs := ihxs _ hab.2
    refine ⟨fun h => ?_, ?_⟩
    · simp [hashFoldL, hx, hxs.1]
    · simp [protoHashL, hx]
  case lnil => intro m hab; cases m <;> simp [contentEqListL] at hab; simp

theorem equalsL_eq_contentEqL_both :
    (∀ a b : LVal L, equalsL a b = contentEqL a b) ∧ (∀ l m : List (LVal L), equalsListL l m = contentEqListL l m) := by
  apply LVal.induct (P := fun a => ∀ b, equalsL a b = contentEqL a b) (Q := fun l => ∀ m, equalsListL l m = contentEqListL l m)
  case tuple =>
    intro br xs ih b; cases b <;> simp [equalsL, contentEqL]
    rename_i br2 ys
    rw [ih ys]
    by_cases hc : contentEqListL xs ys = true
    · have h1 : tupleHashL xs = tupleHashL ys := (contentEqL_hash_both.2 xs ys hc).1 _
      have h2 := contentEqListL_length xs ys hc
      simp [hc, h1, h2]
      cases br <;> cases br2 <;> rfl
    · simp at hc; simp [hc]
  case struct =>
    intro f p ihf ihp b; cases b <;> simp [equalsL, contentEqL]
    rename_i f2 p2
    rw [ihf f2, ihp p2]
    by_cases hc : contentEqListL f f2 = true ∧ contentEqListL p p2 = true
    · have h1 : hashL (.struct f p) = hashL (.struct f2 p2) := contentEqL_hash_both.1 _ _ (by simp [contentEqL, hc])
      have h2 := contentEqListL_structLength f f2 hc.1
      have h3 := contentEqListL_isEmpty p p2 hc.2
      simp [hc, h1, h2]
      cases p <;> cases p2 <;> simp_all
    · have : (contentEqListL f f2 && contentEqListL p p2) = false := by
        cases h1 : contentEqListL f f2 <;> cases h2 : contentEqListL p p2 <;> simp_all
      simp [this]
  all_goals intros
  all_goals (rename_i b; cases b <;> simp_all [equalsL, equalsListL, contentEqL, contentEqListL])

/-! ### order -/

omit [LawfulLeaf L] in
theorem jcompareL_tuple (b1 b2 : Bool) (xs ys : List (LVal L)) :
    jcompareL (.tuple b1 xs) (.tuple b2 ys) = (natCmp b1.toNat b2.toNat).then (compareListL xs ys) := by
  cases b1 <;> cases b2 <;> simp [jcompareL, natCmp, Ordering.then]

omit [LawfulLeaf L] in
theorem jcompareL_struct (f1 p1 f2 p2 : List (LVal L)) :
    jcompareL (.struct f1 p1) (.struct f2 p2) =
      (natCmp (f1.length / 2) (f2.length / 2)).then
        ((intCmp (sInt (hashL (.struct f1 p1))) (sInt (hashL (.struct f2 p2)))).then
          ((compareListL f1 f2).then (compareListL p1 p2))) := by
  simp only [jcompareL, sCompare_eq]
  unfold natCmp
  split
  · rfl
  · split
    · simp [Ordering.then]
    · have : ¬ (f2.length / 2 < f1.length / 2) := by omega
      simp only [Ordering.then]
      cases intCmp (sInt (hashL (LVal.struct f1 p1))) (sInt (hashL (LVal.struct f2 p2))) <;> simp
      cases compareListL f1 f2 <;> simp

omit [LawfulLeaf L] in
theorem compareListL_cons (x y : LVal L) (xs ys : List (LVal L)) :
    compareListL (x :: xs) (y :: ys) = (jcompareL x y).then (compareListL xs ys) := by
  simp only [compareListL]
  cases jcompareL x y <;> rfl

omit [LawfulLeaf L] in
theorem natCmp_of_ite (a b : Nat) : (if a < b then Ordering.lt else if a > b then .gt else .eq) = natCmp a b := by
  unfold natCmp; rfl

theorem jcompareL_of_tag_ne (a b : LVal L) (h : a.typeTag ≠ b.typeTag) : jcompareL a b = natCmp a.typeTag b.typeTag := by
  cases a <;> cases b <;> simp only [LVal.typeTag] at h ⊢ <;>
    first
    | (simp only [jcompareL]; exact LawfulLeaf.cmp_tag _ _ h)
    | exact absurd rfl h
    | (simp only [jcompareL, LVal.typeTag]; rfl)

theorem jcompareL_tag_then (a b : LVal L) : jcompareL a b = (natCmp a.typeTag b.typeTag).then (jcompareL a b) := by
  by_cases h : a.typeTag = b.typeTag
  · rw [h, (natCmp_eq_iff _ _).mpr rfl]; rfl
  · rw [jcompareL_of_tag_ne a b h]
    have : natCmp a.typeTag b.typeTag ≠ .eq := fun e => h ((natCmp_eq_iff _ _).mp e)
    cases hc : natCmp a.typeTag b.typeTag <;> simp_all [Ordering.then]

/-- values with the same type tag have the same shape -/
theorem sameTagL_cases {motive : LVal L → LVal L → Prop} (a b : LVal L) (h : a.typeTag = b.typeTag)
    (leaf : ∀ x y, motive (.leaf x) (.leaf y))
    (tuple : ∀ b1 xs b2 ys, motive (.tuple b1 xs) (.tuple b2 ys))
    (struct : ∀ f1 p1 f2 p2, motive (.struct f1 p1) (.struct f2 p2)) : motive a b := by
  cases a <;> cases b <;> simp only [LVal.typeTag] at h
  · apply leaf
  · exact absurd h (LawfulLeaf.tag_ne _).1
  · exact absurd h (LawfulLeaf.tag_ne _).2
  · exact absurd h.symm (LawfulLeaf.tag_ne _).1
  · apply tuple
  · exact absurd h (by decide)
  · exact absurd h.symm (LawfulLeaf.tag_ne _).2
  · exact absurd h (by decide)
  · apply struct

omit [LeafOps L] [LawfulLeaf L] in
theorem LVal.sizeOf_pos [SizeOf L] (a : LVal L) : 1 ≤ sizeOf a := by
  cases a <;> simp <;> omega

theorem swapL_all : ∀ n : Nat,
    (∀ a b : LVal L, sizeOf a + sizeOf b ≤ n → jcompareL b a = (jcompareL a b).swap) ∧
    (∀ l m : List (LVal L), sizeOf l + sizeOf m ≤ n → compareListL m l = (compareListL l m).swap) := by
  intro n
  induction n with
  | zero =>
    constructor
    · intro a b hs; have := LVal.sizeOf_pos a; omega
    · intro l m hs; cases l <;> simp at hs
  | succ n ih =>
    constructor
    · intro a b hs
      by_cases h : a.typeTag = b.typeTag
      · revert hs
        refine sameTagL_cases (motive := fun a b => sizeOf a + sizeOf b ≤ n + 1 → jcompareL b a = (jcompareL a b).swap) a b h ?_ ?_ ?_
        · intro x y _; simp only [jcompareL]; exact LawfulLeaf.cmp_swap x y
        · intro b1 xs b2 ys hs
          rw [jcompareL_tuple, jcompareL_tuple, swap_then', natCmp_swap, ih.2 xs ys (by simp at hs; omega)]
        · intro f1 p1 f2 p2 hs
          rw [jcompareL_struct, jcompareL_struct, swap_then', swap_then', swap_then', natCmp_swap, intCmp_swap,
            ih.2 f1 f2 (by simp at hs; omega), ih.2 p1 p2 (by simp at hs; omega)]
      · rw [jcompareL_of_tag_ne a b h, jcompareL_of_tag_ne b a (Ne.symm h), natCmp_swap]
    · intro l m hs
      cases l <;> cases m
      · rfl
      · rfl
      · rfl
      · rename_i x xs y ys
        rw [compareListL_cons, compareListL_cons, swap_then', ih.1 x y (by simp at hs; omega), ih.2 xs ys (by simp at hs; omega)]

theorem contentEqL_tag (a b : LVal L) (h : contentEqL a b = true) : a.typeTag = b.typeTag := by
  cases a <;> cases b <;> simp [contentEqL] at h <;> simp only [LVal.typeTag]
  exact LawfulLeaf.eq_tag _ _ h

theorem eqiffL_all : ∀ n : Nat,
    (∀ a b : LVal L, sizeOf a + sizeOf b ≤ n → (jcompareL a b = .eq ↔ contentEqL a b = true)) ∧
    (∀ l m : List (LVal L), sizeOf l + sizeOf m ≤ n → (compareListL l m = .eq ↔ contentEqListL l m = true)) := by
  intro n
  induction n with
  | zero =>
    constructor
    · intro a b hs; have := LVal.sizeOf_pos a; omega
    · intro l m hs; cases l <;> simp at hs
  | succ n ih =>
    constructor
    · intro a b hs
      by_cases h : a.typeTag = b.typeTag
      · revert hs
        refine sameTagL_cases (motive := fun a b => sizeOf a + sizeOf b ≤ n + 1 → (jcompareL a b = .eq ↔ contentEqL a b = true)) a b h ?_ ?_ ?_
        · intro x y _; simp only [jcompareL, contentEqL]; exact LawfulLeaf.cmp_eq_iff x y
        · intro b1 xs b2 ys hs
          rw [jcompareL_tuple, then_eq_iff, natCmp_eq_iff, ih.2 xs ys (by simp at hs; omega)]
          cases b1 <;> cases b2 <;> simp [contentEqL]
        · intro f1 p1 f2 p2 hs
          rw [jcompareL_struct, then_eq_iff, then_eq_iff, then_eq_iff, natCmp_eq_iff, intCmp_eq_iff,
            ih.2 f1 f2 (by simp at hs; omega), ih.2 p1 p2 (by simp at hs; omega)]
          simp only [contentEqL, Bool.and_eq_true]
          constructor
          · intro h'; exact ⟨h'.2.2.1, h'.2.2.2⟩
          · intro h'
            have hh : hashL (.struct f1 p1) = hashL (.struct f2 p2) := contentEqL_hash_both.1 _ _ (by simp [contentEqL, h'.1, h'.2])
            exact ⟨by rw [contentEqListL_length f1 f2 h'.1], by rw [hh], h'.1, h'.2⟩
      · rw [jcompareL_of_tag_ne a b h]
        have h1 : natCmp a.typeTag b.typeTag ≠ .eq := fun e => h ((natCmp_eq_iff _ _).mp e)
        have h2 : contentEqL a b ≠ true := fun e => h (contentEqL_tag a b e)
        simp [h1, h2]
    · intro l m hs
      cases l <;> cases m
      · simp [compareListL, contentEqListL]
      · simp [compareListL, contentEqListL]
      · simp [compareListL, contentEqListL]
      · rename_i x xs y ys
        rw [compareListL_cons, then_eq_iff, ih.1 x y (by simp at hs; omega), ih.2 xs ys (by simp at hs; omega)]
        simp [contentEqListL]

theorem triL_all : ∀ n : Nat,
    (∀ a b c : LVal L, sizeOf a + sizeOf b + sizeOf c ≤ n → Tri (jcompareL a b) (jcompareL b c) (jcompareL a c)) ∧
    (∀ l m k : List (LVal L), sizeOf l + sizeOf m + sizeOf k ≤ n → Tri (compareListL l m) (compareListL m k) (compareListL l k)) := by
  intro n
  induction n with
  | zero =>
    constructor
    · intro a b c hs; have := LVal.sizeOf_pos a; omega
    · intro l m k hs; cases l <;> simp at hs
  | succ n ih =>
    constructor
    · intro a b c hs
      rw [jcompareL_tag_then a b, jcompareL_tag_then b c, jcompareL_tag_then a c]
      refine Tri.then' (tri_natCmp _ _ _) ?_
      intro h1 h2 h3
      have hab := (natCmp_eq_iff _ _).mp h1
      have hbc := (natCmp_eq_iff _ _).mp h2
      clear h1 h2 h3
      revert hs hbc
      refine sameTagL_cases (motive := fun a b => sizeOf a + sizeOf b + sizeOf c ≤ n + 1 → b.typeTag = c.typeTag →
        Tri (jcompareL a b) (jcompareL b c) (jcompareL a c)) a b hab ?_ ?_ ?_
      · intro x y hs hbc
        cases c with
        | leaf z => simp only [jcompareL]; exact LawfulLeaf.cmp_tri x y z
        | tuple b3 zs => exact absurd hbc (LawfulLeaf.tag_ne y).1
        | struct f p => exact absurd hbc (LawfulLeaf.tag_ne y).2
      · intro b1 xs b2 ys hs hbc
        cases c with
        | leaf z => exact absurd hbc.symm (LawfulLeaf.tag_ne z).1
        | struct f p => exact absurd hbc (by simp only [LVal.typeTag]; decide)
        | tuple b3 zs =>
          simp only [jcompareL_tuple]
          exact Tri.then' (tri_natCmp _ _ _) (fun _ _ _ => ih.2 xs ys zs (by simp at hs; omega))
      · intro f1 p1 f2 p2 hs hbc
        cases c with
        | leaf z => exact absurd hbc.symm (LawfulLeaf.tag_ne z).2
        | tuple b3 zs => exact absurd hbc (by simp only [LVal.typeTag]; decide)
        | struct f3 p3 =>
          simp only [jcompareL_struct]
          refine Tri.then' (tri_natCmp _ _ _) (fun _ _ _ => Tri.then' (tri_intCmp _ _ _) (fun _ _ _ => ?_))
          exact Tri.then' (ih.2 f1 f2 f3 (by simp at hs; omega)) (fun _ _ _ => ih.2 p1 p2 p3 (by simp at hs; omega))
    · intro l m k hs
      cases l <;> cases m <;> cases k <;> try (simp [compareListL, Tri]; done)
      rename_i x xs y ys z zs
      simp only [compareListL_cons]
      exact Tri.then' (ih.1 x y z (by simp at hs; omega)) (fun _ _ _ => ih.2 xs ys zs (by simp at hs; omega))

end JanetModel.Value
