/- C03 — TERMINATION of the probe loop of `janet_symbol_gen` (src/core/symcache.c).

   `inc_gensym` is "+1" on a little-endian base-62 number (digit order '0'…'9' < 'a'…'z' < 'A'…'Z', read off the REGENERATED
   transitions `Gen.Value.gensymSteps`), so the names `ctr, inc ctr, inc² ctr, …` are pairwise distinct for 62^6 steps; every
   probe that HITS proves one more of them to be a live symbol, and hits do not change which symbols are live; so after
   `cache_count + 1` hits the cache would hold `cache_count + 1` different symbols.  Hence the loop finishes within
   `cache_count + 1` probes whenever `cache_count < 62^6` (the C's `cache_count` is a uint32_t < 2^32 < 62^6). -/
import JanetModel.Value.SymGenLemmas

namespace JanetModel.Value.SymCache
open JanetModel.Gen.Value JanetModel.Value

/-! ### `inc_gensym` is +1 in base 62 -/

/-- value of a counter digit in the order `inc_gensym` walks through them; 62 = not a digit -/
def dval (d : UInt8) : Nat :=
  if 48 ≤ d.toNat ∧ d.toNat ≤ 57 then d.toNat - 48
  else if 97 ≤ d.toNat ∧ d.toNat ≤ 122 then d.toNat - 87
  else if 65 ≤ d.toNat ∧ d.toNat ≤ 90 then d.toNat - 29
  else 62

/-- one position of `inc_gensym` on the regenerated transitions: digit + 1 without carry, or 61 → 0 with carry -/
theorem incDigit_spec_nat : ∀ n, n < 256 → dval n.toUInt8 < 62 →
    (dval n.toUInt8 < 61 → (incDigit n.toUInt8).2 = false ∧ dval (incDigit n.toUInt8).1 = dval n.toUInt8 + 1) ∧
    (dval n.toUInt8 = 61 → (incDigit n.toUInt8).2 = true ∧ dval (incDigit n.toUInt8).1 = 0) := by
  decide +kernel

theorem incDigit_spec (d : UInt8) (h : dval d < 62) :
    (dval d < 61 → (incDigit d).2 = false ∧ dval (incDigit d).1 = dval d + 1) ∧
    (dval d = 61 → (incDigit d).2 = true ∧ dval (incDigit d).1 = 0) := by
  have := incDigit_spec_nat d.toNat (UInt8.toNat_lt d)
  have e : d.toNat.toUInt8 = d := by simp
  rw [e] at this
  exact this h

/-- little-endian base-62 value -/
def valLE : List UInt8 → Nat
  | [] => 0
  | d :: r => dval d + 62 * valLE r

theorem valLE_lt : ∀ ds : List UInt8, (∀ d ∈ ds, dval d < 62) → valLE ds < 62 ^ ds.length
  | [], _ => by simp [valLE]
  | d :: r, h => by
    have h1 := h d (by simp)
    have h2 := valLE_lt r (fun x hx => h x (by simp [hx]))
    simp only [valLE, List.length_cons, Nat.pow_succ]
    omega

theorem incDigits_spec : ∀ ds : List UInt8, (∀ d ∈ ds, dval d < 62) →
    (∀ d ∈ incDigits ds, dval d < 62) ∧ (incDigits ds).length = ds.length ∧
    valLE (incDigits ds) = (valLE ds + 1) % 62 ^ ds.length
  | [], _ => by simp [incDigits, valLE]
  | d :: r, h => by
    have h1 := h d (by simp)
    have hr : ∀ x ∈ r, dval x < 62 := fun x hx => h x (by simp [hx])
    have hlt := valLE_lt r hr
    obtain ⟨ih1, ih2, ih3⟩ := incDigits_spec r hr
    have hs := incDigit_spec d h1
    rcases hid : incDigit d with ⟨d', carry⟩
    rw [hid] at hs
    by_cases h61 : dval d < 61
    · obtain ⟨hc, hv⟩ := hs.1 h61
      simp only at hc hv
      subst hc
      have e : incDigits (d :: r) = d' :: r := by simp [incDigits, hid]
      rw [e]
      refine ⟨fun x hx => ?_, by simp, ?_⟩
      · rcases List.mem_cons.mp hx with e1 | e1
        · subst e1; omega
        · exact hr x e1
      · simp only [valLE, List.length_cons, Nat.pow_succ, hv]
        rw [Nat.mod_eq_of_lt (by omega)]; omega
    · have h61' : dval d = 61 := by omega
      obtain ⟨hc, hv⟩ := hs.2 h61'
      simp only at hc hv
      subst hc
      have e : incDigits (d :: r) = d' :: incDigits r := by simp [incDigits, hid]
      rw [e]
      refine ⟨fun x hx => ?_, by simp [ih2], ?_⟩
      · rcases List.mem_cons.mp hx with e1 | e1
        · subst e1; omega
        · exact ih1 x e1
      · simp only [valLE, List.length_cons, Nat.pow_succ, hv, ih3, h61']
        rw [show 61 + 62 * valLE r + 1 = 62 * (valLE r + 1) by omega, Nat.mul_comm (62 ^ r.length) 62,
          Nat.mul_mod_mul_left]
        omega

/-- a gensym counter: every byte after the first is one of the 62 digits -/
def CounterOK (ctr : List UInt8) : Prop := ∀ d ∈ ctr.tail, dval d < 62

/-- the number the counter name stands for (position sizeof-2 is the least significant digit) -/
def cval (ctr : List UInt8) : Nat := valLE ctr.tail.reverse

theorem cval_lt {ctr : List UInt8} (h : CounterOK ctr) : cval ctr < 62 ^ (ctr.length - 1) := by
  have := valLE_lt ctr.tail.reverse (fun d hd => h d (List.mem_reverse.mp hd))
  simpa [cval] using this

/-- **`inc_gensym` is +1 modulo 62^(number of digits)** -/
theorem incGensym_spec (ctr : List UInt8) (h : CounterOK ctr) :
    CounterOK (incGensym ctr) ∧ (incGensym ctr).length = ctr.length ∧
    cval (incGensym ctr) = (cval ctr + 1) % 62 ^ (ctr.length - 1) := by
  cases ctr with
  | nil => simp [incGensym, CounterOK, cval, valLE]
  | cons u ds =>
    have hd : ∀ d ∈ ds.reverse, dval d < 62 := fun d hd => h d (by simpa using hd)
    obtain ⟨h1, h2, h3⟩ := incDigits_spec ds.reverse hd
    refine ⟨fun d hd' => h1 d (by simpa [incGensym] using hd'), by simp [incGensym, h2], ?_⟩
    simp only [incGensym, cval, List.tail_cons, List.reverse_reverse, h3, List.length_reverse, List.length_cons,
      Nat.add_sub_cancel]

/-- `inc_gensym` n times -/
def incN : Nat → List UInt8 → List UInt8
  | 0, c => c
  | n + 1, c => incN n (incGensym c)

theorem incN_spec : ∀ (n : Nat) (ctr : List UInt8), CounterOK ctr →
    CounterOK (incN n ctr) ∧ (incN n ctr).length = ctr.length ∧
    cval (incN n ctr) = (cval ctr + n) % 62 ^ (ctr.length - 1)
  | 0, ctr, h => ⟨h, rfl, by simp only [incN, Nat.add_zero]; exact (Nat.mod_eq_of_lt (cval_lt h)).symm⟩
  | n + 1, ctr, h => by
    obtain ⟨a1, a2, a3⟩ := incGensym_spec ctr h
    obtain ⟨b1, b2, b3⟩ := incN_spec n (incGensym ctr) a1
    refine ⟨b1, by simp only [incN]; omega, ?_⟩
    simp only [incN]
    rw [b3, a3, a2, Nat.mod_add_mod]
    congr 1; omega

/-- **the first 62^digits counter names are pairwise distinct** -/
theorem incN_ne {ctr : List UInt8} (h : CounterOK ctr) {j k : Nat} (hjk : j < k) (hk : k < 62 ^ (ctr.length - 1)) :
    incN j ctr ≠ incN k ctr := by
  intro e
  have e' : cval (incN k ctr) = cval (incN j ctr) := by rw [e]
  rw [(incN_spec k ctr h).2.2, (incN_spec j ctr h).2.2] at e'
  have := Nat.sub_mod_eq_zero_of_mod_eq e'
  rw [show cval ctr + k - (cval ctr + j) = k - j by omega, Nat.mod_eq_of_lt (by omega)] at this
  omega

/-! ### the probe loop -/

/-- more fuel never changes the result of a loop that finished -/
theorem genLoop_mono : ∀ (fuel k : Nat) (c : Cache) (ctr : List UInt8) (r : Cache × List UInt8 × Option Nat),
    genLoop fuel c ctr = some r → genLoop (fuel + k) c ctr = some r
  | 0, _, _, _, _, h => by simp [genLoop] at h
  | fuel + 1, k, c, ctr, r, h => by
    rw [show fuel + 1 + k = (fuel + k) + 1 by omega]
    rcases hf : find c.slots ctr with ⟨sl, res⟩
    cases res with
    | hit b =>
      simp only [genLoop, hf] at h ⊢
      exact genLoop_mono fuel k _ _ r h
    | miss b =>
      simp only [genLoop, hf] at h ⊢
      exact h

/-- the name the loop settles on is the counter advanced some number of times (fewer than the probes allowed) -/
theorem genLoop_counter : ∀ (fuel : Nat) (c : Cache) (ctr : List UInt8) (c1 : Cache) (ctr' : List UInt8) (b : Option Nat),
    genLoop fuel c ctr = some (c1, ctr', b) → ∃ j, j < fuel ∧ ctr' = incN j ctr
  | 0, _, _, _, _, _, h => by simp [genLoop] at h
  | fuel + 1, c, ctr, c1, ctr', b, h => by
    rcases hf : find c.slots ctr with ⟨sl, res⟩
    cases res with
    | hit b0 =>
      simp only [genLoop, hf] at h
      obtain ⟨j, hj, e⟩ := genLoop_counter fuel _ _ c1 ctr' b h
      exact ⟨j + 1, by omega, by simpa [incN] using e⟩
    | miss b0 =>
      simp only [genLoop, hf, Option.some.injEq, Prod.mk.injEq] at h
      exact ⟨0, by omega, h.2.1.symm⟩

/-- a loop that is still running after `fuel` probes has found `fuel` consecutive counter names, all live in the cache it
    started from (a probe that hits may move the symbol, it never changes which symbols are live) -/
theorem genLoop_none_live : ∀ (fuel : Nat) (c : Cache) (ctr : List UInt8), CInvC c → genLoop fuel c ctr = none →
    ∀ j, j < fuel → ∃ q, Live c.slots q (incN j ctr)
  | 0, _, _, _, _, j, hj => by omega
  | fuel + 1, c, ctr, h, hg, j, hj => by
    by_cases hex : ∃ q, Live c.slots q ctr
    · obtain ⟨q, i, hi⟩ := hex
      obtain ⟨sl', bkt, hf, hb, _, _, _⟩ := find_hit h.inv hi
      obtain ⟨c1, hint, hinv1, hl1⟩ := intern_liveC h ⟨i, hi⟩
      have hc1 : c1 = { c with slots := sl' } := by
        unfold gd at hb
        have : intern c ctr = some ({ c with slots := sl' }, q) := by simp only [intern, hf, hb]
        rw [this] at hint; simp only [Option.some.injEq, Prod.mk.injEq] at hint; exact hint.1.symm
      have hstep : genLoop (fuel + 1) c ctr = genLoop fuel c1 (incGensym ctr) := by
        simp only [genLoop, hf, hc1]
      rw [hstep] at hg
      cases j with
      | zero => exact ⟨q, i, hi⟩
      | succ j =>
        obtain ⟨q', hq'⟩ := genLoop_none_live fuel c1 (incGensym ctr) hinv1 hg j (by omega)
        exact ⟨q', (hl1 q' _).mp hq'⟩
    · have hno : ∀ q, ¬ Live c.slots q ctr := fun q hq => hex ⟨q, hq⟩
      obtain ⟨r, hf, _⟩ := find_miss hno
      simp [genLoop, hf] at hg

/-! ### counting: pairwise different live names are at most `liveCount` many -/

def slotBytes : Slot → Option (List UInt8)
  | .live _ b => some b
  | _ => none

/-- the bytes of the cached symbols, slot by slot -/
def bytesOf (sl : List Slot) : List (List UInt8) := sl.filterMap slotBytes

theorem length_bytesOf : ∀ sl : List Slot, (bytesOf sl).length = liveCount sl
  | [] => rfl
  | a :: l => by
    have ih := length_bytesOf l
    rw [liveCount_cons]
    cases a <;> simp [bytesOf, slotBytes, List.filterMap_cons] at ih ⊢ <;> omega

theorem mem_bytesOf_of_live {sl : List Slot} {q : Nat} {b : List UInt8} (h : Live sl q b) : b ∈ bytesOf sl := by
  obtain ⟨y, hy⟩ := h
  have hlt : y < sl.length := gd_lt (by rw [hy]; simp)
  have hm : Slot.live q b ∈ sl := by
    unfold gd at hy
    rw [List.getD_eq_getElem?_getD, List.getElem?_eq_getElem hlt] at hy
    simp only [Option.getD_some] at hy
    exact hy ▸ List.getElem_mem hlt
  exact List.mem_filterMap.mpr ⟨_, hm, rfl⟩

theorem nodup_map_range {α : Type} (f : Nat → α) (n : Nat) (h : ∀ j k, j < k → k < n → f j ≠ f k) :
    ((List.range n).map f).Nodup := by
  rw [List.Nodup, List.pairwise_map]
  exact (List.pairwise_lt_range (n := n)).imp_of_mem (fun _ hb hlt => h _ _ hlt (List.mem_range.mp hb))

/-- **termination of the probe loop of `janet_symbol_gen`**: `cache_count + 1` probes are enough, and the result does not
    depend on the bound -/
theorem genLoop_terminates {c : Cache} {ctr : List UInt8} (h : CInvC c) (hw : CounterOK ctr)
    (hsmall : c.count < 62 ^ (ctr.length - 1)) :
    ∃ r, ∀ fuel, c.count < fuel → genLoop fuel c ctr = some r := by
  cases hg : genLoop (c.count + 1) c ctr with
  | some r =>
    refine ⟨r, fun fuel hf => ?_⟩
    have := genLoop_mono (c.count + 1) (fuel - (c.count + 1)) c ctr r hg
    rwa [show c.count + 1 + (fuel - (c.count + 1)) = fuel by omega] at this
  | none =>
    exfalso
    have hl := genLoop_none_live (c.count + 1) c ctr h hg
    have hnd : ((List.range (c.count + 1)).map (fun j => incN j ctr)).Nodup :=
      nodup_map_range _ _ (fun j k hjk hk => incN_ne hw hjk (by omega))
    have hsub : (List.range (c.count + 1)).map (fun j => incN j ctr) ⊆ bytesOf c.slots := by
      intro x hx
      obtain ⟨j, hj, e⟩ := List.mem_map.mp hx
      obtain ⟨q, hq⟩ := hl j (List.mem_range.mp hj)
      exact e ▸ mem_bytesOf_of_live hq
    have := hnd.length_le_of_subset hsub
    rw [length_bytesOf, ← h.cnt] at this
    simp only [List.length_map, List.length_range] at this
    omega

/-! ### histories without a probe bound -/

theorem gensymCounterInit_ok : CounterOK gensymCounterInit ∧ gensymCounterInit.length = 7 := by
  refine ⟨?_, by decide⟩
  unfold CounterOK
  decide +kernel

/-- `janet_symbol_gen` keeps the counter a counter -/
theorem gensym_counter {fuel : Nat} {c c' : Cache} {ctr ctr' : List UInt8} {p : Nat} (hw : CounterOK ctr)
    (hg : gensym fuel c ctr = some (c', ctr', p)) : CounterOK ctr' ∧ ctr'.length = ctr.length := by
  unfold gensym at hg
  cases hl : genLoop fuel c ctr with
  | none => simp [hl] at hg
  | some r =>
    obtain ⟨c1, ctr1, b⟩ := r
    obtain ⟨j, _, e⟩ := genLoop_counter fuel c ctr c1 ctr1 b hl
    have hs := incN_spec j ctr hw
    cases b with
    | none => simp [hl] at hg
    | some bk =>
      simp only [hl, Option.map_eq_some_iff, Prod.mk.injEq] at hg
      obtain ⟨_, _, _, e2, _⟩ := hg
      rw [← e2, e]; exact ⟨hs.1, hs.2.1⟩

/-- every history without a probe bound keeps the cache invariant and the counter well-formed, and is realised by a plain
    intern / sweep history -/
theorem runGT_inv : ∀ (ops : List OpG) (s s' : GState), CInvC s.cache → CounterOK s.counter → runGT s ops = some s' →
    CInvC s'.cache ∧ CounterOK s'.counter ∧ s'.counter.length = s.counter.length ∧
      ∃ ops' : List Op, run s.cache ops' = some s'.cache
  | [], s, s', h, hw, hr => by
      simp only [runGT, Option.some.injEq] at hr; subst hr; exact ⟨h, hw, rfl, [], rfl⟩
  | .intern b :: ops, s, s', h, hw, hr => by
      simp only [runGT] at hr
      cases hi : intern s.cache b with
      | none => simp [hi] at hr
      | some r =>
        obtain ⟨c1, p1⟩ := r
        simp only [hi] at hr
        have hinv1 : CInvC c1 := (intern_post h hi).1
        obtain ⟨hfin, hw', hlen, ops', ho⟩ := runGT_inv ops { s with cache := c1 } s' hinv1 hw hr
        exact ⟨hfin, hw', hlen, .intern b :: ops', by simp only [run, hi]; exact ho⟩
  | .sweep b :: ops, s, s', h, hw, hr => by
      simp only [runGT] at hr
      obtain ⟨hfin, hw', hlen, ops', ho⟩ := runGT_inv ops { s with cache := deinit s.cache b } s' (deinit_cnt h b) hw hr
      exact ⟨hfin, hw', hlen, .sweep b :: ops', by simp only [run]; exact ho⟩
  | .gensym :: ops, s, s', h, hw, hr => by
      simp only [runGT] at hr
      cases hg : gensymT s.cache s.counter with
      | none => simp [hg] at hr
      | some r =>
        obtain ⟨c1, ctr1, p1⟩ := r
        simp only [hg] at hr
        obtain ⟨names, _, hrun, _, _, hinv1, _⟩ := gensym_spec _ s.cache s.counter c1 ctr1 p1 h hg
        obtain ⟨hw1, hlen1⟩ := gensym_counter hw hg
        obtain ⟨hfin, hw', hlen, ops', ho⟩ := runGT_inv ops { cache := c1, counter := ctr1 } s' hinv1 hw1 hr
        refine ⟨hfin, hw', by simpa [hlen1] using hlen, (names ++ [ctr1]).map Op.intern ++ ops', ?_⟩
        rw [run_append, hrun]; exact ho

end JanetModel.Value.SymCache
