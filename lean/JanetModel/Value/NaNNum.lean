/- C03 — numbers WITH NaN.

   `LawfulNum` (Lemmas.lean) is the list of laws of IEEE doubles other than NaN, and every general theorem of Props/C03 is
   stated for a number type satisfying it.  Here NaN is part of the number type: `LawfulNaNNum` is the list of laws that ALL
   doubles satisfy (NaN is `==` to nothing, `<` nothing, and nothing is `<` NaN; the order laws hold among the others),
   `isnan x` is `x != x` as in C, and the non-NaN elements of such a type (`NonNaN N`, a subtype) form a `LawfulNum`.
   `Value/NaN.lean` embeds `JVal (NonNaN N)` into `JVal N` and carries every law over to the NaN-free values of `JVal N`. -/
import JanetModel.Value.Lemmas

namespace JanetModel.Value

/-- `isnan(x)`: for IEEE doubles exactly `x != x` (struct.c / table.c use `isnan`, value.c uses `==`) -/
def NumLike.isNaN {N : Type} [NumLike N] (n : N) : Bool := !NumLike.eq n n

/-- the laws of IEEE doubles INCLUDING NaN: an element that is not `==` to itself (a NaN) is unordered with respect to
    everything; on the other elements `==` is an equivalence, `<` a strict order total modulo `==`, and `==`-equal elements
    have the same bit pattern after `+= 0.0` -/
class LawfulNaNNum (N : Type) [NumLike N] : Prop where
  nan_eq_left : ∀ a b : N, NumLike.eq a a = false → NumLike.eq a b = false
  nan_eq_right : ∀ a b : N, NumLike.eq b b = false → NumLike.eq a b = false
  nan_lt_left : ∀ a b : N, NumLike.eq a a = false → NumLike.lt a b = false
  nan_lt_right : ∀ a b : N, NumLike.eq b b = false → NumLike.lt a b = false
  eq_symm : ∀ a b : N, NumLike.eq a b = NumLike.eq b a
  eq_trans : ∀ a b c : N, NumLike.eq a b = true → NumLike.eq b c = true → NumLike.eq a c = true
  lt_not_eq : ∀ a b : N, NumLike.lt a b = true → NumLike.eq a b = false
  lt_asymm : ∀ a b : N, NumLike.lt a b = true → NumLike.lt b a = false
  lt_total : ∀ a b : N, NumLike.eq a a = true → NumLike.eq b b = true → NumLike.eq a b = false → NumLike.lt a b = false →
    NumLike.lt b a = true
  lt_trans : ∀ a b c : N, NumLike.lt a b = true → NumLike.lt b c = true → NumLike.lt a c = true
  lt_congr_left : ∀ a b c : N, NumLike.eq a b = true → NumLike.lt a c = NumLike.lt b c
  lt_congr_right : ∀ a b c : N, NumLike.eq a b = true → NumLike.lt c a = NumLike.lt c b
  eq_norm : ∀ a b : N, NumLike.eq a b = true → NumLike.normBits a = NumLike.normBits b

/-- the elements of a number type other than NaN -/
def NonNaN (N : Type) [NumLike N] : Type := { n : N // NumLike.eq n n = true }

instance {N : Type} [NumLike N] : NumLike (NonNaN N) where
  eq a b := NumLike.eq a.1 b.1
  lt a b := NumLike.lt a.1 b.1
  normBits a := NumLike.normBits a.1

/-- **doubles other than NaN are lawful** -/
instance {N : Type} [NumLike N] [LawfulNaNNum N] : LawfulNum (NonNaN N) where
  eq_refl a := a.2
  eq_symm a b := LawfulNaNNum.eq_symm a.1 b.1
  eq_trans a b c := LawfulNaNNum.eq_trans a.1 b.1 c.1
  lt_not_eq a b := LawfulNaNNum.lt_not_eq a.1 b.1
  lt_asymm a b := LawfulNaNNum.lt_asymm a.1 b.1
  lt_total a b := LawfulNaNNum.lt_total a.1 b.1 a.2 b.2
  lt_trans a b c := LawfulNaNNum.lt_trans a.1 b.1 c.1
  lt_congr_left a b c := LawfulNaNNum.lt_congr_left a.1 b.1 c.1
  lt_congr_right a b c := LawfulNaNNum.lt_congr_right a.1 b.1 c.1
  eq_norm a b := LawfulNaNNum.eq_norm a.1 b.1

end JanetModel.Value
