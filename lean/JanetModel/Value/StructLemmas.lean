/- C03 — struct construction: general invariants, and the family of key sets on which layout independence of the
   insertion order is checked exhaustively by the kernel. -/
import JanetModel.Value.Struct
import JanetModel.Value.F64

namespace JanetModel.Value
open JanetModel.Gen.Value

variable {N : Type} [NumLike N]

/-- the probe loop never changes the capacity -/
theorem putLoop_length (cap : Nat) (replace : Bool) : ∀ (fuel i dist : Nat) (key value : JVal N) (h : UInt32) (slots : List (Slot N)),
    (putLoop cap replace fuel i dist key value h slots).1.length = slots.length
  | 0, _, _, _, _, _, _ => rfl
  | fuel + 1, i, dist, key, value, h, slots => by
      unfold putLoop
      simp only []
      split
      · simp
      · split
        · rw [putLoop_length cap replace fuel]; simp
        · split <;> simp
        · rw [putLoop_length cap replace fuel]

/-- `janet_struct_put_ext` never changes the capacity chosen by `janet_struct_begin` -/
theorem structPutExt_capacity (st : StructBuild N) (key value : JVal N) (replace : Bool) :
    (structPutExt st key value replace).slots.length = st.slots.length := by
  unfold structPutExt
  simp only []
  split
  · rfl
  · split
    · rfl
    · split
      · rfl
      · simp [putLoop_length]

/-- all permutations of a list (insertion at every position) -/
def permsOf {α : Type} : List α → List (List α)
  | [] => [[]]
  | x :: xs => (permsOf xs).flatMap (fun p => (List.range (p.length + 1)).map (fun i => p.take i ++ x :: p.drop i))

private abbrev K (bs : List UInt8) : JVal F64 := .kw bs
private abbrev S (bs : List UInt8) : JVal F64 := .str bs
private abbrev Y (bs : List UInt8) : JVal F64 := .sym bs
private abbrev D (n : UInt64) : JVal F64 := .num ⟨n⟩

/-- key sets chosen for their collision pattern (homes computed by the model's own `hash`):
    1. "aa"/"b@" as string, keyword, symbol: five keys with the SAME 32-bit hash (tie broken by `janet_compare`), capacity 16
    2. doubles with equal hi⊕lo (same hash) mixed with −0/1.0, capacity 8
    3. :j :r :y — all three at home slot 7 of 8: the run wraps around the end of the array
    4. :i :j :b — homes 6, 7, 0: adjacent runs across the wrap
    5. :b :c :t :a :d — homes 0,0,0,1,1 of 16: two colliding runs that displace each other (robin-hood swaps)
    6. a nested struct and a tuple as keys, a bracketed tuple as value -/
def layoutFamilies : List (List (Slot F64)) :=
  [ [(K [97, 97], D 1), (K [98, 64], D 2), (S [97, 97], D 3), (S [98, 64], D 4), (Y [97, 97], D 5)],
    [(D 0x3FF0000000000000, .bool true), (D 0x3FF0000100000001, .bool false), (D 0x8000000000000000, K [120])],
    [(K [106], D 1), (K [114], D 2), (K [121], D 3)],
    [(K [105], D 1), (K [106], D 2), (K [98], D 3)],
    [(K [98], D 1), (K [99], D 2), (K [116], D 3), (K [97], D 4), (K [100], D 5)],
    [(.tuple false [D 0, K [97]], .tuple true [D 1]), (.struct [K [97], D 1, .nil, .nil] [], K [98]), (K [97], S [])] ]

/-- six small integers (27 16 23 56 0 55) forming one probe cluster of capacity 16 in which a key from an earlier bucket
    evicts a resident whose successor shares the resident's home bucket: the displaced key must travel on with ITS OWN
    hash (struct.c `hash = otherhash;`) for the layout to be independent of the insertion order -/
def clusterFamily : List (Slot F64) :=
  [(D 0x403B000000000000, D 1), (D 0x4030000000000000, D 2), (D 0x4037000000000000, D 3),
   (D 0x404C000000000000, D 4), (D 0, D 5), (D 0x404B800000000000, D 6)]

end JanetModel.Value
