/- C03 — model of struct construction: struct.c janet_struct_begin / janet_struct_put_ext / janet_struct_end.
   CORE LEAN ONLY (linked into the driver). -/
import JanetModel.Value.Model

namespace JanetModel.Value
open JanetModel.Gen.Value

variable {N : Type} [NumLike N]

abbrev Slot (N : Type) := JVal N × JVal N

/-- a struct under construction (JanetStructHead between `janet_struct_begin` and `janet_struct_end`):
    `count` is the temporary element count the C keeps in the `hash` field, `length` the count passed to begin -/
structure StructBuild (N : Type) where
  slots : List (Slot N)
  count : Nat
  length : Nat
  proto : List (JVal N)

def emptySlot : Slot N := (.nil, .nil)

/-- `janet_struct_begin(count)` (no overflow: count < 2^29) -/
def structBegin (count : Nat) : StructBuild N :=
  { slots := List.replicate (tablen (2 * count)) emptySlot, count := 0, length := count, proto := [] }

/-- is this key refused by `janet_struct_put_ext` (`janet_checktype(key, JANET_NUMBER) && isnan(…)`)?  `isnan x` is
    `x != x` (`NumLike.isNaN`, Value/NaNNum.lean); false for every lawful (NaN-free) number type, true for the NaN patterns
    of `F64`.  Only a NaN at top level is refused: a tuple holding NaN is accepted as a key. -/
def isNaNKey : JVal N → Bool
  | .num n => !(NumLike.eq n n)
  | _ => false

/-- three-way priority of the travelling pair against the resident of slot `i`
    (struct.c: `dist` vs `otherdist`, then `hash` vs `otherhash` as int32, then `janet_compare`) -/
def putStatus (dist otherdist : Nat) (hash otherhash : UInt32) (key other : JVal N) : Ordering :=
  if dist < otherdist then .lt
  else if otherdist < dist then .gt
  else if sInt hash < sInt otherhash then .lt
  else if sInt otherhash < sInt hash then .gt
  else jcompare key other

/-- the two nested `for` loops of `janet_struct_put_ext`: `cap` probes starting at `index`, wrapping at `cap`.
    Returns the new slot array and whether an empty slot was filled (`janet_struct_hash(st)++`). -/
def putLoop (cap : Nat) (replace : Bool) :
    (fuel : Nat) → (i dist : Nat) → (key value : JVal N) → (hash : UInt32) → List (Slot N) → List (Slot N) × Bool
  | 0, _, _, _, _, _, slots => (slots, false)
  | fuel + 1, i, dist, key, value, hash, slots =>
    let kv := slots.getD i emptySlot
    if kv.1.isNil then (slots.set i (key, value), true)
    else
      let otherhash := JanetModel.Value.hash kv.1
      let otherindex := mapHash cap otherhash
      let otherdist := (i + cap - otherindex) % cap
      match putStatus dist otherdist hash otherhash key kv.1 with
      | .gt => putLoop cap replace fuel ((i + 1) % cap) (otherdist + 1) kv.1 kv.2 otherhash (slots.set i (key, value))
      | .eq => ((if replace then slots.set i (kv.1, value) else slots), false)
      | .lt => putLoop cap replace fuel ((i + 1) % cap) (dist + 1) key value hash slots

/-- `janet_struct_put_ext` -/
def structPutExt (st : StructBuild N) (key value : JVal N) (replace : Bool) : StructBuild N :=
  let cap := st.slots.length
  let h := hash key
  let index := mapHash cap h
  if key.isNil || value.isNil then st
  else if isNaNKey key then st
  else if st.count == st.length then st   -- "avoid extra items"
  else
    let (slots, added) := putLoop cap replace cap index 0 key value h st.slots
    { st with slots := slots, count := if added then st.count + 1 else st.count }

/-- the early-return guards `structPutExt` implements in front of the probe, in order, and the fields its duplicate-key
    branch writes under `replace` — compared on every run with the lists regenerated from struct.c
    (`Gen.Value.structPutGuards`, `structDupWrites`) by `Props.C03.struct_put_guards_tie` -/
def structPutExt.guards : List String := ["nilKeyOrValue", "nanKey", "full"]
def structPutExt.dupWrites : List String := ["value"]

/-- `janet_struct_put` -/
def structPut (st : StructBuild N) (key value : JVal N) : StructBuild N := structPutExt st key value true

def flatten : List (Slot N) → List (JVal N)
  | [] => []
  | (k, v) :: rest => k :: v :: flatten rest

/-- `janet_struct_end`: rebuild when fewer pairs went in than announced, then (implicitly: `hash` is recomputed from
    the contents in the model) store the hash -/
def structEnd (st : StructBuild N) : JVal N :=
  let st :=
    if st.count != st.length then
      let newst : StructBuild N := structBegin st.count
      let newst := st.slots.foldl (fun acc kv => if kv.1.isNil then acc else structPut acc kv.1 kv.2) newst
      { newst with proto := st.proto }
    else st
  .struct (flatten st.slots) st.proto

/-- what `(struct/with-proto proto k₁ v₁ k₂ v₂ …)` / `(struct …)` / `table/to-struct` build:
    begin(`count`), the puts in order, the prototype, end -/
def structOfCount (count : Nat) (kvs : List (Slot N)) (proto : List (JVal N)) : JVal N :=
  let st := kvs.foldl (fun acc kv => structPut acc kv.1 kv.2) (structBegin count)
  structEnd { st with proto := proto }

def structOf (kvs : List (Slot N)) (proto : List (JVal N) := []) : JVal N := structOfCount kvs.length kvs proto

/-- one level of `struct/proto-flatten` (struct.c cfun_struct_flatten): begin(`count`), `janet_struct_put_ext(…, 0)` in
    order — an existing key KEEPS its value —, end -/
def structOfCountKeep (count : Nat) (kvs : List (Slot N)) : JVal N :=
  structEnd (kvs.foldl (fun acc kv => structPutExt acc kv.1 kv.2 false) (structBegin count))

/-- `janet_struct_find`: slot index holding `key`, or of the first empty slot on its probe path -/
def structFind (slots : List (Slot N)) (key : JVal N) : Option Nat :=
  let cap := slots.length
  let index := mapHash cap (hash key)
  let rec go : Nat → Nat → Option Nat
    | 0, _ => none
    | fuel + 1, i =>
      let kv := slots.getD i emptySlot
      if kv.1.isNil || equals kv.1 key then some i else go fuel ((i + 1) % cap)
  go cap index

end JanetModel.Value
