/- C03 — the executable doubles (`F64`: sign-magnitude reading of the 64-bit pattern) satisfy `LawfulNum`. -/
import JanetModel.Value.Lemmas

namespace JanetModel.Value

theorem F64.key_inj_norm (a b : F64) (h : a.key = b.key) :
    (NumLike.normBits a : UInt64) = NumLike.normBits b := by
  have ha : a.bits.toNat < 18446744073709551616 := a.bits.toNat_lt
  have hb : b.bits.toNat < 18446744073709551616 := b.bits.toNat_lt
  have e1 : ∀ x : UInt64, (x == 0x8000000000000000) = decide (x.toNat = 9223372036854775808) := by
    intro x
    by_cases hx : x = 0x8000000000000000
    · subst hx; decide
    · have : x.toNat ≠ 9223372036854775808 := fun h => hx (UInt64.toNat_inj.mp (by rw [h]; decide))
      simp [hx, this]
  simp only [NumLike.normBits, e1]
  unfold F64.key F64.neg F64.mag at h
  apply UInt64.toNat_inj.mp
  by_cases h1 : a.bits.toNat = 9223372036854775808 <;> by_cases h2 : b.bits.toNat = 9223372036854775808 <;>
    simp only [h1, h2, decide_true, decide_false, if_true, if_false, Bool.false_eq_true] <;>
    (try (show (0 : UInt64).toNat = _; simp)) <;> (try (show _ = (0 : UInt64).toNat; simp)) <;>
    (split at h <;> split at h <;> simp at * <;> omega)

instance : LawfulNum F64 where
  eq_refl a := by simp [NumLike.eq]
  eq_symm a b := by simp [NumLike.eq, Bool.beq_comm]
  eq_trans a b c := by simp [NumLike.eq]; omega
  lt_not_eq a b := by simp [NumLike.eq, NumLike.lt]; omega
  lt_asymm a b := by simp [NumLike.lt]; omega
  lt_total a b := by simp [NumLike.eq, NumLike.lt]; omega
  lt_trans a b c := by simp [NumLike.lt]; omega
  lt_congr_left a b c := by simp [NumLike.eq, NumLike.lt]; intro h; rw [h]
  lt_congr_right a b c := by simp [NumLike.eq, NumLike.lt]; intro h; rw [h]
  eq_norm a b := by
    intro h
    exact F64.key_inj_norm a b (by simpa [NumLike.eq] using h)

end JanetModel.Value
