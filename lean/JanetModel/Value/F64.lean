/- C03 — the executable doubles (`F64`: ALL 64-bit patterns, NaN included, sign-magnitude reading for the order) satisfy
   `LawfulNaNNum`; so the non-NaN patterns `NonNaN F64` satisfy `LawfulNum` (instance in NaNNum.lean). -/
import JanetModel.Value.NaNNum

namespace JanetModel.Value

theorem F64.key_inj_norm (a b : F64) (ha : a.isNaN = false) (hb : b.isNaN = false) (h : a.key = b.key) :
    (NumLike.normBits a : UInt64) = NumLike.normBits b := by
  have hab : a.bits.toNat < 18446744073709551616 := a.bits.toNat_lt
  have hbb : b.bits.toNat < 18446744073709551616 := b.bits.toNat_lt
  have e1 : ∀ x : UInt64, (x == 0x8000000000000000) = decide (x.toNat = 9223372036854775808) := by
    intro x
    by_cases hx : x = 0x8000000000000000
    · subst hx; decide
    · have : x.toNat ≠ 9223372036854775808 := fun h => hx (UInt64.toNat_inj.mp (by rw [h]; decide))
      simp [hx, this]
  simp only [NumLike.normBits, e1, ha, hb, Bool.false_eq_true, if_false]
  unfold F64.key F64.neg F64.mag at h
  apply UInt64.toNat_inj.mp
  by_cases h1 : a.bits.toNat = 9223372036854775808 <;> by_cases h2 : b.bits.toNat = 9223372036854775808 <;>
    simp only [h1, h2, decide_true, decide_false, if_true, if_false, Bool.false_eq_true] <;>
    (try (show (0 : UInt64).toNat = _; simp)) <;> (try (show _ = (0 : UInt64).toNat; simp)) <;>
    (split at h <;> split at h <;> simp at * <;> omega)

theorem F64.eq_iff (a b : F64) : NumLike.eq a b = true ↔ a.isNaN = false ∧ b.isNaN = false ∧ a.key = b.key := by
  simp only [NumLike.eq]
  cases a.isNaN <;> cases b.isNaN <;> simp

theorem F64.lt_iff (a b : F64) : NumLike.lt a b = true ↔ a.isNaN = false ∧ b.isNaN = false ∧ a.key < b.key := by
  simp only [NumLike.lt]
  cases a.isNaN <;> cases b.isNaN <;> simp

theorem F64.eq_false_iff (a b : F64) : NumLike.eq a b = false ↔ ¬ (a.isNaN = false ∧ b.isNaN = false ∧ a.key = b.key) := by
  rw [← F64.eq_iff]; simp

theorem F64.lt_false_iff (a b : F64) : NumLike.lt a b = false ↔ ¬ (a.isNaN = false ∧ b.isNaN = false ∧ a.key < b.key) := by
  rw [← F64.lt_iff]; simp

/-- `isnan` of the model is the IEEE classification of the pattern: exponent all ones, mantissa non-zero -/
theorem F64.isNaN_iff (a : F64) : NumLike.isNaN a = a.isNaN := by
  simp only [NumLike.isNaN, NumLike.eq]
  cases a.isNaN <;> simp

instance : LawfulNaNNum F64 where
  nan_eq_left a b := by rw [F64.eq_false_iff, F64.eq_false_iff]; intro h1 h2; exact h1 ⟨h2.1, h2.1, rfl⟩
  nan_eq_right a b := by rw [F64.eq_false_iff, F64.eq_false_iff]; intro h1 h2; exact h1 ⟨h2.2.1, h2.2.1, rfl⟩
  nan_lt_left a b := by rw [F64.eq_false_iff, F64.lt_false_iff]; intro h1 h2; exact h1 ⟨h2.1, h2.1, rfl⟩
  nan_lt_right a b := by rw [F64.eq_false_iff, F64.lt_false_iff]; intro h1 h2; exact h1 ⟨h2.2.1, h2.2.1, rfl⟩
  eq_symm a b := by
    cases h : NumLike.eq b a
    · rw [F64.eq_false_iff] at h ⊢; intro h2; exact h ⟨h2.2.1, h2.1, h2.2.2.symm⟩
    · rw [F64.eq_iff] at h ⊢; exact ⟨h.2.1, h.1, h.2.2.symm⟩
  eq_trans a b c := by simp only [F64.eq_iff]; intro h1 h2; exact ⟨h1.1, h2.2.1, h1.2.2.trans h2.2.2⟩
  lt_not_eq a b := by rw [F64.lt_iff, F64.eq_false_iff]; intro h1 h2; omega
  lt_asymm a b := by rw [F64.lt_iff, F64.lt_false_iff]; intro h1 h2; omega
  lt_total a b := by
    rw [F64.eq_iff, F64.eq_iff, F64.eq_false_iff, F64.lt_false_iff, F64.lt_iff]
    intro h1 h2 h3 h4
    refine ⟨h2.1, h1.1, ?_⟩
    have : a.key ≠ b.key := fun e => h3 ⟨h1.1, h2.1, e⟩
    have : ¬ a.key < b.key := fun e => h4 ⟨h1.1, h2.1, e⟩
    omega
  lt_trans a b c := by simp only [F64.lt_iff]; intro h1 h2; exact ⟨h1.1, h2.2.1, by omega⟩
  lt_congr_left a b c := by
    rw [F64.eq_iff]; intro h
    cases h2 : NumLike.lt b c
    · rw [F64.lt_false_iff] at h2 ⊢; intro h3; exact h2 ⟨h.2.1, h3.2.1, by omega⟩
    · rw [F64.lt_iff] at h2 ⊢; exact ⟨h.1, h2.2.1, by omega⟩
  lt_congr_right a b c := by
    rw [F64.eq_iff]; intro h
    cases h2 : NumLike.lt c b
    · rw [F64.lt_false_iff] at h2 ⊢; intro h3; exact h2 ⟨h3.1, h.2.1, by omega⟩
    · rw [F64.lt_iff] at h2 ⊢; exact ⟨h2.1, h.1, by omega⟩
  eq_norm a b := by
    rw [F64.eq_iff]; intro h
    exact F64.key_inj_norm a b h.1 h.2.1 h.2.2

end JanetModel.Value
