/- C03 — the hooks of src/core/inttypes.c (`janet_int64_compare`, `janet_uint64_compare`, `janet_int64_hash`) are lawful; what
   janet_compare_abstract does between an s64 and a u64; `JVal N` is the abstract-free fragment of `AVal N`. -/
import JanetModel.Value.AbstractLeaf

namespace JanetModel.Value
open JanetModel.Gen.Value

/-! ### inttypes.c -/

theorem s64_inj (p q : UInt64) (h : s64 p = s64 q) : p = q := by
  apply UInt64.toNat_inj.mp
  have hp := p.toNat_lt
  have hq := q.toNat_lt
  unfold s64 at h
  split at h <;> split at h <;> omega

theorem int64Compare_ord (p q : UInt64) : ordOfInt (int64Compare p q) = intCmp (s64 p) (s64 q) := by
  unfold int64Compare intCmp ordOfInt
  by_cases h1 : s64 p = s64 q
  · simp [h1]
  · by_cases h2 : s64 p < s64 q
    · simp [h1, h2]
    · have : s64 q < s64 p := by omega
      simp [h1, h2, this]

theorem uint64Compare_ord (p q : UInt64) : ordOfInt (uint64Compare p q) = natCmp p.toNat q.toNat := by
  unfold uint64Compare natCmp ordOfInt
  by_cases h1 : p.toNat = q.toNat
  · simp [h1]
  · by_cases h2 : p.toNat < q.toNat
    · simp [h1, h2]
    · have : q.toNat < p.toNat := by omega
      simp [h1, h2, this]

/-- both hooks return −1, 0 or 1 only (so `cmp` / `compare` show the same three numbers as for every other type) -/
theorem int64Compare_range (p q : UInt64) : int64Compare p q = -1 ∨ int64Compare p q = 0 ∨ int64Compare p q = 1 := by
  unfold int64Compare; simp only; split <;> (try split) <;> simp

theorem uint64Compare_range (p q : UInt64) : uint64Compare p q = -1 ∨ uint64Compare p q = 0 ∨ uint64Compare p q = 1 := by
  unfold uint64Compare; simp only; split <;> (try split) <;> simp

/-- `janet_int64_compare` returns 0 exactly on identical 64-bit payloads -/
theorem int64Compare_eq_zero (p q : UInt64) : int64Compare p q = 0 ↔ p = q := by
  rw [← ordOfInt_eq_iff, int64Compare_ord, intCmp_eq_iff]
  exact ⟨s64_inj p q, fun h => by rw [h]⟩

theorem uint64Compare_eq_zero (p q : UInt64) : uint64Compare p q = 0 ↔ p = q := by
  rw [← ordOfInt_eq_iff, uint64Compare_ord, natCmp_eq_iff]
  exact UInt64.toNat_inj

theorem int64Compare_swap (p q : UInt64) : ordOfInt (int64Compare q p) = (ordOfInt (int64Compare p q)).swap := by
  rw [int64Compare_ord, int64Compare_ord, intCmp_swap]
theorem uint64Compare_swap (p q : UInt64) : ordOfInt (uint64Compare q p) = (ordOfInt (uint64Compare p q)).swap := by
  rw [uint64Compare_ord, uint64Compare_ord, natCmp_swap]
theorem int64Compare_tri (p q r : UInt64) :
    Tri (ordOfInt (int64Compare p q)) (ordOfInt (int64Compare q r)) (ordOfInt (int64Compare p r)) := by
  rw [int64Compare_ord, int64Compare_ord, int64Compare_ord]; exact tri_intCmp _ _ _
theorem uint64Compare_tri (p q r : UInt64) :
    Tri (ordOfInt (uint64Compare p q)) (ordOfInt (uint64Compare q r)) (ordOfInt (uint64Compare p r)) := by
  rw [uint64Compare_ord, uint64Compare_ord, uint64Compare_ord]; exact tri_natCmp _ _ _
theorem int64Hash_congr (p q : UInt64) (e : int64Compare p q = 0) : int64Hash p = int64Hash q := by
  rw [(int64Compare_eq_zero p q).mp e]
theorem uint64Hash_congr (p q : UInt64) (e : uint64Compare p q = 0) : int64Hash p = int64Hash q := by
  rw [(uint64Compare_eq_zero p q).mp e]

/-- memory whose payloads are 64-bit words (boxed integers; the payload of any other abstract is never read by a hook) -/
abbrev intHeap (tyOf : UInt64 → Nat) (payload : UInt64 → UInt64) (hooks : Nat → AbsType UInt64) : AbsHeap :=
  intHeapD tyOf payload hooks

/-- THE HOOKS OF inttypes.c ARE LAWFUL: in any memory where every abstract type with a compare hook is `janet_s64_type` or
    `janet_u64_type` (the translator lists every JanetAbstractType initialiser of src/core: these are the only two) -/
theorem intHeap_lawful (tyOf : UInt64 → Nat) (payload : UInt64 → UInt64) (hooks : Nat → AbsType UInt64)
    (hh : ∀ t, (hooks t).compare = none ∨ hooks t = s64Type ∨ hooks t = u64Type) :
    @LawfulAbstract (intHeap tyOf payload hooks) := by
  have key : ∀ t (f : UInt64 → UInt64 → Int), (hooks t).compare = some f →
      (f = int64Compare ∧ (hooks t).hash = some int64Hash) ∨ (f = uint64Compare ∧ (hooks t).hash = some int64Hash) := by
    intro t f hf
    rcases hh t with h | h | h
    · rw [h] at hf; cases hf
    · rw [h] at hf ⊢; exact Or.inl ⟨(Option.some.inj hf).symm, rfl⟩
    · rw [h] at hf ⊢; exact Or.inr ⟨(Option.some.inj hf).symm, rfl⟩
  refine @LawfulAbstract.mk (intHeap tyOf payload hooks) ?_ ?_ ?_
  · intro t f hf p q
    rcases key t f hf with ⟨rfl, _⟩ | ⟨rfl, _⟩
    · exact int64Compare_swap p q
    · exact uint64Compare_swap p q
  · intro t f hf p q r
    rcases key t f hf with ⟨rfl, _⟩ | ⟨rfl, _⟩
    · exact int64Compare_tri p q r
    · exact uint64Compare_tri p q r
  · intro t f hf
    rcases key t f hf with ⟨rfl, h⟩ | ⟨rfl, h⟩
    · exact ⟨int64Hash, h, int64Hash_congr⟩
    · exact ⟨int64Hash, h, uint64Hash_congr⟩

/-- the regenerated table of hooked types (Gen/ValueAbs.lean) resolves to exactly these two types -/
theorem coreHooks_s64 : coreHooks "core/s64" = some s64Type := by rfl
theorem coreHooks_u64 : coreHooks "core/u64" = some u64Type := by rfl

/-! ### between two abstract types -/

section
variable [AbsHeap] [LawfulAbstract]

/-- two abstracts of DIFFERENT types (an s64 and a u64, whatever their payloads) are ordered by the addresses of their
    JanetAbstractType records and are never equal -/
theorem compareAbstract_of_type_ne (a b : UInt64) (h : AbsHeap.tyOf a ≠ AbsHeap.tyOf b) :
    ordOfInt (compareAbstract a b) = natCmp (AbsHeap.tyOf a) (AbsHeap.tyOf b) ∧ compareAbstract a b ≠ 0 := by
  have h1 : natCmp (AbsHeap.tyOf a) (AbsHeap.tyOf b) ≠ .eq := fun e => h ((natCmp_eq_iff _ _).mp e)
  have h2 : ordOfInt (compareAbstract a b) = natCmp (AbsHeap.tyOf a) (AbsHeap.tyOf b) := by
    rw [cmpAbs_then, then_of_ne_eq _ _ h1]
  refine ⟨h2, fun e => h1 ?_⟩
  rw [← h2]; exact (ordOfInt_eq_iff _).mpr e

end

/-! ### `JVal N` inside `AVal N` -/

section embed
variable {N : Type} [NumLike N] [AbsHeap]

omit [NumLike N] [AbsHeap] in
theorem ofJVals_length : ∀ l : List (JVal N), (ofJVals l).length = l.length
  | [] => rfl
  | _ :: xs => by simp [ofJVals, ofJVals_length xs]

theorem ofJVal_isNil (a : JVal N) : (ofJVal a).isNil = a.isNil := by
  cases a <;> rfl

theorem ofJVal_typeTag (a : JVal N) : (ofJVal a).typeTag = a.typeTag := by
  cases a <;> rfl

theorem ofJVals_structLength : ∀ l : List (JVal N), structLengthL (ofJVals l) = structLength l
  | [] => rfl
  | [_] => rfl
  | k :: _ :: rest => by simp [ofJVals, structLengthL, structLength, ofJVal_isNil, ofJVals_structLength rest]

omit [NumLike N] [AbsHeap] in
theorem ofJVals_isEmpty (l : List (JVal N)) : (ofJVals l).isEmpty = l.isEmpty := by
  cases l <;> rfl

theorem ofJVal_hash_both :
    (∀ a : JVal N, hashL (ofJVal a) = hash a) ∧
    (∀ l : List (JVal N), (∀ h, hashFoldL h (ofJVals l) = hashFold h l) ∧ protoHashL (ofJVals l) = protoHash l) := by
  apply JVal.induct
  case tuple => intro br xs ih; simp [ofJVal, hashL, hash, ih.1]
  case struct => intro f p ihf ihp; rw [ofJVal, hashL_struct, hash_struct, ihf.1, ihp.2]
  case lnil => exact ⟨fun _ => rfl, rfl⟩
  case lcons =>
    intro x xs ihx ihxs
    exact ⟨fun h => by simp [ofJVals, hashFoldL, hashFold, ihx, ihxs.1], by simp [ofJVals, protoHashL, protoHash, ihx]⟩
  all_goals (intros; rfl)

theorem ofJVal_equals_both :
    (∀ a b : JVal N, equalsL (ofJVal a) (ofJVal b) = equals a b) ∧
    (∀ l m : List (JVal N), equalsListL (ofJVals l) (ofJVals m) = equalsList l m) := by
  apply JVal.induct (P := fun a => ∀ b, equalsL (ofJVal a) (ofJVal b) = equals a b)
    (Q := fun l => ∀ m, equalsListL (ofJVals l) (ofJVals m) = equalsList l m)
  case tuple =>
    intro br xs ih b; cases b <;> try rfl
    rename_i br2 ys
    simp only [ofJVal, equalsL, equals, tupleHashL, tupleHash, (ofJVal_hash_both.2 _).1, ofJVals_length, ih ys]
    rfl
  case struct =>
    intro f p ihf ihp b; cases b <;> try rfl
    rename_i f2 p2
    have h1 := ofJVal_hash_both.1 (.struct f p)
    have h2 := ofJVal_hash_both.1 (.struct f2 p2)
    simp only [ofJVal] at h1 h2
    simp only [ofJVal, equalsL, equals, h1, h2, ofJVals_structLength, ofJVals_isEmpty, ihf f2, ihp p2]
  case lnil => intro m; cases m <;> rfl
  case lcons =>
    intro x xs ihx ihxs m; cases m
    · rfl
    · simp only [ofJVals, equalsListL, equalsList, ihx, ihxs]
  all_goals (intros; rename_i b; cases b <;> rfl)

theorem ofJVal_compare_both :
    (∀ a b : JVal N, jcompareL (ofJVal a) (ofJVal b) = jcompare a b) ∧
    (∀ l m : List (JVal N), compareListL (ofJVals l) (ofJVals m) = compareList l m) := by
  apply JVal.induct (P := fun a => ∀ b, jcompareL (ofJVal a) (ofJVal b) = jcompare a b)
    (Q := fun l => ∀ m, compareListL (ofJVals l) (ofJVals m) = compareList l m)
  case tuple =>
    intro br xs ih b; cases b <;> try rfl
    rename_i br2 ys
    simp only [ofJVal, jcompareL, jcompare, ih ys]
  case struct =>
    intro f p ihf ihp b; cases b <;> try rfl
    rename_i f2 p2
    have h1 := ofJVal_hash_both.1 (.struct f p)
    have h2 := ofJVal_hash_both.1 (.struct f2 p2)
    simp only [ofJVal] at h1 h2
    simp only [ofJVal, jcompareL, jcompare, h1, h2, ofJVals_length, ihf f2, ihp p2]
    rfl
  case lnil => intro m; cases m <;> rfl
  case lcons =>
    intro x xs ihx ihxs m; cases m
    · rfl
    · simp only [ofJVals, compareListL, compareList, ihx, ihxs]
      rfl
  all_goals (intros; rename_i b; cases b <;> rfl)

end embed

end JanetModel.Value
