/- C03 — the probe loop of `janet_struct_put_ext` runs in lock-step on RELATED slot arrays.

   `putLoop` looks at a key only through `isNil`, `janet_hash` and `janet_compare`, and never looks at a value.  So for
   any relation `R` between slots (possibly of two different number types) that respects those three observations, the
   loop takes the same branch at every step on related inputs and the resulting arrays are related slot by slot
   (`putLoop_rel`); the same for `janet_struct_put_ext`, the rebuild loop of `janet_struct_end`, and a whole construction
   (`structOfCount_rel`).  Three instances are used:
     * `R s s' := s' = φ s` with `φ` changing values only        → the layout does not depend on the values (RobinDup.lean);
     * `R := contentEq` on keys and values                        → `=`-equal insertion sequences give `=` structs;
     * `R s s' := s' = (lift s.1, lift s.2)` for the embedding of the NaN-free numbers into all doubles (NaN.lean). -/
import JanetModel.Value.RobinPerm

namespace JanetModel.Value

section rel
variable {N M : Type} [NumLike N] [NumLike M]

/-- what a relation between slots has to respect for the probe loop to run in lock-step on related arrays -/
structure SlotRel (R : Slot N → Slot M → Prop) : Prop where
  empty : R emptySlot emptySlot
  nil : ∀ s s', R s s' → s.1.isNil = s'.1.isNil
  hash : ∀ s s', R s s' → hash s.1 = hash s'.1
  cmp : ∀ s s' t t', R s s' → R t t' → jcompare s.1 t.1 = jcompare s'.1 t'.1
  /-- the `status == 0` branch writes the travelling value next to the resident key -/
  repl : ∀ s s' t t', R s s' → R t t' → jcompare s.1 t.1 = .eq → R (t.1, s.2) (t'.1, s'.2)

/-- … and for the guards of `janet_struct_put_ext` in front of the loop (nil value, NaN key) -/
structure SlotRelPut (R : Slot N → Slot M → Prop) : Prop extends SlotRel R where
  vnil : ∀ s s', R s s' → s.2.isNil = s'.2.isNil
  nan : ∀ s s', R s s' → isNaNKey s.1 = isNaNKey s'.1

/-- two slot arrays related slot by slot -/
def PW (R : Slot N → Slot M → Prop) (sl : List (Slot N)) (sl' : List (Slot M)) : Prop :=
  sl.length = sl'.length ∧ ∀ i, R (sl.getD i emptySlot) (sl'.getD i emptySlot)

omit [NumLike N] [NumLike M] in
theorem PW.set {R : Slot N → Slot M → Prop} {sl : List (Slot N)} {sl' : List (Slot M)} (h : PW R sl sl')
    {a : Slot N} {a' : Slot M} (ha : R a a') (i : Nat) : PW R (sl.set i a) (sl'.set i a') := by
  refine ⟨by simp [h.1], fun j => ?_⟩
  have e1 := sg_set sl i j a
  have e2 := sg_set sl' i j a'
  unfold sg at e1 e2
  rw [e1, e2, ← h.1]
  by_cases c : i = j ∧ i < sl.length
  · rw [if_pos c, if_pos c]; exact ha
  · rw [if_neg c, if_neg c]; exact h.2 j

omit [NumLike N] [NumLike M] in
theorem PW.replicate {R : Slot N → Slot M → Prop} (he : R emptySlot emptySlot) (n : Nat) :
    PW R (List.replicate n emptySlot) (List.replicate n emptySlot) := by
  refine ⟨by simp, fun i => ?_⟩
  by_cases h : i < n <;> simp [List.getD_eq_getElem?_getD, h, he]

theorem putStatus_eq_cmp {d od : Nat} {h oh : UInt32} {a b : JVal N} (e : putStatus d od h oh a b = .eq) :
    jcompare a b = .eq := by
  unfold putStatus at e
  split at e
  · cases e
  split at e
  · cases e
  split at e
  · cases e
  split at e
  · cases e
  exact e

/-- **the probe loop on related arrays**: same branch at every step, related results, same "filled an empty slot" flag -/
theorem putLoop_rel {R : Slot N → Slot M → Prop} (hR : SlotRel R) (cap : Nat) (replace : Bool) :
    ∀ (fuel i dist : Nat) (key value : JVal N) (key' value' : JVal M) (h : UInt32) (sl : List (Slot N)) (sl' : List (Slot M)),
      PW R sl sl' → R (key, value) (key', value') →
      PW R (putLoop cap replace fuel i dist key value h sl).1 (putLoop cap replace fuel i dist key' value' h sl').1 ∧
      (putLoop cap replace fuel i dist key value h sl).2 = (putLoop cap replace fuel i dist key' value' h sl').2 := by
  intro fuel
  induction fuel with
  | zero => intro i dist key value key' value' h sl sl' hpw _; exact ⟨by simpa [putLoop] using hpw, by simp [putLoop]⟩
  | succ fuel ih =>
    intro i dist key value key' value' h sl sl' hpw hkv
    have hr := hpw.2 i
    have hnil := hR.nil _ _ hr
    have hhash := hR.hash _ _ hr
    have hcmp : jcompare key (sl.getD i emptySlot).1 = jcompare key' (sl'.getD i emptySlot).1 := hR.cmp _ _ _ _ hkv hr
    rw [putLoop, putLoop]
    simp only []
    rw [← hnil]
    by_cases he : (sl.getD i emptySlot).1.isNil = true
    · simp only [he, if_true]
      exact ⟨hpw.set hkv i, trivial⟩
    · simp only [he, Bool.false_eq_true, if_false]
      rw [← hhash]
      have hst : putStatus dist ((i + cap - mapHash cap (hash (sl.getD i emptySlot).1)) % cap) h (hash (sl.getD i emptySlot).1) key
            (sl.getD i emptySlot).1 =
          putStatus dist ((i + cap - mapHash cap (hash (sl.getD i emptySlot).1)) % cap) h (hash (sl.getD i emptySlot).1) key'
            (sl'.getD i emptySlot).1 := by
        unfold putStatus; rw [hcmp]
      rw [← hst]
      cases hs : putStatus dist ((i + cap - mapHash cap (hash (sl.getD i emptySlot).1)) % cap) h (hash (sl.getD i emptySlot).1) key
          (sl.getD i emptySlot).1 with
      | lt => exact ih _ _ key value key' value' h sl sl' hpw hkv
      | gt => exact ih _ _ _ _ _ _ _ _ _ (hpw.set hkv i) hr
      | eq =>
        simp only []
        cases replace with
        | false => exact ⟨hpw, trivial⟩
        | true =>
          simp only [if_true]
          exact ⟨hpw.set (hR.repl _ _ _ _ hkv hr (putStatus_eq_cmp hs)) i, trivial⟩

/-- two structs under construction related field by field -/
def BuildRel (R : Slot N → Slot M → Prop) (RP : List (JVal N) → List (JVal M) → Prop) (st : StructBuild N) (st' : StructBuild M) : Prop :=
  PW R st.slots st'.slots ∧ st.count = st'.count ∧ st.length = st'.length ∧ RP st.proto st'.proto

/-- `janet_struct_put_ext` on related builds with related pairs -/
theorem structPutExt_rel {R : Slot N → Slot M → Prop} {RP : List (JVal N) → List (JVal M) → Prop} (hR : SlotRelPut R)
    {st : StructBuild N} {st' : StructBuild M} (hst : BuildRel R RP st st') {key value : JVal N} {key' value' : JVal M}
    (hkv : R (key, value) (key', value')) (replace : Bool) :
    BuildRel R RP (structPutExt st key value replace) (structPutExt st' key' value' replace) := by
  obtain ⟨hpw, hc, hl, hp⟩ := hst
  have h1 : key.isNil = key'.isNil := hR.nil _ _ hkv
  have h2 : value.isNil = value'.isNil := hR.vnil _ _ hkv
  have h3 : isNaNKey key = isNaNKey key' := hR.nan _ _ hkv
  have h4 : hash key = hash key' := hR.hash _ _ hkv
  unfold structPutExt
  simp only []
  rw [← h1, ← h2, ← h3, ← hc, ← hl, ← h4, ← hpw.1]
  by_cases c1 : (key.isNil || value.isNil) = true
  · simp only [c1, if_true]; exact ⟨hpw, hc, hl, hp⟩
  · simp only [c1, Bool.false_eq_true, if_false]
    by_cases c2 : isNaNKey key = true
    · simp only [c2, if_true]; exact ⟨hpw, hc, hl, hp⟩
    · simp only [c2, Bool.false_eq_true, if_false]
      by_cases c3 : (st.count == st.length) = true
      · simp only [c3, if_true]; exact ⟨hpw, hc, hl, hp⟩
      · simp only [c3, Bool.false_eq_true, if_false]
        have := putLoop_rel hR.toSlotRel st.slots.length replace st.slots.length (mapHash st.slots.length (hash key)) 0 key value key' value'
          (hash key) st.slots st'.slots hpw hkv
        refine ⟨this.1, ?_, rfl, hp⟩
        simp only []
        rw [← this.2]

/-- a run of puts on related builds, related pairs position by position -/
theorem foldl_structPut_rel {R : Slot N → Slot M → Prop} {RP : List (JVal N) → List (JVal M) → Prop} (hR : SlotRelPut R) :
    ∀ (kvs : List (Slot N)) (kvs' : List (Slot M)) (st : StructBuild N) (st' : StructBuild M),
      kvs.length = kvs'.length → (∀ i, R (kvs.getD i emptySlot) (kvs'.getD i emptySlot)) → BuildRel R RP st st' →
      BuildRel R RP (kvs.foldl (fun acc kv => structPut acc kv.1 kv.2) st) (kvs'.foldl (fun acc kv => structPut acc kv.1 kv.2) st')
  | [], [], _, _, _, _, h => h
  | [], _ :: _, _, _, hl, _, _ => by simp at hl
  | _ :: _, [], _, _, hl, _, _ => by simp at hl
  | kv :: rest, kv' :: rest', st, st', hl, hr, h => by
      simp only [List.foldl_cons]
      apply foldl_structPut_rel hR rest rest' _ _ (by simpa using hl) (fun i => by simpa using hr (i + 1))
      have h0 : R kv kv' := by simpa using hr 0
      exact structPutExt_rel hR h (by simpa using h0) true

/-- the rebuild loop of `janet_struct_end` over related slot arrays -/
theorem foldl_rebuild_rel {R : Slot N → Slot M → Prop} {RP : List (JVal N) → List (JVal M) → Prop} (hR : SlotRelPut R) :
    ∀ (S : List (Slot N)) (S' : List (Slot M)) (st : StructBuild N) (st' : StructBuild M),
      S.length = S'.length → (∀ i, R (S.getD i emptySlot) (S'.getD i emptySlot)) → BuildRel R RP st st' →
      BuildRel R RP (S.foldl (fun acc kv => if kv.1.isNil then acc else structPut acc kv.1 kv.2) st)
        (S'.foldl (fun acc kv => if kv.1.isNil then acc else structPut acc kv.1 kv.2) st')
  | [], [], _, _, _, _, h => h
  | [], _ :: _, _, _, hl, _, _ => by simp at hl
  | _ :: _, [], _, _, hl, _, _ => by simp at hl
  | kv :: rest, kv' :: rest', st, st', hl, hr, h => by
      simp only [List.foldl_cons]
      apply foldl_rebuild_rel hR rest rest' _ _ (by simpa using hl) (fun i => by simpa using hr (i + 1))
      have h0 : R kv kv' := by simpa using hr 0
      rw [← hR.nil _ _ h0]
      by_cases c : kv.1.isNil = true
      · simp only [c, if_true]; exact h
      · simp only [c, Bool.false_eq_true, if_false]
        exact structPutExt_rel hR h (by simpa using h0) true

/-- the build state that `janet_struct_end` hashes: the slot array after the optional rebuild, and the prototype -/
def structEndState (st : StructBuild N) : StructBuild N :=
  if st.count != st.length then
    let newst : StructBuild N := structBegin st.count
    let newst := st.slots.foldl (fun acc kv => if kv.1.isNil then acc else structPut acc kv.1 kv.2) newst
    { newst with proto := st.proto }
  else st

omit [NumLike M] in
theorem structEnd_eq (st : StructBuild N) : structEnd st = .struct (flatten (structEndState st).slots) (structEndState st).proto := rfl

theorem structEndState_rel {R : Slot N → Slot M → Prop} {RP : List (JVal N) → List (JVal M) → Prop} (hR : SlotRelPut R)
    (hnil : RP [] []) {st : StructBuild N} {st' : StructBuild M} (h : BuildRel R RP st st') :
    BuildRel R RP (structEndState st) (structEndState st') := by
  obtain ⟨hpw, hc, hl, hp⟩ := h
  unfold structEndState
  rw [← hc, ← hl]
  by_cases c : (st.count != st.length) = true
  · simp only [c, if_true]
    have h0 : BuildRel R RP (structBegin st.count : StructBuild N) (structBegin st.count : StructBuild M) :=
      ⟨PW.replicate hR.empty _, rfl, rfl, hnil⟩
    have := foldl_rebuild_rel hR st.slots st'.slots _ _ hpw.1 hpw.2 h0
    exact ⟨this.1, this.2.1, this.2.2.1, hp⟩
  · simp only [c, Bool.false_eq_true, if_false]
    exact ⟨hpw, hc, hl, hp⟩

/-- **a whole construction on related insertion sequences**: `janet_struct_begin(c)`, the puts, the prototype,
    `janet_struct_end` (with its rebuild) — the two finished slot arrays are related slot by slot -/
theorem structOfCount_rel {R : Slot N → Slot M → Prop} {RP : List (JVal N) → List (JVal M) → Prop} (hR : SlotRelPut R)
    (hnil : RP [] []) (c : Nat) {kvs : List (Slot N)} {kvs' : List (Slot M)} (hlen : kvs.length = kvs'.length)
    (hkv : ∀ i, R (kvs.getD i emptySlot) (kvs'.getD i emptySlot)) {proto : List (JVal N)} {proto' : List (JVal M)}
    (hp : RP proto proto') :
    ∃ (sl : List (Slot N)) (sl' : List (Slot M)), structOfCount c kvs proto = .struct (flatten sl) proto ∧
      structOfCount c kvs' proto' = .struct (flatten sl') proto' ∧ PW R sl sl' := by
  have h0 : BuildRel R RP (structBegin c : StructBuild N) (structBegin c : StructBuild M) :=
    ⟨PW.replicate hR.empty _, rfl, rfl, hnil⟩
  have h1 := foldl_structPut_rel hR kvs kvs' _ _ hlen hkv h0
  have h2 : BuildRel R RP { (kvs.foldl (fun acc kv => structPut acc kv.1 kv.2) (structBegin c)) with proto := proto }
      { (kvs'.foldl (fun acc kv => structPut acc kv.1 kv.2) (structBegin c)) with proto := proto' } :=
    ⟨h1.1, h1.2.1, h1.2.2.1, hp⟩
  have h3 := structEndState_rel hR hnil h2
  refine ⟨_, _, ?_, ?_, h3.1⟩
  · unfold structOfCount; rw [structEnd_eq]
    congr 1
    unfold structEndState; simp only []; split <;> rfl
  · unfold structOfCount; rw [structEnd_eq]
    congr 1
    unfold structEndState; simp only []; split <;> rfl

end rel

end JanetModel.Value
