/- C02: model of the operand handling in /repo/src/core/emit.c and of `janetc_regalloc_temp` in regalloc.c, for LOCAL
   slots (near: index ≤ 0xFF, far: index > 0xFF).  Instructions are abstract (`MI`); `MI.word` gives the 32-bit word emit.c
   writes (opcode numbers from the generated table).  Upvalue / constant / ref slots: see notes/C02.md (not modelled here;
   they are covered by translation validation through `Bytecode/Exec`).  Core Lean only. -/
import JanetModel.Gen.Bytecode
namespace JanetModel.Emit
open JanetModel.Gen.Bytecode

/-- instructions emit.c places around an operation on local slots -/
inductive MI where
  | movn (dst src : Nat)        -- JOP_MOVE_NEAR  A=dst (8 bit)  E=src (16 bit):  stack[A] = stack[E]
  | movf (src dst : Nat)        -- JOP_MOVE_FAR   A=src (8 bit)  E=dst (16 bit):  stack[E] = stack[A]
  | op3 (op a b c : Nat)        -- the payload  op A B C:  stack[A] = f stack[B] stack[C]
  | op2i (op a b imm : Nat)     -- payload with immediate / unsigned third field:  stack[A] = g imm stack[B]
  deriving DecidableEq, Repr

def MI.word : MI → Nat
  | .movn d s => Op.moveNear.toNat + d * 256 + s * 65536
  | .movf s d => Op.moveFar.toNat + s * 256 + d * 65536
  | .op3 op a b c => op + a * 256 + b * 65536 + c * 16777216
  | .op2i op a b i => op + a * 256 + b * 65536 + i * 16777216

/-- `janetc_regnear` for a local slot: near registers are used in place, far ones are loaded into the temp for `tag` -/
def regnear (idx tmp : Nat) : Nat × List MI :=
  if idx ≤ 0xFF then (idx, []) else (tmp, [.movn tmp idx])

/-- `janetc_moveback` for a local destination -/
def moveback (idx reg : Nat) : List MI := if idx ≠ reg then [.movf reg idx] else []

/-- `janetc_emit_sss` with wr = 1 on local slots; t0 t1 t2 are the registers `janetc_regalloc_temp` returns for tags 0 1 2 -/
def emitSSS (op dest a b t0 t1 t2 : Nat) : List MI :=
  let (r1, l1) := regnear dest t0
  let (r2, l2) := regnear a t1
  let (r3, l3) := regnear b t2
  l1 ++ l2 ++ l3 ++ [.op3 op r1 r2 r3] ++ moveback dest r1

/-- `emit2s` (`janetc_emit_ssi` / `_ssu`) with wr = 1 -/
def emitSSI (op dest a imm t0 t1 : Nat) : List MI :=
  let (r1, l1) := regnear dest t0
  let (r2, l2) := regnear a t1
  l1 ++ l2 ++ [.op2i op r1 r2 imm] ++ moveback dest r1

/-- `janetc_copy` between two local slots (tag 3 temp) -/
def copy (dest src t3 : Nat) : List MI :=
  if dest = src then []
  else if dest ≤ 0xFF then (if src ≠ dest then [.movn dest src] else [])
  else if src ≤ 0xFF then moveback dest src
  else [.movn t3 src] ++ moveback dest t3

/-! ### machine: registers as a function (the part of `Bytecode/Exec.step` that these instructions touch) -/
variable {α : Type}

def upd (regs : Nat → α) (i : Nat) (v : α) : Nat → α := fun j => if j = i then v else regs j

def exec (f : α → α → α) (g : Nat → α → α) (regs : Nat → α) : MI → (Nat → α)
  | .movn d s => upd regs d (regs s)
  | .movf s d => upd regs d (regs s)
  | .op3 _ a b c => upd regs a (f (regs b) (regs c))
  | .op2i _ a b i => upd regs a (g i (regs b))

def run (f : α → α → α) (g : Nat → α → α) (regs : Nat → α) (is : List MI) : Nat → α := is.foldl (exec f g) regs

/-! ### `janetc_regalloc_temp` -/

/-- allocator: which registers are taken.  0xF0..0xFF are always reserved (`pushchunk`: chunk 7 starts as 0xFFFF0000). -/
structure RA where
  alloc : Nat → Bool

def RA.taken (ra : RA) (r : Nat) : Bool := ra.alloc r || (0xF0 ≤ r && r ≤ 0xFF)

/-- first fit from `r` upwards with `fuel` candidates (`janetc_regalloc_1`) -/
def firstFit (ra : RA) : Nat → Nat → Nat
  | 0, r => r
  | fuel + 1, r => if ra.taken r then firstFit ra fuel (r + 1) else r

def RA.mark (ra : RA) (r : Nat) : RA := { alloc := fun j => if j = r then true else ra.alloc j }

/-- `janetc_regalloc_temp`: first fit; if that register is above 0xFF the reserved register 0xF0+tag is used instead
    (the first-fit register stays marked, exactly as in the C) -/
def regallocTemp (ra : RA) (fuel tag : Nat) : Nat × RA :=
  let r := firstFit ra fuel 0
  (if r > 0xFF then 0xF0 + tag else r, ra.mark r)

end JanetModel.Emit
