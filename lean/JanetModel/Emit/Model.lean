/- C02: model of /repo/src/core/emit.c + regalloc.c.

   * slot kinds: local (near: index ≤ 0xFF, far), upvalue, constant, ref (global var: one-element array constant)
   * abstract instructions `MI` with their 32-bit encoding `MI.word` (opcode numbers from the generated table)
   * PURE emitters (`movenear`, `moveback`, `regnear`, `regfar`, `copy`, `emitS/SS/SSS/SSI/SI`) parameterised by the temporary
     registers; the theorems in Emit/Proofs.lean are about these
   * the allocator (`janetc_regalloc_1/temp/freetemp/touch`) and the stateful wrappers `W.*` that obtain the temporaries
     from the allocator in the order the C does, intern constants like `janetc_const`, and then call the pure emitters;
     `W.*` is what harness/C02/emit_wrap.c (the real emit.c) is compared with, word for word.
   Core Lean only. -/
import JanetModel.Gen.Bytecode
namespace JanetModel.Emit
open JanetModel.Gen.Bytecode

inductive KConst where
  | nil | tru | fls
  | int (n : Int)
  | refarr (id : Nat)          -- the one-element array behind a global var
  | other (id : Nat)           -- any other constant that goes to the constant pool (string, keyword, non-int16 number,
                               --   function, tuple ...), named by its index in the compiler model's value table
  deriving DecidableEq, Repr, Inhabited

inductive Slot where
  | loc (i : Nat)
  | up (env idx : Nat)
  | const (k : KConst)
  | ref (id : Nat)
  deriving DecidableEq, Repr, Inhabited

/-- operand layout of the payload instruction -/
inductive Shape where
  | sss   -- A B C
  | ss    -- A E(16)
  | s     -- D(24)
  | ssi   -- A B rest(8)      janetc_emit_ssi / _ssu
  | si    -- A rest(16)       janetc_emit_si / _su / _sl / _st
  deriving DecidableEq, Repr

inductive MI where
  | movn (d s : Nat)                     -- MOVE_NEAR   stack[A=d] = stack[E=s]
  | movf (s d : Nat)                     -- MOVE_FAR    stack[E=d] = stack[A=s]
  | ldu (d e i : Nat)                    -- LOAD_UPVALUE A=d B=e C=i
  | setu (s e i : Nat)                   -- SET_UPVALUE  A=s B=e C=i
  | ldk (d : Nat) (k : KConst) (idx : Nat)   -- janetc_loadconst of a plain constant (idx: pool index when needed)
  | ldref (d idx id : Nat)               -- LOAD_CONSTANT of the ref array
  | geti0 (a b : Nat)                    -- GET_INDEX A=a B=b C=0
  | puti0 (a b : Nat)                    -- PUT_INDEX A=a(ds) B=b(value) C=0
  | pay (op : Nat) (sh : Shape) (wr : Bool) (rs : List Nat) (rest : Nat)
  deriving DecidableEq, Repr

def imod (n : Int) (m : Nat) : Nat := (n % (m : Int)).toNat

def MI.word : MI → Nat
  | .movn d s => Op.moveNear.toNat + d * 256 + s * 65536
  | .movf s d => Op.moveFar.toNat + s * 256 + d * 65536
  | .ldu d e i => Op.loadUpvalue.toNat + d * 256 + e * 65536 + i * 16777216
  | .setu s e i => Op.setUpvalue.toNat + s * 256 + e * 65536 + i * 16777216
  | .ldk d .nil _ => Op.loadNil.toNat + d * 256
  | .ldk d .tru _ => Op.loadTrue.toNat + d * 256
  | .ldk d .fls _ => Op.loadFalse.toNat + d * 256
  | .ldk d (.int n) idx =>
    if -32768 ≤ n ∧ n ≤ 32767 then Op.loadInteger.toNat + d * 256 + imod n 65536 * 65536
    else Op.loadConstant.toNat + d * 256 + idx * 65536
  | .ldk d (.refarr _) idx => Op.loadConstant.toNat + d * 256 + idx * 65536
  | .ldk d (.other _) idx => Op.loadConstant.toNat + d * 256 + idx * 65536
  | .ldref d idx _ => Op.loadConstant.toNat + d * 256 + idx * 65536
  | .geti0 a b => Op.getIndex.toNat + a * 256 + b * 65536
  | .puti0 a b => Op.putIndex.toNat + a * 256 + b * 65536
  | .pay op sh _ rs rest =>
    let r (k : Nat) := rs.getD k 0
    match sh with
    | .sss => op + r 0 * 256 + r 1 * 65536 + r 2 * 16777216
    | .ss => op + r 0 * 256 + r 1 * 65536
    | .s => op + r 0 * 256
    | .ssi => op + r 0 * 256 + r 1 * 65536 + rest % 256 * 16777216
    | .si => op + r 0 * 256 + rest % 65536 * 65536

/-! ### pure emitters (temporaries are parameters) -/

/-- does `janetc_loadconst` put the constant into the pool? -/
def KConst.pooled : KConst → Bool
  | .int n => !(-32768 ≤ n ∧ n ≤ 32767)
  | .refarr _ => true
  | .other _ => true
  | _ => false

/-- `janetc_movenear` -/
def movenear (cidx : KConst → Nat) (dest : Nat) : Slot → List MI
  | .const k => [.ldk dest k (cidx k)]
  | .ref id => [.ldref dest (cidx (.refarr id)) id, .geti0 dest dest]
  | .up e i => [.ldu dest e i]
  | .loc i => if i ≠ dest then [.movn dest i] else []

/-- `janetc_moveback` (t5 = temporary for tag 5, used for ref destinations) -/
def moveback (cidx : KConst → Nat) (t5 : Nat) (dest : Slot) (src : Nat) : List MI :=
  match dest with
  | .ref id => [.ldref t5 (cidx (.refarr id)) id, .puti0 t5 src]
  | .up e i => [.setu src e i]
  | .loc i => if i ≠ src then [.movf src i] else []
  | .const _ => []          -- the C asserts: never called

def Slot.nearLocal : Slot → Bool
  | .loc i => i ≤ 0xFF
  | _ => false

def Slot.isLocal : Slot → Bool
  | .loc _ => true
  | _ => false

def Slot.index : Slot → Nat
  | .loc i => i
  | _ => 0

/-- `janetc_regnear`: register the payload uses + loads -/
def regnear (cidx : KConst → Nat) (s : Slot) (t : Nat) : Nat × List MI :=
  if s.nearLocal then (s.index, []) else (t, movenear cidx t s)

/-- `janetc_regfar` (t: near temporary, fr: far register used when the temporary is a reserved one) -/
def regfar (cidx : KConst → Nat) (s : Slot) (t fr : Nat) : Nat × List MI :=
  if s.isLocal then (s.index, [])
  else if t ≥ 0xF0 then (fr, movenear cidx t s ++ [.movf t fr])
  else (t, movenear cidx t s)

/-- `janetc_copy` -/
def copy (cidx : KConst → Nat) (dest src : Slot) (t3 t5 : Nat) : List MI :=
  match dest with
  | .const _ => []
  | _ =>
    if dest = src then []
    else if dest.nearLocal then movenear cidx dest.index src
    else if src.nearLocal then moveback cidx t5 dest src.index
    else movenear cidx t3 src ++ moveback cidx t5 dest t3

def wb (cidx : KConst → Nat) (t5 : Nat) (wr : Bool) (s : Slot) (r : Nat) : List MI := if wr then moveback cidx t5 s r else []

/-- `janetc_emit_sss` -/
def emitSSS (cidx : KConst → Nat) (op : Nat) (wr : Bool) (s1 s2 s3 : Slot) (t0 t1 t2 t5 : Nat) : List MI :=
  (regnear cidx s1 t0).2 ++ (regnear cidx s2 t1).2 ++ (regnear cidx s3 t2).2 ++
    ([.pay op .sss wr [(regnear cidx s1 t0).1, (regnear cidx s2 t1).1, (regnear cidx s3 t2).1] 0] ++ wb cidx t5 wr s1 (regnear cidx s1 t0).1)

/-- `emit2s` = `janetc_emit_ssi` / `janetc_emit_ssu` -/
def emitSSI (cidx : KConst → Nat) (op : Nat) (wr : Bool) (s1 s2 : Slot) (imm : Nat) (t0 t1 t5 : Nat) : List MI :=
  (regnear cidx s1 t0).2 ++ (regnear cidx s2 t1).2 ++
    ([.pay op .ssi wr [(regnear cidx s1 t0).1, (regnear cidx s2 t1).1] imm] ++ wb cidx t5 wr s1 (regnear cidx s1 t0).1)

/-- `janetc_emit_ss` -/
def emitSS (cidx : KConst → Nat) (op : Nat) (wr : Bool) (s1 s2 : Slot) (t0 t1 fr t5 : Nat) : List MI :=
  (regnear cidx s1 t0).2 ++ (regfar cidx s2 t1 fr).2 ++
    ([.pay op .ss wr [(regnear cidx s1 t0).1, (regfar cidx s2 t1 fr).1] 0] ++ wb cidx t5 wr s1 (regnear cidx s1 t0).1)

/-- `emit1s` = `janetc_emit_si` / `_su` / `_sl` / `_st` -/
def emitSI (cidx : KConst → Nat) (op : Nat) (wr : Bool) (s : Slot) (imm : Nat) (t0 t5 : Nat) : List MI :=
  (regnear cidx s t0).2 ++ ([.pay op .si wr [(regnear cidx s t0).1] imm] ++ wb cidx t5 wr s (regnear cidx s t0).1)

/-- `janetc_emit_s` -/
def emitS (cidx : KConst → Nat) (op : Nat) (wr : Bool) (s : Slot) (t0 fr t5 : Nat) : List MI :=
  (regfar cidx s t0 fr).2 ++ ([.pay op .s wr [(regfar cidx s t0 fr).1] 0] ++ wb cidx t5 wr s (regfar cidx s t0 fr).1)

/-! ### the allocator (regalloc.c) -/

structure RA where
  alloc : Nat → Bool
  max : Nat := 0
  temps : Nat → Bool := fun _ => false

/-- registers 0xF0..0xFF are reserved (`pushchunk`: chunk 7 starts as 0xFFFF0000) -/
def RA.taken (ra : RA) (r : Nat) : Bool := ra.alloc r || (0xF0 ≤ r && r ≤ 0xFF)

def firstFit (ra : RA) : Nat → Nat → Nat
  | 0, r => r
  | fuel + 1, r => if ra.taken r then firstFit ra fuel (r + 1) else r

def RA.mark (ra : RA) (r : Nat) : RA := { ra with alloc := fun j => if j = r then true else ra.alloc j }
def RA.unmark (ra : RA) (r : Nat) : RA := { ra with alloc := fun j => if j = r then false else ra.alloc j }

def searchFuel : Nat := 70000

/-- `janetc_regalloc_1` -/
def RA.alloc1 (ra : RA) : Nat × RA :=
  let r := firstFit ra searchFuel 0
  (r, { ra.mark r with max := if r > ra.max then r else ra.max })

/-- `janetc_regalloc_temp`: if first fit lands above 0xFF the reserved register 0xF0+tag is used, the first-fit register
    stays marked and `max` is rolled back to max(oldmax, 0xF0+tag) — exactly as the C does -/
def RA.allocTemp (ra : RA) (tag : Nat) : Nat × RA :=
  let oldmax := ra.max
  let ra1 : RA := { ra with temps := fun j => if j = tag then true else ra.temps j }
  let (r, ra2) := ra1.alloc1
  if r > 0xFF then (0xF0 + tag, { ra2 with max := if 0xF0 + tag > oldmax then 0xF0 + tag else oldmax })
  else (r, ra2)

/-- `janetc_regalloc_freetemp` -/
def RA.freeTemp (ra : RA) (reg tag : Nat) : RA :=
  let ra1 : RA := { ra with temps := fun j => if j = tag then false else ra.temps j }
  if reg < 0xF0 then ra1.unmark reg else ra1

/-- (for the proofs) the simple view used by `regtemp_disjoint` -/
def regallocTemp (ra : RA) (fuel tag : Nat) : Nat × RA :=
  let r := firstFit ra fuel 0
  (if r > 0xFF then 0xF0 + tag else r, ra.mark r)

/-! ### stateful wrappers: what emit.c does with the compiler state -/

structure C where
  ra : RA
  buf : List MI := []
  consts : List KConst := []

namespace W

/-- `janetc_const`: index in the pool, appended when new -/
def intern (pool : List KConst) (k : KConst) : List KConst := if k ∈ pool then pool else pool ++ [k]

def poolIdx (pool : List KConst) (k : KConst) : Nat := (pool.idxOf k)

/-- constants a slot load puts in the pool -/
def slotConst : Slot → List KConst
  | .const k => if k.pooled then [k] else []
  | .ref id => [.refarr id]
  | _ => []

def needTemp (s : Slot) : Bool := !s.nearLocal

/-- obtain the temporary `janetc_regnear` would use -/
def nearTemp (ra : RA) (s : Slot) (tag : Nat) : Nat × RA :=
  if needTemp s then ra.allocTemp tag else (s.index, ra)

/-- `janetc_free_regnear` -/
def freeNear (ra : RA) (s : Slot) (reg tag : Nat) : RA :=
  if (s.isLocal && reg == s.index) then ra else ra.freeTemp reg tag

/-- allocator side of `janetc_regfar`: returns (near temporary, far register, register used) -/
def farTemp (ra : RA) (s : Slot) (tag : Nat) : Nat × Nat × Nat × RA :=
  if s.isLocal then (0, 0, s.index, ra) else
  let (t, ra1) := ra.allocTemp tag
  if t ≥ 0xF0 then
    let (fr, ra2) := ra1.alloc1
    (t, fr, fr, ra2.freeTemp t tag)
  else (t, 0, t, (ra1.freeTemp t tag).mark t)

/-- allocator side of `janetc_moveback` (temporary 5 for ref destinations) -/
def backTemp (ra : RA) (wr : Bool) (s : Slot) : Nat × RA :=
  match wr, s with
  | true, .ref _ => let (t, ra1) := ra.allocTemp 5; (t, ra1.freeTemp t 5)
  | _, _ => (0, ra)

def finish (c : C) (ra : RA) (pool : List KConst) (is : List MI) : C := { ra := ra, buf := c.buf ++ is, consts := pool }

def emitSSS (c : C) (op : Nat) (wr : Bool) (s1 s2 s3 : Slot) : C :=
  let (t0, ra1) := nearTemp c.ra s1 0
  let (t1, ra2) := nearTemp ra1 s2 1
  let (t2, ra3) := nearTemp ra2 s3 2
  let ra4 := freeNear ra3 s2 t1 1
  let ra5 := freeNear ra4 s3 t2 2
  let (t5, ra6) := backTemp ra5 wr s1
  let ra7 := freeNear ra6 s1 t0 0
  let pool := (slotConst s1 ++ slotConst s2 ++ slotConst s3).foldl intern c.consts
  finish c ra7 pool (Emit.emitSSS (poolIdx pool) op wr s1 s2 s3 t0 t1 t2 t5)

def emitSSI (c : C) (op : Nat) (wr : Bool) (s1 s2 : Slot) (imm : Nat) : C :=
  let (t0, ra1) := nearTemp c.ra s1 0
  let (t1, ra2) := nearTemp ra1 s2 1
  let ra3 := freeNear ra2 s2 t1 1
  let (t5, ra4) := backTemp ra3 wr s1
  let ra5 := freeNear ra4 s1 t0 0
  let pool := (slotConst s1 ++ slotConst s2).foldl intern c.consts
  finish c ra5 pool (Emit.emitSSI (poolIdx pool) op wr s1 s2 imm t0 t1 t5)

def emitSS (c : C) (op : Nat) (wr : Bool) (s1 s2 : Slot) : C :=
  let (t0, ra1) := nearTemp c.ra s1 0
  let (t1, fr, r2, ra2) := farTemp ra1 s2 1
  let ra3 := freeNear ra2 s2 r2 1
  let (t5, ra4) := backTemp ra3 wr s1
  let ra5 := freeNear ra4 s1 t0 0
  let pool := (slotConst s1 ++ slotConst s2).foldl intern c.consts
  finish c ra5 pool (Emit.emitSS (poolIdx pool) op wr s1 s2 t0 t1 fr t5)

def emitSI (c : C) (op : Nat) (wr : Bool) (s : Slot) (imm : Nat) : C :=
  let (t0, ra1) := nearTemp c.ra s 0
  let (t5, ra2) := backTemp ra1 wr s
  let ra3 := freeNear ra2 s t0 0
  let pool := (slotConst s).foldl intern c.consts
  finish c ra3 pool (Emit.emitSI (poolIdx pool) op wr s imm t0 t5)

def emitS (c : C) (op : Nat) (wr : Bool) (s : Slot) : C :=
  let (t0, fr, r, ra1) := farTemp c.ra s 0
  let (t5, ra2) := backTemp ra1 wr s
  let ra3 := freeNear ra2 s r 0
  let pool := (slotConst s).foldl intern c.consts
  finish c ra3 pool (Emit.emitS (poolIdx pool) op wr s t0 fr t5)

def copy (c : C) (dest src : Slot) : C :=
  match dest with
  | .const _ => c
  | _ =>
    if dest = src then c
    else if dest.nearLocal then
      let pool := (slotConst src).foldl intern c.consts
      finish c c.ra pool (Emit.copy (poolIdx pool) dest src 0 0)
    else if src.nearLocal then
      let (t5, ra1) := backTemp c.ra true dest
      let pool := (slotConst dest).foldl intern c.consts
      finish c ra1 pool (Emit.copy (poolIdx pool) dest src 0 t5)
    else
      let (t3, ra1) := c.ra.allocTemp 3
      let (t5, ra2) := backTemp ra1 true dest
      let ra3 := ra2.freeTemp t3 3
      let pool := (slotConst src ++ slotConst dest).foldl intern c.consts
      finish c ra3 pool (Emit.copy (poolIdx pool) dest src t3 t5)

end W
end JanetModel.Emit
