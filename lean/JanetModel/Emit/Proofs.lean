/- C02: correctness of the emit layer (pure emitters of Emit/Model.lean on the machine of Emit/Machine.lean) for every
   combination of slot kinds (local near / far, upvalue, constant, ref) and every index, and of the temporary allocator. -/
import JanetModel.Emit.Machine
namespace JanetModel.Emit

variable {β : Type}
set_option linter.unusedVariables false

theorem run_append (lit : KConst → β) (F) (m : M β) (a b : List MI) : run lit F m (a ++ b) = run lit F (run lit F m a) b := by
  simp [run, List.foldl_append]

theorem run_nil (lit : KConst → β) (F) (m : M β) : run lit F m [] = m := rfl
theorem run_cons (lit : KConst → β) (F) (m : M β) (i : MI) (is : List MI) : run lit F m (i :: is) = run lit F (exec lit F m i) is := rfl

theorem upd_same {α : Type} (f : Nat → α) (i : Nat) (v : α) : upd f i v i = v := by simp [upd]
theorem upd_other {α : Type} (f : Nat → α) (i j : Nat) (v : α) (h : j ≠ i) : upd f i v j = f j := by simp [upd, h]

theorem Sim.refl (T : List Nat) (m : M β) : Sim T m m := ⟨fun _ _ => rfl, rfl, rfl, rfl, rfl⟩

theorem Sim.trans {T : List Nat} {a b c : M β} (h1 : Sim T a b) (h2 : Sim T b c) : Sim T a c :=
  ⟨fun x hx => (h1.regs x hx).trans (h2.regs x hx), h1.up.trans h2.up, h1.cell.trans h2.cell, h1.log.trans h2.log, h1.ok.trans h2.ok⟩

theorem Sim.mono {T U : List Nat} {a b : M β} (h : Sim T a b) (hs : ∀ x, x ∈ T → x ∈ U) : Sim U a b :=
  ⟨fun x hx => h.regs x (fun hm => hx (hs x hm)), h.up, h.cell, h.log, h.ok⟩

theorem Sim.symm {T : List Nat} {a b : M β} (h : Sim T a b) : Sim T b a :=
  ⟨fun x hx => (h.regs x hx).symm, h.up.symm, h.cell.symm, h.log.symm, h.ok.symm⟩

/-- reading a slot is insensitive to the temporaries as long as the slot is not one of them -/
theorem readSlot_sim (lit : KConst → β) {T : List Nat} {a b : M β} (h : Sim T a b) (s : Slot) (hs : s.avoids T) :
    readSlot lit a s = readSlot lit b s := by
  cases s with
  | loc i => exact h.regs i (hs i rfl)
  | up e i => simp [readSlot, h.up]
  | const k => rfl
  | ref id => simp [readSlot, h.cell]

/-- `janetc_movenear`: afterwards register `t` holds the slot's value, nothing else changed -/
theorem movenear_run (lit : KConst → β) (F) (cidx : KConst → Nat) (m : M β) (t : Nat) (s : Slot) :
    (run lit F m (movenear cidx t s)).regs t = readSlot lit m s ∧ Sim [t] (run lit F m (movenear cidx t s)) m := by
  cases s with
  | loc i =>
    by_cases h : i = t
    · subst h; simp [movenear, run, readSlot]; exact Sim.refl _ _
    · simp only [movenear, h, ne_eq, not_false_eq_true, if_true, run, List.foldl, exec, readSlot, upd_same, true_and]
      exact ⟨fun x hx => by simp at hx; simp [upd, hx], rfl, rfl, rfl, rfl⟩
  | up e i =>
    simp only [movenear, run, List.foldl, exec, readSlot, upd_same, true_and]
    exact ⟨fun x hx => by simp at hx; simp [upd, hx], rfl, rfl, rfl, rfl⟩
  | const k =>
    simp only [movenear, run, List.foldl, exec, readSlot, upd_same, true_and]
    exact ⟨fun x hx => by simp at hx; simp [upd, hx], rfl, rfl, rfl, rfl⟩
  | ref id =>
    simp only [movenear, run, List.foldl, exec, readSlot, upd_same, true_and]
    exact ⟨fun x hx => by simp at hx; simp [upd, hx], rfl, rfl, rfl, rfl⟩

/-- `janetc_regnear`: the returned register holds the slot's value; only the temporary may have changed; the register is
    the temporary or the slot's own near register -/
theorem regnear_run (lit : KConst → β) (F) (cidx : KConst → Nat) (m : M β) (s : Slot) (t : Nat) :
    (run lit F m (regnear cidx s t).2).regs (regnear cidx s t).1 = readSlot lit m s ∧
    Sim [t] (run lit F m (regnear cidx s t).2) m ∧
    ((regnear cidx s t).1 = t ∨ s = .loc (regnear cidx s t).1) := by
  unfold regnear
  by_cases hn : s.nearLocal = true
  · rw [if_pos hn]
    cases s with
    | loc i => exact ⟨rfl, Sim.refl _ _, Or.inr rfl⟩
    | up e i => simp [Slot.nearLocal] at hn
    | const k => simp [Slot.nearLocal] at hn
    | ref id => simp [Slot.nearLocal] at hn
  · rw [if_neg hn]
    have := movenear_run lit F cidx m t s
    exact ⟨this.1, this.2, Or.inl rfl⟩

/-- `janetc_regfar` -/
theorem regfar_run (lit : KConst → β) (F) (cidx : KConst → Nat) (m : M β) (s : Slot) (t fr : Nat) :
    (run lit F m (regfar cidx s t fr).2).regs (regfar cidx s t fr).1 = readSlot lit m s ∧
    Sim [t, fr] (run lit F m (regfar cidx s t fr).2) m ∧
    ((regfar cidx s t fr).1 = t ∨ (regfar cidx s t fr).1 = fr ∨ s = .loc (regfar cidx s t fr).1) := by
  unfold regfar
  by_cases hl : s.isLocal = true
  · rw [if_pos hl]
    cases s with
    | loc i => exact ⟨rfl, Sim.refl _ _, Or.inr (Or.inr rfl)⟩
    | up e i => simp [Slot.isLocal] at hl
    | const k => simp [Slot.isLocal] at hl
    | ref id => simp [Slot.isLocal] at hl
  · rw [if_neg hl]
    have hm := movenear_run lit F cidx m t s
    by_cases ht : t ≥ 0xF0
    · rw [if_pos ht]
      simp only [run_append, run_cons, run_nil, exec, upd_same]
      refine ⟨hm.1, ?_, by simp⟩
      refine ⟨fun x hx => ?_, hm.2.up, hm.2.cell, hm.2.log, hm.2.ok⟩
      simp at hx
      simp only [upd, hx.2, if_false]
      exact hm.2.regs x (by simp [hx.1])
    · rw [if_neg ht]
      exact ⟨hm.1, hm.2.mono (by intro x hx; simp at hx; simp [hx]), Or.inl rfl⟩

/-- `janetc_moveback`: the destination slot receives register `r`; only the tag-5 temporary may change besides -/
theorem moveback_run (lit : KConst → β) (F) (cidx : KConst → Nat) (m : M β) (s : Slot) (r t5 : Nat)
    (hc : ∀ k, s ≠ .const k) (h5 : t5 ≠ r) :
    Sim [t5] (run lit F m (moveback cidx t5 s r)) (writeSlot m s (m.regs r)) := by
  cases s with
  | const k => exact absurd rfl (hc k)
  | loc i =>
    by_cases h : i = r
    · subst h
      simp only [moveback, ne_eq, not_true_eq_false, if_false, run_nil, writeSlot]
      exact ⟨fun x _ => by simp [upd]; intro hx; rw [hx], rfl, rfl, rfl, rfl⟩
    · simp only [moveback, h, ne_eq, not_false_eq_true, if_true, run_cons, run_nil, exec, writeSlot]
      exact Sim.refl _ _
  | up e i =>
    simp only [moveback, run_cons, run_nil, exec, writeSlot]
    exact Sim.refl _ _
  | ref id =>
    simp only [moveback, run_cons, run_nil, exec, writeSlot, upd_same]
    refine ⟨fun x hx => ?_, rfl, ?_, rfl, rfl⟩
    · simp at hx; simp [upd, hx]
    · simp [upd_other _ _ _ _ (Ne.symm h5)]

theorem writeSlot_sim {T : List Nat} {a b : M β} (s : Slot) (v : RV β) (e : Nat)
    (h : Sim (e :: T) a b) (he : e ∈ T ∨ s = .loc e) : Sim T (writeSlot a s v) (writeSlot b s v) := by
  have hr : ∀ x, x ∉ T → x ≠ e → a.regs x = b.regs x := fun x hx hxe => h.regs x (by simp [hx, hxe])
  cases s with
  | loc i =>
    refine ⟨fun x hx => ?_, h.up, h.cell, h.log, h.ok⟩
    simp only [writeSlot, upd]
    by_cases hxi : x = i
    · simp [hxi]
    · simp only [hxi, if_false]
      rcases he with he | he
      · exact hr x hx (fun hxe => hx (hxe ▸ he))
      · injection he with he; exact hr x hx (he ▸ hxi)
  | up e' i =>
    rcases he with he | he
    · exact ⟨fun x hx => hr x hx (fun hxe => hx (hxe ▸ he)), by simp [writeSlot, h.up], h.cell, h.log, h.ok⟩
    · cases he
  | ref id =>
    rcases he with he | he
    · exact ⟨fun x hx => hr x hx (fun hxe => hx (hxe ▸ he)), h.up, by simp [writeSlot, h.cell], h.log, h.ok⟩
    · cases he
  | const k =>
    rcases he with he | he
    · exact ⟨fun x hx => hr x hx (fun hxe => hx (hxe ▸ he)), h.up, h.cell, h.log, h.ok⟩
    · cases he

/-- payload without write-back -/
theorem payload_nowr (lit : KConst → β) (F) {T : List Nat} {m3 m : M β} (op : Nat) (sh : Shape) (rs : List Nat) (rest : Nat)
    (vals : List (RV β)) (h : Sim T m3 m) (hv : rs.map m3.regs = vals) :
    Sim T (run lit F m3 [.pay op sh false rs rest]) (logged m op vals) := by
  simp only [run_cons, run_nil, exec, logged, Bool.false_eq_true, if_false, hv]
  exact ⟨h.regs, h.up, h.cell, by simp [h.log], h.ok⟩

/-- payload with write-back through `janetc_moveback` -/
theorem payload_wr (lit : KConst → β) (F) (cidx : KConst → Nat) {T : List Nat} {m3 m : M β} (op : Nat) (sh : Shape)
    (r1 : Nat) (srcs : List Nat) (rest : Nat) (s1 : Slot) (t5 : Nat) (vals : List (RV β))
    (h : Sim T m3 m) (hv : srcs.map m3.regs = vals) (hr1 : r1 ∈ T ∨ s1 = .loc r1) (ht5 : t5 ∈ T) (h5 : t5 ≠ r1)
    (hc : ∀ k, s1 ≠ .const k) :
    Sim T (run lit F m3 ([.pay op sh true (r1 :: srcs) rest] ++ moveback cidx t5 s1 r1))
      (writeSlot (logged m op vals) s1 (F op vals)) := by
  rw [run_append]
  simp only [run_cons, run_nil, exec, if_true, List.tail_cons, List.headD_cons, hv]
  have hmb := moveback_run lit F cidx
    ({ m3 with log := m3.log ++ [(op, vals)], regs := upd m3.regs r1 (F op vals) } : M β) s1 r1 t5 hc h5
  simp only [upd_same] at hmb
  refine Sim.trans (hmb.mono (by intro x hx; simp at hx; rw [hx]; exact ht5)) ?_
  apply writeSlot_sim s1 (F op vals) r1 _ hr1
  refine ⟨fun x hx => ?_, h.up, h.cell, by simp [logged, h.log], h.ok⟩
  simp at hx
  simp only [upd, hx.1, if_false, logged]
  exact h.regs x hx.2

/-! ### the emitters -/

theorem sim_chain2 {t0 t1 : Nat} {T : List Nat} {m m1 m2 : M β} (h1 : Sim [t0] m1 m) (h2 : Sim [t1] m2 m1)
    (i0 : t0 ∈ T) (i1 : t1 ∈ T) : Sim T m2 m :=
  (h2.mono (by intro x hx; simp at hx; rw [hx]; exact i1)).trans (h1.mono (by intro x hx; simp at hx; rw [hx]; exact i0))

/-- a register produced by `regnear s t` is not another temporary `u` -/
theorem reg_ne {s : Slot} {T : List Nat} {r t u : Nat} (hr : r = t ∨ s = .loc r) (htu : t ≠ u) (ha : s.avoids T) (hu : u ∈ T) : r ≠ u := by
  rcases hr with hr | hr
  · rw [hr]; exact htu
  · intro h; exact ha r hr (h ▸ hu)

theorem reg_in {s : Slot} {T : List Nat} {r t : Nat} (hr : r = t ∨ s = .loc r) (ht : t ∈ T) : r ∈ T ∨ s = .loc r := by
  rcases hr with hr | hr
  · exact Or.inl (hr ▸ ht)
  · exact Or.inr hr

theorem avoids_sub {s : Slot} {T U : List Nat} (ha : s.avoids T) (h : ∀ x, x ∈ U → x ∈ T) : s.avoids U :=
  fun i hi hm => ha i hi (h i hm)

/-- `janetc_emit_sss` for EVERY combination of slot kinds and indices.  wr = 1: the destination slot receives `F op [s2, s3]`
    (values of the source slots in the ORIGINAL state), the payload is logged with exactly those values, everything except the
    temporaries is otherwise unchanged.  wr = 0: the payload saw the three slot values, nothing but temporaries changed.
    Hypotheses = what the allocator guarantees (`regtemp_disjoint`): temporaries pairwise distinct and not operand registers. -/
theorem emit_sss_correct (lit : KConst → β) (F) (cidx : KConst → Nat) (m : M β) (op : Nat) (wr : Bool) (s1 s2 s3 : Slot)
    (t0 t1 t2 t5 : Nat) (h01 : t0 ≠ t1) (h02 : t0 ≠ t2) (h12 : t1 ≠ t2) (h50 : t5 ≠ t0)
    (a1 : s1.avoids [t0, t1, t2, t5]) (a2 : s2.avoids [t0, t1, t2, t5]) (a3 : s3.avoids [t0, t1, t2, t5])
    (hw : wr = true → ∀ k, s1 ≠ .const k) :
    Sim [t0, t1, t2, t5] (run lit F m (emitSSS cidx op wr s1 s2 s3 t0 t1 t2 t5))
      (if wr then writeSlot (logged m op [readSlot lit m s2, readSlot lit m s3]) s1 (F op [readSlot lit m s2, readSlot lit m s3])
       else logged m op [readSlot lit m s1, readSlot lit m s2, readSlot lit m s3]) := by
  simp only [emitSSS, run_append]
  have A1 := regnear_run lit F cidx m s1 t0
  have A2 := regnear_run lit F cidx (run lit F m (regnear cidx s1 t0).2) s2 t1
  have A3 := regnear_run lit F cidx (run lit F (run lit F m (regnear cidx s1 t0).2) (regnear cidx s2 t1).2) s3 t2
  generalize (regnear cidx s1 t0).1 = r1 at *
  generalize (regnear cidx s2 t1).1 = r2 at *
  generalize (regnear cidx s3 t2).1 = r3 at *
  generalize run lit F m (regnear cidx s1 t0).2 = m1 at *
  generalize run lit F m1 (regnear cidx s2 t1).2 = m2 at *
  generalize run lit F m2 (regnear cidx s3 t2).2 = m3 at *
  have S2 : Sim [t0, t1, t2, t5] m2 m := sim_chain2 A1.2.1 A2.2.1 (by simp) (by simp)
  have S3 : Sim [t0, t1, t2, t5] m3 m := (A3.2.1.mono (by intro x hx; simp at hx; simp [hx])).trans S2
  have e2 : readSlot lit m1 s2 = readSlot lit m s2 := readSlot_sim lit A1.2.1 s2 (avoids_sub a2 (by intro x hx; simp at hx; simp [hx]))
  have e3 : readSlot lit m2 s3 = readSlot lit m s3 := readSlot_sim lit S2 s3 a3
  have v3 : m3.regs r3 = readSlot lit m s3 := A3.1.trans e3
  have v2 : m3.regs r2 = readSlot lit m s2 := by
    rw [A3.2.1.regs r2 (by simpa using reg_ne A2.2.2 h12 a2 (by simp))]
    exact A2.1.trans e2
  have v1 : m3.regs r1 = readSlot lit m s1 := by
    rw [A3.2.1.regs r1 (by simpa using reg_ne A1.2.2 h02 a1 (by simp)), A2.2.1.regs r1 (by simpa using reg_ne A1.2.2 h01 a1 (by simp))]
    exact A1.1
  cases wr with
  | false =>
    simp only [wb, Bool.false_eq_true, if_false, List.append_nil]
    exact payload_nowr lit F op .sss [r1, r2, r3] 0 _ S3 (by simp [v1, v2, v3])
  | true =>
    simp only [wb, if_true]
    exact payload_wr lit F cidx op .sss r1 [r2, r3] 0 s1 t5 _ S3 (by simp [v2, v3]) (reg_in A1.2.2 (by simp)) (by simp)
      (Ne.symm (reg_ne A1.2.2 (Ne.symm h50) a1 (by simp))) (hw rfl)

/-- `janetc_emit_ssi` / `janetc_emit_ssu` (emit2s), every slot kind combination -/
theorem emit_ssi_correct (lit : KConst → β) (F) (cidx : KConst → Nat) (m : M β) (op : Nat) (wr : Bool) (s1 s2 : Slot) (imm : Nat)
    (t0 t1 t5 : Nat) (h01 : t0 ≠ t1) (h50 : t5 ≠ t0)
    (a1 : s1.avoids [t0, t1, t5]) (a2 : s2.avoids [t0, t1, t5])
    (hw : wr = true → ∀ k, s1 ≠ .const k) :
    Sim [t0, t1, t5] (run lit F m (emitSSI cidx op wr s1 s2 imm t0 t1 t5))
      (if wr then writeSlot (logged m op [readSlot lit m s2]) s1 (F op [readSlot lit m s2])
       else logged m op [readSlot lit m s1, readSlot lit m s2]) := by
  simp only [emitSSI, run_append]
  have A1 := regnear_run lit F cidx m s1 t0
  have A2 := regnear_run lit F cidx (run lit F m (regnear cidx s1 t0).2) s2 t1
  generalize (regnear cidx s1 t0).1 = r1 at *
  generalize (regnear cidx s2 t1).1 = r2 at *
  generalize run lit F m (regnear cidx s1 t0).2 = m1 at *
  generalize run lit F m1 (regnear cidx s2 t1).2 = m2 at *
  have S2 : Sim [t0, t1, t5] m2 m := sim_chain2 A1.2.1 A2.2.1 (by simp) (by simp)
  have e2 : readSlot lit m1 s2 = readSlot lit m s2 := readSlot_sim lit A1.2.1 s2 (avoids_sub a2 (by intro x hx; simp at hx; simp [hx]))
  have v2 : m2.regs r2 = readSlot lit m s2 := A2.1.trans e2
  have v1 : m2.regs r1 = readSlot lit m s1 := by
    rw [A2.2.1.regs r1 (by simpa using reg_ne A1.2.2 h01 a1 (by simp))]
    exact A1.1
  cases wr with
  | false =>
    simp only [wb, Bool.false_eq_true, if_false, List.append_nil]
    exact payload_nowr lit F op .ssi [r1, r2] imm _ S2 (by simp [v1, v2])
  | true =>
    simp only [wb, if_true]
    exact payload_wr lit F cidx op .ssi r1 [r2] imm s1 t5 _ S2 (by simp [v2]) (reg_in A1.2.2 (by simp)) (by simp)
      (Ne.symm (reg_ne A1.2.2 (Ne.symm h50) a1 (by simp))) (hw rfl)

/-- `janetc_emit_si` / `_su` / `_sl` / `_st` (emit1s) -/
theorem emit_si_correct (lit : KConst → β) (F) (cidx : KConst → Nat) (m : M β) (op : Nat) (wr : Bool) (s : Slot) (imm : Nat)
    (t0 t5 : Nat) (h50 : t5 ≠ t0) (a1 : s.avoids [t0, t5]) (hw : wr = true → ∀ k, s ≠ .const k) :
    Sim [t0, t5] (run lit F m (emitSI cidx op wr s imm t0 t5))
      (if wr then writeSlot (logged m op []) s (F op []) else logged m op [readSlot lit m s]) := by
  simp only [emitSI, run_append]
  have A1 := regnear_run lit F cidx m s t0
  generalize (regnear cidx s t0).1 = r1 at *
  generalize run lit F m (regnear cidx s t0).2 = m1 at *
  have S1 : Sim [t0, t5] m1 m := A1.2.1.mono (by intro x hx; simp at hx; simp [hx])
  cases wr with
  | false =>
    simp only [wb, Bool.false_eq_true, if_false, List.append_nil]
    exact payload_nowr lit F op .si [r1] imm _ S1 (by simp [A1.1])
  | true =>
    simp only [wb, if_true]
    exact payload_wr lit F cidx op .si r1 [] imm s t5 _ S1 (by simp) (reg_in A1.2.2 (by simp)) (by simp)
      (Ne.symm (reg_ne A1.2.2 (Ne.symm h50) a1 (by simp))) (hw rfl)

theorem regfar_in {s : Slot} {T : List Nat} {r t fr : Nat} (hr : r = t ∨ r = fr ∨ s = .loc r) (ht : t ∈ T) (hf : fr ∈ T) :
    r ∈ T ∨ s = .loc r := by
  rcases hr with hr | hr | hr
  · exact Or.inl (hr ▸ ht)
  · exact Or.inl (hr ▸ hf)
  · exact Or.inr hr

theorem regfar_ne {s : Slot} {T : List Nat} {r t fr u : Nat} (hr : r = t ∨ r = fr ∨ s = .loc r) (htu : t ≠ u) (hfu : fr ≠ u)
    (ha : s.avoids T) (hu : u ∈ T) : r ≠ u := by
  rcases hr with hr | hr | hr
  · rw [hr]; exact htu
  · rw [hr]; exact hfu
  · intro h; exact ha r hr (h ▸ hu)

/-- `janetc_emit_ss` (second operand through `janetc_regfar`: 16-bit register field) -/
theorem emit_ss_correct (lit : KConst → β) (F) (cidx : KConst → Nat) (m : M β) (op : Nat) (wr : Bool) (s1 s2 : Slot)
    (t0 t1 fr t5 : Nat) (h01 : t0 ≠ t1) (h0f : t0 ≠ fr) (h50 : t5 ≠ t0)
    (a1 : s1.avoids [t0, t1, fr, t5]) (a2 : s2.avoids [t0, t1, fr, t5])
    (hw : wr = true → ∀ k, s1 ≠ .const k) :
    Sim [t0, t1, fr, t5] (run lit F m (emitSS cidx op wr s1 s2 t0 t1 fr t5))
      (if wr then writeSlot (logged m op [readSlot lit m s2]) s1 (F op [readSlot lit m s2])
       else logged m op [readSlot lit m s1, readSlot lit m s2]) := by
  simp only [emitSS, run_append]
  have A1 := regnear_run lit F cidx m s1 t0
  have A2 := regfar_run lit F cidx (run lit F m (regnear cidx s1 t0).2) s2 t1 fr
  generalize (regnear cidx s1 t0).1 = r1 at *
  generalize (regfar cidx s2 t1 fr).1 = r2 at *
  generalize run lit F m (regnear cidx s1 t0).2 = m1 at *
  generalize run lit F m1 (regfar cidx s2 t1 fr).2 = m2 at *
  have S2 : Sim [t0, t1, fr, t5] m2 m :=
    (A2.2.1.mono (by intro x hx; simp at hx; rcases hx with hx | hx <;> simp [hx])).trans (A1.2.1.mono (by intro x hx; simp at hx; simp [hx]))
  have e2 : readSlot lit m1 s2 = readSlot lit m s2 := readSlot_sim lit A1.2.1 s2 (avoids_sub a2 (by intro x hx; simp at hx; simp [hx]))
  have v2 : m2.regs r2 = readSlot lit m s2 := A2.1.trans e2
  have v1 : m2.regs r1 = readSlot lit m s1 := by
    rw [A2.2.1.regs r1 (by
      have n1 := reg_ne A1.2.2 h01 a1 (by simp)
      have n2 := reg_ne A1.2.2 h0f a1 (by simp)
      simp [n1, n2])]
    exact A1.1
  cases wr with
  | false =>
    simp only [wb, Bool.false_eq_true, if_false, List.append_nil]
    exact payload_nowr lit F op .ss [r1, r2] 0 _ S2 (by simp [v1, v2])
  | true =>
    simp only [wb, if_true]
    exact payload_wr lit F cidx op .ss r1 [r2] 0 s1 t5 _ S2 (by simp [v2]) (reg_in A1.2.2 (by simp)) (by simp)
      (Ne.symm (reg_ne A1.2.2 (Ne.symm h50) a1 (by simp))) (hw rfl)

/-- `janetc_emit_s` (operand through `janetc_regfar`: 24-bit register field).  NB for wr = 1 the C moves back from the far
    register through 8-bit fields; the compiler only uses wr = 1 with local slots, where no far register is involved. -/
theorem emit_s_correct (lit : KConst → β) (F) (cidx : KConst → Nat) (m : M β) (op : Nat) (wr : Bool) (s : Slot)
    (t0 fr t5 : Nat) (h50 : t5 ≠ t0) (h5f : t5 ≠ fr) (a1 : s.avoids [t0, fr, t5]) (hw : wr = true → ∀ k, s ≠ .const k) :
    Sim [t0, fr, t5] (run lit F m (emitS cidx op wr s t0 fr t5))
      (if wr then writeSlot (logged m op []) s (F op []) else logged m op [readSlot lit m s]) := by
  simp only [emitS, run_append]
  have A1 := regfar_run lit F cidx m s t0 fr
  generalize (regfar cidx s t0 fr).1 = r1 at *
  generalize run lit F m (regfar cidx s t0 fr).2 = m1 at *
  have S1 : Sim [t0, fr, t5] m1 m := A1.2.1.mono (by intro x hx; simp at hx; rcases hx with hx | hx <;> simp [hx])
  cases wr with
  | false =>
    simp only [wb, Bool.false_eq_true, if_false, List.append_nil]
    exact payload_nowr lit F op .s [r1] 0 _ S1 (by simp [A1.1])
  | true =>
    simp only [wb, if_true]
    exact payload_wr lit F cidx op .s r1 [] 0 s t5 _ S1 (by simp) (regfar_in A1.2.2 (by simp) (by simp)) (by simp)
      (Ne.symm (regfar_ne A1.2.2 (Ne.symm h50) (Ne.symm h5f) a1 (by simp))) (hw rfl)

theorem writeSlot_self (lit : KConst → β) (T : List Nat) (m : M β) (s : Slot) : Sim T (writeSlot m s (readSlot lit m s)) m := by
  cases s with
  | loc i => exact ⟨fun x _ => by simp only [writeSlot, readSlot, upd]; split <;> simp_all, rfl, rfl, rfl, rfl⟩
  | up e i =>
    refine ⟨fun _ _ => rfl, ?_, rfl, rfl, rfl⟩
    funext e' j
    simp only [writeSlot, readSlot, upd2]
    split
    · rename_i h; rw [h.1, h.2]
    · rfl
  | const k => exact Sim.refl _ _
  | ref id =>
    refine ⟨fun _ _ => rfl, rfl, ?_, rfl, rfl⟩
    funext j
    simp only [writeSlot, readSlot, upd]
    split
    · rename_i h; rw [h]
    · rfl

theorem copy_unfold (cidx : KConst → Nat) (dest src : Slot) (t3 t5 : Nat) (hc : ∀ k, dest ≠ .const k) :
    copy cidx dest src t3 t5 =
      (if dest = src then [] else if dest.nearLocal then movenear cidx dest.index src
       else if src.nearLocal then moveback cidx t5 dest src.index
       else movenear cidx t3 src ++ moveback cidx t5 dest t3) := by
  cases dest with
  | const k => exact absurd rfl (hc k)
  | loc i => rfl
  | up e i => rfl
  | ref id => rfl

theorem nearLocal_loc {s : Slot} (h : s.nearLocal = true) : ∃ i, s = .loc i := by
  cases s with
  | loc i => exact ⟨i, rfl⟩
  | up e i => simp [Slot.nearLocal] at h
  | const k => simp [Slot.nearLocal] at h
  | ref id => simp [Slot.nearLocal] at h

/-- `janetc_copy`: destination slot := value of the source slot, for all 4 x 5 kind combinations -/
theorem copy_correct (lit : KConst → β) (F) (cidx : KConst → Nat) (m : M β) (dest src : Slot) (t3 t5 : Nat)
    (h35 : t3 ≠ t5) (ad : dest.avoids [t3, t5]) (as : src.avoids [t3, t5]) (hc : ∀ k, dest ≠ .const k) :
    Sim [t3, t5] (run lit F m (copy cidx dest src t3 t5)) (writeSlot m dest (readSlot lit m src)) := by
  rw [copy_unfold cidx dest src t3 t5 hc]
  by_cases heq : dest = src
  · rw [if_pos heq, run_nil, heq]
    exact (writeSlot_self lit _ m src).symm
  · rw [if_neg heq]
    by_cases hdn : dest.nearLocal = true
    · rw [if_pos hdn]
      obtain ⟨i, hi⟩ := nearLocal_loc hdn
      subst hi
      have A := movenear_run lit F cidx m i src
      show Sim [t3, t5] (run lit F m (movenear cidx i src)) (writeSlot m (.loc i) (readSlot lit m src))
      refine ⟨fun x hx => ?_, A.2.up, A.2.cell, A.2.log, A.2.ok⟩
      simp only [writeSlot, upd]
      by_cases hxi : x = i
      · rw [if_pos hxi, hxi]; exact A.1
      · rw [if_neg hxi]; exact A.2.regs x (by simp [hxi])
    · rw [if_neg hdn]
      by_cases hsn : src.nearLocal = true
      · rw [if_pos hsn]
        obtain ⟨j, hj⟩ := nearLocal_loc hsn
        subst hj
        have h5 : t5 ≠ j := fun h => as j rfl (by simp [h])
        have B := moveback_run lit F cidx m dest j t5 hc h5
        show Sim [t3, t5] (run lit F m (moveback cidx t5 dest j)) (writeSlot m dest (m.regs j))
        exact B.mono (by intro x hx; simp at hx; simp [hx])
      · rw [if_neg hsn, run_append]
        have A := movenear_run lit F cidx m t3 src
        generalize run lit F m (movenear cidx t3 src) = m1 at *
        have B := moveback_run lit F cidx m1 dest t3 t5 hc (Ne.symm h35)
        rw [A.1] at B
        refine (B.mono (by intro x hx; simp at hx; simp [hx])).trans ?_
        exact writeSlot_sim dest _ t3 (A.2.mono (by intro x hx; simp at hx; simp [hx])) (Or.inl (by simp))

/-! ### `janetc_regalloc_temp` -/

theorem firstFit_spec (ra : RA) : ∀ fuel r, (∀ k, k < r → ra.taken k = true) →
    (∀ k, k < firstFit ra fuel r → ra.taken k = true) ∧ r ≤ firstFit ra fuel r := by
  intro fuel
  induction fuel with
  | zero => intro r h; exact ⟨h, Nat.le_refl _⟩
  | succ n ih =>
    intro r h
    by_cases ht : ra.taken r = true
    · have h' : ∀ k, k < r + 1 → ra.taken k = true := by
        intro k hk
        by_cases hkr : k = r
        · rw [hkr]; exact ht
        · exact h k (by omega)
      have := ih (r + 1) h'
      simp only [firstFit, ht, if_true]
      exact ⟨this.1, by omega⟩
    · simp only [firstFit, ht]
      exact ⟨h, Nat.le_refl _⟩

theorem firstFit_free (ra : RA) (fuel r : Nat) (hf : ∃ k, r ≤ k ∧ k < r + fuel ∧ ra.taken k = false) :
    ra.taken (firstFit ra fuel r) = false := by
  induction fuel generalizing r with
  | zero => obtain ⟨k, h1, h2, _⟩ := hf; omega
  | succ n ih =>
    by_cases ht : ra.taken r = true
    · simp only [firstFit, ht, if_true]
      apply ih
      obtain ⟨k, h1, h2, h3⟩ := hf
      have : k ≠ r := by intro e; rw [e] at h3; rw [h3] at ht; exact Bool.noConfusion ht
      exact ⟨k, by omega, by omega, h3⟩
    · simp only [firstFit, ht]
      cases h : ra.taken r with
      | true => exact absurd h ht
      | false => simp [h]

theorem taken_mark (ra : RA) (r : Nat) : (ra.mark r).taken r = true := by simp [RA.taken, RA.mark]

theorem taken_mark_mono (ra : RA) (r k : Nat) (h : ra.taken k = true) : (ra.mark r).taken k = true := by
  simp only [RA.taken, RA.mark] at *
  by_cases hk : k = r <;> simp_all

/-- Temporaries handed out for two tags that are held at the same time are distinct near registers, and neither is a
    register that was allocated before (`taken` includes the reserved range 0xF0..0xFF, so a first-fit temporary is never a
    reserved one, and a reserved one 0xF0+tag is never a first-fit one).  `hfree*`: the search does find a free register
    within its fuel (the compiler gives up at 0x10000 registers). -/
theorem regtemp_disjoint (ra : RA) (fuel tag1 tag2 : Nat) (ht : tag1 ≠ tag2) (h1 : tag1 < 8) (h2 : tag2 < 8)
    (hfree1 : ∃ k, k < fuel ∧ ra.taken k = false)
    (hfree2 : ∃ k, k < fuel ∧ ((regallocTemp ra fuel tag1).2).taken k = false) :
    let r1 := (regallocTemp ra fuel tag1).1
    let ra1 := (regallocTemp ra fuel tag1).2
    let r2 := (regallocTemp ra1 fuel tag2).1
    r1 ≠ r2 ∧ r1 ≤ 0xFF ∧ r2 ≤ 0xFF ∧ (ra.alloc r1 = false ∨ 0xF0 ≤ r1) ∧ (ra.alloc r2 = false ∨ 0xF0 ≤ r2) := by
  intro r1 ra1 r2
  have hf1 : ra.taken (firstFit ra fuel 0) = false := by
    apply firstFit_free
    obtain ⟨k, hk, hk2⟩ := hfree1
    exact ⟨k, by omega, by omega, hk2⟩
  have hf2 : ra1.taken (firstFit ra1 fuel 0) = false := by
    apply firstFit_free
    obtain ⟨k, hk, hk2⟩ := hfree2
    exact ⟨k, by omega, by omega, hk2⟩
  have hmin1 := (firstFit_spec ra fuel 0 (by intro k hk; omega)).1
  have hmin2 := (firstFit_spec ra1 fuel 0 (by intro k hk; omega)).1
  -- the second first-fit register differs from the first one (which is marked in ra1) and is not taken in ra
  have hne : firstFit ra1 fuel 0 ≠ firstFit ra fuel 0 := by
    intro e
    have := taken_mark ra (firstFit ra fuel 0)
    have h' : ra1.taken (firstFit ra fuel 0) = true := this
    rw [← e] at h'
    rw [h'] at hf2
    exact Bool.noConfusion hf2
  have hnt2 : ra.taken (firstFit ra1 fuel 0) = false := by
    cases h : ra.taken (firstFit ra1 fuel 0) with
    | false => rfl
    | true =>
      have := taken_mark_mono ra (firstFit ra fuel 0) _ h
      have h' : ra1.taken (firstFit ra1 fuel 0) = true := this
      rw [h'] at hf2
      exact Bool.noConfusion hf2
  -- everything below the first first-fit register is taken in ra, hence in ra1: the second one is above it
  have hgt : firstFit ra fuel 0 < firstFit ra1 fuel 0 := by
    rcases Nat.lt_trichotomy (firstFit ra1 fuel 0) (firstFit ra fuel 0) with hlt | heq | hgt
    · have := hmin1 _ hlt
      rw [this] at hnt2
      exact Bool.noConfusion hnt2
    · exact absurd heq hne
    · exact hgt
  have hres1 : ¬ (0xF0 ≤ firstFit ra fuel 0 ∧ firstFit ra fuel 0 ≤ 0xFF) := by
    intro h
    simp [RA.taken, h.1, h.2] at hf1
  have hres2 : ¬ (0xF0 ≤ firstFit ra1 fuel 0 ∧ firstFit ra1 fuel 0 ≤ 0xFF) := by
    intro h
    simp [RA.taken, h.1, h.2] at hnt2
  have ha1 : ra.alloc (firstFit ra fuel 0) = false := by
    simp [RA.taken] at hf1; exact hf1.1
  have ha2 : ra.alloc (firstFit ra1 fuel 0) = false := by
    simp [RA.taken] at hnt2; exact hnt2.1
  -- a temporary is either a register that was free (first fit) or a reserved one, which first fit never hands out
  show (regallocTemp ra fuel tag1).1 ≠ (regallocTemp ra1 fuel tag2).1 ∧ (regallocTemp ra fuel tag1).1 ≤ 0xFF ∧
    (regallocTemp ra1 fuel tag2).1 ≤ 0xFF ∧ (ra.alloc (regallocTemp ra fuel tag1).1 = false ∨ 0xF0 ≤ (regallocTemp ra fuel tag1).1) ∧
    (ra.alloc (regallocTemp ra1 fuel tag2).1 = false ∨ 0xF0 ≤ (regallocTemp ra1 fuel tag2).1)
  simp only [regallocTemp]
  by_cases c1 : firstFit ra fuel 0 > 0xFF <;> by_cases c2 : firstFit ra1 fuel 0 > 0xFF <;> simp only [c1, c2, if_true, if_false]
  · exact ⟨by omega, by omega, by omega, Or.inr (by omega), Or.inr (by omega)⟩
  · exact absurd hgt (by omega)
  · exact ⟨by omega, by omega, by omega, Or.inl ha1, Or.inr (by omega)⟩
  · exact ⟨by omega, by omega, by omega, Or.inl ha1, Or.inl ha2⟩

theorem firstFit_congr (a b : RA) (h : ∀ x, a.alloc x = b.alloc x) : ∀ fuel r, firstFit a fuel r = firstFit b fuel r := by
  intro fuel
  induction fuel with
  | zero => intro r; rfl
  | succ n ih => intro r; simp only [firstFit, RA.taken, h, ih] <;> rfl

/-- the stateful `janetc_regalloc_temp` of the correspondence model returns the register described by `regallocTemp` and
    marks the same register: `regtemp_disjoint` speaks about the function that is compared with regalloc.c -/
theorem allocTemp_eq (ra : RA) (tag : Nat) :
    (ra.allocTemp tag).1 = (regallocTemp ra searchFuel tag).1 ∧
    ∀ x, (ra.allocTemp tag).2.alloc x = (regallocTemp ra searchFuel tag).2.alloc x := by
  have hc := firstFit_congr { ra with temps := fun j => if j = tag then true else ra.temps j } ra (fun _ => rfl) searchFuel 0
  simp only [RA.allocTemp, RA.alloc1, regallocTemp, hc]
  constructor
  · split <;> rfl
  · intro x; split <;> rfl

end JanetModel.Emit
