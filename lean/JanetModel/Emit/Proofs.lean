/- C02: correctness of the emit layer on local slots, for every index (near and far) and every operand position. -/
import JanetModel.Emit.Model
namespace JanetModel.Emit

variable {α : Type}
set_option linter.unusedVariables false

theorem upd_same (regs : Nat → α) (i : Nat) (v : α) : upd regs i v i = v := by simp [upd]
theorem upd_other (regs : Nat → α) (i j : Nat) (v : α) (h : j ≠ i) : upd regs i v j = regs j := by simp [upd, h]

/-- `janetc_emit_sss`, wr = 1, all 8 near/far combinations of (dest, a, b) and all indices: the destination receives
    `f a b` computed from the ORIGINAL operand values and every register that is not one of the three temporaries keeps
    its value.  Hypotheses = what the allocator guarantees: temporaries are near, pairwise distinct and are not the
    operands' own registers. -/
theorem emit_sss_correct (f : α → α → α) (g : Nat → α → α) (regs : Nat → α) (op dest a b t0 t1 t2 : Nat)
    (h01 : t0 ≠ t1) (h02 : t0 ≠ t2) (h12 : t1 ≠ t2)
    (hd0 : dest ≠ t0) (hd1 : dest ≠ t1) (hd2 : dest ≠ t2)
    (ha0 : a ≠ t0) (ha1 : a ≠ t1) (ha2 : a ≠ t2)
    (hb0 : b ≠ t0) (hb1 : b ≠ t1) (hb2 : b ≠ t2) :
    ∀ r, r ≠ t0 → r ≠ t1 → r ≠ t2 →
      run f g regs (emitSSS op dest a b t0 t1 t2) r = if r = dest then f (regs a) (regs b) else regs r := by
  intro r hr0 hr1 hr2
  by_cases hdn : dest ≤ 0xFF <;> by_cases han : a ≤ 0xFF <;> by_cases hbn : b ≤ 0xFF <;>
    simp [emitSSS, regnear, moveback, run, exec, upd, hdn, han, hbn] <;>
    (by_cases hrd : r = dest <;> simp_all [exec, upd, Ne.symm])

/-- `janetc_emit_ssi` / `janetc_emit_ssu`, wr = 1 -/
theorem emit_ssi_correct (f : α → α → α) (g : Nat → α → α) (regs : Nat → α) (op dest a imm t0 t1 : Nat)
    (h01 : t0 ≠ t1) (hd0 : dest ≠ t0) (hd1 : dest ≠ t1) (ha0 : a ≠ t0) (ha1 : a ≠ t1) :
    ∀ r, r ≠ t0 → r ≠ t1 →
      run f g regs (emitSSI op dest a imm t0 t1) r = if r = dest then g imm (regs a) else regs r := by
  intro r hr0 hr1
  by_cases hdn : dest ≤ 0xFF <;> by_cases han : a ≤ 0xFF <;>
    simp [emitSSI, regnear, moveback, run, exec, upd, hdn, han] <;>
    (by_cases hrd : r = dest <;> simp_all [exec, upd, Ne.symm])

/-- `janetc_copy` between local slots: all four near/far combinations -/
theorem copy_correct (f : α → α → α) (g : Nat → α → α) (regs : Nat → α) (dest src t3 : Nat)
    (hd : dest ≠ t3) (hs : src ≠ t3) :
    ∀ r, r ≠ t3 → run f g regs (copy dest src t3) r = if r = dest then regs src else regs r := by
  intro r hr
  by_cases heq : dest = src
  · subst heq; simp [copy, run]; intro h; rw [h]
  · by_cases hdn : dest ≤ 0xFF <;> by_cases hsn : src ≤ 0xFF <;>
      simp [copy, moveback, run, exec, upd, heq, hdn, hsn, Ne.symm heq] <;>
      (by_cases hrd : r = dest <;> simp_all [exec, upd, Ne.symm])

end JanetModel.Emit

namespace JanetModel.Emit

/-! ### `janetc_regalloc_temp` -/

theorem firstFit_spec (ra : RA) : ∀ fuel r, (∀ k, k < r → ra.taken k = true) →
    (∀ k, k < firstFit ra fuel r → ra.taken k = true) ∧ r ≤ firstFit ra fuel r := by
  intro fuel
  induction fuel with
  | zero => intro r h; exact ⟨h, Nat.le_refl _⟩
  | succ n ih =>
    intro r h
    by_cases ht : ra.taken r = true
    · have h' : ∀ k, k < r + 1 → ra.taken k = true := by
        intro k hk
        by_cases hkr : k = r
        · rw [hkr]; exact ht
        · exact h k (by omega)
      have := ih (r + 1) h'
      simp only [firstFit, ht, if_true]
      exact ⟨this.1, by omega⟩
    · simp only [firstFit, ht]
      exact ⟨h, Nat.le_refl _⟩

theorem firstFit_free (ra : RA) (fuel r : Nat) (hf : ∃ k, r ≤ k ∧ k < r + fuel ∧ ra.taken k = false) :
    ra.taken (firstFit ra fuel r) = false := by
  induction fuel generalizing r with
  | zero => obtain ⟨k, h1, h2, _⟩ := hf; omega
  | succ n ih =>
    by_cases ht : ra.taken r = true
    · simp only [firstFit, ht, if_true]
      apply ih
      obtain ⟨k, h1, h2, h3⟩ := hf
      have : k ≠ r := by intro e; rw [e] at h3; rw [h3] at ht; exact Bool.noConfusion ht
      exact ⟨k, by omega, by omega, h3⟩
    · simp only [firstFit, ht]
      cases h : ra.taken r with
      | true => exact absurd h ht
      | false => simp [h]

theorem taken_mark (ra : RA) (r : Nat) : (ra.mark r).taken r = true := by simp [RA.taken, RA.mark]

theorem taken_mark_mono (ra : RA) (r k : Nat) (h : ra.taken k = true) : (ra.mark r).taken k = true := by
  simp only [RA.taken, RA.mark] at *
  by_cases hk : k = r <;> simp_all

/-- Temporaries handed out for two tags that are held at the same time are distinct near registers, and neither is a
    register that was allocated before (`taken` includes the reserved range 0xF0..0xFF, so a first-fit temporary is never a
    reserved one, and a reserved one 0xF0+tag is never a first-fit one).  `hfree*`: the search does find a free register
    within its fuel (the compiler gives up at 0x10000 registers). -/
theorem regtemp_disjoint (ra : RA) (fuel tag1 tag2 : Nat) (ht : tag1 ≠ tag2) (h1 : tag1 < 8) (h2 : tag2 < 8)
    (hfree1 : ∃ k, k < fuel ∧ ra.taken k = false)
    (hfree2 : ∃ k, k < fuel ∧ ((regallocTemp ra fuel tag1).2).taken k = false) :
    let r1 := (regallocTemp ra fuel tag1).1
    let ra1 := (regallocTemp ra fuel tag1).2
    let r2 := (regallocTemp ra1 fuel tag2).1
    r1 ≠ r2 ∧ r1 ≤ 0xFF ∧ r2 ≤ 0xFF ∧ (ra.alloc r1 = false ∨ 0xF0 ≤ r1) ∧ (ra.alloc r2 = false ∨ 0xF0 ≤ r2) := by
  intro r1 ra1 r2
  have hf1 : ra.taken (firstFit ra fuel 0) = false := by
    apply firstFit_free
    obtain ⟨k, hk, hk2⟩ := hfree1
    exact ⟨k, by omega, by omega, hk2⟩
  have hf2 : ra1.taken (firstFit ra1 fuel 0) = false := by
    apply firstFit_free
    obtain ⟨k, hk, hk2⟩ := hfree2
    exact ⟨k, by omega, by omega, hk2⟩
  have hmin1 := (firstFit_spec ra fuel 0 (by intro k hk; omega)).1
  have hmin2 := (firstFit_spec ra1 fuel 0 (by intro k hk; omega)).1
  -- the second first-fit register differs from the first one (which is marked in ra1) and is not taken in ra
  have hne : firstFit ra1 fuel 0 ≠ firstFit ra fuel 0 := by
    intro e
    have := taken_mark ra (firstFit ra fuel 0)
    have h' : ra1.taken (firstFit ra fuel 0) = true := this
    rw [← e] at h'
    rw [h'] at hf2
    exact Bool.noConfusion hf2
  have hnt2 : ra.taken (firstFit ra1 fuel 0) = false := by
    cases h : ra.taken (firstFit ra1 fuel 0) with
    | false => rfl
    | true =>
      have := taken_mark_mono ra (firstFit ra fuel 0) _ h
      have h' : ra1.taken (firstFit ra1 fuel 0) = true := this
      rw [h'] at hf2
      exact Bool.noConfusion hf2
  -- everything below the first first-fit register is taken in ra, hence in ra1: the second one is above it
  have hgt : firstFit ra fuel 0 < firstFit ra1 fuel 0 := by
    rcases Nat.lt_trichotomy (firstFit ra1 fuel 0) (firstFit ra fuel 0) with hlt | heq | hgt
    · have := hmin1 _ hlt
      rw [this] at hnt2
      exact Bool.noConfusion hnt2
    · exact absurd heq hne
    · exact hgt
  have hres1 : ¬ (0xF0 ≤ firstFit ra fuel 0 ∧ firstFit ra fuel 0 ≤ 0xFF) := by
    intro h
    simp [RA.taken, h.1, h.2] at hf1
  have hres2 : ¬ (0xF0 ≤ firstFit ra1 fuel 0 ∧ firstFit ra1 fuel 0 ≤ 0xFF) := by
    intro h
    simp [RA.taken, h.1, h.2] at hnt2
  have ha1 : ra.alloc (firstFit ra fuel 0) = false := by
    simp [RA.taken] at hf1; exact hf1.1
  have ha2 : ra.alloc (firstFit ra1 fuel 0) = false := by
    simp [RA.taken] at hnt2; exact hnt2.1
  -- a temporary is either a register that was free (first fit) or a reserved one, which first fit never hands out
  show (regallocTemp ra fuel tag1).1 ≠ (regallocTemp ra1 fuel tag2).1 ∧ (regallocTemp ra fuel tag1).1 ≤ 0xFF ∧
    (regallocTemp ra1 fuel tag2).1 ≤ 0xFF ∧ (ra.alloc (regallocTemp ra fuel tag1).1 = false ∨ 0xF0 ≤ (regallocTemp ra fuel tag1).1) ∧
    (ra.alloc (regallocTemp ra1 fuel tag2).1 = false ∨ 0xF0 ≤ (regallocTemp ra1 fuel tag2).1)
  simp only [regallocTemp]
  by_cases c1 : firstFit ra fuel 0 > 0xFF <;> by_cases c2 : firstFit ra1 fuel 0 > 0xFF <;> simp only [c1, c2, if_true, if_false]
  · exact ⟨by omega, by omega, by omega, Or.inr (by omega), Or.inr (by omega)⟩
  · exact absurd hgt (by omega)
  · exact ⟨by omega, by omega, by omega, Or.inl ha1, Or.inr (by omega)⟩
  · exact ⟨by omega, by omega, by omega, Or.inl ha1, Or.inl ha2⟩

end JanetModel.Emit
