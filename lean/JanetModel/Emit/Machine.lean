/- C02: semantics of the instructions emit.c produces, on an abstract machine: registers, upvalue environments, the cells of
   ref arrays, and a log of what each payload instruction read.  (The same instructions are executed by `Bytecode/Exec.step`
   in translation validation; here registers are a function so that the theorems hold for every index.)  Core Lean only. -/
import JanetModel.Emit.Model
namespace JanetModel.Emit

/-- register contents: an ordinary value or a reference to ref array `id` -/
inductive RV (β : Type) where
  | v (b : β)
  | ref (id : Nat)

structure M (β : Type) where
  regs : Nat → RV β
  up : Nat → Nat → RV β
  cell : Nat → RV β
  log : List (Nat × List (RV β))
  ok : Bool

variable {β : Type}

def upd {α : Type} (f : Nat → α) (i : Nat) (v : α) : Nat → α := fun j => if j = i then v else f j
def upd2 {α : Type} (f : Nat → Nat → α) (e i : Nat) (v : α) : Nat → Nat → α := fun e' j => if e' = e ∧ j = i then v else f e' j

/-- `lit`: value of a constant; `F op vals`: what the payload `op` computes from its source operands -/
def exec (lit : KConst → β) (F : Nat → List (RV β) → RV β) (m : M β) : MI → M β
  | .movn d s => { m with regs := upd m.regs d (m.regs s) }
  | .movf s d => { m with regs := upd m.regs d (m.regs s) }
  | .ldu d e i => { m with regs := upd m.regs d (m.up e i) }
  | .setu s e i => { m with up := upd2 m.up e i (m.regs s) }
  | .ldk d k _ => { m with regs := upd m.regs d (.v (lit k)) }
  | .ldref d _ id => { m with regs := upd m.regs d (.ref id) }
  | .geti0 a b => match m.regs b with
    | .ref id => { m with regs := upd m.regs a (m.cell id) }
    | .v _ => { m with ok := false }
  | .puti0 a b => match m.regs a with
    | .ref id => { m with cell := upd m.cell id (m.regs b) }
    | .v _ => { m with ok := false }
  | .pay op _ wr rs _ =>
    let vals := (if wr then rs.tail else rs).map m.regs
    if wr then { m with log := m.log ++ [(op, vals)], regs := upd m.regs (rs.headD 0) (F op vals) }
    else { m with log := m.log ++ [(op, vals)] }

def run (lit : KConst → β) (F : Nat → List (RV β) → RV β) (m : M β) (is : List MI) : M β := is.foldl (exec lit F) m

/-! ### slot-level reading and writing: the abstract effect the theorems compare with -/

def readSlot (lit : KConst → β) (m : M β) : Slot → RV β
  | .loc i => m.regs i
  | .up e i => m.up e i
  | .const k => .v (lit k)
  | .ref id => m.cell id

def writeSlot (m : M β) : Slot → RV β → M β
  | .loc i, x => { m with regs := upd m.regs i x }
  | .up e i, x => { m with up := upd2 m.up e i x }
  | .ref id, x => { m with cell := upd m.cell id x }
  | .const _, _ => m

def logged (m : M β) (op : Nat) (vals : List (RV β)) : M β := { m with log := m.log ++ [(op, vals)] }

/-- equal except for the registers in `T` (the temporaries) -/
structure Sim (T : List Nat) (a b : M β) : Prop where
  regs : ∀ x, x ∉ T → a.regs x = b.regs x
  up : a.up = b.up
  cell : a.cell = b.cell
  log : a.log = b.log
  ok : a.ok = b.ok

def Slot.avoids (s : Slot) (T : List Nat) : Prop := ∀ i, s = .loc i → i ∉ T

end JanetModel.Emit
