/- C02: line protocol of the emit model (same lines as harness/C02/emit_wrap.c, output must be identical):
     sss <op> <nlive> <wr> <s1> <s2> <s3> | ss .. <s1> <s2> | s .. <s1> | ssi .. <s1> <s2> <imm> | ssu .. | si .. <s1> <imm> | su ..
     copy <nlive> <dest> <src>          slots: L<i>  U<env>.<i>  K<int>|Kn|Kt|Kf  R<id>
   -> w <hex words> | max <n> temps <n> alloc <ranges> | consts <n> -/
import JanetModel.Emit.Model
namespace JanetModel.Emit

def hexd (n : Nat) : Char := if n < 10 then Char.ofNat (48 + n) else Char.ofNat (87 + n)

def toHex (n : Nat) : String :=
  if n == 0 then "0" else
  let rec go : Nat → Nat → List Char → List Char
    | 0, _, acc => acc
    | fuel + 1, n, acc => if n == 0 then acc else go fuel (n / 16) (hexd (n % 16) :: acc)
  String.ofList (go 16 n [])

def parseSlot (t : String) : Option Slot :=
  let body := (t.drop 1).toString
  match t.front with
  | 'L' => body.toNat?.map Slot.loc
  | 'U' => match body.splitOn "." with
    | [e, i] => do let e ← e.toNat?; let i ← i.toNat?; pure (Slot.up e i)
    | _ => none
  | 'K' => match body with
    | "n" => some (.const .nil)
    | "t" => some (.const .tru)
    | "f" => some (.const .fls)
    | b => b.toInt?.map (fun n => Slot.const (.int n))
  | 'R' => body.toNat?.map (fun n => Slot.ref (n % 64))
  | _ => none

def initC (nlive : Nat) (slots : List Slot) : C :=
  -- closed form of `nlive` successive `janetc_regalloc_1` calls on a fresh allocator (0..239, then 256..)
  let ra1 : RA := { alloc := fun r => if nlive ≤ 240 then decide (r < nlive) else (decide (r < 240) || (decide (256 ≤ r) && decide (r < nlive + 16))),
                    max := if nlive = 0 then 0 else if nlive ≤ 240 then nlive - 1 else nlive + 15 }
  let ra2 := slots.foldl (fun (ra : RA) s => match s with | .loc i => ra.mark i | _ => ra) ra1
  { ra := ra2 }

def ranges (ra : RA) (bound : Nat) : String :=
  let on (r : Nat) : Bool := ra.alloc r && !(240 ≤ r && r ≤ 255)
  let (acc, cur) := (List.range (bound + 1)).foldl (fun (st : List String × Option (Nat × Nat)) r =>
    match st.2, on r with
    | none, true => (st.1, some (r, r))
    | none, false => st
    | some (a, _), true => (st.1, some (a, r))
    | some (a, b), false => (st.1 ++ [s!"{a}-{b}"], none)) ([], none)
  let acc := match cur with | some (a, b) => acc ++ [s!"{a}-{b}"] | none => acc
  String.intercalate " " acc

def report (c : C) (bound : Nat) : String :=
  let ws := String.intercalate " " (c.buf.map (fun i => toHex (i.word % 4294967296)))
  let temps := (List.range 8).foldl (fun acc t => if c.ra.temps t then acc + 2 ^ t else acc) 0
  "w" ++ (if ws.isEmpty then "" else " " ++ ws) ++ s!" | max {c.ra.max} temps {temps} alloc " ++ ranges c.ra bound ++ s!" | consts {c.consts.length}"

def boundOf (nlive : Nat) (slots : List Slot) : Nat :=
  slots.foldl (fun b s => match s with | .loc i => max b i | _ => b) nlive + 96

def imm8 (s : String) : Option Nat := s.toInt?.map (fun n => imod n 256)
def imm16 (s : String) : Option Nat := s.toInt?.map (fun n => imod n 65536)

def emitCmd (toks : List String) : String :=
  let bad := "bad-op"
  match toks with
  | ["copy", nl, d, s] =>
    match nl.toNat?, parseSlot d, parseSlot s with
    | some nl, some d, some s => report (W.copy (initC nl [d, s]) d s) (boundOf nl [d, s])
    | _, _, _ => bad
  | kind :: op :: nl :: wr :: rest =>
    match op.toNat?, nl.toNat?, rest.mapM (fun t => parseSlot t) with
    | some op, some nl, _ =>
      let wr := wr == "1"
      match kind, rest with
      | "s", [a] => match parseSlot a with
        | some a => report (W.emitS (initC nl [a]) op wr a) (boundOf nl [a])
        | none => bad
      | "si", [a, i] | "su", [a, i] => match parseSlot a, imm16 i with
        | some a, some i => report (W.emitSI (initC nl [a]) op wr a i) (boundOf nl [a])
        | _, _ => bad
      | "ss", [a, b] => match parseSlot a, parseSlot b with
        | some a, some b => report (W.emitSS (initC nl [a, b]) op wr a b) (boundOf nl [a, b])
        | _, _ => bad
      | "ssi", [a, b, i] | "ssu", [a, b, i] => match parseSlot a, parseSlot b, imm8 i with
        | some a, some b, some i => report (W.emitSSI (initC nl [a, b]) op wr a b i) (boundOf nl [a, b])
        | _, _, _ => bad
      | "sss", [a, b, c] => match parseSlot a, parseSlot b, parseSlot c with
        | some a, some b, some c => report (W.emitSSS (initC nl [a, b, c]) op wr a b c) (boundOf nl [a, b, c])
        | _, _, _ => bad
      | _, _ => bad
    | _, _, _ => bad
  | _ => bad

end JanetModel.Emit
