/- C02: line-protocol commands of the emit model (filled in by Emit/Model.lean) -/
namespace JanetModel.Emit
def emitCmd (_ : List String) : String := "emit-model-not-built"
end JanetModel.Emit
