/-
C16 — obligations over the CURRENT source for the readiness dispatch: Gen/Dispatch.lean is regenerated from the epoll
`janet_loop1_impl` of src/core/ev.c on every run; this file only builds when the regenerated per-word delivery table has all
16 rows, delivers data first (READ before ERR / HUP for every word with EPOLLIN; WRITE first for every word with EPOLLOUT),
lets error / hang-up conditions reach both fibers and invents nothing; then it instantiates the full-strength theorems.
(Not imported by Props/C16.lean so that the rest of the library builds on a tree where the order is different.)
-/
import JanetModel.Props.C16

namespace JanetModel.Stream.DispatchCurrent
open JanetModel.Stream

theorem current_dispatch_complete : tableComplete currentTable = true := by decide
theorem current_dispatch_data_first : dataFirst currentTable = true := by decide
theorem current_dispatch_out_first : outFirst currentTable = true := by decide
theorem current_dispatch_conditions_reach_both : condReaches currentTable = true := by decide
theorem current_dispatch_nothing_spurious : noSpurious currentTable = true := by decide

/-- the event kinds the model's `readKind` / `writeKind` send to the read loop / error arm / write attempt / "stream err" / "stream hup"
    are the case groups of the posix `switch (event)` of ev_callback_read / ev_callback_write (regenerated; numbers = JanetAsyncEvent
    values, `Stream.NetCurrent.current_source_event_codes`): INIT HUP READ | ERR ;  INIT WRITE | ERR | HUP -/
theorem current_read_case_groups : Gen.Stream.readLoopEvents = [0, 5, 6] ∧ Gen.Stream.readErrEvents = [4] := by decide
theorem current_write_case_groups :
    Gen.Stream.writeTryEvents = [0, 7] ∧ Gen.Stream.writeErrEvents = [4] ∧ Gen.Stream.writeHupEvents = [5] := by decide

/-- `readable_byte_never_dropped` for the dispatch of the current source, every epoll word with EPOLLIN -/
theorem readable_byte_never_dropped_current {α : Type}
    (chunk : Bool) (limC base n : Nat) (inc0 : List α) (st : RSt α) (hinv : RInv n inc0 st)
    (hl : 0 < st.left) (hc : 0 < limC) (hq : st.inc ≠ [])
    (w : Nat) (hw : hasBit (w % 16) wIN = true) (m : Nat) (hm : 0 < m) (as : List Ans) :
    let o := readWord currentTable chunk false limC base st ⟨w, .bytes m :: as⟩
    st.got.length < o.st.got.length ∧ o.res ≠ .nil false ∧ o.st.got ++ o.st.inc = inc0 :=
  JanetModel.Props.C16.readable_byte_never_dropped currentTable current_dispatch_data_first chunk limC base n inc0 st hinv hl hc hq w hw m hm as

theorem accepted_write_completes_current (len start : Nat) (hs : start < len)
    (w : Nat) (hw : hasBit (w % 16) wOUT = true) (m : Nat) (hm : len - start ≤ m) (as : List Ans) :
    (writeWord currentTable len false start ⟨w, .bytes m :: as⟩).res = .done ∧
    (writeWord currentTable len false start ⟨w, .bytes m :: as⟩).start = len :=
  JanetModel.Props.C16.accepted_write_completes currentTable current_dispatch_out_first len start hs w hw m hm as

end JanetModel.Stream.DispatchCurrent
