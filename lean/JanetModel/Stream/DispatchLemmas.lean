/-
C16 — lemmas about the readiness dispatch composed with the read / write machines (Stream/Dispatch.lean):
refinement of the word-level run into the callback-event run of Stream/Model.lean, invariants, progress.
-/
import JanetModel.Stream.Dispatch
import JanetModel.Stream.Lemmas

namespace JanetModel.Stream

/-! ## reader: the word-level run IS a callback-event run -/

theorem readKind_err_res {α : Type} (chunk recvfrom : Bool) (limC base : Nat) (st : RSt α) :
    (readStep chunk recvfrom limC base st .errEv).res ≠ .pending := by
  simp only [readStep]
  by_cases h : st.read > 0 <;> simp [h]

theorem readDeliver_runRead {α : Type} (chunk recvfrom : Bool) (limC base : Nat) (ks : List Nat) :
    ∀ (st : RSt α) (as : List Ans) (more : List REv),
      runRead chunk recvfrom limC base st (readKindsEvs chunk recvfrom limC base st ks as ++ more) =
        (match (readDeliver chunk recvfrom limC base st ks as).res with
         | .pending =>
           { st := (runRead chunk recvfrom limC base (readDeliver chunk recvfrom limC base st ks as).st more).st,
             calls := (readDeliver chunk recvfrom limC base st ks as).calls ++
                        (runRead chunk recvfrom limC base (readDeliver chunk recvfrom limC base st ks as).st more).calls,
             res := (runRead chunk recvfrom limC base (readDeliver chunk recvfrom limC base st ks as).st more).res }
         | r => { st := (readDeliver chunk recvfrom limC base st ks as).st,
                  calls := (readDeliver chunk recvfrom limC base st ks as).calls, res := r }) := by
  induction ks with
  | nil => intro st as more; simp [readKindsEvs, readDeliver]
  | cons k ks ih =>
    intro st as more
    by_cases hk : k = kREAD ∨ k = kHUP
    · simp only [readKindsEvs, if_pos hk, List.cons_append, runRead, readStep, readDeliver, readKind]
      cases hr : (readLoop chunk recvfrom limC base st as).res with
      | pending =>
        simp only [hr]
        rw [ih]
        cases hr2 : (readDeliver chunk recvfrom limC base (readLoop chunk recvfrom limC base st as).st ks
                      (readLoop chunk recvfrom limC base st as).rest).res <;> simp [List.append_assoc]
      | nil b => simp [hr]
      | buf r => simp [hr]
      | failed c => simp [hr]
      | starved => simp [hr]
    · by_cases he : k = kERR
      · simp only [readKindsEvs, if_neg hk, if_pos he, List.cons_append, runRead, readDeliver, readKind, readStep]
        by_cases h0 : st.read > 0 <;> simp [h0]
      · simp only [readKindsEvs, if_neg hk, if_neg he, readDeliver, readKind]
        rw [ih]
        cases hr2 : (readDeliver chunk recvfrom limC base st ks as).res <;> simp

theorem runReadWords_eq_runRead {α : Type} (tbl : DTable) (chunk recvfrom : Bool) (limC base : Nat) (es : List WordEv) :
    ∀ st : RSt α, runReadWords tbl chunk recvfrom limC base st es =
      runRead chunk recvfrom limC base st (readWordsEvs tbl chunk recvfrom limC base st es) := by
  induction es with
  | nil => intro st; simp [runReadWords, readWordsEvs, runRead]
  | cons e es ih =>
    intro st
    simp only [runReadWords, readWordsEvs]
    rw [readDeliver_runRead]
    simp only [readWord]
    cases hr : (readDeliver chunk recvfrom limC base st (kindsFor tbl 0 e.word) e.as).res with
    | pending => simp only [hr]; rw [ih]
    | nil b => simp [hr]
    | buf r => simp [hr]
    | failed c => simp [hr]
    | starved => simp [hr]

/-! ## reader: invariant, post-condition, progress of one word -/

theorem readKind_inv {α : Type} (chunk recvfrom : Bool) (limC base n : Nat) (inc0 : List α) (st : RSt α) (k : Nat) (as : List Ans)
    (h : RInv n inc0 st) : RInv n inc0 (readKind chunk recvfrom limC base st k as).st := by
  unfold readKind
  split
  · exact readLoop_inv chunk recvfrom limC base n inc0 as st h
  · split
    · exact h
    · exact h

theorem readDeliver_inv {α : Type} (chunk recvfrom : Bool) (limC base n : Nat) (inc0 : List α) (ks : List Nat) :
    ∀ (st : RSt α) (as : List Ans), RInv n inc0 st → RInv n inc0 (readDeliver chunk recvfrom limC base st ks as).st := by
  induction ks with
  | nil => intro st as h; simpa [readDeliver] using h
  | cons k ks ih =>
    intro st as h
    have h1 := readKind_inv chunk recvfrom limC base n inc0 st k as h
    simp only [readDeliver]
    cases hr : (readKind chunk recvfrom limC base st k as).res with
    | pending => exact ih _ _ h1
    | nil b => exact h1
    | buf r => exact h1
    | failed c => exact h1
    | starved => exact h1

theorem readKind_post {α : Type} (chunk recvfrom : Bool) (limC base : Nat) (st : RSt α) (k : Nat) (as : List Ans) :
    RPost chunk (readKind chunk recvfrom limC base st k as).st (readKind chunk recvfrom limC base st k as).res := by
  unfold readKind
  split
  · exact readLoop_post chunk recvfrom limC base as st
  · split
    · simp only [readStep]
      by_cases hr : st.read > 0
      · simp [hr, RPost]
      · simp only [hr, if_false, RPost]; omega
    · simp [RPost]

theorem readDeliver_post {α : Type} (chunk recvfrom : Bool) (limC base : Nat) (ks : List Nat) :
    ∀ (st : RSt α) (as : List Ans),
      RPost chunk (readDeliver chunk recvfrom limC base st ks as).st (readDeliver chunk recvfrom limC base st ks as).res := by
  induction ks with
  | nil => intro st as; simp [readDeliver, RPost]
  | cons k ks ih =>
    intro st as
    have h1 := readKind_post chunk recvfrom limC base st k as
    simp only [readDeliver]
    cases hr : (readKind chunk recvfrom limC base st k as).res with
    | pending => exact ih _ _
    | nil b => exact h1
    | buf r => exact h1
    | failed c => exact h1
    | starved => exact h1

theorem afterReadSt_read {α : Type} (recvfrom : Bool) (st : RSt α) (k : Nat) : (afterReadSt recvfrom st k).read = st.read + k := by
  unfold afterReadSt; split <;> rfl

/-- `bytes_read` never decreases inside the read loop -/
theorem readLoop_read_mono {α : Type} (chunk recvfrom : Bool) (limC base : Nat) (as : List Ans) :
    ∀ st : RSt α, st.read ≤ (readLoop chunk recvfrom limC base st as).st.read := by
  induction as with
  | nil => intro st; simp [readLoop]
  | cons a as ih =>
    intro st
    cases a with
    | eintr => simp only [readLoop]; exact ih st
    | eagain => simp [readLoop]
    | err c =>
      simp only [readLoop]
      by_cases hp : c = EPIPE ∧ recvfrom = false
      · rw [if_pos hp]
        cases hr : afterReadRes chunk recvfrom st 0 with
        | some r => simp [afterReadSt_read]
        | none =>
          have := ih (afterReadSt recvfrom st 0)
          rw [afterReadSt_read] at this
          simpa using this
      · rw [if_neg hp]; simp
    | bytes m =>
      simp only [readLoop]
      cases hr : afterReadRes chunk recvfrom st (min (min m (readLimit chunk limC st.left)) st.inc.length) with
      | some r => simp [afterReadSt_read]
      | none =>
        have := ih (afterReadSt recvfrom st (min (min m (readLimit chunk limC st.left)) st.inc.length))
        rw [afterReadSt_read] at this
        simp only []
        omega

theorem readKind_read_mono {α : Type} (chunk recvfrom : Bool) (limC base : Nat) (st : RSt α) (k : Nat) (as : List Ans) :
    st.read ≤ (readKind chunk recvfrom limC base st k as).st.read := by
  unfold readKind
  split
  · exact readLoop_read_mono chunk recvfrom limC base as st
  · split
    · simp [readStep]
    · simp

theorem readDeliver_read_mono {α : Type} (chunk recvfrom : Bool) (limC base : Nat) (ks : List Nat) :
    ∀ (st : RSt α) (as : List Ans), st.read ≤ (readDeliver chunk recvfrom limC base st ks as).st.read := by
  induction ks with
  | nil => intro st as; simp [readDeliver]
  | cons k ks ih =>
    intro st as
    have h1 := readKind_read_mono chunk recvfrom limC base st k as
    simp only [readDeliver]
    cases hr : (readKind chunk recvfrom limC base st k as).res with
    | pending => exact Nat.le_trans h1 (ih _ _)
    | nil b => exact h1
    | buf r => exact h1
    | failed c => exact h1
    | starved => exact h1

theorem readLimit_pos (chunk : Bool) (limC left : Nat) (hl : 0 < left) (hc : 0 < limC) : 0 < readLimit chunk limC left := by
  unfold readLimit
  split
  · split <;> omega
  · omega

/-- a read loop whose first call is answered with data (the kernel has bytes queued) takes at least one byte -/
theorem readLoop_bytes_progress {α : Type} (chunk recvfrom : Bool) (limC base : Nat) (st : RSt α) (m : Nat) (as : List Ans)
    (hm : 0 < m) (hl : 0 < st.left) (hc : 0 < limC) (hi : st.inc ≠ []) :
    st.read < (readLoop chunk recvfrom limC base st (.bytes m :: as)).st.read := by
  have hlim := readLimit_pos chunk limC st.left hl hc
  have hlen : 0 < st.inc.length := List.length_pos_iff.mpr hi
  have hk : 0 < min (min m (readLimit chunk limC st.left)) st.inc.length := by omega
  simp only [readLoop]
  cases hr : afterReadRes chunk recvfrom st (min (min m (readLimit chunk limC st.left)) st.inc.length) with
  | some r => simp only [afterReadSt_read]; omega
  | none =>
    have := readLoop_read_mono chunk recvfrom limC base as
      (afterReadSt recvfrom st (min (min m (readLimit chunk limC st.left)) st.inc.length))
    rw [afterReadSt_read] at this
    simp only []
    omega

theorem readLoop_calls_ne {α : Type} (chunk recvfrom : Bool) (limC base : Nat) (st : RSt α) (a : Ans) (as : List Ans) :
    (readLoop chunk recvfrom limC base st (a :: as)).calls ≠ [] := by
  cases a with
  | eintr => simp [readLoop]
  | eagain => simp [readLoop]
  | err c =>
    simp only [readLoop]
    split
    · split <;> simp
    · simp
  | bytes m =>
    simp only [readLoop]
    split <;> simp

/-! ## facts read off a table -/

theorem mod16_mem (w : Nat) : w % 16 ∈ List.range 16 := List.mem_range.mpr (Nat.mod_lt _ (by decide))

theorem kindsFor_mod (tbl : DTable) (slot w : Nat) : kindsFor tbl slot (w % 16) = kindsFor tbl slot w := by
  simp [kindsFor, dispatchOf, Nat.mod_mod]

theorem dataFirst_head (tbl : DTable) (h : dataFirst tbl = true) (w : Nat) (hw : hasBit (w % 16) wIN = true) :
    ∃ ks, kindsFor tbl 0 w = kREAD :: ks := by
  unfold dataFirst at h
  rw [List.all_eq_true] at h
  have h1 := h (w % 16) (mod16_mem w)
  rw [hw] at h1
  simp only [Bool.not_true, Bool.false_or, beq_iff_eq] at h1
  rw [kindsFor_mod] at h1
  cases hk : kindsFor tbl 0 w with
  | nil => rw [hk] at h1; simp at h1
  | cons k ks =>
    rw [hk] at h1
    simp only [List.head?_cons, Option.some.injEq] at h1
    exact ⟨ks, by rw [h1]⟩

theorem outFirst_head (tbl : DTable) (h : outFirst tbl = true) (w : Nat) (hw : hasBit (w % 16) wOUT = true) :
    ∃ ks, kindsFor tbl 1 w = kWRITE :: ks := by
  unfold outFirst at h
  rw [List.all_eq_true] at h
  have h1 := h (w % 16) (mod16_mem w)
  rw [hw] at h1
  simp only [Bool.not_true, Bool.false_or, beq_iff_eq] at h1
  rw [kindsFor_mod] at h1
  cases hk : kindsFor tbl 1 w with
  | nil => rw [hk] at h1; simp at h1
  | cons k ks =>
    rw [hk] at h1
    simp only [List.head?_cons, Option.some.injEq] at h1
    exact ⟨ks, by rw [h1]⟩

/-! ## writer: refinement -/

theorem writeDeliver_runWrite (len : Nat) (dgram : Bool) (ks : List Nat) :
    ∀ (start : Nat) (as : List Ans) (more : List WEv),
      runWrite len dgram start (writeKindsEvs len dgram start ks as ++ more) =
        (match (writeDeliver len dgram start ks as).res with
         | .pending =>
           { start := (runWrite len dgram (writeDeliver len dgram start ks as).start more).start,
             calls := (writeDeliver len dgram start ks as).calls ++ (runWrite len dgram (writeDeliver len dgram start ks as).start more).calls,
             res := (runWrite len dgram (writeDeliver len dgram start ks as).start more).res }
         | r => { start := (writeDeliver len dgram start ks as).start, calls := (writeDeliver len dgram start ks as).calls, res := r }) := by
  induction ks with
  | nil => intro start as more; simp [writeKindsEvs, writeDeliver]
  | cons k ks ih =>
    intro start as more
    by_cases hk : k = kWRITE
    · simp only [writeKindsEvs, if_pos hk, List.cons_append, runWrite, writeStep, writeDeliver, writeKind]
      cases hr : (writeEvent len dgram start as).res with
      | pending =>
        simp only [hr]
        rw [ih]
        cases hr2 : (writeDeliver len dgram (writeEvent len dgram start as).start ks (writeEvent len dgram start as).rest).res <;>
          simp [List.append_assoc]
      | done => simp [hr]
      | failed e => simp [hr]
      | starved => simp [hr]
    · by_cases he : k = kERR
      · simp only [writeKindsEvs, if_neg hk, if_pos he, List.cons_append, runWrite, writeStep, writeDeliver, writeKind]
      · by_cases hh : k = kHUP
        · simp only [writeKindsEvs, if_neg hk, if_neg he, if_pos hh, List.cons_append, runWrite, writeStep, writeDeliver, writeKind]
        · simp only [writeKindsEvs, if_neg hk, if_neg he, if_neg hh, writeDeliver, writeKind]
          rw [ih]
          cases hr2 : (writeDeliver len dgram start ks as).res <;> simp

theorem runWriteWords_eq_runWrite (tbl : DTable) (len : Nat) (dgram : Bool) (es : List WordEv) :
    ∀ start : Nat, runWriteWords tbl len dgram start es = runWrite len dgram start (writeWordsEvs tbl len dgram start es) := by
  induction es with
  | nil => intro start; simp [runWriteWords, writeWordsEvs, runWrite]
  | cons e es ih =>
    intro start
    simp only [runWriteWords, writeWordsEvs]
    rw [writeDeliver_runWrite]
    simp only [writeWord]
    cases hr : (writeDeliver len dgram start (kindsFor tbl 1 e.word) e.as).res with
    | pending => simp only [hr]; rw [ih]
    | done => simp [hr]
    | failed c => simp [hr]
    | starved => simp [hr]

end JanetModel.Stream
