/-
C16 — the listener-slot registry (`stream->read_fiber`, `stream->write_fiber`): invariant "every fiber that waits on the
stream is the one registered in its slot", preserved by every step when `janet_async_start_fiber` guards the slots;
an orphaned fiber (waiting but not registered) is never resumed by any later event.
-/
import JanetModel.Stream.Model

namespace JanetModel.Stream

/-- every waiting fiber is registered in the slot of its direction -/
def World.Inv (w : World) : Prop := ∀ f d, w.pend f = some d → w.slot d = some f

/-- fiber `f` waits but no slot refers to it: no event can reach it -/
def World.Orphan (w : World) (f : Nat) : Prop := (w.pend f).isSome ∧ w.slotR ≠ some f ∧ w.slotW ≠ some f

theorem World.slot_setSlot (w : World) (d d' : Dir) (v : Option Nat) :
    (w.setSlot d v).slot d' = if d' = d then v else w.slot d' := by
  cases d <;> cases d' <;> simp [World.setSlot, World.slot]

theorem World.pend_setSlot (w : World) (d : Dir) (v : Option Nat) : (w.setSlot d v).pend = w.pend := by
  cases d <;> rfl

theorem World.outcome_setSlot (w : World) (d : Dir) (v : Option Nat) : (w.setSlot d v).outcome = w.outcome := by
  cases d <;> rfl

theorem World.closed_setSlot (w : World) (d : Dir) (v : Option Nat) : (w.setSlot d v).closed = w.closed := by
  cases d <;> rfl

theorem World.finish_pend (w : World) (f : Nat) (d : Dir) (r : Res) (g : Nat) :
    (w.finish f d r).pend g = if g = f then none else w.pend g := by
  unfold World.finish
  by_cases h : w.slot d = some f <;> simp [h]

theorem World.finish_outcome (w : World) (f : Nat) (d : Dir) (r : Res) (g : Nat) :
    (w.finish f d r).outcome g = if g = f then some r else w.outcome g := by
  unfold World.finish
  by_cases h : w.slot d = some f <;> simp [h]

theorem World.finish_slot (w : World) (f : Nat) (d d' : Dir) (r : Res) :
    (w.finish f d r).slot d' = if d' = d ∧ w.slot d = some f then none else w.slot d' := by
  unfold World.finish
  by_cases h : w.slot d = some f
  · simp only [h, if_true]
    cases d <;> cases d' <;> simp [World.setSlot, World.slot] at h ⊢ <;> simp [h]
  · simp only [h, if_false]
    cases d <;> cases d' <;> simp [World.slot] at h ⊢

theorem World.finish_closed (w : World) (f : Nat) (d : Dir) (r : Res) : (w.finish f d r).closed = w.closed := by
  unfold World.finish
  by_cases h : w.slot d = some f <;> simp [h, World.closed_setSlot]

theorem World.finish_inv (w : World) (f : Nat) (d : Dir) (r : Res) (h : w.Inv) : (w.finish f d r).Inv := by
  intro g dg hg
  rw [World.finish_pend] at hg
  by_cases hgf : g = f
  · simp [hgf] at hg
  · simp only [hgf, if_false] at hg
    have hs := h g dg hg
    rw [World.finish_slot]
    by_cases hc : dg = d ∧ w.slot d = some f
    · obtain ⟨h1, h2⟩ := hc
      subst h1
      rw [hs] at h2
      exact absurd (Option.some.inj h2) hgf
    · simp only [hc, if_false]; exact hs

theorem World.start_inv_gen (guard : Bool) (w : World) (f : Nat) (d : Dir) (fin : Bool) (h : w.Inv)
    (hgd : guard = true ∨ w.occupied f d = false) : (w.start guard f d fin).Inv := by
  unfold World.start
  by_cases hp : (w.pend f).isSome = true
  · rw [if_pos hp]; exact h
  · rw [if_neg hp]
    by_cases hc : w.closed = true
    · rw [if_pos hc]; intro g dg hg; exact h g dg hg
    · rw [if_neg hc]
      by_cases hocc : guard = true ∧ w.occupied f d = true
      · rw [if_pos hocc]; intro g dg hg; exact h g dg hg
      · rw [if_neg hocc]
        have hocc' : w.occupied f d = false := by
          cases hx : w.occupied f d with
          | false => rfl
          | true =>
            rcases hgd with hgd | hgd
            · exact absurd ⟨hgd, hx⟩ hocc
            · rw [hx] at hgd; cases hgd
        have key : ∀ g, g ≠ f → w.pend g = some d → False := by
          intro g hgf hg
          have hs := h g d hg
          simp [World.occupied, hs, hgf, hg] at hocc'
        have inv2 : World.Inv
            { (w.setSlot d (some f)) with
                pend := fun g => if g = f then some d else w.pend g,
                outcome := fun g => if g = f then none else w.outcome g } := by
          intro g dg hg
          show (w.setSlot d (some f)).slot dg = some g
          rw [World.slot_setSlot]
          simp only at hg
          by_cases hgf : g = f
          · simp only [hgf, if_true] at hg
            have : dg = d := (Option.some.inj hg).symm
            simp [this, hgf]
          · simp only [hgf, if_false] at hg
            by_cases hd : dg = d
            · subst hd; exact absurd hg (fun hg' => key g hgf hg')
            · simp only [hd, if_false]; exact h g dg hg
        cases fin with
        | true => exact World.finish_inv _ f d .completed inv2
        | false => exact inv2

theorem World.start_inv (w : World) (f : Nat) (d : Dir) (fin : Bool) (h : w.Inv) : (w.start true f d fin).Inv :=
  World.start_inv_gen true w f d fin h (Or.inl rfl)

theorem World.ready_inv (w : World) (d : Dir) (fin : Bool) (h : w.Inv) : (w.ready d fin).Inv := by
  unfold World.ready
  cases hs : w.slot d with
  | none => exact h
  | some f =>
    by_cases hc : w.pend f = some d ∧ fin = true
    · simp only [hc, and_self, if_true]; exact World.finish_inv w f d .completed h
    · simp only [hc, if_false]; exact h

theorem World.setSlot_none_inv (w : World) (d : Dir) (h : w.Inv) (hn : ∀ g, w.pend g ≠ some d) : (w.setSlot d none).Inv := by
  intro g dg hg
  rw [World.pend_setSlot] at hg
  rw [World.slot_setSlot]
  by_cases hd : dg = d
  · subst hd; exact absurd hg (hn g)
  · simp only [hd, if_false]; exact h g dg hg

/-- after one half of close nobody waits in that direction; the invariant survives; `pend` only shrinks -/
theorem World.closeDir_spec (w : World) (d : Dir) (r : Res) (h : w.Inv) :
    (w.closeDir d r).Inv ∧ (∀ g, (w.closeDir d r).pend g ≠ some d) ∧
      (∀ g d', (w.closeDir d r).pend g = some d' → w.pend g = some d') := by
  unfold World.closeDir
  cases hs : w.slot d with
  | none =>
    have hn : ∀ g, w.pend g ≠ some d := by
      intro g hg; have := h g d hg; rw [hs] at this; cases this
    exact ⟨World.setSlot_none_inv w d h hn, by intro g; rw [World.pend_setSlot]; exact hn g,
           by intro g d' hg; rw [World.pend_setSlot] at hg; exact hg⟩
  | some f =>
    by_cases hpf : (w.pend f).isSome = true
    · simp only [hpf, if_true]
      have hn : ∀ g, (w.finish f d r).pend g ≠ some d := by
        intro g hg
        rw [World.finish_pend] at hg
        by_cases hgf : g = f
        · simp [hgf] at hg
        · simp only [hgf, if_false] at hg
          have := h g d hg
          rw [hs] at this
          exact hgf (Option.some.inj this).symm
      refine ⟨World.setSlot_none_inv _ d (World.finish_inv w f d r h) hn, ?_, ?_⟩
      · intro g; rw [World.pend_setSlot]; exact hn g
      · intro g d' hg
        rw [World.pend_setSlot, World.finish_pend] at hg
        by_cases hgf : g = f
        · simp [hgf] at hg
        · simpa [hgf] using hg
    · simp only [hpf]
      have hn : ∀ g, w.pend g ≠ some d := by
        intro g hg
        have := h g d hg
        rw [hs] at this
        have : g = f := (Option.some.inj this).symm
        subst this
        simp [hg] at hpf
      exact ⟨World.setSlot_none_inv w d h hn, by intro g; rw [World.pend_setSlot]; exact hn g,
             by intro g d' hg; rw [World.pend_setSlot] at hg; exact hg⟩

/-- after `janet_stream_close` no fiber waits on the stream any more (given the invariant) -/
theorem World.close_pend_none (w : World) (h : w.Inv) (g : Nat) : (World.step true true w .close).pend g = none := by
  obtain ⟨i1, n1, _⟩ := World.closeDir_spec w .rd .completed h
  obtain ⟨_, n2, s2⟩ := World.closeDir_spec (w.closeDir .rd .completed) .wr .raised i1
  show ((w.closeDir .rd .completed).closeDir .wr .raised).pend g = none
  cases hx : ((w.closeDir .rd .completed).closeDir .wr .raised).pend g with
  | none => rfl
  | some d =>
    cases d with
    | rd => exact absurd (s2 g .rd hx) (n1 g)
    | wr => exact absurd hx (n2 g)

theorem guardOf_true (d : Dir) : guardOf true true d = true := by cases d <;> rfl

/-- With both guards present every step keeps the invariant. -/
theorem World.step_inv (w : World) (a : Act) (h : w.Inv) : (World.step true true w a).Inv := by
  cases a with
  | start f d fin =>
    show (w.start (guardOf true true d) f d fin).Inv
    rw [guardOf_true]; exact World.start_inv w f d fin h
  | ready d fin => exact World.ready_inv w d fin h
  | close =>
    intro g dg hg
    rw [World.close_pend_none w h g] at hg
    cases hg

/-- `janet_stream_close` for arbitrary guards (close does not depend on them) -/
theorem World.close_pend_none_gen (gR gW : Bool) (w : World) (h : w.Inv) (g : Nat) :
    (World.step gR gW w .close).pend g = none := World.close_pend_none w h g

theorem World.close_inv_gen (gR gW : Bool) (w : World) (h : w.Inv) : (World.step gR gW w .close).Inv := by
  intro g dg hg
  rw [World.close_pend_none_gen gR gW w h g] at hg
  cases hg

/-- a schedule step respects the one-reader / one-writer discipline -/
def World.Disciplined (w : World) : Act → Prop
  | .start f d _ => w.occupied f d = false
  | _ => True

/-- Without any guard in the source the invariant still holds as long as the program keeps the discipline. -/
theorem World.step_inv_disciplined (gR gW : Bool) (w : World) (a : Act) (h : w.Inv) (hd : w.Disciplined a) :
    (World.step gR gW w a).Inv := by
  cases a with
  | start f d fin => exact World.start_inv_gen _ w f d fin h (Or.inr hd)
  | ready d fin => exact World.ready_inv w d fin h
  | close => exact World.close_inv_gen gR gW w h

/-! ### orphans are never resumed -/

theorem World.finish_slot_some (w : World) (g : Nat) (d d' : Dir) (r : Res) (f : Nat) :
    (w.finish g d r).slot d' = some f → w.slot d' = some f := by
  rw [World.finish_slot]
  split
  · intro h; cases h
  · exact id

theorem World.finish_orphan (w : World) (f g : Nat) (d : Dir) (r : Res) (hne : g ≠ f) (h : w.Orphan f) :
    (w.finish g d r).Orphan f := by
  obtain ⟨hp, hr, hw⟩ := h
  refine ⟨?_, ?_, ?_⟩
  · rw [World.finish_pend]; simp [Ne.symm hne, hp]
  · exact fun e => hr (World.finish_slot_some w g d .rd r f e)
  · exact fun e => hw (World.finish_slot_some w g d .wr r f e)

theorem World.setSlot_orphan (w : World) (f : Nat) (d : Dir) (v : Option Nat) (hv : v ≠ some f) (h : w.Orphan f) :
    (w.setSlot d v).Orphan f := by
  obtain ⟨hp, hr, hw⟩ := h
  cases d with
  | rd => exact ⟨hp, hv, hw⟩
  | wr => exact ⟨hp, hr, hv⟩

theorem World.slot_ne_of_orphan (w : World) (f g : Nat) (d : Dir) (h : w.Orphan f) (hs : w.slot d = some g) : g ≠ f := by
  intro e; subst e
  cases d with
  | rd => exact h.2.1 hs
  | wr => exact h.2.2 hs

theorem World.closeDir_orphan (w : World) (f : Nat) (d : Dir) (r : Res) (h : w.Orphan f) : (w.closeDir d r).Orphan f := by
  unfold World.closeDir
  apply World.setSlot_orphan _ f d none (by simp)
  cases hs : w.slot d with
  | none => exact h
  | some g =>
    by_cases hpf : (w.pend g).isSome = true
    · simp only [hpf, if_true]; exact World.finish_orphan w f g d r (World.slot_ne_of_orphan w f g d h hs) h
    · simp only [hpf]; exact h

/-- Whatever the guards and whatever happens next (readiness, errors, close, other fibers' operations): a fiber that
    waits without being registered keeps waiting. -/
theorem World.step_orphan (gR gW : Bool) (w : World) (a : Act) (f : Nat) (h : w.Orphan f) :
    (World.step gR gW w a).Orphan f := by
  cases a with
  | start g d fin =>
    show (w.start (guardOf gR gW d) g d fin).Orphan f
    unfold World.start
    by_cases hp : (w.pend g).isSome = true
    · rw [if_pos hp]; exact h
    · rw [if_neg hp]
      have hgf : g ≠ f := by
        intro e; subst e; exact hp h.1
      have hraise : (w.raise g).Orphan f := ⟨h.1, h.2.1, h.2.2⟩
      by_cases hc : w.closed = true
      · rw [if_pos hc]; exact hraise
      · rw [if_neg hc]
        by_cases hocc : guardOf gR gW d = true ∧ w.occupied g d = true
        · rw [if_pos hocc]; exact hraise
        · rw [if_neg hocc]
          have o1 : (w.setSlot d (some g)).Orphan f :=
            World.setSlot_orphan w f d (some g) (by intro e; exact hgf (Option.some.inj e)) h
          have o2 : World.Orphan
              { (w.setSlot d (some g)) with
                  pend := fun x => if x = g then some d else w.pend x,
                  outcome := fun x => if x = g then none else w.outcome x } f := by
            refine ⟨?_, o1.2.1, o1.2.2⟩
            show ((fun x => if x = g then some d else w.pend x) f).isSome = true
            simp only [Ne.symm hgf, if_false]; exact h.1
          cases fin with
          | true => exact World.finish_orphan _ f g d .completed hgf o2
          | false => exact o2
  | ready d fin =>
    show (w.ready d fin).Orphan f
    unfold World.ready
    cases hs : w.slot d with
    | none => exact h
    | some g =>
      by_cases hc : w.pend g = some d ∧ fin = true
      · simp only [hc, and_self, if_true]
        exact World.finish_orphan w f g d .completed (World.slot_ne_of_orphan w f g d h hs) h
      · simp only [hc, if_false]; exact h
  | close =>
    have o := World.closeDir_orphan _ f .wr .raised (World.closeDir_orphan w f .rd .completed h)
    exact ⟨o.1, o.2.1, o.2.2⟩

theorem World.run_orphan (gR gW : Bool) (as : List Act) (f : Nat) : ∀ w : World, w.Orphan f → (World.run gR gW w as).Orphan f := by
  induction as with
  | nil => intro w h; exact h
  | cons a as ih => intro w h; exact ih _ (World.step_orphan gR gW w a f h)

theorem World.run_append (gR gW : Bool) (as bs : List Act) : ∀ w : World,
    World.run gR gW w (as ++ bs) = World.run gR gW (World.run gR gW w as) bs := by
  induction as with
  | nil => intro w; rfl
  | cons a as ih => intro w; exact ih _

theorem World.init_inv : World.init.Inv := by
  intro f d h; simp [World.init] at h

theorem World.run_inv (as : List Act) : ∀ w : World, w.Inv → (World.run true true w as).Inv := by
  induction as with
  | nil => intro w h; exact h
  | cons a as ih => intro w h; exact ih _ (World.step_inv w a h)

end JanetModel.Stream
