/-
C16 — executable model of the stream read / write state machines and of the listener slots of src/core/ev.c
(posix branch), run against a NONDETERMINISTIC kernel: every system call is answered by the next element of an
arbitrary list of answers (`n` bytes | EAGAIN | EINTR | error), readiness / error / hang-up / close events arrive in an
arbitrary order.  Core Lean only (linked into the driver `jm_c16`).

C function                       model
ev_callback_write                `writeCall` (one INIT/WRITE event), `writeStep`, `runWrite`
ev_callback_read                 `readLoop` (one INIT/READ/HUP event, the `read_more` loop), `readStep`, `runRead`
janet_async_start_fiber / _end   `World.step (.start ..)`, slot clearing in `finish`
janet_loop1_impl dispatch        `World.step (.ready ..)`
janet_stream_close               `World.step .close`
-/
import JanetModel.Gen.Stream

namespace JanetModel.Stream

/-- One answer of the kernel to read/write/send/recv/sendto/recvfrom. `bytes n`: up to `n` bytes are transferred
    (the model clamps to what was asked for, as a kernel does). -/
inductive Ans where
  | bytes (n : Nat)
  | eagain
  | eintr
  | err (code : Nat)
  deriving Repr, DecidableEq, Inhabited

/-- EPIPE: in stream protocols a pipe error on read is end of stream. -/
def EPIPE : Nat := 32

/-- A system call as seen by the interposer: offset into the source / buffer, length asked for, and the number of
    bytes the kernel transferred (0 for failed calls). -/
structure Call where
  off : Nat
  len : Nat
  got : Nat
  deriving Repr, DecidableEq, Inhabited

/-! ## write / send / send-to -/

inductive WErr where
  | sys (code : Nat)     -- janet_cancel(fiber, janet_ev_lasterr())
  | disconnect           -- nwrote == 0 && !dest_abst
  | closed               -- JANET_ASYNC_EVENT_CLOSE: "stream closed"
  | streamErr            -- JANET_ASYNC_EVENT_ERR
  | hup                  -- JANET_ASYNC_EVENT_HUP
  deriving Repr, DecidableEq, Inhabited

inductive WRes where
  | pending              -- stays registered, waits for the next event
  | done                 -- janet_schedule(fiber, nil)
  | failed (e : WErr)    -- janet_cancel(fiber, ...)
  | starved              -- the answer list ran out inside the EINTR loop (call still in the kernel)
  deriving Repr, DecidableEq, Inhabited

structure WOut where
  start : Nat
  calls : List Call
  res : WRes
  rest : List Ans
  deriving Repr

/-- The body of `case JANET_ASYNC_EVENT_INIT: case JANET_ASYNC_EVENT_WRITE:` when `start < len`:
    the `do … while (nwrote == -1 && errno == EINTR)` loop and what follows it. -/
def writeCall (len : Nat) (dgram : Bool) (start : Nat) : List Ans → WOut
  | [] => { start := start, calls := [], res := .starved, rest := [] }
  | .eintr :: as =>
    let o := writeCall len dgram start as
    { o with calls := ⟨start, len - start, 0⟩ :: o.calls }
  | .eagain :: as => { start := start, calls := [⟨start, len - start, 0⟩], res := .pending, rest := as }
  | .err c :: as => { start := start, calls := [⟨start, len - start, 0⟩], res := .failed (.sys c), rest := as }
  | .bytes n :: as =>
    let k := min n (len - start)
    if k = 0 ∧ dgram = false then
      { start := start, calls := [⟨start, len - start, 0⟩], res := .failed .disconnect, rest := as }
    else
      let start' := if k > 0 then start + k else len
      { start := start', calls := [⟨start, len - start, k⟩],
        res := if start' ≥ len then .done else .pending, rest := as }

/-- One INIT / WRITE event. -/
def writeEvent (len : Nat) (dgram : Bool) (start : Nat) (as : List Ans) : WOut :=
  if start < len then writeCall len dgram start as
  else { start := start, calls := [], res := .done, rest := as }

/-- Events delivered to a pending writer. `ready` carries the kernel's answers to the calls made during it. -/
inductive WEv where
  | ready (as : List Ans)
  | errEv
  | hup
  | close
  deriving Repr, Inhabited

structure WTrace where
  start : Nat
  calls : List Call
  res : WRes
  deriving Repr

def writeStep (len : Nat) (dgram : Bool) (start : Nat) : WEv → WOut
  | .ready as => writeEvent len dgram start as
  | .errEv => { start := start, calls := [], res := .failed .streamErr, rest := [] }
  | .hup => { start := start, calls := [], res := .failed .hup, rest := [] }
  | .close => { start := start, calls := [], res := .failed .closed, rest := [] }

/-- A whole write operation: `janet_ev_write_generic` sets `start = 0`; `evs.head` is the INIT event; the operation
    stays registered while the result is `pending` and ends (janet_async_end) otherwise. -/
def runWrite (len : Nat) (dgram : Bool) : Nat → List WEv → WTrace
  | start, [] => { start := start, calls := [], res := .pending }
  | start, ev :: evs =>
    let o := writeStep len dgram start ev
    match o.res with
    | .pending =>
      let t := runWrite len dgram o.start evs
      { t with calls := o.calls ++ t.calls }
    | r => { start := o.start, calls := o.calls, res := r }

/-- The bytes the kernel accepted, in call order. -/
def delivered {α : Type} (src : List α) (calls : List Call) : List α :=
  calls.flatMap (fun c => (src.drop c.off).take c.got)

/-! ## read / recv / recv-from -/

inductive RReason where
  | full        -- bytes_left == 0
  | eof         -- nread == 0 after earlier data
  | nonchunk    -- !is_chunk: return what one call produced
  | errEvent    -- JANET_ASYNC_EVENT_ERR with bytes_read > 0
  deriving Repr, DecidableEq, Inhabited

inductive RRes where
  | pending
  | nil (byClose : Bool)      -- janet_schedule(fiber, nil); byClose: from JANET_ASYNC_EVENT_CLOSE (data may already be in the buffer)
  | buf (r : RReason)         -- janet_schedule(fiber, buffer) (recv-from: the address)
  | failed (code : Nat)       -- janet_cancel(fiber, janet_ev_lasterr())
  | starved
  deriving Repr, DecidableEq, Inhabited

/-- `StateRead` plus the two byte sequences the statement is about: `got` = bytes appended to the buffer by this
    operation, `inc` = bytes the kernel still holds / will hold for this descriptor, in arrival order. -/
structure RSt (α : Type) where
  left : Nat          -- state->bytes_left
  read : Nat          -- state->bytes_read
  got : List α
  inc : List α
  deriving Repr

structure ROut (α : Type) where
  st : RSt α
  calls : List Call
  res : RRes
  rest : List Ans
  deriving Repr

/-- `read_limit = is_chunk ? (bytes_left > L ? L : bytes_left) : bytes_left` -/
def readLimit (chunk : Bool) (limC : Nat) (left : Nat) : Nat :=
  if chunk then (if left > limC then limC else left) else left

/-- State after a call returned `k ≥ 0` bytes (including the EPIPE → 0 rewrite): `bytes_read += nread`; unless that is
    the end-of-stream case, `buffer->count += nread; bytes_left -= nread`. -/
def afterReadSt {α : Type} (recvfrom : Bool) (st : RSt α) (k : Nat) : RSt α :=
  if st.read + k = 0 ∧ recvfrom = false then { st with read := st.read + k }
  else { left := st.left - k, read := st.read + k, got := st.got ++ st.inc.take k, inc := st.inc.drop k }

/-- Decision after a call returned `k ≥ 0` bytes. `none` = `goto read_more`. -/
def afterReadRes {α : Type} (chunk recvfrom : Bool) (st : RSt α) (k : Nat) : Option RRes :=
  if st.read + k = 0 ∧ recvfrom = false then some (.nil false)       -- bytes_read == 0 && mode != RECVFROM
  else if chunk = false then some (.buf .nonchunk)                    -- !state->is_chunk
  else if st.left - k = 0 then some (.buf .full)                      -- bytes_left == 0
  else if k = 0 then some (.buf .eof)                                 -- nread == 0
  else none

/-- `read_more:` loop of `case HUP / INIT / READ`. `base` = buffer->count when the operation started. -/
def readLoop {α : Type} (chunk recvfrom : Bool) (limC base : Nat) : RSt α → List Ans → ROut α
  | st, [] => { st := st, calls := [], res := .starved, rest := [] }
  | st, a :: as =>
    let lim := readLimit chunk limC st.left
    let off := base + st.got.length
    match a with
    | .eintr =>
      let o := readLoop chunk recvfrom limC base st as
      { o with calls := ⟨off, lim, 0⟩ :: o.calls }
    | .eagain => { st := st, calls := [⟨off, lim, 0⟩], res := .pending, rest := as }
    | .err c =>
      if c = EPIPE ∧ recvfrom = false then
        match afterReadRes chunk recvfrom st 0 with
        | some r => { st := afterReadSt recvfrom st 0, calls := [⟨off, lim, 0⟩], res := r, rest := as }
        | none =>
          let o := readLoop chunk recvfrom limC base (afterReadSt recvfrom st 0) as
          { o with calls := ⟨off, lim, 0⟩ :: o.calls }
      else { st := st, calls := [⟨off, lim, 0⟩], res := .failed c, rest := as }
    | .bytes n =>
      let k := min (min n lim) st.inc.length
      match afterReadRes chunk recvfrom st k with
      | some r => { st := afterReadSt recvfrom st k, calls := [⟨off, lim, k⟩], res := r, rest := as }
      | none =>
        let o := readLoop chunk recvfrom limC base (afterReadSt recvfrom st k) as
        { o with calls := ⟨off, lim, k⟩ :: o.calls }

inductive REv where
  | ready (as : List Ans)    -- INIT, READ and HUP all run the read loop
  | errEv
  | close
  deriving Repr, Inhabited

def readStep {α : Type} (chunk recvfrom : Bool) (limC base : Nat) (st : RSt α) : REv → ROut α
  | .ready as => readLoop chunk recvfrom limC base st as
  | .errEv => { st := st, calls := [], res := if st.read > 0 then .buf .errEvent else .nil false, rest := [] }
  | .close => { st := st, calls := [], res := .nil true, rest := [] }

structure RTrace (α : Type) where
  st : RSt α
  calls : List Call
  res : RRes
  deriving Repr

def runRead {α : Type} (chunk recvfrom : Bool) (limC base : Nat) : RSt α → List REv → RTrace α
  | st, [] => { st := st, calls := [], res := .pending }
  | st, ev :: evs =>
    let o := readStep chunk recvfrom limC base st ev
    match o.res with
    | .pending =>
      let t := runRead chunk recvfrom limC base o.st evs
      { t with calls := o.calls ++ t.calls }
    | r => { st := o.st, calls := o.calls, res := r }

/-- `janet_ev_read_generic`: `bytes_left = nbytes`, `bytes_read = 0`. -/
def rInit {α : Type} (n : Nat) (inc : List α) : RSt α := { left := n, read := 0, got := [], inc := inc }

/-! ## listener slots, async_start / async_end, readiness dispatch, close -/

inductive Dir where
  | rd
  | wr
  deriving Repr, DecidableEq, Inhabited

inductive Res where
  | completed    -- janet_schedule: the operation returned a value
  | raised       -- janet_cancel / janet_panic: the operation raised an error
  deriving Repr, DecidableEq, Inhabited

/-- One stream and the fibers using it.  `pend f = some d`: fiber `f` has `ev_callback` set, waiting in direction `d`. -/
structure World where
  slotR : Option Nat          -- stream->read_fiber
  slotW : Option Nat          -- stream->write_fiber
  pend : Nat → Option Dir
  outcome : Nat → Option Res
  closed : Bool

def World.init : World := { slotR := none, slotW := none, pend := fun _ => none, outcome := fun _ => none, closed := false }

def World.slot (w : World) : Dir → Option Nat
  | .rd => w.slotR
  | .wr => w.slotW

def World.setSlot (w : World) (d : Dir) (v : Option Nat) : World :=
  match d with
  | .rd => { w with slotR := v }
  | .wr => { w with slotW := v }

/-- Events of the schedule.  `fin` says whether the callback finished the operation during this event (decided by the
    read / write machine and the kernel's answers: arbitrary here). -/
inductive Act where
  | start (f : Nat) (d : Dir) (fin : Bool)   -- a running fiber calls ev/read, ev/write, …  (janet_async_start + INIT)
  | ready (d : Dir) (fin : Bool)              -- readiness / error / hang-up event dispatched to the slot's fiber
  | close                                     -- janet_stream_close
  deriving Repr, Inhabited

/-- `janet_async_end` + `janet_schedule/janet_cancel` for fiber `f` waiting in direction `d`. -/
def World.finish (w : World) (f : Nat) (d : Dir) (r : Res) : World :=
  let w1 := if w.slot d = some f then w.setSlot d none else w
  { w1 with pend := fun g => if g = f then none else w.pend g,
            outcome := fun g => if g = f then some r else w.outcome g }

def guardOf (guardR guardW : Bool) : Dir → Bool
  | .rd => guardR
  | .wr => guardW

/-- is the slot held by another fiber that still waits? -/
def World.occupied (w : World) (f : Nat) (d : Dir) : Bool :=
  match w.slot d with
  | some g => (g != f) && (w.pend g).isSome
  | none => false

def World.raise (w : World) (f : Nat) : World :=
  { w with outcome := fun g => if g = f then some .raised else w.outcome g }

/-- `janet_async_start_fiber` (+ the INIT event).  `guard` = it refuses to take over an occupied slot. -/
def World.start (guard : Bool) (w : World) (f : Nat) (d : Dir) (fin : Bool) : World :=
  if (w.pend f).isSome then w                         -- a suspended fiber cannot issue an operation
  else if w.closed then w.raise f                     -- janet_stream_flags: "stream is closed"
  else if guard = true ∧ w.occupied f d = true then w.raise f
  else
    let w1 := w.setSlot d (some f)
    let w2 : World := { w1 with pend := fun g => if g = f then some d else w.pend g,
                                outcome := fun g => if g = f then none else w.outcome g }
    if fin then w2.finish f d .completed else w2

/-- readiness dispatch of `janet_loop1_impl` for one direction -/
def World.ready (w : World) (d : Dir) (fin : Bool) : World :=
  match w.slot d with
  | some f => if w.pend f = some d ∧ fin = true then w.finish f d .completed else w
  | none => w

/-- one half of `janet_stream_close`: notify the fiber in slot `d` (CLOSE event), clear the slot -/
def World.closeDir (w : World) (d : Dir) (r : Res) : World :=
  let w1 := match w.slot d with
    | some f => if (w.pend f).isSome then w.finish f d r else w
    | none => w
  w1.setSlot d none

/-- `guardR/guardW` = does `janet_async_start_fiber` refuse to take over an occupied slot (Gen.Stream.guards…Slot). -/
def World.step (guardR guardW : Bool) (w : World) : Act → World
  | .start f d fin => w.start (guardOf guardR guardW d) f d fin
  | .ready d fin => w.ready d fin
  | .close => { ((w.closeDir .rd .completed).closeDir .wr .raised) with closed := true }

def World.run (guardR guardW : Bool) : World → List Act → World
  | w, [] => w
  | w, a :: as => World.run guardR guardW (World.step guardR guardW w a) as

/-- The machine as the current source has it. -/
def World.runCurrent : World → List Act → World :=
  World.run Gen.Stream.guardsReadSlot Gen.Stream.guardsWriteSlot

end JanetModel.Stream
