/-
C16 — executable model of the socket state machines of src/core/net.c (posix branch).  Core Lean only (linked into `jm_c16`).

C function                         model
net_callback_connect               `connectStep` (one JanetAsyncEvent), `runConnect` (a whole net/connect after `connect()` said EINPROGRESS / 0)
net_callback_accept                `acceptStep`, `runAccept`   (`loop` = state->function != NULL, i.e. net/accept-loop)
janet_sched_accept + epoll         `LSt` / `lstep`: the listening socket's accept queue, the readiness edge of an EPOLLET registration,
                                   one `janet_loop1_impl` iteration (`poll`), net/accept calls (`start`) and the accept-loop callback

The case groups of the two `switch (event)` statements are NOT written here: they are regenerated from the source
(`Gen/Net.lean`: which event numbers return without effect, which cancel, which try `accept4`) and passed in as lists.
-/
namespace JanetModel.Stream.Net

/-- `JanetAsyncEvent` (janet.h).  `code` is checked against the enum by the translator (Gen.Net.eventCodes). -/
inductive AEv where
  | init | mark | deinit | close | err | hup | read | write | complete | failed
  deriving Repr, DecidableEq, Inhabited

def AEv.code : AEv → Nat
  | .init => 0 | .mark => 1 | .deinit => 2 | .close => 3 | .err => 4 | .hup => 5 | .read => 6 | .write => 7
  | .complete => 8 | .failed => 9

def AEv.all : List AEv := [.init, .mark, .deinit, .close, .err, .hup, .read, .write, .complete, .failed]

def AEv.ofCode (n : Nat) : Option AEv := AEv.all.find? (fun e => e.code == n)

/-! ## net/connect -/

/-- answer of `getsockopt(fd, SOL_SOCKET, SO_ERROR, &res, &size)` -/
inductive SoAns where
  | ok (res : Nat)       -- r == 0, the pending socket error in `res`
  | fail (errno : Nat)   -- r != 0
  deriving Repr, DecidableEq, Inhabited

inductive CErr where
  | closed               -- JANET_ASYNC_EVENT_CLOSE: "stream closed"
  | soError (res : Nat)  -- janet_cancel(fiber, strerror(res))
  | sys (errno : Nat)    -- janet_cancel(fiber, janet_ev_lasterr())
  deriving Repr, DecidableEq, Inhabited

inductive CRes where
  | pending              -- the callback returned with the fiber still registered
  | connected            -- janet_schedule(fiber, stream); janet_async_end
  | failed (e : CErr)    -- janet_cancel(fiber, …); janet_async_end
  deriving Repr, DecidableEq, Inhabited

structure COut where
  res : CRes
  toclose : Bool         -- stream->flags |= JANET_STREAM_TOCLOSE
  asked : Bool           -- getsockopt was called (the answer was consumed)
  deriving Repr, DecidableEq, Inhabited

/-- `net_callback_connect`.  `quiet` = event numbers of the case group that is just `return;`, `closeEv` = the group that
    cancels with "stream closed"; every other event reaches the `getsockopt` after the switch. -/
def connectStep (quiet closeEv : List Nat) (ev : AEv) (a : SoAns) : COut :=
  if ev.code ∈ quiet then ⟨.pending, false, false⟩
  else if ev.code ∈ closeEv then ⟨.failed .closed, false, false⟩
  else match a with
    | .ok 0 => ⟨.connected, false, true⟩
    | .ok (r + 1) => ⟨.failed (.soError (r + 1)), true, true⟩
    | .fail e => ⟨.failed (.sys e), true, true⟩

structure CTrace where
  res : CRes
  toclose : Bool
  asks : Nat             -- number of getsockopt calls
  consumed : Nat         -- events delivered until the operation ended (ev_callback is NULL afterwards)
  deriving Repr, DecidableEq, Inhabited

/-- a whole connect operation: the events delivered to the fiber while `ev_callback` is set, each with the answer
    `getsockopt` would give at that moment -/
def runConnect (quiet closeEv : List Nat) : List (AEv × SoAns) → CTrace
  | [] => ⟨.pending, false, 0, 0⟩
  | (ev, a) :: rest =>
    let o := connectStep quiet closeEv ev a
    match o.res with
    | .pending =>
      let t := runConnect quiet closeEv rest
      { t with asks := t.asks + (if o.asked then 1 else 0), consumed := t.consumed + 1 }
    | r => ⟨r, o.toclose, if o.asked then 1 else 0, 1⟩

/-! ## net/connect, the synchronous part of `cfun_net_connect` once the socket and its stream exist:
    `do { status = connect(…) } while (status == -1 && errno == EINTR);`  then
    `if (status) { if (err != EINPROGRESS) { janet_stream_close(stream); janet_panicf(…) } }  net_sched_connect(stream);` -/

inductive ConnAns where
  | ok | eintr | inprogress
  | err (e : Nat)        -- any errno other than EINTR / EINPROGRESS
  deriving Repr, DecidableEq, Inhabited

inductive ConnStart where
  | registered           -- net_sched_connect: the fiber waits in the WRITE slot (`runConnect` from here on)
  | raised (e : Nat)     -- "could not connect socket: …"
  | starved              -- the answer list ended inside the EINTR loop
  deriving Repr, DecidableEq, Inhabited

structure ConnOut where
  res : ConnStart
  calls : Nat            -- connect() calls made
  closes : Nat           -- janet_stream_close(stream) calls (the stream owns the descriptor)
  deriving Repr, DecidableEq, Inhabited

def connectCall : List ConnAns → ConnOut
  | [] => ⟨.starved, 0, 0⟩
  | .eintr :: as => { connectCall as with calls := (connectCall as).calls + 1 }
  | .ok :: _ => ⟨.registered, 1, 0⟩
  | .inprogress :: _ => ⟨.registered, 1, 0⟩
  | .err e :: _ => ⟨.raised e, 1, 1⟩

/-! ## net/accept, net/accept-loop -/

/-- answer of `accept4(lfd, NULL, NULL, SOCK_CLOEXEC)` -/
inductive AccAns where
  | conn (fd : Nat)
  | fail (errno : Nat)   -- EAGAIN, ECONNABORTED, EMFILE, …: all treated alike (`break`)
  deriving Repr, DecidableEq, Inhabited

inductive ARes where
  | pending
  | accepted (fd : Nat)  -- janet_schedule(fiber, stream(fd)); janet_async_end     (net/accept)
  | nil                  -- JANET_ASYNC_EVENT_CLOSE: janet_schedule(fiber, nil); janet_async_end
  deriving Repr, DecidableEq, Inhabited

structure AOut where
  res : ARes
  spawned : Option Nat   -- a handler fiber was scheduled with stream(fd)   (net/accept-loop)
  asked : Bool           -- accept4 was called
  deriving Repr, DecidableEq, Inhabited

/-- `net_callback_accept`.  `tryEv` = events of the case group that calls `accept4`, `closeEv` = the group that
    schedules nil; every other event (MARK included) leaves the operation as it is. -/
def acceptStep (tryEv closeEv : List Nat) (loop : Bool) (ev : AEv) (a : AccAns) : AOut :=
  if ev.code ∈ closeEv then ⟨.nil, none, false⟩
  else if ev.code ∈ tryEv then
    match a with
    | .conn fd => if loop then ⟨.pending, some fd, true⟩ else ⟨.accepted fd, none, true⟩
    | .fail _ => ⟨.pending, none, true⟩
  else ⟨.pending, none, false⟩

structure ATrace where
  res : ARes
  handlers : List Nat    -- descriptors handed to handler fibers, in order
  taken : List Nat       -- descriptors the kernel handed out to this operation (valid accept4 results), in order
  asks : Nat
  consumed : Nat
  deriving Repr, DecidableEq, Inhabited

def runAccept (tryEv closeEv : List Nat) (loop : Bool) : List (AEv × AccAns) → ATrace
  | [] => ⟨.pending, [], [], 0, 0⟩
  | (ev, a) :: rest =>
    let o := acceptStep tryEv closeEv loop ev a
    let tk := match a with | .conn fd => if o.asked then [fd] else [] | .fail _ => []
    match o.res with
    | .pending =>
      let t := runAccept tryEv closeEv loop rest
      { t with handlers := o.spawned.toList ++ t.handlers, taken := tk ++ t.taken,
               asks := t.asks + (if o.asked then 1 else 0), consumed := t.consumed + 1 }
    | r => ⟨r, o.spawned.toList, tk, if o.asked then 1 else 0, 1⟩

/-! ## the listening socket against the kernel: accept queue, readiness edge, loop iterations -/

/-- `q`: established connections in the kernel's accept queue (arrival order); `edge`: the epoll registration has an
    unreported readiness edge (only meaningful for EPOLLET); `loopOn`: a net/accept-loop is registered in the read slot;
    `waiting`: a net/accept is registered in the read slot; `handled`: connections handed to handler fibers;
    `returned`: connections returned by net/accept calls. -/
structure LSt where
  q : List Nat
  edge : Bool
  loopOn : Bool
  waiting : Bool
  handled : List Nat
  returned : List Nat
  deriving Repr, DecidableEq, Inhabited

def LSt.init : LSt := ⟨[], false, false, false, [], []⟩

inductive LEv where
  | arrive (c : Nat)   -- a client's handshake completes: the kernel queues the connection and raises a readiness edge
  | poll               -- one iteration of janet_loop1_impl: epoll_wait + dispatch to stream->read_fiber
  | startLoop          -- net/accept-loop: janet_sched_accept(stream, fun) (+ INIT event)
  | startAccept        -- net/accept: janet_sched_accept(stream, NULL) (+ INIT event)
  deriving Repr, DecidableEq, Inhabited

/-- the callback's `accept4` on the current queue: pops the head, or fails with EAGAIN -/
def LSt.tryAccept (s : LSt) : LSt :=
  match s.q with
  | [] => s
  | c :: q' =>
    if s.loopOn then { s with q := q', handled := s.handled ++ [c] }
    else if s.waiting then { s with q := q', returned := s.returned ++ [c], waiting := false }
    else s

/-- does epoll report the listener in this iteration: a level-triggered registration (accept loop, when `loopLevel`) reports
    while the queue is non-empty, an edge-triggered one reports an edge once -/
def LSt.reports (s : LSt) (loopLevel : Bool) : Bool :=
  if loopLevel && s.loopOn then !s.q.isEmpty else s.edge

/-- … and is there a fiber in the read slot to dispatch JANET_ASYNC_EVENT_READ to -/
def LSt.served (s : LSt) (loopLevel : Bool) : Bool := s.reports loopLevel && (s.loopOn || s.waiting)

/-- `loopLevel` = janet_sched_accept switches the listener to level-triggered for an accept loop
    (Gen.Net.acceptLoopLevelTriggered); otherwise the registration stays EPOLLET as `janet_register_stream` made it. -/
def lstep (loopLevel initTries : Bool) (s : LSt) : LEv → LSt
  | .arrive c => { s with q := s.q ++ [c], edge := true }
  | .poll => if s.served loopLevel then { s with edge := false }.tryAccept else { s with edge := false }
  | .startLoop =>
    if s.loopOn || s.waiting then s      -- refused by the slot guard of janet_async_start_fiber
    else
      let s1 := { s with loopOn := true }
      if initTries then s1.tryAccept else s1
  | .startAccept =>
    if s.loopOn || s.waiting then s
    else
      let s1 := { s with waiting := true }
      if initTries then s1.tryAccept else s1

def lrun (loopLevel initTries : Bool) : LSt → List LEv → LSt
  | s, [] => s
  | s, e :: es => lrun loopLevel initTries (lstep loopLevel initTries s e) es

end JanetModel.Stream.Net
