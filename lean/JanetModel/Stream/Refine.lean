/-
C16 — the composed machine `W2` (Stream/Compose.lean) refines the listener-slot registry `World` (Stream/Model.lean): forgetting
the per-operation machine states, every step of `W2` is the step of `World` whose `fin` flag is what the machine decided.  So
the registry model — which is what the `S` correspondence compares with the implementation — and the composed model cannot drift
apart.
-/
import JanetModel.Stream.Compose
import JanetModel.Stream.Slots

namespace JanetModel.Stream.Compose
open JanetModel.Stream

variable {σ ε : Type}

/-- the registry part of a `World` -/
structure Core where
  slotR : Option Nat
  slotW : Option Nat
  pend : Nat → Option Dir
  closed : Bool

def coreOfWorld (w : World) : Core := ⟨w.slotR, w.slotW, w.pend, w.closed⟩
def coreOfW2 (w : W2 σ) : Core := ⟨w.slot .rd, w.slot .wr, fun f => (w.op f).map (·.1), w.closed⟩

/-- some `World` with this registry part (outcomes are not part of the comparison) -/
def worldOf (c : Core) : World := ⟨c.slotR, c.slotW, c.pend, fun _ => none, c.closed⟩

theorem core_ext (a b : Core) (h1 : a.slotR = b.slotR) (h2 : a.slotW = b.slotW) (h3 : ∀ f, a.pend f = b.pend f) (h4 : a.closed = b.closed) :
    a = b := by
  cases a; cases b
  simp only at h1 h2 h3 h4
  have : ‹Nat → Option Dir› = ‹Nat → Option Dir› := rfl
  subst h1; subst h2; subst h4
  congr
  funext f; exact h3 f

/-- the abstract action a `W2` action corresponds to: the `fin` flag is the machine's decision on the delivered event -/
def absAct (step : σ → ε → σ × Bool) (w : W2 σ) : Act2 σ ε → Act
  | .start f d s0 e0 => .start f d (step s0 e0).2
  | .ev d e =>
    .ready d (match w.slot d with
      | some f => (match w.op f with
        | some (_, s) => (step s e).2
        | none => false)
      | none => false)
  | .close => .close

theorem slot_worldOf (w : W2 σ) (d : Dir) : (worldOf (coreOfW2 w)).slot d = w.slot d := by cases d <;> rfl

theorem occupied_worldOf (w : W2 σ) (f : Nat) (d : Dir) : (worldOf (coreOfW2 w)).occupied f d = w.occupied f d := by
  unfold World.occupied W2.occupied
  rw [slot_worldOf]
  cases w.slot d with
  | none => rfl
  | some g => simp [worldOf, coreOfW2]

/-- registry part of a `World` through the accessor `slot` -/
theorem coreOfWorld_eq (W : World) (c : Core) (h1 : ∀ d, W.slot d = (match d with | .rd => c.slotR | .wr => c.slotW))
    (h3 : ∀ f, W.pend f = c.pend f) (h4 : W.closed = c.closed) : coreOfWorld W = c :=
  core_ext _ _ (h1 .rd) (h1 .wr) h3 h4

theorem finish_core (w : W2 σ) (f : Nat) (d : Dir) (s : σ) (W : World) (hW : coreOfWorld W = coreOfW2 w) (hs : w.slot d = some f) :
    coreOfWorld (W.finish f d .completed) = coreOfW2 (w.finish f d s) ∧
    coreOfWorld (W.finish f d .raised) = coreOfW2 (w.finish f d s) := by
  have hslot : ∀ d', W.slot d' = w.slot d' := by
    intro d'
    have := congrArg Core.slotR hW; have := congrArg Core.slotW hW
    cases d' <;> simp_all [coreOfWorld, coreOfW2, World.slot]
  have hpend : ∀ g, W.pend g = (w.op g).map (·.1) := by
    intro g; have := congrArg Core.pend hW; simp only [coreOfWorld, coreOfW2] at this; exact congrFun this g
  have hcl : W.closed = w.closed := by have := congrArg Core.closed hW; simpa [coreOfWorld, coreOfW2] using this
  have key : ∀ r, coreOfWorld (W.finish f d r) = coreOfW2 (w.finish f d s) := by
    intro r
    apply core_ext
    · show (W.finish f d r).slot .rd = _
      rw [World.finish_slot, hslot, hslot, hs]
      simp only [coreOfW2, W2.finish]
      cases d <;> simp [updS]
    · show (W.finish f d r).slot .wr = _
      rw [World.finish_slot, hslot, hslot, hs]
      simp only [coreOfW2, W2.finish]
      cases d <;> simp [updS]
    · intro g
      show (W.finish f d r).pend g = _
      rw [World.finish_pend, hpend]
      simp only [coreOfW2, W2.finish, upd]
      by_cases hg : g = f <;> simp [hg]
    · show (W.finish f d r).closed = _
      rw [World.finish_closed, hcl]; rfl
  exact ⟨key _, key _⟩

/-- no stale slot: a slot names a fiber only while that fiber waits in that direction -/
def NoStale (w : W2 σ) : Prop := ∀ d f, w.slot d = some f → ∃ s, w.op f = some (d, s)

section
variable (step : σ → ε → σ × Bool)

theorem core_facts (w : W2 σ) (W : World) (hW : coreOfWorld W = coreOfW2 w) :
    (∀ d', W.slot d' = w.slot d') ∧ (∀ g, W.pend g = (w.op g).map (·.1)) ∧ W.closed = w.closed := by
  refine ⟨?_, ?_, ?_⟩
  · intro d'
    have h1 := congrArg Core.slotR hW; have h2 := congrArg Core.slotW hW
    cases d' <;> simp_all [coreOfWorld, coreOfW2, World.slot]
  · intro g; have := congrArg Core.pend hW; simp only [coreOfWorld, coreOfW2] at this; exact congrFun this g
  · have := congrArg Core.closed hW; simpa [coreOfWorld, coreOfW2] using this

/-- readiness dispatch refines `World.ready` -/
theorem deliver_refines (w : W2 σ) (W : World) (hW : coreOfWorld W = coreOfW2 w) (d : Dir) (e : ε) :
    coreOfWorld (W.ready d (match w.slot d with
      | some f => (match w.op f with
        | some (_, s) => (step s e).2
        | none => false)
      | none => false)) = coreOfW2 (w.deliver step d e) := by
  obtain ⟨hslot, hpend, _⟩ := core_facts w W hW
  unfold World.ready
  rw [hslot]
  cases hs : w.slot d with
  | none => simp [W2.deliver, hs]; exact hW
  | some f =>
    cases ho : w.op f with
    | none =>
      have : W.pend f ≠ some d := by rw [hpend, ho]; simp
      simp [W2.deliver, hs, ho, this]; exact hW
    | some p =>
      obtain ⟨d', s⟩ := p
      by_cases hd : d' = d
      · subst hd
        have hp : W.pend f = some d' := by rw [hpend, ho]; rfl
        cases he : (step s e).2 with
        | true =>
          simp only [hp, ho, he, and_self, if_true]
          have : w.deliver step d' e = w.finish f d' (step s e).1 := by simp [W2.deliver, hs, ho, he]
          rw [this]
          exact (finish_core w f d' _ W hW hs).1
        | false =>
          simp only [hp, ho, he, Bool.false_eq_true, and_false, if_false]
          have : w.deliver step d' e = { w with op := upd w.op f (some (d', (step s e).1)) } := by simp [W2.deliver, hs, ho, he]
          rw [this, hW]
          apply core_ext <;> try rfl
          intro g
          simp only [coreOfW2, upd]
          by_cases hg : g = f
          · subst hg; simp [ho]
          · simp [hg]
      · have : W.pend f ≠ some d := by
          rw [hpend, ho]; simp; exact hd
        have h2 : w.deliver step d e = w := by simp [W2.deliver, hs, ho, hd]
        simp only [this, false_and, if_false, h2]
        exact hW

/-- one half of close refines `World.closeDir` (given the invariant: the registered fiber waits in this direction) -/
theorem closeDir_refines (c : ε) (w : W2 σ) (W : World) (hW : coreOfWorld W = coreOfW2 w) (h : NoStale w) (d : Dir) (r : Res) :
    coreOfWorld (W.closeDir d r) = coreOfW2 (W2.closeDir step c w d) := by
  obtain ⟨hslot, hpend, hcl⟩ := core_facts w W hW
  have clearCore : coreOfWorld (W.setSlot d none) = coreOfW2 ({ w with slot := updS w.slot d none } : W2 σ) := by
    apply core_ext
    · show (W.setSlot d none).slot .rd = _
      rw [World.slot_setSlot, hslot]; cases d <;> simp [coreOfW2, updS]
    · show (W.setSlot d none).slot .wr = _
      rw [World.slot_setSlot, hslot]; cases d <;> simp [coreOfW2, updS]
    · intro g; show (W.setSlot d none).pend g = _
      rw [World.pend_setSlot, hpend]; rfl
    · show (W.setSlot d none).closed = _
      rw [World.closed_setSlot, hcl]; rfl
  unfold World.closeDir
  rw [hslot]
  cases hs : w.slot d with
  | none =>
    have : W2.closeDir step c w d = w := by simp [W2.closeDir, hs]
    rw [this]
    -- clearing an empty slot changes nothing
    apply core_ext
    · show (W.setSlot d none).slot .rd = _
      rw [World.slot_setSlot, hslot]; cases d <;> simp_all [coreOfW2]
    · show (W.setSlot d none).slot .wr = _
      rw [World.slot_setSlot, hslot]; cases d <;> simp_all [coreOfW2]
    · intro g; show (W.setSlot d none).pend g = _
      rw [World.pend_setSlot, hpend]; rfl
    · show (W.setSlot d none).closed = _
      rw [World.closed_setSlot, hcl]; rfl
  | some f =>
    cases ho : w.op f with
    | none =>
      have hp : (W.pend f).isSome = false := by rw [hpend, ho]; rfl
      have : W2.closeDir step c w d = { w with slot := updS w.slot d none } := by simp [W2.closeDir, hs, ho]
      simp only [hp, Bool.false_eq_true, if_false, this]
      exact clearCore
    | some p =>
      obtain ⟨d', s⟩ := p
      have hdd : d' = d := by
        obtain ⟨s', hs'⟩ := h d f hs
        rw [ho] at hs'
        injection hs' with hs'; injection hs' with h1 _
      subst hdd
      have hp : (W.pend f).isSome = true := by rw [hpend, ho]; rfl
      have : W2.closeDir step c w d' = w.finish f d' (step s c).1 := by simp [W2.closeDir, hs, ho]
      simp only [hp, if_true, this]
      -- finish already cleared the slot; clearing it again changes nothing
      have hf : coreOfWorld (W.finish f d' r) = coreOfW2 (w.finish f d' (step s c).1) := by
        cases r
        · exact (finish_core w f d' _ W hW hs).1
        · exact (finish_core w f d' _ W hW hs).2
      obtain ⟨fs, fp, fc⟩ := core_facts _ _ hf
      apply core_ext
      · show ((W.finish f d' r).setSlot d' none).slot .rd = _
        rw [World.slot_setSlot, fs]; cases d' <;> simp [coreOfW2, W2.finish, updS]
      · show ((W.finish f d' r).setSlot d' none).slot .wr = _
        rw [World.slot_setSlot, fs]; cases d' <;> simp [coreOfW2, W2.finish, updS]
      · intro g; show ((W.finish f d' r).setSlot d' none).pend g = _
        rw [World.pend_setSlot, fp]; rfl
      · show ((W.finish f d' r).setSlot d' none).closed = _
        rw [World.closed_setSlot, fc]; rfl

end

section
variable (step : σ → ε → σ × Bool)

theorem finish_noStale (w : W2 σ) (f : Nat) (d : Dir) (s : σ) (h : NoStale w) (hs : w.slot d = some f) : NoStale (w.finish f d s) := by
  intro d'' g hg
  simp only [W2.finish] at hg ⊢
  by_cases hd : d'' = d
  · subst hd; simp at hg
  · rw [updS_other _ _ _ _ hd] at hg
    obtain ⟨s', hs'⟩ := h d'' g hg
    have hgf : g ≠ f := by
      intro e; subst e
      obtain ⟨s2, hs2⟩ := h d g hs
      rw [hs'] at hs2
      injection hs2 with hs2; injection hs2 with h1 _
      exact hd h1
    exact ⟨s', by rw [upd_other _ _ _ _ hgf]; exact hs'⟩

theorem deliver_noStale (w : W2 σ) (d : Dir) (e : ε) (h : NoStale w) : NoStale (w.deliver step d e) := by
  rcases deliver_cases step w d e with hr | ⟨f, s, hs, _, _, hr⟩ | ⟨f, s, hs, ho, _, hr⟩ <;> rw [hr]
  · exact h
  · exact finish_noStale w f d _ h hs
  · intro d'' g hg
    simp only at hg ⊢
    obtain ⟨s', hs'⟩ := h d'' g hg
    by_cases hgf : g = f
    · subst hgf
      rw [ho] at hs'
      injection hs' with hs'; injection hs' with h1 _
      refine ⟨(step s e).1, ?_⟩
      simp [h1]
    · exact ⟨s', by rw [upd_other _ _ _ _ hgf]; exact hs'⟩

theorem closeDir_noStale (c : ε) (w : W2 σ) (d : Dir) (h : NoStale w) : NoStale (W2.closeDir step c w d) := by
  rcases closeDir_cases step c w d with ⟨hr, _⟩ | ⟨f, s, hs, _, hr⟩ | ⟨f, _, _, hr⟩ <;> rw [hr]
  · exact h
  · exact finish_noStale w f d _ h hs
  · intro d'' g hg
    simp only at hg ⊢
    by_cases hd : d'' = d
    · subst hd; simp at hg
    · rw [updS_other _ _ _ _ hd] at hg; exact h d'' g hg

theorem step2_noStale (c : ε) (w : W2 σ) (a : Act2 σ ε) (h : NoStale w) : NoStale (step2 step c w a) := by
  cases a with
  | ev d e => exact deliver_noStale step w d e h
  | close =>
    intro d'' g hg
    exact closeDir_noStale step c _ .wr (closeDir_noStale step c w .rd h) d'' g hg
  | start f d s0 e0 =>
    cases hp : (w.op f).isSome with
    | true => simp [step2, hp]; exact h
    | false =>
      cases hc : w.closed with
      | true => simp only [step2, hp, hc]; intro d'' g hg; exact h d'' g hg
      | false =>
        cases hocc : w.occupied f d with
        | true => simp only [step2, hp, hc, hocc]; intro d'' g hg; exact h d'' g hg
        | false =>
          rw [step2_start_admitted step c w f d s0 e0 hp hc hocc]
          apply deliver_noStale
          intro d'' g hg
          simp only at hg ⊢
          by_cases hd : d'' = d
          · subst hd; simp at hg; subst hg; exact ⟨s0, by simp⟩
          · rw [updS_other _ _ _ _ hd] at hg
            obtain ⟨s', hs'⟩ := h d'' g hg
            have hgf : g ≠ f := by
              intro e; subst e; simp [hs'] at hp
            exact ⟨s', by rw [upd_other _ _ _ _ hgf]; exact hs'⟩

/-- `janet_async_start_fiber` refines `World.start` with the guard present -/
theorem start_refines (w : W2 σ) (W : World) (hW : coreOfWorld W = coreOfW2 w) (c : ε) (f : Nat) (d : Dir) (s0 : σ) (e0 : ε) :
    coreOfWorld (W.start true f d (step s0 e0).2) = coreOfW2 (step2 step c w (.start f d s0 e0)) := by
  obtain ⟨hslot, hpend, hcl⟩ := core_facts w W hW
  have hocc : W.occupied f d = w.occupied f d := by
    unfold World.occupied W2.occupied
    rw [hslot]
    cases w.slot d with
    | none => rfl
    | some g => simp [hpend]
  unfold World.start
  have hps : (W.pend f).isSome = (w.op f).isSome := by rw [hpend]; cases w.op f <;> rfl
  rw [hps, hcl, hocc]
  cases hp : (w.op f).isSome with
  | true => simp [step2, hp]; exact hW
  | false =>
    cases hc : w.closed with
    | true =>
      simp only [step2, hp, hc, Bool.false_eq_true, if_false, if_true]
      apply core_ext
      · have := congrArg Core.slotR hW; exact this
      · have := congrArg Core.slotW hW; exact this
      · intro g; exact hpend g
      · exact hcl.trans hc
    | false =>
      cases ho : w.occupied f d with
      | true =>
        simp only [step2, hp, hc, ho, Bool.false_eq_true, if_false, and_self, if_true]
        apply core_ext
        · have := congrArg Core.slotR hW; exact this
        · have := congrArg Core.slotW hW; exact this
        · intro g; exact hpend g
        · exact hcl.trans hc
      | false =>
        rw [step2_start_admitted step c w f d s0 e0 hp hc ho]
        simp only [Bool.false_eq_true, if_false, and_false]
        -- the registered state, then the INIT event
        let w1 : W2 σ := { w with slot := updS w.slot d (some f), op := upd w.op f (some (d, s0)) }
        let W1 : World := { (W.setSlot d (some f)) with pend := fun g => if g = f then some d else W.pend g,
                                                        outcome := fun g => if g = f then none else W.outcome g }
        have hW1 : coreOfWorld W1 = coreOfW2 w1 := by
          apply core_ext
          · show (W.setSlot d (some f)).slot .rd = _
            rw [World.slot_setSlot, hslot]; cases d <;> simp [coreOfW2, w1, updS]
          · show (W.setSlot d (some f)).slot .wr = _
            rw [World.slot_setSlot, hslot]; cases d <;> simp [coreOfW2, w1, updS]
          · intro g
            show (if g = f then some d else W.pend g) = _
            simp only [coreOfW2, w1, upd]
            by_cases hg : g = f
            · simp [hg]
            · simp [hg, hpend]
          · show (W.setSlot d (some f)).closed = _
            rw [World.closed_setSlot, hcl]; rfl
        have hs1 : w1.slot d = some f := by simp [w1]
        have ho1 : w1.op f = some (d, s0) := by simp [w1]
        cases he : (step s0 e0).2 with
        | true =>
          have : W2.deliver step w1 d e0 = w1.finish f d (step s0 e0).1 := by simp [W2.deliver, hs1, ho1, he]
          show coreOfWorld (W1.finish f d .completed) = coreOfW2 (W2.deliver step w1 d e0)
          rw [this]
          exact (finish_core w1 f d _ W1 hW1 hs1).1
        | false =>
          have : W2.deliver step w1 d e0 = { w1 with op := upd w1.op f (some (d, (step s0 e0).1)) } := by simp [W2.deliver, hs1, ho1, he]
          show coreOfWorld W1 = coreOfW2 (W2.deliver step w1 d e0)
          rw [this, hW1]
          apply core_ext <;> try rfl
          intro g
          simp only [coreOfW2, upd]
          by_cases hg : g = f
          · subst hg; simp [ho1]
          · simp [hg]

/-- ★ REFINEMENT: forgetting the per-operation machine states, every step of the composed machine is the step of the
    listener-slot registry `World` (both guards present) for the abstract action `absAct` — whose `fin` flag is exactly what
    the operation's machine decided on the delivered event. -/
theorem step2_refines (c : ε) (w : W2 σ) (W : World) (hW : coreOfWorld W = coreOfW2 w) (hn : NoStale w) (a : Act2 σ ε) :
    coreOfWorld (World.step true true W (absAct step w a)) = coreOfW2 (step2 step c w a) := by
  cases a with
  | start f d s0 e0 =>
    show coreOfWorld (W.start (guardOf true true d) f d (step s0 e0).2) = _
    rw [guardOf_true]
    exact start_refines step w W hW c f d s0 e0
  | ev d e => exact deliver_refines step w W hW d e
  | close =>
    have h1 := closeDir_refines step c w W hW hn .rd .completed
    have hn1 := closeDir_noStale step c w .rd hn
    have h2 := closeDir_refines step c _ _ h1 hn1 .wr .raised
    apply core_ext
    · have := congrArg Core.slotR h2; exact this
    · have := congrArg Core.slotW h2; exact this
    · intro g; have := congrFun (congrArg Core.pend h2) g; exact this
    · rfl

/-- … and so do whole schedules from the empty stream: there is a schedule of abstract actions of the same length along
    which the registry `World` and the composed machine agree on slots, waiting fibers and closedness. -/
theorem run2_refines (c : ε) (as : List (Act2 σ ε)) : ∀ (w : W2 σ) (W : World), coreOfWorld W = coreOfW2 w → NoStale w →
    ∃ as' : List Act, as'.length = as.length ∧ coreOfWorld (World.run true true W as') = coreOfW2 (run2 step c w as) := by
  induction as with
  | nil => intro w W hW _; exact ⟨[], rfl, hW⟩
  | cons a as ih =>
    intro w W hW hn
    obtain ⟨as', hl, hr⟩ := ih (step2 step c w a) (World.step true true W (absAct step w a))
      (step2_refines step c w W hW hn a) (step2_noStale step c w a hn)
    exact ⟨absAct step w a :: as', by simp [hl], hr⟩

end

end JanetModel.Stream.Compose
