/-
C16 — liveness of the stream state machines (Stream/Model.lean): a read / write that keeps receiving productive
readiness events ENDS after a bounded number of them.  Fairness of the kernel ("readiness is eventually reported and the
call then transfers something or fails") is an explicit hypothesis on the event sequence.
-/
import JanetModel.Stream.Model
namespace JanetModel.Stream

/-- the call made at a readiness event does something: after any number of EINTR retries the kernel transfers bytes
    or reports an error — it does not answer EAGAIN (a spurious wake-up), and the answer arrives (list not exhausted) -/
def productiveAns : List Ans → Bool
  | [] => false
  | .eintr :: as => productiveAns as
  | .eagain :: _ => false
  | .err _ :: _ => true
  | .bytes _ :: _ => true

/-- every call gets its answer: the answer list does not end inside the EINTR loop -/
def completeAns : List Ans → Bool
  | [] => false
  | .eintr :: as => completeAns as
  | _ :: _ => true

def WEv.productive : WEv → Bool
  | .ready as => productiveAns as
  | _ => true

def WEv.complete : WEv → Bool
  | .ready as => completeAns as
  | _ => true

def WRes.ended : WRes → Bool
  | .done => true
  | .failed _ => true
  | _ => false

theorem writeCall_progress (len : Nat) (dgram : Bool) (start : Nat) (h : start < len) (as : List Ans) (hc : completeAns as = true) :
    let o := writeCall len dgram start as
    (o.res.ended = true ∨ (o.res = .pending ∧ start ≤ o.start ∧ o.start < len ∧ (productiveAns as = true → start < o.start))) := by
  induction as with
  | nil => simp [completeAns] at hc
  | cons a as ih =>
    cases a with
    | eintr =>
      simp only [completeAns] at hc
      have := ih hc
      simpa [writeCall, productiveAns] using this
    | eagain => right; simp [writeCall, productiveAns, h]
    | err c => left; simp [writeCall, WRes.ended]
    | bytes n =>
      simp only [writeCall]
      by_cases hk : min n (len - start) = 0 ∧ dgram = false
      · left; simp [hk, WRes.ended]
      · rw [if_neg hk]
        by_cases hk0 : min n (len - start) > 0
        · simp only [hk0, if_true]
          by_cases hd : start + min n (len - start) ≥ len
          · left; simp [hd, WRes.ended]
          · right; simp [hd, productiveAns] <;> omega
        · left
          have : min n (len - start) = 0 := by omega
          simp [this, WRes.ended]

/-- ★ LIVENESS of a write.  If every call is answered and the schedule contains at least `max 1 (len − start)`
    productive events (readiness reports after which the kernel takes at least one byte or fails, error / hang-up /
    close events) then the operation has ENDED — completed or raised — after that many of them; it is not left pending.
    Each productive event either ends the operation or strictly advances the resume offset. -/
theorem write_ends_within (len : Nat) (dgram : Bool) (evs : List WEv) :
    ∀ start, start ≤ len → (∀ ev ∈ evs, ev.complete = true) →
      (evs.filter WEv.productive).length ≥ max 1 (len - start) →
      (runWrite len dgram start evs).res.ended = true := by
  induction evs with
  | nil => intro start _ _ h; simp at h <;> omega
  | cons ev evs ih =>
    intro start hs hc hp
    have hcev := hc ev (List.mem_cons_self)
    have hcs : ∀ e ∈ evs, e.complete = true := fun e he => hc e (List.mem_cons_of_mem _ he)
    cases ev with
    | errEv => simp [runWrite, writeStep, WRes.ended]
    | hup => simp [runWrite, writeStep, WRes.ended]
    | close => simp [runWrite, writeStep, WRes.ended]
    | ready as =>
      by_cases hlt : start < len
      · have key := writeCall_progress len dgram start hlt as (by simpa [WEv.complete] using hcev)
        simp only [runWrite, writeStep, writeEvent, if_pos hlt]
        rcases key with he | ⟨hpend, hle, hlt', hadv⟩
        · generalize writeCall len dgram start as = o at he ⊢
          cases hr : o.res <;> simp [hr, WRes.ended] at he ⊢
        · rw [hpend]
          simp only
          have := ih (writeCall len dgram start as).start (by omega) hcs (by
            simp only [List.filter_cons] at hp
            by_cases hpr : WEv.productive (.ready as) = true
            · rw [if_pos hpr] at hp
              have := hadv (by simpa [WEv.productive] using hpr)
              simp at hp; omega
            · rw [if_neg hpr] at hp; omega)
          simpa using this
      · simp [runWrite, writeStep, writeEvent, hlt, WRes.ended]


/-! ### reads -/

/-- the kernel ends the burst of answers of one readiness event with "would block" -/
def endsEagain : List Ans → Bool
  | [] => false
  | [a] => a == .eagain
  | _ :: b :: r => endsEagain (b :: r)

def REv.productive : REv → Bool
  | .ready as => productiveAns as
  | _ => true

def REv.closed : REv → Bool
  | .ready as => endsEagain as
  | _ => true

def RRes.ended : RRes → Bool
  | .nil _ => true
  | .buf _ => true
  | .failed _ => true
  | _ => false

theorem afterReadRes_ended {α : Type} (chunk recvfrom : Bool) (st : RSt α) (k : Nat) (r : RRes)
    (h : afterReadRes chunk recvfrom st k = some r) : r.ended = true := by
  unfold afterReadRes at h
  split at h
  · cases h; rfl
  · split at h
    · cases h; rfl
    · split at h
      · cases h; rfl
      · split at h
        · cases h; rfl
        · cases h

theorem afterReadRes_none {α : Type} (chunk recvfrom : Bool) (st : RSt α) (k : Nat)
    (h : afterReadRes chunk recvfrom st k = none) : 0 < k ∧ k < st.left ∧ (afterReadSt recvfrom st k).left = st.left - k := by
  unfold afterReadRes at h
  split at h
  · cases h
  · rename_i h1
    split at h
    · cases h
    · split at h
      · cases h
      · split at h
        · cases h
        · rename_i h2 h3
          refine ⟨by omega, by omega, ?_⟩
          unfold afterReadSt
          rw [if_neg h1]

theorem afterReadRes_zero {α : Type} (chunk recvfrom : Bool) (st : RSt α) :
    ∃ r, afterReadRes chunk recvfrom st 0 = some r := by
  cases h : afterReadRes chunk recvfrom st 0 with
  | some r => exact ⟨r, rfl⟩
  | none => have := (afterReadRes_none chunk recvfrom st 0 h).1; omega

theorem endsEagain_tail (a : Ans) (as : List Ans) (h : endsEagain (a :: as) = true) (ha : a ≠ .eagain) : endsEagain as = true := by
  cases as with
  | nil => simp [endsEagain] at h; exact absurd h ha
  | cons b r => simpa [endsEagain] using h

theorem readLoop_progress {α : Type} (chunk recvfrom : Bool) (limC base : Nat) (as : List Ans) :
    ∀ st : RSt α, endsEagain as = true →
      ((readLoop chunk recvfrom limC base st as).res.ended = true ∨
       ((readLoop chunk recvfrom limC base st as).res = .pending ∧ (readLoop chunk recvfrom limC base st as).st.left ≤ st.left ∧
        (productiveAns as = true → (readLoop chunk recvfrom limC base st as).st.left < st.left) ∧
        (0 < st.left → 0 < (readLoop chunk recvfrom limC base st as).st.left))) := by
  induction as with
  | nil => intro st h; simp [endsEagain] at h
  | cons a as ih =>
    intro st h
    cases a with
    | eintr =>
      have ht := endsEagain_tail _ _ h (by simp)
      have := ih st ht
      simpa [readLoop, productiveAns] using this
    | eagain => right; simp [readLoop, productiveAns]
    | err c =>
      simp only [readLoop]
      by_cases hc : c = EPIPE ∧ recvfrom = false
      · rw [if_pos hc]
        obtain ⟨r, hr⟩ := afterReadRes_zero chunk recvfrom st
        rw [hr]
        left; exact afterReadRes_ended _ _ _ _ _ hr
      · rw [if_neg hc]; left; rfl
    | bytes n =>
      simp only [readLoop]
      cases hr : afterReadRes chunk recvfrom st (min (min n (readLimit chunk limC st.left)) st.inc.length) with
      | some r => left; exact afterReadRes_ended _ _ _ _ _ hr
      | none =>
        have ht := endsEagain_tail _ _ h (by simp)
        obtain ⟨hk0, hkl, hleft⟩ := afterReadRes_none _ _ _ _ hr
        rcases ih (afterReadSt recvfrom st (min (min n (readLimit chunk limC st.left)) st.inc.length)) ht with he | ⟨hp, hle, _, hpos⟩
        · left; simpa using he
        · right
          have hpos' := hpos (by omega)
          refine ⟨by simpa using hp, ?_, ?_, ?_⟩
          · simp only; omega
          · intro _; simp only; omega
          · intro _; simpa using hpos'

/-- ★ LIVENESS of a read.  If every burst of answers ends with "would block" and the schedule contains at least
    `max 1 bytes_left` productive events, the read has ENDED (buffer, nil, or error): every productive event either ends
    it or strictly decreases `bytes_left`. -/
theorem read_ends_within {α : Type} (chunk recvfrom : Bool) (limC base : Nat) (evs : List REv) :
    ∀ st : RSt α, (∀ ev ∈ evs, ev.closed = true) →
      (evs.filter REv.productive).length ≥ max 1 st.left →
      (runRead chunk recvfrom limC base st evs).res.ended = true := by
  induction evs with
  | nil => intro st _ h; simp at h <;> omega
  | cons ev evs ih =>
    intro st hc hp
    have hcev := hc ev (List.mem_cons_self)
    have hcs : ∀ e ∈ evs, e.closed = true := fun e he => hc e (List.mem_cons_of_mem _ he)
    cases ev with
    | errEv =>
      simp only [runRead, readStep]
      by_cases h : st.read > 0 <;> simp [h, RRes.ended]
    | close => simp [runRead, readStep, RRes.ended]
    | ready as =>
      have key := readLoop_progress chunk recvfrom limC base as st (by simpa [REv.closed] using hcev)
      simp only [runRead, readStep]
      rcases key with he | ⟨hpend, hle, hadv, hpos⟩
      · generalize readLoop chunk recvfrom limC base st as = o at he ⊢
        cases hr : o.res <;> simp [hr, RRes.ended] at he ⊢
      · rw [hpend]
        simp only
        have := ih (readLoop chunk recvfrom limC base st as).st hcs (by
          simp only [List.filter_cons] at hp
          by_cases hpr : REv.productive (.ready as) = true
          · rw [if_pos hpr] at hp
            have h1 := hadv (by simpa [REv.productive] using hpr)
            have h2 := hpos (by omega)
            simp at hp; omega
          · rw [if_neg hpr] at hp; omega)
        simpa using this

/-! ### infinite schedules: fairness ⇒ some finite prefix ends the operation -/

def prefixOf {ε : Type} (evs : Nat → ε) (n : Nat) : List ε := (List.range n).map evs

theorem prefix_succ {ε : Type} (evs : Nat → ε) (n : Nat) : prefixOf evs (n + 1) = prefixOf evs n ++ [evs n] := by
  simp [prefixOf, List.range_succ]

theorem count_mono {ε : Type} (evs : Nat → ε) (p : ε → Bool) (n d : Nat) :
    ((prefixOf evs n).filter p).length ≤ ((prefixOf evs (n + d)).filter p).length := by
  induction d with
  | zero => exact Nat.le_refl _
  | succ d ih =>
    rw [← Nat.add_assoc, prefix_succ, List.filter_append, List.length_append]
    omega

/-- fairness (productive events keep coming) gives prefixes with as many productive events as wanted -/
theorem fair_count {ε : Type} (evs : Nat → ε) (p : ε → Bool) (fair : ∀ k, ∃ j, k ≤ j ∧ p (evs j) = true) (m : Nat) :
    ∃ n, ((prefixOf evs n).filter p).length ≥ m := by
  induction m with
  | zero => exact ⟨0, Nat.zero_le _⟩
  | succ m ih =>
    obtain ⟨n, hn⟩ := ih
    obtain ⟨j, hj, hp⟩ := fair n
    refine ⟨j + 1, ?_⟩
    rw [prefix_succ, List.filter_append, List.length_append]
    have h1 := count_mono evs p n (j - n)
    have : n + (j - n) = j := by omega
    rw [this] at h1
    simp [hp]
    omega

theorem mem_prefix {ε : Type} (evs : Nat → ε) (n : Nat) (e : ε) (h : e ∈ prefixOf evs n) : ∃ i, e = evs i := by
  simp [prefixOf] at h
  obtain ⟨i, _, hi⟩ := h
  exact ⟨i, hi.symm⟩

end JanetModel.Stream
