/-
C16 — lemmas about the socket state machines of Stream/Net.lean (net_callback_connect, net_callback_accept, the listening
socket against the kernel's accept queue).
-/
import JanetModel.Stream.Net
import JanetModel.Stream.Liveness

namespace JanetModel.Stream.Net

/-! ## connect -/

theorem connectStep_quiet (quiet closeEv : List Nat) (ev : AEv) (a : SoAns) (h : ev.code ∈ quiet) :
    connectStep quiet closeEv ev a = ⟨.pending, false, false⟩ := by
  simp [connectStep, h]

theorem connectStep_close (quiet closeEv : List Nat) (ev : AEv) (a : SoAns) (h : ev.code ∉ quiet) (hc : ev.code ∈ closeEv) :
    connectStep quiet closeEv ev a = ⟨.failed .closed, false, false⟩ := by
  simp [connectStep, h, hc]

/-- a non-quiet, non-close event: the outcome is decided by SO_ERROR alone, the operation ends -/
theorem connectStep_check (quiet closeEv : List Nat) (ev : AEv) (a : SoAns) (h : ev.code ∉ quiet) (hc : ev.code ∉ closeEv) :
    let o := connectStep quiet closeEv ev a
    o.asked = true ∧ o.res ≠ .pending ∧ (o.res = .connected ↔ a = .ok 0) ∧ (o.toclose = true ↔ a ≠ .ok 0) ∧
      (∀ r, a = .ok (r + 1) → o.res = .failed (.soError (r + 1))) ∧ (∀ e, a = .fail e → o.res = .failed (.sys e)) := by
  cases a with
  | ok r => cases r <;> simp [connectStep, h, hc]
  | fail e => simp [connectStep, h, hc]

/-- while only quiet events are delivered nothing happens: no system call, still pending -/
theorem runConnect_quiet (quiet closeEv : List Nat) (evs : List (AEv × SoAns)) (h : ∀ p ∈ evs, p.1.code ∈ quiet) :
    runConnect quiet closeEv evs = ⟨.pending, false, 0, evs.length⟩ := by
  induction evs with
  | nil => rfl
  | cons p rest ih =>
    obtain ⟨ev, a⟩ := p
    have h1 : ev.code ∈ quiet := h (ev, a) (by simp)
    have h2 := ih (fun p hp => h p (by simp [hp]))
    simp only [runConnect, connectStep_quiet quiet closeEv ev a h1, h2]
    simp

theorem runConnect_quiet_prefix (quiet closeEv : List Nat) (pre rest : List (AEv × SoAns)) (h : ∀ p ∈ pre, p.1.code ∈ quiet) :
    runConnect quiet closeEv (pre ++ rest) =
      { runConnect quiet closeEv rest with consumed := (runConnect quiet closeEv rest).consumed + pre.length } := by
  induction pre with
  | nil => simp
  | cons p pre ih =>
    obtain ⟨ev, a⟩ := p
    have h1 : ev.code ∈ quiet := h (ev, a) (by simp)
    have h2 := ih (fun p hp => h p (by simp [hp]))
    simp only [List.cons_append, runConnect, connectStep_quiet quiet closeEv ev a h1, h2]
    simp [Nat.add_assoc]

/-- the first non-quiet event ends the operation, whatever follows -/
theorem runConnect_first (quiet closeEv : List Nat) (pre post : List (AEv × SoAns)) (ev : AEv) (a : SoAns)
    (hpre : ∀ p ∈ pre, p.1.code ∈ quiet) (hev : ev.code ∉ quiet) :
    let o := connectStep quiet closeEv ev a
    runConnect quiet closeEv (pre ++ (ev, a) :: post) = ⟨o.res, o.toclose, if o.asked then 1 else 0, pre.length + 1⟩ := by
  intro o
  rw [runConnect_quiet_prefix quiet closeEv pre _ hpre]
  have hne : o.res ≠ .pending := by
    by_cases hc : ev.code ∈ closeEv
    · show (connectStep quiet closeEv ev a).res ≠ .pending
      rw [connectStep_close quiet closeEv ev a hev hc]; simp
    · exact (connectStep_check quiet closeEv ev a hev hc).2.1
  have : runConnect quiet closeEv ((ev, a) :: post) = ⟨o.res, o.toclose, if o.asked then 1 else 0, 1⟩ := by
    simp only [runConnect]
    show (match o.res with
      | .pending => _
      | r => (⟨r, o.toclose, if o.asked then 1 else 0, 1⟩ : CTrace)) = _
    cases hr : o.res with
    | pending => exact absurd hr hne
    | connected => rfl
    | failed e => rfl
  rw [this]
  simp [Nat.add_comm]

/-- every event list splits into a quiet prefix and (possibly) a first non-quiet event -/
theorem split_quiet (quiet : List Nat) (evs : List (AEv × SoAns)) :
    (∀ p ∈ evs, p.1.code ∈ quiet) ∨
    ∃ pre ev a post, evs = pre ++ (ev, a) :: post ∧ (∀ p ∈ pre, p.1.code ∈ quiet) ∧ ev.code ∉ quiet := by
  induction evs with
  | nil => left; intro p hp; cases hp
  | cons p rest ih =>
    obtain ⟨ev, a⟩ := p
    by_cases h : ev.code ∈ quiet
    · rcases ih with ih | ⟨pre, ev', a', post, e, hp, hn⟩
      · left
        intro p hp
        rcases List.mem_cons.mp hp with rfl | hp
        · exact h
        · exact ih p hp
      · right
        refine ⟨(ev, a) :: pre, ev', a', post, by rw [e]; rfl, ?_, hn⟩
        intro p hp1
        rcases List.mem_cons.mp hp1 with rfl | hp2
        · exact h
        · exact hp p hp2
    · right
      exact ⟨[], ev, a, rest, rfl, (fun p hp => by cases hp), h⟩

/-! ## connect(), synchronous part -/

/-- the EINTR loop retries, the first other answer decides: success / EINPROGRESS register the fiber and close nothing; an
    error closes the stream (hence the descriptor) exactly once and raises -/
theorem connectCall_first (pre post : List ConnAns) (a : ConnAns) (hpre : ∀ x ∈ pre, x = .eintr) (ha : a ≠ .eintr) :
    connectCall (pre ++ a :: post) =
      ⟨(match a with | .err e => .raised e | _ => .registered), pre.length + 1, (match a with | .err _ => 1 | _ => 0)⟩ := by
  induction pre with
  | nil =>
    cases a with
    | eintr => exact absurd rfl ha
    | ok => rfl
    | inprogress => rfl
    | err e => rfl
  | cons x pre ih =>
    have hx : x = .eintr := hpre x (by simp)
    subst hx
    have := ih (fun y hy => hpre y (by simp [hy]))
    simp only [List.cons_append, connectCall, this, List.length_cons]

/-! ## accept -/

theorem acceptStep_other (tryEv closeEv : List Nat) (loop : Bool) (ev : AEv) (a : AccAns)
    (h1 : ev.code ∉ closeEv) (h2 : ev.code ∉ tryEv) : acceptStep tryEv closeEv loop ev a = ⟨.pending, none, false⟩ := by
  simp [acceptStep, h1, h2]

/-- ★ conservation: every descriptor `accept4` handed to this operation is either passed to a handler fiber (accept-loop)
    or is the one returned (accept) — in order, none dropped, none twice; an accept-loop never returns a connection, a
    single accept never spawns a handler and takes exactly one connection. -/
theorem runAccept_conserves (tryEv closeEv : List Nat) (loop : Bool) (evs : List (AEv × AccAns)) :
    let t := runAccept tryEv closeEv loop evs
    t.taken = t.handlers ++ (match t.res with | .accepted fd => [fd] | _ => []) ∧
    (loop = true → ∀ fd, t.res ≠ .accepted fd) ∧
    (loop = false → t.handlers = []) := by
  induction evs with
  | nil => simp [runAccept]
  | cons p rest ih =>
    obtain ⟨ev, a⟩ := p
    obtain ⟨ih1, ih2, ih3⟩ := ih
    simp only [runAccept]
    by_cases hc : ev.code ∈ closeEv
    · cases a <;> simp [acceptStep, hc]
    · by_cases ht : ev.code ∈ tryEv
      · cases a with
        | conn fd =>
          cases loop with
          | true =>
            simp only [acceptStep, hc, ht, if_true, if_false]
            refine ⟨?_, ?_, ?_⟩
            · simp [ih1]
            · intro _ fd'; exact ih2 rfl fd'
            · intro h; cases h
          | false => simp [acceptStep, hc, ht]
        | fail e =>
          simp only [acceptStep, hc, ht, if_true, if_false]
          refine ⟨?_, ?_, ?_⟩
          · simpa using ih1
          · intro h fd'; exact ih2 h fd'
          · intro h; simpa using ih3 h
      · cases a with
        | conn fd =>
          simp only [acceptStep, hc, ht, if_false]
          refine ⟨?_, ?_, ?_⟩
          · simpa using ih1
          · intro h fd'; exact ih2 h fd'
          · intro h; simpa using ih3 h
        | fail e =>
          simp only [acceptStep, hc, ht, if_false]
          refine ⟨?_, ?_, ?_⟩
          · simpa using ih1
          · intro h fd'; exact ih2 h fd'
          · intro h; simpa using ih3 h

/-- a single accept ends with the first valid answer at an INIT / READ event (liveness in one productive event) -/
theorem runAccept_first_conn (tryEv closeEv : List Nat) (pre post : List (AEv × AccAns)) (ev : AEv) (fd : Nat)
    (hpre : ∀ p ∈ pre, (acceptStep tryEv closeEv false p.1 p.2).res = .pending ∧ (acceptStep tryEv closeEv false p.1 p.2).spawned = none)
    (h1 : ev.code ∉ closeEv) (h2 : ev.code ∈ tryEv) :
    (runAccept tryEv closeEv false (pre ++ (ev, .conn fd) :: post)).res = .accepted fd := by
  induction pre with
  | nil => simp [runAccept, acceptStep, h1, h2]
  | cons p pre ih =>
    obtain ⟨e, a⟩ := p
    have hp := hpre (e, a) (by simp)
    have := ih (fun p hp' => hpre p (by simp [hp']))
    simp only [List.cons_append, runAccept]
    rw [hp.1]
    exact this

/-! ## the listening socket against the kernel -/

/-- everything that ever arrived, in order: handled ++ returned are interleaved, so conservation is stated per multiset
    for the mixed case and per list for a pure accept loop -/
def LSt.out (s : LSt) : Nat := s.handled.length + s.returned.length

theorem tryAccept_conserve (s : LSt) :
    s.tryAccept.handled.length + s.tryAccept.returned.length + s.tryAccept.q.length =
      s.handled.length + s.returned.length + s.q.length := by
  unfold LSt.tryAccept
  cases hq : s.q with
  | nil => simp [hq]
  | cons c q' =>
    by_cases hl : s.loopOn = true
    · simp [hl]; omega
    · by_cases hw : s.waiting = true
      · simp [hl, hw]; omega
      · simp [hl, hw, hq]

theorem lstep_poll_cases (lv it : Bool) (s : LSt) :
    lstep lv it s .poll = { s with edge := false }.tryAccept ∨ lstep lv it s .poll = { s with edge := false } := by
  by_cases h : s.served lv = true
  · left; simp [lstep, h]
  · right; simp [lstep, h]

/-- pure accept loop: `handled ++ q` is exactly the arrival sequence -/
structure LoopInv (arr : List Nat) (s : LSt) : Prop where
  cons : s.handled ++ s.q = arr
  ret : s.returned = []
  nw : s.waiting = false

theorem tryAccept_loopInv (arr : List Nat) (s : LSt) (h : LoopInv arr s) : LoopInv arr s.tryAccept := by
  unfold LSt.tryAccept
  cases hq : s.q with
  | nil => simpa [hq] using h
  | cons c q' =>
    by_cases hl : s.loopOn = true
    · simp only [hl, if_true]
      exact ⟨by have := h.cons; rw [hq] at this; simpa using this, h.ret, h.nw⟩
    · simp only [hl, h.nw]
      simpa [hq] using h

def arrivals : List LEv → List Nat
  | [] => []
  | .arrive c :: es => c :: arrivals es
  | _ :: es => arrivals es

def noSingle : List LEv → Bool
  | [] => true
  | .startAccept :: _ => false
  | _ :: es => noSingle es

theorem lstep_loopInv (lv it : Bool) (arr : List Nat) (s : LSt) (e : LEv) (h : LoopInv arr s) (hn : e ≠ .startAccept) :
    LoopInv (arr ++ arrivals [e]) (lstep lv it s e) := by
  cases e with
  | arrive c =>
    exact ⟨by simp [lstep, arrivals, ← h.cons], h.ret, h.nw⟩
  | poll =>
    simp only [arrivals, List.append_nil]
    have h1 : LoopInv arr { s with edge := false } := ⟨h.cons, h.ret, h.nw⟩
    rcases lstep_poll_cases lv it s with e | e <;> rw [e]
    · exact tryAccept_loopInv arr _ h1
    · exact h1
  | startLoop =>
    simp only [lstep, arrivals, List.append_nil]
    split
    · exact h
    · have h1 : LoopInv arr { s with loopOn := true } := ⟨h.cons, h.ret, h.nw⟩
      split
      · exact tryAccept_loopInv arr _ h1
      · exact h1
  | startAccept => exact absurd rfl hn

/-- ★ conservation for an accept loop, for every event order: connections handed to handlers ++ connections still
    queued = connections that arrived, in arrival order (each exactly once). -/
theorem lrun_loop_conserves (lv it : Bool) (es : List LEv) : ∀ (arr : List Nat) (s : LSt), LoopInv arr s → noSingle es = true →
    LoopInv (arr ++ arrivals es) (lrun lv it s es) := by
  induction es with
  | nil => intro arr s h _; simpa [arrivals, lrun] using h
  | cons e es ih =>
    intro arr s h hn
    have hne : e ≠ .startAccept := by
      intro he; subst he; simp [noSingle] at hn
    have hn' : noSingle es = true := by
      cases e <;> simp_all [noSingle]
    have h1 := lstep_loopInv lv it arr s e h hne
    have h2 := ih _ _ h1 hn'
    have : arr ++ arrivals (e :: es) = arr ++ arrivals [e] ++ arrivals es := by
      cases e <;> simp [arrivals]
    rw [this]
    exact h2

theorem handled_mono_step (lv it : Bool) (s : LSt) (e : LEv) (c : Nat) (h : c ∈ s.handled) : c ∈ (lstep lv it s e).handled := by
  have ht : ∀ t : LSt, c ∈ t.handled → c ∈ t.tryAccept.handled := by
    intro t ht
    unfold LSt.tryAccept
    cases t.q with
    | nil => exact ht
    | cons d q' =>
      by_cases hl : t.loopOn = true
      · simp [hl, ht]
      · by_cases hw : t.waiting = true
        · simp [hl, hw, ht]
        · simp [hl, hw, ht]
  cases e with
  | arrive d => exact h
  | poll =>
    rcases lstep_poll_cases lv it s with e | e <;> rw [e]
    · exact ht _ h
    · exact h
  | startLoop =>
    simp only [lstep]
    split
    · exact h
    · split
      · exact ht _ h
      · exact h
  | startAccept =>
    simp only [lstep]
    split
    · exact h
    · split
      · exact ht _ h
      · exact h

theorem handled_mono (lv it : Bool) (es : List LEv) : ∀ (s : LSt) (c : Nat), c ∈ s.handled → c ∈ (lrun lv it s es).handled := by
  induction es with
  | nil => intro s c h; exact h
  | cons e es ih => intro s c h; exact ih _ c (handled_mono_step lv it s e c h)

def isPoll : LEv → Bool
  | .poll => true
  | _ => false

/-- LEVEL-TRIGGERED accept loop: a connection at position `p` of the accept queue is with a handler after `p + 1` loop
    iterations, whatever arrives in between. -/
theorem level_drains (it : Bool) (es : List LEv) : ∀ (s : LSt) (pre post : List Nat) (c : Nat),
    s.loopOn = true → s.q = pre ++ c :: post → (es.filter isPoll).length ≥ pre.length + 1 →
    c ∈ (lrun true it s es).handled := by
  induction es with
  | nil => intro s pre post c _ _ hc; simp at hc
  | cons e es ih =>
    intro s pre post c hl hq hc
    cases e with
    | arrive d =>
      have hc' : (es.filter isPoll).length ≥ pre.length + 1 := by simpa [List.filter, isPoll] using hc
      exact ih (lstep true it s (.arrive d)) pre (post ++ [d]) c hl (by simp [lstep, hq]) hc'
    | startLoop =>
      have hc' : (es.filter isPoll).length ≥ pre.length + 1 := by simpa [List.filter, isPoll] using hc
      have : lstep true it s .startLoop = s := by simp [lstep, hl]
      simp only [lrun]; rw [this]
      exact ih s pre post c hl hq hc'
    | startAccept =>
      have hc' : (es.filter isPoll).length ≥ pre.length + 1 := by simpa [List.filter, isPoll] using hc
      have : lstep true it s .startAccept = s := by simp [lstep, hl]
      simp only [lrun]; rw [this]
      exact ih s pre post c hl hq hc'
    | poll =>
      have hc' : (es.filter isPoll).length + 1 ≥ pre.length + 1 := by simpa [List.filter, isPoll] using hc
      have hsv : s.served true = true := by
        simp [LSt.served, LSt.reports, hl, hq]
      simp only [lrun]
      cases pre with
      | nil =>
        -- c is the head: this iteration hands it to a handler
        have hs : c ∈ (lstep true it s .poll).handled := by
          simp [lstep, hsv, hl, hq, LSt.tryAccept]
        exact handled_mono true it es _ c hs
      | cons d pre' =>
        have hstep : (lstep true it s .poll).loopOn = true ∧ (lstep true it s .poll).q = pre' ++ c :: post := by
          simp [lstep, hsv, hl, hq, LSt.tryAccept]
        exact ih _ pre' post c hstep.1 hstep.2 (by simp at hc'; omega)

/-- EDGE-TRIGGERED accept loop (what the listener would be without `janet_stream_level_triggered`): two connections that
    arrive before one loop iteration produce ONE readiness report; the callback accepts one connection per report; the
    second connection is never handed to a handler however many iterations follow. -/
theorem edge_strands (it : Bool) (n : Nat) :
    let s := lrun false it LSt.init ([.startLoop, .arrive 1, .arrive 2, .poll] ++ List.replicate n .poll)
    s.handled = [1] ∧ s.q = [2] := by
  have h0 : ∀ it, lrun false it LSt.init [.startLoop, .arrive 1, .arrive 2, .poll] = ⟨[2], false, true, false, [1], []⟩ := by
    intro it; cases it <;> decide
  have hrep : ∀ n, lrun false it ⟨[2], false, true, false, [1], []⟩ (List.replicate n .poll) = ⟨[2], false, true, false, [1], []⟩ := by
    intro n
    induction n with
    | zero => rfl
    | succ k ih =>
      simp only [List.replicate_succ, lrun]
      have : lstep false it ⟨[2], false, true, false, [1], []⟩ .poll = ⟨[2], false, true, false, [1], []⟩ := by
        cases it <;> decide
      rw [this]; exact ih
  intro s
  have : s = ⟨[2], false, true, false, [1], []⟩ := by
    show lrun false it LSt.init ([.startLoop, .arrive 1, .arrive 2, .poll] ++ List.replicate n .poll) = _
    have happ : ∀ (a b : List LEv) (s : LSt), lrun false it s (a ++ b) = lrun false it (lrun false it s a) b := by
      intro a
      induction a with
      | nil => intro b s; rfl
      | cons e a ih => intro b s; exact ih b _
    rw [happ, h0, hrep]
  rw [this]
  exact ⟨rfl, rfl⟩

/-! single net/accept on the (edge-triggered) listener: never stranded, because INIT tries at once and an arrival while
    it waits raises a fresh edge -/

/-- a waiting net/accept with a non-empty queue has an unreported edge (so the next loop iteration serves it) -/
def AcceptInv (s : LSt) : Prop := s.loopOn = false → s.waiting = true → s.q ≠ [] → s.edge = true

theorem lstep_acceptInv (lv : Bool) (s : LSt) (e : LEv) (h : AcceptInv s) (hl : s.loopOn = false) (he : e ≠ .startLoop) :
    AcceptInv (lstep lv true s e) ∧ (lstep lv true s e).loopOn = false := by
  cases e with
  | arrive c => exact ⟨fun _ _ _ => rfl, hl⟩
  | startLoop => exact absurd rfl he
  | poll =>
    have hsv : s.served lv = (s.edge && s.waiting) := by simp [LSt.served, LSt.reports, hl]
    cases hw : s.waiting with
    | false =>
      have : lstep lv true s .poll = { s with edge := false } := by simp [lstep, hsv, hw]
      rw [this]
      exact ⟨fun _ hw' _ => by simp [hw] at hw', hl⟩
    | true =>
      cases hq : s.q with
      | nil =>
        have : (lstep lv true s .poll).q = [] ∧ (lstep lv true s .poll).loopOn = false := by
          cases hed : s.edge <;> simp [lstep, hsv, hw, hed, LSt.tryAccept, hq, hl]
        exact ⟨fun _ _ hq' => absurd this.1 hq', this.2⟩
      | cons c q' =>
        have hed := h hl hw (by rw [hq]; simp)
        have : (lstep lv true s .poll).waiting = false ∧ (lstep lv true s .poll).loopOn = false := by
          simp [lstep, hsv, hw, hed, LSt.tryAccept, hq, hl]
        exact ⟨fun _ hw' _ => by rw [this.1] at hw'; exact absurd hw' (by simp), this.2⟩
  | startAccept =>
    simp only [lstep, hl, Bool.false_or]
    by_cases hw : s.waiting = true
    · simp only [hw, if_true]; exact ⟨h, hl⟩
    · have hw0 : s.waiting = false := by cases hx : s.waiting <;> simp_all
      simp only [hw0, Bool.false_eq_true, if_false, if_true]
      cases hq : s.q with
      | nil =>
        constructor
        · intro _ _ hq'; exfalso; apply hq'; simp [LSt.tryAccept, hq]
        · simp [LSt.tryAccept, hq, hl]
      | cons c q' =>
        constructor
        · intro _ hw' _; exfalso; simp [LSt.tryAccept, hq, hl] at hw'
        · simp [LSt.tryAccept, hq, hl]

/-! ## infinite schedules -/

theorem lrun_append (lv it : Bool) (a b : List LEv) : ∀ s : LSt, lrun lv it s (a ++ b) = lrun lv it (lrun lv it s a) b := by
  induction a with
  | nil => intro s; rfl
  | cons e a ih => intro s; exact ih _

theorem prefixOf_add {ε : Type} (evs : Nat → ε) (a n : Nat) :
    prefixOf evs (a + n) = prefixOf evs a ++ prefixOf (fun j => evs (a + j)) n := by
  induction n with
  | zero => simp [prefixOf]
  | succ n ih => rw [← Nat.add_assoc, prefix_succ, ih, prefix_succ, List.append_assoc]

theorem loopOn_mono_step (lv it : Bool) (s : LSt) (e : LEv) (h : s.loopOn = true) : (lstep lv it s e).loopOn = true := by
  have ht : ∀ t : LSt, t.loopOn = true → t.tryAccept.loopOn = true := by
    intro t ht
    unfold LSt.tryAccept
    cases t.q with
    | nil => exact ht
    | cons d q' => simp [ht]
  cases e with
  | arrive d => exact h
  | poll =>
    rcases lstep_poll_cases lv it s with e | e <;> rw [e]
    · exact ht _ h
    · exact h
  | startLoop => simp [lstep, h]
  | startAccept => simp [lstep, h]

/-- LEVEL-TRIGGERED accept loop, fairness form: on every infinite schedule in which the event loop keeps iterating, every
    connection that arrives while the loop is registered is eventually handed to a handler fiber. -/
theorem level_serves_every_connection (it : Bool) (sched : Nat → LEv) (fair : ∀ k, ∃ j, k ≤ j ∧ sched j = .poll)
    (i c : Nat) (hi : sched i = .arrive c) (hloop : (lrun true it LSt.init (prefixOf sched i)).loopOn = true) :
    ∃ m, c ∈ (lrun true it LSt.init (prefixOf sched m)).handled := by
  let s1 := lrun true it LSt.init (prefixOf sched (i + 1))
  have hs1 : s1 = lstep true it (lrun true it LSt.init (prefixOf sched i)) (.arrive c) := by
    show lrun true it LSt.init (prefixOf sched (i + 1)) = _
    rw [prefix_succ, lrun_append, hi]; rfl
  have hq : s1.q = (lrun true it LSt.init (prefixOf sched i)).q ++ c :: [] := by rw [hs1]; rfl
  have hl : s1.loopOn = true := by rw [hs1]; exact loopOn_mono_step true it _ _ hloop
  let sched' : Nat → LEv := fun j => sched (i + 1 + j)
  have fair' : ∀ k, ∃ j, k ≤ j ∧ isPoll (sched' j) = true := by
    intro k
    obtain ⟨j, hj, hp⟩ := fair (i + 1 + k)
    refine ⟨j - (i + 1), by omega, ?_⟩
    show isPoll (sched (i + 1 + (j - (i + 1)))) = true
    have : i + 1 + (j - (i + 1)) = j := by omega
    rw [this, hp]; rfl
  obtain ⟨n, hn⟩ := fair_count sched' isPoll fair' ((lrun true it LSt.init (prefixOf sched i)).q.length + 1)
  refine ⟨i + 1 + n, ?_⟩
  rw [prefixOf_add, lrun_append]
  exact level_drains it (prefixOf sched' n) s1 _ [] c hl hq hn

end JanetModel.Stream.Net
