/-
C16 — composition: ONE stream, any number of fibers, every pending operation carrying its own state machine
(`ev_callback_read` / `ev_callback_write` / net callbacks — any machine `step : σ → ε → σ × Bool`), the listener slots with
the guard of `janet_async_start_fiber`, readiness dispatch by slot, `janet_stream_close`.

Main result (`isolation`): with the slot guards, the operation of a fiber that was admitted to a slot sees exactly the
events dispatched in its direction, in order, and nothing else — whatever other fibers try on the same stream meanwhile
(their `start`s in the same direction are refused, operations in the other direction do not touch it).  So every theorem
about a single operation (`write_delivers_all_in_order`, `read_at_most_n`, the liveness theorems) holds for each operation
of a shared stream, and "fair schedule ⇒ the operation ends" lifts to the whole system (`op_ends_in_fair_world`).
-/
import JanetModel.Stream.Liveness
import JanetModel.Stream.Lemmas

namespace JanetModel.Stream.Compose
open JanetModel.Stream

/-- function update -/
def upd {β : Type} (g : Nat → β) (k : Nat) (v : β) : Nat → β := fun x => if x = k then v else g x

@[simp] theorem upd_same {β : Type} (g : Nat → β) (k : Nat) (v : β) : upd g k v k = v := by simp [upd]
theorem upd_other {β : Type} (g : Nat → β) (k : Nat) (v : β) (x : Nat) (h : x ≠ k) : upd g k v x = g x := by simp [upd, h]

def updS (g : Dir → Option Nat) (k : Dir) (v : Option Nat) : Dir → Option Nat := fun x => if x = k then v else g x

@[simp] theorem updS_same (g : Dir → Option Nat) (k : Dir) (v : Option Nat) : updS g k v k = v := by simp [updS]
theorem updS_other (g : Dir → Option Nat) (k : Dir) (v : Option Nat) (x : Dir) (h : x ≠ k) : updS g k v x = g x := by simp [updS, h]

/-- `slot d` = stream->read_fiber / write_fiber; `op f` = the pending operation of fiber `f` (ev_callback set): direction
    and machine state; `done` = operations that ended (janet_async_end + schedule/cancel), in order, with their final
    state; `refused` = fibers whose call raised ("cannot listen for duplicate event on stream" / "stream is closed"). -/
structure W2 (σ : Type) where
  slot : Dir → Option Nat
  op : Nat → Option (Dir × σ)
  done : List (Nat × Dir × σ)
  refused : List Nat
  closed : Bool

def W2.init {σ : Type} : W2 σ := ⟨fun _ => none, fun _ => none, [], [], false⟩

inductive Act2 (σ ε : Type) where
  | start (f : Nat) (d : Dir) (s0 : σ) (e0 : ε)   -- fiber f calls ev/read, ev/write, …: janet_async_start_fiber + the INIT event e0
  | ev (d : Dir) (e : ε)                            -- janet_loop1_impl dispatches an event to the fiber in slot d
  | close                                           -- janet_stream_close

variable {σ ε : Type}

/-- janet_async_end + janet_schedule / janet_cancel -/
def W2.finish (w : W2 σ) (f : Nat) (d : Dir) (s : σ) : W2 σ :=
  { w with slot := updS w.slot d none, op := upd w.op f none, done := w.done ++ [(f, d, s)] }

/-- one event for the fiber registered in slot `d` -/
def W2.deliver (step : σ → ε → σ × Bool) (w : W2 σ) (d : Dir) (e : ε) : W2 σ :=
  match w.slot d with
  | none => w
  | some f =>
    match w.op f with
    | none => w
    | some (d', s) =>
      if d' = d then
        if (step s e).2 then w.finish f d (step s e).1 else { w with op := upd w.op f (some (d, (step s e).1)) }
      else w

/-- one half of janet_stream_close: CLOSE event to the fiber in slot `d` (every callback ends on CLOSE), slot cleared -/
def W2.closeDir (step : σ → ε → σ × Bool) (closeEv : ε) (w : W2 σ) (d : Dir) : W2 σ :=
  match w.slot d with
  | none => w
  | some f =>
    match w.op f with
    | none => { w with slot := updS w.slot d none }
    | some (d', s) => if d' = d then w.finish f d (step s closeEv).1 else { w with slot := updS w.slot d none }

def W2.occupied (w : W2 σ) (f : Nat) (d : Dir) : Bool :=
  match w.slot d with
  | some g => (g != f) && (w.op g).isSome
  | none => false

/-- the machine of the CURRENT source: both slot guards present (Gen.Stream.guardsReadSlot / guardsWriteSlot) -/
def step2 (step : σ → ε → σ × Bool) (closeEv : ε) (w : W2 σ) : Act2 σ ε → W2 σ
  | .start f d s0 e0 =>
    if (w.op f).isSome then w
    else if w.closed then { w with refused := w.refused ++ [f] }
    else if w.occupied f d then { w with refused := w.refused ++ [f] }
    else W2.deliver step { w with slot := updS w.slot d (some f), op := upd w.op f (some (d, s0)) } d e0
  | .ev d e => w.deliver step d e
  | .close => { (W2.closeDir step closeEv (W2.closeDir step closeEv w .rd) .wr) with closed := true }

def run2 (step : σ → ε → σ × Bool) (closeEv : ε) : W2 σ → List (Act2 σ ε) → W2 σ
  | w, [] => w
  | w, a :: as => run2 step closeEv (step2 step closeEv w a) as

/-- every pending operation is the one registered in the slot of its direction -/
def Inv2 (w : W2 σ) : Prop := ∀ f d s, w.op f = some (d, s) → w.slot d = some f

/-- the operation of ONE fiber run in isolation against the events of its direction -/
def track (step : σ → ε → σ × Bool) (closeEv : ε) (d : Dir) : σ → List (Act2 σ ε) → σ × Bool
  | s, [] => (s, false)
  | s, .ev d' e :: as =>
    if d' = d then (if (step s e).2 then ((step s e).1, true) else track step closeEv d (step s e).1 as)
    else track step closeEv d s as
  | s, .close :: _ => ((step s closeEv).1, true)
  | s, .start _ _ _ _ :: as => track step closeEv d s as

/-! ### case analysis of `deliver` / `closeDir` -/

theorem deliver_cases (step : σ → ε → σ × Bool) (w : W2 σ) (d : Dir) (e : ε) :
    w.deliver step d e = w ∨
    (∃ f s, w.slot d = some f ∧ w.op f = some (d, s) ∧ (step s e).2 = true ∧ w.deliver step d e = w.finish f d (step s e).1) ∨
    (∃ f s, w.slot d = some f ∧ w.op f = some (d, s) ∧ (step s e).2 = false ∧
        w.deliver step d e = { w with op := upd w.op f (some (d, (step s e).1)) }) := by
  cases hs : w.slot d with
  | none => left; simp [W2.deliver, hs]
  | some f =>
    cases ho : w.op f with
    | none => left; simp [W2.deliver, hs, ho]
    | some p =>
      obtain ⟨d', s⟩ := p
      by_cases hd : d' = d
      · subst hd
        cases he : (step s e).2 with
        | true => right; left; exact ⟨f, s, rfl, ho, he, by simp [W2.deliver, hs, ho, he]⟩
        | false => right; right; exact ⟨f, s, rfl, ho, he, by simp [W2.deliver, hs, ho, he]⟩
      · left; simp [W2.deliver, hs, ho, hd]

theorem closeDir_cases (step : σ → ε → σ × Bool) (c : ε) (w : W2 σ) (d : Dir) :
    W2.closeDir step c w d = w ∧ w.slot d = none ∨
    (∃ f s, w.slot d = some f ∧ w.op f = some (d, s) ∧ W2.closeDir step c w d = w.finish f d (step s c).1) ∨
    (∃ f, w.slot d = some f ∧ (∀ s, w.op f ≠ some (d, s)) ∧ W2.closeDir step c w d = { w with slot := updS w.slot d none }) := by
  cases hs : w.slot d with
  | none => left; simp [W2.closeDir, hs]
  | some f =>
    cases ho : w.op f with
    | none => right; right; exact ⟨f, rfl, (fun s h => by rw [ho] at h; cases h), (by simp [W2.closeDir, hs, ho])⟩
    | some p =>
      obtain ⟨d', s⟩ := p
      by_cases hd : d' = d
      · subst hd; right; left; exact ⟨f, s, rfl, ho, by simp [W2.closeDir, hs, ho]⟩
      · right; right
        refine ⟨f, rfl, ?_, by simp [W2.closeDir, hs, ho, hd]⟩
        intro s' h
        rw [ho] at h
        injection h with h; injection h with h1 _
        exact hd h1

theorem step2_start_admitted (step : σ → ε → σ × Bool) (c : ε) (w : W2 σ) (f : Nat) (d : Dir) (s0 : σ) (e0 : ε)
    (h1 : (w.op f).isSome = false) (h2 : w.closed = false) (h3 : w.occupied f d = false) :
    step2 step c w (.start f d s0 e0) =
      W2.deliver step { w with slot := updS w.slot d (some f), op := upd w.op f (some (d, s0)) } d e0 := by
  simp [step2, h1, h2, h3]

/-! ### invariant -/

theorem finish_inv (w : W2 σ) (f : Nat) (d : Dir) (s : σ) (h : Inv2 w) (hs : w.slot d = some f) : Inv2 (w.finish f d s) := by
  intro g dg sg hg
  simp only [W2.finish] at hg ⊢
  by_cases hgf : g = f
  · subst hgf; simp at hg
  · rw [upd_other _ _ _ _ hgf] at hg
    have h1 := h g dg sg hg
    by_cases hd : dg = d
    · subst hd; rw [hs] at h1; exact absurd (Option.some.inj h1).symm hgf
    · rw [updS_other _ _ _ _ hd]; exact h1

theorem deliver_inv (step : σ → ε → σ × Bool) (w : W2 σ) (d : Dir) (e : ε) (h : Inv2 w) : Inv2 (w.deliver step d e) := by
  rcases deliver_cases step w d e with hr | ⟨f, s, hs, _, _, hr⟩ | ⟨f, s, hs, _, _, hr⟩ <;> rw [hr]
  · exact h
  · exact finish_inv w f d _ h hs
  · intro g dg sg hg
    simp only at hg ⊢
    by_cases hgf : g = f
    · subst hgf; simp at hg; rw [← hg.1]; exact hs
    · rw [upd_other _ _ _ _ hgf] at hg; exact h g dg sg hg

theorem closeDir_inv (step : σ → ε → σ × Bool) (c : ε) (w : W2 σ) (d : Dir) (h : Inv2 w) : Inv2 (W2.closeDir step c w d) := by
  rcases closeDir_cases step c w d with ⟨hr, _⟩ | ⟨f, s, hs, _, hr⟩ | ⟨f, hs, hn, hr⟩ <;> rw [hr]
  · exact h
  · exact finish_inv w f d _ h hs
  · intro g dg sg hg
    simp only at hg ⊢
    by_cases hd : dg = d
    · subst hd
      have := h g dg sg hg
      rw [hs] at this
      have : g = f := (Option.some.inj this).symm
      subst this
      exact absurd hg (hn sg)
    · rw [updS_other _ _ _ _ hd]; exact h g dg sg hg

theorem step2_inv (step : σ → ε → σ × Bool) (c : ε) (w : W2 σ) (a : Act2 σ ε) (h : Inv2 w) : Inv2 (step2 step c w a) := by
  cases a with
  | ev d e => exact deliver_inv step w d e h
  | close =>
    intro g dg sg hg
    exact closeDir_inv step c _ .wr (closeDir_inv step c w .rd h) g dg sg hg
  | start f d s0 e0 =>
    simp only [step2]
    by_cases hp : (w.op f).isSome = true
    · simp only [hp, if_true]; exact h
    · simp only [hp]
      by_cases hc : w.closed = true
      · simp only [hc, if_true]; intro g dg sg hg; exact h g dg sg hg
      · simp only [hc]
        by_cases hocc : w.occupied f d = true
        · simp only [hocc, if_true]; intro g dg sg hg; exact h g dg sg hg
        · simp only [hocc]
          apply deliver_inv
          intro g dg sg hg
          simp only at hg ⊢
          by_cases hgf : g = f
          · subst hgf; simp at hg; rw [← hg.1]; simp
          · rw [upd_other _ _ _ _ hgf] at hg
            have h1 := h g dg sg hg
            by_cases hd : dg = d
            · subst hd
              exfalso
              apply hocc
              simp [W2.occupied, h1, hgf, hg]
            · rw [updS_other _ _ _ _ hd]; exact h1

/-! ### `done` only grows -/

theorem deliver_done_mono (step : σ → ε → σ × Bool) (w : W2 σ) (d : Dir) (e : ε) (x : Nat × Dir × σ) (h : x ∈ w.done) :
    x ∈ (w.deliver step d e).done := by
  rcases deliver_cases step w d e with hr | ⟨f, s, _, _, _, hr⟩ | ⟨f, s, _, _, _, hr⟩ <;> rw [hr]
  · exact h
  · simp [W2.finish, h]
  · exact h

theorem closeDir_done_mono (step : σ → ε → σ × Bool) (c : ε) (w : W2 σ) (d : Dir) (x : Nat × Dir × σ) (h : x ∈ w.done) :
    x ∈ (W2.closeDir step c w d).done := by
  rcases closeDir_cases step c w d with ⟨hr, _⟩ | ⟨f, s, _, _, hr⟩ | ⟨f, _, _, hr⟩ <;> rw [hr]
  · exact h
  · simp [W2.finish, h]
  · exact h

theorem step2_done_mono (step : σ → ε → σ × Bool) (c : ε) (w : W2 σ) (a : Act2 σ ε) (x : Nat × Dir × σ) (h : x ∈ w.done) :
    x ∈ (step2 step c w a).done := by
  cases a with
  | ev d e => exact deliver_done_mono step w d e x h
  | close => exact closeDir_done_mono step c _ .wr x (closeDir_done_mono step c w .rd x h)
  | start f d s0 e0 =>
    simp only [step2]
    split
    · exact h
    · split
      · exact h
      · split
        · exact h
        · exact deliver_done_mono step _ d e0 x h

theorem run2_done_mono (step : σ → ε → σ × Bool) (c : ε) (as : List (Act2 σ ε)) : ∀ (w : W2 σ) (x : Nat × Dir × σ),
    x ∈ w.done → x ∈ (run2 step c w as).done := by
  induction as with
  | nil => intro w x h; exact h
  | cons a as ih => intro w x h; exact ih _ x (step2_done_mono step c w a x h)

/-! ### what one event does to the operation of fiber `f` -/

/-- an event in `f`'s own direction is applied to `f`'s machine -/
theorem deliver_same (step : σ → ε → σ × Bool) (w : W2 σ) (f : Nat) (d : Dir) (s : σ) (e : ε) (h : Inv2 w) (ho : w.op f = some (d, s)) :
    ((step s e).2 = true → (f, d, (step s e).1) ∈ (w.deliver step d e).done) ∧
    ((step s e).2 = false → (w.deliver step d e).op f = some (d, (step s e).1)) := by
  have hs := h f d s ho
  constructor
  · intro he; simp [W2.deliver, hs, ho, he, W2.finish]
  · intro he; simp [W2.deliver, hs, ho, he]

/-- an event in the other direction does not touch it -/
theorem deliver_other (step : σ → ε → σ × Bool) (w : W2 σ) (f : Nat) (d d' : Dir) (s : σ) (e : ε) (h : Inv2 w)
    (ho : w.op f = some (d, s)) (hd : d' ≠ d) : (w.deliver step d' e).op f = some (d, s) := by
  rcases deliver_cases step w d' e with hr | ⟨g, sg, _, hog, _, hr⟩ | ⟨g, sg, _, hog, _, hr⟩ <;> rw [hr]
  · exact ho
  · have hgf : f ≠ g := by
      intro e'; subst e'; rw [ho] at hog
      injection hog with h1; injection h1 with h2 _
      exact hd h2.symm
    simp only [W2.finish]; rw [upd_other _ _ _ _ hgf]; exact ho
  · have hgf : f ≠ g := by
      intro e'; subst e'; rw [ho] at hog
      injection hog with h1; injection h1 with h2 _
      exact hd h2.symm
    show upd w.op g _ f = _
    rw [upd_other _ _ _ _ hgf]; exact ho

theorem closeDir_other (step : σ → ε → σ × Bool) (c : ε) (w : W2 σ) (f : Nat) (d d' : Dir) (s : σ)
    (ho : w.op f = some (d, s)) (hd : d' ≠ d) : (W2.closeDir step c w d').op f = some (d, s) := by
  rcases closeDir_cases step c w d' with ⟨hr, _⟩ | ⟨g, sg, _, hog, hr⟩ | ⟨g, _, _, hr⟩ <;> rw [hr]
  · exact ho
  · have hgf : f ≠ g := by
      intro e'; subst e'; rw [ho] at hog
      injection hog with h1; injection h1 with h2 _
      exact hd h2.symm
    simp only [W2.finish]; rw [upd_other _ _ _ _ hgf]; exact ho
  · exact ho

theorem closeDir_same (step : σ → ε → σ × Bool) (c : ε) (w : W2 σ) (f : Nat) (d : Dir) (s : σ) (h : Inv2 w)
    (ho : w.op f = some (d, s)) : (f, d, (step s c).1) ∈ (W2.closeDir step c w d).done := by
  have hs := h f d s ho
  simp [W2.closeDir, hs, ho, W2.finish]

/-- ★ ISOLATION.  With both slot guards: let fiber `f` be admitted with an operation in direction `d` in state `s`.  For
    EVERY continuation of the schedule — other fibers starting operations in either direction, events, close — the
    operation behaves exactly as if it ran alone against the events dispatched in direction `d` (`track`): while `track`
    has not ended the fiber is still registered with `track`'s state; once `track` has ended the operation is recorded as
    ended with `track`'s final state. -/
theorem isolation (step : σ → ε → σ × Bool) (c : ε) (f : Nat) (d : Dir) (as : List (Act2 σ ε)) : ∀ (w : W2 σ) (s : σ),
    Inv2 w → w.op f = some (d, s) →
    ((track step c d s as).2 = false → (run2 step c w as).op f = some (d, (track step c d s as).1)) ∧
    ((track step c d s as).2 = true → (f, d, (track step c d s as).1) ∈ (run2 step c w as).done) := by
  induction as with
  | nil => intro w s _ ho; exact ⟨fun _ => ho, fun h => by simp [track] at h⟩
  | cons a as ih =>
    intro w s h ho
    have hinv := step2_inv step c w a h
    cases a with
    | ev d' e =>
      by_cases hd : d' = d
      · subst hd
        obtain ⟨h1, h2⟩ := deliver_same step w f d' s e h ho
        by_cases he : (step s e).2 = true
        · simp only [track, he, if_true]
          exact ⟨fun hx => by simp at hx, fun _ => run2_done_mono step c as _ _ (h1 he)⟩
        · have he' : (step s e).2 = false := by cases hx : (step s e).2 <;> simp_all
          simp only [track, he', if_true]
          exact ih _ _ hinv (h2 he')
      · simp only [track, hd, if_false]
        exact ih _ _ hinv (deliver_other step w f d d' s e h ho hd)
    | close =>
      simp only [track]
      refine ⟨fun hx => by simp at hx, fun _ => run2_done_mono step c as _ _ ?_⟩
      -- the CLOSE event reaches f in the half of close that handles its direction
      cases d with
      | rd =>
        apply closeDir_done_mono
        exact closeDir_same step c w f .rd s h ho
      | wr =>
        have h1 : Inv2 (W2.closeDir step c w .rd) := closeDir_inv step c w .rd h
        have ho1 := closeDir_other step c w f .wr .rd s ho (by decide)
        exact closeDir_same step c _ f .wr s h1 ho1
    | start g dg s0 e0 =>
      simp only [track]
      apply ih _ _ hinv
      cases hp : (w.op g).isSome with
      | true => simp [step2, hp]; exact ho
      | false =>
        have hgf : f ≠ g := by intro e'; subst e'; simp [ho] at hp
        cases hc : w.closed with
        | true => simp [step2, hp, hc]; exact ho
        | false =>
          cases hocc : w.occupied g dg with
          | true => simp [step2, hp, hc, hocc]; exact ho
          | false =>
            rw [step2_start_admitted step c w g dg s0 e0 hp hc hocc]
            -- admitted: then it is the other direction (ours is occupied by f), and its INIT event does not touch f
            have hdd : dg ≠ d := by
              intro e'; subst e'
              have hs := h f dg s ho
              simp [W2.occupied, hs, hgf, ho] at hocc
            have hinv1 : Inv2 { w with slot := updS w.slot dg (some g), op := upd w.op g (some (dg, s0)) } := by
              intro x dx sx hx
              simp only at hx ⊢
              by_cases hxg : x = g
              · subst hxg; simp at hx; rw [← hx.1]; simp
              · rw [upd_other _ _ _ _ hxg] at hx
                have h1 := h x dx sx hx
                by_cases hd' : dx = dg
                · subst hd'
                  exfalso
                  simp [W2.occupied, h1, hxg, hx] at hocc
                · rw [updS_other _ _ _ _ hd']; exact h1
            apply deliver_other step _ f d dg s e0 hinv1 _ hdd
            show upd w.op g _ f = _
            rw [upd_other _ _ _ _ hgf]; exact ho

/-- ★ a second operation in a direction that is occupied is refused and changes nothing: the fiber is recorded as having
    raised, the registered operation keeps its slot and its state ("per-writer order" on one stream is enforced by refusing
    the second concurrent writer, not by queueing it). -/
theorem concurrent_start_refused (step : σ → ε → σ × Bool) (c : ε) (w : W2 σ) (f g : Nat) (d : Dir) (s s0 : σ) (e0 : ε)
    (h : Inv2 w) (ho : w.op f = some (d, s)) (hg : g ≠ f) (hgp : w.op g = none) (hc : w.closed = false) :
    step2 step c w (.start g d s0 e0) = { w with refused := w.refused ++ [g] } := by
  have hs := h f d s ho
  have hocc : w.occupied g d = true := by simp [W2.occupied, hs, Ne.symm hg, ho]
  simp [step2, hgp, hc, hocc]

/-! ## schedules reduced to the events of one direction -/

/-- the events a fiber registered in direction `d` is sent by a schedule: readiness / error / hang-up events dispatched
    in that direction, and the CLOSE event of `janet_stream_close` -/
def evsOf (c : ε) (d : Dir) : List (Act2 σ ε) → List ε
  | [] => []
  | .ev d' e :: as => if d' = d then e :: evsOf c d as else evsOf c d as
  | .close :: as => c :: evsOf c d as
  | .start _ _ _ _ :: as => evsOf c d as

/-- a machine run alone on a list of events, stopping when it ends -/
def foldOp (step : σ → ε → σ × Bool) : σ → List ε → σ × Bool
  | s, [] => (s, false)
  | s, e :: es => if (step s e).2 then ((step s e).1, true) else foldOp step (step s e).1 es

/-- when the machine ends on CLOSE (every callback does), `track` is the machine run alone on `evsOf` -/
theorem track_eq_foldOp (step : σ → ε → σ × Bool) (c : ε) (d : Dir) (hclose : ∀ s, (step s c).2 = true) (as : List (Act2 σ ε)) :
    ∀ s, track step c d s as = foldOp step s (evsOf c d as) := by
  induction as with
  | nil => intro s; rfl
  | cons a as ih =>
    intro s
    cases a with
    | ev d' e =>
      by_cases hd : d' = d
      · simp only [track, evsOf, hd, if_true, foldOp]
        by_cases he : (step s e).2 = true
        · simp [he]
        · simp only [he]; exact ih _
      · simp only [track, evsOf, hd, if_false]; exact ih _
    | close => simp [track, evsOf, foldOp, hclose]
    | start g dg s0 e0 => simp only [track, evsOf]; exact ih _

theorem evsOf_append (c : ε) (d : Dir) (a b : List (Act2 σ ε)) : evsOf c d (a ++ b) = evsOf c d a ++ evsOf c d b := by
  induction a with
  | nil => rfl
  | cons x a ih =>
    cases x with
    | ev d' e => by_cases hd : d' = d <;> simp [evsOf, hd, ih]
    | close => simp [evsOf, ih]
    | start g dg s0 e0 => simp [evsOf, ih]

/-! ## the write machine of ev.c as an instance -/

/-- `StateWrite` + the call log + the last result -/
structure WS where
  len : Nat
  dgram : Bool
  start : Nat
  calls : List Call
  res : WRes
  deriving Repr

/-- `ev_callback_write` on one event; ended = the callback called janet_async_end -/
def wstep (s : WS) (ev : WEv) : WS × Bool :=
  let o := writeStep s.len s.dgram s.start ev
  ({ s with start := o.start, calls := s.calls ++ o.calls, res := o.res }, o.res != .pending)

theorem wstep_close (s : WS) : (wstep s .close).2 = true := rfl

theorem foldOp_wstep (evs : List WEv) : ∀ (s : WS),
    let t := runWrite s.len s.dgram s.start evs
    (foldOp wstep s evs).1.len = s.len ∧ (foldOp wstep s evs).1.dgram = s.dgram ∧
    (foldOp wstep s evs).1.start = t.start ∧ (foldOp wstep s evs).1.calls = s.calls ++ t.calls ∧
    (evs ≠ [] → (foldOp wstep s evs).1.res = t.res) ∧ ((foldOp wstep s evs).2 = true ↔ t.res ≠ .pending) := by
  induction evs with
  | nil => intro s; simp [foldOp, runWrite]
  | cons ev evs ih =>
    intro s
    cases hr : (writeStep s.len s.dgram s.start ev).res with
    | pending =>
      have h2 : (wstep s ev).2 = false := by simp [wstep, hr]
      have hf : foldOp wstep s (ev :: evs) = foldOp wstep (wstep s ev).1 evs := by simp [foldOp, h2]
      have hrw : runWrite s.len s.dgram s.start (ev :: evs) =
          { runWrite s.len s.dgram (writeStep s.len s.dgram s.start ev).start evs with
            calls := (writeStep s.len s.dgram s.start ev).calls ++ (runWrite s.len s.dgram (writeStep s.len s.dgram s.start ev).start evs).calls } := by
        simp [runWrite, hr]
      obtain ⟨i1, i2, i3, i4, i5, i6⟩ := ih (wstep s ev).1
      have e1 : (wstep s ev).1.len = s.len := rfl
      have e2 : (wstep s ev).1.dgram = s.dgram := rfl
      have e3 : (wstep s ev).1.start = (writeStep s.len s.dgram s.start ev).start := rfl
      have e4 : (wstep s ev).1.calls = s.calls ++ (writeStep s.len s.dgram s.start ev).calls := rfl
      rw [e1, e2, e3] at i3 i4 i5 i6
      show (foldOp wstep s (ev :: evs)).1.len = s.len ∧ (foldOp wstep s (ev :: evs)).1.dgram = s.dgram ∧
        (foldOp wstep s (ev :: evs)).1.start = (runWrite s.len s.dgram s.start (ev :: evs)).start ∧
        (foldOp wstep s (ev :: evs)).1.calls = s.calls ++ (runWrite s.len s.dgram s.start (ev :: evs)).calls ∧
        (ev :: evs ≠ [] → (foldOp wstep s (ev :: evs)).1.res = (runWrite s.len s.dgram s.start (ev :: evs)).res) ∧
        ((foldOp wstep s (ev :: evs)).2 = true ↔ (runWrite s.len s.dgram s.start (ev :: evs)).res ≠ .pending)
      rw [hf, hrw]
      refine ⟨i1.trans e1, i2.trans e2, i3, ?_, ?_, i6⟩
      · show (foldOp wstep (wstep s ev).1 evs).1.calls = s.calls ++ ((writeStep s.len s.dgram s.start ev).calls ++ _)
        rw [i4, e4, List.append_assoc]
      · intro _
        cases evs with
        | nil => simp [foldOp, runWrite, wstep, hr]
        | cons e2 es => exact i5 (by simp)
    | done => simp [foldOp, runWrite, wstep, hr]
    | failed e => simp [foldOp, runWrite, wstep, hr]
    | starved => simp [foldOp, runWrite, wstep, hr]

/-- ★ SHARED STREAM, writes.  With the slot guards, for EVERY schedule (any number of other fibers starting reads and
    writes on the same stream, events in both directions, close): the pending write of fiber `f` issues exactly the system
    calls `runWrite` issues against the write-direction events of the schedule, it is still registered iff `runWrite` is
    pending, and otherwise it has ended with `runWrite`'s result; the bytes handed to the kernel are the first `start`
    source bytes in order, all of them when the result is `done`.  In particular a second writer cannot interleave its
    bytes or steal the slot: its call is refused (`concurrent_start_refused`). -/
theorem shared_stream_write_exact {α : Type} (src : List α) (dgram : Bool) (f : Nat) (as : List (Act2 WS WEv)) (w : W2 WS)
    (hinv : Inv2 w) (ho : w.op f = some (.wr, ⟨src.length, dgram, 0, [], .pending⟩)) :
    let t := runWrite src.length dgram 0 (evsOf .close .wr as)
    (t.res = .pending → ∃ s, (run2 wstep .close w as).op f = some (.wr, s) ∧ s.start = t.start ∧ s.calls = t.calls) ∧
    (t.res ≠ .pending → ∃ s, (f, .wr, s) ∈ (run2 wstep .close w as).done ∧ s.start = t.start ∧ s.calls = t.calls ∧ s.res = t.res) ∧
    delivered src t.calls = src.take (sumGot t.calls) ∧ (dgram = false → t.res = .done → delivered src t.calls = src) := by
  intro t
  have hiso := isolation wstep .close f .wr as w _ hinv ho
  rw [track_eq_foldOp wstep .close .wr wstep_close as] at hiso
  obtain ⟨_, _, f3, f4, f5, f6⟩ := foldOp_wstep (evsOf .close .wr as) ⟨src.length, dgram, 0, [], .pending⟩
  have g := runWrite_good src src.length dgram (evsOf .close .wr as) 0 (Nat.zero_le _)
  refine ⟨?_, ?_, ?_, ?_⟩
  · intro hp
    have : (foldOp wstep ⟨src.length, dgram, 0, [], .pending⟩ (evsOf .close .wr as)).2 = false := by
      cases hx : (foldOp wstep ⟨src.length, dgram, 0, [], .pending⟩ (evsOf .close .wr as)).2 with
      | false => rfl
      | true => exact absurd hp (f6.mp hx)
    exact ⟨_, hiso.1 this, f3, by simpa using f4⟩
  · intro hp
    have hend := f6.mpr hp
    refine ⟨_, hiso.2 hend, f3, by simpa using f4, ?_⟩
    apply f5
    intro hnil
    have : t.res = .pending := by show (runWrite src.length dgram 0 (evsOf .close .wr as)).res = _; rw [hnil]; rfl
    exact hp this
  · have := g.deliv; simp only [List.drop_zero] at this; exact this
  · intro hd hdone
    have hst : t.start = 0 + sumGot t.calls := g.adv (Or.inl hd)
    have hge : t.start ≥ src.length := g.fin hdone
    have hb : 0 + sumGot t.calls ≤ src.length := g.bound
    have hd' : delivered src t.calls = src.take (sumGot t.calls) := by
      have := g.deliv; simp only [List.drop_zero] at this; exact this
    have hsum : sumGot t.calls = src.length := by omega
    rw [hd', hsum, List.take_length]

/-! ## fairness of the whole system ⇒ the operation ends -/

/-- a step of the schedule that is productive for the pending writer: a write-direction event after which the kernel
    transfers or fails (not a spurious EAGAIN wake-up), or a close -/
def fairAct : Act2 WS WEv → Bool
  | .ev .wr e => e.productive
  | .close => true
  | _ => false

theorem evsOf_productive (as : List (Act2 WS WEv)) :
    (as.filter fairAct).length ≤ ((evsOf WEv.close .wr as).filter WEv.productive).length := by
  induction as with
  | nil => simp [evsOf]
  | cons a as ih =>
    cases a with
    | ev d e =>
      cases d with
      | rd => simpa [evsOf, fairAct, List.filter] using ih
      | wr =>
        cases hp : e.productive with
        | true => simp [evsOf, fairAct, List.filter, hp]; omega
        | false => simp [evsOf, fairAct, List.filter, hp]; omega
    | close => simp [evsOf, fairAct, List.filter, WEv.productive]; omega
    | start g dg s0 e0 => simpa [evsOf, fairAct, List.filter] using ih

theorem evsOf_complete (as : List (Act2 WS WEv)) (hc : ∀ e, Act2.ev .wr e ∈ as → e.complete = true) :
    ∀ ev ∈ evsOf WEv.close .wr as, ev.complete = true := by
  induction as with
  | nil => intro ev h; simp [evsOf] at h
  | cons a as ih =>
    have ih' := ih (fun e he => hc e (by simp [he]))
    cases a with
    | ev d e =>
      cases d with
      | rd => simpa [evsOf] using ih'
      | wr =>
        intro ev hev
        simp only [evsOf, if_true, List.mem_cons] at hev
        rcases hev with rfl | hev
        · exact hc _ (by simp)
        · exact ih' ev hev
    | close =>
      intro ev hev
      simp only [evsOf, List.mem_cons] at hev
      rcases hev with rfl | hev
      · rfl
      · exact ih' ev hev
    | start g dg s0 e0 => simpa [evsOf] using ih'

/-- ★ LIVENESS OF THE WHOLE SYSTEM, fairness as hypothesis.  One stream shared by any number of fibers, the slot guards
    of the current source, an INFINITE schedule of fibers starting operations, events in both directions and closes.  If
    the kernel is fair to the write direction — write-readiness events after which it transfers at least a byte or fails
    (or error / hang-up / close events) keep coming, and every call is answered — then the pending write of fiber `f` has
    ended (completed or raised) after some finite prefix, whatever the other fibers do on the stream. -/
theorem shared_stream_write_ends_under_fairness (len : Nat) (dgram : Bool) (f : Nat) (sched : Nat → Act2 WS WEv) (w : W2 WS)
    (hinv : Inv2 w) (ho : w.op f = some (.wr, ⟨len, dgram, 0, [], .pending⟩))
    (hc : ∀ i e, sched i = .ev .wr e → e.complete = true)
    (fair : ∀ k, ∃ j, k ≤ j ∧ fairAct (sched j) = true) :
    ∃ m s, (f, Dir.wr, s) ∈ (run2 wstep .close w (prefixOf sched m)).done ∧ s.res.ended = true := by
  obtain ⟨m, hm⟩ := fair_count sched fairAct fair (max 1 len)
  have hcount := evsOf_productive (prefixOf sched m)
  have hcompl := evsOf_complete (prefixOf sched m) (by
    intro e he
    obtain ⟨i, hi⟩ := mem_prefix sched m _ he
    exact hc i e hi.symm)
  have hend := write_ends_within len dgram (evsOf WEv.close .wr (prefixOf sched m)) 0 (Nat.zero_le _) hcompl (by simp at hm ⊢; omega)
  have hx := shared_stream_write_exact (List.replicate len ()) dgram f (prefixOf sched m) w hinv (by simpa using ho)
  simp only [List.length_replicate] at hx
  have hne : (runWrite len dgram 0 (evsOf WEv.close .wr (prefixOf sched m))).res ≠ .pending := by
    intro h; rw [h] at hend; cases hend
  obtain ⟨s, hs, _, _, hr⟩ := hx.2.1 hne
  exact ⟨m, s, hs, by rw [hr]; exact hend⟩

/-! ## the read machine of ev.c as an instance -/

/-- `StateRead` (+ the byte sequences of the model) + call log + last result -/
structure RS (α : Type) where
  chunk : Bool
  recvfrom : Bool
  limC : Nat
  base : Nat
  st : RSt α
  calls : List Call
  res : RRes

/-- `ev_callback_read` on one event -/
def rstep {α : Type} (s : RS α) (ev : REv) : RS α × Bool :=
  let o := readStep s.chunk s.recvfrom s.limC s.base s.st ev
  ({ s with st := o.st, calls := s.calls ++ o.calls, res := o.res }, o.res != .pending)

theorem rstep_close {α : Type} (s : RS α) : (rstep s .close).2 = true := rfl

theorem foldOp_rstep {α : Type} (evs : List REv) : ∀ (s : RS α),
    (foldOp rstep s evs).1.st = (runRead s.chunk s.recvfrom s.limC s.base s.st evs).st ∧
    (foldOp rstep s evs).1.calls = s.calls ++ (runRead s.chunk s.recvfrom s.limC s.base s.st evs).calls ∧
    (evs ≠ [] → (foldOp rstep s evs).1.res = (runRead s.chunk s.recvfrom s.limC s.base s.st evs).res) ∧
    ((foldOp rstep s evs).2 = true ↔ (runRead s.chunk s.recvfrom s.limC s.base s.st evs).res ≠ .pending) := by
  induction evs with
  | nil => intro s; simp [foldOp, runRead]
  | cons ev evs ih =>
    intro s
    cases hr : (readStep s.chunk s.recvfrom s.limC s.base s.st ev).res with
    | pending =>
      have h2 : (rstep s ev).2 = false := by simp [rstep, hr]
      have hf : foldOp rstep s (ev :: evs) = foldOp rstep (rstep s ev).1 evs := by simp [foldOp, h2]
      have hrw : runRead s.chunk s.recvfrom s.limC s.base s.st (ev :: evs) =
          { runRead s.chunk s.recvfrom s.limC s.base (readStep s.chunk s.recvfrom s.limC s.base s.st ev).st evs with
            calls := (readStep s.chunk s.recvfrom s.limC s.base s.st ev).calls ++
              (runRead s.chunk s.recvfrom s.limC s.base (readStep s.chunk s.recvfrom s.limC s.base s.st ev).st evs).calls } := by
        simp [runRead, hr]
      obtain ⟨i1, i2, i3, i4⟩ := ih (rstep s ev).1
      rw [hf, hrw]
      refine ⟨i1, ?_, ?_, i4⟩
      · show (foldOp rstep (rstep s ev).1 evs).1.calls = s.calls ++ ((readStep s.chunk s.recvfrom s.limC s.base s.st ev).calls ++ _)
        rw [i2]
        show (s.calls ++ (readStep s.chunk s.recvfrom s.limC s.base s.st ev).calls) ++ _ = _
        rw [List.append_assoc]; rfl
      · intro _
        cases evs with
        | nil => simp [foldOp, runRead, rstep, hr]
        | cons e2 es => exact i3 (by simp)
    | nil b => simp [foldOp, runRead, rstep, hr]
    | buf r => simp [foldOp, runRead, rstep, hr]
    | failed e => simp [foldOp, runRead, rstep, hr]
    | starved => simp [foldOp, runRead, rstep, hr]

/-- ★ SHARED STREAM, reads, all schedules: the pending read of fiber `f` makes exactly the system calls of `runRead` against
    the read-direction events of the schedule and ends with its result; what it appended is at most `n` bytes and is the
    next bytes of the arrival sequence, in order, none lost, none twice — whatever other fibers do on the stream. -/
theorem shared_stream_read_exact {α : Type} (chunk recvfrom : Bool) (limC base n : Nat) (inc : List α) (f : Nat)
    (as : List (Act2 (RS α) REv)) (w : W2 (RS α)) (hinv : Inv2 w)
    (ho : w.op f = some (.rd, ⟨chunk, recvfrom, limC, base, rInit n inc, [], .pending⟩)) :
    let t := runRead chunk recvfrom limC base (rInit n inc) (evsOf .close .rd as)
    (t.res = .pending → ∃ s, (run2 rstep .close w as).op f = some (.rd, s) ∧ s.st = t.st ∧ s.calls = t.calls) ∧
    (t.res ≠ .pending → ∃ s, (f, .rd, s) ∈ (run2 rstep .close w as).done ∧ s.st = t.st ∧ s.calls = t.calls ∧ s.res = t.res) ∧
    t.st.got.length ≤ n ∧ t.st.got ++ t.st.inc = inc := by
  intro t
  have hiso := isolation rstep .close f .rd as w _ hinv ho
  rw [track_eq_foldOp rstep .close .rd rstep_close as] at hiso
  obtain ⟨f1, f2, f3, f4⟩ := foldOp_rstep (evsOf REv.close .rd as) (⟨chunk, recvfrom, limC, base, rInit n inc, [], .pending⟩ : RS α)
  have h0 : RInv n inc (rInit n inc) := ⟨rfl, by simp [rInit], by simp [rInit]⟩
  have hi := runRead_inv chunk recvfrom limC base n inc (evsOf REv.close .rd as) _ h0
  refine ⟨?_, ?_, ?_, hi.order⟩
  · intro hp
    have : (foldOp rstep (⟨chunk, recvfrom, limC, base, rInit n inc, [], .pending⟩ : RS α) (evsOf REv.close .rd as)).2 = false := by
      cases hx : (foldOp rstep (⟨chunk, recvfrom, limC, base, rInit n inc, [], .pending⟩ : RS α) (evsOf REv.close .rd as)).2 with
      | false => rfl
      | true => exact absurd hp (f4.mp hx)
    exact ⟨_, hiso.1 this, f1, by simpa using f2⟩
  · intro hp
    refine ⟨_, hiso.2 (f4.mpr hp), f1, by simpa using f2, ?_⟩
    apply f3
    intro hnil
    have : t.res = .pending := by show (runRead chunk recvfrom limC base (rInit n inc) (evsOf REv.close .rd as)).res = _; rw [hnil]; rfl
    exact hp this
  · have h1 : t.st.got.length = t.st.read := hi.len
    have h2 : t.st.read + t.st.left = n := hi.sum
    show t.st.got.length ≤ n
    omega

def fairActR {α : Type} : Act2 (RS α) REv → Bool
  | .ev .rd e => e.productive
  | .close => true
  | _ => false

theorem evsOf_productiveR {α : Type} (as : List (Act2 (RS α) REv)) :
    (as.filter fairActR).length ≤ ((evsOf REv.close .rd as).filter REv.productive).length := by
  induction as with
  | nil => simp [evsOf]
  | cons a as ih =>
    cases a with
    | ev d e =>
      cases d with
      | wr => simpa [evsOf, fairActR, List.filter] using ih
      | rd =>
        cases hp : e.productive with
        | true => simp [evsOf, fairActR, List.filter, hp]; omega
        | false => simp [evsOf, fairActR, List.filter, hp]; omega
    | close => simp [evsOf, fairActR, List.filter, REv.productive]; omega
    | start g dg s0 e0 => simpa [evsOf, fairActR, List.filter] using ih

theorem evsOf_closedR {α : Type} (as : List (Act2 (RS α) REv)) (hc : ∀ e, Act2.ev .rd e ∈ as → e.closed = true) :
    ∀ ev ∈ evsOf REv.close .rd as, ev.closed = true := by
  induction as with
  | nil => intro ev h; simp [evsOf] at h
  | cons a as ih =>
    have ih' := ih (fun e he => hc e (by simp [he]))
    cases a with
    | ev d e =>
      cases d with
      | wr => simpa [evsOf] using ih'
      | rd =>
        intro ev hev
        simp only [evsOf, if_true, List.mem_cons] at hev
        rcases hev with rfl | hev
        · exact hc _ (by simp)
        · exact ih' ev hev
    | close =>
      intro ev hev
      simp only [evsOf, List.mem_cons] at hev
      rcases hev with rfl | hev
      · rfl
      · exact ih' ev hev
    | start g dg s0 e0 => simpa [evsOf] using ih'

/-- ★ system-level liveness for reads: on every infinite schedule of the shared stream in which productive read-direction
    events keep coming (each burst of answers ending with "would block"), the pending read of fiber `f` ends after a finite
    prefix, whatever the other fibers do. -/
theorem shared_stream_read_ends_under_fairness {α : Type} (chunk recvfrom : Bool) (limC base n : Nat) (inc : List α) (f : Nat)
    (sched : Nat → Act2 (RS α) REv) (w : W2 (RS α)) (hinv : Inv2 w)
    (ho : w.op f = some (.rd, ⟨chunk, recvfrom, limC, base, rInit n inc, [], .pending⟩))
    (hc : ∀ i e, sched i = .ev .rd e → e.closed = true)
    (fair : ∀ k, ∃ j, k ≤ j ∧ fairActR (sched j) = true) :
    ∃ m s, (f, Dir.rd, s) ∈ (run2 rstep .close w (prefixOf sched m)).done ∧ s.res.ended = true := by
  obtain ⟨m, hm⟩ := fair_count sched fairActR fair (max 1 n)
  have hcount := evsOf_productiveR (prefixOf sched m)
  have hcl := evsOf_closedR (prefixOf sched m) (by
    intro e he
    obtain ⟨i, hi⟩ := mem_prefix sched m _ he
    exact hc i e hi.symm)
  have hend := read_ends_within chunk recvfrom limC base (evsOf REv.close .rd (prefixOf sched m)) (rInit n inc) hcl
    (by simp [rInit] at hm ⊢; omega)
  have hx := shared_stream_read_exact chunk recvfrom limC base n inc f (prefixOf sched m) w hinv ho
  have hne : (runRead chunk recvfrom limC base (rInit n inc) (evsOf REv.close .rd (prefixOf sched m))).res ≠ .pending := by
    intro h; rw [h] at hend; cases hend
  obtain ⟨s, hs, _, _, hr⟩ := hx.2.1 hne
  exact ⟨m, s, hs, by rw [hr]; exact hend⟩

/-! ## close at the level of the whole stream -/

/-- ★ after `janet_stream_close` no operation is pending on the stream: the reader and the writer each received their
    CLOSE event (recorded in `done` with the callback's CLOSE result), for every reachable state. -/
theorem close_leaves_nothing_pending {σ ε : Type} (step : σ → ε → σ × Bool) (c : ε) (w : W2 σ) (h : Inv2 w) (g : Nat) :
    (step2 step c w .close).op g = none := by
  cases hx : (step2 step c w .close).op g with
  | none => rfl
  | some p =>
    exfalso
    obtain ⟨d, s⟩ := p
    -- if g were still pending in direction d it would still be in slot d; but close clears both slots
    have hinv := step2_inv step c w .close h
    have hs := hinv g d s hx
    have hclear : ∀ (w' : W2 σ) (d' : Dir), (W2.closeDir step c w' d').slot d' = none := by
      intro w' d'
      rcases closeDir_cases step c w' d' with ⟨hr, hn⟩ | ⟨f, s', _, _, hr⟩ | ⟨f, _, _, hr⟩ <;> rw [hr]
      · exact hn
      · simp [W2.finish]
      · simp
    have hkeep : ∀ (w' : W2 σ) (d' d'' : Dir), w'.slot d'' = none → (W2.closeDir step c w' d').slot d'' = none := by
      intro w' d' d'' hn
      rcases closeDir_cases step c w' d' with ⟨hr, _⟩ | ⟨f, s', _, _, hr⟩ | ⟨f, _, _, hr⟩ <;> rw [hr]
      · exact hn
      · simp only [W2.finish]
        by_cases hd : d'' = d'
        · subst hd; simp
        · rw [updS_other _ _ _ _ hd]; exact hn
      · by_cases hd : d'' = d'
        · subst hd; simp
        · show updS w'.slot d' none d'' = none
          rw [updS_other _ _ _ _ hd]; exact hn
    have : (step2 step c w .close).slot d = none := by
      show (W2.closeDir step c (W2.closeDir step c w .rd) .wr).slot d = none
      cases d with
      | rd => exact hkeep _ .wr .rd (hclear w .rd)
      | wr => exact hclear _ .wr
    rw [this] at hs
    cases hs

end JanetModel.Stream.Compose
