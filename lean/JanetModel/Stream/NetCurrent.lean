/-
C16 — obligations over the CURRENT source for the socket callbacks: Gen/Net.lean is regenerated from src/core/net.c,
janet.h and ev.c on every run; this file instantiates the theorems of Props/C16 with the regenerated case groups.
(Separate from Stream/Current.lean so that a tree on which one of these facts fails still builds the other obligations.)
-/
import JanetModel.Props.C16
import JanetModel.Gen.Net

namespace JanetModel.Stream.NetCurrent
open JanetModel.Stream JanetModel.Stream.Net

/-- the model's numbering of JanetAsyncEvent is janet.h's -/
theorem current_source_event_codes : AEv.all.map AEv.code = Gen.Net.eventCodes := by decide

/-- net_callback_connect returns without effect on INIT, MARK and DEINIT -/
theorem current_source_connect_quiet_on_gc :
    AEv.init.code ∈ Gen.Net.connectQuiet ∧ AEv.mark.code ∈ Gen.Net.connectQuiet ∧ AEv.deinit.code ∈ Gen.Net.connectQuiet := by decide

/-- readiness (WRITE), error and hang-up events do reach the SO_ERROR check, CLOSE cancels -/
theorem current_source_connect_checks_on_readiness :
    AEv.write.code ∉ Gen.Net.connectQuiet ∧ AEv.err.code ∉ Gen.Net.connectQuiet ∧ AEv.hup.code ∉ Gen.Net.connectQuiet ∧
    Gen.Net.connectClose = [AEv.close.code] ∧ AEv.close.code ∉ Gen.Net.connectQuiet := by decide

theorem connect_unaffected_by_gc_current (evs : List (AEv × SoAns)) (h : ∀ p ∈ evs, p.1 = .init ∨ p.1 = .mark ∨ p.1 = .deinit) :
    runConnect Gen.Net.connectQuiet Gen.Net.connectClose evs = ⟨.pending, false, 0, evs.length⟩ :=
  JanetModel.Props.C16.connect_unaffected_by_gc _ _ current_source_connect_quiet_on_gc evs h

/-- net_callback_accept: INIT and READ try accept4, CLOSE ends with nil, MARK touches nothing -/
theorem current_source_accept_groups :
    Gen.Net.acceptTry = [AEv.init.code, AEv.read.code] ∧ Gen.Net.acceptClose = [AEv.close.code] ∧
    AEv.mark.code ∉ Gen.Net.acceptTry ∧ AEv.mark.code ∉ Gen.Net.acceptClose := by decide

/-- an accept loop's listener is level-triggered, everything else edge-triggered: the instance of the kernel model the
    liveness theorem `accept_loop_serves_every_connection` is about (`lrun true true`) is the current source's -/
theorem current_source_accept_loop_level_triggered :
    Gen.Net.acceptLoopLevelTriggered = true ∧ Gen.Net.defaultEdgeTriggered = true ∧ AEv.init.code ∈ Gen.Net.acceptTry := by decide

end JanetModel.Stream.NetCurrent
