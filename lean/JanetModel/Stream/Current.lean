/-
C16 — obligation over the CURRENT source: Gen/Stream.lean is regenerated from src/core/ev.c on every run; this file
only builds when `janet_async_start_fiber` guards both listener slots, and then instantiates the full-strength theorem.
(Not imported by Props/C16.lean so that the rest of the library builds on a tree without the guard.)
-/
import JanetModel.Props.C16

namespace JanetModel.Stream.Current
open JanetModel.Stream

theorem current_source_guards_read_slot : Gen.Stream.guardsReadSlot = true := by decide
theorem current_source_guards_write_slot : Gen.Stream.guardsWriteSlot = true := by decide
theorem current_source_registers_dgram_for_write : Gen.Stream.dgramRegisteredForWrite = true := by decide

theorem every_op_completes_or_errors_current (sched : List Act) :
    (∀ f d, (World.runCurrent World.init sched).pend f = some d → (World.runCurrent World.init sched).slot d = some f) ∧
    (∀ g, (World.runCurrent World.init (sched ++ [.close])).pend g = none) :=
  JanetModel.Props.C16.every_op_completes_or_errors current_source_guards_read_slot current_source_guards_write_slot sched

end JanetModel.Stream.Current
