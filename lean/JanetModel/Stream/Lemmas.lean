/-
C16 — lemmas about the stream model (offset arithmetic of the write machine, invariant of the read machine,
slot invariant of the listener registry).
-/
import JanetModel.Stream.Model

namespace JanetModel.Stream

/-! ## write -/

def sumGot : List Call → Nat
  | [] => 0
  | c :: cs => c.got + sumGot cs

theorem sumGot_append (a b : List Call) : sumGot (a ++ b) = sumGot a + sumGot b := by
  induction a with
  | nil => simp [sumGot]
  | cons c cs ih => simp [sumGot, ih, Nat.add_assoc]

theorem delivered_nil {α : Type} (src : List α) : delivered src [] = [] := rfl

theorem delivered_cons {α : Type} (src : List α) (c : Call) (cs : List Call) :
    delivered src (c :: cs) = (src.drop c.off).take c.got ++ delivered src cs := by
  simp [delivered, List.flatMap_cons]

theorem delivered_append {α : Type} (src : List α) (a b : List Call) :
    delivered src (a ++ b) = delivered src a ++ delivered src b := by
  simp [delivered, List.flatMap_append]

/-- consecutive slices of a list glue together -/
theorem take_drop_glue {α : Type} (src : List α) (s a b : Nat) :
    (src.drop s).take a ++ (src.drop (s + a)).take b = (src.drop s).take (a + b) := by
  rw [List.take_add, List.drop_drop]

/-- What one write event guarantees. -/
structure WGood {α : Type} (src : List α) (len : Nat) (dgram : Bool) (start : Nat) (calls : List Call) (start' : Nat) (res : WRes) : Prop where
  deliv : delivered src calls = (src.drop start).take (sumGot calls)
  bound : start + sumGot calls ≤ len
  adv : (dgram = false ∨ res = .pending) → start' = start + sumGot calls
  fin : res = .done → start' ≥ len
  offs : ∀ c ∈ calls, c.got > 0 → c.len = len - c.off

theorem writeCall_good {α : Type} (src : List α) (len : Nat) (dgram : Bool) (start : Nat) (h : start < len) (as : List Ans) :
    WGood src len dgram start (writeCall len dgram start as).calls (writeCall len dgram start as).start (writeCall len dgram start as).res := by
  induction as with
  | nil => exact ⟨by simp [writeCall, delivered, sumGot], by simp [writeCall, sumGot]; omega, by simp [writeCall, sumGot], by simp [writeCall], by simp [writeCall]⟩
  | cons a as ih =>
    cases a with
    | eintr =>
      obtain ⟨d, b, ad, f, o⟩ := ih
      refine ⟨?_, ?_, ?_, ?_, ?_⟩
      · simp only [writeCall, delivered_cons, sumGot, List.take_zero, List.nil_append, Nat.zero_add]; exact d
      · simp only [writeCall, sumGot, Nat.zero_add]; exact b
      · simp only [writeCall, sumGot, Nat.zero_add]; exact ad
      · simp only [writeCall]; exact f
      · intro c hc hg
        simp only [writeCall, List.mem_cons] at hc
        rcases hc with rfl | hc
        · simp at hg
        · exact o c hc hg
    | eagain =>
      exact ⟨by simp [writeCall, delivered, sumGot], by simp [writeCall, sumGot]; omega, by simp [writeCall, sumGot], by simp [writeCall], by simp [writeCall]⟩
    | err c =>
      exact ⟨by simp [writeCall, delivered, sumGot], by simp [writeCall, sumGot]; omega, by simp [writeCall, sumGot], by simp [writeCall], by simp [writeCall]⟩
    | bytes n =>
      by_cases hk : min n (len - start) = 0 ∧ dgram = false
      · simp only [writeCall, hk, and_self, if_true]
        exact ⟨by simp [delivered, sumGot], by simp [sumGot]; omega, by simp [sumGot], by simp, by simp⟩
      · simp only [writeCall, hk, if_false]
        by_cases hp : min n (len - start) > 0
        · simp only [hp, if_true]
          refine ⟨by simp [delivered, sumGot], by simp [sumGot]; omega, by simp [sumGot], ?_, by simp⟩
          intro hd
          by_cases hge : start + min n (len - start) ≥ len
          · exact hge
          · simp [hge] at hd
        · have hz : min n (len - start) = 0 := by omega
          have hdg : dgram = true := by
            cases dgram with
            | true => rfl
            | false => exact absurd ⟨hz, rfl⟩ hk
          simp only [hp, if_false, hz]
          refine ⟨by simp [delivered, sumGot], by simp [sumGot]; omega, ?_, by simp, by simp⟩
          intro hh
          rcases hh with hh | hh
          · rw [hdg] at hh; exact absurd hh (by decide)
          · simp at hh

theorem writeStep_good {α : Type} (src : List α) (len : Nat) (dgram : Bool) (start : Nat) (hs : start ≤ len) (ev : WEv) :
    WGood src len dgram start (writeStep len dgram start ev).calls (writeStep len dgram start ev).start (writeStep len dgram start ev).res := by
  cases ev with
  | ready as =>
    simp only [writeStep, writeEvent]
    by_cases h : start < len
    · simp only [h, if_true]; exact writeCall_good src len dgram start h as
    · simp only [h, if_false]
      exact ⟨by simp [delivered, sumGot], by simp [sumGot]; omega, by simp [sumGot], by intro _; omega, by simp⟩
  | errEv => exact ⟨by simp [writeStep, delivered, sumGot], by simp [writeStep, sumGot]; omega, by simp [writeStep, sumGot], by simp [writeStep], by simp [writeStep]⟩
  | hup => exact ⟨by simp [writeStep, delivered, sumGot], by simp [writeStep, sumGot]; omega, by simp [writeStep, sumGot], by simp [writeStep], by simp [writeStep]⟩
  | close => exact ⟨by simp [writeStep, delivered, sumGot], by simp [writeStep, sumGot]; omega, by simp [writeStep, sumGot], by simp [writeStep], by simp [writeStep]⟩

theorem runWrite_good {α : Type} (src : List α) (len : Nat) (dgram : Bool) (evs : List WEv) :
    ∀ start, start ≤ len →
      WGood src len dgram start (runWrite len dgram start evs).calls (runWrite len dgram start evs).start (runWrite len dgram start evs).res := by
  induction evs with
  | nil =>
    intro start hs
    exact ⟨by simp [runWrite, delivered, sumGot], by simp [runWrite, sumGot]; omega, by simp [runWrite, sumGot], by simp [runWrite], by simp [runWrite]⟩
  | cons ev evs ih =>
    intro start hs
    have g := writeStep_good src len dgram start hs ev
    cases hr : (writeStep len dgram start ev).res with
    | pending =>
      have e1 : (writeStep len dgram start ev).start = start + sumGot (writeStep len dgram start ev).calls := g.adv (Or.inr hr)
      have hb := g.bound
      have g2 := ih (writeStep len dgram start ev).start (by omega)
      simp only [runWrite, hr]
      refine ⟨?_, ?_, ?_, ?_, ?_⟩
      · rw [delivered_append, g.deliv, g2.deliv, sumGot_append, e1, take_drop_glue]
      · rw [sumGot_append]; have := g2.bound; omega
      · intro hh; rw [sumGot_append]; have := g2.adv hh; omega
      · exact g2.fin
      · intro c hc hg
        rcases List.mem_append.mp hc with hc | hc
        · exact g.offs c hc hg
        · exact g2.offs c hc hg
    | done =>
      simp only [runWrite, hr]
      exact ⟨g.deliv, g.bound, by intro hh; exact g.adv (by rcases hh with hh | hh; exact Or.inl hh; simp at hh), by intro _; exact g.fin hr, g.offs⟩
    | failed e =>
      simp only [runWrite, hr]
      exact ⟨g.deliv, g.bound, by intro hh; exact g.adv (by rcases hh with hh | hh; exact Or.inl hh; simp at hh), by simp, g.offs⟩
    | starved =>
      simp only [runWrite, hr]
      exact ⟨g.deliv, g.bound, by intro hh; exact g.adv (by rcases hh with hh | hh; exact Or.inl hh; simp at hh), by simp, g.offs⟩

/-! ## read -/

/-- Invariant of `StateRead` + buffer + kernel queue for an operation that asked for `n` bytes of the arrival
    sequence `inc0`. -/
structure RInv {α : Type} (n : Nat) (inc0 : List α) (st : RSt α) : Prop where
  len : st.got.length = st.read
  sum : st.read + st.left = n
  order : st.got ++ st.inc = inc0

theorem readLimit_le (chunk : Bool) (limC left : Nat) : readLimit chunk limC left ≤ left := by
  unfold readLimit
  split
  · split <;> omega
  · omega

theorem afterReadSt_inv {α : Type} (recvfrom : Bool) (n : Nat) (inc0 : List α) (st : RSt α) (k : Nat)
    (hk : k ≤ st.left) (hi : k ≤ st.inc.length) (h : RInv n inc0 st) :
    RInv n inc0 (afterReadSt recvfrom st k) := by
  obtain ⟨hl, hs, ho⟩ := h
  unfold afterReadSt
  split
  · rename_i h0
    have hk0 : k = 0 := by omega
    subst hk0
    exact ⟨by simpa using hl, by simpa using hs, ho⟩
  · refine ⟨?_, ?_, ?_⟩
    · simp only [List.length_append, List.length_take]; omega
    · show st.read + k + (st.left - k) = n; omega
    · show st.got ++ List.take k st.inc ++ List.drop k st.inc = inc0
      rw [List.append_assoc, List.take_append_drop]; exact ho

theorem readLoop_inv {α : Type} (chunk recvfrom : Bool) (limC base n : Nat) (inc0 : List α) (as : List Ans) :
    ∀ st : RSt α, RInv n inc0 st → RInv n inc0 (readLoop chunk recvfrom limC base st as).st := by
  induction as with
  | nil => intro st h; simpa [readLoop] using h
  | cons a as ih =>
    intro st h
    cases a with
    | eintr => simp only [readLoop]; exact ih st h
    | eagain => simpa [readLoop] using h
    | err c =>
      simp only [readLoop]
      by_cases hp : c = EPIPE ∧ recvfrom = false
      · rw [if_pos hp]
        have hi := afterReadSt_inv recvfrom n inc0 st 0 (Nat.zero_le _) (Nat.zero_le _) h
        cases hr : afterReadRes chunk recvfrom st 0 with
        | some r => exact hi
        | none => exact ih _ hi
      · rw [if_neg hp]; exact h
    | bytes m =>
      simp only [readLoop]
      have hk : min (min m (readLimit chunk limC st.left)) st.inc.length ≤ st.left := by
        have := readLimit_le chunk limC st.left; omega
      have hi := afterReadSt_inv recvfrom n inc0 st _ hk (Nat.min_le_right _ _) h
      cases hr : afterReadRes chunk recvfrom st (min (min m (readLimit chunk limC st.left)) st.inc.length) with
      | some r => exact hi
      | none => exact ih _ hi

theorem readStep_inv {α : Type} (chunk recvfrom : Bool) (limC base n : Nat) (inc0 : List α) (st : RSt α) (ev : REv)
    (h : RInv n inc0 st) : RInv n inc0 (readStep chunk recvfrom limC base st ev).st := by
  cases ev with
  | ready as => exact readLoop_inv chunk recvfrom limC base n inc0 as st h
  | errEv => exact h
  | close => exact h

theorem runRead_inv {α : Type} (chunk recvfrom : Bool) (limC base n : Nat) (inc0 : List α) (evs : List REv) :
    ∀ st : RSt α, RInv n inc0 st → RInv n inc0 (runRead chunk recvfrom limC base st evs).st := by
  induction evs with
  | nil => intro st h; simpa [runRead] using h
  | cons ev evs ih =>
    intro st h
    have hs := readStep_inv chunk recvfrom limC base n inc0 st ev h
    cases hr : (readStep chunk recvfrom limC base st ev).res with
    | pending => simp only [runRead, hr]; exact ih _ hs
    | nil b => simp only [runRead, hr]; exact hs
    | buf r => simp only [runRead, hr]; exact hs
    | failed c => simp only [runRead, hr]; exact hs
    | starved => simp only [runRead, hr]; exact hs

/-- Why an operation ended with a buffer: the post-condition attached to each reason. -/
def RPost {α : Type} (chunk : Bool) (st : RSt α) : RRes → Prop
  | .buf .full => st.left = 0
  | .buf .nonchunk => chunk = false
  | .buf .eof => True
  | .buf .errEvent => True
  | .nil false => st.read = 0
  | _ => True

theorem afterReadRes_post {α : Type} (chunk recvfrom : Bool) (st : RSt α) (k : Nat) :
    ∀ r, afterReadRes chunk recvfrom st k = some r → RPost chunk (afterReadSt recvfrom st k) r := by
  intro r
  unfold afterReadRes afterReadSt
  split
  · rename_i h0
    intro hr; cases hr
    show st.read + k = 0
    exact h0.1
  · split
    · rename_i hc; intro hr; cases hr; exact hc
    · split
      · rename_i hz; intro hr; cases hr; exact hz
      · split
        · intro hr; cases hr; trivial
        · intro hr; cases hr

theorem readLoop_post {α : Type} (chunk recvfrom : Bool) (limC base : Nat) (as : List Ans) :
    ∀ st : RSt α, RPost chunk (readLoop chunk recvfrom limC base st as).st (readLoop chunk recvfrom limC base st as).res := by
  induction as with
  | nil => intro st; simp [readLoop, RPost]
  | cons a as ih =>
    intro st
    cases a with
    | eintr => simp only [readLoop]; exact ih st
    | eagain => simp [readLoop, RPost]
    | err c =>
      simp only [readLoop]
      by_cases hp : c = EPIPE ∧ recvfrom = false
      · rw [if_pos hp]
        have hpst := afterReadRes_post chunk recvfrom st 0
        cases hr : afterReadRes chunk recvfrom st 0 with
        | some r => exact hpst r hr
        | none => exact ih _
      · rw [if_neg hp]; simp [RPost]
    | bytes m =>
      simp only [readLoop]
      have hpst := afterReadRes_post chunk recvfrom st (min (min m (readLimit chunk limC st.left)) st.inc.length)
      cases hr : afterReadRes chunk recvfrom st (min (min m (readLimit chunk limC st.left)) st.inc.length) with
      | some r => exact hpst r hr
      | none => exact ih _

theorem runRead_post {α : Type} (chunk recvfrom : Bool) (limC base : Nat) (evs : List REv) :
    ∀ st : RSt α, RPost chunk (runRead chunk recvfrom limC base st evs).st (runRead chunk recvfrom limC base st evs).res := by
  induction evs with
  | nil => intro st; simp [runRead, RPost]
  | cons ev evs ih =>
    intro st
    have hp : RPost chunk (readStep chunk recvfrom limC base st ev).st (readStep chunk recvfrom limC base st ev).res := by
      cases ev with
      | ready as => exact readLoop_post chunk recvfrom limC base as st
      | errEv =>
        simp only [readStep]
        by_cases hr : st.read > 0
        · simp [hr, RPost]
        · simp only [hr, if_false, RPost]; omega
      | close => simp [readStep, RPost]
    cases hr : (readStep chunk recvfrom limC base st ev).res with
    | pending => simp only [runRead, hr]; exact ih _
    | nil b => simp only [runRead, hr]; rw [hr] at hp; exact hp
    | buf r => simp only [runRead, hr]; rw [hr] at hp; exact hp
    | failed c => simp only [runRead, hr]; simp [RPost]
    | starved => simp only [runRead, hr]; simp [RPost]

end JanetModel.Stream
