/-
C16 — the readiness dispatch of the epoll `janet_loop1_impl` (src/core/ev.c): ONE epoll event word (EPOLLIN / EPOLLOUT /
EPOLLERR / EPOLLHUP and their unions) is turned into an ordered sequence of listener-callback invocations on
`stream->read_fiber` / `stream->write_fiber`; a fiber whose callback ended its operation (`ev_callback == NULL`) gets no
further event of the same word.  The order per flag combination is DATA: `Gen.Dispatch.table`, regenerated from the source on
every run (tools/gen/dispatch.py).  Composed here with the read / write state machines of Stream/Model.lean.  Core Lean only.

C                                                       model
`if (rf->ev_callback && (mask & EPOLLIN)) rf->ev_callback(rf, READ); …`     `kindsFor tbl slot word` (lookup in the table)
ev_callback_read  on READ / HUP | ERR | other            `readDeliver` (read loop | error arm | `default: break`)
ev_callback_write on WRITE | ERR | HUP | other           `writeDeliver`
one loop iteration of janet_loop1_impl for a stream      `readWord` / `writeWord`
an operation from INIT to its end                        `runReadWords` / `runWriteWords`
-/
import JanetModel.Stream.Model
import JanetModel.Gen.Dispatch

namespace JanetModel.Stream

abbrev DTable := List (Nat × List (Nat × Nat))

/-- word bits of the table encoding -/
def wIN : Nat := 1
def wOUT : Nat := 2
def wERR : Nat := 4
def wHUP : Nat := 8
/-- delivered event kinds of the table encoding -/
def kREAD : Nat := 0
def kWRITE : Nat := 1
def kERR : Nat := 2
def kHUP : Nat := 3

def hasBit (w b : Nat) : Bool := (w / b) % 2 == 1

/-- the deliveries for one word, in order (only the four low bits of the encoding count) -/
def dispatchOf (tbl : DTable) (w : Nat) : List (Nat × Nat) :=
  match tbl.find? (fun r => r.1 == w % 16) with
  | some r => r.2
  | none => []

/-- the event kinds one slot's fiber receives for a word, in order (slot 0 = read_fiber, 1 = write_fiber) -/
def kindsFor (tbl : DTable) (slot w : Nat) : List Nat :=
  ((dispatchOf tbl w).filter (fun e => e.1 == slot)).map (fun e => e.2)

/-- One readiness word as the loop sees it: the flag word and the kernel's answers to the system calls made while the
    callbacks run (consumed in order, across the callbacks of this word). -/
structure WordEv where
  word : Nat
  as : List Ans
  deriving Repr, Inhabited

/-! ## reader -/

/-- what `ev_callback_read` does with ONE delivered event kind -/
def readKind {α : Type} (chunk recvfrom : Bool) (limC base : Nat) (st : RSt α) (k : Nat) (as : List Ans) : ROut α :=
  if k = kREAD ∨ k = kHUP then readLoop chunk recvfrom limC base st as               -- case HUP / INIT / READ: read_more loop
  else if k = kERR then { readStep chunk recvfrom limC base st .errEv with rest := as }   -- case ERR
  else { st := st, calls := [], res := .pending, rest := as }                          -- default: break

/-- the callbacks of one word, delivered while the operation is still registered -/
def readDeliver {α : Type} (chunk recvfrom : Bool) (limC base : Nat) : RSt α → List Nat → List Ans → ROut α
  | st, [], as => { st := st, calls := [], res := .pending, rest := as }
  | st, k :: ks, as =>
    let o := readKind chunk recvfrom limC base st k as
    match o.res with
    | .pending =>
      let t := readDeliver chunk recvfrom limC base o.st ks o.rest
      { t with calls := o.calls ++ t.calls }
    | _ => o

def readWord {α : Type} (tbl : DTable) (chunk recvfrom : Bool) (limC base : Nat) (st : RSt α) (e : WordEv) : ROut α :=
  readDeliver chunk recvfrom limC base st (kindsFor tbl 0 e.word) e.as

/-- a read operation after its INIT event: the words the loop dispatches to it until it ends -/
def runReadWords {α : Type} (tbl : DTable) (chunk recvfrom : Bool) (limC base : Nat) : RSt α → List WordEv → RTrace α
  | st, [] => { st := st, calls := [], res := .pending }
  | st, e :: es =>
    let o := readWord tbl chunk recvfrom limC base st e
    match o.res with
    | .pending =>
      let t := runReadWords tbl chunk recvfrom limC base o.st es
      { t with calls := o.calls ++ t.calls }
    | r => { st := o.st, calls := o.calls, res := r }

/-- the same word sequence as a sequence of callback events of the operation-level model (`runRead`): every read-loop
    event carries the answers that are still unconsumed at that point -/
def readKindsEvs {α : Type} (chunk recvfrom : Bool) (limC base : Nat) : RSt α → List Nat → List Ans → List REv
  | _, [], _ => []
  | st, k :: ks, as =>
    if k = kREAD ∨ k = kHUP then
      .ready as :: readKindsEvs chunk recvfrom limC base (readLoop chunk recvfrom limC base st as).st ks
                     (readLoop chunk recvfrom limC base st as).rest
    else if k = kERR then .errEv :: readKindsEvs chunk recvfrom limC base st ks as
    else readKindsEvs chunk recvfrom limC base st ks as

def readWordsEvs {α : Type} (tbl : DTable) (chunk recvfrom : Bool) (limC base : Nat) : RSt α → List WordEv → List REv
  | _, [] => []
  | st, e :: es =>
    readKindsEvs chunk recvfrom limC base st (kindsFor tbl 0 e.word) e.as ++
      readWordsEvs tbl chunk recvfrom limC base (readWord tbl chunk recvfrom limC base st e).st es

/-! ## writer -/

def writeKind (len : Nat) (dgram : Bool) (start : Nat) (k : Nat) (as : List Ans) : WOut :=
  if k = kWRITE then writeEvent len dgram start as                                     -- case INIT / WRITE
  else if k = kERR then { writeStep len dgram start .errEv with rest := as }           -- case ERR: "stream err"
  else if k = kHUP then { writeStep len dgram start .hup with rest := as }             -- case HUP: "stream hup"
  else { start := start, calls := [], res := .pending, rest := as }                    -- default: break

def writeDeliver (len : Nat) (dgram : Bool) : Nat → List Nat → List Ans → WOut
  | start, [], as => { start := start, calls := [], res := .pending, rest := as }
  | start, k :: ks, as =>
    let o := writeKind len dgram start k as
    match o.res with
    | .pending =>
      let t := writeDeliver len dgram o.start ks o.rest
      { t with calls := o.calls ++ t.calls }
    | _ => o

def writeWord (tbl : DTable) (len : Nat) (dgram : Bool) (start : Nat) (e : WordEv) : WOut :=
  writeDeliver len dgram start (kindsFor tbl 1 e.word) e.as

def runWriteWords (tbl : DTable) (len : Nat) (dgram : Bool) : Nat → List WordEv → WTrace
  | start, [] => { start := start, calls := [], res := .pending }
  | start, e :: es =>
    let o := writeWord tbl len dgram start e
    match o.res with
    | .pending =>
      let t := runWriteWords tbl len dgram o.start es
      { t with calls := o.calls ++ t.calls }
    | r => { start := o.start, calls := o.calls, res := r }

def writeKindsEvs (len : Nat) (dgram : Bool) : Nat → List Nat → List Ans → List WEv
  | _, [], _ => []
  | start, k :: ks, as =>
    if k = kWRITE then
      .ready as :: writeKindsEvs len dgram (writeEvent len dgram start as).start ks (writeEvent len dgram start as).rest
    else if k = kERR then .errEv :: writeKindsEvs len dgram start ks as
    else if k = kHUP then .hup :: writeKindsEvs len dgram start ks as
    else writeKindsEvs len dgram start ks as

def writeWordsEvs (tbl : DTable) (len : Nat) (dgram : Bool) : Nat → List WordEv → List WEv
  | _, [] => []
  | start, e :: es =>
    writeKindsEvs len dgram start (kindsFor tbl 1 e.word) e.as ++
      writeWordsEvs tbl len dgram (writeWord tbl len dgram start e).start es

/-! ## decidable facts about a table (the per-run obligations are these, evaluated on `Gen.Dispatch.table`) -/

/-- all 16 words have a row, in order -/
def tableComplete (tbl : DTable) : Bool := tbl.map (fun r => r.1) == List.range 16

/-- DATA FIRST: for every word with EPOLLIN the reader's first event is READ — the descriptor is read from before any
    error / hang-up event can end the operation. -/
def dataFirst (tbl : DTable) : Bool :=
  (List.range 16).all (fun w => !hasBit w wIN || (kindsFor tbl 0 w).head? == some kREAD)

/-- for every word with EPOLLOUT the writer's first event is WRITE -/
def outFirst (tbl : DTable) : Bool :=
  (List.range 16).all (fun w => !hasBit w wOUT || (kindsFor tbl 1 w).head? == some kWRITE)

/-- an error / hang-up condition reaches both fibers: ERR ∈ word → each slot's list contains ERR; same for HUP -/
def condReaches (tbl : DTable) : Bool :=
  (List.range 16).all (fun w =>
    (!hasBit w wERR || ((kindsFor tbl 0 w).contains kERR && (kindsFor tbl 1 w).contains kERR)) &&
    (!hasBit w wHUP || ((kindsFor tbl 0 w).contains kHUP && (kindsFor tbl 1 w).contains kHUP)))

/-- nothing is invented: a kind is delivered only when its flag is in the word, READ only to the reader, WRITE only to the
    writer, no other kinds, each at most once per fiber -/
def noSpurious (tbl : DTable) : Bool :=
  (List.range 16).all (fun w =>
    (dispatchOf tbl w).all (fun e =>
      (e.1 == 0 || e.1 == 1) &&
      ((e.2 == kREAD && hasBit w wIN && e.1 == 0) || (e.2 == kWRITE && hasBit w wOUT && e.1 == 1) ||
       (e.2 == kERR && hasBit w wERR) || (e.2 == kHUP && hasBit w wHUP))) &&
    (kindsFor tbl 0 w).Nodup && (kindsFor tbl 1 w).Nodup)

/-- a real epoll event word (EPOLLIN = 0x1, EPOLLOUT = 0x4, EPOLLERR = 0x8, EPOLLHUP = 0x10; every other bit is ignored by the
    dispatch — asserted by the translator) in the table's encoding -/
def ofEpoll (e : Nat) : Nat :=
  (if e % 2 = 1 then wIN else 0) + (if (e / 4) % 2 = 1 then wOUT else 0) + (if (e / 8) % 2 = 1 then wERR else 0) +
    (if (e / 16) % 2 = 1 then wHUP else 0)

/-- the dispatch of the current source -/
abbrev currentTable : DTable := Gen.Dispatch.table

end JanetModel.Stream
