/-
C01 — facts about the root-set protocol model (GC/Roots.lean): the roots array refines a multiset of idEq-classes,
janet_gcunroot removes exactly one occurrence, janet_gcunrootall (per loop shape), suspension.
-/
import JanetModel.GC.Roots
import JanetModel.GC.Collect

namespace JanetModel.GC
open List

/-! ### idEq is equality of class representatives -/

theorem idEq_iff_norm (a b : RVal) : idEq a b = true ↔ a.norm = b.norm := by
  cases a with | mk ta pa => cases b with | mk tb pb =>
  unfold idEq RVal.norm
  by_cases ht : ta = tb
  · subst ht
    cases hc : alwaysEq ta <;> simp
  · cases hc : alwaysEq ta <;> cases hc' : alwaysEq tb <;> simp [ht]

theorem idEq_refl (a : RVal) : idEq a a = true := (idEq_iff_norm a a).mpr rfl
theorem idEq_symm {a b : RVal} (h : idEq a b = true) : idEq b a = true :=
  (idEq_iff_norm b a).mpr ((idEq_iff_norm a b).mp h).symm
theorem idEq_trans {a b c : RVal} (h1 : idEq a b = true) (h2 : idEq b c = true) : idEq a c = true :=
  (idEq_iff_norm a c).mpr (((idEq_iff_norm a b).mp h1).trans ((idEq_iff_norm b c).mp h2))

theorem idEq_false_norm {a b : RVal} (h : idEq a b = false) : (a.norm == b.norm) = false := by
  have : ¬ a.norm = b.norm := fun e => by rw [(idEq_iff_norm a b).mpr e] at h; cases h
  simpa using this

/-! ### swap-with-last -/

theorem dropLast_getLast {α} {l : List α} {a : α} (h : l.getLast? = some a) : l.dropLast ++ [a] = l := by
  have hne : l ≠ [] := fun e => by subst e; simp at h
  have e := List.dropLast_concat_getLast hne
  rw [List.getLast?_eq_some_getLast hne] at h
  simp only [Option.some.injEq] at h
  rw [h] at e; exact e

theorem swapLast_nil : swapLast [] = [] := rfl

theorem swapLast_perm (rest : List RVal) : (swapLast rest).Perm rest := by
  unfold swapLast
  cases hl : rest.getLast? with
  | none =>
    have : rest = [] := by simpa using hl
    simp [this]
  | some last =>
    have e := dropLast_getLast hl
    simp only
    calc (last :: rest.dropLast).Perm (rest.dropLast ++ [last]) := (perm_append_singleton last rest.dropLast).symm
      _ = rest := e

/-! ### janet_gcunroot -/

/-- `return 0` exactly when no root is id-equal to `x` -/
theorem unrootGo_none (x : RVal) (l : List RVal) : unrootGo x l = none ↔ ∀ v ∈ l, idEq x v = false := by
  induction l with
  | nil => simp [unrootGo]
  | cons v rest ih =>
    by_cases c : idEq x v = true
    · simp [unrootGo, c]
    · have c' : idEq x v = false := by simpa using c
      simp [unrootGo, c', ih]

/-- `return 1`: the array afterwards is, as a multiset, the array before minus its FIRST id-equal element -/
theorem unrootGo_some (x : RVal) (l l' : List RVal) (h : unrootGo x l = some l') :
    l'.Perm (l.eraseP (fun v => idEq x v)) := by
  induction l generalizing l' with
  | nil => simp [unrootGo] at h
  | cons v rest ih =>
    by_cases c : idEq x v = true
    · simp only [unrootGo, c, if_true, Option.some.injEq] at h
      subst h
      simp only [eraseP_cons_of_pos c]
      exact swapLast_perm rest
    · have c' : idEq x v = false := by simpa using c
      simp only [unrootGo, c', Bool.false_eq_true, if_false, Option.map_eq_some_iff] at h
      obtain ⟨r, hr, rfl⟩ := h
      rw [eraseP_cons_of_neg (by simp [c'])]
      exact (ih r hr).cons v

theorem length_unrootGo (x : RVal) (l l' : List RVal) (h : unrootGo x l = some l') : l'.length + 1 = l.length := by
  have hp := (unrootGo_some x l l' h).length_eq
  have : ∃ v ∈ l, idEq x v = true := by
    by_cases c : ∀ v ∈ l, idEq x v = false
    · rw [(unrootGo_none x l).mpr c] at h; cases h
    · simp only [Classical.not_forall] at c
      obtain ⟨v, hv, hne⟩ := c
      exact ⟨v, hv, by simpa using hne⟩
  obtain ⟨v, hv, hp2⟩ := this
  rw [hp, length_eraseP_of_mem hv hp2]
  have : 0 < l.length := length_pos_of_mem hv
  omega

/-- on class representatives `eraseP (idEq x)` is `erase x.norm` -/
theorem map_norm_eraseP (x : RVal) (l : List RVal) :
    (l.eraseP (fun v => idEq x v)).map RVal.norm = (l.map RVal.norm).erase x.norm := by
  induction l with
  | nil => rfl
  | cons v rest ih =>
    by_cases c : idEq x v = true
    · have e : v.norm = x.norm := ((idEq_iff_norm x v).mp c).symm
      rw [eraseP_cons_of_pos c, map_cons, e, erase_cons_head]
    · have c' : idEq x v = false := by simpa using c
      have ne : (v.norm == x.norm) = false := by
        have := idEq_false_norm c'
        rw [Bool.eq_false_iff] at this ⊢
        intro e; apply this; simp only [beq_iff_eq] at e ⊢; exact e.symm
      rw [eraseP_cons_of_neg (by simp [c']), map_cons, map_cons, erase_cons_tail (by simp [ne]), ih]

/-! ### janet_gcunrootall -/

theorem unrootAllGo_length_le (rescan : Bool) (x : RVal) :
    ∀ (fuel : Nat) (l : List RVal), (unrootAllGo rescan x fuel l).1.length ≤ l.length := by
  intro fuel
  induction fuel with
  | zero => intro l; simp [unrootAllGo]
  | succ fuel ih =>
    intro l
    cases l with
    | nil => simp [unrootAllGo]
    | cons v rest =>
      by_cases c : idEq x v = true
      · simp only [unrootAllGo, c, if_true]
        cases hl : rest.getLast? with
        | none => simp
        | some last =>
          have e := congrArg List.length (dropLast_getLast hl)
          simp only [length_append, length_cons, length_nil] at e
          cases rescan with
          | true =>
            have := ih (last :: rest.dropLast)
            simp only [if_true, length_cons] at this ⊢
            omega
          | false =>
            have := ih rest.dropLast
            simp only [Bool.false_eq_true, if_false, length_cons] at this ⊢
            omega
      · have c' : idEq x v = false := by simpa using c
        have := ih rest
        simp only [unrootAllGo, c', Bool.false_eq_true, if_false, length_cons]
        omega

/-- every root that is NOT id-equal to `x` is kept (as a multiset), whatever the loop shape -/
theorem unrootAllGo_keeps (rescan : Bool) (x : RVal) :
    ∀ (fuel : Nat) (l : List RVal), l.length ≤ fuel →
      ((unrootAllGo rescan x fuel l).1.filter (fun v => !idEq x v)).Perm (l.filter (fun v => !idEq x v)) := by
  intro fuel
  induction fuel with
  | zero =>
    intro l hl
    have : l = [] := by cases l with | nil => rfl | cons _ _ => simp at hl
    subst this; simp [unrootAllGo]
  | succ fuel ih =>
    intro l hl
    cases l with
    | nil => simp [unrootAllGo]
    | cons v rest =>
      have hrest : rest.length ≤ fuel := by simp only [length_cons] at hl; omega
      by_cases c : idEq x v = true
      · simp only [unrootAllGo, c, if_true]
        rw [filter_cons_of_neg (by simp [c])]
        cases hlast : rest.getLast? with
        | none =>
          have : rest = [] := by simpa using hlast
          simp [this]
        | some last =>
          have e := dropLast_getLast hlast
          have hd : rest.dropLast.length + 1 = rest.length := by
            have := congrArg List.length e
            simpa using this
          have pr : (last :: rest.dropLast).Perm rest := by
            calc (last :: rest.dropLast).Perm (rest.dropLast ++ [last]) := (perm_append_singleton last rest.dropLast).symm
              _ = rest := e
          cases rescan with
          | true =>
            simp only [if_true]
            have := ih (last :: rest.dropLast) (by simp only [length_cons]; omega)
            exact this.trans (pr.filter _)
          | false =>
            simp only [Bool.false_eq_true, if_false]
            have := ih rest.dropLast (by omega)
            have step : ((last :: (unrootAllGo false x fuel rest.dropLast).1).filter (fun v => !idEq x v)).Perm
                ((last :: rest.dropLast).filter (fun v => !idEq x v)) := by
              by_cases cl : idEq x last = true
              · rw [filter_cons_of_neg (by simp [cl]), filter_cons_of_neg (by simp [cl])]; exact this
              · have cl' : idEq x last = false := by simpa using cl
                rw [filter_cons_of_pos (by simp [cl']), filter_cons_of_pos (by simp [cl'])]; exact this.cons last
            exact step.trans (pr.filter _)
      · have c' : idEq x v = false := by simpa using c
        simp only [unrootAllGo, c', Bool.false_eq_true, if_false]
        rw [filter_cons_of_pos (by simp [c']), filter_cons_of_pos (by simp [c'])]
        exact (ih rest hrest).cons v

/-- the return value is 1 exactly when some root is id-equal to `x` -/
theorem unrootAllGo_ret (rescan : Bool) (x : RVal) :
    ∀ (fuel : Nat) (l : List RVal), l.length ≤ fuel → (unrootAllGo rescan x fuel l).2 = l.any (fun v => idEq x v) := by
  intro fuel
  induction fuel with
  | zero =>
    intro l hl
    have : l = [] := by cases l with | nil => rfl | cons _ _ => simp at hl
    subst this; simp [unrootAllGo]
  | succ fuel ih =>
    intro l hl
    cases l with
    | nil => simp [unrootAllGo]
    | cons v rest =>
      have hrest : rest.length ≤ fuel := by simp only [length_cons] at hl; omega
      by_cases c : idEq x v = true
      · simp only [unrootAllGo, c, if_true, any_cons, Bool.true_or]
        cases hlast : rest.getLast? with
        | none => rfl
        | some last => cases rescan <;> simp
      · have c' : idEq x v = false := by simpa using c
        simp only [unrootAllGo, c', Bool.false_eq_true, if_false, any_cons, Bool.false_or]
        exact ih rest hrest

/-- with the re-examining loop nothing id-equal to `x` is left -/
theorem unrootAllGo_rescan_clean (x : RVal) :
    ∀ (fuel : Nat) (l : List RVal), l.length ≤ fuel → ∀ v ∈ (unrootAllGo true x fuel l).1, idEq x v = false := by
  intro fuel
  induction fuel with
  | zero =>
    intro l hl
    have : l = [] := by cases l with | nil => rfl | cons _ _ => simp at hl
    subst this; simp [unrootAllGo]
  | succ fuel ih =>
    intro l hl
    cases l with
    | nil => simp [unrootAllGo]
    | cons v rest =>
      have hrest : rest.length ≤ fuel := by simp only [length_cons] at hl; omega
      by_cases c : idEq x v = true
      · simp only [unrootAllGo, c, if_true]
        cases hlast : rest.getLast? with
        | none => simp
        | some last =>
          have hd : rest.dropLast.length + 1 = rest.length := by
            have := congrArg List.length (dropLast_getLast hlast)
            simpa using this
          simp only [if_true]
          exact ih (last :: rest.dropLast) (by simp only [length_cons]; omega)
      · have c' : idEq x v = false := by simpa using c
        simp only [unrootAllGo, c', Bool.false_eq_true, if_false, mem_cons]
        intro w hw
        rcases hw with rfl | hw
        · exact c'
        · exact ih rest hrest w hw

theorem filter_eq_self_of_all {α} {p : α → Bool} {l : List α} (h : ∀ v ∈ l, p v = true) : l.filter p = l :=
  List.filter_eq_self.mpr h

/-- so the re-examining loop leaves exactly the roots not id-equal to `x` -/
theorem unrootAllGo_rescan_perm (x : RVal) (fuel : Nat) (l : List RVal) (hl : l.length ≤ fuel) :
    (unrootAllGo true x fuel l).1.Perm (l.filter (fun v => !idEq x v)) := by
  have h1 := unrootAllGo_keeps true x fuel l hl
  have h2 : (unrootAllGo true x fuel l).1.filter (fun v => !idEq x v) = (unrootAllGo true x fuel l).1 :=
    filter_eq_self_of_all (fun v hv => by simp [unrootAllGo_rescan_clean x fuel l hl v hv])
  rw [h2] at h1; exact h1

theorem map_norm_filter (x : RVal) (l : List RVal) :
    (l.filter (fun v => !idEq x v)).map RVal.norm = (l.map RVal.norm).filter (fun v => v != x.norm) := by
  induction l with
  | nil => rfl
  | cons v rest ih =>
    by_cases c : idEq x v = true
    · have e : v.norm = x.norm := ((idEq_iff_norm x v).mp c).symm
      rw [filter_cons_of_neg (by simp [c]), map_cons, filter_cons_of_neg (by simp [e]), ih]
    · have c' : idEq x v = false := by simpa using c
      have ne : v.norm ≠ x.norm := fun e => by rw [(idEq_iff_norm x v).mpr e.symm] at c'; cases c'
      rw [filter_cons_of_pos (by simp [c']), map_cons, map_cons, filter_cons_of_pos (by simp [ne]), ih]

/-! ### reachability does not depend on the order (or multiplicity) of the roots -/

theorem Reachable.congr_roots {h h' : Heap} (hg : ∀ j, h.get j = h'.get j) (hr : ∀ e ∈ h.roots, e ∈ h'.roots) {i : Id}
    (r : Reachable h i) : Reachable h' i := by
  induction r with
  | root he hs => exact Reachable.root (hr _ he) (hg _ ▸ hs)
  | step _ ho he hs ih => exact Reachable.step ih (hg _ ▸ ho) he (hg _ ▸ hs)

theorem heapWithRoots_get (h : Heap) (vm : VM) (j : Id) : (heapWithRoots h vm).get j = h.get j := rfl

theorem refTy_not_alwaysEq (t : Nat) (ht : isRefTy t = true) : alwaysEq t = false := by
  unfold isRefTy at ht
  simp only [List.contains_eq_mem, List.mem_cons, List.mem_nil_iff, or_false, decide_eq_true_eq] at ht
  rcases ht with rfl | rfl | rfl | rfl | rfl | rfl | rfl | rfl | rfl | rfl | rfl <;> decide

theorem mem_flatMap_edge_of_perm {l l' : List RVal} (p : (l.map RVal.norm).Perm (l'.map RVal.norm)) {e : Edge}
    (he : e ∈ l.flatMap RVal.edge) : e ∈ l'.flatMap RVal.edge := by
  simp only [mem_flatMap] at he ⊢
  obtain ⟨v, hv, hev⟩ := he
  have hr : isRefTy v.ty = true := by
    unfold RVal.edge at hev
    by_cases c : isRefTy v.ty = true
    · exact c
    · simp [c] at hev
  have hn : v.norm = v := by
    unfold RVal.norm; simp [refTy_not_alwaysEq _ hr]
  have : v.norm ∈ l'.map RVal.norm := p.subset (mem_map_of_mem hv)
  obtain ⟨w, hw, hwn⟩ := mem_map.mp this
  refine ⟨w, hw, ?_⟩
  have hw' : w = v := by
    rw [hn] at hwn
    unfold RVal.norm at hwn
    cases c : alwaysEq w.ty with
    | true =>
      simp only [c, if_true] at hwn
      have : v.ty = w.ty := by rw [← hwn]
      rw [← this, refTy_not_alwaysEq _ hr] at c; cases c
    | false => simpa [c] using hwn
  rw [hw']; exact hev

end JanetModel.GC

namespace JanetModel.GC
open List

/-! ### op histories: the array refines a multiset; capacity; suspended regions -/

/-- the specification: a multiset (list up to permutation) of idEq-class representatives -/
def absRoots (m : List RVal) : ROp → List RVal
  | .root x => m ++ [x.norm]
  | .unroot x => m.erase x.norm
  | .unrootall x => m.filter (fun v => v != x.norm)
  | _ => m

def ROp.isUnrootall : ROp → Bool
  | .unrootall _ => true
  | _ => false

theorem collectVM_eq (D : Nat) (h : Heap) (vm : VM) :
    collectVM D h vm = if vm.gcSuspend = 0 then
      ({ collect D (heapWithRoots h vm) with roots := h.roots },
       { vm with gcInterval := if vm.blockCount * Gen.GC.intervalMul > vm.gcInterval then vm.blockCount * Gen.GC.gcObjectSize
                               else vm.gcInterval,
                 markPhase := false, nextCollection := 0,
                 blockCount := vm.blockCount - (liveCount (heapWithRoots h vm) -
                   liveCount { collect D (heapWithRoots h vm) with roots := h.roots }),
                 scratch := [], collections := vm.collections + 1 })
    else (h, vm) := by
  unfold collectVM
  by_cases c : vm.gcSuspend = 0
  · rw [if_pos c, if_neg (by simp [c])]
  · rw [if_neg c, if_pos (by simpa using c)]

/-- **while `gc_suspend` is non-zero `janet_collect` does nothing at all** -/
theorem collectVM_locked (D : Nat) (h : Heap) (vm : VM) (hs : vm.gcSuspend ≠ 0) : collectVM D h vm = (h, vm) := by
  rw [collectVM_eq]; simp only [hs, if_false]

theorem collectVM_susp (D : Nat) (h : Heap) (vm : VM) : (collectVM D h vm).2.gcSuspend = vm.gcSuspend := by
  rw [collectVM_eq]
  by_cases c : vm.gcSuspend = 0
  · simp only [c, if_true]
  · simp only [c, if_false]

theorem collectVM_roots (D : Nat) (h : Heap) (vm : VM) : (collectVM D h vm).2.roots = vm.roots := by
  rw [collectVM_eq]
  by_cases c : vm.gcSuspend = 0
  · simp only [c, if_true]
  · simp only [c, if_false]

theorem collectVM_rootCap (D : Nat) (h : Heap) (vm : VM) : (collectVM D h vm).2.rootCap = vm.rootCap := by
  rw [collectVM_eq]
  by_cases c : vm.gcSuspend = 0
  · simp only [c, if_true]
  · simp only [c, if_false]

theorem stepOp_roots (D : Nat) (s : Heap × VM) (op : ROp)
    (hcfg : Gen.GC.unrootallRescans = true ∨ op.isUnrootall = false) :
    ((stepOp D s op).1.2.roots.map RVal.norm).Perm (absRoots (s.2.roots.map RVal.norm) op) := by
  cases op with
  | root x => simp [stepOp, gcroot, absRoots]
  | unroot x =>
    simp only [stepOp, gcunroot, absRoots]
    cases hu : unrootGo x s.2.roots with
    | none =>
      simp only
      have hn := (unrootGo_none x s.2.roots).mp hu
      have : ¬ x.norm ∈ s.2.roots.map RVal.norm := by
        intro hm
        obtain ⟨v, hv, e⟩ := mem_map.mp hm
        have := hn v hv
        rw [(idEq_iff_norm x v).mpr e.symm] at this; cases this
      rw [erase_of_not_mem this]
    | some rs =>
      simp only
      have := (unrootGo_some x s.2.roots rs hu).map RVal.norm
      rw [map_norm_eraseP] at this
      exact this
  | unrootall x =>
    rcases hcfg with hcfg | hcfg
    · simp only [stepOp, gcunrootall, gcunrootallWith, absRoots, hcfg]
      have := (unrootAllGo_rescan_perm x (s.2.roots.length + 1) s.2.roots (by omega)).map RVal.norm
      rw [map_norm_filter] at this
      exact this
    · cases hcfg
  | lock => exact Perm.refl _
  | unlock hd => exact Perm.refl _
  | pressure n => exact Perm.refl _
  | newObj o size => exact Perm.refl _
  | collect => simp only [stepOp, absRoots, collectVM_roots]; exact Perm.refl _
  | safepoint f =>
    simp only [stepOp, absRoots, maybeCollect]
    by_cases c : shouldCollect s.2 f = true
    · simp only [c, if_true, collectVM_roots]; exact Perm.refl _
    · simp only [c]; exact Perm.refl _
  | smalloc id => exact Perm.refl _
  | sfree id =>
    simp only [stepOp, absRoots]
    cases hs : sfree s.2 id with
    | none => exact Perm.refl _
    | some vm =>
      simp only
      unfold sfree at hs
      simp only [Option.map_eq_some_iff] at hs
      obtain ⟨sc, _, rfl⟩ := hs
      exact Perm.refl _
  | setInterval n => exact Perm.refl _

theorem absRoots_perm {m m' : List RVal} (p : m.Perm m') (op : ROp) : (absRoots m op).Perm (absRoots m' op) := by
  cases op <;> simp only [absRoots] <;> first | exact p | skip
  · exact p.append_right _
  · exact p.erase _
  · exact p.filter _

theorem runOps_roots (D : Nat) (ops : List ROp) :
    ∀ (s : Heap × VM), (Gen.GC.unrootallRescans = true ∨ ∀ op ∈ ops, op.isUnrootall = false) →
      ((runOps D s ops).2.roots.map RVal.norm).Perm (ops.foldl absRoots (s.2.roots.map RVal.norm)) := by
  induction ops with
  | nil => intro s _; exact Perm.refl _
  | cons op rest ih =>
    intro s hcfg
    have hcfg1 : Gen.GC.unrootallRescans = true ∨ op.isUnrootall = false :=
      hcfg.imp id (fun h => h op mem_cons_self)
    have hcfg2 : Gen.GC.unrootallRescans = true ∨ ∀ o ∈ rest, o.isUnrootall = false :=
      hcfg.imp id (fun h o ho => h o (mem_cons_of_mem _ ho))
    simp only [runOps, foldl_cons]
    have h1 := stepOp_roots D s op hcfg1
    have h2 := ih (stepOp D s op).1 hcfg2
    simp only [runOps] at h2
    refine h2.trans ?_
    -- foldl of absRoots respects permutations of the start multiset
    have fold_perm : ∀ (l : List ROp) (m m' : List RVal), m.Perm m' → (l.foldl absRoots m).Perm (l.foldl absRoots m') := by
      intro l
      induction l with
      | nil => intro m m' p; exact p
      | cons o r ihr => intro m m' p; simp only [foldl_cons]; exact ihr _ _ (absRoots_perm p o)
    exact fold_perm rest _ _ h1

/-- `root_count ≤ root_capacity` is an invariant of every op history (so `roots[root_count] = root` in janet_gcroot stays in
bounds): needs only `1 ≤ rootGrowMul` of the regenerated constants -/
theorem stepOp_cap (D : Nat) (s : Heap × VM) (op : ROp) (hinv : s.2.roots.length ≤ s.2.rootCap) :
    (stepOp D s op).1.2.roots.length ≤ (stepOp D s op).1.2.rootCap := by
  cases op with
  | root x =>
    simp only [stepOp, gcroot, length_append, length_cons, length_nil]
    by_cases c : s.2.roots.length + 1 > s.2.rootCap
    · simp only [c, if_true]
      have : 1 ≤ Gen.GC.rootGrowMul := by decide
      calc s.2.roots.length + (0 + 1) = 1 * (s.2.roots.length + 1) := by omega
        _ ≤ Gen.GC.rootGrowMul * (s.2.roots.length + 1) := Nat.mul_le_mul_right _ this
    · simp only [c, if_false]; omega
  | unroot x =>
    simp only [stepOp, gcunroot]
    cases hu : unrootGo x s.2.roots with
    | none => exact hinv
    | some rs =>
      have := length_unrootGo x _ _ hu
      simp only; omega
  | unrootall x =>
    simp only [stepOp, gcunrootall, gcunrootallWith]
    exact Nat.le_trans (unrootAllGo_length_le _ x _ _) hinv
  | lock => exact hinv
  | unlock hd => exact hinv
  | pressure n => exact hinv
  | newObj o size => exact hinv
  | collect =>
    simp only [stepOp, collectVM_roots, collectVM_rootCap]; exact hinv
  | safepoint f =>
    simp only [stepOp, maybeCollect]
    by_cases c : shouldCollect s.2 f = true
    · simp only [c, if_true, collectVM_roots, collectVM_rootCap]; exact hinv
    · simp only [c]; exact hinv
  | smalloc id => exact hinv
  | sfree id =>
    simp only [stepOp]
    cases hs : sfree s.2 id with
    | none => exact hinv
    | some vm =>
      unfold sfree at hs
      simp only [Option.map_eq_some_iff] at hs
      obtain ⟨sc, _, rfl⟩ := hs
      exact hinv
  | setInterval n => exact hinv

theorem runOps_cap (D : Nat) (ops : List ROp) :
    ∀ (s : Heap × VM), s.2.roots.length ≤ s.2.rootCap → (runOps D s ops).2.roots.length ≤ (runOps D s ops).2.rootCap := by
  induction ops with
  | nil => intro s h; exact h
  | cons op rest ih => intro s h; simp only [runOps, foldl_cons]; exact ih _ (stepOp_cap D s op h)

/-- a history keeps collection suspended when it starts suspended and never unlocks down to a handle ≤ 0 -/
def keepsSuspended : List ROp → Bool
  | [] => true
  | .unlock hd :: r => decide (0 < hd) && keepsSuspended r
  | _ :: r => keepsSuspended r

theorem heapAdd_get_old (h : Heap) (o : Obj) (i : Nat) (x : Obj) (hx : h.get i = some x) : (heapAdd h o).get i = some x := by
  have hlt : i < h.size := get_lt hx
  unfold heapAdd Heap.get
  have : i < h.size + 1 := by omega
  have hne : i ≠ h.size := by omega
  simp only [this, if_true, hne, if_false]
  exact hx

/-- inside a suspended region no collection runs and no block is freed or changed -/
theorem stepOp_suspended (D : Nat) (s : Heap × VM) (op : ROp) (hs : 0 < s.2.gcSuspend)
    (hop : keepsSuspended [op] = true) :
    0 < (stepOp D s op).1.2.gcSuspend ∧ (stepOp D s op).1.2.collections = s.2.collections ∧
    (∀ i x, s.1.get i = some x → (stepOp D s op).1.1.get i = some x) := by
  have hne : s.2.gcSuspend ≠ 0 := Int.ne_of_gt hs
  have hcol : collectVM D s.1 s.2 = (s.1, s.2) := collectVM_locked D _ _ hne
  cases op with
  | root x => exact ⟨hs, rfl, fun _ _ h => h⟩
  | unroot x =>
    simp only [stepOp, gcunroot]
    cases hu : unrootGo x s.2.roots <;> exact ⟨hs, rfl, fun _ _ h => h⟩
  | unrootall x => exact ⟨hs, rfl, fun _ _ h => h⟩
  | lock => exact ⟨by show 0 < s.2.gcSuspend + 1; omega, rfl, fun _ _ h => h⟩
  | unlock hd =>
    simp only [keepsSuspended, Bool.and_true, decide_eq_true_eq] at hop
    exact ⟨hop, rfl, fun _ _ h => h⟩
  | pressure n => exact ⟨hs, rfl, fun _ _ h => h⟩
  | newObj o size => exact ⟨hs, rfl, fun i x h => heapAdd_get_old s.1 o i x h⟩
  | collect =>
    rw [show stepOp D s .collect = (collectVM D s.1 s.2, 0) from rfl, hcol]
    exact ⟨hs, rfl, fun _ _ h => h⟩
  | safepoint f =>
    rw [show stepOp D s (.safepoint f) = (maybeCollect D s.1 s.2 f, 0) from rfl]
    unfold maybeCollect
    by_cases c : shouldCollect s.2 f = true
    · rw [if_pos c, hcol]; exact ⟨hs, rfl, fun _ _ h => h⟩
    · rw [if_neg c]; exact ⟨hs, rfl, fun _ _ h => h⟩
  | smalloc id => exact ⟨hs, rfl, fun _ _ h => h⟩
  | sfree id =>
    simp only [stepOp]
    cases hsf : sfree s.2 id with
    | none => exact ⟨hs, rfl, fun _ _ h => h⟩
    | some vm =>
      unfold sfree at hsf
      simp only [Option.map_eq_some_iff] at hsf
      obtain ⟨sc, _, rfl⟩ := hsf
      exact ⟨hs, rfl, fun _ _ h => h⟩
  | setInterval n => exact ⟨hs, rfl, fun _ _ h => h⟩

theorem keepsSuspended_cons (op : ROp) (r : List ROp) (h : keepsSuspended (op :: r) = true) :
    keepsSuspended [op] = true ∧ keepsSuspended r = true := by
  cases op <;> simp_all [keepsSuspended]

theorem runOps_suspended (D : Nat) (ops : List ROp) :
    ∀ (s : Heap × VM), 0 < s.2.gcSuspend → keepsSuspended ops = true →
      0 < (runOps D s ops).2.gcSuspend ∧ (runOps D s ops).2.collections = s.2.collections ∧
      (∀ i x, s.1.get i = some x → (runOps D s ops).1.get i = some x) := by
  induction ops with
  | nil => intro s hs _; exact ⟨hs, rfl, fun _ _ h => h⟩
  | cons op rest ih =>
    intro s hs hk
    obtain ⟨h1, h2⟩ := keepsSuspended_cons op rest hk
    obtain ⟨a1, a2, a3⟩ := stepOp_suspended D s op hs h1
    obtain ⟨b1, b2, b3⟩ := ih (stepOp D s op).1 a1 h2
    simp only [runOps, foldl_cons] at b1 b2 b3 ⊢
    exact ⟨b1, b2.trans a2, fun i x h => b3 i x (a3 i x h)⟩

end JanetModel.GC
