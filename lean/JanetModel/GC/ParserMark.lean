/- The one gcmark callback whose mark depends on STATE: `parsermark` (parse.c) marks `parser->error` - which is either NULL,
   a static C string, or the payload of a janet string allocated by `delim_error` - only when the flag bit
   JANET_PARSER_GENERATED_ERROR is set.  Marking it without the bit would lose a reachable block; marking a static string
   with the bit set would hand a non-heap pointer to the collector.  So the collector is right iff
        bit set  ⇔  error is the heap string                                                            (Inv)
   holds whenever a collection can run, i.e. between any two API calls on the parser.

   `Gen.GC.parserSites` lists every write of `->error` / `->flag` in parse.c per function.  This file gives the writes
   their meaning on the abstract state (kind of `error`, the two flag bits), takes one function's writes as one
   transition (a collection cannot happen in between: parse.c allocates but never reaches an interpreter safepoint),
   guards them as the source does (consumer callbacks run only inside the loop of janet_parser_consume, which is entered
   and continued only while `error == NULL`; janet_parser_error acts only when `error != NULL`) and proves Inv for every
   history of transitions.  CORE LEAN ONLY. -/
import JanetModel.Gen.GC

namespace JanetModel.GC.ParserMark
open JanetModel.Gen.GC

inductive ErrKind where
  | null      -- NULL
  | static    -- a string literal of parse.c
  | heap      -- payload of a janet string (delim_error)
  deriving DecidableEq, Repr

/-- what the collector's decision depends on -/
structure PState where
  err : ErrKind
  gen : Bool      -- JANET_PARSER_GENERATED_ERROR
  dead : Bool     -- JANET_PARSER_DEAD
  deriving DecidableEq, Repr

/-- one write; `errCopy` / `flagCopy` (janet_parser_clone) copy the field of the source parser `src` -/
def act (src : PState) (s : PState) : PAct → PState
  | .errStatic => { s with err := .static }
  | .errNull => { s with err := .null }
  | .errHeap => { s with err := .heap }
  | .errCopy => { s with err := src.err }
  | .setGen => { s with gen := true }
  | .clearGen => { s with gen := false }
  | .setDead => { s with dead := true }
  | .flagZero => { s with gen := false, dead := false }
  | .flagOnlyDead => { s with gen := false, dead := true }
  | .flagOnlyGen => { s with gen := true, dead := false }
  | .flagCopy => { s with gen := src.gen, dead := src.dead }

def acts (src : PState) (s : PState) (l : List PAct) : PState := l.foldl (act src) s

/-- when may the writes of a function run?  A function that stores a static message is a consumer callback (or a helper
    of one): `static`, reached only through `state->consumer(...)` in the loop `while (!consumed && !parser->error)` of
    janet_parser_consume, itself behind janet_parser_checkdead (`error == NULL`, `flag == 0`): it runs with
    `error == NULL`.  janet_parser_error writes only when `error != NULL`.  Everything else: any state. -/
def guard (site : String × Bool × List PAct) (s : PState) : Bool :=
  if site.2.2.contains .errStatic then site.2.1 && s.err == .null
  else if site.1 == "janet_parser_error" then s.err != .null
  else true

/-- parsermark: marks `error` as a heap string iff the bit is set -/
def marksError (s : PState) : Bool := s.gen

/-- the collector's decision is right -/
def Inv (s : PState) : Bool := s.gen == (s.err == .heap)

def allStates : List PState :=
  [.null, .static, .heap].flatMap fun e => [false, true].flatMap fun g => [false, true].map fun d => ⟨e, g, d⟩

theorem mem_allStates (s : PState) : s ∈ allStates := by
  obtain ⟨e, g, d⟩ := s
  cases e <;> cases g <;> cases d <;> decide

/-- the finite certificate: every function of the table keeps Inv, from every state in which it may run, whatever the
    state of the parser it copies from (itself satisfying Inv) -/
def sitesKeepInv (sites : List (String × Bool × List PAct)) : Bool :=
  sites.all fun site => allStates.all fun s => allStates.all fun src =>
    !(Inv s && Inv src && guard site s) || Inv (acts src s site.2.2)

/-- a history: which function ran, and (for clone) the state of the source parser -/
structure Ev where
  site : String × Bool × List PAct
  src : PState

/-- run a history; an event whose guard is false does not happen -/
def run (s : PState) : List Ev → PState
  | [] => s
  | e :: es => run (if guard e.site s then acts e.src s e.site.2.2 else s) es

theorem run_inv (sites : List (String × Bool × List PAct)) (hk : sitesKeepInv sites = true) :
    ∀ (es : List Ev) (s : PState), Inv s = true → (∀ e ∈ es, e.site ∈ sites ∧ Inv e.src = true) → Inv (run s es) = true := by
  intro es
  induction es with
  | nil => intro s h _; exact h
  | cons e es ih =>
    intro s h hall
    unfold run
    have he := hall e (List.mem_cons_self ..)
    apply ih _ _ (fun e' h' => hall e' (List.mem_cons_of_mem _ h'))
    by_cases g : guard e.site s = true
    · rw [if_pos g]
      unfold sitesKeepInv at hk
      rw [List.all_eq_true] at hk
      have h1 := hk e.site he.1
      rw [List.all_eq_true] at h1
      have h2 := h1 s (mem_allStates s)
      rw [List.all_eq_true] at h2
      have h3 := h2 e.src (mem_allStates e.src)
      simp only [h, he.2, g, Bool.and_self, Bool.not_true, Bool.false_or] at h3
      exact h3
    · rw [if_neg g]; exact h

end JanetModel.GC.ParserMark
