/-
C01 — the slot-level weak pass (GC/Weak.lean) characterised, its bookkeeping, and refinement of the heap model's `clearWeak`.
-/
import JanetModel.GC.Weak
import JanetModel.GC.Collect

namespace JanetModel.GC
open Std List

theorem sweepSlots_data (m : HashSet Nat) (kind : Nat) :
    ∀ (data : List KV) (c d : Nat),
      (sweepSlots m kind data c d).1 = data.map (fun kv => if dropSlot m kind kv then tombstone else kv) := by
  intro data
  induction data with
  | nil => intro c d; rfl
  | cons kv rest ih =>
    intro c d
    by_cases h : dropSlot m kind kv = true
    · simp only [sweepSlots, h, if_true, map_cons, ih]
    · simp only [sweepSlots, h, map_cons, ih]; rfl

theorem sweepSlots_counts (m : HashSet Nat) (kind : Nat) :
    ∀ (data : List KV) (c d : Nat),
      (sweepSlots m kind data c d).2 =
        (c - (data.filter (dropSlot m kind)).length, d + (data.filter (dropSlot m kind)).length) := by
  intro data
  induction data with
  | nil => intro c d; rfl
  | cons kv rest ih =>
    intro c d
    by_cases h : dropSlot m kind kv = true
    · simp only [sweepSlots, h, if_true, ih, filter_cons_of_pos, length_cons]
      refine Prod.ext ?_ ?_ <;> simp only <;> omega
    · have h' : dropSlot m kind kv = false := by simpa using h
      simp only [sweepSlots, h', Bool.false_eq_true, if_false, ih]
      rw [filter_cons_of_neg (by simp [h'])]

theorem tombstone_not_occupied : tombstone.occupied = false := by decide

/-- the occupied slots after the pass are the occupied slots that were not dropped -/
theorem sweepSlots_occupied (m : HashSet Nat) (kind : Nat) (data : List KV) (c d : Nat) :
    (sweepSlots m kind data c d).1.filter KV.occupied = data.filter (fun kv => kv.occupied && !dropSlot m kind kv) := by
  rw [sweepSlots_data]
  induction data with
  | nil => rfl
  | cons kv rest ih =>
    by_cases h : dropSlot m kind kv = true
    · simp only [map_cons, h, if_true]
      rw [filter_cons_of_neg (by simp [tombstone_not_occupied]), filter_cons_of_neg (by simp [h]), ih]
    · have h' : dropSlot m kind kv = false := by simpa using h
      simp only [map_cons, h', Bool.false_eq_true, if_false]
      by_cases ho : kv.occupied = true
      · rw [filter_cons_of_pos ho, filter_cons_of_pos (by simp [ho, h']), ih]
      · rw [filter_cons_of_neg ho, filter_cons_of_neg (by simp [ho]), ih]

theorem ids_all (m : HashSet Nat) (v : SVal) : v.toVal.ids.all (fun w => m.contains w) = checkLiveref m v := by
  cases v <;> simp [SVal.toVal, Val.ids, checkLiveref]

/-- a slot is kept exactly when the weakly held side of its model entry is entirely marked -/
theorem keep_iff_entry (m : HashSet Nat) (kind : Nat) (kv : KV) (hk : checkKeys kind = true ∨ checkValues kind = true) :
    (!dropSlot m kind kv) =
      (match checkKeys kind, checkValues kind with
        | true, false => kv.key.toVal.ids
        | false, true => kv.value.toVal.ids
        | true, true => kv.key.toVal.ids ++ kv.value.toVal.ids
        | false, false => []).all (fun w => m.contains w) := by
  unfold dropSlot
  cases hck : checkKeys kind <;> cases hcv : checkValues kind
  · rw [hck, hcv] at hk; simp at hk
  · simp [ids_all]
  · simp [ids_all]
  · simp [ids_all, Bool.not_or]

theorem entries_sweep (m : HashSet Nat) (kind : Nat) (data : List KV) (e : KV → WeakEntry)
    (he : ∀ kv, (!dropSlot m kind kv) = (e kv).weak.all (fun w => m.contains w)) :
    (data.filter (fun kv => kv.occupied && !dropSlot m kind kv)).map e =
      ((data.filter KV.occupied).map e).filter (fun en => en.weak.all (fun w => m.contains w)) := by
  induction data with
  | nil => rfl
  | cons kv rest ih =>
    by_cases ho : kv.occupied = true
    · rw [filter_cons_of_pos ho, map_cons]
      by_cases hd : dropSlot m kind kv = true
      · have : (e kv).weak.all (fun w => m.contains w) = false := by rw [← he, hd]; rfl
        rw [filter_cons_of_neg (by simp [ho, hd]),
          filter_cons_of_neg (p := fun en : WeakEntry => en.weak.all (fun w => m.contains w)) (a := e kv) (by simp [this]), ih]
      · have hd' : dropSlot m kind kv = false := by simpa using hd
        have : (e kv).weak.all (fun w => m.contains w) = true := by rw [← he, hd']; rfl
        rw [filter_cons_of_pos (by simp [ho, hd']), map_cons,
          filter_cons_of_pos (p := fun en : WeakEntry => en.weak.all (fun w => m.contains w)) (a := e kv) this, ih]
    · rw [filter_cons_of_neg ho, filter_cons_of_neg (by simp [ho]), ih]

/-- **refinement**: the C-shaped pass over `data[0..capacity)` followed by abstraction = abstraction followed by the heap
model's `clearWeak` (weak-key, weak-value and weak-key-value tables) -/
theorem absTable_sweep (m : HashSet Nat) (t : WTable) (hk : checkKeys t.kind = true ∨ checkValues t.kind = true) :
    absTable (sweepWeakTable m t) = clearWeak m (absTable t) := by
  unfold absTable sweepWeakTable
  simp only [sweepSlots_occupied]
  have key := fun kv => keep_iff_entry m t.kind kv hk
  cases hck : checkKeys t.kind <;> cases hcv : checkValues t.kind
  · rw [hck, hcv] at hk; simp at hk
  · simp only [hck, hcv] at key
    simp only [Obj.table, clearWeak, map_map]
    congr 1
    exact entries_sweep m t.kind t.data _ key
  · simp only [hck, hcv] at key
    simp only [Obj.table, clearWeak, map_map]
    congr 1
    exact entries_sweep m t.kind t.data _ key
  · simp only [hck, hcv] at key
    simp only [Obj.table, clearWeak, map_map]
    congr 1
    exact entries_sweep m t.kind t.data _ key

/-- weak arrays: nil-ing the dead slots in place refines `clearWeak` on the entries of the reference-holding slots -/
theorem nilIfDead_ref_live (m : HashSet Nat) (i : Id) (c : m.contains i = true) : nilIfDead m (.ref i) = .ref i := by
  simp [nilIfDead, checkLiveref, c]
theorem nilIfDead_ref_dead (m : HashSet Nat) (i : Id) (c : m.contains i = false) : nilIfDead m (.ref i) = .nil := by
  simp [nilIfDead, checkLiveref, c]
theorem nilIfDead_nonref (m : HashSet Nat) (v : SVal) (h : ∀ i, v ≠ .ref i) : nilIfDead m v = v := by
  cases v with
  | ref i => exact absurd rfl (h i)
  | _ => simp [nilIfDead, checkLiveref]

theorem absArray_sweep (m : HashSet Nat) (items : List SVal) :
    absArray (sweepWeakArray m items) = clearWeak m (absArray items) := by
  unfold absArray sweepWeakArray clearWeak
  simp only [Obj.mk.injEq, true_and]
  induction items with
  | nil => rfl
  | cons v rest ih =>
    rw [map_cons, filterMap_cons, filterMap_cons]
    cases v with
    | ref i =>
      by_cases c : m.contains i = true
      · rw [nilIfDead_ref_live m i c]
        simp only [refEntry]
        rw [filter_cons_of_pos (by simp [c]), ih]
      · have c' : m.contains i = false := by simpa using c
        rw [nilIfDead_ref_dead m i c']
        simp only [refEntry]
        rw [filter_cons_of_neg (by simp [c']), ih]
    | nil => rw [nilIfDead_nonref m _ (by intro i h; cases h)]; simp only [refEntry]; exact ih
    | fls => rw [nilIfDead_nonref m _ (by intro i h; cases h)]; simp only [refEntry]; exact ih
    | imm => rw [nilIfDead_nonref m _ (by intro i h; cases h)]; simp only [refEntry]; exact ih

/-- bookkeeping: under well-formedness every dropped slot was occupied, so `count` keeps counting the occupied slots -/
theorem drop_occupied (m : HashSet Nat) (kind : Nat) (kv : KV)
    (hw : (kv.occupied || (kv.value matches .nil | .fls | .imm)) = true) (hd : dropSlot m kind kv = true) :
    kv.occupied = true := by
  cases hk : kv.key with
  | nil =>
    -- nil key: the value holds no reference, so both liveness tests pass
    have hv : (kv.value matches .nil | .fls | .imm) = true := by simpa [KV.occupied, hk] using hw
    unfold dropSlot at hd
    cases hvv : kv.value <;> simp_all [checkLiveref]
  | fls => simp [KV.occupied, hk]
  | imm => simp [KV.occupied, hk]
  | ref i => simp [KV.occupied, hk]

theorem filter_split_len (l : List KV) (occ drop : KV → Bool) (h : ∀ kv ∈ l, drop kv = true → occ kv = true) :
    (l.filter occ).length = (l.filter (fun kv => occ kv && !drop kv)).length + (l.filter drop).length := by
  induction l with
  | nil => rfl
  | cons kv rest ih =>
    have ih' := ih (fun x hx => h x (mem_cons_of_mem _ hx))
    by_cases hd : drop kv = true
    · have ho := h kv mem_cons_self hd
      rw [filter_cons_of_pos ho, filter_cons_of_neg (by simp [hd]), filter_cons_of_pos hd]
      simp only [length_cons]; omega
    · have hd' : drop kv = false := by simpa using hd
      by_cases ho : occ kv = true
      · rw [filter_cons_of_pos ho, filter_cons_of_pos (by simp [ho, hd']), filter_cons_of_neg hd]
        simp only [length_cons]; omega
      · rw [filter_cons_of_neg ho, filter_cons_of_neg (by simp [ho]), filter_cons_of_neg hd]
        exact ih'

theorem sweepWeakTable_wf (m : HashSet Nat) (t : WTable) (hw : t.wf = true) : (sweepWeakTable m t).wf = true := by
  unfold WTable.wf at hw ⊢
  simp only [Bool.and_eq_true, all_eq_true, beq_iff_eq] at hw ⊢
  obtain ⟨hall, hcnt⟩ := hw
  have hdo : ∀ kv ∈ t.data, dropSlot m t.kind kv = true → kv.occupied = true :=
    fun kv hkv hd => drop_occupied m t.kind kv (hall kv hkv) hd
  constructor
  · intro kv hkv
    simp only [sweepWeakTable, sweepSlots_data, mem_map] at hkv
    obtain ⟨kv0, h0, rfl⟩ := hkv
    by_cases hd : dropSlot m t.kind kv0 = true
    · simp only [hd, if_true]; decide
    · simp only [hd]; exact hall kv0 h0
  · simp only [sweepWeakTable, sweepSlots_counts, sweepSlots_occupied]
    have := filter_split_len t.data KV.occupied (dropSlot m t.kind) hdo
    omega

end JanetModel.GC
